(* C38 - proofs about the VRF model: completeness by group algebra,
   structural rejections, and the hash-injectivity part of soundness. *)
From V Require Import Lib.Base C38.Model.
Local Open Scope N_scope.

(* ---- byte-level helpers ---- *)
Lemma firstn_app_exact {A} (a b : list A) n : length a = n -> firstn n (a ++ b) = a.
Proof. intros <-. induction a; cbn; congruence. Qed.
Lemma skipn_app_exact {A} (a b : list A) n : length a = n -> skipn n (a ++ b) = b.
Proof. intros <-. induction a; cbn; auto. Qed.
Lemma skipn_plus {A} n : forall (l : list A) m, skipn (n + m) l = skipn m (skipn n l).
Proof.
  induction n as [|n IH]; intros [|x l] m; cbn; auto.
  destruct m; reflexivity.
Qed.
Lemma firstn_exact {A} (a : list A) n : length a = n -> firstn n a = a.
Proof. intros <-. apply firstn_all. Qed.

Lemma n2le_len len : forall n, length (n2le len n) = len.
Proof. induction len as [|l IH]; intros n; cbn [n2le length]; [reflexivity|rewrite IH; reflexivity]. Qed.

Lemma le2n_n2le len : forall n, n < 256 ^ N.of_nat len -> le2n (n2le len n) = n.
Proof.
  induction len as [|l IH]; intros n Hn.
  - cbn in Hn. cbn. lia.
  - rewrite Nat2N.inj_succ, N.pow_succ_r' in Hn.
    cbn [n2le]. change (le2n (n mod 256 :: n2le l (n / 256)))
      with (n mod 256 + 256 * le2n (n2le l (n / 256))).
    rewrite IH.
    + pose proof (N.div_mod' n 256). lia.
    + apply N.div_lt_upper_bound; lia.
Qed.

Lemma le2n_bound (b : bytes) : Forall (fun x => x < 256) b -> le2n b < 256 ^ N.of_nat (length b).
Proof.
  induction 1 as [|x r Hx _ IH].
  - cbn. lia.
  - cbn [length]. rewrite Nat2N.inj_succ, N.pow_succ_r'.
    change (le2n (x :: r)) with (x + 256 * le2n r).
    remember (256 ^ N.of_nat (length r)) as P. lia.
Qed.

Lemma Forall_firstn {A} (P : A -> Prop) n : forall l, Forall P l -> Forall P (firstn n l).
Proof.
  induction n as [|n IH]; intros l Hl; cbn; [constructor|].
  destruct Hl; constructor; auto.
Qed.

Lemma layout3 (g c s : bytes) :
  length g = 32%nat -> length c = 16%nat -> length s = 32%nat ->
  let pi := g ++ c ++ s in
  length pi = 80%nat /\ firstn 32 pi = g /\ slice 32 16 pi = c /\ slice 48 32 pi = s.
Proof.
  intros Hg Hc Hs pi. unfold slice, pi. repeat split.
  - rewrite !app_length. lia.
  - apply firstn_app_exact. exact Hg.
  - rewrite (skipn_app_exact g) by exact Hg. apply firstn_app_exact. exact Hc.
  - change 48%nat with (32 + 16)%nat. rewrite skipn_plus, (skipn_app_exact g) by exact Hg.
    rewrite (skipn_app_exact c) by exact Hc. apply firstn_exact. exact Hs.
Qed.

Lemma bytes_eqb_refl b : bytes_eqb b b = true.
Proof. apply bytes_eqb_eq. reflexivity. Qed.

(* no assumption about the group or the hashes is needed here *)
Section structural.
  Variable G : Type.
  Variable add : G -> G -> G.
  Variable neg : G -> G.
  Variable zero : G.
  Variable smul : N -> G -> G.
  Variable B : G.
  Variable L : N.
  Variable geq : G -> G -> bool.
  Variable encode : G -> bytes.
  Variable decode : bytes -> option G.
  Variable h2c : G -> bytes -> option G.
  Variable H512 : bytes -> bytes.

  Local Notation sub := (sub G add neg).
  Local Notation hash_points := (hash_points G encode H512).
  Local Notation proof_to_hash := (proof_to_hash G smul encode decode H512).
  Local Notation verify_core := (verify_core G add neg smul B L encode decode h2c H512).
  Local Notation verify_and_hash := (verify_and_hash G add neg zero smul B L geq encode decode h2c H512).

  (* ---- structural rejections ---- *)
  Theorem noncanonical_s pk pi alpha :
    L <= le2n (slice 48 32 pi) -> forall out, verify_and_hash pk pi alpha <> VOk out.
  Proof.
    intros Hs out. unfold Model.verify_and_hash.
    destruct (decode pk) as [Y|]; [|discriminate].
    destruct (geq (smul 8 Y) zero); [discriminate|].
    assert (E : verify_core Y pi alpha = None \/ verify_core Y pi alpha = None) by
      (left; unfold Model.verify_core;
       destruct (negb (Nat.eqb (length pi) 80)); [reflexivity|];
       destruct (decode (firstn 32 pi)); [|reflexivity];
       destruct (h2c Y alpha); [|reflexivity];
       destruct (N.leb_spec L (le2n (slice 48 32 pi))); [reflexivity|lia]).
    destruct E as [-> | ->]; discriminate.
  Qed.

  (* with everything else well-formed the verdict is exactly "malformed" *)
  Theorem noncanonical_s_bad pk pi alpha :
    L <= le2n (slice 48 32 pi) -> verify_and_hash pk pi alpha = VBad.
  Proof.
    intros Hs. unfold Model.verify_and_hash.
    destruct (decode pk) as [Y|]; [|reflexivity].
    destruct (geq (smul 8 Y) zero); [reflexivity|].
    unfold Model.verify_core.
    destruct (negb (Nat.eqb (length pi) 80)); [reflexivity|].
    destruct (decode (firstn 32 pi)); [|reflexivity].
    destruct (h2c Y alpha); [|reflexivity].
    destruct (N.leb_spec L (le2n (slice 48 32 pi))); [reflexivity|lia].
  Qed.

  Theorem small_order_pk pk Y pi alpha :
    decode pk = Some Y -> geq (smul 8 Y) zero = true -> verify_and_hash pk pi alpha = VBad.
  Proof. intros Ed Hs. unfold Model.verify_and_hash. rewrite Ed, Hs. reflexivity. Qed.

  Theorem bad_length pk pi alpha : length pi <> 80%nat -> verify_and_hash pk pi alpha = VBad.
  Proof.
    intros Hl. unfold Model.verify_and_hash.
    destruct (decode pk) as [Y|]; [|reflexivity].
    destruct (geq (smul 8 Y) zero); [reflexivity|].
    unfold Model.verify_core. destruct (Nat.eqb_spec (length pi) 80); [contradiction|reflexivity].
  Qed.

  (* ---- what an accepted proof satisfies ---- *)
  Lemma accepted pk pi alpha out : verify_and_hash pk pi alpha = VOk out ->
    exists Y Gm Hp,
      decode pk = Some Y /\ geq (smul 8 Y) zero = false /\ length pi = 80%nat
      /\ decode (firstn 32 pi) = Some Gm /\ h2c Y alpha = Some Hp
      /\ le2n (slice 48 32 pi) < L
      /\ slice 32 16 pi =
         hash_points Hp Gm
           (sub (smul (le2n (slice 48 32 pi)) B) (smul (le2n (slice 32 16 pi) mod L) Y))
           (sub (smul (le2n (slice 48 32 pi)) Hp) (smul (le2n (slice 32 16 pi) mod L) Gm))
      /\ out = H512 (4 :: 3 :: encode (smul 8 Gm)).
  Proof.
    unfold Model.verify_and_hash. destruct (decode pk) as [Y|]; [|discriminate].
    destruct (geq (smul 8 Y) zero) eqn:Eso; [discriminate|].
    destruct (verify_core Y pi alpha) as [[|]|] eqn:Ev; try discriminate.
    unfold Model.verify_core in Ev.
    destruct (Nat.eqb_spec (length pi) 80) as [Hl|]; [|discriminate]. cbn [negb] in Ev.
    destruct (decode (firstn 32 pi)) as [Gm|] eqn:Eg; [|discriminate].
    destruct (h2c Y alpha) as [Hp|] eqn:Eh; [|discriminate].
    destruct (N.leb_spec L (le2n (slice 48 32 pi))) as [|Hs]; [discriminate|].
    inversion Ev as [Ec]. apply bytes_eqb_eq in Ec.
    unfold Model.proof_to_hash. rewrite Hl, Eg. cbn [Nat.eqb negb].
    intros E. inversion E; subst.
    exists Y, Gm, Hp. repeat split; auto.
  Qed.

End structural.

Section proofs.
  Variable G : Type.
  Variable add : G -> G -> G.
  Variable neg : G -> G.
  Variable zero : G.
  Variable smul : N -> G -> G.
  Variable B : G.
  Variable L : N.
  Variable geq : G -> G -> bool.
  Variable encode : G -> bytes.
  Variable decode : bytes -> option G.
  Variable h2c : G -> bytes -> option G.
  Variable H512 : bytes -> bytes.

  (* the curve points form an abelian group acted on by the naturals *)
  Hypothesis add_assoc : forall P Q R, add P (add Q R) = add (add P Q) R.
  Hypothesis add_comm : forall P Q, add P Q = add Q P.
  Hypothesis add_zero_l : forall P, add zero P = P.
  Hypothesis add_neg_r : forall P, add P (neg P) = zero.
  Hypothesis smul_add_l : forall a b P, smul (a + b) P = add (smul a P) (smul b P).
  Hypothesis smul_mul : forall a b P, smul (a * b) P = smul a (smul b P).
  Hypothesis smul_0 : forall P, smul 0 P = zero.
  (* B and every hash-to-curve output (cofactor-cleared) lie in the subgroup of order L *)
  Hypothesis B_ord : smul L B = zero.
  Hypothesis h2c_ord : forall Y alpha Hp, h2c Y alpha = Some Hp -> smul L Hp = zero.
  (* encodings *)
  Hypothesis dec_enc : forall P, decode (encode P) = Some P.
  Hypothesis enc_len : forall P, length (encode P) = 32%nat.
  Hypothesis sha_len : forall x, length (H512 x) = 64%nat.
  Hypothesis sha_bytes : forall x, Forall (fun b => b < 256) (H512 x).
  Hypothesis L_lo : 2 ^ 128 <= L.
  Hypothesis L_hi : L <= 2 ^ 256.

  Local Notation sub := (sub G add neg).
  Local Notation hash_points := (hash_points G encode H512).
  Local Notation proof_to_hash := (proof_to_hash G smul encode decode H512).
  Local Notation prove := (prove G smul B L encode decode h2c H512).
  Local Notation verify_core := (verify_core G add neg smul B L encode decode h2c H512).
  Local Notation verify_and_hash := (verify_and_hash G add neg zero smul B L geq encode decode h2c H512).
  Local Notation keygen := (keygen G smul B L encode H512).
  Local Notation x_of := (x_of L H512).
  Local Notation accepted := (accepted G add neg zero smul B L geq encode decode h2c H512).

  Lemma smul_zero a : smul a zero = zero.
  Proof. rewrite <- (smul_0 B), <- smul_mul, N.mul_0_r. reflexivity. Qed.

  Lemma smul_mod n P : smul L P = zero -> smul (n mod L) P = smul n P.
  Proof.
    intros HL. rewrite (N.div_mod' n L) at 2.
    rewrite smul_add_l, (N.mul_comm L), smul_mul, HL, smul_zero, add_zero_l. reflexivity.
  Qed.

  Lemma cancel A K : add (add A K) (neg A) = K.
  Proof.
    rewrite (add_comm A K), <- add_assoc, add_neg_r, add_comm, add_zero_l. reflexivity.
  Qed.

  (* s*P - c*(x*P) = k*P  for s = (c*x + k) mod L, P of order dividing L *)
  Lemma schnorr c x k P : smul L P = zero ->
    sub (smul ((c * x + k) mod L) P) (smul c (smul x P)) = smul k P.
  Proof.
    intros HL. rewrite smul_mod by exact HL.
    rewrite smul_add_l, smul_mul. unfold Model.sub. apply cancel.
  Qed.

  Lemma hash_points_len P1 P2 P3 P4 : length (hash_points P1 P2 P3 P4) = 16%nat.
  Proof. unfold Model.hash_points. rewrite firstn_length, sha_len. reflexivity. Qed.

  Lemma hash_points_small P1 P2 P3 P4 : le2n (hash_points P1 P2 P3 P4) < 2 ^ 128.
  Proof.
    pose proof (le2n_bound (hash_points P1 P2 P3 P4)) as Hb.
    rewrite hash_points_len in Hb. change (256 ^ N.of_nat 16) with (2 ^ 128) in Hb.
    apply Hb. unfold Model.hash_points. apply Forall_firstn, sha_bytes.
  Qed.

  (* ---- completeness ---- *)
  Theorem complete sk alpha pi out :
    prove sk alpha = Some (pi, out) ->
    geq (smul 8 (smul (x_of sk) B)) zero = false ->
    keygen sk = Some (encode (smul (x_of sk) B))
    /\ verify_and_hash (encode (smul (x_of sk) B)) pi alpha = VOk out.
  Proof.
    unfold Model.prove, Model.keygen. intros Hp Hso.
    destruct (Nat.eqb (length sk) 32); cbn [negb] in *; [|discriminate].
    split; [reflexivity|].
    fold (x_of sk) in Hp. set (x := x_of sk) in *. set (Y := smul x B) in *.
    destruct (h2c Y alpha) as [Hpt|] eqn:Eh; [|discriminate].
    set (Gm := smul x Hpt) in *.
    set (k := le2n (H512 (slice 32 32 (H512 sk) ++ encode Hpt)) mod L) in *.
    set (c16 := hash_points Hpt Gm (smul k B) (smul k Hpt)) in *.
    set (s := (le2n c16 * x + k) mod L) in *.
    assert (HP : 0 < 2 ^ 128) by (vm_compute; reflexivity).
    assert (HL0 : 0 < L) by lia.
    assert (Hs : s < L) by (apply N.mod_lt; lia).
    destruct (layout3 (encode Gm) c16 (n2le 32 s)) as (Ln & E1 & E2 & E3);
      [apply enc_len|apply hash_points_len|apply n2le_len|].
    set (pi0 := encode Gm ++ c16 ++ n2le 32 s) in *.
    destruct (proof_to_hash pi0) as [o|] eqn:Epth; [|discriminate].
    inversion Hp; subst pi out. clear Hp.
    unfold Model.verify_and_hash. rewrite dec_enc. fold Y. rewrite Hso.
    assert (Ev : verify_core Y pi0 alpha = Some true).
    { unfold Model.verify_core. rewrite Ln. cbn [Nat.eqb negb].
      rewrite E1, dec_enc, Eh, E2, E3.
      assert (Es : le2n (n2le 32 s) = s).
      { apply le2n_n2le. change (256 ^ N.of_nat 32) with (2 ^ 256). lia. }
      rewrite Es. destruct (N.leb_spec L s); [lia|].
      assert (Ec : le2n c16 mod L = le2n c16).
      { apply N.mod_small. pose proof (hash_points_small Hpt Gm (smul k B) (smul k Hpt)).
        fold c16 in H0. lia. }
      rewrite Ec. unfold s, Y, Gm.
      rewrite (schnorr (le2n c16) x k B B_ord).
      rewrite (schnorr (le2n c16) x k Hpt (h2c_ord _ _ _ Eh)).
      fold c16. rewrite bytes_eqb_refl. reflexivity. }
    rewrite Ev, Epth. reflexivity.
  Qed.

  (* ---- a generated public key is never of small order ---- *)
  Lemma clamp_shape b : exists m, clamp b = 8 * m /\ 2 ^ 251 <= m < 2 ^ 252.
  Proof.
    unfold clamp. set (v := le2n b). exists ((v mod 2 ^ 254 - v mod 8 + 2 ^ 254) / 8).
    change (2 ^ 254) with 28948022309329048855892746252171976963317496166410141009864396001978282409984.
    change (2 ^ 251) with 3618502788666131106986593281521497120414687020801267626233049500247285301248.
    change (2 ^ 252) with 7237005577332262213973186563042994240829374041602535252466099000494570602496.
    lia.
  Qed.

  Section key_order.
    Hypothesis geq_true : forall P Q, geq P Q = true -> P = Q.
    Hypothesis B_order : forall n, smul n B = zero -> n mod L = 0.
    Hypothesis L_odd : N.gcd L 8 = 1.
    Hypothesis L_gt : 2 ^ 252 < L.

    Lemma divides_small n : N.divide L n -> n < L -> n = 0.
    Proof. intros [q ->] Hlt. destruct q as [|q]; [reflexivity|]. nia. Qed.

    Theorem key_not_small_order sk : geq (smul 8 (smul (x_of sk) B)) zero = false.
    Proof.
      destruct (geq (smul 8 (smul (x_of sk) B)) zero) eqn:E; [exfalso|reflexivity].
      apply geq_true in E. rewrite <- smul_mul in E. apply B_order in E.
      assert (HL : L <> 0) by (assert (0 < 2 ^ 252) by (vm_compute; reflexivity); lia).
      apply N.mod_divide in E; [|exact HL].
      apply N.gauss in E; [|exact L_odd].
      assert (Hx : x_of sk = 0).
      { apply divides_small; [exact E|]. unfold Model.x_of. apply N.mod_lt. exact HL. }
      unfold Model.x_of in Hx. apply N.mod_divide in Hx; [|exact HL].
      destruct (clamp_shape (firstn 32 (H512 sk))) as (m & Em & Hm1 & Hm2).
      rewrite Em in Hx. apply N.gauss in Hx; [|exact L_odd].
      apply divides_small in Hx; [|lia].
      assert (0 < 2 ^ 251) by (vm_compute; reflexivity). lia.
    Qed.
  End key_order.

  (* the output returned by Prove is the hash of the cofactor-cleared Gamma *)
  Theorem prove_output sk alpha pi out :
    prove sk alpha = Some (pi, out) ->
    exists Hp, h2c (smul (x_of sk) B) alpha = Some Hp
      /\ firstn 32 pi = encode (smul (x_of sk) Hp)
      /\ length pi = 80%nat
      /\ out = H512 (4 :: 3 :: encode (smul 8 (smul (x_of sk) Hp))).
  Proof.
    unfold Model.prove. intros Hp.
    destruct (Nat.eqb (length sk) 32); cbn [negb] in *; [|discriminate].
    fold (x_of sk) in Hp. set (x := x_of sk) in *.
    destruct (h2c (smul x B) alpha) as [Hpt|] eqn:Eh; [|discriminate].
    exists Hpt. split; [reflexivity|].
    set (Gm := smul x Hpt) in *.
    set (k := le2n (H512 (slice 32 32 (H512 sk) ++ encode Hpt)) mod L) in *.
    set (c16 := hash_points Hpt Gm (smul k B) (smul k Hpt)) in *.
    set (s := (le2n c16 * x + k) mod L) in *.
    destruct (layout3 (encode Gm) c16 (n2le 32 s)) as (Ln & E1 & E2 & E3);
      [apply enc_len|apply hash_points_len|apply n2le_len|].
    unfold Model.proof_to_hash in Hp. rewrite Ln, E1, dec_enc in Hp. cbn [Nat.eqb negb] in Hp.
    inversion Hp; subst. auto.
  Qed.

End proofs.

(* ---- the part of soundness that follows from an injective challenge hash ---- *)
Section inj.
  Variable G : Type.
  Variable add : G -> G -> G.
  Variable neg : G -> G.
  Variable zero : G.
  Variable smul : N -> G -> G.
  Variable B : G.
  Variable L : N.
  Variable geq : G -> G -> bool.
  Variable encode : G -> bytes.
  Variable decode : bytes -> option G.
  Variable h2c : G -> bytes -> option G.
  Variable H512 : bytes -> bytes.
  Local Notation sub := (sub G add neg).
  Local Notation hash_points := (hash_points G encode H512).
  Local Notation verify_and_hash := (verify_and_hash G add neg zero smul B L geq encode decode h2c H512).
  Local Notation accepted := (accepted G add neg zero smul B L geq encode decode h2c H512).

  (* idealised: hashPoints is injective on 4-tuples of points *)
  Hypothesis hp_inj : forall P1 P2 P3 P4 Q1 Q2 Q3 Q4,
    hash_points P1 P2 P3 P4 = hash_points Q1 Q2 Q3 Q4 -> P1 = Q1 /\ P2 = Q2 /\ P3 = Q3 /\ P4 = Q4.

  (* two accepted proofs that carry the same challenge bytes recompute the
     same (H, Gamma, U, V); so a change of s, Gamma, alpha or the key that
     alters the recomputed tuple while keeping c cannot verify *)
  Theorem sound_partial pk pi alpha out pk' pi' alpha' out' :
    verify_and_hash pk pi alpha = VOk out -> verify_and_hash pk' pi' alpha' = VOk out' ->
    slice 32 16 pi = slice 32 16 pi' ->
    exists Y Gm Hp Y' Gm' Hp',
      decode pk = Some Y /\ decode pk' = Some Y'
      /\ decode (firstn 32 pi) = Some Gm /\ decode (firstn 32 pi') = Some Gm'
      /\ h2c Y alpha = Some Hp /\ h2c Y' alpha' = Some Hp'
      /\ Hp = Hp' /\ Gm = Gm' /\ out = out'
      /\ sub (smul (le2n (slice 48 32 pi)) B) (smul (le2n (slice 32 16 pi) mod L) Y)
         = sub (smul (le2n (slice 48 32 pi')) B) (smul (le2n (slice 32 16 pi) mod L) Y')
      /\ sub (smul (le2n (slice 48 32 pi)) Hp) (smul (le2n (slice 32 16 pi) mod L) Gm)
         = sub (smul (le2n (slice 48 32 pi')) Hp) (smul (le2n (slice 32 16 pi) mod L) Gm).
  Proof.
    intros A1 A2 Ec.
    destruct (accepted _ _ _ _ A1) as (Y & Gm & Hp & D1 & _ & _ & Dg & Dh & _ & C1 & O1).
    destruct (accepted _ _ _ _ A2) as (Y' & Gm' & Hp' & D1' & _ & _ & Dg' & Dh' & _ & C1' & O1').
    rewrite <- Ec in C1'. rewrite C1 in C1' at 1.
    apply hp_inj in C1'. destruct C1' as (E1 & E2 & E3 & E4). subst Hp' Gm'.
    exists Y, Gm, Hp, Y', Gm, Hp.
    split; [exact D1|]. split; [exact D1'|]. split; [exact Dg|]. split; [exact Dg'|].
    split; [exact Dh|]. split; [exact Dh'|]. split; [reflexivity|]. split; [reflexivity|].
    split; [rewrite O1, O1'; reflexivity|]. split; [exact E3|exact E4].
  Qed.

  Section exact_order.
    Hypothesis add_assoc : forall P Q R, add P (add Q R) = add (add P Q) R.
    Hypothesis add_comm : forall P Q, add P Q = add Q P.
    Hypothesis add_zero_l : forall P, add zero P = P.
    Hypothesis add_neg_r : forall P, add P (neg P) = zero.
    (* B generates a subgroup of order exactly L *)
    Hypothesis B_exact : forall a b, a < L -> b < L -> smul a B = smul b B -> a = b.

    Lemma sub_cancel X X' C : sub X C = sub X' C -> X = X'.
    Proof.
      unfold Model.sub. intros E.
      assert (E' : add (add X (neg C)) C = add (add X' (neg C)) C) by (rewrite E; reflexivity).
      rewrite <- !add_assoc, !(add_comm (neg C) C), !add_neg_r, !(add_comm _ zero), !add_zero_l in E'.
      exact E'.
    Qed.

    (* same key, message and challenge: the response scalar is determined *)
    Theorem s_determined pk alpha pi pi' out out' :
      verify_and_hash pk pi alpha = VOk out -> verify_and_hash pk pi' alpha = VOk out' ->
      slice 32 16 pi = slice 32 16 pi' ->
      le2n (slice 48 32 pi) = le2n (slice 48 32 pi').
    Proof.
      intros A1 A2 Ec.
      destruct (sound_partial _ _ _ _ _ _ _ _ A1 A2 Ec)
        as (Y & Gm & Hp & Y' & Gm' & Hp' & D & D' & _ & _ & _ & _ & _ & _ & _ & EU & _).
      rewrite D in D'. inversion D'; subst Y'.
      apply sub_cancel in EU.
      destruct (accepted _ _ _ _ A1) as (_ & _ & _ & _ & _ & _ & _ & _ & S1 & _).
      destruct (accepted _ _ _ _ A2) as (_ & _ & _ & _ & _ & _ & _ & _ & S2 & _).
      apply B_exact; assumption.
    Qed.
  End exact_order.
End inj.
