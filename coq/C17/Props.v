(* C17 - property theorems only. *)
From V Require Import Lib.Base C09.Gen C09.Model C09.Proofs C17.Gen C17.Model C17.Proofs.
Local Open Scope N_scope.

(* The code's own gate (C09 routing): in muxer mode Initiator a request segment is
   never delivered and yields the from-initiator error; dually in mode Responder. *)
Theorem C17_mode_gate : forall r raw,
  (is_response raw = false -> route_seg r dm_initiator raw = inl StFromInitiator) /\
  (is_response raw = true -> route_seg r dm_responder raw = inl StFromResponder).
Proof.
  intros r raw. unfold route_seg. split; intros ->; cbn; reflexivity.
Qed.
Print Assumptions C17_mode_gate.

(* Initiator-only operation (client end, or no duplex agreed by BOTH handshake
   parties - specification role_enabled): for EVERY configuration, every negotiated
   version (any number: unknown ones have all flags off) and every request segment,
   the connection rejects the segment - it is never delivered to a local responder -
   with the from-initiator error, or (when the peer alone claimed duplex, so that the
   muxer mode is both-ways) the unknown-protocol error. *)
Theorem C17_initiator_only_cfg : forall c n raw,
  role_enabled c (n_peer_duplex n) Responder = false -> is_response raw = false ->
  exists st, accept_seg c n raw = inl st /\
             (st = StFromInitiator \/ st = StUnknown (get_pid raw)).
Proof.
  intros c n raw Hro Hr. pose proof (chk_roles_all c (n_peer_duplex n) (flags_of n)) as H.
  unfold chk_roles in H. rewrite Hro in H. cbn [orb] in H.
  apply andb_true_iff in H. destruct H as [H _]. apply andb_true_iff in H. destruct H as [H _].
  unfold accept_seg, accept_seg_f. rewrite (request_rejected _ _ _ Hr H).
  eexists. split; [reflexivity|]. destruct (_ =? dm_initiator); auto.
Qed.
Print Assumptions C17_initiator_only_cfg.

Theorem C17_responder_only_cfg : forall c n raw,
  role_enabled c (n_peer_duplex n) Initiator = false -> is_response raw = true ->
  exists st, accept_seg c n raw = inl st /\
             (st = StFromResponder \/ st = StUnknown (get_pid raw)).
Proof.
  intros c n raw Hro Hr. pose proof (chk_roles_all c (n_peer_duplex n) (flags_of n)) as H.
  unfold chk_roles in H. rewrite Hro in H. cbn [orb] in H.
  apply andb_true_iff in H. destruct H as [H _]. apply andb_true_iff in H. destruct H as [_ H].
  unfold accept_seg, accept_seg_f. rewrite (response_rejected _ _ _ Hr H).
  eexists. split; [reflexivity|]. destruct (_ =? dm_responder); auto.
Qed.
Print Assumptions C17_responder_only_cfg.

(* The muxer mode is never stricter than the enabled roles, and some role is enabled. *)
Theorem C17_mode_consistent_cfg : forall c n,
  (mux_mode c n = dm_initiator -> role_enabled c (n_peer_duplex n) Responder = false) /\
  (mux_mode c n = dm_responder -> role_enabled c (n_peer_duplex n) Initiator = false) /\
  (role_enabled c (n_peer_duplex n) Initiator = true \/ role_enabled c (n_peer_duplex n) Responder = true).
Proof.
  intros c n. pose proof (chk_mode_all c (n_peer_duplex n)) as H. unfold chk_mode, mux_mode in *.
  apply andb_true_iff in H. destruct H as [H H3]. apply andb_true_iff in H. destruct H as [H1 H2].
  repeat split.
  - intros E. rewrite E, N.eqb_refl in H1. cbn [negb orb] in H1. now apply negb_true_iff in H1.
  - intros E. rewrite E, N.eqb_refl in H2. cbn [negb orb] in H2. now apply negb_true_iff in H2.
  - apply orb_true_iff in H3. exact H3.
Qed.
Print Assumptions C17_mode_consistent_cfg.

(* Started = specification, for every configuration and every version of the
   connection's own family (the lists the code advertises): protocol p runs in
   role r exactly when starting is not delayed, the network-spec table has p on this
   kind of connection from this version on, the role is enabled by (server, duplex
   agreed by both), and - for the keep-alive client - keep-alives were requested. *)
Theorem C17_started_cfg : forall c n, In (n_version n) (family (knd c)) ->
  forall p r, In (p, r) (started c n) <->
    (delay_start c = false /\ spec_enabled (knd c) (n_version n) p = true /\
     role_enabled c (n_peer_duplex n) r = true /\
     (p = 8 -> r = Initiator -> keepalives c = true)).
Proof.
  intros c n Hv p r. rewrite (started_spec c n Hv (p, r)). unfold spec_started. cbn [fst snd].
  rewrite !andb_true_iff, negb_true_iff, orb_true_iff, negb_true_iff, andb_false_iff. split.
  - intros [[[H1 H2] H3] H4]. repeat split; auto. intros -> ->. destruct H4 as [[H4|H4]|H4]; auto; discriminate.
  - intros (H1 & H2 & H3 & H4). repeat split; auto.
    destruct (N.eqb_spec p 8) as [->|]; [|auto]. destruct r; cbn; [right; auto | left; right; reflexivity].
Qed.
Print Assumptions C17_started_cfg.

(* For EVERY negotiated version number, nothing is started in a role that is not enabled. *)
Theorem C17_started_roles_cfg : forall c n p r, In (p, r) (started c n) ->
  role_enabled c (n_peer_duplex n) r = true.
Proof.
  intros c n p r Hin. pose proof (chk_roles_all c (n_peer_duplex n) (flags_of n)) as H.
  unfold chk_roles in H. apply andb_true_iff in H. destruct H as [_ H].
  rewrite forallb_forall in H. exact (H _ Hin).
Qed.
Print Assumptions C17_started_roles_cfg.

(* Reachable: every started protocol instance has its receiver registered before the
   muxer starts and the muxer mode lets its counterpart's segments through: such a
   segment is routed to exactly that instance. *)
Theorem C17_reachable : forall c n p r, In (p, r) (started c n) ->
  accept_seg c n (raw_of (p, opp r)) = inr (p, r).
Proof.
  intros c n p r Hin. pose proof (chk_reach_all c (n_peer_duplex n) (flags_of n)) as H.
  unfold chk_reach in H. rewrite forallb_forall in H. specialize (H _ Hin).
  unfold accept_seg. change (peer_ep (p, r)) with (p, opp r) in H.
  destruct (accept_seg_f _ _ _ _) as [|e']; [discriminate|]. apply ep_eqb_eq in H. now subst.
Qed.
Print Assumptions C17_reachable.

(* Reachable over the connection's lifetime: stopping (un-registering) the SIBLING role of
   a started protocol instance - Client.Stop, or the first half of a server restart on
   the peer's Done - leaves the instance reachable exactly as before. *)
Theorem C17_reachable_after_sibling_stop : forall c n p r, In (p, r) (started c n) ->
  route_seg (unregister (registry c n) p (opp r)) (mux_mode c n) (raw_of (p, opp r)) = inr (p, r).
Proof.
  intros c n p r Hin. pose proof (C17_reachable c n p r Hin) as H.
  unfold accept_seg, accept_seg_f in H. fold (registry c n) in H. fold (mux_mode c n) in H.
  rewrite route_seg_unregister; [exact H|]. left.
  apply route_seg_ok in H. destruct H as [H _]. cbn [snd] in H. rewrite <- H. destruct r; discriminate.
Qed.
Print Assumptions C17_reachable_after_sibling_stop.

(* ================= the same, judged against the WIRE =================
   own  = the diffusion mode this end advertised for the accepted version (true =
          InitiatorAndResponder), which must be what the code puts on the wire
          (advertised c v: generated from GetProtocolVersionMap);
   peer = the mode in the peer's version data.  The negotiated outcome is duplex only
   if BOTH said InitiatorAndResponder (role_enabled_w).  Stated for the versions of the
   connection's own family (a version outside it was never proposed: C19). *)
Theorem C17_initiator_only : forall c n own raw,
  In (n_version n) (family (knd c)) -> own = advertised c (n_version n) ->
  role_enabled_w c own (n_peer_duplex n) Responder = false -> is_response raw = false ->
  exists st, accept_seg c n raw = inl st /\
             (st = StFromInitiator \/ st = StUnknown (get_pid raw)).
Proof.
  intros c n own raw Hv Ho H. rewrite (role_enabled_wire c _ own _ _ Hv Ho) in H.
  now apply C17_initiator_only_cfg.
Qed.
Print Assumptions C17_initiator_only.

Theorem C17_responder_only : forall c n own raw,
  In (n_version n) (family (knd c)) -> own = advertised c (n_version n) ->
  role_enabled_w c own (n_peer_duplex n) Initiator = false -> is_response raw = true ->
  exists st, accept_seg c n raw = inl st /\
             (st = StFromResponder \/ st = StUnknown (get_pid raw)).
Proof.
  intros c n own raw Hv Ho H. rewrite (role_enabled_wire c _ own _ _ Hv Ho) in H.
  now apply C17_responder_only_cfg.
Qed.
Print Assumptions C17_responder_only.

Theorem C17_mode_consistent : forall c n own,
  In (n_version n) (family (knd c)) -> own = advertised c (n_version n) ->
  (mux_mode c n = dm_initiator -> role_enabled_w c own (n_peer_duplex n) Responder = false) /\
  (mux_mode c n = dm_responder -> role_enabled_w c own (n_peer_duplex n) Initiator = false) /\
  (role_enabled_w c own (n_peer_duplex n) Initiator = true \/
   role_enabled_w c own (n_peer_duplex n) Responder = true).
Proof.
  intros c n own Hv Ho. rewrite !(role_enabled_wire c _ own _ _ Hv Ho). apply C17_mode_consistent_cfg.
Qed.
Print Assumptions C17_mode_consistent.

Theorem C17_started : forall c n own, In (n_version n) (family (knd c)) ->
  own = advertised c (n_version n) ->
  forall p r, In (p, r) (started c n) <->
    (delay_start c = false /\ spec_enabled (knd c) (n_version n) p = true /\
     role_enabled_w c own (n_peer_duplex n) r = true /\
     (p = 8 -> r = Initiator -> keepalives c = true)).
Proof.
  intros c n own Hv Ho p r. rewrite (role_enabled_wire c _ own _ _ Hv Ho). now apply C17_started_cfg.
Qed.
Print Assumptions C17_started.

Theorem C17_started_roles : forall c n own p r,
  In (n_version n) (family (knd c)) -> own = advertised c (n_version n) ->
  In (p, r) (started c n) -> role_enabled_w c own (n_peer_duplex n) r = true.
Proof.
  intros c n own p r Hv Ho Hin. rewrite (role_enabled_wire c _ own _ _ Hv Ho).
  eapply C17_started_roles_cfg; eauto.
Qed.
Print Assumptions C17_started_roles.

(* this end advertises, for every version of its family, exactly its full-duplex option *)
Theorem C17_advertised : forall c v, In v (family (knd c)) ->
  advertised c v = match knd c with NtN => full_duplex c | _ => false end.
Proof. exact advertised_family. Qed.
Print Assumptions C17_advertised.

(* ---- non-vacuity ---- *)
(* a node-to-node client that asked for duplex, told "duplex" by the server at v13: both roles of peer-sharing run *)
Example C17_nonvacuous_duplex :
  let c := mkcfg false NtN true true true false in let n := mkneg 13 true in
  In (10, Initiator) (started c n) /\ In (10, Responder) (started c n) /\ mux_mode c n = dm_both.
Proof. vm_compute. intuition. Qed.
(* a plain node-to-client client: initiator-only, a request for chain-sync is refused *)
Example C17_nonvacuous_client :
  let c := mkcfg false NtC false false false false in let n := mkneg 32784 false in
  role_enabled c false Responder = false /\ accept_seg c n 5 = inl StFromInitiator
  /\ accept_seg c n (5 + 32768) = inr (5, Initiator).
Proof. vm_compute. intuition. Qed.
(* a client that did not ask for duplex but is told duplex: mode both-ways, request still refused *)
Example C17_nonvacuous_told_duplex :
  let c := mkcfg false NtN false false false false in let n := mkneg 13 true in
  mux_mode c n = dm_both /\ role_enabled c true Responder = false /\ accept_seg c n 2 = inl (StUnknown 2).
Proof. vm_compute. intuition. Qed.
Example C17_nonvacuous_family : In 13 (family NtN) /\ In 32784 (family NtC) /\ In 4097 (family DMQ).
Proof. vm_compute. intuition. Qed.
