(* C17 - specification and lemmas. *)
From V Require Import Lib.Base C09.Gen C09.Model C09.Proofs C17.Gen C17.Model.
Local Open Scope N_scope.

(* ---------- independent specification (property text / network spec) ---------- *)
(* A connection is duplex only if it is node-to-node and BOTH ends advertised
   InitiatorAndResponder in the handshake. *)
Definition spec_duplex (c : config) (d : bool) : bool :=
  match knd c with NtN => full_duplex c && d | _ => false end.
(* The local initiator side runs on a client or duplex connection, the local
   responder side on a server or duplex connection. *)
Definition role_enabled (c : config) (d : bool) (r : role) : bool :=
  match r with
  | Initiator => spec_duplex c d || negb (server c)
  | Responder => spec_duplex c d || server c
  end.
(* mini-protocol numbers per connection kind and the first version (within the kind's
   own numbering) that carries them: node-to-node chain-sync 2, block-fetch 3,
   tx-submission 4, keep-alive 8 (from v3), peer-sharing 10 (from v11), Leios
   18/19/20 (this implementation: every version); node-to-client chain-sync 5,
   local-tx-submission 6, local-state-query 7 (from v2), local-tx-monitor 9 (from v12);
   DMQ node-to-client 14, 15. *)
Definition spec_table : list (kind * N * N) :=
  [(NtN, 2, 0); (NtN, 3, 0); (NtN, 4, 0); (NtN, 8, 3); (NtN, 10, 11);
   (NtN, 18, 0); (NtN, 19, 0); (NtN, 20, 0);
   (NtC, 5, 0); (NtC, 6, 0); (NtC, 7, 2); (NtC, 9, 12);
   (DMQ, 14, 0); (DMQ, 15, 0)].
Definition kind_eqb (a b : kind) : bool :=
  match a, b with NtN, NtN | NtC, NtC | DMQ, DMQ => true | _, _ => false end.
(* version number inside the kind's own numbering (handshake numbers carry bit 15 / bit 12) *)
Definition vernum (k : kind) (v : N) : N :=
  match k with NtN => v | NtC => v - 32768 | DMQ => v - 4096 end.
Definition spec_enabled (k : kind) (v p : N) : bool :=
  existsb (fun e => kind_eqb (fst (fst e)) k && (snd (fst e) =? p) && (snd e <=? vernum k v)) spec_table.
Definition family (k : kind) : list N :=
  match k with NtN => versions_ntn | NtC => versions_ntc | DMQ => versions_dmq end.
(* the keep-alive client is only run when the user asked for keep-alives *)
Definition spec_started (c : config) (n : negotiated) (e : endpoint) : bool :=
  negb (delay_start c) && spec_enabled (knd c) (n_version n) (fst e)
  && role_enabled c (n_peer_duplex n) (snd e)
  && (negb ((fst e =? 8) && role_eqb (snd e) Initiator) || keepalives c).

(* ---------- finite enumeration ---------- *)
Definition bools := [true; false].
Definition all_configs : list config :=
  flat_map (fun s => flat_map (fun k => flat_map (fun fd => flat_map (fun ka => flat_map (fun ps =>
    map (fun ds => mkcfg s k fd ka ps ds) bools) bools) bools) bools) [NtN; NtC; DMQ]) bools.
Definition all_flags : list vflags :=
  flat_map (fun a => flat_map (fun b => flat_map (fun x => map (fun y => (a, b, x, y)) bools) bools) bools) bools.

Lemma all_configs_complete c : In c all_configs.
Proof. destruct c as [[] [] [] [] [] []]; vm_compute; repeat (try (left; reflexivity); right). Qed.
Lemma all_flags_complete f : In f all_flags.
Proof. destruct f as [[[[] []] []] []]; vm_compute; repeat (try (left; reflexivity); right). Qed.
Lemma bools_complete b : In b bools.
Proof. destruct b; cbn; auto. Qed.

Lemma ep_mem_in e l : ep_mem e l = true <-> In e l.
Proof.
  induction l as [|x r IH]; cbn; [split; [discriminate|tauto]|].
  rewrite orb_true_iff, IH, ep_eqb_eq. tauto.
Qed.

(* lifting a boolean check over configs x duplex flag x flags *)
Lemma forall_cdf (P : config -> bool -> vflags -> bool) :
  forallb (fun c => forallb (fun d => forallb (fun f => P c d f) all_flags) bools) all_configs = true ->
  forall c d f, P c d f = true.
Proof.
  intros H c d f. rewrite forallb_forall in H. specialize (H c (all_configs_complete c)).
  rewrite forallb_forall in H. specialize (H d (bools_complete d)).
  rewrite forallb_forall in H. exact (H f (all_flags_complete f)).
Qed.

(* ---------- routing facts ---------- *)
Definition no_role (r : reg) (ro : role) : bool := forallb (fun e => negb (has_role (snd e) ro)) r.

Lemma reg_find_in r pid e : reg_find r pid = Some e -> In (pid, e) r.
Proof.
  induction r as [|[p x] t IH]; cbn; [discriminate|].
  destruct (N.eqb_spec p pid) as [->|_]; [intros E; inversion E; now left | intros E; right; auto].
Qed.

Lemma route_no_role r ro pid : no_role r ro = true -> route r pid ro = None.
Proof.
  intros H. unfold no_role in H. rewrite forallb_forall in H. unfold route.
  destruct (reg_find r pid) as [e|] eqn:E1.
  - apply reg_find_in in E1. specialize (H _ E1). cbn in H. now destruct (has_role e ro).
  - destruct (reg_find r proto_unknown) as [e|] eqn:E2; [|reflexivity].
    apply reg_find_in in E2. specialize (H _ E2). cbn in H. now destruct (has_role e ro).
Qed.

(* a request can only fail when no responder is registered; dually for responses *)
Lemma request_rejected r mode raw : is_response raw = false -> no_role r Responder = true ->
  route_seg r mode raw = inl (if mode =? dm_initiator then StFromInitiator else StUnknown (get_pid raw)).
Proof.
  intros Hr Hn. unfold route_seg. rewrite Hr. cbn [negb]. rewrite !andb_false_r, andb_true_r.
  destruct (mode =? dm_initiator); [reflexivity|]. now rewrite route_no_role.
Qed.
Lemma response_rejected r mode raw : is_response raw = true -> no_role r Initiator = true ->
  route_seg r mode raw = inl (if mode =? dm_responder then StFromResponder else StUnknown (get_pid raw)).
Proof.
  intros Hr Hn. unfold route_seg. rewrite Hr. cbn [negb]. rewrite !andb_false_r, andb_true_r.
  destruct (mode =? dm_responder); [reflexivity|]. now rewrite route_no_role.
Qed.

(* ---------- the exhaustive checks ---------- *)
(* 1. no receiver of a disabled role is ever registered *)
Definition chk_roles c d f : bool :=
  (role_enabled c d Responder || no_role (registry_f c d f) Responder)
  && (role_enabled c d Initiator || no_role (registry_f c d f) Initiator)
  && forallb (fun e => role_enabled c d (snd e)) (started_f c d f).
Lemma chk_roles_all : forall c d f, chk_roles c d f = true.
Proof. apply forall_cdf. vm_compute. reflexivity. Qed.

(* 2. every started protocol instance is reachable: a segment of its counterpart is routed to it *)
Definition chk_reach c d f : bool :=
  forallb (fun e => match accept_seg_f c d f (raw_of (peer_ep e)) with
                    | inr e' => ep_eqb e' e | inl _ => false end) (started_f c d f).
Lemma chk_reach_all : forall c d f, chk_reach c d f = true.
Proof. apply forall_cdf. vm_compute. reflexivity. Qed.

(* 3. the diffusion mode agrees with the enabled roles whenever the peer did not claim duplex,
   and is never stricter than them *)
Definition chk_mode c d : bool :=
  (negb (mux_mode_f c d =? dm_initiator) || negb (role_enabled c d Responder))
  && (negb (mux_mode_f c d =? dm_responder) || negb (role_enabled c d Initiator))
  && (role_enabled c d Initiator || role_enabled c d Responder).
Lemma chk_mode_all : forall c d, chk_mode c d = true.
Proof.
  intros c d.
  exact (forall_cdf (fun c d _ => chk_mode c d) ltac:(vm_compute; reflexivity) c d (false, false, false, false)).
Qed.

(* 4. started = specification, for every version of the connection's own family *)
Definition spec_pids : list N := map (fun e => snd (fst e)) spec_table.
Definition cands : list endpoint := flat_map (fun p => [(p, Initiator); (p, Responder)]) spec_pids.
Definition chk_started c n : bool :=
  forallb (fun e => spec_started c n e) (started c n)
  && forallb (fun e => negb (spec_started c n e) || ep_mem e (started c n)) cands.
Definition chk_started_all : bool :=
  forallb (fun c => forallb (fun v => forallb (fun d => chk_started c (mkneg v d)) bools) (family (knd c))) all_configs.
Lemma chk_started_ok : chk_started_all = true.
Proof. vm_compute. reflexivity. Qed.

Lemma spec_started_cand c n e : spec_started c n e = true -> In e cands.
Proof.
  unfold spec_started. intros H. apply andb_true_iff in H. destruct H as [H _].
  apply andb_true_iff in H. destruct H as [H _]. apply andb_true_iff in H. destruct H as [_ H].
  unfold spec_enabled in H. apply existsb_exists in H. destruct H as (t & Ht & Hc).
  apply andb_true_iff in Hc. destruct Hc as [Hc _]. apply andb_true_iff in Hc. destruct Hc as [_ Hp].
  apply N.eqb_eq in Hp. unfold cands. apply in_flat_map. exists (fst e). split.
  - unfold spec_pids. rewrite <- Hp. apply (in_map (fun x : kind * N * N => snd (fst x))). exact Ht.
  - destruct e as [p [|]]; cbn; auto.
Qed.

Lemma started_spec c n : In (n_version n) (family (knd c)) ->
  forall e, In e (started c n) <-> spec_started c n e = true.
Proof.
  intros Hv e. pose proof chk_started_ok as H. unfold chk_started_all in H.
  rewrite forallb_forall in H. specialize (H c (all_configs_complete c)).
  rewrite forallb_forall in H. specialize (H _ Hv).
  rewrite forallb_forall in H. specialize (H _ (bools_complete (n_peer_duplex n))).
  destruct n as [v d]. cbn [n_version n_peer_duplex] in *.
  unfold chk_started in H. apply andb_true_iff in H. destruct H as [H1 H2].
  rewrite forallb_forall in H1, H2. split.
  - apply H1.
  - intros Hs. specialize (H2 e (spec_started_cand _ _ _ Hs)). rewrite Hs in H2. cbn in H2.
    now apply ep_mem_in.
Qed.

(* ---------- the specification judged against the WIRE ---------- *)
(* The negotiated diffusion mode is what BOTH ends put on the wire for the accepted
   version: duplex only on node-to-node and only if this end advertised
   InitiatorAndResponder (own) and so did the peer. *)
Definition negotiated_duplex (k : kind) (own peer : bool) : bool :=
  match k with NtN => own && peer | _ => false end.
Definition role_enabled_w (c : config) (own peer : bool) (r : role) : bool :=
  match r with
  | Initiator => negotiated_duplex (knd c) own peer || negb (server c)
  | Responder => negotiated_duplex (knd c) own peer || server c
  end.

(* what this end advertises for every version of its family is exactly its full-duplex
   option (the roles and the muxer mode are decided from that option: both sites agree) *)
Definition chk_adv : bool :=
  forallb (fun c => forallb (fun v =>
    Bool.eqb (advertised c v) (match knd c with NtN => full_duplex c | _ => false end))
    (family (knd c))) all_configs.
Lemma chk_adv_ok : chk_adv = true.
Proof. vm_compute. reflexivity. Qed.

Lemma advertised_family c v : In v (family (knd c)) ->
  advertised c v = match knd c with NtN => full_duplex c | _ => false end.
Proof.
  intros Hv. pose proof chk_adv_ok as H. unfold chk_adv in H.
  rewrite forallb_forall in H. specialize (H c (all_configs_complete c)).
  rewrite forallb_forall in H. specialize (H v Hv). now apply eqb_prop in H.
Qed.

Lemma role_enabled_wire c v own peer r : In v (family (knd c)) -> own = advertised c v ->
  role_enabled_w c own peer r = role_enabled c peer r.
Proof.
  intros Hv ->. rewrite (advertised_family c v Hv).
  unfold role_enabled_w, role_enabled, negotiated_duplex, spec_duplex. destruct (knd c); reflexivity.
Qed.
