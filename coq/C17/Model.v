(* C17 - connection roles and diffusion modes.  Model of the boolean structure of
   Connection.setupConnection (connection.go) after a successful handshake, composed
   with the muxer routing of C09 (C09.Model.route_seg).  Version flags and protocol
   ids come from Gen.v (translator).  No proofs here. *)
From V Require Import Lib.Base C09.Gen C09.Model C17.Gen.
Local Open Scope N_scope.

Inductive kind := NtN | NtC | DMQ.   (* WithNodeToNode / default / WithDMQ *)

(* the connection options setupConnection consults *)
Record config := mkcfg {
  server : bool;          (* WithServer *)
  knd : kind;
  full_duplex : bool;     (* WithFullDuplex *)
  keepalives : bool;      (* WithKeepAlive *)
  peer_sharing : bool;    (* WithPeerSharing: only changes the peer-sharing Config, not what is started *)
  delay_start : bool      (* WithDelayProtocolStart *)
}.

(* per-version flags consulted: keep-alive, peer-sharing, local-state-query, local-tx-monitor *)
Definition vflags := (bool * bool * bool * bool)%type.
Definition f_keepalive (f : vflags) := fst (fst (fst f)).
Definition f_peersharing (f : vflags) := snd (fst (fst f)).
Definition f_localquery (f : vflags) := snd (fst f).
Definition f_localtxmon (f : vflags) := snd f.

(* protocol.GetProtocolVersion: zero value for an unknown version *)
Fixpoint lookup_version (t : list (N * vflags)) (v : N) : vflags :=
  match t with
  | [] => (false, false, false, false)
  | (w, f) :: r => if w =? v then f else lookup_version r v
  end.
Definition get_version (v : N) : vflags := lookup_version version_table v.

(* what THIS end puts on the wire as its diffusion mode for version v (true =
   InitiatorAndResponder): setupConnection passes handshakeDiffusionMode := fullDuplex to
   protocol.GetProtocolVersionMap, whose per-version outcome is the generated adv_table;
   node-to-client / DMQ version data carry no diffusion mode *)
Fixpoint lookup_adv (t : list (N * (bool * bool))) (v : N) : bool * bool :=
  match t with
  | [] => (false, false)
  | (w, e) :: r => if w =? v then e else lookup_adv r v
  end.

(* handshake result as seen by FinishedFunc: version and whether the peer's version data says
   InitiatorAndResponder (server: the client's proposal; client: the server's accepted data) *)
Record negotiated := mkneg { n_version : N; n_peer_duplex : bool }.

(* handshakeFullDuplex (d = the peer's version data says InitiatorAndResponder): only set
   on node-to-node connections *)
Definition hs_full_duplex (c : config) (d : bool) : bool :=
  match knd c with NtN => d | _ => false end.

(* (c.fullDuplex && handshakeFullDuplex) || !c.server   and   ... || c.server *)
Definition run_client (c : config) (d : bool) : bool :=
  (full_duplex c && hs_full_duplex c d) || negb (server c).
Definition run_server (c : config) (d : bool) : bool :=
  (full_duplex c && hs_full_duplex c d) || server c.

(* the protocol objects constructed, in code order; the bool says whether the client side
   is started unconditionally (keep-alive's client only with WithKeepAlive) *)
Definition constructed (c : config) (f : vflags) : list (N * bool) :=
  match knd c with
  | NtN =>
    [(pid_chainsync_ntn, true); (pid_blockfetch, true); (pid_txsubmission, true)]
    ++ (if f_keepalive f then [(pid_keepalive, keepalives c)] else [])
    ++ (if f_peersharing f then [(pid_peersharing, true)] else [])
    ++ [(pid_leiosnotify, true); (pid_leiosfetch, true); (pid_leiosvotes, true)]
  | DMQ => [(pid_localmsgsubmission, true); (pid_localmsgnotification, true)]
  | NtC =>
    [(pid_chainsync_ntc, true); (pid_localtxsubmission, true)]
    ++ (if f_localquery f then [(pid_localstatequery, true)] else [])
    ++ (if f_localtxmon f then [(pid_localtxmonitor, true)] else [])
  end.

(* "Register server protocols early": Server.EnsureRegistered() *)
Definition early_registered (c : config) (d : bool) (f : vflags) : list endpoint :=
  if run_server c d then map (fun p => (fst p, Responder)) (constructed c f) else [].

(* "Start protocols": Client.Start() / Server.Start() *)
Definition started_f (c : config) (d : bool) (f : vflags) : list endpoint :=
  if delay_start c then [] else
  (if run_client c d
   then map (fun p => (fst p, Initiator)) (filter (fun p => snd p) (constructed c f)) else [])
  ++ (if run_server c d then map (fun p => (fst p, Responder)) (constructed c f) else []).

(* muxer registrations in the order they happen before Muxer.Start(): the handshake
   protocol (never unregistered), the early server registrations, then Protocol.Start
   (EnsureRegistered is idempotent) *)
Definition reg_ops_f (c : config) (d : bool) (f : vflags) : list regop :=
  Reg pid_handshake (if server c then Responder else Initiator)
  :: map (fun e => Reg (fst e) (snd e)) (early_registered c d f ++ started_f c d f).
Definition registry_f c d f : reg := build_reg (reg_ops_f c d f).

(* "Start muxer": diffusion mode *)
Definition mux_mode_f (c : config) (d : bool) : N :=
  if hs_full_duplex c d then dm_both else if server c then dm_responder else dm_initiator.

(* what the connection does with an arriving segment (C09 routing on the setup's registry) *)
Definition accept_seg_f c d f (raw : N) : status + endpoint :=
  route_seg (registry_f c d f) (mux_mode_f c d) raw.

(* the same, from the negotiated version *)
Definition flags_of (n : negotiated) : vflags := get_version (n_version n).
Definition started (c : config) (n : negotiated) := started_f c (n_peer_duplex n) (flags_of n).
Definition registry (c : config) (n : negotiated) := registry_f c (n_peer_duplex n) (flags_of n).
Definition mux_mode (c : config) (n : negotiated) := mux_mode_f c (n_peer_duplex n).
Definition accept_seg (c : config) (n : negotiated) (raw : N) :=
  accept_seg_f c (n_peer_duplex n) (flags_of n) raw.

Definition advertised (c : config) (v : N) : bool :=
  match knd c with
  | NtN => let e := lookup_adv adv_table v in if full_duplex c then snd e else fst e
  | _ => false
  end.

(* registered endpoints, as a list, for the correspondence *)
Definition reg_endpoints (r : reg) : list endpoint :=
  flat_map (fun e : N * (bool * bool) => (if fst (snd e) then [(fst e, Initiator)] else [])
                     ++ (if snd (snd e) then [(fst e, Responder)] else [])) r.

(* ---- lifecycle after setup ----
   Client.Stop(): chain-sync, block-fetch, tx-submission, keep-alive, peer-sharing clients end
   with Protocol.Stop() = UnregisterProtocol(pid, Initiator); the Leios clients' Stop only
   sends MsgDone and leaves the registration.  A server that receives the peer's Done
   restarts: Stop() (UnregisterProtocol(pid, Responder)), initProtocol(), Start() (register again). *)
Inductive lifeev := ClientStop (p : N) | ServerRestart (p : N).
Definition client_stop_unregisters (p : N) : bool :=
  negb ((p =? pid_leiosnotify) || (p =? pid_leiosfetch) || (p =? pid_leiosvotes)).
Definition life_ops (e : lifeev) : list regop :=
  match e with
  | ClientStop p => if client_stop_unregisters p then [Unreg p Initiator] else []
  | ServerRestart p => [Unreg p Responder; Reg p Responder]
  end.

(* ---- correspondence cases ---- *)
Fixpoint ep_mem (e : endpoint) (l : list endpoint) : bool :=
  match l with [] => false | x :: r => ep_eqb x e || ep_mem e r end.
Definition ep_set_eqb (a b : list endpoint) : bool :=
  forallb (fun e => ep_mem e b) a && forallb (fun e => ep_mem e a) b.

Inductive case :=
(* a real connection built with these options, handshake scripted to this result:
   observed muxer registrations, diffusion mode, started protocol instances *)
| CSetup (c : config) (n : negotiated) (regs : list endpoint) (mode : N) (strt : list endpoint)
(* a segment with this raw id sent to the connection: accepted (delivered to a protocol
   of that role) or the connection failed *)
| CProbe (c : config) (n : negotiated) (raw : N) (accepted : bool)
(* lifecycle: after setup, protocol instances were stopped / restarted (events in order);
   regs = the muxer registrations observed afterwards; probes = segments sent afterwards
   and whether they were accepted *)
| CLife (c : config) (n : negotiated) (evs : list lifeev) (regs : list endpoint)
        (probes : list (N * bool))
(* the diffusion mode this end was seen to put on the wire for the accepted version
   (decoded from its ProposeVersions / AcceptVersion message) *)
| CAdv (c : config) (v : N) (own : bool).

Definition check_case (k : case) : bool :=
  match k with
  | CSetup c n regs mode strt =>
    ep_set_eqb (reg_endpoints (registry c n)) regs && (mux_mode c n =? mode)
    && ep_set_eqb (started c n) strt
  | CProbe c n raw accepted =>
    Bool.eqb (match accept_seg c n raw with inr _ => true | inl _ => false end) accepted
  | CLife c n evs regs probes =>
    let r := fold_left apply_op (flat_map life_ops evs) (registry c n) in
    ep_set_eqb (reg_endpoints r) regs
    && forallb (fun p => Bool.eqb (match route_seg r (mux_mode c n) (fst p) with
                                   | inr _ => true | inl _ => false end) (snd p)) probes
  | CAdv c v own => Bool.eqb (advertised c v) own
  end.
Definition mismatches := failing check_case.
