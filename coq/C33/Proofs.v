From Coq Require Import String Permutation.
From V Require Import Lib.Base C33.Gen C33.Model.
Local Open Scope N_scope.

Lemma pv_constants : pv_plomin = 10 /\ pv_vanrossem = 11 /\ pv_dijkstra = 12 /\ pv_conway = 9.
Proof. repeat split; reflexivity. Qed.

Lemma table_ok : bad_eras = [].
Proof. vm_compute. reflexivity. Qed.

(* ---- specification vocabulary ---- *)
Definition in_window (pv : N) : Prop := pv = 10 \/ pv = 11.
Definition all_registered (ws : list wd) : Prop := forall w, In w ws -> has_cred w = true -> w_reg w = true.
Definition no_lookup_error (ws : list wd) : Prop := forall w, In w ws -> w_deleg w <> 2.
Definition undelegated (w : wd) : Prop := w_amount w <> 0%Z /\ has_cred w = true /\ w_deleg w = 0.
Definition nonzero (w : wd) : Prop := w_amount w <> 0%Z.

Lemma window_gate pv : ((pv <? pv_plomin) || (pv_dijkstra <=? pv)) = false <-> in_window pv.
Proof.
  destruct pv_constants as (-> & _ & -> & _). unfold in_window. rewrite orb_false_iff, N.ltb_ge, N.leb_gt. lia.
Qed.

Lemma shelley_ok ws : all_registered ws -> shelley_withdrawals ws = ROk.
Proof.
  unfold shelley_withdrawals, all_registered. intros H.
  destruct (existsb _ ws) eqn:E; [|reflexivity].
  apply existsb_exists in E. destruct E as (w & Hin & Hw). apply andb_true_iff in Hw. destruct Hw as [Hc Hr].
  rewrite (H w Hin Hc) in Hr. discriminate.
Qed.

Lemma shelley_unreg ws : ~ all_registered ws -> shelley_withdrawals ws = RUnregistered.
Proof.
  unfold shelley_withdrawals, all_registered. intros H.
  destruct (existsb _ ws) eqn:E; [reflexivity|]. exfalso. apply H. intros w Hin Hc.
  destruct (w_reg w) eqn:R; [reflexivity|].
  assert (existsb (fun w => has_cred w && negb (w_reg w)) ws = true) as X.
  { apply existsb_exists. exists w. split; [exact Hin|]. now rewrite Hc, R. }
  congruence.
Qed.

(* ---- the loop in closed form ---- *)
Lemma loop_nocap ws : gate_loop false ws = RUnavailable <-> exists w, In w ws /\ nonzero w.
Proof.
  unfold nonzero. induction ws as [|w r IH].
  - cbn. split; [discriminate|intros (w & [] & _)].
  - cbn [gate_loop negb]. destruct (Z.eqb_spec (w_amount w) 0) as [E|E].
    + rewrite IH. split; [intros (x & Hx & Hn); exists x; split; [now right|exact Hn]|].
      intros (x & [<-|Hx] & Hn); [contradiction|eauto].
    + split; [intros _; exists w; split; [now left|exact E]|reflexivity].
Qed.

Lemma loop_nocap_total ws : gate_loop false ws = RUnavailable \/ gate_loop false ws = ROk.
Proof.
  induction ws as [|w r IH]; cbn [gate_loop]; [now right|].
  destruct (w_amount w =? 0)%Z; [exact IH|now left].
Qed.

Lemma loop_cap ws : no_lookup_error ws ->
  (gate_loop true ws = RNotDelegated <-> exists w, In w ws /\ undelegated w).
Proof.
  unfold no_lookup_error, undelegated. induction ws as [|w r IH]; intros Hn.
  - cbn. split; [discriminate|intros (w & [] & _)].
  - assert (forall x, In x r -> w_deleg x <> 2) as Hr by (intros x Hx; apply Hn; now right). specialize (IH Hr).
    pose proof (Hn w (or_introl eq_refl)) as Hw.
    assert (forall P : wd -> Prop, ~ P w -> ((exists x, In x r /\ P x) <-> (exists x, In x (w :: r) /\ P x))) as Skip.
    { intros P Hnp. split; [intros (x & Hx & Px); exists x; split; [now right|exact Px]|].
      intros (x & [<-|Hx] & Px); [contradiction|eauto]. }
    cbn [gate_loop negb].
    destruct (Z.eqb_spec (w_amount w) 0) as [E|E].
    { etransitivity; [exact IH|]. apply Skip. tauto. }
    destruct (has_cred w) eqn:C; cbn [negb].
    2:{ etransitivity; [exact IH|]. apply Skip. intros (_ & P & _). congruence. }
    destruct (w_deleg w) as [|p] eqn:D.
    + split; [intros _; exists w; split; [now left|auto]|reflexivity].
    + destruct p as [p|[p|p|]|]; try contradiction; (etransitivity; [exact IH|]; apply Skip; intros (_ & _ & P); congruence).
Qed.

Lemma loop_cap_total ws : no_lookup_error ws -> gate_loop true ws = RNotDelegated \/ gate_loop true ws = ROk.
Proof.
  unfold no_lookup_error. induction ws as [|w r IH]; intros Hn; cbn [gate_loop]; [now right|].
  assert (forall x, In x r -> w_deleg x <> 2) as Hr by (intros x Hx; apply Hn; now right). specialize (IH Hr).
  pose proof (Hn w (or_introl eq_refl)) as Hw. cbn [negb].
  destruct (w_amount w =? 0)%Z; [exact IH|]. destruct (has_cred w); cbn [negb]; [|exact IH].
  destruct (w_deleg w) as [|[p|[p|p|]|]]; auto. contradiction.
Qed.

Lemma loop_all_zero cap ws : (forall w, In w ws -> w_amount w = 0%Z) -> gate_loop cap ws = ROk.
Proof.
  induction ws as [|w r IH]; intros H; cbn [gate_loop]; [reflexivity|].
  rewrite (H w (or_introl eq_refl)). cbn. apply IH. intros; apply H; now right.
Qed.

(* ---- the rule ---- *)
Lemma rule_reduces versioned pv cap ws : all_registered ws -> ws <> [] ->
  conway_withdrawals versioned pv true cap ws =
  if negb versioned then ROk else if (pv <? pv_plomin) || (pv_dijkstra <=? pv) then ROk else gate_loop cap ws.
Proof.
  intros Hr Hne. unfold conway_withdrawals. cbn [negb]. rewrite (shelley_ok _ Hr). destruct ws; [contradiction|reflexivity].
Qed.

Lemma rule_empty versioned pv is_valid cap : conway_withdrawals versioned pv is_valid cap [] = ROk.
Proof. unfold conway_withdrawals. destruct is_valid; reflexivity. Qed.

(* the result does not depend on the (arbitrary) iteration order of the Go map *)
Lemma perm_exists {A} (P : A -> Prop) l l' : Permutation l l' -> (exists x, In x l /\ P x) -> exists x, In x l' /\ P x.
Proof. intros Hp (x & Hin & Hx). exists x. split; [eapply Permutation_in; eauto|exact Hx]. Qed.

Lemma shelley_perm ws ws' : Permutation ws ws' -> shelley_withdrawals ws = shelley_withdrawals ws'.
Proof.
  intros Hp. unfold shelley_withdrawals.
  assert (forall a b, Permutation a b -> existsb (fun w => has_cred w && negb (w_reg w)) a = true ->
                      existsb (fun w => has_cred w && negb (w_reg w)) b = true) as M.
  { intros a b P E. apply existsb_exists in E. apply existsb_exists. destruct E as (x & Hin & Hx). exists x. split; [eapply Permutation_in; eauto|exact Hx]. }
  destruct (existsb _ ws) eqn:E1, (existsb _ ws') eqn:E2; try reflexivity.
  - rewrite (M _ _ Hp E1) in E2. discriminate.
  - rewrite (M _ _ (Permutation_sym Hp) E2) in E1. discriminate.
Qed.

Lemma loop_perm cap ws ws' : Permutation ws ws' -> no_lookup_error ws -> gate_loop cap ws = gate_loop cap ws'.
Proof.
  intros Hp Hn. assert (no_lookup_error ws') as Hn' by (intros x Hx; apply Hn; eapply Permutation_in; [apply Permutation_sym|]; eauto).
  destruct cap.
  - destruct (loop_cap_total ws Hn) as [E|E], (loop_cap_total ws' Hn') as [E'|E']; try congruence.
    + apply (loop_cap ws Hn) in E. apply (perm_exists _ _ _ Hp) in E. apply (loop_cap ws' Hn') in E. congruence.
    + apply (loop_cap ws' Hn') in E'. apply (perm_exists _ _ _ (Permutation_sym Hp)) in E'. apply (loop_cap ws Hn) in E'. congruence.
  - destruct (loop_nocap_total ws) as [E|E], (loop_nocap_total ws') as [E'|E']; try congruence.
    + apply loop_nocap in E. apply (perm_exists _ _ _ Hp) in E. apply loop_nocap in E. congruence.
    + apply loop_nocap in E'. apply (perm_exists _ _ _ (Permutation_sym Hp)) in E'. apply loop_nocap in E'. congruence.
Qed.

Lemma result_perm versioned pv is_valid cap ws ws' : Permutation ws ws' -> no_lookup_error ws ->
  conway_withdrawals versioned pv is_valid cap ws = conway_withdrawals versioned pv is_valid cap ws'.
Proof.
  intros Hp Hn. unfold conway_withdrawals. rewrite (shelley_perm _ _ Hp), (loop_perm cap _ _ Hp Hn).
  destruct ws as [|a r], ws' as [|a' r']; try reflexivity.
  - apply Permutation_nil in Hp. discriminate.
  - apply Permutation_sym, Permutation_nil in Hp. discriminate.
Qed.

(* ---- VerifyTransaction ---- *)
(* acceptance = every rule of the list accepts, on the same transaction and the same ledger state *)
Lemma verify_tx_ok rules t ls : verify_tx rules t ls = ROk <-> forall r, In r rules -> r t ls = ROk.
Proof.
  induction rules as [|r rest IH]; cbn [verify_tx In]; [split; [intros _ r []|reflexivity]|].
  destruct (r t ls) eqn:E.
  - rewrite IH. split; [intros H x [<-|Hx]; auto|intros H x Hx; apply H; now right].
  - split; [discriminate|]. intros H. specialize (H r (or_introl eq_refl)). congruence.
  - split; [discriminate|]. intros H. specialize (H r (or_introl eq_refl)). congruence.
  - split; [discriminate|]. intros H. specialize (H r (or_introl eq_refl)). congruence.
  - split; [discriminate|]. intros H. specialize (H r (or_introl eq_refl)). congruence.
Qed.

(* if every other rule accepts (t, ls), the verdict of the list is the verdict of
   the withdrawal rule on that same (t, ls), provided the list contains it *)
Lemma verify_tx_projects other names t ls :
  (forall n, String.eqb n n_withdrawals = false -> other n t ls = ROk) ->
  verify_tx (map (rule_sem other) names) t ls =
  if existsb (fun n => String.eqb n n_withdrawals) names then withdrawals_rule t ls else ROk.
Proof.
  intros Ho. induction names as [|n names IH]; [reflexivity|].
  cbn [map verify_tx existsb]. unfold rule_sem at 1. destruct (String.eqb n n_withdrawals) eqn:E; cbn [orb].
  - destruct (withdrawals_rule t ls) eqn:W; try reflexivity.
    rewrite IH. now destruct (existsb _ names).
  - rewrite (Ho n E). exact IH.
Qed.

Lemma gated_has_rule era : In era gated_eras ->
  exists rs, assoc era era_rules = Some rs /\ existsb (fun n => String.eqb n n_withdrawals) rs = true.
Proof. intros H. cbn in H. repeat destruct H as [<-|H]; try (eexists; split; [vm_compute; reflexivity|vm_compute; reflexivity]). destruct H. Qed.
