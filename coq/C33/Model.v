(* C33 - reward withdrawals are DRep-gated only at PV10 and PV11.  Model of
     ledger/conway/rules.go   UtxoValidateWithdrawals  (Dijkstra's list uses the same function)
     ledger/shelley/rules.go  UtxoValidateWithdrawals  (registration check it calls first)
   The PV constants and the era rule lists come from the translator (Gen.v). *)
From Coq Require Import String.
From V Require Import Lib.Base C33.Gen.
Local Open Scope N_scope.

(* one entry of tx.Withdrawals() (a Go map: iteration order is arbitrary, see
   Proofs.result_perm) together with what the ledger state answers for it *)
Record wd := mk_wd {
  w_cred : N;     (* addr.StakeCredential(): 0 key hash, 1 script hash, 2 none (ok = false) *)
  w_amount : Z;   (* amounts are *big.Int *)
  w_reg : bool;   (* ls.IsRewardAccountRegistered(cred) *)
  w_deleg : N     (* DRepDelegation(cred): 0 = (nil, nil), 1 = (some DRep, nil), 2 = (_, err) *)
}.
Definition has_cred (w : wd) : bool := negb (w_cred w =? 2).

Inductive result := ROk | RUnregistered | RUnavailable | RNotDelegated | RLookupErr.
Definition result_eqb (a b : result) : bool :=
  match a, b with
  | ROk, ROk | RUnregistered, RUnregistered | RUnavailable, RUnavailable
  | RNotDelegated, RNotDelegated | RLookupErr, RLookupErr => true
  | _, _ => false end.

(* shelley.UtxoValidateWithdrawals *)
Definition shelley_withdrawals (ws : list wd) : result :=
  if existsb (fun w => has_cred w && negb (w_reg w)) ws then RUnregistered else ROk.

(* the loop over the withdrawals; cap = the ledger state implements DRepDelegationState *)
Fixpoint gate_loop (cap : bool) (ws : list wd) : result :=
  match ws with
  | [] => ROk
  | w :: r =>
    if (w_amount w =? 0)%Z then gate_loop cap r            (* amount == nil || Sign() == 0: continue *)
    else if negb cap then RUnavailable                     (* type assertion fails *)
    else if negb (has_cred w) then gate_loop cap r         (* no stake credential: continue *)
    else match w_deleg w with
         | 2 => RLookupErr
         | 0 => RNotDelegated
         | _ => gate_loop cap r
         end
  end.

(* conway.UtxoValidateWithdrawals; versioned = pparams expose ProtocolMajorVersion() *)
Definition conway_withdrawals (versioned : bool) (pv : N) (is_valid : bool) (cap : bool) (ws : list wd) : result :=
  if negb is_valid then ROk else
  match shelley_withdrawals ws with
  | ROk =>
    match ws with
    | [] => ROk
    | _ =>
      if negb versioned then ROk
      else if (pv <? pv_plomin) || (pv_dijkstra <=? pv) then ROk
      else gate_loop cap ws
    end
  | e => e
  end.

Definition n_withdrawals : string := "conway.UtxoValidateWithdrawals".
Definition is_withdrawal_rule (n : string) : bool :=
  match index 0 "UtxoValidateWithdrawals" n with Some _ => true | None => false end.
Fixpoint assoc (k : string) (l : list (string * list string)) : option (list string) :=
  match l with
  | [] => None
  | (k', v) :: r => if String.eqb k k' then Some v else assoc k r
  end.
(* the withdrawal rules of an era's real list *)
Definition withdrawal_rules (era : string) : list string :=
  match assoc era era_rules with Some rs => filter is_withdrawal_rule rs | None => [] end.
Definition gated_eras : list string := ["conway"; "dijkstra"]%string.
Definition bad_eras : list string :=
  filter (fun era => negb (list_eqb String.eqb (withdrawal_rules era) [n_withdrawals])) gated_eras.

(* correspondence: (era, versioned, pv, is_valid, cap, withdrawals, observed result) *)
Definition case := (string * bool * N * bool * bool * list wd * result)%type.
Definition check_case (c : case) : bool :=
  match c with
  | (era, versioned, pv, is_valid, cap, ws, obs) =>
    existsb (String.eqb era) gated_eras &&
    list_eqb String.eqb (withdrawal_rules era) [n_withdrawals] &&
    result_eqb (conway_withdrawals versioned pv is_valid cap ws) obs
  end.
Definition mismatches : list case -> list nat := failing check_case.
