(* C33 - reward withdrawals are DRep-gated only at PV10 and PV11.  Model of
     ledger/conway/rules.go   UtxoValidateWithdrawals  (Dijkstra's list uses the same function)
     ledger/shelley/rules.go  UtxoValidateWithdrawals  (registration check it calls first)
   The PV constants and the era rule lists come from the translator (Gen.v). *)
From Coq Require Import String.
From V Require Import Lib.Base C33.Gen.
Local Open Scope N_scope.

(* one entry of tx.Withdrawals() (a Go map: iteration order is arbitrary, see
   Proofs.result_perm) together with what the ledger state answers for it *)
Record wd := mk_wd {
  w_cred : N;     (* addr.StakeCredential(): 0 key hash, 1 script hash, 2 none (ok = false) *)
  w_amount : Z;   (* amounts are *big.Int *)
  w_reg : bool;   (* ls.IsRewardAccountRegistered(cred) *)
  w_deleg : N     (* DRepDelegation(cred): 0 = (nil, nil), 1 = (some DRep, nil), 2 = (_, err) *)
}.
Definition has_cred (w : wd) : bool := negb (w_cred w =? 2).

Inductive result := ROk | RUnregistered | RUnavailable | RNotDelegated | RLookupErr.
Definition result_eqb (a b : result) : bool :=
  match a, b with
  | ROk, ROk | RUnregistered, RUnregistered | RUnavailable, RUnavailable
  | RNotDelegated, RNotDelegated | RLookupErr, RLookupErr => true
  | _, _ => false end.

(* shelley.UtxoValidateWithdrawals *)
Definition shelley_withdrawals (ws : list wd) : result :=
  if existsb (fun w => has_cred w && negb (w_reg w)) ws then RUnregistered else ROk.

(* the loop over the withdrawals; cap = the ledger state implements DRepDelegationState *)
Fixpoint gate_loop (cap : bool) (ws : list wd) : result :=
  match ws with
  | [] => ROk
  | w :: r =>
    if (w_amount w =? 0)%Z then gate_loop cap r            (* amount == nil || Sign() == 0: continue *)
    else if negb cap then RUnavailable                     (* type assertion fails *)
    else if negb (has_cred w) then gate_loop cap r         (* no stake credential: continue *)
    else match w_deleg w with
         | 2 => RLookupErr
         | 0 => RNotDelegated
         | _ => gate_loop cap r
         end
  end.

(* conway.UtxoValidateWithdrawals; versioned = pparams expose ProtocolMajorVersion() *)
Definition conway_withdrawals (versioned : bool) (pv : N) (is_valid : bool) (cap : bool) (ws : list wd) : result :=
  if negb is_valid then ROk else
  match shelley_withdrawals ws with
  | ROk =>
    match ws with
    | [] => ROk
    | _ =>
      if negb versioned then ROk
      else if (pv <? pv_plomin) || (pv_dijkstra <=? pv) then ROk
      else gate_loop cap ws
    end
  | e => e
  end.

Definition n_withdrawals : string := "conway.UtxoValidateWithdrawals".
Definition is_withdrawal_rule (n : string) : bool :=
  match index 0 "UtxoValidateWithdrawals" n with Some _ => true | None => false end.
Fixpoint assoc (k : string) (l : list (string * list string)) : option (list string) :=
  match l with
  | [] => None
  | (k', v) :: r => if String.eqb k k' then Some v else assoc k r
  end.
(* the withdrawal rules of an era's real list *)
Definition withdrawal_rules (era : string) : list string :=
  match assoc era era_rules with Some rs => filter is_withdrawal_rule rs | None => [] end.
Definition gated_eras : list string := ["conway"; "dijkstra"]%string.
Definition bad_eras : list string :=
  filter (fun era => negb (list_eqb String.eqb (withdrawal_rules era) [n_withdrawals])) gated_eras.

(* ---- common.VerifyTransaction over the era's whole rule list ---- *)

(* parts of a transaction no withdrawal rule reads (numbers of inputs, reference
   inputs, collateral inputs, outputs, certificates); carried so that the model
   states that the verdict does not depend on them *)
Record shape := mk_shape { s_inputs : N; s_refs : N; s_coll : N; s_outputs : N; s_certs : N }.

(* what a rule receives: the transaction and parameters (vt) and the ledger state.
   Of the ledger state the withdrawal rule uses only whether it offers the
   DRepDelegationState capability (its answers are carried by the wd entries). *)
Record vtx := mk_vtx { v_shape : shape; v_versioned : bool; v_pv : N; v_valid : bool; v_ws : list wd }.
Definition lstate := bool.
Definition rule := vtx -> lstate -> result.

(* for i, rule := range validationRules { if err := rule(tx, slot, ledgerState, protocolParams); err != nil { return ... } }
   every rule is applied to the SAME ledger state the caller passed *)
Fixpoint verify_tx (rules : list rule) (t : vtx) (ls : lstate) : result :=
  match rules with
  | [] => ROk
  | r :: rest => match r t ls with ROk => verify_tx rest t ls | e => e end
  end.

Definition withdrawals_rule : rule :=
  fun t ls => conway_withdrawals (v_versioned t) (v_pv t) (v_valid t) ls (v_ws t).

(* meaning of one entry of a generated rule list; `other` = all rules that are not the withdrawal rule *)
Definition rule_sem (other : string -> rule) (name : string) : rule :=
  if String.eqb name n_withdrawals then withdrawals_rule else other name.
Definition era_rule_list (other : string -> rule) (era : string) : list rule :=
  match assoc era era_rules with Some rs => map (rule_sem other) rs | None => [] end.
Definition others_pass : string -> rule := fun _ _ _ => ROk.

(* correspondence: (era, shape, versioned, pv, is_valid, cap, withdrawals,
   observed result of the direct rule call, observed result through
   VerifyTransaction over the whole era list with the other rules' verdicts discarded) *)
Definition case := (string * shape * bool * N * bool * bool * list wd * result * result)%type.
Definition check_case (c : case) : bool :=
  match c with
  | (era, sh, versioned, pv, is_valid, cap, ws, obs_direct, obs_verify) =>
    let t := mk_vtx sh versioned pv is_valid ws in
    existsb (String.eqb era) gated_eras &&
    list_eqb String.eqb (withdrawal_rules era) [n_withdrawals] &&
    result_eqb (withdrawals_rule t cap) obs_direct &&
    result_eqb (verify_tx (era_rule_list others_pass era) t cap) obs_verify
  end.
Definition mismatches : list case -> list nat := failing check_case.
