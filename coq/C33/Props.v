(* C33 - property theorems only.  pv ranges over all of N. *)
From Coq Require Import String Permutation.
From V Require Import Lib.Base C33.Gen C33.Model C33.Proofs.
Local Open Scope N_scope.

(* phase-1-valid, every withdrawal account registered, versioned (Conway or
   Dijkstra) parameters, a ledger state that answers delegation queries
   without error: the rule reports NotDelegated exactly when the major version
   is 10 or 11 and some non-zero withdrawal's account has no DRep delegation *)
Theorem C33_not_delegated : forall pv ws, all_registered ws -> no_lookup_error ws ->
  (conway_withdrawals true pv true true ws = RNotDelegated <-> in_window pv /\ exists w, In w ws /\ undelegated w).
Proof.
  intros pv ws Hr Hn. destruct ws as [|w0 r] eqn:Ews.
  - rewrite rule_empty. split; [discriminate|intros (_ & w & [] & _)].
  - rewrite <- Ews in *. rewrite rule_reduces by (auto; congruence). cbn [negb].
    destruct ((pv <? pv_plomin) || (pv_dijkstra <=? pv)) eqn:G.
    + split; [discriminate|]. intros (W & _). apply window_gate in W. congruence.
    + apply window_gate in G. rewrite (loop_cap ws Hn). tauto.
Qed.
Print Assumptions C33_not_delegated.

(* the statement of the property for one non-zero withdrawal from a registered key-hash account *)
Theorem C33_single_key_hash : forall pv amount deleg, amount <> 0%Z -> deleg <> 2 ->
  (conway_withdrawals true pv true true [mk_wd 0 amount true deleg] = RNotDelegated <-> in_window pv /\ deleg = 0).
Proof.
  intros pv amount deleg Ha Hd.
  rewrite C33_not_delegated.
  - split.
    + intros (W & w & [<-|[]] & (_ & _ & D)). auto.
    + intros (W & ->). split; [exact W|]. eexists. split; [now left|]. repeat split; auto.
  - intros w [<-|[]] _. reflexivity.
  - intros w [<-|[]]. exact Hd.
Qed.
Print Assumptions C33_single_key_hash.

(* and otherwise it is accepted (no third outcome) *)
Theorem C33_else_accepted : forall pv ws, all_registered ws -> no_lookup_error ws ->
  conway_withdrawals true pv true true ws = RNotDelegated \/ conway_withdrawals true pv true true ws = ROk.
Proof.
  intros pv ws Hr Hn. destruct ws as [|w0 r] eqn:Ews; [right; apply rule_empty|].
  rewrite <- Ews in *. rewrite rule_reduces by (auto; congruence). cbn [negb].
  destruct ((pv <? pv_plomin) || (pv_dijkstra <=? pv)); [now right|now apply loop_cap_total].
Qed.

(* a ledger state that cannot answer: 'state unavailable' exactly at PV10/PV11 with a non-zero withdrawal *)
Theorem C33_unavailable : forall pv ws, all_registered ws ->
  (conway_withdrawals true pv true false ws = RUnavailable <-> in_window pv /\ exists w, In w ws /\ nonzero w).
Proof.
  intros pv ws Hr. destruct ws as [|w0 r] eqn:Ews.
  - rewrite rule_empty. split; [discriminate|intros (_ & w & [] & _)].
  - rewrite <- Ews in *. rewrite rule_reduces by (auto; congruence). cbn [negb].
    destruct ((pv <? pv_plomin) || (pv_dijkstra <=? pv)) eqn:G.
    + split; [discriminate|]. intros (W & _). apply window_gate in W. congruence.
    + apply window_gate in G. rewrite loop_nocap. tauto.
Qed.
Print Assumptions C33_unavailable.

(* versions up to 9 and from 12 on: no delegation requirement, whatever the
   ledger state can or cannot answer *)
Theorem C33_no_requirement_outside : forall pv cap ws, pv <= 9 \/ 12 <= pv -> all_registered ws ->
  conway_withdrawals true pv true cap ws = ROk.
Proof.
  intros pv cap ws Hpv Hr. destruct ws as [|w0 r] eqn:Ews; [apply rule_empty|].
  rewrite <- Ews in *. rewrite rule_reduces by (auto; congruence). cbn [negb].
  destruct ((pv <? pv_plomin) || (pv_dijkstra <=? pv)) eqn:G; [reflexivity|].
  apply window_gate in G. unfold in_window in G. lia.
Qed.
Print Assumptions C33_no_requirement_outside.

(* zero-amount withdrawals never consult the delegation state *)
Theorem C33_zero_amounts : forall pv cap ws, all_registered ws -> (forall w, In w ws -> w_amount w = 0%Z) ->
  conway_withdrawals true pv true cap ws = ROk.
Proof.
  intros pv cap ws Hr Hz. destruct ws as [|w0 r] eqn:Ews; [apply rule_empty|].
  rewrite <- Ews in *. rewrite rule_reduces by (auto; congruence). cbn [negb].
  destruct ((pv <? pv_plomin) || (pv_dijkstra <=? pv)); [reflexivity|now apply loop_all_zero].
Qed.

(* phase-2-invalid transactions are skipped; unregistered accounts are reported first at every version *)
Theorem C33_phase2_invalid : forall versioned pv cap ws, conway_withdrawals versioned pv false cap ws = ROk.
Proof. reflexivity. Qed.
Theorem C33_unregistered_first : forall versioned pv cap ws, ~ all_registered ws ->
  conway_withdrawals versioned pv true cap ws = RUnregistered.
Proof. intros. unfold conway_withdrawals. cbn [negb]. now rewrite shelley_unreg. Qed.

(* modelling a Go map as a list is harmless: the result is the same for every iteration order *)
Theorem C33_order_independent : forall versioned pv is_valid cap ws ws', Permutation ws ws' -> no_lookup_error ws ->
  conway_withdrawals versioned pv is_valid cap ws = conway_withdrawals versioned pv is_valid cap ws'.
Proof. exact result_perm. Qed.
Print Assumptions C33_order_independent.

(* translator: the Conway and the Dijkstra list each run exactly this function for withdrawals; window = [10, 12) *)
Theorem C33_rule_lists : forall era, In era gated_eras -> withdrawal_rules era = [n_withdrawals].
Proof.
  intros era He. pose proof table_ok as T. unfold bad_eras in T.
  destruct (list_eqb String.eqb (withdrawal_rules era) [n_withdrawals]) eqn:E.
  - apply (list_eqb_eq String.eqb) in E; [exact E|intros; apply String.eqb_eq].
  - assert (In era (filter (fun era => negb (list_eqb String.eqb (withdrawal_rules era) [n_withdrawals])) gated_eras)) as F
      by (apply filter_In; split; [exact He|now rewrite E]).
    rewrite T in F. destruct F.
Qed.
Theorem C33_window_constants : pv_plomin = 10 /\ pv_vanrossem = 11 /\ pv_dijkstra = 12 /\ pv_conway = 9.
Proof. exact pv_constants. Qed.

(* common.VerifyTransaction hands every rule of the era list the ledger state it
   was given: over the whole Conway / Dijkstra list, whatever the shape of the
   transaction (numbers of inputs, reference inputs, collateral, outputs,
   certificates) and whatever the other rules are, acceptance implies that the
   withdrawal rule accepts on that very ledger state; and when the other rules
   accept, the verdict of the list IS the withdrawal rule's verdict *)
Theorem C33_verify_transaction_same_state : forall other era t ls, In era gated_eras ->
  verify_tx (era_rule_list other era) t ls = ROk -> withdrawals_rule t ls = ROk.
Proof.
  intros other era t ls He V. destruct (gated_has_rule era He) as (rs & Hrs & Hex).
  unfold era_rule_list in V. rewrite Hrs in V. rewrite verify_tx_ok in V.
  apply existsb_exists in Hex. destruct Hex as (n & Hin & Hn).
  specialize (V (rule_sem other n) (in_map _ _ _ Hin)). unfold rule_sem in V. now rewrite Hn in V.
Qed.
Print Assumptions C33_verify_transaction_same_state.

Theorem C33_verify_transaction_projects : forall other era t ls, In era gated_eras ->
  (forall n, String.eqb n n_withdrawals = false -> other n t ls = ROk) ->
  verify_tx (era_rule_list other era) t ls =
  conway_withdrawals (v_versioned t) (v_pv t) (v_valid t) ls (v_ws t).
Proof.
  intros other era t ls He Ho. destruct (gated_has_rule era He) as (rs & Hrs & Hex).
  unfold era_rule_list. rewrite Hrs, (verify_tx_projects other rs t ls Ho), Hex. reflexivity.
Qed.
Print Assumptions C33_verify_transaction_projects.

(* non-vacuity *)
Example C33_ex_pv10 : conway_withdrawals true 10 true true [mk_wd 0 5%Z true 0] = RNotDelegated.
Proof. reflexivity. Qed.
Example C33_ex_pv12 : conway_withdrawals true 12 true true [mk_wd 0 5%Z true 0] = ROk.
Proof. reflexivity. Qed.
Example C33_ex_pv9_nocap : conway_withdrawals true 9 true false [mk_wd 0 5%Z true 0] = ROk.
Proof. reflexivity. Qed.
Example C33_ex_pv11_nocap : conway_withdrawals true 11 true false [mk_wd 0 5%Z true 0] = RUnavailable.
Proof. reflexivity. Qed.
