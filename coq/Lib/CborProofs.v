(* The exported theorems about the CBOR parser of Lib/CborParse.v.  All
   constructors of `item`, unbounded nesting, every header width.
   (Details: CborLemmas, CborEnc, CborPrefix, CborSound, CborFuel, CborSpan.) *)
From V Require Export Lib.Base Lib.Cbor Lib.CborParse Lib.CborLemmas Lib.CborSpan.
From V Require Import Lib.CborEnc Lib.CborPrefix Lib.CborSound Lib.CborFuel.
Local Open Scope N_scope.

(* ---- completeness on encodings ---- *)
Theorem parse_enc : forall i fuel rest, wf i -> (need i <= fuel)%nat ->
  parse fuel (enc i ++ rest) = Ok i rest.
Proof. intros. apply parse_enc_need; assumption. Qed.

Theorem need_le : forall i, (need i <= fuel_for (enc i))%nat.
Proof. exact need_le_len. Qed.

Theorem parse_full_enc : forall i rest, wf i -> parse_full (enc i ++ rest) = Ok i rest.
Proof.
  intros i rest Hw. unfold parse_full. apply parse_enc; [exact Hw|].
  pose proof (need_le i). unfold fuel_for in *. rewrite app_length. lia.
Qed.

(* ---- soundness: the consumed prefix is exactly the item ---- *)
Theorem parse_sound : forall fuel bs i rest, all_bytes bs -> parse fuel bs = Ok i rest ->
  bs = enc i ++ rest /\ wf i.
Proof. exact parse_sound_fuel. Qed.

Theorem parse_full_sound : forall bs i rest, all_bytes bs -> parse_full bs = Ok i rest ->
  bs = enc i ++ rest /\ wf i.
Proof. intros bs i rest. apply parse_sound. Qed.

(* ---- fuel: bound in terms of the input length; consumed bytes ---- *)
Theorem parse_fuel : forall bs fuel, (fuel_for bs <= fuel)%nat -> parse fuel bs = parse_full bs.
Proof. intros bs fuel H. unfold parse_full. apply parse_fuel_indep; [exact H|lia]. Qed.

Theorem parse_consumes : forall fuel bs i rest, parse fuel bs = Ok i rest ->
  (length rest < length bs)%nat.
Proof. exact parse_consumed. Qed.

(* ---- prefixes ---- *)
Theorem parse_prefix : forall i p q fuel, wf i -> enc i = p ++ q -> q <> [] -> (need i <= fuel)%nat ->
  parse fuel p = NeedMore.
Proof. intros. eapply parse_prefix_need; eauto. Qed.

Theorem parse_full_prefix : forall i p q, wf i -> enc i = p ++ q -> q <> [] -> parse_full p = NeedMore.
Proof.
  intros i p q Hw E Hq.
  rewrite <- (parse_fuel p (Nat.max (fuel_for p) (need i))) by lia.
  eapply parse_prefix; eauto. lia.
Qed.

(* ---- what Bad and NeedMore exclude ---- *)
(* Bad from parse_full is never an artefact of the fuel: the input neither
   starts with a well-formed item nor can be extended to one. *)
Theorem parse_full_bad : forall bs, parse_full bs = Bad ->
  forall i ext rest, wf i -> bs ++ ext <> enc i ++ rest.
Proof.
  intros bs Hbad i ext rest Hw E. apply app_eq_app in E. destruct E as (l & [[E1 E2]|[E1 E2]]).
  - subst bs. rewrite parse_full_enc in Hbad by exact Hw. discriminate.
  - destruct l as [|c l].
    + rewrite app_nil_r in E1. subst bs. rewrite <- (app_nil_r (enc i)) in Hbad.
      rewrite parse_full_enc in Hbad by exact Hw. discriminate.
    + rewrite (parse_full_prefix i bs (c :: l) Hw E1) in Hbad by discriminate. discriminate.
Qed.

Theorem parse_full_needmore : forall bs, parse_full bs = NeedMore ->
  forall i rest, wf i -> bs <> enc i ++ rest.
Proof. intros bs H i rest Hw ->. rewrite parse_full_enc in H by exact Hw. discriminate. Qed.

(* complete characterisation of Ok *)
Theorem parse_full_ok_iff : forall bs i rest, all_bytes bs ->
  (parse_full bs = Ok i rest <-> bs = enc i ++ rest /\ wf i).
Proof.
  intros bs i rest Hb. split; [apply parse_full_sound; exact Hb|].
  intros [-> Hw]. apply parse_full_enc; exact Hw.
Qed.

(* encodings of well-formed items are prefix-free and injective *)
Theorem enc_inj : forall i j r1 r2, wf i -> wf j -> enc i ++ r1 = enc j ++ r2 -> i = j /\ r1 = r2.
Proof.
  intros i j r1 r2 Hi Hj E. pose proof (parse_full_enc i r1 Hi) as P. rewrite E in P.
  rewrite parse_full_enc in P by exact Hj. injection P as -> ->. auto.
Qed.

Theorem enc_bytes : forall i, wf i -> all_bytes (enc i).
Proof.
  assert (G : forall mt f n, mt <= 7 -> fits f n -> all_bytes (enc_head mt f n)).
  { intros mt f n Hm Hf. unfold enc_head. constructor; [|apply be_bytes].
    pose proof (ai_lt f n Hf). unfold is_byte. lia. }
  assert (GL : forall xs, Forall (fun x => wf x -> all_bytes (enc x)) xs -> Forall wf xs -> all_bytes (flat_map enc xs)).
  { induction 1 as [|x r Hx _ IH]; intros Hw; cbn [flat_map]; [constructor|].
    inversion Hw; subst. apply Forall_app. split; [apply Hx; assumption|apply IH; assumption]. }
  assert (GC : forall mt cs, mt <= 7 -> Forall chunk_ok cs -> all_bytes (flat_map (enc_chunk mt) cs)).
  { intros mt cs Hm. induction 1 as [|[f s] r [Hl Hs] _ IH]; cbn [flat_map]; [constructor|].
    apply Forall_app. split; [|exact IH]. unfold enc_chunk. apply Forall_app. split; [apply G; auto|exact Hs]. }
  assert (B255 : all_bytes [255]) by (repeat constructor).
  induction i as [f n|f n|f bs|cs|f bs|cs|f xs IHxs|f kvs IHkvs|f t x IHx|f v|f v] using item_ind'; intros Hw.
  - apply G; [lia|exact Hw].
  - apply G; [lia|exact Hw].
  - destruct Hw. cbn [enc]. apply Forall_app. split; [apply G; [lia|assumption]|assumption].
  - cbn [enc app]. constructor; [unfold is_byte; lia|]. apply Forall_app. split; [apply GC; [lia|exact Hw]|exact B255].
  - destruct Hw. cbn [enc]. apply Forall_app. split; [apply G; [lia|assumption]|assumption].
  - cbn [enc app]. constructor; [unfold is_byte; lia|]. apply Forall_app. split; [apply GC; [lia|exact Hw]|exact B255].
  - apply wf_arr in Hw. destruct Hw as [Hf Hxs]. destruct f as [f|].
    + rewrite enc_arr_def. apply Forall_app. split; [apply G; [lia|exact Hf]|apply GL; assumption].
    + rewrite enc_arr_indef. constructor; [unfold is_byte; lia|]. apply Forall_app. split; [apply GL; assumption|exact B255].
  - apply wf_map in Hw. destruct Hw as [Hf Hxs]. destruct f as [f|].
    + rewrite enc_map_def. apply Forall_app. split; [apply G; [lia|exact Hf]|apply GL; assumption].
    + rewrite enc_map_indef. constructor; [unfold is_byte; lia|]. apply Forall_app. split; [apply GL; assumption|exact B255].
  - destruct Hw as [Hf Hx]. rewrite enc_tag. apply Forall_app. split; [apply G; [lia|exact Hf]|apply IHx; exact Hx].
  - apply G; [lia|apply wf_simple_fits; exact Hw].
  - apply G; [lia|apply wf_float_fits; exact Hw].
Qed.

(* ---- children of a parsed container, located in the input ---- *)
Theorem parse_child_span : forall bs f xs rest j x, all_bytes bs ->
  parse_full bs = Ok (Arr f xs) rest -> nth_error xs j = Some x ->
  slice (child_off f xs j) (length (enc x)) bs = enc x.
Proof.
  intros bs f xs rest j x Hb H Hj. destruct (parse_full_sound _ _ _ Hb H) as [-> _].
  destruct (child_split_arr f xs j x Hj) as (pre & post & E & L). rewrite E, <- L.
  rewrite <- !app_assoc. apply slice_app.
Qed.

(* re-exports under their library names *)
Definition child_span := child_span_arr.

(* ---- sanity: the outcome classes on small inputs ---- *)
Example ex_ok : parse_full [152;2;1;129;24;200;7] = Ok (Arr (Some F1) [UInt Fimm 1; Arr (Some Fimm) [UInt F1 200]]) [7].
Proof. vm_compute. reflexivity. Qed.
Example ex_map : parse_full [191;1;97;120;255] = Ok (Map None [(UInt Fimm 1, TStr Fimm [120])]) [].
Proof. vm_compute. reflexivity. Qed.
Example ex_chunks : parse_full [95;65;1;88;1;2;255;0] = Ok (BStrI [(Fimm, [1]); (F1, [2])]) [0].
Proof. vm_compute. reflexivity. Qed.
Example ex_need : map parse_full [[]; [152]; [159;1]; [130;1]; [95;66;1]; [216]; [251;0;0]; [155;255;255;255;255;255;255;255;255;0]]
  = [NeedMore; NeedMore; NeedMore; NeedMore; NeedMore; NeedMore; NeedMore; NeedMore].
Proof. vm_compute. reflexivity. Qed.
(* reserved ai 28; indefinite uint; indefinite tag; stray break; break inside a definite array;
   text chunk in a byte string; indefinite chunk; simple(24..31) in two bytes; odd indefinite map; not a byte *)
Example ex_bad : map parse_full [[28]; [31]; [223;0]; [255]; [129;255]; [95;97;0;255]; [95;95;255;255]; [248;31]; [191;1;255]; [300]]
  = [Bad; Bad; Bad; Bad; Bad; Bad; Bad; Bad; Bad; Bad].
Proof. vm_compute. reflexivity. Qed.
