(* parse_prefix: every proper prefix of the encoding of a well-formed item is
   reported as NeedMore (every constructor, unbounded nesting). *)
From V Require Import Lib.Base Lib.Cbor Lib.CborParse Lib.CborLemmas Lib.CborEnc.
Local Open Scope N_scope.

Definition Ppre (i : item) : Prop :=
  wf i -> forall p q, enc i = p ++ q -> q <> [] -> forall fuel, (need i <= fuel)%nat -> parse fuel p = NeedMore.

Lemma parse_n_pre xs : Forall Ppre xs -> Forall wf xs -> forall p q, flat_map enc xs = p ++ q -> q <> [] ->
  forall fuel, (needl xs <= fuel)%nat -> parse_n fuel (N.of_nat (length xs)) p = NeedMore.
Proof.
  induction xs as [|x r IH]; intros HP Hw p q E Hq fuel Hfuel.
  - cbn in E. destruct p; destruct q; cbn in E; congruence.
  - inversion HP as [|? ? Hx Hr]; subst. inversion Hw as [|? ? Wx Wr]; subst.
    destruct fuel as [|fu]; [cbn in Hfuel; lia|].
    cbn [needl] in Hfuel.
    rewrite parse_n_step by (cbn [length]; lia).
    replace (N.of_nat (length (x :: r)) - 1) with (N.of_nat (length r)) by (cbn [length]; lia).
    cbn [flat_map] in E. apply app_eq_app in E. destruct E as (l & [[E1 E2]|[E1 E2]]).
    + destruct l as [|c l].
      * rewrite app_nil_r in E1. subst p. cbn [app] in E2. subst q.
        rewrite <- (app_nil_r (enc x)). rewrite (parse_enc_all x Wx fu []) by lia. cbn [bind].
        rewrite (IH Hr Wr [] (flat_map enc r)) by (auto; lia). reflexivity.
      * rewrite (Hx Wx p (c :: l) E1) by (try discriminate; lia). reflexivity.
    + subst p. rewrite (parse_enc_all x Wx fu l) by lia. cbn [bind].
      rewrite (IH Hr Wr l q E2 Hq) by lia. reflexivity.
Qed.

Lemma parse_indef_pre xs : Forall Ppre xs -> Forall wf xs -> forall p q, flat_map enc xs ++ [255] = p ++ q -> q <> [] ->
  forall fuel, (needl xs <= fuel)%nat -> parse_indef fuel p = NeedMore.
Proof.
  induction xs as [|x r IH]; intros HP Hw p q E Hq fuel Hfuel.
  - cbn in E. destruct p as [|b p].
    + apply parse_indef_nil. cbn in Hfuel. lia.
    + destruct p; destruct q; cbn in E; congruence.
  - inversion HP as [|? ? Hx Hr]; subst. inversion Hw as [|? ? Wx Wr]; subst.
    destruct fuel as [|fu]; [cbn in Hfuel; lia|].
    cbn [needl] in Hfuel.
    cbn [flat_map] in E. rewrite <- app_assoc in E. apply app_eq_app in E.
    destruct (enc_first x Wx) as (b & t & Eb & Hb).
    destruct E as (l & [[E1 E2]|[E1 E2]]).
    + destruct l as [|c l].
      * rewrite app_nil_r in E1. subst p. cbn [app] in E2. subst q.
        assert (Hbs : enc x = b :: t) by exact Eb.
        rewrite Hbs. rewrite parse_indef_step by exact Hb. rewrite <- Hbs.
        rewrite <- (app_nil_r (enc x)). rewrite (parse_enc_all x Wx fu []) by lia. cbn [bind].
        rewrite (IH Hr Wr [] (flat_map enc r ++ [255])) by (auto; lia). reflexivity.
      * destruct p as [|b' p'].
        -- reflexivity.
        -- assert (b' = b) by (rewrite Eb in E1; cbn in E1; congruence). subst b'.
           rewrite parse_indef_step by exact Hb.
           rewrite (Hx Wx (b :: p') (c :: l) E1) by (try discriminate; lia). reflexivity.
    + subst p.
      assert (Hbs : enc x ++ l = b :: (t ++ l)) by (rewrite Eb; reflexivity).
      rewrite Hbs. rewrite parse_indef_step by exact Hb. rewrite <- Hbs.
      rewrite (parse_enc_all x Wx fu l) by lia. cbn [bind].
      rewrite (IH Hr Wr l q E2 Hq) by lia. reflexivity.
Qed.

(* a cut inside one chunk (after its complete head or inside the head) *)
Lemma parse_chunks_cut fu mt f (s : bytes) p q : mt < 7 -> fits f (N.of_nat (length s)) ->
  enc_chunk mt (f, s) = p ++ q -> q <> [] -> p <> [] -> parse_chunks (S fu) mt p = NeedMore.
Proof.
  intros Hm Hc E Hq Hp.
  unfold enc_chunk in E. cbn [fst snd] in E.
  remember (N.of_nat (length s)) as n eqn:En.
  pose proof (ai_lt _ _ Hc) as Hlt. pose proof (ai_ne31 _ _ Hc) as H31.
  destruct (hd_decomp mt (ai_of f n) Hlt) as [E1 E2].
  assert (Hstep : forall p', parse_chunks (S fu) mt ((mt * 32 + ai_of f n) :: p') =
     bind (read_arg (ai_of f n) p') (fun fn r1 =>
             match take (snd fn) r1 with
             | None => NeedMore
             | Some (s, r2) => bind (parse_chunks fu mt r2) (fun cs r3 => Ok ((fst fn, s) :: cs) r3)
             end)).
  { intros p'. cbn [parse_chunks].
    destruct (N.eqb_spec (mt * 32 + ai_of f n) 255) as [E'|_]; [lia|].
    rewrite E1, E2. rewrite N.eqb_refl.
    destruct (N.eqb_spec (ai_of f n) 31) as [E'|_]; [contradiction|]. reflexivity. }
  destruct (head_split _ _ _ _ _ _ E) as [->|[(p' & q' & -> & Eb & Hq')|(l & -> & Es)]]; [congruence| |].
  - rewrite Hstep. rewrite (read_arg_short f n p' q' Hc Eb Hq'). reflexivity.
  - unfold enc_head. cbn [app]. rewrite Hstep. rewrite read_arg_enc by exact Hc. cbn [bind snd].
    rewrite take_short; [reflexivity|]. subst s n. rewrite app_length. destruct q; [congruence|]. cbn [length]. lia.
Qed.

Lemma parse_chunks_pre mt cs : mt < 7 -> Forall chunk_ok cs -> forall p q,
  flat_map (enc_chunk mt) cs ++ [255] = p ++ q -> q <> [] ->
  forall fuel, (length cs < fuel)%nat -> parse_chunks fuel mt p = NeedMore.
Proof.
  intros Hm. induction cs as [|c r IH]; intros Hw p q E Hq fuel Hfuel.
  - cbn in E. destruct p as [|b p].
    + apply parse_chunks_nil. lia.
    + destruct p; destruct q; cbn in E; congruence.
  - inversion Hw as [|? ? Wc Wr]; subst. destruct c as [f s]. destruct Wc as [Wc _]. unfold len_ok in Wc. cbn [fst snd] in Wc.
    destruct fuel as [|fu]; [cbn in Hfuel; lia|]. cbn [length] in Hfuel.
    cbn [flat_map] in E. rewrite <- app_assoc in E. apply app_eq_app in E.
    destruct E as (l & [[E1 E2]|[E1 E2]]).
    + destruct l as [|c l].
      * rewrite app_nil_r in E1. subst p. cbn [app] in E2. subst q.
        rewrite <- (app_nil_r (enc_chunk mt (f, s))). rewrite parse_chunks_step by assumption.
        rewrite (IH Wr [] (flat_map (enc_chunk mt) r ++ [255])) by (auto; lia). reflexivity.
      * destruct p as [|b' p']; [reflexivity|].
        eapply parse_chunks_cut; eauto; discriminate.
    + subst p. rewrite parse_chunks_step by assumption.
      rewrite (IH Wr l q E2 Hq) by lia. reflexivity.
Qed.

(* a cut after the first byte of an indefinite-length item *)
Lemma indef_split hb (body : bytes) p q : hb :: body ++ [255] = p ++ q ->
  p = [] \/ exists p', p = hb :: p' /\ body ++ [255] = p' ++ q.
Proof. destruct p as [|b p]; [left; reflexivity|]. cbn [app]. intros E. injection E as <- E. right. eauto. Qed.

Theorem parse_prefix_all : forall i, Ppre i.
Proof.
  induction i as [f n|f n|f bs|cs|f bs|cs|f xs IHxs|f kvs IHkvs|f t x IHx|f v|f v] using item_ind';
    intros Hw p q E Hq fuel Hfuel.
  - (* UInt *) destruct fuel as [|fu]; [cbn in Hfuel; lia|].
    cbn [enc] in E. rewrite <- (app_nil_r (enc_head _ _ _)) in E.
    destruct (head_split _ _ _ _ _ _ E) as [->|[(p' & q' & -> & Eb & Hq')|(l & -> & Es)]].
    + reflexivity.
    + eapply parse_head_short; eauto.
    + destruct l; destruct q; cbn in Es; congruence.
  - (* NInt *) destruct fuel as [|fu]; [cbn in Hfuel; lia|].
    cbn [enc] in E. rewrite <- (app_nil_r (enc_head _ _ _)) in E.
    destruct (head_split _ _ _ _ _ _ E) as [->|[(p' & q' & -> & Eb & Hq')|(l & -> & Es)]].
    + reflexivity.
    + eapply parse_head_short; eauto.
    + destruct l; destruct q; cbn in Es; congruence.
  - (* BStr *) destruct fuel as [|fu]; [cbn in Hfuel; lia|]. destruct Hw as [Hf _].
    cbn [enc] in E.
    destruct (head_split _ _ _ _ _ _ E) as [->|[(p' & q' & -> & Eb & Hq')|(l & -> & Es)]].
    + reflexivity.
    + eapply parse_head_short; eauto.
    + rewrite parse_head_ok by exact Hf. cbn [N.eqb Pos.eqb]. unfold take_str.
      rewrite take_short; [reflexivity|]. subst bs. rewrite app_length. destruct q; [congruence|]. cbn [length]. lia.
  - (* BStrI *) cbn [need] in Hfuel. destruct fuel as [|fu]; [lia|]. cbn [enc app] in E.
    destruct (indef_split _ _ _ _ E) as [->|(p' & -> & E')]; [reflexivity|].
    rewrite parse_S. change (95 / 32) with 2. change (95 mod 32) with 31.
    rewrite body_indef. cbn [N.eqb Pos.eqb].
    rewrite (parse_chunks_pre 2 cs ltac:(lia) Hw p' q E' Hq) by lia. reflexivity.
  - (* TStr *) destruct fuel as [|fu]; [cbn in Hfuel; lia|]. destruct Hw as [Hf _].
    cbn [enc] in E.
    destruct (head_split _ _ _ _ _ _ E) as [->|[(p' & q' & -> & Eb & Hq')|(l & -> & Es)]].
    + reflexivity.
    + eapply parse_head_short; eauto.
    + rewrite parse_head_ok by exact Hf. cbn [N.eqb Pos.eqb]. unfold take_str.
      rewrite take_short; [reflexivity|]. subst bs. rewrite app_length. destruct q; [congruence|]. cbn [length]. lia.
  - (* TStrI *) cbn [need] in Hfuel. destruct fuel as [|fu]; [lia|]. cbn [enc app] in E.
    destruct (indef_split _ _ _ _ E) as [->|(p' & -> & E')]; [reflexivity|].
    rewrite parse_S. change (127 / 32) with 3. change (127 mod 32) with 31.
    rewrite body_indef. cbn [N.eqb Pos.eqb].
    rewrite (parse_chunks_pre 3 cs ltac:(lia) Hw p' q E' Hq) by lia. reflexivity.
  - (* Arr *) apply wf_arr in Hw. destruct Hw as [Hf Hxs]. rewrite need_arr in Hfuel.
    destruct fuel as [|fu]; [lia|]. destruct f as [f|].
    + rewrite enc_arr_def in E.
      destruct (head_split _ _ _ _ _ _ E) as [->|[(p' & q' & -> & Eb & Hq')|(l & -> & Es)]].
      * reflexivity.
      * eapply parse_head_short; eauto.
      * rewrite parse_head_ok by exact Hf. cbn [N.eqb Pos.eqb].
        rewrite (parse_n_pre xs IHxs Hxs l q Es Hq) by lia. reflexivity.
    + rewrite enc_arr_indef in E.
      destruct (indef_split _ _ _ _ E) as [->|(p' & -> & E')]; [reflexivity|].
      rewrite parse_S. change (159 / 32) with 4. change (159 mod 32) with 31.
      rewrite body_indef. cbn [N.eqb Pos.eqb].
      rewrite (parse_indef_pre xs IHxs Hxs p' q E' Hq) by lia. reflexivity.
  - (* Map *) apply wf_map in Hw. destruct Hw as [Hf Hxs]. rewrite need_map in Hfuel.
    destruct fuel as [|fu]; [lia|]. destruct f as [f|].
    + rewrite enc_map_def in E.
      destruct (head_split _ _ _ _ _ _ E) as [->|[(p' & q' & -> & Eb & Hq')|(l & -> & Es)]].
      * reflexivity.
      * eapply parse_head_short; eauto.
      * rewrite parse_head_ok by exact Hf. cbn [N.eqb Pos.eqb].
        replace (2 * N.of_nat (length kvs)) with (N.of_nat (length (unpair kvs))) by (rewrite unpair_length; lia).
        rewrite (parse_n_pre (unpair kvs) IHkvs Hxs l q Es Hq) by lia. reflexivity.
    + rewrite enc_map_indef in E.
      destruct (indef_split _ _ _ _ E) as [->|(p' & -> & E')]; [reflexivity|].
      rewrite parse_S. change (191 / 32) with 5. change (191 mod 32) with 31.
      rewrite body_indef. cbn [N.eqb Pos.eqb].
      rewrite (parse_indef_pre (unpair kvs) IHkvs Hxs p' q E' Hq) by lia. reflexivity.
  - (* Tag *) destruct Hw as [Hf Hx]. cbn [need] in Hfuel. destruct fuel as [|fu]; [lia|].
    rewrite enc_tag in E.
    destruct (head_split _ _ _ _ _ _ E) as [->|[(p' & q' & -> & Eb & Hq')|(l & -> & Es)]].
    + reflexivity.
    + eapply parse_head_short; eauto.
    + rewrite parse_head_ok by exact Hf. cbn [N.eqb Pos.eqb].
      rewrite (IHx Hx l q Es Hq fu) by lia. reflexivity.
  - (* Simple *) destruct fuel as [|fu]; [cbn in Hfuel; lia|]. apply wf_simple_fits in Hw.
    cbn [enc] in E. rewrite <- (app_nil_r (enc_head _ _ _)) in E.
    destruct (head_split _ _ _ _ _ _ E) as [->|[(p' & q' & -> & Eb & Hq')|(l & -> & Es)]].
    + reflexivity.
    + eapply parse_head_short; eauto.
    + destruct l; destruct q; cbn in Es; congruence.
  - (* Float *) destruct fuel as [|fu]; [cbn in Hfuel; lia|]. apply wf_float_fits in Hw.
    cbn [enc] in E. rewrite <- (app_nil_r (enc_head _ _ _)) in E.
    destruct (head_split _ _ _ _ _ _ E) as [->|[(p' & q' & -> & Eb & Hq')|(l & -> & Es)]].
    + reflexivity.
    + eapply parse_head_short; eauto.
    + destruct l; destruct q; cbn in Es; congruence.
Qed.

Theorem parse_prefix_need i p q fuel : wf i -> enc i = p ++ q -> q <> [] -> (need i <= fuel)%nat ->
  parse fuel p = NeedMore.
Proof. intros Hw E Hq Hf. exact (parse_prefix_all i Hw p q E Hq fuel Hf). Qed.
