(* Byte positions of the children of arrays and maps inside the encoding of
   the container, for every header form; lengths of encodings. *)
From V Require Import Lib.Base Lib.Cbor Lib.CborParse Lib.CborLemmas.
Local Open Scope nat_scope.

Definition slice (off len : nat) (bs : bytes) : bytes := firstn len (skipn off bs).

Lemma slice_app (a b c : bytes) : slice (length a) (length b) (a ++ b ++ c) = b.
Proof.
  unfold slice. rewrite skipn_app, skipn_all, Nat.sub_diag. cbn [skipn app].
  rewrite firstn_app, firstn_all, Nat.sub_diag. cbn [firstn]. apply app_nil_r.
Qed.

Lemma slice_app_l off len (a b : bytes) : off + len <= length a -> slice off len (a ++ b) = slice off len a.
Proof.
  intros H. unfold slice. rewrite skipn_app. rewrite firstn_app.
  rewrite skipn_length. replace (len - (length a - off)) with 0 by lia.
  replace (off - length a) with 0 by lia. cbn [firstn skipn]. destruct b; cbn [firstn]; apply app_nil_r.
Qed.

Lemma slice_at (pre x post : bytes) off : off = length pre -> slice off (length x) (pre ++ x ++ post) = x.
Proof. intros ->. apply slice_app. Qed.

(* ---- lengths ---- *)
Definition trailer (f : option form) : nat := match f with Some _ => 0 | None => 1 end.

Lemma flat_map_length_sum {A} (g : A -> bytes) l : length (flat_map g l) = list_sum (map (fun x => length (g x)) l).
Proof. induction l as [|x r IH]; cbn [flat_map map list_sum length]; [reflexivity|]. rewrite app_length, IH. reflexivity. Qed.

Lemma enc_length_uint f n : length (enc (UInt f n)) = S (nbytes f).
Proof. apply enc_head_length. Qed.
Lemma enc_length_nint f n : length (enc (NInt f n)) = S (nbytes f).
Proof. apply enc_head_length. Qed.
Lemma enc_length_bstr f bs : length (enc (BStr f bs)) = S (nbytes f) + length bs.
Proof. cbn [enc]. rewrite app_length, enc_head_length. reflexivity. Qed.
Lemma enc_length_tstr f bs : length (enc (TStr f bs)) = S (nbytes f) + length bs.
Proof. cbn [enc]. rewrite app_length, enc_head_length. reflexivity. Qed.
Lemma enc_length_tag f t x : length (enc (Tag f t x)) = S (nbytes f) + length (enc x).
Proof. rewrite enc_tag, app_length, enc_head_length. reflexivity. Qed.
Lemma enc_length_simple f v : length (enc (Simple f v)) = S (nbytes f).
Proof. apply enc_head_length. Qed.
Lemma enc_length_float f v : length (enc (Float f v)) = S (nbytes f).
Proof. apply enc_head_length. Qed.

Lemma enc_arr_shape f xs : exists h t, enc (Arr f xs) = h ++ flat_map enc xs ++ t /\
  length h = hdr_size f /\ length t = trailer f.
Proof.
  destruct f as [f|].
  - exists (enc_head 4 f (N.of_nat (length xs))), []. rewrite enc_arr_def, app_nil_r.
    repeat split. apply enc_head_length.
  - exists [159%N], [255%N]. rewrite enc_arr_indef. repeat split.
Qed.

Lemma enc_map_shape f kvs : exists h t, enc (Map f kvs) = h ++ flat_map enc (unpair kvs) ++ t /\
  length h = hdr_size f /\ length t = trailer f.
Proof.
  destruct f as [f|].
  - exists (enc_head 5 f (N.of_nat (length kvs))), []. rewrite enc_map_def, app_nil_r.
    repeat split. apply enc_head_length.
  - exists [191%N], [255%N]. rewrite enc_map_indef. repeat split.
Qed.

Lemma enc_length_arr f xs : length (enc (Arr f xs)) = hdr_size f + length (flat_map enc xs) + trailer f.
Proof. destruct (enc_arr_shape f xs) as (h & t & -> & <- & <-). rewrite !app_length. lia. Qed.

Lemma enc_length_map f kvs : length (enc (Map f kvs)) = hdr_size f + length (flat_map enc (unpair kvs)) + trailer f.
Proof. destruct (enc_map_shape f kvs) as (h & t & -> & <- & <-). rewrite !app_length. lia. Qed.

(* ---- children ---- *)
Lemma nth_error_split_list {A} (l : list A) j x : nth_error l j = Some x -> l = firstn j l ++ x :: skipn (S j) l.
Proof.
  revert j. induction l as [|a l IH]; intros [|j] H; cbn in H; try discriminate.
  - injection H as ->. reflexivity.
  - cbn [firstn skipn app]. f_equal. apply IH. exact H.
Qed.

Lemma flat_child xs j x : nth_error xs j = Some x ->
  flat_map enc xs = flat_map enc (firstn j xs) ++ enc x ++ flat_map enc (skipn (S j) xs).
Proof.
  intros H. rewrite (nth_error_split_list xs j x H) at 1. rewrite flat_map_app. reflexivity.
Qed.

(* offset of child j of an array = header size + sizes of the children before it *)
Definition child_off (f : option form) (xs : list item) (j : nat) : nat :=
  hdr_size f + length (flat_map enc (firstn j xs)).

Theorem child_span_arr f xs j x : nth_error xs j = Some x ->
  slice (child_off f xs j) (length (enc x)) (enc (Arr f xs)) = enc x.
Proof.
  intros H. destruct (enc_arr_shape f xs) as (h & t & -> & Hh & _). unfold child_off. rewrite <- Hh.
  rewrite (flat_child xs j x H). rewrite <- app_length.
  rewrite <- !app_assoc. rewrite (app_assoc h). apply slice_app.
Qed.

(* same, with what precedes and follows spelled out *)
Theorem child_split_arr f xs j x : nth_error xs j = Some x -> exists pre post,
  enc (Arr f xs) = pre ++ enc x ++ post /\ length pre = child_off f xs j.
Proof.
  intros H. destruct (enc_arr_shape f xs) as (h & t & -> & Hh & _).
  exists (h ++ flat_map enc (firstn j xs)), (flat_map enc (skipn (S j) xs) ++ t).
  split.
  - rewrite (flat_child xs j x H) at 1. rewrite <- !app_assoc. reflexivity.
  - unfold child_off. rewrite app_length, Hh. reflexivity.
Qed.

(* map entry j: key at  hdr + sizes of entries before,  value right after the key *)
Definition entry_off (f : option form) (kvs : list (item * item)) (j : nat) : nat :=
  hdr_size f + length (flat_map enc_kv (firstn j kvs)).

Lemma unpair_firstn {A} (l : list (A * A)) : forall j, firstn (2 * j) (unpair l) = unpair (firstn j l).
Proof.
  induction l as [|[a b] r IH]; intros [|j]; try reflexivity.
  replace (2 * S j) with (S (S (2 * j))) by lia. cbn [unpair firstn]. rewrite IH. reflexivity.
Qed.

Lemma unpair_nth {A} (l : list (A * A)) : forall j k v, nth_error l j = Some (k, v) ->
  nth_error (unpair l) (2 * j) = Some k /\ nth_error (unpair l) (S (2 * j)) = Some v.
Proof.
  induction l as [|[a b] r IH]; intros [|j] k v H; cbn in H; try discriminate.
  - injection H as -> ->. split; reflexivity.
  - replace (2 * S j) with (S (S (2 * j))) by lia. cbn [unpair nth_error]. apply IH. exact H.
Qed.

Theorem child_span_map f kvs j k v : nth_error kvs j = Some (k, v) ->
  slice (entry_off f kvs j) (length (enc k)) (enc (Map f kvs)) = enc k /\
  slice (entry_off f kvs j + length (enc k)) (length (enc v)) (enc (Map f kvs)) = enc v.
Proof.
  intros H. destruct (unpair_nth kvs j k v H) as [Hk Hv].
  destruct (enc_map_shape f kvs) as (h & t & -> & Hh & _). unfold entry_off. rewrite <- Hh.
  rewrite enc_map_flat, <- unpair_firstn.
  split.
  - rewrite (flat_child _ _ _ Hk). rewrite <- app_length.
    rewrite <- !app_assoc. rewrite (app_assoc h). apply slice_app.
  - rewrite (flat_child _ _ _ Hv).
    assert (E : firstn (S (2 * j)) (unpair kvs) = firstn (2 * j) (unpair kvs) ++ [k]).
    { clear -Hk. revert Hk. generalize (2 * j) as m. generalize (unpair kvs) as l.
      induction l as [|a l IH]; intros [|m] H; cbn in H; try discriminate.
      - injection H as ->. reflexivity.
      - cbn [firstn app]. f_equal. apply IH. exact H. }
    rewrite E, flat_map_app. cbn [flat_map]. rewrite app_nil_r.
    set (A := flat_map enc (firstn (2 * j) (unpair kvs))).
    set (Z := flat_map enc (skipn (S (S (2 * j))) (unpair kvs))).
    replace (h ++ ((A ++ enc k) ++ enc v ++ Z) ++ t) with ((h ++ A ++ enc k) ++ enc v ++ (Z ++ t))
      by (rewrite <- !app_assoc; reflexivity).
    apply slice_at. rewrite !app_length. lia.
Qed.

(* size of a list of children as a sum *)
Lemma child_off_sum f xs j : child_off f xs j = hdr_size f + list_sum (map (fun x => length (enc x)) (firstn j xs)).
Proof. unfold child_off. rewrite flat_map_length_sum. reflexivity. Qed.
