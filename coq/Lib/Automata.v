(* Lib/Automata - finite automata with agency (mini-protocol state machines).

   An automaton mirrors gouroboros' protocol.StateMap + InitialState:
     states   : list of entries (numeric id, name, agency, ordered transition
                list, timeout, pending-byte limit)
     step     : exactly Protocol.nextState (protocol/protocol.go): look the
                current state up, scan its transitions IN ORDER, take the first
                whose MsgType equals the message type and whose MatchFunc (if
                any) returns true.  A state absent from the map has no
                transitions and agency None (Go zero value of StateMapEntry).
   A label is (message type id, guard class).  Guard classes name the argument
   classes a MatchFunc distinguishes (e.g. 1 = blocking, 2 = non-blocking);
   class 0 is "message carries no distinguished class".  A transition with
   t_guard = None has no MatchFunc (matches every class); Some cs matches
   exactly the classes in cs.

   Stdlib style; no proofs about particular automata here (see Lib/Bisim.v). *)
From Coq Require Import String.
From V Require Import Lib.Base.
(* end of imports *)
Local Open Scope N_scope.

Inductive agency := AgClient | AgServer | AgNone.

Definition agency_eqb (a b : agency) : bool :=
  match a, b with
  | AgClient, AgClient | AgServer, AgServer | AgNone, AgNone => true
  | _, _ => false
  end.

Lemma agency_eqb_eq a b : agency_eqb a b = true <-> a = b.
Proof. destruct a, b; cbn; split; congruence. Qed.

(* message type id, guard class *)
Definition label := (N * N)%type.

Definition label_eqb (x y : label) : bool := N.eqb (fst x) (fst y) && N.eqb (snd x) (snd y).

Record trans := mkT {
  t_msg   : N;                  (* StateTransition.MsgType *)
  t_guard : option (list N);    (* None = no MatchFunc; Some cs = classes on which MatchFunc is true *)
  t_next  : N                   (* StateTransition.NewState.Id *)
}.

Record stent := mkS {
  s_id      : N;                (* State.Id *)
  s_name    : string;           (* State.Name *)
  s_agency  : agency;           (* StateMapEntry.Agency *)
  s_trans   : list trans;       (* StateMapEntry.Transitions, in order *)
  s_timeout : Z;                (* StateMapEntry.Timeout in nanoseconds (0 = none) *)
  s_dyn_timeout : bool;         (* StateMapEntry.TimeoutFunc != nil *)
  s_limit   : N                 (* StateMapEntry.PendingMessageByteLimit (0 = none) *)
}.

Record aut := mkA {
  a_name   : string;
  a_states : list stent;
  a_init   : N                  (* ProtocolConfig.InitialState.Id *)
}.

(* ---- semantics ---------------------------------------------------------- *)

Fixpoint lookup_st (ss : list stent) (q : N) : option stent :=
  match ss with
  | [] => None
  | s :: r => if N.eqb (s_id s) q then Some s else lookup_st r q
  end.

Definition lookup (A : aut) (q : N) : option stent := lookup_st (a_states A) q.

(* StateMap[q].Agency with Go's zero value for a missing key *)
Definition agency_of (A : aut) (q : N) : agency :=
  match lookup A q with Some s => s_agency s | None => AgNone end.

Definition guard_ok (g : option (list N)) (c : N) : bool :=
  match g with None => true | Some cs => existsb (N.eqb c) cs end.

Fixpoint find_trans (ts : list trans) (m c : N) : option N :=
  match ts with
  | [] => None
  | t :: r => if N.eqb (t_msg t) m && guard_ok (t_guard t) c then Some (t_next t)
              else find_trans r m c
  end.

Definition trans_of (A : aut) (q : N) : list trans :=
  match lookup A q with Some s => s_trans s | None => [] end.

(* Protocol.nextState; None = "message not allowed in current protocol state" *)
Definition step (A : aut) (q : N) (l : label) : option N :=
  find_trans (trans_of A q) (fst l) (snd l).

Fixpoint run_from (A : aut) (q : N) (tr : list label) : option N :=
  match tr with
  | [] => Some q
  | l :: r => match step A q l with Some q' => run_from A q' r | None => None end
  end.

Definition run (A : aut) (tr : list label) : option N := run_from A (a_init A) tr.

Definition accepts (A : aut) (tr : list label) : bool :=
  match run A tr with Some _ => true | None => false end.

(* agencies of the states visited along the accepted prefix of the trace
   (initial state first).  length = 1 + length of the accepted prefix. *)
Fixpoint obs_from (A : aut) (q : N) (tr : list label) : list agency :=
  agency_of A q ::
  match tr with
  | [] => []
  | l :: r => match step A q l with Some q' => obs_from A q' r | None => [] end
  end.

Definition obs (A : aut) (tr : list label) : list agency := obs_from A (a_init A) tr.

(* agency of the state reached by the whole trace, if it is accepted *)
Definition final_agency (A : aut) (tr : list label) : option agency :=
  match run A tr with Some q => Some (agency_of A q) | None => None end.

Definition terminal (A : aut) (q : N) : bool := agency_eqb (agency_of A q) AgNone.

(* ---- syntactic inventory ------------------------------------------------ *)

Definition all_trans (A : aut) : list trans := flat_map s_trans (a_states A).
Definition msgs_of (A : aut) : list N := map t_msg (all_trans A).
Definition guard_classes (t : trans) : list N :=
  match t_guard t with Some cs => cs | None => [] end.
Definition classes_of (A : aut) : list N := flat_map guard_classes (all_trans A).
Definition state_ids (A : aut) : list N := map s_id (a_states A).

Definition memN (x : N) (l : list N) : bool := existsb (N.eqb x) l.

Fixpoint nodupN (l : list N) : bool :=
  match l with [] => true | x :: r => negb (memN x r) && nodupN r end.

Fixpoint dedupN (l : list N) : list N :=
  match l with [] => [] | x :: r => if memN x r then dedupN r else x :: dedupN r end.

(* well-formedness of a table: distinct state ids, initial state present,
   every transition target present *)
Definition wf_aut (A : aut) : bool :=
  nodupN (state_ids A) && memN (a_init A) (state_ids A) &&
  forallb (fun t => memN (t_next t) (state_ids A)) (all_trans A).

(* terminal states have no outgoing transitions *)
Definition terminals_silent (A : aut) : bool :=
  forallb (fun s => match s_agency s with AgNone => match s_trans s with [] => true | _ => false end | _ => true end)
          (a_states A).

(* message types that can occur in some transition *)
Definition permitted_msgs (A : aut) : list N := dedupN (msgs_of A).

(* every permitted message type is in the list ds (e.g. the decodable ones);
   returns the offending ids *)
Definition undecodable (A : aut) (ds : list N) : list N :=
  filter (fun m => negb (memN m ds)) (permitted_msgs A).

(* ---- basic facts -------------------------------------------------------- *)

Lemma memN_In x l : memN x l = true <-> In x l.
Proof.
  unfold memN. rewrite existsb_exists. split.
  - intros (y & Hy & E). apply N.eqb_eq in E. subst. exact Hy.
  - intros H. exists x. split; [exact H|apply N.eqb_refl].
Qed.

Lemma lookup_st_In ss q s : lookup_st ss q = Some s -> In s ss /\ s_id s = q.
Proof.
  induction ss as [|a r IH]; cbn; [discriminate|].
  destruct (N.eqb (s_id a) q) eqn:E.
  - intros H. inversion H; subst. apply N.eqb_eq in E. auto.
  - intros H. destruct (IH H). auto.
Qed.

Lemma trans_of_sub A q t : In t (trans_of A q) -> In t (all_trans A).
Proof.
  unfold trans_of, lookup, all_trans. destruct (lookup_st (a_states A) q) as [s|] eqn:E; [|intros []].
  intros Ht. apply lookup_st_In in E. destruct E as [Hs _].
  apply in_flat_map. exists s. auto.
Qed.

Lemma find_trans_ext ts m c c' :
  (forall t, In t ts -> guard_ok (t_guard t) c = guard_ok (t_guard t) c') ->
  find_trans ts m c = find_trans ts m c'.
Proof.
  induction ts as [|t r IH]; intros H; cbn; [reflexivity|].
  rewrite (H t (or_introl eq_refl)). rewrite IH; [reflexivity|].
  intros t' Ht'. apply H. right. exact Ht'.
Qed.

Lemma find_trans_nomsg ts m c :
  (forall t, In t ts -> t_msg t <> m) -> find_trans ts m c = None.
Proof.
  induction ts as [|t r IH]; intros H; cbn; [reflexivity|].
  destruct (N.eqb (t_msg t) m) eqn:E.
  - apply N.eqb_eq in E. exfalso. apply (H t); [left; reflexivity|exact E].
  - cbn. apply IH. intros t' Ht'. apply H. right. exact Ht'.
Qed.

Lemma run_from_app A tr1 : forall q tr2,
  run_from A q (tr1 ++ tr2) =
  match run_from A q tr1 with Some q' => run_from A q' tr2 | None => None end.
Proof.
  induction tr1 as [|l r IH]; intros q tr2; cbn; [reflexivity|].
  destruct (step A q l); [apply IH|reflexivity].
Qed.

Lemma obs_from_length_accepts A tr : forall q,
  (length (obs_from A q tr) = S (length tr)) <-> run_from A q tr <> None.
Proof.
  induction tr as [|l r IH]; intros q; cbn.
  - split; [discriminate|reflexivity].
  - destruct (step A q l) as [q'|].
    + rewrite <- IH. split; intros H; [injection H; auto | f_equal; exact H].
    + cbn. split; [discriminate|congruence].
Qed.
