(* Additional facts about the CBOR parser (second round): stability of Ok and
   Bad under extension of the input, completion of NeedMore inputs, decidable
   item equality, and what the parser checks about the "bytes" it reads. *)
From V Require Import Lib.Base Lib.Cbor Lib.CborParse Lib.CborLemmas Lib.CborSound Lib.CborFuel.
From V Require Export Lib.CborComplete.
Local Open Scope N_scope.

(* ------------------------------------------------------------------ *)
(* 1. Extension of the input: an Ok result keeps its item and hands the
      extension through to the rest; a Bad result stays Bad.            *)

Definition ext_rel {A} (ext : bytes) (r1 r2 : res A) : Prop :=
  match r1 with
  | Ok a rest => r2 = Ok a (rest ++ ext)
  | Bad => r2 = Bad
  | NeedMore => True
  end.

Lemma ext_bind {A B} ext (r1 r2 : res A) (k k' : A -> bytes -> res B) :
  ext_rel ext r1 r2 -> (forall a rest, r1 = Ok a rest -> ext_rel ext (k a rest) (k' a (rest ++ ext))) ->
  ext_rel ext (bind r1 k) (bind r2 k').
Proof.
  intros H Hk. destruct r1 as [a rest| |]; cbn [ext_rel bind] in *.
  - subst r2. cbn [bind]. apply Hk. reflexivity.
  - exact I.
  - subst r2. reflexivity.
Qed.

Lemma rd_ext k : forall bs acc n rest ext, rd k bs acc = Some (n, rest) -> rd k (bs ++ ext) acc = Some (n, rest ++ ext).
Proof.
  induction k as [|k IH]; intros bs acc n rest ext H; cbn [rd] in *.
  - injection H as <- <-. reflexivity.
  - destruct bs as [|b r]; [discriminate|]. cbn [app]. apply IH. exact H.
Qed.

Lemma read_arg_ext ai bs ext : ext_rel ext (read_arg ai bs) (read_arg ai (bs ++ ext)).
Proof.
  assert (G : forall f, ext_rel ext (rd_res f bs) (rd_res f (bs ++ ext))).
  { intros f. unfold rd_res. destruct (rd (nbytes f) bs 0) as [[n r]|] eqn:E; [|exact I].
    rewrite (rd_ext _ _ _ _ _ ext E). reflexivity. }
  unfold read_arg. destruct (ai <? 24); [reflexivity|].
  destruct (ai =? 24); [apply G|]. destruct (ai =? 25); [apply G|].
  destruct (ai =? 26); [apply G|]. destruct (ai =? 27); [apply G|]. reflexivity.
Qed.

Lemma take_ext bs : forall n s rest ext, take n bs = Some (s, rest) -> take n (bs ++ ext) = Some (s, rest ++ ext).
Proof.
  induction bs as [|b bs IH]; intros n s rest ext H; cbn [take] in H.
  - destruct (N.eqb_spec n 0) as [->|]; [|discriminate]. injection H as <- <-. cbn [app]. destruct ext; reflexivity.
  - cbn [app take]. destruct (n =? 0). { injection H as <- <-. reflexivity. }
    destruct (take (n - 1) bs) as [[s' r']|] eqn:E; [|discriminate]. injection H as <- <-.
    rewrite (IH _ _ _ ext E). reflexivity.
Qed.

Lemma parse_chunks_ext mt ext : forall f1 f2 bs, (length bs < f1)%nat -> (f1 <= f2)%nat ->
  ext_rel ext (parse_chunks f1 mt bs) (parse_chunks f2 mt (bs ++ ext)).
Proof.
  induction f1 as [|fu IH]; intros f2 bs H1 H2; [lia|].
  destruct f2 as [|fu2]; [lia|]. destruct bs as [|b r]; [exact I|]. cbn [app parse_chunks]. cbn [length] in H1.
  destruct (b =? 255); [reflexivity|].
  destruct (negb (b / 32 =? mt) || (b mod 32 =? 31)); [reflexivity|].
  apply ext_bind; [apply read_arg_ext|]. intros [f n] r1 Ea. cbn [fst snd].
  destruct (take n r1) as [[s r2]|] eqn:Et; [|exact I].
  rewrite (take_ext _ _ _ _ ext Et).
  apply read_arg_len in Ea. apply take_len in Et.
  apply ext_bind; [apply IH; lia|]. intros cs r3 _. reflexivity.
Qed.

Lemma mk_map_ext ext f xs r : ext_rel ext (mk_map f xs r) (mk_map f xs (r ++ ext)).
Proof. unfold mk_map. destruct (pairs xs); reflexivity. Qed.

Lemma mk_simple_ext ext f n r : ext_rel ext (mk_simple f n r) (mk_simple f n (r ++ ext)).
Proof. unfold mk_simple. destruct f; try reflexivity. destruct (n <? 32); reflexivity. Qed.

Lemma take_str_ext ext mk n r : ext_rel ext (take_str mk n r) (take_str mk n (r ++ ext)).
Proof.
  unfold take_str. destruct (take n r) as [[s r2]|] eqn:E; [|exact I].
  rewrite (take_ext _ _ _ _ ext E). reflexivity.
Qed.

Lemma body_ext_rel ext p pn pi pc p' pn' pi' pc' mt ai r :
  (forall r1, (length r1 <= length r)%nat -> ext_rel ext (p r1) (p' (r1 ++ ext))) ->
  (forall k r1, (length r1 <= length r)%nat -> ext_rel ext (pn k r1) (pn' k (r1 ++ ext))) ->
  ext_rel ext (pi r) (pi' (r ++ ext)) -> (forall m, ext_rel ext (pc m r) (pc' m (r ++ ext))) ->
  ext_rel ext (body p pn pi pc mt ai r) (body p' pn' pi' pc' mt ai (r ++ ext)).
Proof.
  intros Hp Hn Hi Hc. unfold body.
  destruct (ai =? 31).
  { destruct (mt =? 2). { apply ext_bind; [apply Hc|]. intros; reflexivity. }
    destruct (mt =? 3). { apply ext_bind; [apply Hc|]. intros; reflexivity. }
    destruct (mt =? 4). { apply ext_bind; [apply Hi|]. intros; reflexivity. }
    destruct (mt =? 5). { apply ext_bind; [apply Hi|]. intros; apply mk_map_ext. }
    reflexivity. }
  apply ext_bind; [apply read_arg_ext|]. intros [f n] r1 Ea. cbn [fst snd]. apply read_arg_len in Ea.
  destruct (mt =? 0); [reflexivity|]. destruct (mt =? 1); [reflexivity|].
  destruct (mt =? 2); [apply take_str_ext|]. destruct (mt =? 3); [apply take_str_ext|].
  destruct (mt =? 4). { apply ext_bind; [apply Hn; exact Ea|]. intros; reflexivity. }
  destruct (mt =? 5). { apply ext_bind; [apply Hn; exact Ea|]. intros; apply mk_map_ext. }
  destruct (mt =? 6). { apply ext_bind; [apply Hp; exact Ea|]. intros; reflexivity. }
  destruct (mt =? 7); [apply mk_simple_ext|reflexivity].
Qed.

Definition Ext (f1 : nat) : Prop := forall f2 ext, (f1 <= f2)%nat ->
  (forall bs, (2 * length bs + 1 <= f1)%nat -> ext_rel ext (parse f1 bs) (parse f2 (bs ++ ext))) /\
  (forall k bs, (2 * length bs + 2 <= f1)%nat -> ext_rel ext (parse_n f1 k bs) (parse_n f2 k (bs ++ ext))) /\
  (forall bs, (2 * length bs + 2 <= f1)%nat -> ext_rel ext (parse_indef f1 bs) (parse_indef f2 (bs ++ ext))).

Lemma ext_all : forall f1, Ext f1.
Proof.
  induction f1 as [|fu IH]; intros f2 ext H2.
  { repeat split; intros; lia. }
  destruct f2 as [|fu2]; [lia|].
  destruct (IH fu2 ext ltac:(lia)) as (IHp & IHn & IHi).
  split; [|split].
  - intros bs Hb. destruct bs as [|b r]; [exact I|]. cbn [app]. rewrite !parse_S. cbn [length] in Hb.
    apply body_ext_rel.
    + intros r1 Hr. apply IHp. lia.
    + intros k r1 Hr. apply IHn. lia.
    + apply IHi. lia.
    + intros m. apply parse_chunks_ext; lia.
  - intros k bs Hb. cbn [parse_n]. destruct (k =? 0); [reflexivity|].
    apply ext_bind; [apply IHp; lia|]. intros x r1 Ex. apply parse_consumed in Ex.
    apply ext_bind; [apply IHn; lia|]. intros; reflexivity.
  - intros bs Hb. destruct bs as [|b r]; [exact I|]. cbn [app parse_indef].
    destruct (b =? 255); [reflexivity|].
    change (b :: r ++ ext) with ((b :: r) ++ ext).
    apply ext_bind; [apply IHp; lia|]. intros x r1 Ex. apply parse_consumed in Ex.
    apply ext_bind; [apply IHi; lia|]. intros; reflexivity.
Qed.

Lemma parse_full_ext bs ext : ext_rel ext (parse_full bs) (parse_full (bs ++ ext)).
Proof.
  unfold parse_full. apply (ext_all (fuel_for bs)); unfold fuel_for; [rewrite app_length|]; lia.
Qed.

(* (e) an accepted item stays accepted, the extension goes to the rest (no all_bytes premise) *)
Theorem parse_full_deterministic_prefix : forall bs i rest, parse_full bs = Ok i rest ->
  forall ext, parse_full (bs ++ ext) = Ok i (rest ++ ext).
Proof. intros bs i rest H ext. pose proof (parse_full_ext bs ext) as E. rewrite H in E. exact E. Qed.

(* (a) a malformed input stays malformed whatever follows *)
Theorem parse_full_bad_stable : forall bs, parse_full bs = Bad -> forall ext, parse_full (bs ++ ext) = Bad.
Proof. intros bs H ext. pose proof (parse_full_ext bs ext) as E. rewrite H in E. exact E. Qed.

(* consequently: if an extension is accepted or incomplete, the input was not Bad *)
Corollary parse_full_ext_not_bad : forall bs ext, parse_full (bs ++ ext) <> Bad -> parse_full bs <> Bad.
Proof. intros bs ext H Hb. apply H. apply parse_full_bad_stable. exact Hb. Qed.

(* ------------------------------------------------------------------ *)
(* 2. item_eqb decides equality                                        *)

Lemma form_eqb_eq a b : form_eqb a b = true <-> a = b.
Proof. destruct a, b; cbn; split; intros H; try reflexivity; try discriminate. Qed.

Lemma opt_form_eqb_eq (a b : option form) : opt_eqb form_eqb a b = true <-> a = b.
Proof.
  destruct a as [a|], b as [b|]; cbn; split; intros H; try reflexivity; try discriminate.
  - f_equal. apply form_eqb_eq. exact H.
  - injection H as ->. apply form_eqb_eq. reflexivity.
Qed.

Lemma chunk_eqb_eq (a b : form * bytes) : chunk_eqb a b = true <-> a = b.
Proof.
  destruct a as [f s], b as [g t]. unfold chunk_eqb. cbn [fst snd]. rewrite andb_true_iff, form_eqb_eq, bytes_eqb_eq.
  split; [intros [-> ->]; reflexivity|intros H; injection H as -> ->; auto].
Qed.

Lemma chunks_eqb_eq (cs ds : list (form * bytes)) : list_eqb chunk_eqb cs ds = true <-> cs = ds.
Proof. apply list_eqb_eq. apply chunk_eqb_eq. Qed.

Definition items_eqb := fix go (l1 l2 : list item) : bool :=
  match l1, l2 with [], [] => true | x :: r1, y :: r2 => item_eqb x y && go r1 r2 | _, _ => false end.
Definition kvs_eqb := fix go (l1 l2 : list (item * item)) : bool :=
  match l1, l2 with
  | [], [] => true
  | (k1, v1) :: r1, (k2, v2) :: r2 => item_eqb k1 k2 && item_eqb v1 v2 && go r1 r2
  | _, _ => false end.

Definition Peq (i : item) : Prop := forall j, item_eqb i j = true <-> i = j.

Lemma items_eqb_eq xs : Forall Peq xs -> forall ys, items_eqb xs ys = true <-> xs = ys.
Proof.
  induction 1 as [|x r Hx _ IH]; intros [|y ys]; cbn [items_eqb]; split; intros H; try reflexivity; try discriminate.
  - apply andb_true_iff in H. destruct H as [H1 H2]. apply Hx in H1. apply IH in H2. congruence.
  - injection H as -> ->. apply andb_true_iff. split; [apply Hx|apply IH]; reflexivity.
Qed.

Lemma kvs_eqb_eq kvs : Forall Peq (unpair kvs) -> forall ys, kvs_eqb kvs ys = true <-> kvs = ys.
Proof.
  induction kvs as [|[k v] r IH]; intros HP [|[k2 v2] ys]; cbn [kvs_eqb]; split; intros H; try reflexivity; try discriminate.
  - cbn [unpair] in HP. inversion HP as [|? ? Hk HP1]; subst. inversion HP1 as [|? ? Hv HP2]; subst.
    apply andb_true_iff in H. destruct H as [H H3]. apply andb_true_iff in H. destruct H as [H1 H2].
    apply Hk in H1. apply Hv in H2. apply (IH HP2) in H3. congruence.
  - cbn [unpair] in HP. inversion HP as [|? ? Hk HP1]; subst. inversion HP1 as [|? ? Hv HP2]; subst.
    injection H as -> -> ->. rewrite !andb_true_iff. repeat split; [apply Hk|apply Hv|apply (IH HP2)]; reflexivity.
Qed.

Lemma head_eqb_eq f g (n m : N) : form_eqb f g && (n =? m) = true <-> f = g /\ n = m.
Proof. rewrite andb_true_iff, form_eqb_eq, N.eqb_eq. reflexivity. Qed.

(* (c) *)
Theorem item_eqb_eq : forall i j, item_eqb i j = true <-> i = j.
Proof.
  induction i as [f n|f n|f bs|cs|f bs|cs|f xs IHxs|f kvs IHkvs|f t x IHx|f v|f v] using item_ind';
    intros j; destruct j as [g m|g m|g bt|ds|g bt|ds|g ys|g ys|g u y|g w|g w];
    try (cbn [item_eqb]; split; intros H; discriminate).
  - cbn [item_eqb]. rewrite head_eqb_eq. split; [intros [-> ->]; reflexivity|intros H; injection H; auto].
  - cbn [item_eqb]. rewrite head_eqb_eq. split; [intros [-> ->]; reflexivity|intros H; injection H; auto].
  - cbn [item_eqb]. rewrite andb_true_iff, form_eqb_eq, bytes_eqb_eq.
    split; [intros [-> ->]; reflexivity|intros H; injection H; auto].
  - cbn [item_eqb]. rewrite chunks_eqb_eq. split; [intros ->; reflexivity|intros H; injection H; auto].
  - cbn [item_eqb]. rewrite andb_true_iff, form_eqb_eq, bytes_eqb_eq.
    split; [intros [-> ->]; reflexivity|intros H; injection H; auto].
  - cbn [item_eqb]. rewrite chunks_eqb_eq. split; [intros ->; reflexivity|intros H; injection H; auto].
  - change (item_eqb (Arr f xs) (Arr g ys)) with (opt_eqb form_eqb f g && items_eqb xs ys).
    rewrite andb_true_iff, opt_form_eqb_eq, (items_eqb_eq xs IHxs).
    split; [intros [-> ->]; reflexivity|intros H; injection H; auto].
  - change (item_eqb (Map f kvs) (Map g ys)) with (opt_eqb form_eqb f g && kvs_eqb kvs ys).
    rewrite andb_true_iff, opt_form_eqb_eq, (kvs_eqb_eq kvs IHkvs).
    split; [intros [-> ->]; reflexivity|intros H; injection H; auto].
  - cbn [item_eqb]. rewrite !andb_true_iff, form_eqb_eq, N.eqb_eq, (IHx y).
    split; [intros [[-> ->] ->]; reflexivity|intros H; injection H; auto].
  - cbn [item_eqb]. rewrite head_eqb_eq. split; [intros [-> ->]; reflexivity|intros H; injection H; auto].
  - cbn [item_eqb]. rewrite head_eqb_eq. split; [intros [-> ->]; reflexivity|intros H; injection H; auto].
Qed.

Corollary item_eqb_refl i : item_eqb i i = true.
Proof. apply item_eqb_eq. reflexivity. Qed.

(* ------------------------------------------------------------------ *)
(* 3. What holds of an accepted input WITHOUT the all_bytes premise.
      The elements of `bytes` are N.  The parser checks the range only of
      the bytes it interprets as heads: every head byte of an item or chunk
      must be below 256 (its major type b/32 must be one of 0..7) and the
      break must be exactly 255.  Argument bytes and string contents are
      folded / copied without a range check; parse_sound therefore needs
      all_bytes (see the Example at the end of this section).  Without it:
      the rest is a suffix of the input, at least one element is consumed,
      and the first element is a byte.                                   *)

Definition suffix (rest bs : bytes) : Prop := exists p, bs = p ++ rest.

Lemma suffix_refl bs : suffix bs bs.
Proof. exists []. reflexivity. Qed.
Lemma suffix_trans a b c : suffix a b -> suffix b c -> suffix a c.
Proof. intros [p ->] [q ->]. exists (q ++ p). rewrite app_assoc. reflexivity. Qed.
Lemma suffix_cons x a b : suffix a b -> suffix a (x :: b).
Proof. intros [p ->]. exists (x :: p). reflexivity. Qed.

Lemma read_arg_suffix ai bs f n rest : read_arg ai bs = Ok (f, n) rest -> suffix rest bs.
Proof.
  intros H. destruct (read_arg_cases ai bs) as [(f' & n' & rest' & l & E & E1 & _)|[[E _]|[E _]]]; try congruence.
  rewrite E in H. injection H as _ _ <-. exists l. exact E1.
Qed.
Lemma take_suffix n bs s rest : take n bs = Some (s, rest) -> suffix rest bs.
Proof. intros H. apply take_sound in H. destruct H as [-> _]. exists s. reflexivity. Qed.

Lemma parse_chunks_suffix mt : forall fuel bs cs rest, parse_chunks fuel mt bs = Ok cs rest -> suffix rest bs.
Proof.
  induction fuel as [|fu IH]; intros bs cs rest H; [discriminate|].
  destruct bs as [|b r]; [discriminate|]. cbn [parse_chunks] in H. apply suffix_cons.
  destruct (b =? 255). { injection H as _ <-. apply suffix_refl. }
  destruct (negb (b / 32 =? mt) || (b mod 32 =? 31)); [discriminate|].
  apply bind_ok in H. destruct H as ([f n] & r1 & Ea & H). cbn [fst snd] in H.
  destruct (take n r1) as [[s r2]|] eqn:Et; [|discriminate].
  apply bind_ok in H. destruct H as (cs' & r3 & Ec & H). injection H as _ <-.
  apply read_arg_suffix in Ea. apply take_suffix in Et. apply IH in Ec.
  eapply suffix_trans; [exact Ec|]. eapply suffix_trans; eauto.
Qed.

Definition Suf (fuel : nat) : Prop :=
  (forall bs i rest, parse fuel bs = Ok i rest -> suffix rest bs) /\
  (forall k bs xs rest, parse_n fuel k bs = Ok xs rest -> suffix rest bs) /\
  (forall bs xs rest, parse_indef fuel bs = Ok xs rest -> suffix rest bs).

Lemma suf_all : forall fuel, Suf fuel.
Proof.
  induction fuel as [|fu (IHp & IHn & IHi)].
  { repeat split; intros; discriminate. }
  split; [|split].
  - intros bs i rest H. destruct bs as [|b r]; [discriminate|]. rewrite parse_S in H. apply suffix_cons.
    remember (b / 32) as mt eqn:Emt. remember (b mod 32) as ai eqn:Eai. clear Emt Eai.
    destruct (N.eq_dec ai 31) as [->|H31].
    + rewrite body_indef in H.
      destruct (mt =? 2).
      { apply bind_ok in H. destruct H as (cs & r1 & Ec & H). injection H as _ <-. eapply parse_chunks_suffix; eauto. }
      destruct (mt =? 3).
      { apply bind_ok in H. destruct H as (cs & r1 & Ec & H). injection H as _ <-. eapply parse_chunks_suffix; eauto. }
      destruct (mt =? 4).
      { apply bind_ok in H. destruct H as (xs & r1 & Ec & H). injection H as _ <-. eapply IHi; eauto. }
      destruct (mt =? 5); [|discriminate].
      { apply bind_ok in H. destruct H as (xs & r1 & Ec & H). apply mk_map_rest in H. subst. eapply IHi; eauto. }
    + rewrite body_def in H by exact H31.
      apply bind_ok in H. destruct H as ([f n] & r1 & Ea & H). cbn [fst snd] in H. apply read_arg_suffix in Ea.
      eapply suffix_trans; [|exact Ea].
      destruct (mt =? 0). { injection H as _ <-. apply suffix_refl. }
      destruct (mt =? 1). { injection H as _ <-. apply suffix_refl. }
      destruct (mt =? 2).
      { unfold take_str in H. destruct (take n r1) as [[s r2]|] eqn:Et; [|discriminate]. injection H as _ <-.
        eapply take_suffix; eauto. }
      destruct (mt =? 3).
      { unfold take_str in H. destruct (take n r1) as [[s r2]|] eqn:Et; [|discriminate]. injection H as _ <-.
        eapply take_suffix; eauto. }
      destruct (mt =? 4).
      { apply bind_ok in H. destruct H as (xs & r2 & Ec & H). injection H as _ <-. eapply IHn; eauto. }
      destruct (mt =? 5).
      { apply bind_ok in H. destruct H as (xs & r2 & Ec & H). apply mk_map_rest in H. subst. eapply IHn; eauto. }
      destruct (mt =? 6).
      { apply bind_ok in H. destruct H as (x & r2 & Ec & H). injection H as _ <-. eapply IHp; eauto. }
      destruct (mt =? 7); [|discriminate].
      { destruct f; cbn [mk_simple] in H; try (injection H as _ <-; apply suffix_refl).
        destruct (n <? 32); [discriminate|]. injection H as _ <-. apply suffix_refl. }
  - intros k bs xs rest H. cbn [parse_n] in H.
    destruct (k =? 0). { injection H as _ <-. apply suffix_refl. }
    apply bind_ok in H. destruct H as (x & r1 & Ex & H).
    apply bind_ok in H. destruct H as (xs' & r2 & Exs & H). injection H as _ <-.
    apply IHp in Ex. apply IHn in Exs. eapply suffix_trans; eauto.
  - intros bs xs rest H. destruct bs as [|b r]; [discriminate|]. cbn [parse_indef] in H.
    destruct (b =? 255). { injection H as _ <-. apply suffix_cons, suffix_refl. }
    apply bind_ok in H. destruct H as (x & r1 & Ex & H).
    apply bind_ok in H. destruct H as (xs' & r2 & Exs & H). injection H as _ <-.
    apply IHp in Ex. apply IHi in Exs. eapply suffix_trans; eauto.
Qed.

(* (d) no premise: the rest is a proper suffix of the input ... *)
Theorem parse_ok_split : forall fuel bs i rest, parse fuel bs = Ok i rest ->
  exists p, bs = p ++ rest /\ p <> [].
Proof.
  intros fuel bs i rest H. destruct (proj1 (suf_all fuel) _ _ _ H) as [p E]. exists p. split; [exact E|].
  apply parse_consumed in H. intros ->. subst bs. cbn [app] in H. lia.
Qed.

(* ... and the first element is a byte whose major type is that of the item *)
Theorem parse_ok_head_byte : forall fuel b r i rest, parse fuel (b :: r) = Ok i rest -> b < 256.
Proof.
  intros fuel b r i rest H. destruct fuel as [|fu]; [discriminate|]. rewrite parse_S in H.
  destruct (N.ltb_spec b 256) as [|Hge]; [assumption|exfalso].
  assert (Hmt : 8 <= b / 32) by (apply N.div_le_lower_bound; lia).
  unfold body in H.
  destruct (N.eqb_spec (b / 32) 0); [lia|]. destruct (N.eqb_spec (b / 32) 1); [lia|].
  destruct (N.eqb_spec (b / 32) 2); [lia|]. destruct (N.eqb_spec (b / 32) 3); [lia|].
  destruct (N.eqb_spec (b / 32) 4); [lia|]. destruct (N.eqb_spec (b / 32) 5); [lia|].
  destruct (N.eqb_spec (b / 32) 6); [lia|]. destruct (N.eqb_spec (b / 32) 7); [lia|].
  destruct (b mod 32 =? 31); [discriminate|].
  destruct (read_arg (b mod 32) r) as [[f' n'] r1| |]; discriminate.
Qed.

(* with the premise on the consumed prefix only *)
Theorem parse_full_sound_prefix : forall p i, all_bytes p ->
  parse_full p = Ok i [] -> forall ext, parse_full (p ++ ext) = Ok i ext /\ p = enc i /\ wf i.
Proof.
  intros p i Hp H ext. split.
  - apply (parse_full_deterministic_prefix p i [] H ext).
  - destruct (parse_sound_fuel _ _ _ _ Hp H) as [E W]. rewrite app_nil_r in E. auto.
Qed.

(* argument bytes are not range-checked: all_bytes cannot be dropped from parse_sound *)
Example parse_sound_needs_bytes :
  parse_full [24; 300] = Ok (UInt F1 300) [] /\ ~ wf (UInt F1 300) /\ enc (UInt F1 300) <> [24; 300].
Proof. split; [vm_compute; reflexivity|]. split; [cbn; lia|]. vm_compute. discriminate. Qed.

(* ------------------------------------------------------------------ *)
(* 4. The three outcomes of parse_full characterised (inputs made of bytes) *)
From V Require Import Lib.CborProofs.

Theorem parse_full_needmore_iff : forall bs, all_bytes bs ->
  (parse_full bs = NeedMore <-> exists ext i, wf i /\ ext <> [] /\ bs ++ ext = enc i).
Proof.
  intros bs Hb. split.
  - intros H. destruct (parse_full_needmore_complete bs Hb H) as (ext & i & Hw & E).
    exists ext, i. repeat split; auto. intros ->. rewrite app_nil_r in E. subst bs.
    rewrite <- (app_nil_r (enc i)) in H. rewrite parse_full_enc in H by exact Hw. discriminate.
  - intros (ext & i & Hw & Hne & E). eapply parse_full_prefix; eauto.
Qed.

Theorem parse_full_bad_iff : forall bs, all_bytes bs ->
  (parse_full bs = Bad <-> forall i ext rest, wf i -> bs ++ ext <> enc i ++ rest).
Proof.
  intros bs Hb. split; [apply parse_full_bad|].
  intros H. destruct (parse_full bs) as [i rest| |] eqn:E; [| |reflexivity]; exfalso.
  - destruct (parse_full_sound _ _ _ Hb E) as [E1 Hw]. apply (H i [] rest Hw). rewrite app_nil_r. exact E1.
  - destruct (parse_full_needmore_complete bs Hb E) as (ext & i & Hw & E1). apply (H i ext [] Hw). rewrite app_nil_r. exact E1.
Qed.
