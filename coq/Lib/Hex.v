(* Hex string <-> byte list, for case files written by the harness. *)
From Coq Require Import String Ascii.
From V Require Import Lib.Base.
Local Open Scope N_scope.

Definition hexdigit (c : ascii) : N :=
  let n := N_of_ascii c in
  if (48 <=? n) && (n <=? 57) then n - 48
  else if (97 <=? n) && (n <=? 102) then n - 87
  else if (65 <=? n) && (n <=? 70) then n - 55
  else 0.

Fixpoint hx (s : string) : bytes :=
  match s with
  | String a (String b r) => (hexdigit a * 16 + hexdigit b) :: hx r
  | _ => []
  end.

Definition hexchar (n : N) : ascii :=
  ascii_of_N (if n <? 10 then 48 + n else 87 + n).

Fixpoint to_hex (l : bytes) : string :=
  match l with
  | [] => EmptyString
  | b :: r => String (hexchar (b / 16)) (String (hexchar (b mod 16)) (to_hex r))
  end.

(* decimal rendering of N for serialised outputs *)
Fixpoint dec_digits (fuel : nat) (n : N) (acc : string) : string :=
  match fuel with
  | O => acc
  | S f => let acc' := String (ascii_of_N (48 + n mod 10)) acc in
           if n / 10 =? 0 then acc' else dec_digits f (n / 10) acc'
  end.
Definition dec (n : N) : string := dec_digits 80 n EmptyString.
