(* Executable, form-preserving CBOR parser over Lib/Cbor.v `item`.
   Three outcomes:
     Ok i rest : one well-formed item was read, `rest` is what follows it
     NeedMore  : the input ended inside an item (it is a proper prefix of
                 something that can still become well-formed)
     Bad       : malformed: additional info 28..30, indefinite length on
                 majors 0,1,6, a break (0xff) where no break is allowed, a
                 chunk of the wrong major type or an indefinite chunk, a
                 two-byte simple value below 32, an indefinite map with an odd
                 number of items, a head "byte" that is not below 256
   Counts read from the wire stay in N.  All recursion is on one fuel; fuel
   exhaustion yields Bad but is unreachable for fuel > 2 * length input
   (CborProofs.parse_fuel); use `parse_full`.
   NO proofs in this file (they are in Lib/CborLemmas.v .. Lib/CborProofs.v). *)
From V Require Import Lib.Base Lib.Cbor.
Local Open Scope N_scope.

Inductive res (A : Type) := Ok (a : A) (rest : bytes) | NeedMore | Bad.
Arguments Ok {A}. Arguments NeedMore {A}. Arguments Bad {A}.

Definition bind {A B} (r : res A) (k : A -> bytes -> res B) : res B :=
  match r with Ok a rest => k a rest | NeedMore => NeedMore | Bad => Bad end.

(* read k big-endian bytes (left fold) *)
Fixpoint rd (k : nat) (bs : bytes) (acc : N) : option (N * bytes) :=
  match k with
  | O => Some (acc, bs)
  | S k' => match bs with [] => None | b :: r => rd k' r (acc * 256 + b) end
  end.

Definition rd_res (f : form) (bs : bytes) : res (form * N) :=
  match rd (nbytes f) bs 0 with Some (n, r) => Ok (f, n) r | None => NeedMore end.

(* the argument of a head whose additional info is ai (ai <> 31) *)
Definition read_arg (ai : N) (bs : bytes) : res (form * N) :=
  if ai <? 24 then Ok (Fimm, ai) bs
  else if ai =? 24 then rd_res F1 bs
  else if ai =? 25 then rd_res F2 bs
  else if ai =? 26 then rd_res F4 bs
  else if ai =? 27 then rd_res F8 bs
  else Bad.

(* split off the first n bytes; the count stays in N, recursion is on the input *)
Fixpoint take (n : N) (bs : bytes) : option (bytes * bytes) :=
  if n =? 0 then Some ([], bs) else
  match bs with
  | [] => None
  | b :: r => match take (n - 1) r with Some (s, rest) => Some (b :: s, rest) | None => None end
  end.

(* map entries are parsed as a flat item list and paired up afterwards *)
Fixpoint pairs {A} (l : list A) : option (list (A * A)) :=
  match l with
  | [] => Some []
  | [_] => None
  | a :: b :: r => match pairs r with Some ps => Some ((a, b) :: ps) | None => None end
  end.
Fixpoint unpair {A} (l : list (A * A)) : list A :=
  match l with [] => [] | (a, b) :: r => a :: b :: unpair r end.

(* the chunks of an indefinite string of major type mt, up to and including the break *)
Fixpoint parse_chunks (fuel : nat) (mt : N) (bs : bytes) : res (list (form * bytes)) :=
  match fuel with
  | O => Bad
  | S fu =>
    match bs with
    | [] => NeedMore
    | b :: r =>
      if b =? 255 then Ok [] r
      else if negb (b / 32 =? mt) || (b mod 32 =? 31) then Bad
      else bind (read_arg (b mod 32) r) (fun fn r1 =>
             match take (snd fn) r1 with
             | None => NeedMore
             | Some (s, r2) => bind (parse_chunks fu mt r2) (fun cs r3 => Ok ((fst fn, s) :: cs) r3)
             end)
    end
  end.

(* major 7 with a definite argument *)
Definition mk_simple (f : form) (n : N) (r : bytes) : res item :=
  match f with
  | Fimm => Ok (Simple Fimm n) r
  | F1 => if n <? 32 then Bad else Ok (Simple F1 n) r
  | _ => Ok (Float f n) r
  end.

Definition mk_map (f : option form) (xs : list item) (r : bytes) : res item :=
  match pairs xs with Some kvs => Ok (Map f kvs) r | None => Bad end.

Definition take_str (mk : bytes -> item) (n : N) (r : bytes) : res item :=
  match take n r with Some (s, r2) => Ok (mk s) r2 | None => NeedMore end.

(* what follows the head byte (major mt, additional info ai); the recursive
   parsers are passed in so that this stays an ordinary definition with one
   equation per major type (the body_k lemmas in CborLemmas) *)
Definition body (p : bytes -> res item) (pn : N -> bytes -> res (list item))
    (pi : bytes -> res (list item)) (pc : N -> bytes -> res (list (form * bytes)))
    (mt ai : N) (r : bytes) : res item :=
  if ai =? 31 then
    if mt =? 2 then bind (pc 2 r) (fun cs r1 => Ok (BStrI cs) r1)
    else if mt =? 3 then bind (pc 3 r) (fun cs r1 => Ok (TStrI cs) r1)
    else if mt =? 4 then bind (pi r) (fun xs r1 => Ok (Arr None xs) r1)
    else if mt =? 5 then bind (pi r) (fun xs r1 => mk_map None xs r1)
    else Bad
  else
    bind (read_arg ai r) (fun fn r1 =>
      let f := fst fn in let n := snd fn in
      if mt =? 0 then Ok (UInt f n) r1
      else if mt =? 1 then Ok (NInt f n) r1
      else if mt =? 2 then take_str (BStr f) n r1
      else if mt =? 3 then take_str (TStr f) n r1
      else if mt =? 4 then bind (pn n r1) (fun xs r2 => Ok (Arr (Some f) xs) r2)
      else if mt =? 5 then bind (pn (2 * n) r1) (fun xs r2 => mk_map (Some f) xs r2)
      else if mt =? 6 then bind (p r1) (fun x r2 => Ok (Tag f n x) r2)
      else if mt =? 7 then mk_simple f n r1
      else Bad).

Fixpoint parse (fuel : nat) (bs : bytes) {struct fuel} : res item :=
  match fuel with
  | O => Bad
  | S fu =>
    match bs with
    | [] => NeedMore
    | b :: r => body (parse fu) (parse_n fu) (parse_indef fu) (parse_chunks fu) (b / 32) (b mod 32) r
    end
  end
with parse_n (fuel : nat) (k : N) (bs : bytes) {struct fuel} : res (list item) :=
  match fuel with
  | O => Bad
  | S fu =>
    if k =? 0 then Ok [] bs else
    bind (parse fu bs) (fun x r => bind (parse_n fu (k - 1) r) (fun xs r1 => Ok (x :: xs) r1))
  end
with parse_indef (fuel : nat) (bs : bytes) {struct fuel} : res (list item) :=
  match fuel with
  | O => Bad
  | S fu =>
    match bs with
    | [] => NeedMore
    | b :: r =>
      if b =? 255 then Ok [] r else
      bind (parse fu bs) (fun x r1 => bind (parse_indef fu r1) (fun xs r2 => Ok (x :: xs) r2))
    end
  end.

(* fuel derived from the input length; never exhausted (CborProofs.parse_fuel) *)
Definition fuel_for (bs : bytes) : nat := S (2 * length bs).
Definition parse_full (bs : bytes) : res item := parse (fuel_for bs) bs.

(* exactly one item and nothing else *)
Definition parse_exact (bs : bytes) : res item :=
  match parse_full bs with Ok i [] => Ok i [] | Ok _ _ => Bad | NeedMore => NeedMore | Bad => Bad end.

(* ---- boolean equality on items (for correspondence checks) ---- *)
Definition form_eqb (a b : form) : bool :=
  match a, b with Fimm, Fimm | F1, F1 | F2, F2 | F4, F4 | F8, F8 => true | _, _ => false end.
Definition chunk_eqb (a b : form * bytes) : bool := form_eqb (fst a) (fst b) && bytes_eqb (snd a) (snd b).

Fixpoint item_eqb (a b : item) {struct a} : bool :=
  match a, b with
  | UInt f n, UInt g m | NInt f n, NInt g m | Simple f n, Simple g m | Float f n, Float g m => form_eqb f g && (n =? m)
  | BStr f s, BStr g t | TStr f s, TStr g t => form_eqb f g && bytes_eqb s t
  | BStrI cs, BStrI ds | TStrI cs, TStrI ds => list_eqb chunk_eqb cs ds
  | Arr f xs, Arr g ys =>
      opt_eqb form_eqb f g &&
      (fix go (l1 l2 : list item) : bool :=
         match l1, l2 with [], [] => true | x :: r1, y :: r2 => item_eqb x y && go r1 r2 | _, _ => false end) xs ys
  | Map f xs, Map g ys =>
      opt_eqb form_eqb f g &&
      (fix go (l1 l2 : list (item * item)) : bool :=
         match l1, l2 with
         | [], [] => true
         | (k1, v1) :: r1, (k2, v2) :: r2 => item_eqb k1 k2 && item_eqb v1 v2 && go r1 r2
         | _, _ => false end) xs ys
  | Tag f t x, Tag g u y => form_eqb f g && (t =? u) && item_eqb x y
  | _, _ => false
  end.

(* outcome classes for correspondence runs: 0 = Ok, 1 = NeedMore, 2 = Bad *)
Definition res_class {A} (r : res A) : N := match r with Ok _ _ => 0 | NeedMore => 1 | Bad => 2 end.
