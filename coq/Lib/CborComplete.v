(* Every input on which the parser answers NeedMore can be completed to the
   encoding of a well-formed item (the converse of parse_prefix). *)
From V Require Import Lib.Base Lib.Cbor Lib.CborParse Lib.CborLemmas Lib.CborSound.
Local Open Scope N_scope.

Lemma bind_needmore {A B} (r : res A) (k : A -> bytes -> res B) :
  bind r k = NeedMore -> r = NeedMore \/ exists a r1, r = Ok a r1 /\ k a r1 = NeedMore.
Proof. destruct r; cbn; intros; eauto; discriminate. Qed.

(* ---- fillers ---- *)
Definition fill_item : item := UInt Fimm 0.
Lemma wf_z : wf fill_item. Proof. cbn. lia. Qed.
Lemma fill_wf k : Forall wf (repeat fill_item k).
Proof. induction k; cbn [repeat]; constructor; auto using wf_z. Qed.
Lemma zeros_bytes k : all_bytes (repeat 0 k).
Proof. induction k; cbn [repeat]; constructor; auto. unfold is_byte. lia. Qed.
Lemma fillkv_wf k : Forall wf (unpair (repeat (fill_item, fill_item) k)).
Proof. induction k; cbn [repeat unpair]; repeat constructor; auto using wf_z. Qed.

Lemma pairs_or (xs : list item) : exists kvs, xs = unpair kvs \/ xs ++ [fill_item] = unpair kvs.
Proof.
  revert xs. fix IH 1. intros [|a [|b r]].
  - exists []. left. reflexivity.
  - exists [(a, fill_item)]. right. reflexivity.
  - destruct (IH r) as (kvs & [E|E]); exists ((a, b) :: kvs); [left|right]; cbn [unpair app]; rewrite <- E; reflexivity.
Qed.

(* ---- a head can always be completed to an item of its major type ---- *)
Lemma head_complete mt f n : mt < 8 -> fits f n -> (mt = 7 -> f = F1 -> 32 <= n) ->
  exists i tail, wf i /\ enc i = enc_head mt f n ++ tail.
Proof.
  intros Hm Hf H7.
  assert (Hn : N.of_nat (N.to_nat n) = n) by apply N2Nat.id.
  assert (C : mt = 0 \/ mt = 1 \/ mt = 2 \/ mt = 3 \/ mt = 4 \/ mt = 5 \/ mt = 6 \/ mt = 7) by lia.
  destruct C as [->|[->|[->|[->|[->|[->|[-> | ->]]]]]]].
  - exists (UInt f n), []. rewrite app_nil_r. split; [exact Hf|reflexivity].
  - exists (NInt f n), []. rewrite app_nil_r. split; [exact Hf|reflexivity].
  - exists (BStr f (repeat 0 (N.to_nat n))), (repeat 0 (N.to_nat n)). cbn [enc wf]. unfold len_ok. rewrite repeat_length, Hn.
    repeat split; auto using zeros_bytes.
  - exists (TStr f (repeat 0 (N.to_nat n))), (repeat 0 (N.to_nat n)). cbn [enc wf]. unfold len_ok. rewrite repeat_length, Hn.
    repeat split; auto using zeros_bytes.
  - exists (Arr (Some f) (repeat fill_item (N.to_nat n))), (flat_map enc (repeat fill_item (N.to_nat n))). split.
    + apply wf_arr. split; [|apply fill_wf]. unfold hdr_ok, len_ok. rewrite repeat_length, Hn. exact Hf.
    + rewrite enc_arr_def, repeat_length, Hn. reflexivity.
  - exists (Map (Some f) (repeat (fill_item, fill_item) (N.to_nat n))), (flat_map enc (unpair (repeat (fill_item, fill_item) (N.to_nat n)))). split.
    + apply wf_map. split; [|apply fillkv_wf]. unfold hdr_ok, len_ok. rewrite repeat_length, Hn. exact Hf.
    + rewrite enc_map_def, repeat_length, Hn. reflexivity.
  - exists (Tag f n fill_item), (enc fill_item). split; [split; [exact Hf|exact wf_z]|apply enc_tag].
  - destruct f.
    + exists (Simple Fimm n), []. rewrite app_nil_r. split; [exact Hf|reflexivity].
    + exists (Simple F1 n), []. rewrite app_nil_r. split; [|reflexivity]. cbn in Hf |- *. specialize (H7 eq_refl eq_refl). lia.
    + exists (Float F2 n), []. rewrite app_nil_r. split; [exact Hf|reflexivity].
    + exists (Float F4 n), []. rewrite app_nil_r. split; [exact Hf|reflexivity].
    + exists (Float F8 n), []. rewrite app_nil_r. split; [exact Hf|reflexivity].
Qed.

(* ---- an incomplete argument can be completed ---- *)
Lemma rd_res_needmore f r : rd_res f r = NeedMore -> (length r < nbytes f)%nat.
Proof.
  unfold rd_res. destruct (rd (nbytes f) r 0) as [[n r1]|] eqn:E; [discriminate|]. intros _.
  destruct (Nat.ltb_spec (length r) (nbytes f)); [assumption|]. exfalso. eapply rd_enough; eauto.
Qed.

Lemma pad_complete f r : f <> Fimm -> all_bytes r -> (length r < nbytes f)%nat ->
  exists pad n, fits f n /\ r ++ pad = be (nbytes f) n /\ (f = F1 -> 32 <= n).
Proof.
  intros Hf Hr Hl. set (pad := repeat 255 (nbytes f - length r)).
  assert (Hp : all_bytes (r ++ pad)).
  { apply Forall_app. split; [exact Hr|]. unfold pad. clear. induction (nbytes f - length r)%nat; cbn [repeat]; constructor; auto.
    unfold is_byte. lia. }
  assert (Hlen : length (r ++ pad) = nbytes f) by (rewrite app_length; unfold pad; rewrite repeat_length; lia).
  exists pad, (val (r ++ pad) 0). repeat split.
  - pose proof (val_bound _ Hp) as B. rewrite Hlen in B. destruct f; cbn in *; try congruence; lia.
  - rewrite <- Hlen. symmetry. apply be_val. exact Hp.
  - intros ->. cbn [nbytes] in *. destruct r; [|cbn in Hl; lia]. unfold pad. cbn. lia.
Qed.

Lemma arg_complete ai r : all_bytes r -> read_arg ai r = NeedMore ->
  exists pad f n, fits f n /\ ai_of f n = ai /\ r ++ pad = be (nbytes f) n /\ (f = F1 -> 32 <= n).
Proof.
  intros Hr H. unfold read_arg in H.
  destruct (ai <? 24); [discriminate|].
  destruct (N.eqb_spec ai 24) as [->|N24].
  { apply rd_res_needmore in H. destruct (pad_complete F1 r ltac:(discriminate) Hr H) as (pad & n & ? & ? & ?). exists pad, F1, n. auto. }
  destruct (N.eqb_spec ai 25) as [->|N25].
  { apply rd_res_needmore in H. destruct (pad_complete F2 r ltac:(discriminate) Hr H) as (pad & n & ? & ? & ?). exists pad, F2, n. auto. }
  destruct (N.eqb_spec ai 26) as [->|N26].
  { apply rd_res_needmore in H. destruct (pad_complete F4 r ltac:(discriminate) Hr H) as (pad & n & ? & ? & ?). exists pad, F4, n. auto. }
  destruct (N.eqb_spec ai 27) as [->|N27]; [|discriminate].
  { apply rd_res_needmore in H. destruct (pad_complete F8 r ltac:(discriminate) Hr H) as (pad & n & ? & ? & ?). exists pad, F8, n. auto. }
Qed.

(* a too short string body is completed with zeros *)
Lemma str_complete n (r1 : bytes) : all_bytes r1 -> N.of_nat (length r1) < n ->
  exists pad, all_bytes (r1 ++ pad) /\ N.of_nat (length (r1 ++ pad)) = n.
Proof.
  intros Hr Hl. exists (repeat 0 (N.to_nat n - length r1)). split.
  - apply Forall_app. split; [exact Hr|apply zeros_bytes].
  - rewrite app_length, repeat_length. lia.
Qed.

(* ---- chunks ---- *)
Lemma chunks_complete mt : mt < 7 -> forall fuel bs, all_bytes bs -> parse_chunks fuel mt bs = NeedMore ->
  exists ext cs, Forall chunk_ok cs /\ bs ++ ext = flat_map (enc_chunk mt) cs.
Proof.
  intros Hm. induction fuel as [|fu IH]; intros bs Hb H; [discriminate|].
  destruct bs as [|b r]. { exists [], []. split; [constructor|reflexivity]. }
  cbn [parse_chunks] in H. inversion Hb as [|? ? Hb0 Hr]; subst. unfold is_byte in Hb0.
  destruct (N.eqb_spec b 255) as [|N255]; [discriminate|].
  destruct (N.eqb_spec (b / 32) mt) as [Em|Nm]; [|discriminate].
  destruct (N.eqb_spec (b mod 32) 31) as [|H31]; [discriminate|]. cbn [negb orb] in H.
  destruct (byte_split b Hb0) as (Eb & _ & Hai).
  assert (Hchunk : forall f n (s tail : bytes), ai_of f n = b mod 32 -> N.of_nat (length s) = n ->
            b :: be (nbytes f) n ++ s ++ tail = enc_chunk mt (f, s) ++ tail).
  { intros f n s tail Ea En. unfold enc_chunk. cbn [fst snd]. rewrite En, <- !app_assoc. apply head_eq. lia. }
  assert (Hchunk0 : forall f n (s : bytes), ai_of f n = b mod 32 -> N.of_nat (length s) = n ->
            b :: be (nbytes f) n ++ s = enc_chunk mt (f, s)).
  { intros f n s Ea En. rewrite <- (app_nil_r (enc_chunk _ _)), <- (app_nil_r s) at 1. apply Hchunk; assumption. }
  apply bind_needmore in H. destruct H as [Ea|([f n] & r1 & Ea & H)].
  - destruct (arg_complete _ _ Hr Ea) as (pad & f & n & Hf & Eai & Epad & _).
    exists (pad ++ repeat 0 (N.to_nat n)), [(f, repeat 0 (N.to_nat n))]. split.
    + constructor; [|constructor]. split; [|apply zeros_bytes]. unfold len_ok. cbn [fst snd]. rewrite repeat_length, N2Nat.id. exact Hf.
    + cbn [flat_map]. rewrite app_nil_r. cbn [app]. rewrite app_assoc, Epad.
      apply Hchunk0; [exact Eai|]. rewrite repeat_length. apply N2Nat.id.
  - cbn [fst snd] in H. destruct (read_arg_sound _ _ _ _ _ Hr Ea) as (Er & Eai & Hfit).
    subst r. apply all_bytes_app in Hr. destruct Hr as [_ Hr1].
    destruct (take n r1) as [[s r2]|] eqn:Et.
    + apply bind_needmore in H. destruct H as [Ec|(cs' & r3 & _ & H)]; [|discriminate].
      apply take_sound in Et. destruct Et as [-> En]. apply all_bytes_app in Hr1. destruct Hr1 as [Hs Hr2].
      destruct (IH _ Hr2 Ec) as (ext & cs & Hcs & E).
      exists ext, ((f, s) :: cs). split.
      * constructor; [|exact Hcs]. split; [|exact Hs]. unfold len_ok. cbn [fst snd]. rewrite En. exact Hfit.
      * cbn [flat_map app]. rewrite <- E. rewrite <- !app_assoc. apply Hchunk; assumption.
    + apply take_none in Et. destruct (str_complete n r1 Hr1 Et) as (pad & Hs & En).
      exists pad, [(f, r1 ++ pad)]. split.
      * constructor; [|constructor]. split; [|exact Hs]. unfold len_ok. cbn [fst snd]. rewrite En. exact Hfit.
      * cbn [flat_map app]. rewrite app_nil_r. rewrite <- app_assoc. apply Hchunk0; assumption.
Qed.

(* ---- items ---- *)
Definition Cmp (fuel : nat) : Prop :=
  (forall bs, all_bytes bs -> parse fuel bs = NeedMore -> exists ext i, wf i /\ bs ++ ext = enc i) /\
  (forall k bs, all_bytes bs -> parse_n fuel k bs = NeedMore ->
     exists ext xs, Forall wf xs /\ N.of_nat (length xs) = k /\ bs ++ ext = flat_map enc xs) /\
  (forall bs, all_bytes bs -> parse_indef fuel bs = NeedMore ->
     exists ext xs, Forall wf xs /\ bs ++ ext = flat_map enc xs).

Lemma mk_map_not_needmore f xs r : mk_map f xs r <> NeedMore.
Proof. unfold mk_map. destruct (pairs xs); discriminate. Qed.

Lemma even_unpair (xs : list item) n : N.of_nat (length xs) = 2 * n ->
  exists kvs, xs = unpair kvs /\ N.of_nat (length kvs) = n.
Proof.
  intros H. destruct (pairs_or xs) as (kvs & [E|E]).
  - exists kvs. split; [exact E|]. rewrite E, unpair_length in H. lia.
  - exfalso. apply (f_equal (@length item)) in E. rewrite app_length, unpair_length in E. cbn [length] in E. lia.
Qed.

Lemma cmp_all : forall fuel, Cmp fuel.
Proof.
  induction fuel as [|fu (IHp & IHn & IHi)].
  { repeat split; intros; discriminate. }
  split; [|split].
  - (* parse *)
    intros bs Hb H. destruct bs as [|b r].
    { exists (enc fill_item), fill_item. split; [exact wf_z|reflexivity]. }
    rewrite parse_S in H. inversion Hb as [|? ? Hb0 Hr]; subst. unfold is_byte in Hb0.
    destruct (byte_split b Hb0) as (Eb & Hmt & Hai).
    remember (b / 32) as mt eqn:Emt. remember (b mod 32) as ai eqn:Eai. clear Emt Eai.
    destruct (N.eq_dec ai 31) as [->|H31].
    + rewrite body_indef in H.
      destruct (N.eqb_spec mt 2) as [M|M2].
      { apply bind_needmore in H. destruct H as [Ec|(cs & r1 & _ & H)]; [|discriminate].
        destruct (chunks_complete 2 ltac:(lia) _ _ Hr Ec) as (ext & cs & Hcs & E).
        exists (ext ++ [255]), (BStrI cs). split; [exact Hcs|]. cbn [enc app]. rewrite app_assoc, E. subst. reflexivity. }
      destruct (N.eqb_spec mt 3) as [M|M3].
      { apply bind_needmore in H. destruct H as [Ec|(cs & r1 & _ & H)]; [|discriminate].
        destruct (chunks_complete 3 ltac:(lia) _ _ Hr Ec) as (ext & cs & Hcs & E).
        exists (ext ++ [255]), (TStrI cs). split; [exact Hcs|]. cbn [enc app]. rewrite app_assoc, E. subst. reflexivity. }
      destruct (N.eqb_spec mt 4) as [M|M4].
      { apply bind_needmore in H. destruct H as [Ec|(xs & r1 & _ & H)]; [|discriminate].
        destruct (IHi _ Hr Ec) as (ext & xs & Hxs & E).
        exists (ext ++ [255]), (Arr None xs). split; [apply wf_arr; split; [exact I|exact Hxs]|].
        rewrite enc_arr_indef. cbn [app]. rewrite app_assoc, E. subst. reflexivity. }
      destruct (N.eqb_spec mt 5) as [M|M5]; [|discriminate].
      { apply bind_needmore in H. destruct H as [Ec|(xs & r1 & _ & H)]; [|exfalso; eapply mk_map_not_needmore; eauto].
        destruct (IHi _ Hr Ec) as (ext & xs & Hxs & E).
        destruct (pairs_or xs) as (kvs & [Ek|Ek]).
        - exists (ext ++ [255]), (Map None kvs). split; [apply wf_map; split; [exact I|rewrite <- Ek; exact Hxs]|].
          rewrite enc_map_indef, <- Ek. cbn [app]. rewrite app_assoc, E. subst. reflexivity.
        - exists (ext ++ enc fill_item ++ [255]), (Map None kvs). split.
          + apply wf_map. split; [exact I|]. rewrite <- Ek. apply Forall_app. split; [exact Hxs|]. repeat constructor.
          + rewrite enc_map_indef, <- Ek, flat_map_app. cbn [flat_map app]. rewrite app_nil_r.
            rewrite app_assoc, E, <- app_assoc. subst. reflexivity. }
    + rewrite body_def in H by exact H31.
      assert (Hhd : forall f n tail, ai_of f n = ai -> b :: be (nbytes f) n ++ tail = enc_head mt f n ++ tail).
      { intros f n tail E. apply head_eq. lia. }
      apply bind_needmore in H. destruct H as [Ea|([f n] & r1 & Ea & H)].
      * destruct (arg_complete _ _ Hr Ea) as (pad & f & n & Hf & Eai & Epad & H32).
        destruct (head_complete mt f n Hmt Hf ltac:(intros _; exact H32)) as (i & tail & Hw & Ei).
        exists (pad ++ tail), i. split; [exact Hw|]. rewrite Ei. cbn [app]. rewrite app_assoc, Epad. apply Hhd. exact Eai.
      * cbn [fst snd] in H. destruct (read_arg_sound _ _ _ _ _ Hr Ea) as (Er & Eai & Hfit).
        subst r. apply all_bytes_app in Hr. destruct Hr as [_ Hr1].
        destruct (N.eqb_spec mt 0) as [M|M0]; [discriminate|].
        destruct (N.eqb_spec mt 1) as [M|M1]; [discriminate|].
        destruct (N.eqb_spec mt 2) as [M|M2].
        { unfold take_str in H. destruct (take n r1) as [[s r2]|] eqn:Et; [discriminate|].
          apply take_none in Et. destruct (str_complete n r1 Hr1 Et) as (pad & Hs & En).
          exists pad, (BStr f (r1 ++ pad)). split; [split; [unfold len_ok; rewrite En; exact Hfit|exact Hs]|].
          cbn [enc app]. rewrite En, <- app_assoc. subst mt. apply Hhd. exact Eai. }
        destruct (N.eqb_spec mt 3) as [M|M3].
        { unfold take_str in H. destruct (take n r1) as [[s r2]|] eqn:Et; [discriminate|].
          apply take_none in Et. destruct (str_complete n r1 Hr1 Et) as (pad & Hs & En).
          exists pad, (TStr f (r1 ++ pad)). split; [split; [unfold len_ok; rewrite En; exact Hfit|exact Hs]|].
          cbn [enc app]. rewrite En, <- app_assoc. subst mt. apply Hhd. exact Eai. }
        destruct (N.eqb_spec mt 4) as [M|M4].
        { apply bind_needmore in H. destruct H as [Ec|(xs & r2 & _ & H)]; [|discriminate].
          destruct (IHn _ _ Hr1 Ec) as (ext & xs & Hxs & En & E).
          exists ext, (Arr (Some f) xs). split; [apply wf_arr; split; [unfold hdr_ok, len_ok; rewrite En; exact Hfit|exact Hxs]|].
          rewrite enc_arr_def, En, <- E. cbn [app]. rewrite <- app_assoc. subst mt. apply Hhd. exact Eai. }
        destruct (N.eqb_spec mt 5) as [M|M5].
        { apply bind_needmore in H. destruct H as [Ec|(xs & r2 & _ & H)]; [|exfalso; eapply mk_map_not_needmore; eauto].
          destruct (IHn _ _ Hr1 Ec) as (ext & xs & Hxs & En & E).
          destruct (even_unpair xs n En) as (kvs & -> & Ek).
          exists ext, (Map (Some f) kvs). split; [apply wf_map; split; [unfold hdr_ok, len_ok; rewrite Ek; exact Hfit|exact Hxs]|].
          rewrite enc_map_def, Ek, <- E. cbn [app]. rewrite <- app_assoc. subst mt. apply Hhd. exact Eai. }
        destruct (N.eqb_spec mt 6) as [M|M6].
        { apply bind_needmore in H. destruct H as [Ec|(x & r2 & _ & H)]; [|discriminate].
          destruct (IHp _ Hr1 Ec) as (ext & x & Hx & E).
          exists ext, (Tag f n x). split; [split; [exact Hfit|exact Hx]|].
          rewrite enc_tag, <- E. cbn [app]. rewrite <- app_assoc. subst mt. apply Hhd. exact Eai. }
        destruct (N.eqb_spec mt 7) as [M|M7]; [|discriminate].
        { exfalso. destruct f; cbn [mk_simple] in H; try discriminate. destruct (n <? 32); discriminate. }
  - (* parse_n *)
    intros k bs Hb H. cbn [parse_n] in H. destruct (N.eqb_spec k 0) as [|Hk]; [discriminate|].
    apply bind_needmore in H. destruct H as [Ex|(x & r1 & Ex & H)].
    + destruct (IHp _ Hb Ex) as (ext & i & Hi & E).
      exists (ext ++ flat_map enc (repeat fill_item (N.to_nat (k - 1)))), (i :: repeat fill_item (N.to_nat (k - 1))).
      split; [constructor; [exact Hi|apply fill_wf]|]. split.
      * cbn [length]. rewrite repeat_length. lia.
      * cbn [flat_map]. rewrite app_assoc, E. reflexivity.
    + apply bind_needmore in H. destruct H as [Exs|(xs' & r2 & _ & H)]; [|discriminate].
      destruct (parse_sound_fuel _ _ _ _ Hb Ex) as [-> Hx]. apply all_bytes_app in Hb. destruct Hb as [_ Hb1].
      destruct (IHn _ _ Hb1 Exs) as (ext & xs & Hxs & En & E).
      exists ext, (x :: xs). split; [constructor; assumption|]. split.
      * cbn [length]. lia.
      * cbn [flat_map]. rewrite <- app_assoc, E. reflexivity.
  - (* parse_indef *)
    intros bs Hb H. destruct bs as [|b r].
    { exists [], []. split; [constructor|reflexivity]. }
    cbn [parse_indef] in H. destruct (N.eqb_spec b 255) as [|N255]; [discriminate|].
    apply bind_needmore in H. destruct H as [Ex|(x & r1 & Ex & H)].
    + destruct (IHp _ Hb Ex) as (ext & i & Hi & E).
      exists ext, [i]. split; [constructor; [exact Hi|constructor]|]. cbn [flat_map]. rewrite app_nil_r. exact E.
    + apply bind_needmore in H. destruct H as [Exs|(xs' & r2 & _ & H)]; [|discriminate].
      destruct (parse_sound_fuel _ _ _ _ Hb Ex) as [E Hx]. rewrite E in Hb. apply all_bytes_app in Hb. destruct Hb as [_ Hb1].
      destruct (IHi _ Hb1 Exs) as (ext & xs & Hxs & E2).
      exists ext, (x :: xs). split; [constructor; assumption|].
      rewrite E. cbn [flat_map]. rewrite <- app_assoc, E2. reflexivity.
Qed.

(* (b) the converse of parse_prefix: a NeedMore input (made of bytes) is a
   prefix of the encoding of a well-formed item; all constructors,
   chunked strings included *)
Theorem parse_needmore_complete : forall fuel bs, all_bytes bs -> parse fuel bs = NeedMore ->
  exists ext i, wf i /\ bs ++ ext = enc i.
Proof. intros fuel bs. exact (proj1 (cmp_all fuel) bs). Qed.

Theorem parse_full_needmore_complete : forall bs, all_bytes bs -> parse_full bs = NeedMore ->
  exists ext i, wf i /\ bs ++ ext = enc i.
Proof. intros bs. apply parse_needmore_complete. Qed.

(* the premise cannot be dropped: an argument "byte" above 255 never occurs in an encoding *)
Example needmore_needs_bytes : parse_full [25; 300] = NeedMore.
Proof. vm_compute. reflexivity. Qed.
