(* Basic facts used by all CBOR parser proofs: nested induction principle,
   big-endian read/write, read_arg, take, pairs/unpair, one equation of
   `body` per major type, fuel measure `need`. *)
From V Require Import Lib.Base Lib.Cbor Lib.CborParse.
Local Open Scope N_scope.

(* ---- induction principle with Forall for the nested lists ---- *)
Section ind.
  Variable P : item -> Prop.
  Hypothesis HU : forall f n, P (UInt f n).
  Hypothesis HN : forall f n, P (NInt f n).
  Hypothesis HB : forall f bs, P (BStr f bs).
  Hypothesis HBI : forall cs, P (BStrI cs).
  Hypothesis HT : forall f bs, P (TStr f bs).
  Hypothesis HTI : forall cs, P (TStrI cs).
  Hypothesis HA : forall f xs, Forall P xs -> P (Arr f xs).
  Hypothesis HM : forall f kvs, Forall P (unpair kvs) -> P (Map f kvs).
  Hypothesis HG : forall f t x, P x -> P (Tag f t x).
  Hypothesis HS : forall f v, P (Simple f v).
  Hypothesis HF : forall f v, P (Float f v).
  Fixpoint item_ind' (i : item) : P i :=
    match i with
    | UInt f n => HU f n
    | NInt f n => HN f n
    | BStr f bs => HB f bs
    | BStrI cs => HBI cs
    | TStr f bs => HT f bs
    | TStrI cs => HTI cs
    | Arr f xs => HA f xs ((fix go l : Forall P l :=
        match l with [] => Forall_nil _ | x :: r => Forall_cons _ (item_ind' x) (go r) end) xs)
    | Map f kvs => HM f kvs ((fix go (l : list (item * item)) : Forall P (unpair l) :=
        match l return Forall P (unpair l) with
        | [] => Forall_nil _
        | p :: r => match p return Forall P (unpair (p :: r)) with
                    | (k, v) => Forall_cons _ (item_ind' k) (Forall_cons _ (item_ind' v) (go r)) end
        end) kvs)
    | Tag f t x => HG f t x (item_ind' x)
    | Simple f v => HS f v
    | Float f v => HF f v
    end.
End ind.

(* ---- pairs / unpair ---- *)
Lemma pairs_unpair {A} (l : list (A * A)) : pairs (unpair l) = Some l.
Proof. induction l as [|[a b] r IH]; cbn [unpair pairs]; [reflexivity|]. rewrite IH. reflexivity. Qed.

Lemma pairs_sound {A} : forall (l : list A) ps, pairs l = Some ps -> l = unpair ps.
Proof.
  fix IH 1. intros [|a [|b r]] ps H; cbn [pairs] in H.
  - injection H as <-. reflexivity.
  - discriminate.
  - destruct (pairs r) as [qs|] eqn:E; [|discriminate]. injection H as <-.
    cbn [unpair]. f_equal. f_equal. apply IH. exact E.
Qed.

Lemma unpair_length {A} (l : list (A * A)) : length (unpair l) = (2 * length l)%nat.
Proof. induction l as [|[a b] r IH]; cbn [unpair length]; lia. Qed.

Lemma unpair_app {A} (l1 l2 : list (A * A)) : unpair (l1 ++ l2) = unpair l1 ++ unpair l2.
Proof. induction l1 as [|[a b] r IH]; cbn [unpair app]; [reflexivity|]. rewrite IH. reflexivity. Qed.

Definition enc_kv (kv : item * item) : bytes := enc (fst kv) ++ enc (snd kv).

Lemma enc_map_flat kvs : flat_map enc_kv kvs = flat_map enc (unpair kvs).
Proof.
  induction kvs as [|[k v] r IH]; cbn [flat_map unpair]; [reflexivity|].
  unfold enc_kv at 1. cbn [fst snd]. rewrite IH, <- app_assoc. reflexivity.
Qed.

(* ---- wf / enc unfolded for containers ---- *)
Definition hdr_ok {A} (f : option form) (l : list A) : Prop :=
  match f with Some f => len_ok f l | None => True end.

Lemma wf_arr f xs : wf (Arr f xs) <-> hdr_ok f xs /\ Forall wf xs.
Proof.
  cbn [wf]. unfold hdr_ok.
  assert (H : (fix all (l : list item) := match l with [] => True | x :: r => wf x /\ all r end) xs <-> Forall wf xs).
  { induction xs as [|x r IH]; split; intros H; auto.
    - destruct H; constructor; tauto.
    - inversion H; subst; tauto. }
  tauto.
Qed.

Lemma wf_map f kvs : wf (Map f kvs) <-> hdr_ok f kvs /\ Forall wf (unpair kvs).
Proof.
  cbn [wf]. unfold hdr_ok.
  assert (H : (fix all (l : list (item * item)) := match l with [] => True | (k, v) :: r => wf k /\ wf v /\ all r end) kvs
              <-> Forall wf (unpair kvs)).
  { induction kvs as [|[k v] r IH]; cbn [unpair]; split; intros H; auto.
    - destruct H as (? & ? & ?). constructor; [|constructor]; tauto.
    - inversion H as [|? ? ? H1]; subst. inversion H1; subst. tauto. }
  tauto.
Qed.

Lemma enc_arr_def f xs : enc (Arr (Some f) xs) = enc_head 4 f (N.of_nat (length xs)) ++ flat_map enc xs.
Proof. reflexivity. Qed.
Lemma enc_arr_indef xs : enc (Arr None xs) = 159 :: flat_map enc xs ++ [255].
Proof. reflexivity. Qed.
Lemma enc_map_def f kvs : enc (Map (Some f) kvs) = enc_head 5 f (N.of_nat (length kvs)) ++ flat_map enc (unpair kvs).
Proof. rewrite <- enc_map_flat. reflexivity. Qed.
Lemma enc_map_indef kvs : enc (Map None kvs) = 191 :: flat_map enc (unpair kvs) ++ [255].
Proof. rewrite <- enc_map_flat. reflexivity. Qed.
Lemma enc_tag f t x : enc (Tag f t x) = enc_head 6 f t ++ enc x.
Proof. reflexivity. Qed.

(* ---- fuel measure: nesting depth plus list lengths ---- *)
Fixpoint need (i : item) : nat :=
  match i with
  | BStrI cs | TStrI cs => S (S (length cs))
  | Arr _ xs => S ((fix nl (l : list item) := match l with [] => 1 | x :: r => S (Nat.max (need x) (nl r)) end) xs)
  | Map _ kvs => S ((fix nl (l : list (item * item)) := match l with
                      | [] => 1
                      | (k, v) :: r => S (Nat.max (need k) (S (Nat.max (need v) (nl r)))) end) kvs)
  | Tag _ _ x => S (need x)
  | _ => 1
  end%nat.
Fixpoint needl (l : list item) : nat :=
  match l with [] => 1 | x :: r => S (Nat.max (need x) (needl r)) end%nat.

Lemma need_arr f xs : need (Arr f xs) = S (needl xs).
Proof. reflexivity. Qed.
Lemma need_map f kvs : need (Map f kvs) = S (needl (unpair kvs)).
Proof.
  cbn [need]. f_equal. induction kvs as [|[k v] r IH]; cbn [needl unpair]; [reflexivity|]. rewrite IH. reflexivity.
Qed.
Lemma need_pos i : (1 <= need i)%nat.
Proof. destruct i; cbn [need]; lia. Qed.
Lemma needl_pos l : (1 <= needl l)%nat.
Proof. destruct l; cbn [needl]; lia. Qed.

(* ---- big-endian read/write ---- *)
Definition val (l : bytes) (acc : N) : N := fold_left (fun a b => a * 256 + b) l acc.

Lemma rd_app l : forall rest acc, rd (length l) (l ++ rest) acc = Some (val l acc, rest).
Proof. induction l as [|b l IH]; intros rest acc; cbn [rd length app val fold_left]; [reflexivity|]. apply IH. Qed.

Lemma rd_split k : forall bs acc n rest, rd k bs acc = Some (n, rest) ->
  exists l, bs = l ++ rest /\ length l = k /\ n = val l acc.
Proof.
  induction k as [|k IH]; intros bs acc n rest H; cbn [rd] in H.
  - injection H as <- <-. exists []. auto.
  - destruct bs as [|b r]; [discriminate|]. apply IH in H. destruct H as (l & -> & <- & ->).
    exists (b :: l). auto.
Qed.

Lemma be_length k : forall n, length (be k n) = k.
Proof. induction k as [|k IH]; intros n; cbn [be]; [reflexivity|]. rewrite app_length, IH. cbn. lia. Qed.

Lemma val_be k : forall n acc, n < 256 ^ N.of_nat k -> val (be k n) acc = acc * 256 ^ N.of_nat k + n.
Proof.
  induction k as [|k IH]; intros n acc Hn.
  - cbn in *. lia.
  - cbn [be]. unfold val in *. rewrite fold_left_app. cbn [fold_left].
    replace (N.of_nat (S k)) with (N.succ (N.of_nat k)) in * by lia.
    rewrite N.pow_succ_r' in *.
    rewrite IH by (apply N.div_lt_upper_bound; lia).
    pose proof (N.div_mod n 256 ltac:(lia)). lia.
Qed.

Lemma rd_be k n rest : n < 256 ^ N.of_nat k -> rd k (be k n ++ rest) 0 = Some (n, rest).
Proof. intros H. rewrite <- (be_length k n) at 1. rewrite rd_app. rewrite val_be by exact H. reflexivity. Qed.

Lemma rd_short k : forall l acc, (length l < k)%nat -> rd k l acc = None.
Proof.
  induction k as [|k IH]; intros l acc H; [cbn in H; lia|].
  destruct l as [|b l]; [reflexivity|]. cbn [rd]. apply IH. cbn in H. lia.
Qed.

Lemma rd_enough k : forall l acc, (k <= length l)%nat -> rd k l acc <> None.
Proof.
  induction k as [|k IH]; intros l acc H; [cbn; discriminate|].
  destruct l as [|b l]; [cbn in H; lia|]. cbn [rd]. apply IH. cbn in H. lia.
Qed.

Lemma val_snoc l b acc : val (l ++ [b]) acc = val l acc * 256 + b.
Proof. unfold val. rewrite fold_left_app. reflexivity. Qed.

Lemma val_bound l : all_bytes l -> val l 0 < 256 ^ N.of_nat (length l).
Proof.
  induction l as [|b l IH] using rev_ind; intros H; [cbn; lia|].
  apply Forall_app in H. destruct H as [Hl Hb]. inversion Hb as [|? ? Hb' _]; subst. unfold is_byte in Hb'.
  rewrite val_snoc, app_length. cbn [length].
  replace (N.of_nat (length l + 1)) with (N.succ (N.of_nat (length l))) by lia.
  rewrite N.pow_succ_r'. specialize (IH Hl). lia.
Qed.

Lemma be_val l : all_bytes l -> be (length l) (val l 0) = l.
Proof.
  induction l as [|b l IH] using rev_ind; intros H; [reflexivity|].
  apply Forall_app in H. destruct H as [Hl Hb]. inversion Hb as [|? ? Hb' _]; subst. unfold is_byte in Hb'.
  rewrite val_snoc, app_length. cbn [length]. replace (length l + 1)%nat with (S (length l)) by lia.
  cbn [be]. replace ((val l 0 * 256 + b) / 256) with (val l 0) by lia.
  replace ((val l 0 * 256 + b) mod 256) with b by lia.
  rewrite IH by exact Hl. reflexivity.
Qed.

Lemma be_bytes k : forall n, all_bytes (be k n).
Proof.
  induction k as [|k IH]; intros n; cbn [be]; [constructor|].
  apply Forall_app. split; [apply IH|]. constructor; [|constructor]. unfold is_byte. lia.
Qed.

(* ---- heads ---- *)
Lemma fits_pow f n : fits f n -> f <> Fimm -> n < 256 ^ N.of_nat (nbytes f).
Proof. destruct f; cbn; intros; try congruence; lia. Qed.

Lemma ai_lt f n : fits f n -> ai_of f n < 32.
Proof. destruct f; cbn; lia. Qed.
Lemma ai_ne31 f n : fits f n -> ai_of f n <> 31.
Proof. destruct f; cbn; lia. Qed.

Lemma hd_decomp mt ai : ai < 32 -> (mt * 32 + ai) / 32 = mt /\ (mt * 32 + ai) mod 32 = ai.
Proof. intros; split; lia. Qed.

Lemma rd_res_enc f n rest : f <> Fimm -> fits f n -> rd_res f (be (nbytes f) n ++ rest) = Ok (f, n) rest.
Proof. intros Hf H. unfold rd_res. rewrite rd_be by (apply fits_pow; assumption). reflexivity. Qed.

Lemma read_arg_enc f n rest : fits f n ->
  read_arg (ai_of f n) (be (nbytes f) n ++ rest) = Ok (f, n) rest.
Proof.
  intros Hf. unfold read_arg. destruct f; cbn [ai_of].
  - cbn in Hf. destruct (N.ltb_spec n 24); [reflexivity|lia].
  - change (24 <? 24) with false. change (24 =? 24) with true. cbn iota. apply rd_res_enc; [discriminate|exact Hf].
  - change (25 <? 24) with false. change (25 =? 24) with false. change (25 =? 25) with true. cbn iota.
    apply rd_res_enc; [discriminate|exact Hf].
  - change (26 <? 24) with false. change (26 =? 24) with false. change (26 =? 25) with false.
    change (26 =? 26) with true. cbn iota. apply rd_res_enc; [discriminate|exact Hf].
  - change (27 <? 24) with false. change (27 =? 24) with false. change (27 =? 25) with false.
    change (27 =? 26) with false. change (27 =? 27) with true. cbn iota. apply rd_res_enc; [discriminate|exact Hf].
Qed.

(* the three possible outcomes of read_arg, each characterised *)
Lemma read_arg_cases ai bs :
  (exists f n rest l, read_arg ai bs = Ok (f, n) rest /\ bs = l ++ rest /\ length l = nbytes f /\
                      ai_of f n = ai /\ (f = Fimm -> n < 24) /\ (f <> Fimm -> n = val l 0))
  \/ (read_arg ai bs = NeedMore /\ 24 <= ai <= 27)
  \/ (read_arg ai bs = Bad /\ 28 <= ai).
Proof.
  unfold read_arg.
  assert (G : forall f, f <> Fimm ->
     (exists n rest l, rd_res f bs = Ok (f, n) rest /\ bs = l ++ rest /\ length l = nbytes f /\ n = val l 0)
     \/ (rd_res f bs = NeedMore /\ (length bs < nbytes f)%nat)).
  { intros f Hf. unfold rd_res. destruct (rd (nbytes f) bs 0) as [[n rest]|] eqn:E.
    - left. apply rd_split in E. destruct E as (l & E1 & E2 & E3). exists n, rest, l. auto.
    - right. split; [reflexivity|]. destruct (Nat.ltb_spec (length bs) (nbytes f)) as [|Hge]; [assumption|].
      exfalso. eapply rd_enough; eauto. }
  destruct (N.ltb_spec ai 24) as [Hlt|Hge].
  { left. exists Fimm, ai, bs, []. cbn. repeat split; auto; congruence. }
  destruct (N.eqb_spec ai 24) as [->|N24].
  { destruct (G F1 ltac:(discriminate)) as [(n & rest & l & E & E1 & E2 & E3)|[E L]].
    - left. exists F1, n, rest, l. cbn. repeat split; auto; congruence.
    - right. left. repeat split; auto; lia. }
  destruct (N.eqb_spec ai 25) as [->|N25].
  { destruct (G F2 ltac:(discriminate)) as [(n & rest & l & E & E1 & E2 & E3)|[E L]].
    - left. exists F2, n, rest, l. cbn. repeat split; auto; congruence.
    - right. left. repeat split; auto; lia. }
  destruct (N.eqb_spec ai 26) as [->|N26].
  { destruct (G F4 ltac:(discriminate)) as [(n & rest & l & E & E1 & E2 & E3)|[E L]].
    - left. exists F4, n, rest, l. cbn. repeat split; auto; congruence.
    - right. left. repeat split; auto; lia. }
  destruct (N.eqb_spec ai 27) as [->|N27].
  { destruct (G F8 ltac:(discriminate)) as [(n & rest & l & E & E1 & E2 & E3)|[E L]].
    - left. exists F8, n, rest, l. cbn. repeat split; auto; congruence.
    - right. left. repeat split; auto; lia. }
  right. right. split; [reflexivity|lia].
Qed.

Lemma read_arg_sound ai bs f n rest : all_bytes bs -> read_arg ai bs = Ok (f, n) rest ->
  bs = be (nbytes f) n ++ rest /\ ai_of f n = ai /\ fits f n.
Proof.
  intros Hb H. destruct (read_arg_cases ai bs) as [(f' & n' & rest' & l & E & E1 & E2 & E3 & E4 & E5)|[[E _]|[E _]]];
    try congruence.
  rewrite E in H. injection H as -> -> ->. subst bs.
  apply Forall_app in Hb. destruct Hb as [Hl _].
  destruct (form_eqb f Fimm) eqn:Ef.
  - destruct f; try discriminate. cbn in E2. destruct l; [|discriminate]. cbn. auto.
  - assert (Hne : f <> Fimm) by (intros ->; discriminate). specialize (E5 Hne). subst n.
    rewrite <- E2. rewrite be_val by exact Hl. repeat split; auto.
    pose proof (val_bound l Hl) as B. rewrite E2 in B. destruct f; cbn in *; try congruence; lia.
Qed.

Lemma read_arg_short f n p q : fits f n -> be (nbytes f) n = p ++ q -> q <> [] ->
  read_arg (ai_of f n) p = NeedMore.
Proof.
  intros Hf E Hq.
  assert (Hlen : (length p < nbytes f)%nat).
  { pose proof (be_length (nbytes f) n) as L. rewrite E, app_length in L.
    destruct q; [congruence|]. cbn in L. lia. }
  unfold read_arg, rd_res. destruct f; cbn [ai_of nbytes] in *; try lia.
  - change (24 <? 24) with false. cbn -[rd]. rewrite rd_short by exact Hlen. reflexivity.
  - change (25 <? 24) with false. cbn -[rd]. rewrite rd_short by exact Hlen. reflexivity.
  - change (26 <? 24) with false. cbn -[rd]. rewrite rd_short by exact Hlen. reflexivity.
  - change (27 <? 24) with false. cbn -[rd]. rewrite rd_short by exact Hlen. reflexivity.
Qed.

Lemma enc_head_length mt f n : length (enc_head mt f n) = S (nbytes f).
Proof. unfold enc_head. cbn [length]. rewrite be_length. reflexivity. Qed.

(* where can a cut fall in  head ++ tail ? *)
Lemma head_split mt f n tail p q : enc_head mt f n ++ tail = p ++ q ->
  p = []
  \/ (exists p' q', p = (mt * 32 + ai_of f n) :: p' /\ be (nbytes f) n = p' ++ q' /\ q' <> [])
  \/ (exists l, p = enc_head mt f n ++ l /\ tail = l ++ q).
Proof.
  intros E. destruct p as [|b p]; [left; reflexivity|right].
  unfold enc_head in *. cbn [app] in E.
  remember (mt * 32 + ai_of f n) as hb. injection E as <- E.
  apply app_eq_app in E. destruct E as (l & [[E1 E2]|[E1 E2]]).
  - destruct l as [|c l].
    + right. exists []. rewrite app_nil_r in E1. subst p. cbn [app] in E2. rewrite app_nil_r. auto.
    + left. exists p, (c :: l). repeat split; auto. discriminate.
  - right. exists l. subst p. auto.
Qed.

(* ---- take ---- *)
Lemma take_app s : forall rest, take (N.of_nat (length s)) (s ++ rest) = Some (s, rest).
Proof.
  induction s as [|b s IH]; intros rest.
  - cbn [length app]. destruct rest; reflexivity.
  - cbn [length app take]. destruct (N.eqb_spec (N.of_nat (S (length s))) 0) as [E|_]; [lia|].
    replace (N.of_nat (S (length s)) - 1) with (N.of_nat (length s)) by lia. rewrite IH. reflexivity.
Qed.

Lemma take_short p : forall n, N.of_nat (length p) < n -> take n p = None.
Proof.
  induction p as [|b p IH]; intros n H.
  - cbn [take]. destruct (N.eqb_spec n 0) as [E|_]; [cbn in H; lia|reflexivity].
  - cbn [take]. destruct (N.eqb_spec n 0) as [E|_]; [lia|].
    rewrite IH; [reflexivity|]. cbn [length] in H. lia.
Qed.

Lemma take_sound bs : forall n s rest, take n bs = Some (s, rest) -> bs = s ++ rest /\ N.of_nat (length s) = n.
Proof.
  induction bs as [|b bs IH]; intros n s rest H; cbn [take] in H.
  - destruct (N.eqb_spec n 0) as [E|_]; [|discriminate]. injection H as <- <-. auto.
  - destruct (N.eqb_spec n 0) as [E|Hn].
    + injection H as <- <-. auto.
    + destruct (take (n - 1) bs) as [[s' rest']|] eqn:E; [|discriminate]. injection H as <- <-.
      apply IH in E. destruct E as [-> E]. cbn [app length]. split; [reflexivity|]. lia.
Qed.

Lemma take_none bs : forall n, take n bs = None -> N.of_nat (length bs) < n.
Proof.
  induction bs as [|b bs IH]; intros n H; cbn [take] in H.
  - destruct (N.eqb_spec n 0); [discriminate|]. cbn. lia.
  - destruct (N.eqb_spec n 0); [discriminate|].
    destruct (take (n - 1) bs) as [[s' rest']|] eqn:E; [discriminate|]. apply IH in E. cbn [length]. lia.
Qed.

(* ---- one equation per head ---- *)
Section body_eqs.
  Variables (p : bytes -> res item) (pn : N -> bytes -> res (list item))
            (pi : bytes -> res (list item)) (pc : N -> bytes -> res (list (form * bytes))).
  Notation body' := (body p pn pi pc).

  Lemma body_def mt ai r : ai <> 31 -> body' mt ai r =
    bind (read_arg ai r) (fun fn r1 =>
      let f := fst fn in let n := snd fn in
      if mt =? 0 then Ok (UInt f n) r1
      else if mt =? 1 then Ok (NInt f n) r1
      else if mt =? 2 then take_str (BStr f) n r1
      else if mt =? 3 then take_str (TStr f) n r1
      else if mt =? 4 then bind (pn n r1) (fun xs r2 => Ok (Arr (Some f) xs) r2)
      else if mt =? 5 then bind (pn (2 * n) r1) (fun xs r2 => mk_map (Some f) xs r2)
      else if mt =? 6 then bind (p r1) (fun x r2 => Ok (Tag f n x) r2)
      else if mt =? 7 then mk_simple f n r1
      else Bad).
  Proof. intros H. unfold body. destruct (N.eqb_spec ai 31); [contradiction|reflexivity]. Qed.

  Lemma body_needmore mt ai r : ai <> 31 -> read_arg ai r = NeedMore -> body' mt ai r = NeedMore.
  Proof. intros H E. rewrite body_def by exact H. rewrite E. reflexivity. Qed.
  Lemma body_bad mt ai r : ai <> 31 -> read_arg ai r = Bad -> body' mt ai r = Bad.
  Proof. intros H E. rewrite body_def by exact H. rewrite E. reflexivity. Qed.

  Lemma body_ok mt ai r f n r1 : ai <> 31 -> read_arg ai r = Ok (f, n) r1 -> body' mt ai r =
      if mt =? 0 then Ok (UInt f n) r1
      else if mt =? 1 then Ok (NInt f n) r1
      else if mt =? 2 then take_str (BStr f) n r1
      else if mt =? 3 then take_str (TStr f) n r1
      else if mt =? 4 then bind (pn n r1) (fun xs r2 => Ok (Arr (Some f) xs) r2)
      else if mt =? 5 then bind (pn (2 * n) r1) (fun xs r2 => mk_map (Some f) xs r2)
      else if mt =? 6 then bind (p r1) (fun x r2 => Ok (Tag f n x) r2)
      else if mt =? 7 then mk_simple f n r1
      else Bad.
  Proof. intros H E. rewrite body_def by exact H. rewrite E. reflexivity. Qed.

  Lemma body_indef mt r : body' mt 31 r =
    if mt =? 2 then bind (pc 2 r) (fun cs r1 => Ok (BStrI cs) r1)
    else if mt =? 3 then bind (pc 3 r) (fun cs r1 => Ok (TStrI cs) r1)
    else if mt =? 4 then bind (pi r) (fun xs r1 => Ok (Arr None xs) r1)
    else if mt =? 5 then bind (pi r) (fun xs r1 => mk_map None xs r1)
    else Bad.
  Proof. reflexivity. Qed.
End body_eqs.

Lemma parse_S fu b r : parse (S fu) (b :: r) =
  body (parse fu) (parse_n fu) (parse_indef fu) (parse_chunks fu) (b / 32) (b mod 32) r.
Proof. reflexivity. Qed.

Lemma parse_nil fuel : (1 <= fuel)%nat -> parse fuel [] = NeedMore.
Proof. destruct fuel; [lia|reflexivity]. Qed.
Lemma parse_indef_nil fuel : (1 <= fuel)%nat -> parse_indef fuel [] = NeedMore.
Proof. destruct fuel; [lia|reflexivity]. Qed.
Lemma parse_chunks_nil fuel mt : (1 <= fuel)%nat -> parse_chunks fuel mt [] = NeedMore.
Proof. destruct fuel; [lia|reflexivity]. Qed.

(* parsing the head of  enc_head mt f n ++ tail *)
Lemma parse_head fu mt f n tail : fits f n -> parse (S fu) (enc_head mt f n ++ tail) =
  body (parse fu) (parse_n fu) (parse_indef fu) (parse_chunks fu) mt (ai_of f n) (be (nbytes f) n ++ tail).
Proof.
  intros Hf. unfold enc_head. cbn [app]. rewrite parse_S.
  destruct (hd_decomp mt (ai_of f n) (ai_lt f n Hf)) as [E1 E2]. rewrite E1, E2. reflexivity.
Qed.

Lemma parse_head_ok fu mt f n tail : fits f n -> parse (S fu) (enc_head mt f n ++ tail) =
      if mt =? 0 then Ok (UInt f n) tail
      else if mt =? 1 then Ok (NInt f n) tail
      else if mt =? 2 then take_str (BStr f) n tail
      else if mt =? 3 then take_str (TStr f) n tail
      else if mt =? 4 then bind (parse_n fu n tail) (fun xs r2 => Ok (Arr (Some f) xs) r2)
      else if mt =? 5 then bind (parse_n fu (2 * n) tail) (fun xs r2 => mk_map (Some f) xs r2)
      else if mt =? 6 then bind (parse fu tail) (fun x r2 => Ok (Tag f n x) r2)
      else if mt =? 7 then mk_simple f n tail
      else Bad.
Proof.
  intros Hf. rewrite parse_head by exact Hf.
  apply body_ok; [apply ai_ne31; exact Hf|apply read_arg_enc; exact Hf].
Qed.

(* a cut inside the argument bytes of a head *)
Lemma parse_head_short fu mt f n p' q' : fits f n -> be (nbytes f) n = p' ++ q' -> q' <> [] ->
  parse (S fu) ((mt * 32 + ai_of f n) :: p') = NeedMore.
Proof.
  intros Hf E Hq. rewrite parse_S.
  destruct (hd_decomp mt (ai_of f n) (ai_lt f n Hf)) as [E1 E2]. rewrite E1, E2.
  apply body_needmore; [apply ai_ne31; exact Hf|eapply read_arg_short; eauto].
Qed.

(* the fits condition carried by every head, per constructor *)
Lemma wf_simple_fits f v : wf (Simple f v) -> fits f v.
Proof. destruct f; cbn; lia. Qed.
Lemma wf_float_fits f v : wf (Float f v) -> fits f v.
Proof. destruct f; cbn; tauto. Qed.

Lemma head_first mt f n : fits f n -> mt < 7 -> mt * 32 + ai_of f n <> 255.
Proof. intros H Hm. pose proof (ai_lt f n H). lia. Qed.

(* the first byte of an item is never the break byte *)
Lemma enc_first i : wf i -> exists b t, enc i = b :: t /\ b <> 255.
Proof.
  assert (G : forall mt f n tail, fits f n -> mt <= 7 -> exists b t, enc_head mt f n ++ tail = b :: t /\ b <> 255).
  { intros mt f n tail H Hm. unfold enc_head. cbn [app]. eexists _, _. split; [reflexivity|].
    pose proof (ai_lt f n H). pose proof (ai_ne31 f n H). lia. }
  destruct i as [f n|f n|f bs|cs|f bs|cs|[f|] xs|[f|] kvs|f t x|f v|f v]; intros Hw.
  - rewrite <- (app_nil_r (enc _)). apply G; [exact Hw|lia].
  - rewrite <- (app_nil_r (enc _)). apply G; [exact Hw|lia].
  - cbn [enc]. apply G; [apply Hw|lia].
  - cbn [enc app]. eexists _, _. split; [reflexivity|lia].
  - cbn [enc]. apply G; [apply Hw|lia].
  - cbn [enc app]. eexists _, _. split; [reflexivity|lia].
  - apply wf_arr in Hw. rewrite enc_arr_def. apply G; [apply Hw|lia].
  - rewrite enc_arr_indef. eexists _, _. split; [reflexivity|lia].
  - apply wf_map in Hw. rewrite enc_map_def. apply G; [apply Hw|lia].
  - rewrite enc_map_indef. eexists _, _. split; [reflexivity|lia].
  - rewrite enc_tag. apply G; [apply Hw|lia].
  - rewrite <- (app_nil_r (enc _)). apply G; [apply wf_simple_fits; exact Hw|lia].
  - rewrite <- (app_nil_r (enc _)). apply G; [apply wf_float_fits; exact Hw|lia].
Qed.

Lemma enc_nonempty i : wf i -> (1 <= length (enc i))%nat.
Proof. intros H. destruct (enc_first i H) as (b & t & -> & _). cbn. lia. Qed.

Lemma parse_indef_step fu b r : b <> 255 ->
  parse_indef (S fu) (b :: r) =
  bind (parse fu (b :: r)) (fun x r1 => bind (parse_indef fu r1) (fun xs r2 => Ok (x :: xs) r2)).
Proof. intros Hb. cbn [parse_indef]. destruct (N.eqb_spec b 255); [contradiction|reflexivity]. Qed.

Lemma parse_n_step fu k bs : k <> 0 ->
  parse_n (S fu) k bs = bind (parse fu bs) (fun x r => bind (parse_n fu (k - 1) r) (fun xs r1 => Ok (x :: xs) r1)).
Proof. intros Hk. cbn [parse_n]. destruct (N.eqb_spec k 0); [contradiction|reflexivity]. Qed.
