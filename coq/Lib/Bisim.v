(* Lib/Bisim - executable bisimulation check between two automata with agency
   (Lib/Automata) and its soundness for traces of ANY length.

     bisim_check A B R      boolean: R contains the pair of initial states, every
                            pair in R has equal agency and, for every label of the
                            finite alphabet of A and B, both sides step or both
                            refuse, successors again in R
     bisim_sound            bisim_check A B R = true -> for every trace:
                            accepts agree, agencies along the trace agree,
                            agency of the final state (terminal or not) agrees
     distinguish A B        product BFS; returns a SHORTEST trace on which the two
                            automata differ (with both verdicts), None if none
     bisim_rel A B          the relation computed by the same BFS (all reachable
                            pairs) - feed it to bisim_check / bisim_auto
     iso_check A B R        R is one-to-one and covers every state of both tables
                            (no collapsed, duplicated or unreachable state)

   The alphabet argument: labels are (msg type, guard class) over all of N*N, but
   an automaton only inspects whether the type occurs in a transition and whether
   the class is listed in a guard, so the finite set
     (types of A or B) x (0, classes listed in A or B, one fresh class)
   represents every label (lemmas step_canon_l/r, dead_label). *)
From Coq Require Import String.
From V Require Import Lib.Base Lib.Automata.
(* end of imports *)
Local Open Scope N_scope.

Definition rel := list (N * N).

Definition pair_eqb (p r : N * N) : bool := N.eqb (fst p) (fst r) && N.eqb (snd p) (snd r).
Definition pair_mem (p : N * N) (R : rel) : bool := existsb (pair_eqb p) R.

Lemma pair_mem_In p R : pair_mem p R = true <-> In p R.
Proof.
  unfold pair_mem. rewrite existsb_exists. split.
  - intros (r & Hr & E). unfold pair_eqb in E. apply andb_true_iff in E. destruct E as [E1 E2].
    apply N.eqb_eq in E1, E2. destruct p, r; cbn in *; subst; exact Hr.
  - intros H. exists p. split; [exact H|]. unfold pair_eqb. rewrite !N.eqb_refl. reflexivity.
Qed.

(* ---- finite alphabet ---------------------------------------------------- *)

Definition max_list (l : list N) : N := fold_right N.max 0 l.

Lemma max_list_ge l x : In x l -> x <= max_list l.
Proof.
  unfold max_list. induction l as [|a r IH]; cbn [fold_right In]; [intros []|].
  intros [->|H]; [lia|]. specialize (IH H). lia.
Qed.

Definition listed_classes (A B : aut) : list N := 0 :: classes_of A ++ classes_of B.
Definition fresh_class (A B : aut) : N := 1 + max_list (listed_classes A B).
Definition alpha_msgs (A B : aut) : list N := dedupN (msgs_of A ++ msgs_of B).
Definition alpha_classes (A B : aut) : list N := dedupN (listed_classes A B) ++ [fresh_class A B].

Definition alphabet (A B : aut) : list label :=
  flat_map (fun m => map (fun c => (m, c)) (alpha_classes A B)) (alpha_msgs A B).

(* representative of an arbitrary label *)
Definition canon (A B : aut) (l : label) : label :=
  (fst l, if memN (snd l) (listed_classes A B) then snd l else fresh_class A B).

Lemma dedupN_In x l : In x (dedupN l) <-> In x l.
Proof.
  induction l as [|a r IH]; cbn; [tauto|].
  destruct (memN a r) eqn:E.
  - rewrite IH. split; [auto|]. intros [->|H]; [apply memN_In; exact E|exact H].
  - cbn. rewrite IH. tauto.
Qed.

Lemma fresh_not_listed A B : ~ In (fresh_class A B) (listed_classes A B).
Proof. intros H. apply max_list_ge in H. unfold fresh_class in H. lia. Qed.

Lemma guard_ok_canon A B t c :
  In t (all_trans A) \/ In t (all_trans B) ->
  guard_ok (t_guard t) c = guard_ok (t_guard t) (snd (canon A B (0, c))).
Proof.
  intros Ht. unfold canon. cbn [fst snd].
  destruct (memN c (listed_classes A B)) eqn:E; [reflexivity|].
  destruct (t_guard t) as [cs|] eqn:G; cbn; [|reflexivity].
  assert (Hsub : forall x, In x cs -> In x (listed_classes A B)).
  { intros x Hx. unfold listed_classes. right. apply in_or_app.
    destruct Ht as [Ht|Ht]; [left|right]; unfold classes_of; apply in_flat_map; exists t;
      (split; [exact Ht|unfold guard_classes; rewrite G; exact Hx]). }
  transitivity false.
  - apply not_true_iff_false. intros H. apply existsb_exists in H. destruct H as (x & Hx & Ex).
    apply N.eqb_eq in Ex. subst x. apply Hsub in Hx. apply memN_In in Hx. congruence.
  - symmetry. apply not_true_iff_false. intros H. apply existsb_exists in H. destruct H as (x & Hx & Ex).
    apply N.eqb_eq in Ex. subst x. apply Hsub in Hx. exact (fresh_not_listed A B Hx).
Qed.

Lemma step_canon_l A B q l : step A q l = step A q (canon A B l).
Proof.
  unfold step. cbn [fst]. apply find_trans_ext. intros t Ht.
  apply (guard_ok_canon A B t (snd l)). left. eapply trans_of_sub; eauto.
Qed.

Lemma step_canon_r A B q l : step B q l = step B q (canon A B l).
Proof.
  unfold step. cbn [fst]. apply find_trans_ext. intros t Ht.
  apply (guard_ok_canon A B t (snd l)). right. eapply trans_of_sub; eauto.
Qed.

Lemma dead_label_l A B q l : ~ In (fst l) (alpha_msgs A B) -> step A q l = None.
Proof.
  intros H. unfold step. apply find_trans_nomsg. intros t Ht E. apply H.
  unfold alpha_msgs. apply dedupN_In. apply in_or_app. left. unfold msgs_of.
  rewrite <- E. apply in_map. eapply trans_of_sub; eauto.
Qed.

Lemma dead_label_r A B q l : ~ In (fst l) (alpha_msgs A B) -> step B q l = None.
Proof.
  intros H. unfold step. apply find_trans_nomsg. intros t Ht E. apply H.
  unfold alpha_msgs. apply dedupN_In. apply in_or_app. right. unfold msgs_of.
  rewrite <- E. apply in_map. eapply trans_of_sub; eauto.
Qed.

Lemma canon_in_alphabet A B l : In (fst l) (alpha_msgs A B) -> In (canon A B l) (alphabet A B).
Proof.
  intros H. unfold alphabet. apply in_flat_map. exists (fst l). split; [exact H|].
  unfold canon. apply in_map. unfold alpha_classes. apply in_or_app.
  destruct (memN (snd l) (listed_classes A B)) eqn:E.
  - left. apply dedupN_In. apply memN_In. exact E.
  - right. left. reflexivity.
Qed.

(* ---- the checker -------------------------------------------------------- *)

Definition step_pair_ok (A B : aut) (R : rel) (p : N * N) (l : label) : bool :=
  match step A (fst p) l, step B (snd p) l with
  | Some a, Some b => pair_mem (a, b) R
  | None, None => true
  | _, _ => false
  end.

Definition pair_ok (A B : aut) (R : rel) (p : N * N) : bool :=
  agency_eqb (agency_of A (fst p)) (agency_of B (snd p)) &&
  forallb (step_pair_ok A B R p) (alphabet A B).

Definition bisim_check (A B : aut) (R : rel) : bool :=
  pair_mem (a_init A, a_init B) R && forallb (pair_ok A B R) R.

(* offending pairs, for reporting *)
Definition bisim_bad_pairs (A B : aut) (R : rel) : rel := filter (fun p => negb (pair_ok A B R p)) R.

Section Sound.
  Variables (A B : aut) (R : rel).
  Hypothesis Hchk : bisim_check A B R = true.

  Lemma chk_init : In (a_init A, a_init B) R.
  Proof. unfold bisim_check in Hchk. apply andb_true_iff in Hchk. apply pair_mem_In. tauto. Qed.

  Lemma chk_pair qa qb : In (qa, qb) R -> pair_ok A B R (qa, qb) = true.
  Proof.
    intros H. unfold bisim_check in Hchk. apply andb_true_iff in Hchk. destruct Hchk as [_ F].
    rewrite forallb_forall in F. apply F. exact H.
  Qed.

  Lemma chk_agency qa qb : In (qa, qb) R -> agency_of A qa = agency_of B qb.
  Proof.
    intros H. apply chk_pair in H. unfold pair_ok in H. apply andb_true_iff in H.
    destruct H as [H _]. apply agency_eqb_eq in H. exact H.
  Qed.

  (* one step from a related pair, for an ARBITRARY label *)
  Lemma chk_step qa qb l : In (qa, qb) R ->
    match step A qa l, step B qb l with
    | Some a, Some b => In (a, b) R
    | None, None => True
    | _, _ => False
    end.
  Proof.
    intros H. destruct (in_dec N.eq_dec (fst l) (alpha_msgs A B)) as [Hm|Hm].
    - rewrite (step_canon_l A B qa l), (step_canon_r A B qb l).
      pose proof (canon_in_alphabet A B l Hm) as Hin.
      apply chk_pair in H. unfold pair_ok in H. apply andb_true_iff in H. destruct H as [_ F].
      rewrite forallb_forall in F. specialize (F _ Hin). unfold step_pair_ok in F. cbn [fst snd] in F.
      destruct (step A qa (canon A B l)), (step B qb (canon A B l)); try discriminate; auto.
      apply pair_mem_In. exact F.
    - rewrite (dead_label_l A B qa l Hm), (dead_label_r A B qb l Hm). exact I.
  Qed.

  Lemma sound_from tr : forall qa qb, In (qa, qb) R ->
    obs_from A qa tr = obs_from B qb tr /\
    match run_from A qa tr, run_from B qb tr with
    | Some a, Some b => In (a, b) R
    | None, None => True
    | _, _ => False
    end.
  Proof.
    induction tr as [|l r IH]; intros qa qb H; cbn.
    - split; [f_equal; apply chk_agency; exact H|exact H].
    - pose proof (chk_step qa qb l H) as S. pose proof (chk_agency qa qb H) as Ag.
      destruct (step A qa l) as [a|], (step B qb l) as [b|]; try contradiction.
      + destruct (IH a b S) as [O Rn]. split; [rewrite Ag, O; reflexivity|exact Rn].
      + split; [rewrite Ag; reflexivity|exact I].
  Qed.

  Theorem bisim_sound_R : forall tr,
    accepts A tr = accepts B tr /\ obs A tr = obs B tr /\ final_agency A tr = final_agency B tr.
  Proof.
    intros tr. destruct (sound_from tr _ _ chk_init) as [O Rn].
    unfold accepts, obs, final_agency, run.
    destruct (run_from A (a_init A) tr) as [a|], (run_from B (a_init B) tr) as [b|]; try contradiction.
    - repeat split; auto. f_equal. apply chk_agency. exact Rn.
    - repeat split; auto.
  Qed.
End Sound.

(* The lifting theorem.  For every trace, of any length:
   - it is accepted by A iff by B,
   - the agencies of all states visited agree,
   - the agency of the state reached agrees; in particular terminal
     (agency None) states coincide. *)
Theorem bisim_sound (A B : aut) (R : rel) : bisim_check A B R = true ->
  forall tr : list label,
    accepts A tr = accepts B tr /\ obs A tr = obs B tr /\ final_agency A tr = final_agency B tr.
Proof. intros H tr. apply (bisim_sound_R A B R H). Qed.

Corollary bisim_terminal (A B : aut) (R : rel) : bisim_check A B R = true ->
  forall tr qa qb, run A tr = Some qa -> run B tr = Some qb -> terminal A qa = terminal B qb.
Proof.
  intros H tr qa qb Ha Hb. destruct (bisim_sound A B R H tr) as (_ & _ & F).
  unfold final_agency in F. rewrite Ha, Hb in F. unfold terminal. congruence.
Qed.

(* ---- product BFS: relation or shortest distinguishing trace -------------- *)

Record diff := mkD {
  d_trace : list label;
  d_accA  : bool;  d_accB : bool;                        (* accepts A / B *)
  d_agA   : option agency;  d_agB : option agency        (* final agency, if accepted *)
}.

Definition opt_agency_eqb (x y : option agency) : bool := opt_eqb agency_eqb x y.

(* a label on which the pair disagrees (one side refuses, or the successors
   have different agency) *)
Definition label_differs (A B : aut) (qa qb : N) (l : label) : bool :=
  match step A qa l, step B qb l with
  | Some a, Some b => negb (agency_eqb (agency_of A a) (agency_of B b))
  | None, None => false
  | _, _ => true
  end.

Definition succ_pairs (A B : aut) (alpha : list label) (qa qb : N) (rtr : list label)
  : list (N * N * list label) :=
  flat_map (fun l => match step A qa l, step B qb l with
                     | Some a, Some b => [((a, b), l :: rtr)]
                     | _, _ => [] end) alpha.

Fixpoint add_new (cands : list (N * N * list label)) (seen : rel) (acc : list (N * N * list label))
  : rel * list (N * N * list label) :=
  match cands with
  | [] => (seen, rev acc)
  | (p, t) :: r => if pair_mem p seen then add_new r seen acc
                   else add_new r (seen ++ [p]) ((p, t) :: acc)
  end.

Fixpoint bfs (fuel : nat) (A B : aut) (alpha : list label)
             (queue : list (N * N * list label)) (seen : rel) : rel + list label :=
  match fuel with
  | O => inl seen
  | S f =>
    match queue with
    | [] => inl seen
    | ((qa, qb), rtr) :: rest =>
      match find (label_differs A B qa qb) alpha with
      | Some l => inr (rev (l :: rtr))
      | None =>
        let '(seen', new) := add_new (succ_pairs A B alpha qa qb rtr) seen [] in
        bfs f A B alpha (rest ++ new) seen'
      end
    end
  end.

Definition bfs_fuel (A B : aut) : nat :=
  S ((2 + length (a_states A) + length (all_trans A)) * (2 + length (a_states B) + length (all_trans B))).

Definition explore (A B : aut) : rel + list label :=
  if agency_eqb (agency_of A (a_init A)) (agency_of B (a_init B)) then
    bfs (bfs_fuel A B) A B (alphabet A B) [((a_init A, a_init B), [])] [(a_init A, a_init B)]
  else inr [].

Definition mk_diff (A B : aut) (tr : list label) : diff :=
  mkD tr (accepts A tr) (accepts B tr) (final_agency A tr) (final_agency B tr).

(* shortest trace on which A and B differ *)
Definition distinguish (A B : aut) : option diff :=
  match explore A B with inr tr => Some (mk_diff A B tr) | inl _ => None end.

Definition bisim_rel (A B : aut) : rel :=
  match explore A B with inl R => R | inr _ => [] end.

Definition bisim_auto (A B : aut) : bool := bisim_check A B (bisim_rel A B).

Theorem bisim_auto_sound (A B : aut) : bisim_auto A B = true ->
  forall tr : list label,
    accepts A tr = accepts B tr /\ obs A tr = obs B tr /\ final_agency A tr = final_agency B tr.
Proof. apply bisim_sound. Qed.

(* a reported difference is a real one (checked per instance by computation) *)
Definition diff_real (d : diff) : bool :=
  negb (Bool.eqb (d_accA d) (d_accB d)) || negb (opt_agency_eqb (d_agA d) (d_agB d)).

(* ---- one-to-one correspondence of the state sets -------------------------- *)

Definition iso_check (A B : aut) (R : rel) : bool :=
  nodupN (map fst R) && nodupN (map snd R) &&
  forallb (fun q => memN q (map fst R)) (state_ids A) &&
  forallb (fun q => memN q (map snd R)) (state_ids B).

Lemma nodup_fst_fun (R : rel) : nodupN (map fst R) = true ->
  forall a b b', In (a, b) R -> In (a, b') R -> b = b'.
Proof.
  induction R as [|[x y] r IH]; cbn; intros H a b b' H1 H2; [destruct H1|].
  apply andb_true_iff in H. destruct H as [Hn Hr].
  assert (Hx : forall z, In (x, z) r -> False).
  { intros z Hz. apply negb_true_iff in Hn. apply not_true_iff_false in Hn. apply Hn.
    apply memN_In. change x with (fst (x, z)). apply in_map. exact Hz. }
  destruct H1 as [E1|H1], H2 as [E2|H2].
  - congruence.
  - inversion E1; subst. exfalso. eapply Hx; eauto.
  - inversion E2; subst. exfalso. eapply Hx; eauto.
  - eapply IH; eauto.
Qed.

Lemma nodup_snd_inj (R : rel) : nodupN (map snd R) = true ->
  forall a a' b, In (a, b) R -> In (a', b) R -> a = a'.
Proof.
  induction R as [|[x y] r IH]; cbn; intros H a a' b H1 H2; [destruct H1|].
  apply andb_true_iff in H. destruct H as [Hn Hr].
  assert (Hy : forall z, In (z, y) r -> False).
  { intros z Hz. apply negb_true_iff in Hn. apply not_true_iff_false in Hn. apply Hn.
    apply memN_In. change y with (snd (z, y)). apply in_map. exact Hz. }
  destruct H1 as [E1|H1], H2 as [E2|H2].
  - congruence.
  - inversion E1; subst. exfalso. eapply Hy; eauto.
  - inversion E2; subst. exfalso. eapply Hy; eauto.
  - eapply IH; eauto.
Qed.

Theorem iso_sound (A B : aut) (R : rel) : iso_check A B R = true ->
  (forall a b b', In (a, b) R -> In (a, b') R -> b = b') /\
  (forall a a' b, In (a, b) R -> In (a', b) R -> a = a') /\
  (forall a, In a (state_ids A) -> exists b, In (a, b) R) /\
  (forall b, In b (state_ids B) -> exists a, In (a, b) R).
Proof.
  unfold iso_check. intros H.
  apply andb_true_iff in H. destruct H as [H HB].
  apply andb_true_iff in H. destruct H as [H HA].
  apply andb_true_iff in H. destruct H as [H1 H2].
  rewrite forallb_forall in HA, HB.
  repeat split.
  - apply nodup_fst_fun. exact H1.
  - apply nodup_snd_inj. exact H2.
  - intros a Ha. specialize (HA a Ha). apply memN_In in HA. apply in_map_iff in HA.
    destruct HA as ([x y] & E & Hin). cbn in E. subst. eauto.
  - intros b Hb. specialize (HB b Hb). apply memN_In in HB. apply in_map_iff in HB.
    destruct HB as ([x y] & E & Hin). cbn in E. subst. eauto.
Qed.
