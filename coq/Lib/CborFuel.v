(* Fuel: the parser consumes at least one byte per item, its result does not
   depend on the fuel once fuel > 2 * length input, and the fuel measure
   `need` of an item is below that bound. *)
From V Require Import Lib.Base Lib.Cbor Lib.CborParse Lib.CborLemmas Lib.CborSound.
Local Open Scope N_scope.

(* ---- consumed bytes ---- *)
Lemma read_arg_len ai bs f n rest : read_arg ai bs = Ok (f, n) rest -> (length rest <= length bs)%nat.
Proof.
  intros H. destruct (read_arg_cases ai bs) as [(f' & n' & rest' & l & E & E1 & _)|[[E _]|[E _]]]; try congruence.
  rewrite E in H. injection H as _ _ <-. subst bs. rewrite app_length. lia.
Qed.

Lemma take_len n bs s rest : take n bs = Some (s, rest) -> (length rest <= length bs)%nat.
Proof. intros H. apply take_sound in H. destruct H as [-> _]. rewrite app_length. lia. Qed.

Lemma parse_chunks_shrinks mt : forall fuel bs cs rest,
  parse_chunks fuel mt bs = Ok cs rest -> (length rest < length bs)%nat.
Proof.
  induction fuel as [|fu IH]; intros bs cs rest H; [discriminate|].
  destruct bs as [|b r]; [discriminate|]. cbn [parse_chunks] in H. cbn [length].
  destruct (b =? 255). { injection H as _ <-. lia. }
  destruct (negb (b / 32 =? mt) || (b mod 32 =? 31)); [discriminate|].
  apply bind_ok in H. destruct H as ([f n] & r1 & Ea & H). cbn [fst snd] in H.
  destruct (take n r1) as [[s r2]|] eqn:Et; [|discriminate].
  apply bind_ok in H. destruct H as (cs' & r3 & Ec & H). injection H as _ <-.
  apply read_arg_len in Ea. apply take_len in Et. apply IH in Ec. lia.
Qed.

Definition Shr (fuel : nat) : Prop :=
  (forall bs i rest, parse fuel bs = Ok i rest -> (length rest < length bs)%nat) /\
  (forall k bs xs rest, parse_n fuel k bs = Ok xs rest -> (length rest <= length bs)%nat) /\
  (forall bs xs rest, parse_indef fuel bs = Ok xs rest -> (length rest < length bs)%nat).

Lemma mk_map_rest f xs r i rest : mk_map f xs r = Ok i rest -> rest = r.
Proof. intros H. apply mk_map_ok in H. destruct H as (? & _ & _ & ->). reflexivity. Qed.

Lemma shr_all : forall fuel, Shr fuel.
Proof.
  induction fuel as [|fu (IHp & IHn & IHi)].
  { repeat split; intros; discriminate. }
  split; [|split].
  - intros bs i rest H. destruct bs as [|b r]; [discriminate|]. rewrite parse_S in H. cbn [length].
    remember (b / 32) as mt eqn:Emt. remember (b mod 32) as ai eqn:Eai. clear Emt Eai.
    destruct (N.eq_dec ai 31) as [->|H31].
    + rewrite body_indef in H.
      destruct (mt =? 2).
      { apply bind_ok in H. destruct H as (cs & r1 & Ec & H). injection H as _ <-.
        apply parse_chunks_shrinks in Ec. lia. }
      destruct (mt =? 3).
      { apply bind_ok in H. destruct H as (cs & r1 & Ec & H). injection H as _ <-.
        apply parse_chunks_shrinks in Ec. lia. }
      destruct (mt =? 4).
      { apply bind_ok in H. destruct H as (xs & r1 & Ec & H). injection H as _ <-. apply IHi in Ec. lia. }
      destruct (mt =? 5); [|discriminate].
      { apply bind_ok in H. destruct H as (xs & r1 & Ec & H). apply mk_map_rest in H. subst. apply IHi in Ec. lia. }
    + rewrite body_def in H by exact H31.
      apply bind_ok in H. destruct H as ([f n] & r1 & Ea & H). cbn [fst snd] in H. apply read_arg_len in Ea.
      destruct (mt =? 0). { injection H as _ <-. lia. }
      destruct (mt =? 1). { injection H as _ <-. lia. }
      destruct (mt =? 2).
      { unfold take_str in H. destruct (take n r1) as [[s r2]|] eqn:Et; [|discriminate]. injection H as _ <-.
        apply take_len in Et. lia. }
      destruct (mt =? 3).
      { unfold take_str in H. destruct (take n r1) as [[s r2]|] eqn:Et; [|discriminate]. injection H as _ <-.
        apply take_len in Et. lia. }
      destruct (mt =? 4).
      { apply bind_ok in H. destruct H as (xs & r2 & Ec & H). injection H as _ <-. apply IHn in Ec. lia. }
      destruct (mt =? 5).
      { apply bind_ok in H. destruct H as (xs & r2 & Ec & H). apply mk_map_rest in H. subst. apply IHn in Ec. lia. }
      destruct (mt =? 6).
      { apply bind_ok in H. destruct H as (x & r2 & Ec & H). injection H as _ <-. apply IHp in Ec. lia. }
      destruct (mt =? 7); [|discriminate].
      { destruct f; cbn [mk_simple] in H; try (injection H as _ <-; lia).
        destruct (n <? 32); [discriminate|]. injection H as _ <-. lia. }
  - intros k bs xs rest H. cbn [parse_n] in H.
    destruct (k =? 0). { injection H as _ <-. lia. }
    apply bind_ok in H. destruct H as (x & r1 & Ex & H).
    apply bind_ok in H. destruct H as (xs' & r2 & Exs & H). injection H as _ <-.
    apply IHp in Ex. apply IHn in Exs. lia.
  - intros bs xs rest H. destruct bs as [|b r]; [discriminate|]. cbn [parse_indef] in H.
    destruct (b =? 255). { injection H as _ <-. cbn [length]. lia. }
    apply bind_ok in H. destruct H as (x & r1 & Ex & H).
    apply bind_ok in H. destruct H as (xs' & r2 & Exs & H). injection H as _ <-.
    apply IHp in Ex. apply IHi in Exs. lia.
Qed.

Theorem parse_consumed fuel bs i rest : parse fuel bs = Ok i rest -> (length rest < length bs)%nat.
Proof. exact (proj1 (shr_all fuel) bs i rest). Qed.

(* ---- independence of the fuel ---- *)
Lemma parse_chunks_stable mt : forall f1 f2 bs, (length bs < f1)%nat -> (f1 <= f2)%nat ->
  parse_chunks f2 mt bs = parse_chunks f1 mt bs.
Proof.
  induction f1 as [|fu IH]; intros f2 bs H1 H2; [lia|].
  destruct f2 as [|fu2]; [lia|]. destruct bs as [|b r]; [reflexivity|]. cbn [parse_chunks]. cbn [length] in H1.
  destruct (b =? 255); [reflexivity|].
  destruct (negb (b / 32 =? mt) || (b mod 32 =? 31)); [reflexivity|].
  destruct (read_arg (b mod 32) r) as [[f n] r1| |] eqn:Ea; [|reflexivity|reflexivity]. cbn [bind fst snd].
  destruct (take n r1) as [[s r2]|] eqn:Et; [|reflexivity].
  apply read_arg_len in Ea. apply take_len in Et.
  rewrite (IH fu2 r2) by lia. reflexivity.
Qed.

Lemma body_ext p pn pi pc p' pn' pi' pc' mt ai r :
  (forall r1, (length r1 <= length r)%nat -> p r1 = p' r1) ->
  (forall k r1, (length r1 <= length r)%nat -> pn k r1 = pn' k r1) ->
  pi r = pi' r -> (forall m, pc m r = pc' m r) ->
  body p pn pi pc mt ai r = body p' pn' pi' pc' mt ai r.
Proof.
  intros Hp Hn Hi Hc. unfold body.
  destruct (ai =? 31).
  { rewrite Hi, !Hc. reflexivity. }
  destruct (read_arg ai r) as [[f n] r1| |] eqn:Ea; [|reflexivity|reflexivity].
  apply read_arg_len in Ea. cbn [bind fst snd].
  rewrite !(Hn _ r1 Ea), (Hp r1 Ea). reflexivity.
Qed.

Definition Stable (f1 : nat) : Prop := forall f2, (f1 <= f2)%nat ->
  (forall bs, (2 * length bs + 1 <= f1)%nat -> parse f2 bs = parse f1 bs) /\
  (forall k bs, (2 * length bs + 2 <= f1)%nat -> parse_n f2 k bs = parse_n f1 k bs) /\
  (forall bs, (2 * length bs + 2 <= f1)%nat -> parse_indef f2 bs = parse_indef f1 bs).

Lemma stable_all : forall f1, Stable f1.
Proof.
  induction f1 as [|fu IH]; intros f2 H2.
  { repeat split; intros; lia. }
  destruct f2 as [|fu2]; [lia|].
  destruct (IH fu2 ltac:(lia)) as (IHp & IHn & IHi).
  split; [|split].
  - intros bs Hb. destruct bs as [|b r]; [reflexivity|]. rewrite !parse_S. cbn [length] in Hb.
    apply body_ext.
    + intros r1 Hr. apply IHp. lia.
    + intros k r1 Hr. apply IHn. lia.
    + apply IHi. lia.
    + intros m. apply parse_chunks_stable; lia.
  - intros k bs Hb. cbn [parse_n]. destruct (k =? 0); [reflexivity|].
    rewrite IHp by lia. destruct (parse fu bs) as [x r1| |] eqn:Ex; [|reflexivity|reflexivity]. cbn [bind].
    apply parse_consumed in Ex. rewrite IHn by lia. reflexivity.
  - intros bs Hb. destruct bs as [|b r]; [reflexivity|]. cbn [parse_indef].
    destruct (b =? 255); [reflexivity|].
    rewrite IHp by lia. destruct (parse fu (b :: r)) as [x r1| |] eqn:Ex; [|reflexivity|reflexivity]. cbn [bind].
    apply parse_consumed in Ex. rewrite IHi by lia. reflexivity.
Qed.

Theorem parse_fuel_indep bs f1 f2 : (fuel_for bs <= f1)%nat -> (fuel_for bs <= f2)%nat -> parse f1 bs = parse f2 bs.
Proof.
  intros H1 H2. unfold fuel_for in *.
  rewrite (proj1 (stable_all (fuel_for bs) f1 H1) bs) by (unfold fuel_for; lia).
  rewrite (proj1 (stable_all (fuel_for bs) f2 H2) bs) by (unfold fuel_for; lia).
  reflexivity.
Qed.

(* ---- the fuel measure is below the length bound ---- *)
Lemma enc_len_pos i : (1 <= length (enc i))%nat.
Proof.
  destruct i as [f n|f n|f bs|cs|f bs|cs|[f|] xs|[f|] kvs|f t x|f v|f v]; cbn [enc enc_head app length];
    try rewrite app_length; cbn [length]; lia.
Qed.

Lemma chunks_len mt cs : (length cs <= length (flat_map (enc_chunk mt) cs))%nat.
Proof.
  induction cs as [|c r IH]; cbn [flat_map length]; [lia|].
  rewrite app_length. unfold enc_chunk at 1. rewrite app_length, enc_head_length. lia.
Qed.

Definition Pneed (i : item) : Prop := (need i <= S (2 * length (enc i)))%nat.

Lemma needl_le xs : Forall Pneed xs -> (needl xs <= 2 * length (flat_map enc xs) + 2)%nat.
Proof.
  induction 1 as [|x r Hx _ IH]; cbn [needl flat_map length]; [lia|].
  rewrite app_length. unfold Pneed in Hx. pose proof (enc_len_pos x). lia.
Qed.

Theorem need_le_len : forall i, (need i <= S (2 * length (enc i)))%nat.
Proof.
  induction i as [f n|f n|f bs|cs|f bs|cs|f xs IHxs|f kvs IHkvs|f t x IHx|f v|f v] using item_ind'.
  - pose proof (enc_len_pos (UInt f n)); cbn [need]; lia.
  - pose proof (enc_len_pos (NInt f n)); cbn [need]; lia.
  - pose proof (enc_len_pos (BStr f bs)); cbn [need]; lia.
  - cbn [need enc app length]. rewrite app_length. pose proof (chunks_len 2 cs). cbn [length]. lia.
  - pose proof (enc_len_pos (TStr f bs)); cbn [need]; lia.
  - cbn [need enc app length]. rewrite app_length. pose proof (chunks_len 3 cs). cbn [length]. lia.
  - rewrite need_arr. pose proof (needl_le xs IHxs). destruct f as [f|].
    + rewrite enc_arr_def, app_length, enc_head_length. lia.
    + rewrite enc_arr_indef. cbn [length]. rewrite app_length. cbn [length]. lia.
  - rewrite need_map. pose proof (needl_le (unpair kvs) IHkvs). destruct f as [f|].
    + rewrite enc_map_def, app_length, enc_head_length. lia.
    + rewrite enc_map_indef. cbn [length]. rewrite app_length. cbn [length]. lia.
  - cbn [need]. rewrite enc_tag, app_length, enc_head_length. unfold Pneed in IHx. lia.
  - pose proof (enc_len_pos (Simple f v)); cbn [need]; lia.
  - pose proof (enc_len_pos (Float f v)); cbn [need]; lia.
Qed.
