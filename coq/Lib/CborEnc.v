(* parse_enc: parsing the encoding of a well-formed item gives the item back
   (every constructor, unbounded nesting). *)
From V Require Import Lib.Base Lib.Cbor Lib.CborParse Lib.CborLemmas.
Local Open Scope N_scope.

Definition Penc (i : item) : Prop :=
  wf i -> forall fuel rest, (need i <= fuel)%nat -> parse fuel (enc i ++ rest) = Ok i rest.

Lemma parse_n_enc xs : Forall Penc xs -> Forall wf xs -> forall fuel rest, (needl xs <= fuel)%nat ->
  parse_n fuel (N.of_nat (length xs)) (flat_map enc xs ++ rest) = Ok xs rest.
Proof.
  induction xs as [|x r IH]; intros HP Hw fuel rest Hfuel.
  - destruct fuel as [|fu]; [cbn in Hfuel; lia|]. reflexivity.
  - inversion HP as [|? ? Hx Hr]; subst. inversion Hw as [|? ? Wx Wr]; subst.
    destruct fuel as [|fu]; [cbn in Hfuel; lia|].
    cbn [needl] in Hfuel.
    rewrite parse_n_step by (cbn [length]; lia).
    cbn [flat_map]. rewrite <- app_assoc.
    rewrite (Hx Wx fu _) by lia. cbn [bind].
    replace (N.of_nat (length (x :: r)) - 1) with (N.of_nat (length r)) by (cbn [length]; lia).
    rewrite (IH Hr Wr fu rest) by lia. reflexivity.
Qed.

Lemma parse_indef_enc xs : Forall Penc xs -> Forall wf xs -> forall fuel rest, (needl xs <= fuel)%nat ->
  parse_indef fuel (flat_map enc xs ++ 255 :: rest) = Ok xs rest.
Proof.
  induction xs as [|x r IH]; intros HP Hw fuel rest Hfuel.
  - destruct fuel as [|fu]; [cbn in Hfuel; lia|]. reflexivity.
  - inversion HP as [|? ? Hx Hr]; subst. inversion Hw as [|? ? Wx Wr]; subst.
    destruct fuel as [|fu]; [cbn in Hfuel; lia|].
    cbn [needl] in Hfuel.
    cbn [flat_map]. rewrite <- app_assoc.
    destruct (enc_first x Wx) as (b & t & Eb & Hb).
    assert (Hbs : enc x ++ flat_map enc r ++ 255 :: rest = b :: (t ++ flat_map enc r ++ 255 :: rest))
      by (rewrite Eb; reflexivity).
    rewrite Hbs. rewrite parse_indef_step by exact Hb. rewrite <- Hbs.
    rewrite (Hx Wx fu _) by lia. cbn [bind].
    rewrite (IH Hr Wr fu rest) by lia. reflexivity.
Qed.

Lemma chunk_head mt f (s : bytes) tail : enc_chunk mt (f, s) ++ tail =
  (mt * 32 + ai_of f (N.of_nat (length s))) :: be (nbytes f) (N.of_nat (length s)) ++ s ++ tail.
Proof. unfold enc_chunk, enc_head. cbn [app fst snd]. rewrite <- app_assoc. reflexivity. Qed.

Lemma parse_chunks_step fu mt f (s : bytes) tail : mt < 7 -> fits f (N.of_nat (length s)) ->
  parse_chunks (S fu) mt (enc_chunk mt (f, s) ++ tail) =
  bind (parse_chunks fu mt tail) (fun cs r3 => Ok ((f, s) :: cs) r3).
Proof.
  intros Hm Hc. rewrite chunk_head. cbn [parse_chunks].
  remember (N.of_nat (length s)) as n eqn:En.
  destruct (hd_decomp mt (ai_of f n) (ai_lt _ _ Hc)) as [E1 E2].
  pose proof (ai_lt _ _ Hc) as Hlt. pose proof (ai_ne31 _ _ Hc) as H31.
  destruct (N.eqb_spec (mt * 32 + ai_of f n) 255) as [E'|_]; [lia|].
  rewrite E1, E2. rewrite N.eqb_refl.
  destruct (N.eqb_spec (ai_of f n) 31) as [E'|_]; [contradiction|].
  cbn [negb orb]. rewrite read_arg_enc by exact Hc. cbn [bind fst snd].
  subst n. rewrite take_app. reflexivity.
Qed.

Lemma parse_chunks_enc mt cs : mt < 7 -> Forall chunk_ok cs -> forall fuel rest, (length cs < fuel)%nat ->
  parse_chunks fuel mt (flat_map (enc_chunk mt) cs ++ 255 :: rest) = Ok cs rest.
Proof.
  intros Hm. induction cs as [|c r IH]; intros Hw fuel rest Hfuel.
  - destruct fuel as [|fu]; [cbn in Hfuel; lia|]. reflexivity.
  - inversion Hw as [|? ? Wc Wr]; subst.
    destruct fuel as [|fu]; [cbn in Hfuel; lia|]. cbn [length] in Hfuel.
    cbn [flat_map]. rewrite <- app_assoc.
    destruct c as [f s]. rewrite parse_chunks_step by (auto; apply Wc).
    rewrite (IH Wr fu rest) by lia. reflexivity.
Qed.

Theorem parse_enc_all : forall i, Penc i.
Proof.
  induction i as [f n|f n|f bs|cs|f bs|cs|f xs IHxs|f kvs IHkvs|f t x IHx|f v|f v] using item_ind';
    intros Hw fuel rest Hfuel.
  - (* UInt *) destruct fuel as [|fu]; [cbn in Hfuel; lia|].
    cbn [enc]. rewrite parse_head_ok by exact Hw. reflexivity.
  - (* NInt *) destruct fuel as [|fu]; [cbn in Hfuel; lia|].
    cbn [enc]. rewrite parse_head_ok by exact Hw. reflexivity.
  - (* BStr *) destruct fuel as [|fu]; [cbn in Hfuel; lia|].
    cbn [enc]. rewrite <- app_assoc. rewrite parse_head_ok by apply Hw. cbn [N.eqb Pos.eqb].
    unfold take_str. rewrite take_app. reflexivity.
  - (* BStrI *) destruct fuel as [|fu]; [cbn in Hfuel; lia|].
    cbn [enc app need] in *. rewrite parse_S. change (95 / 32) with 2. change (95 mod 32) with 31.
    rewrite body_indef. cbn [N.eqb Pos.eqb]. rewrite <- app_assoc. cbn [app].
    rewrite parse_chunks_enc by (auto; lia). reflexivity.
  - (* TStr *) destruct fuel as [|fu]; [cbn in Hfuel; lia|].
    cbn [enc]. rewrite <- app_assoc. rewrite parse_head_ok by apply Hw. cbn [N.eqb Pos.eqb].
    unfold take_str. rewrite take_app. reflexivity.
  - (* TStrI *) destruct fuel as [|fu]; [cbn in Hfuel; lia|].
    cbn [enc app need] in *. rewrite parse_S. change (127 / 32) with 3. change (127 mod 32) with 31.
    rewrite body_indef. cbn [N.eqb Pos.eqb]. rewrite <- app_assoc. cbn [app].
    rewrite parse_chunks_enc by (auto; lia). reflexivity.
  - (* Arr *) apply wf_arr in Hw. destruct Hw as [Hf Hxs]. rewrite need_arr in Hfuel.
    destruct fuel as [|fu]; [lia|]. destruct f as [f|].
    + rewrite enc_arr_def, <- app_assoc. rewrite parse_head_ok by exact Hf. cbn [N.eqb Pos.eqb].
      rewrite parse_n_enc by (auto; lia). reflexivity.
    + rewrite enc_arr_indef. cbn [app]. rewrite parse_S. change (159 / 32) with 4. change (159 mod 32) with 31.
      rewrite body_indef. cbn [N.eqb Pos.eqb]. rewrite <- app_assoc. cbn [app].
      rewrite parse_indef_enc by (auto; lia). reflexivity.
  - (* Map *) apply wf_map in Hw. destruct Hw as [Hf Hxs]. rewrite need_map in Hfuel.
    destruct fuel as [|fu]; [lia|]. destruct f as [f|].
    + rewrite enc_map_def, <- app_assoc. rewrite parse_head_ok by exact Hf. cbn [N.eqb Pos.eqb].
      replace (2 * N.of_nat (length kvs)) with (N.of_nat (length (unpair kvs))) by (rewrite unpair_length; lia).
      rewrite parse_n_enc by (auto; lia). cbn [bind]. unfold mk_map. rewrite pairs_unpair. reflexivity.
    + rewrite enc_map_indef. cbn [app]. rewrite parse_S. change (191 / 32) with 5. change (191 mod 32) with 31.
      rewrite body_indef. cbn [N.eqb Pos.eqb]. rewrite <- app_assoc. cbn [app].
      rewrite parse_indef_enc by (auto; lia). cbn [bind]. unfold mk_map. rewrite pairs_unpair. reflexivity.
  - (* Tag *) destruct Hw as [Hf Hx]. cbn [need] in Hfuel. destruct fuel as [|fu]; [lia|].
    rewrite enc_tag, <- app_assoc. rewrite parse_head_ok by exact Hf. cbn [N.eqb Pos.eqb].
    rewrite (IHx Hx fu rest) by lia. reflexivity.
  - (* Simple *) destruct fuel as [|fu]; [cbn in Hfuel; lia|].
    cbn [enc]. rewrite parse_head_ok by (apply wf_simple_fits; exact Hw). cbn [N.eqb Pos.eqb].
    destruct f; cbn [wf] in Hw; try contradiction; cbn [mk_simple]; [reflexivity|].
    destruct (N.ltb_spec v 32); [lia|reflexivity].
  - (* Float *) destruct fuel as [|fu]; [cbn in Hfuel; lia|].
    cbn [enc]. rewrite parse_head_ok by (apply wf_float_fits; exact Hw). cbn [N.eqb Pos.eqb].
    destruct f; cbn [wf] in Hw; try contradiction; reflexivity.
Qed.

Theorem parse_enc_need i fuel rest : wf i -> (need i <= fuel)%nat -> parse fuel (enc i ++ rest) = Ok i rest.
Proof. intros Hw Hf. exact (parse_enc_all i Hw fuel rest Hf). Qed.
