(* Byte-level CBOR (RFC 8949) syntax that keeps every encoding choice, so
   that well-formed items are in bijection with well-formed byte strings.
   This file: the item type, well-formedness and the encoder.  The parser
   is in Lib/CborParse.v, its theorems in Lib/CborProofs.v. *)
From V Require Import Lib.Base.
Local Open Scope N_scope.

(* width of the argument that follows the initial byte *)
Inductive form := Fimm | F1 | F2 | F4 | F8.

Inductive item :=
| UInt (f : form) (n : N)                      (* major 0 *)
| NInt (f : form) (n : N)                      (* major 1, value -1-n *)
| BStr (f : form) (bs : bytes)                 (* major 2, definite *)
| BStrI (chunks : list (form * bytes))         (* major 2, indefinite: definite chunks *)
| TStr (f : form) (bs : bytes)                 (* major 3, definite (UTF-8 not checked here) *)
| TStrI (chunks : list (form * bytes))
| Arr (f : option form) (xs : list item)       (* major 4; None = indefinite *)
| Map (f : option form) (kvs : list (item * item)) (* major 5 *)
| Tag (f : form) (t : N) (x : item)            (* major 6 *)
| Simple (f : form) (v : N)                    (* major 7, ai < 24 (Fimm) or 24 (F1): false 20 true 21 null 22 undef 23 *)
| Float (f : form) (bits : N).                 (* major 7, ai 25/26/27: raw IEEE bits, f in F2 F4 F8 *)

Definition fits (f : form) (n : N) : Prop :=
  match f with Fimm => n < 24 | F1 => n < 2^8 | F2 => n < 2^16 | F4 => n < 2^32 | F8 => n < 2^64 end.
Definition fitsb (f : form) (n : N) : bool :=
  match f with Fimm => n <? 24 | F1 => n <? 2^8 | F2 => n <? 2^16 | F4 => n <? 2^32 | F8 => n <? 2^64 end.

Definition nbytes (f : form) : nat := match f with Fimm => 0 | F1 => 1 | F2 => 2 | F4 => 4 | F8 => 8 end.
Definition ai_of (f : form) (n : N) : N := match f with Fimm => n | F1 => 24 | F2 => 25 | F4 => 26 | F8 => 27 end.

Definition len_ok (f : form) {A} (l : list A) : Prop := fits f (N.of_nat (length l)).
Definition chunk_ok (c : form * bytes) : Prop := len_ok (fst c) (snd c) /\ all_bytes (snd c).

Fixpoint wf (i : item) : Prop :=
  match i with
  | UInt f n | NInt f n => fits f n
  | BStr f bs | TStr f bs => len_ok f bs /\ all_bytes bs
  | BStrI cs | TStrI cs => Forall chunk_ok cs
  | Arr f xs =>
      (match f with Some f => len_ok f xs | None => True end) /\
      (fix all (l : list item) := match l with [] => True | x :: r => wf x /\ all r end) xs
  | Map f kvs =>
      (match f with Some f => len_ok f kvs | None => True end) /\
      (fix all (l : list (item * item)) := match l with [] => True | (k, v) :: r => wf k /\ wf v /\ all r end) kvs
  | Tag f t x => fits f t /\ wf x
  | Simple f v => match f with Fimm => v < 24 | F1 => 32 <= v < 256 | _ => False end
  | Float f bits => match f with F2 | F4 | F8 => fits f bits | _ => False end
  end.

(* big-endian bytes of n on k bytes (snoc recursion: short proofs) *)
Fixpoint be (k : nat) (n : N) : bytes :=
  match k with O => [] | S k' => be k' (n / 256) ++ [n mod 256] end.

Definition enc_head (mt : N) (f : form) (n : N) : bytes :=
  (mt * 32 + ai_of f n) :: be (nbytes f) n.

Definition enc_chunk (mt : N) (c : form * bytes) : bytes :=
  enc_head mt (fst c) (N.of_nat (length (snd c))) ++ snd c.

Fixpoint enc (i : item) : bytes :=
  match i with
  | UInt f n => enc_head 0 f n
  | NInt f n => enc_head 1 f n
  | BStr f bs => enc_head 2 f (N.of_nat (length bs)) ++ bs
  | BStrI cs => [95] ++ flat_map (enc_chunk 2) cs ++ [255]
  | TStr f bs => enc_head 3 f (N.of_nat (length bs)) ++ bs
  | TStrI cs => [127] ++ flat_map (enc_chunk 3) cs ++ [255]
  | Arr (Some f) xs => enc_head 4 f (N.of_nat (length xs)) ++ flat_map enc xs
  | Arr None xs => [159] ++ flat_map enc xs ++ [255]
  | Map (Some f) kvs => enc_head 5 f (N.of_nat (length kvs)) ++ flat_map (fun kv => enc (fst kv) ++ enc (snd kv)) kvs
  | Map None kvs => [191] ++ flat_map (fun kv => enc (fst kv) ++ enc (snd kv)) kvs ++ [255]
  | Tag f t x => enc_head 6 f t ++ enc x
  | Simple f v => enc_head 7 f v
  | Float f bits => enc_head 7 f bits
  end.

(* the minimal (canonical) form for an argument *)
Definition min_form (n : N) : form :=
  if n <? 24 then Fimm else if n <? 2^8 then F1 else if n <? 2^16 then F2 else if n <? 2^32 then F4 else F8.

(* size of an array/map header as it actually occurs *)
Definition hdr_size (f : option form) : nat := match f with Some f => S (nbytes f) | None => 1 end.
