(* Symbolic hash terms.  Executable models never compute a digest: they
   return the preimage structure; the harness evaluates it with the Go
   library and compares with what the implementation reported.  Theorems
   take the hash functions as Section variables, so they hold for every
   hash function. *)
From Coq Require Import String Ascii.
From V Require Import Lib.Base Lib.Hex.
Local Open Scope N_scope.

(* alg: 0 = blake2b-256, 1 = blake2b-224, 2 = sha3-256, 3 = sha-512 ... *)
Inductive hterm :=
| HB (bs : bytes)
| HH (alg : N) (parts : list hterm).

Section eval.
  Variable H : N -> bytes -> bytes.
  Fixpoint heval (t : hterm) : bytes :=
    match t with
    | HB bs => bs
    | HH alg parts => H alg (flat_map heval parts)
    end.
End eval.

Local Open Scope string_scope.
Fixpoint hser (t : hterm) : string :=
  match t with
  | HB bs => "B" ++ to_hex bs ++ ";"
  | HH alg parts => "H" ++ dec alg ++ "(" ++ fold_right (fun p acc => hser p ++ acc) ")" parts
  end.
