(* parse_sound: whatever the parser accepts is exactly the encoding of a
   well-formed item followed by the returned rest (induction on fuel). *)
From V Require Import Lib.Base Lib.Cbor Lib.CborParse Lib.CborLemmas.
Local Open Scope N_scope.

Lemma bind_ok {A B} (r : res A) (k : A -> bytes -> res B) b rest :
  bind r k = Ok b rest -> exists a r1, r = Ok a r1 /\ k a r1 = Ok b rest.
Proof. destruct r; cbn; intros; eauto; discriminate. Qed.

Lemma all_bytes_app (a b : bytes) : all_bytes (a ++ b) -> all_bytes a /\ all_bytes b.
Proof. apply Forall_app. Qed.

Lemma head_eq b mt f n tail : b = mt * 32 + ai_of f n -> b :: be (nbytes f) n ++ tail = enc_head mt f n ++ tail.
Proof. intros ->. reflexivity. Qed.

Lemma byte_split b : b < 256 -> b = (b / 32) * 32 + b mod 32 /\ b / 32 < 8 /\ b mod 32 < 32.
Proof. intros. repeat split; lia. Qed.

Lemma parse_chunks_sound mt : mt < 7 -> forall fuel bs cs rest, all_bytes bs ->
  parse_chunks fuel mt bs = Ok cs rest ->
  bs = flat_map (enc_chunk mt) cs ++ 255 :: rest /\ Forall chunk_ok cs.
Proof.
  intros Hm. induction fuel as [|fu IH]; intros bs cs rest Hb H; [discriminate|].
  destruct bs as [|b r]; [discriminate|]. cbn [parse_chunks] in H.
  inversion Hb as [|? ? Hb0 Hr]; subst. unfold is_byte in Hb0.
  destruct (N.eqb_spec b 255) as [->|Hn].
  { injection H as <- <-. split; [reflexivity|constructor]. }
  destruct (N.eqb_spec (b / 32) mt) as [Em|]; [|discriminate].
  destruct (N.eqb_spec (b mod 32) 31) as [|H31]; [discriminate|]. cbn [negb orb] in H.
  apply bind_ok in H. destruct H as ([f n] & r1 & Ea & H). cbn [fst snd] in H.
  destruct (read_arg_sound _ _ _ _ _ Hr Ea) as (Er & Eai & Hfit).
  destruct (take n r1) as [[s r2]|] eqn:Et; [|discriminate].
  apply bind_ok in H. destruct H as (cs' & r3 & Ec & H). injection H as <- <-.
  apply take_sound in Et. destruct Et as [-> En].
  subst r. apply all_bytes_app in Hr. destruct Hr as [_ Hr]. apply all_bytes_app in Hr. destruct Hr as [Hs Hr2].
  destruct (IH _ _ _ Hr2 Ec) as [-> Hcs].
  split.
  - cbn [flat_map]. change (enc_chunk mt (f, s)) with (enc_head mt f (N.of_nat (length s)) ++ s).
    rewrite En. rewrite <- !app_assoc.
    apply head_eq. destruct (byte_split b Hb0) as (E & _ & _). lia.
  - constructor; [|exact Hcs]. split; [|exact Hs]. unfold len_ok. cbn [fst snd]. rewrite En. exact Hfit.
Qed.

Definition Sound (fuel : nat) : Prop :=
  (forall bs i rest, all_bytes bs -> parse fuel bs = Ok i rest -> bs = enc i ++ rest /\ wf i) /\
  (forall k bs xs rest, all_bytes bs -> parse_n fuel k bs = Ok xs rest ->
     bs = flat_map enc xs ++ rest /\ Forall wf xs /\ N.of_nat (length xs) = k) /\
  (forall bs xs rest, all_bytes bs -> parse_indef fuel bs = Ok xs rest ->
     bs = flat_map enc xs ++ 255 :: rest /\ Forall wf xs).

Lemma mk_map_ok f xs r i rest : mk_map f xs r = Ok i rest -> exists kvs, xs = unpair kvs /\ i = Map f kvs /\ rest = r.
Proof.
  unfold mk_map. destruct (pairs xs) as [kvs|] eqn:E; [|discriminate]. intros H. injection H as <- <-.
  exists kvs. apply pairs_sound in E. auto.
Qed.

Lemma sound_all : forall fuel, Sound fuel.
Proof.
  induction fuel as [|fu (IHp & IHn & IHi)].
  { repeat split; intros; discriminate. }
  split; [|split].
  - (* parse *)
    intros bs i rest Hb H. destruct bs as [|b r]; [discriminate|]. rewrite parse_S in H.
    inversion Hb as [|? ? Hb0 Hr]; subst. unfold is_byte in Hb0.
    destruct (byte_split b Hb0) as (Eb & Hmt & Hai).
    remember (b / 32) as mt eqn:Emt. remember (b mod 32) as ai eqn:Eai. clear Emt Eai.
    destruct (N.eq_dec ai 31) as [->|H31].
    + rewrite body_indef in H.
      destruct (N.eqb_spec mt 2) as [M|M2].
      { subst mt. apply bind_ok in H. destruct H as (cs & r1 & Ec & H). injection H as <- <-.
        destruct (parse_chunks_sound 2 ltac:(lia) _ _ _ _ Hr Ec) as [-> Hcs].
        split; [|exact Hcs]. cbn [enc app]. rewrite <- app_assoc. subst b. reflexivity. }
      destruct (N.eqb_spec mt 3) as [M|M3].
      { subst mt. apply bind_ok in H. destruct H as (cs & r1 & Ec & H). injection H as <- <-.
        destruct (parse_chunks_sound 3 ltac:(lia) _ _ _ _ Hr Ec) as [-> Hcs].
        split; [|exact Hcs]. cbn [enc app]. rewrite <- app_assoc. subst b. reflexivity. }
      destruct (N.eqb_spec mt 4) as [M|M4].
      { subst mt. apply bind_ok in H. destruct H as (xs & r1 & Ec & H). injection H as <- <-.
        destruct (IHi _ _ _ Hr Ec) as [-> Hxs].
        split; [|apply wf_arr; split; [exact I|exact Hxs]].
        rewrite enc_arr_indef. cbn [app]. rewrite <- app_assoc. subst b. reflexivity. }
      destruct (N.eqb_spec mt 5) as [M|M5]; [|discriminate].
      { subst mt. apply bind_ok in H. destruct H as (xs & r1 & Ec & H).
        apply mk_map_ok in H. destruct H as (kvs & -> & -> & ->).
        destruct (IHi _ _ _ Hr Ec) as [-> Hxs].
        split; [|apply wf_map; split; [exact I|exact Hxs]].
        rewrite enc_map_indef. cbn [app]. rewrite <- app_assoc. subst b. reflexivity. }
    + rewrite body_def in H by exact H31.
      apply bind_ok in H. destruct H as ([f n] & r1 & Ea & H). cbn [fst snd] in H.
      destruct (read_arg_sound _ _ _ _ _ Hr Ea) as (Er & Eai & Hfit).
      subst r. apply all_bytes_app in Hr. destruct Hr as [_ Hr1].
      assert (Hhd : forall m, mt = m -> b = m * 32 + ai_of f n) by (intros; subst; lia).
      destruct (N.eqb_spec mt 0) as [M|M0].
      { injection H as <- <-. split; [|exact Hfit]. cbn [enc]. rewrite <- (app_nil_r (enc_head 0 f n)).
        rewrite <- app_assoc. apply head_eq. auto. }
      destruct (N.eqb_spec mt 1) as [M|M1].
      { injection H as <- <-. split; [|exact Hfit]. cbn [enc]. rewrite <- (app_nil_r (enc_head 1 f n)).
        rewrite <- app_assoc. apply head_eq. auto. }
      destruct (N.eqb_spec mt 2) as [M|M2].
      { unfold take_str in H. destruct (take n r1) as [[s r2]|] eqn:Et; [|discriminate]. injection H as <- <-.
        apply take_sound in Et. destruct Et as [-> En]. apply all_bytes_app in Hr1. destruct Hr1 as [Hs _].
        split; [|split; [unfold len_ok; rewrite En; exact Hfit|exact Hs]].
        cbn [enc]. rewrite En, <- app_assoc. apply head_eq. auto. }
      destruct (N.eqb_spec mt 3) as [M|M3].
      { unfold take_str in H. destruct (take n r1) as [[s r2]|] eqn:Et; [|discriminate]. injection H as <- <-.
        apply take_sound in Et. destruct Et as [-> En]. apply all_bytes_app in Hr1. destruct Hr1 as [Hs _].
        split; [|split; [unfold len_ok; rewrite En; exact Hfit|exact Hs]].
        cbn [enc]. rewrite En, <- app_assoc. apply head_eq. auto. }
      destruct (N.eqb_spec mt 4) as [M|M4].
      { apply bind_ok in H. destruct H as (xs & r2 & Ec & H). injection H as <- <-.
        destruct (IHn _ _ _ _ Hr1 Ec) as (-> & Hxs & En).
        split; [|apply wf_arr; split; [unfold hdr_ok, len_ok; rewrite En; exact Hfit|exact Hxs]].
        rewrite enc_arr_def, En, <- app_assoc. apply head_eq. auto. }
      destruct (N.eqb_spec mt 5) as [M|M5].
      { apply bind_ok in H. destruct H as (xs & r2 & Ec & H).
        apply mk_map_ok in H. destruct H as (kvs & -> & -> & ->).
        destruct (IHn _ _ _ _ Hr1 Ec) as (-> & Hxs & En).
        rewrite unpair_length in En. assert (En' : N.of_nat (length kvs) = n) by lia.
        split; [|apply wf_map; split; [unfold hdr_ok, len_ok; rewrite En'; exact Hfit|exact Hxs]].
        rewrite enc_map_def, En', <- app_assoc. apply head_eq. auto. }
      destruct (N.eqb_spec mt 6) as [M|M6].
      { apply bind_ok in H. destruct H as (x & r2 & Ec & H). injection H as <- <-.
        destruct (IHp _ _ _ Hr1 Ec) as (-> & Hx).
        split; [|split; [exact Hfit|exact Hx]].
        rewrite enc_tag, <- app_assoc. apply head_eq. auto. }
      destruct (N.eqb_spec mt 7) as [M|M7]; [|discriminate].
      { assert (Hs : forall m, enc_head 7 f m ++ rest = (enc_head 7 f m ++ []) ++ rest) by (intros; rewrite app_nil_r; reflexivity).
        destruct f; cbn [mk_simple] in H.
        - injection H as <- <-. split; [|exact Hfit]. cbn [enc]. rewrite <- (app_nil_r (enc_head 7 _ n)).
          rewrite <- app_assoc. apply head_eq. auto.
        - destruct (N.ltb_spec n 32) as [|Hge]; [discriminate|]. injection H as <- <-.
          split; [|cbn in Hfit |- *; lia]. cbn [enc]. rewrite <- (app_nil_r (enc_head 7 _ n)).
          rewrite <- app_assoc. apply head_eq. auto.
        - injection H as <- <-. split; [|exact Hfit]. cbn [enc]. rewrite <- (app_nil_r (enc_head 7 _ n)).
          rewrite <- app_assoc. apply head_eq. auto.
        - injection H as <- <-. split; [|exact Hfit]. cbn [enc]. rewrite <- (app_nil_r (enc_head 7 _ n)).
          rewrite <- app_assoc. apply head_eq. auto.
        - injection H as <- <-. split; [|exact Hfit]. cbn [enc]. rewrite <- (app_nil_r (enc_head 7 _ n)).
          rewrite <- app_assoc. apply head_eq. auto. }
  - (* parse_n *)
    intros k bs xs rest Hb H. cbn [parse_n] in H.
    destruct (N.eqb_spec k 0) as [->|Hk].
    { injection H as <- <-. repeat split; auto. }
    apply bind_ok in H. destruct H as (x & r1 & Ex & H).
    apply bind_ok in H. destruct H as (xs' & r2 & Exs & H). injection H as <- <-.
    destruct (IHp _ _ _ Hb Ex) as [-> Hx]. apply all_bytes_app in Hb. destruct Hb as [_ Hb1].
    destruct (IHn _ _ _ _ Hb1 Exs) as (-> & Hxs & En).
    repeat split.
    + cbn [flat_map]. rewrite <- app_assoc. reflexivity.
    + constructor; assumption.
    + cbn [length]. lia.
  - (* parse_indef *)
    intros bs xs rest Hb H. destruct bs as [|b r]; [discriminate|]. cbn [parse_indef] in H.
    destruct (N.eqb_spec b 255) as [->|Hn].
    { injection H as <- <-. split; [reflexivity|constructor]. }
    apply bind_ok in H. destruct H as (x & r1 & Ex & H).
    apply bind_ok in H. destruct H as (xs' & r2 & Exs & H). injection H as <- <-.
    destruct (IHp _ _ _ Hb Ex) as [E Hx]. rewrite E in Hb. apply all_bytes_app in Hb. destruct Hb as [_ Hb1].
    destruct (IHi _ _ _ Hb1 Exs) as (-> & Hxs).
    split.
    + rewrite E. cbn [flat_map]. rewrite <- app_assoc. reflexivity.
    + constructor; assumption.
Qed.

Theorem parse_sound_fuel fuel bs i rest : all_bytes bs -> parse fuel bs = Ok i rest -> bs = enc i ++ rest /\ wf i.
Proof. intros Hb H. exact (proj1 (sound_all fuel) bs i rest Hb H). Qed.
