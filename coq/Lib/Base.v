(* Shared setup: arithmetic automation and small list facts.  Stdlib only. *)
From Coq Require Export ZArith NArith List Lia Bool Arith.
From Coq Require Export ZifyBool ZifyNat ZifyN.
Export ListNotations.
Ltac Zify.zify_post_hook ::= Z.div_mod_to_equations.

Arguments N.add : simpl never.
Arguments N.mul : simpl never.
Arguments N.sub : simpl never.
Arguments N.div : simpl never.
Arguments N.modulo : simpl never.
Arguments N.pow : simpl never.
Arguments Z.add : simpl never.
Arguments Z.mul : simpl never.
Arguments Z.sub : simpl never.
Arguments Z.div : simpl never.
Arguments Z.modulo : simpl never.
Arguments Z.pow : simpl never.

(* A byte is an N below 256; byte strings are lists of N. *)
Definition bytes := list N.
Definition is_byte (b : N) : Prop := (b < 256)%N.
Definition all_bytes (l : bytes) : Prop := Forall is_byte l.

(* indices of the cases on which a boolean check fails *)
Fixpoint failing_from {A} (chk : A -> bool) (i : nat) (l : list A) : list nat :=
  match l with
  | [] => []
  | x :: r => if chk x then failing_from chk (S i) r else i :: failing_from chk (S i) r
  end.
Definition failing {A} (chk : A -> bool) (l : list A) : list nat := failing_from chk 0 l.

Lemma failing_from_nil {A} (chk : A -> bool) l : forall i,
  failing_from chk i l = [] -> forall x, In x l -> chk x = true.
Proof.
  induction l as [|a r IH]; intros i H x Hin; [destruct Hin|].
  cbn [failing_from] in H. destruct (chk a) eqn:E; [|discriminate].
  destruct Hin as [->|Hin]; [exact E|]. eapply IH; eauto.
Qed.

Definition list_eqb {A} (eqb : A -> A -> bool) : list A -> list A -> bool :=
  fix go l1 l2 := match l1, l2 with
  | [], [] => true
  | x :: r1, y :: r2 => eqb x y && go r1 r2
  | _, _ => false end.

Lemma list_eqb_eq {A} (eqb : A -> A -> bool)
  (H : forall x y, eqb x y = true <-> x = y) l1 : forall l2,
  list_eqb eqb l1 l2 = true <-> l1 = l2.
Proof.
  induction l1 as [|x r IH]; intros [|y r2]; cbn; split; intros E; try congruence; try discriminate.
  - apply andb_true_iff in E. destruct E as [E1 E2]. apply H in E1. apply IH in E2. congruence.
  - inversion E; subst. apply andb_true_iff. split; [apply H|apply IH]; reflexivity.
Qed.

Definition bytes_eqb : bytes -> bytes -> bool := list_eqb N.eqb.
Lemma bytes_eqb_eq l1 l2 : bytes_eqb l1 l2 = true <-> l1 = l2.
Proof. apply list_eqb_eq. intros; apply N.eqb_eq. Qed.

Definition opt_eqb {A} (eqb : A -> A -> bool) (a b : option A) : bool :=
  match a, b with Some x, Some y => eqb x y | None, None => true | _, _ => false end.
