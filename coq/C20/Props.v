(* C20 - property theorems only.  `known`, `list_*`, `gen_samples` are the
   tables regenerated from the tree (Gen.v). *)
From V Require Import Lib.Base Lib.Cbor C20.Model C20.Codec C20.Gen C20.Proofs.
Local Open Scope N_scope.

(* The node-to-client list contains only node-to-client versions (bit 15 set),
   the node-to-node list only node-to-node versions (bit 15 clear); the DMQ
   lists stay inside their own ranges; every list is strictly ascending; every
   listed version has a version-data decoder. *)
Theorem C20_lists :
  (forall v, In v list_ntc -> 32768 <= v /\ known_shape known v <> None) /\
  (forall v, In v list_ntn -> v < 32768 /\ known_shape known v <> None) /\
  (forall v, In v list_dmq_ntc -> 4096 <= v < 8192 /\ known_shape known v <> None) /\
  (forall v, In v list_dmq_ntn -> v < 4096 /\ known_shape known v <> None) /\
  ascending list_ntc /\ ascending list_ntn /\ ascending list_dmq_ntc /\ ascending list_dmq_ntn.
Proof.
  assert (L : forall t v, In v (list_of t) -> in_range t v = true /\ known_shape known v <> None).
  { intros t v H. split; [exact (listed_in_range t v H)|].
    rewrite (listed_shape t v H 0 false false false). discriminate. }
  split; [intros v H; destruct (L TNtC v H) as [R S]; split; [unfold in_range, ntc_offset in R; lia|exact S]|].
  split; [intros v H; destruct (L TNtN v H) as [R S]; split; [unfold in_range, ntc_offset in R; lia|exact S]|].
  split; [intros v H; destruct (L TDmqNtC v H) as [R S]; split; [unfold in_range, dmq_ntc_offset in R; lia|exact S]|].
  split; [intros v H; destruct (L TDmqNtN v H) as [R S]; split; [unfold in_range, dmq_ntc_offset in R; lia|exact S]|].
  split; [exact (listed_ascending TNtC)|]. split; [exact (listed_ascending TNtN)|].
  split; [exact (listed_ascending TDmqNtC)|exact (listed_ascending TDmqNtN)].
Qed.
Print Assumptions C20_lists.

(* The four lists are exactly the versions GetProtocolVersion knows, each in
   one list only, and each list is the key set of the map its generator
   returns. *)
Theorem C20_partition :
  (forall v, known_shape known v <> None -> exists t, In v (list_of t)) /\
  (forall t1 t2 v, In v (list_of t1) -> In v (list_of t2) -> t1 = t2) /\
  (forall t, genkeys_of t = list_of t /\ genkeys2_of t = list_of t).
Proof. split; [exact known_listed|split; [exact lists_disjoint|exact genkeys_eq]]. Qed.
Print Assumptions C20_partition.

(* Version data: for every version v of every table, every magic below 2^32
   and every combination of diffusion mode, peer sharing and query flag, the
   value the generator produces for v, encoded as the handshake encodes it,
   is decoded by v's own decoder to the very same value (so NetworkMagic,
   DiffusionMode, PeerSharing and Query all agree) - also when other bytes
   follow.  The second part states what those four answers are in terms of
   the parameters (which shapes carry which flag). *)
Theorem C20_vdata : forall t v, In v (list_of t) ->
  forall magic dm ps q rest, magic < 2 ^ 32 ->
  exists sh d,
    known_shape known v = Some sh /\
    decode sh (vd_enc (gen_vd t v magic dm ps q) ++ rest) = Some d /\
    d = gen_vd t v magic dm ps q /\
    vd_magic d = magic /\
    vd_dm d = (match t with TNtC | TDmqNtC => true | _ => dm end) /\
    vd_ps d = (match t with TNtN => (11 <=? v) && ps | TDmqNtN => ps | _ => false end) /\
    vd_query d = (match t with TNtC => (15 + ntc_offset <=? v) && q | TNtN => (11 <=? v) && q | _ => q end).
Proof.
  intros t v Hin magic dm ps q rest Hm.
  destruct (vdata_roundtrip t v Hin magic dm ps q rest) as (sh & Hs & Hd); [unfold u32max; lia|].
  exists sh, (gen_vd t v magic dm ps q). split; [exact Hs|]. split; [exact Hd|]. split; [reflexivity|].
  exact (gen_view t v magic dm ps q).
Qed.
Print Assumptions C20_vdata.

(* the round trip for arbitrary values of the five types, independent of the tables *)
Theorem C20_codec : forall d rest, vd_valid d -> decode (shape_of d) (vd_enc d ++ rest) = Some d.
Proof. exact decode_enc. Qed.
Print Assumptions C20_codec.

(* the model generator and encoder produce, byte for byte, what
   GetProtocolVersionMap* and cbor.Encode produced on this tree for every
   version x 6 magics x 8 flag combinations *)
Theorem C20_generator_tied : forall g, In g gen_samples ->
  vd_enc (gen_vd (g_tbl g) (g_ver g) (g_magic g) (g_dm g) (g_ps g) (g_q g)) = g_bytes g /\
  shape_of (gen_vd (g_tbl g) (g_ver g) (g_magic g) (g_dm g) (g_ps g) (g_q g)) = g_shape g.
Proof. exact samples_ok. Qed.
Print Assumptions C20_generator_tied.

(* Eras: the eras a version enables are a prefix of Shelley..Dijkstra, and
   within a table a higher version enables every era a lower one enables. *)
Theorem C20_eras :
  (forall v i j, (i <= j)%nat -> nth j (eras_of known v) false = true -> nth i (eras_of known v) false = true) /\
  (forall t v w, In v (list_of t) -> In w (list_of t) -> v <= w ->
     forall i, nth i (eras_of known v) false = true -> nth i (eras_of known w) false = true).
Proof. split; [exact eras_prefix|exact eras_monotone]. Qed.
Print Assumptions C20_eras.

(* non-vacuity *)
Example C20_nonvacuous_lists : In 32789 list_ntc /\ In 15 list_ntn /\ In 4097 list_dmq_ntc /\ In 2 list_dmq_ntn.
Proof. vm_compute. tauto. Qed.
Example C20_nonvacuous_eras : nth 6 (eras_of known 15) false = true /\ nth 6 (eras_of known 14) false = false.
Proof. vm_compute. tauto. Qed.
Example C20_nonvacuous_vdata :
  decode SNtN13 (vd_enc (gen_vd TNtN 14 764824073 true true true)) = Some (VNtN13 764824073 true 1 true).
Proof. vm_compute. reflexivity. Qed.
Example C20_samples_nonempty : (1000 <= length gen_samples)%nat.
Proof. vm_compute. lia. Qed.
