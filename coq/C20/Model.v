(* C20 - supported-version tables and version-data codecs.
   Model of protocol/versiondata.go (the five version-data types, their
   accessors, their CBOR encoding through cbor.Encode and their decoders
   NewVersionData*FromCbor) and of the generator functions of
   protocol/versions.go.  The tables themselves are in Gen.v (regenerated
   from the tree on every run).  NO proofs here. *)
From Coq Require Import String.
From V Require Import Lib.Base Lib.Hex Lib.Cbor.
Local Open Scope N_scope.

(* which NewVersionData*FromCbor function a version uses *)
Inductive shape := SNtC9 | SNtC15 | SNtN7 | SNtN11 | SNtN13 | SUnknown.

Definition shape_eqb (a b : shape) : bool :=
  match a, b with
  | SNtC9, SNtC9 | SNtC15, SNtC15 | SNtN7, SNtN7 | SNtN11, SNtN11 | SNtN13, SNtN13 | SUnknown, SUnknown => true
  | _, _ => false
  end.

(* type VersionDataNtC9to14 uint32
   type VersionDataNtC15andUp struct { CborNetworkMagic uint32; CborQuery bool }
   type VersionDataNtN7to10  struct { CborNetworkMagic uint32; CborInitiatorAndResponderDiffusionMode bool }
   type VersionDataNtN11to12 struct { magic uint32; dm bool; CborPeerSharing uint; CborQuery bool }
   type VersionDataNtN13andUp struct { VersionDataNtN11to12 } *)
Inductive vd :=
| VNtC9 (magic : N)
| VNtC15 (magic : N) (q : bool)
| VNtN7 (magic : N) (dm : bool)
| VNtN11 (magic : N) (dm : bool) (ps : N) (q : bool)
| VNtN13 (magic : N) (dm : bool) (ps : N) (q : bool).

Definition shape_of (d : vd) : shape :=
  match d with
  | VNtC9 _ => SNtC9 | VNtC15 _ _ => SNtC15 | VNtN7 _ _ => SNtN7
  | VNtN11 _ _ _ _ => SNtN11 | VNtN13 _ _ _ _ => SNtN13
  end.

(* the Go value ranges: uint32 magic, uint (64 bit) peer sharing *)
Definition u32max : N := 4294967295.
Definition u64max : N := 18446744073709551615.
Definition vd_valid (d : vd) : Prop :=
  match d with
  | VNtC9 m | VNtC15 m _ | VNtN7 m _ => m <= u32max
  | VNtN11 m _ ps _ | VNtN13 m _ ps _ => m <= u32max /\ ps <= u64max
  end.
Definition vd_validb (d : vd) : bool :=
  match d with
  | VNtC9 m | VNtC15 m _ | VNtN7 m _ => m <=? u32max
  | VNtN11 m _ ps _ | VNtN13 m _ ps _ => (m <=? u32max) && (ps <=? u64max)
  end.

(* the VersionData interface: NetworkMagic(), DiffusionMode(), PeerSharing(), Query() *)
Definition vd_magic (d : vd) : N :=
  match d with VNtC9 m | VNtC15 m _ | VNtN7 m _ | VNtN11 m _ _ _ | VNtN13 m _ _ _ => m end.
(* DiffusionModeInitiatorOnly = true is the constant answer of the NtC types *)
Definition vd_dm (d : vd) : bool :=
  match d with VNtC9 _ | VNtC15 _ _ => true | VNtN7 _ dm | VNtN11 _ dm _ _ | VNtN13 _ dm _ _ => dm end.
(* V11/12: CborPeerSharing != 0;  V13+: CborPeerSharing >= 1 *)
Definition vd_ps (d : vd) : bool :=
  match d with VNtN11 _ _ ps _ => negb (ps =? 0) | VNtN13 _ _ ps _ => 1 <=? ps | _ => false end.
Definition vd_query (d : vd) : bool :=
  match d with VNtC15 _ q | VNtN11 _ _ _ q | VNtN13 _ _ _ q => q | VNtC9 _ | VNtN7 _ _ => false end.

Definition vd_eqb (a b : vd) : bool :=
  match a, b with
  | VNtC9 m, VNtC9 m' => m =? m'
  | VNtC15 m q, VNtC15 m' q' => (m =? m') && Bool.eqb q q'
  | VNtN7 m d, VNtN7 m' d' => (m =? m') && Bool.eqb d d'
  | VNtN11 m d p q, VNtN11 m' d' p' q' => (m =? m') && Bool.eqb d d' && (p =? p') && Bool.eqb q q'
  | VNtN13 m d p q, VNtN13 m' d' p' q' => (m =? m') && Bool.eqb d d' && (p =? p') && Bool.eqb q q'
  | _, _ => false
  end.

(* ---- encoding: cbor.Encode(&versionData) - shortest integer heads,
   definite array of the struct fields (cbor.StructAsArray) ---------------- *)
Definition iu (n : N) : item := UInt (min_form n) n.
Definition ib (b : bool) : item := Simple Fimm (if b then 21 else 20).
Definition vd_item (d : vd) : item :=
  match d with
  | VNtC9 m => iu m
  | VNtC15 m q => Arr (Some Fimm) [iu m; ib q]
  | VNtN7 m dm => Arr (Some Fimm) [iu m; ib dm]
  | VNtN11 m dm ps q | VNtN13 m dm ps q => Arr (Some Fimm) [iu m; ib dm; iu ps; ib q]
  end.
Definition vd_enc (d : vd) : bytes := enc (vd_item d).

(* ---- decoding: cbor.Decode(data, &v) with fxamacker's rules for the
   destination types that occur here.  The decoder reads ONE item from the
   front of the input and ignores what follows.  Observed rules (probe +
   correspondence run):
     uintN field : major 0 in any of the five head forms, value <= max;
                   null (f6) / undefined (f7) leave the zero value;
                   a simple value other than false/true/null/undefined
                   (e0..f3, f8 20..f8 ff) is stored as its number
     bool field  : f4 / f5; null / undefined leave false
     struct      : array, definite in any head form or indefinite, with
                   exactly as many elements as fields; null / undefined
                   leave the zero struct
   NOT modelled: CBOR tags in front of a field (fxamacker skips most tags and
   converts bignums); the model rejects them, the generators do not produce
   them.  Everything else is a decode error. *)
Fixpoint rd (k : nat) (bs : bytes) (acc : N) : option (N * bytes) :=
  match k with
  | O => Some (acc, bs)
  | S k' => match bs with [] => None | b :: r => rd k' r (acc * 256 + b) end
  end.

(* argument of a head byte of major type with base [base] (0 for uint, 128 for arrays) *)
Definition rd_head (base b : N) (r : bytes) : option (N * bytes) :=
  if (base <=? b) && (b <? base + 24) then Some (b - base, r)
  else if b =? base + 24 then rd 1 r 0
  else if b =? base + 25 then rd 2 r 0
  else if b =? base + 26 then rd 4 r 0
  else if b =? base + 27 then rd 8 r 0
  else None.

Definition is_nil_byte (b : N) : bool := (b =? 246) || (b =? 247).

Definition dec_uint (max : N) (bs : bytes) : option (N * bytes) :=
  match bs with
  | [] => None
  | b :: r =>
    if is_nil_byte b then Some (0, r)
    else match rd_head 0 b r with
         | Some (n, r') => if n <=? max then Some (n, r') else None
         | None =>
           (* simple(0..19) in one byte, simple(32..255) in two: stored as a number *)
           if (224 <=? b) && (b <? 244) then Some (b - 224, r)
           else if b =? 248 then
             match r with
             | v :: r' => if (32 <=? v) && (v <? 256) then Some (v, r') else None
             | [] => None
             end
           else None
         end
  end.

Definition dec_bool (bs : bytes) : option (bool * bytes) :=
  match bs with
  | [] => None
  | b :: r =>
    if b =? 245 then Some (true, r)
    else if (b =? 244) || is_nil_byte b then Some (false, r)
    else None
  end.

(* array head: Some n = definite with n elements, None = indefinite *)
Definition dec_arr_head (bs : bytes) : option (option N * bytes) :=
  match bs with
  | [] => None
  | b :: r =>
    if b =? 159 then Some (None, r)
    else match rd_head 128 b r with
         | Some (n, r') => Some (Some n, r')
         | None => None
         end
  end.

(* after the n fields: the definite count must have been n / the break must follow *)
Definition dec_arr_end (h : option N) (n : N) (bs : bytes) : option bytes :=
  match h with
  | Some k => if k =? n then Some bs else None
  | None => match bs with b :: r => if b =? 255 then Some r else None | [] => None end
  end.

Definition starts_nil (bs : bytes) : bool :=
  match bs with b :: _ => is_nil_byte b | [] => false end.

(* struct { uint32; bool } *)
Definition dec2 (bs : bytes) : option (N * bool) :=
  if starts_nil bs then Some (0, false) else
  match dec_arr_head bs with
  | Some (h, r0) =>
    match dec_uint u32max r0 with
    | Some (m, r1) =>
      match dec_bool r1 with
      | Some (b, r2) => match dec_arr_end h 2 r2 with Some _ => Some (m, b) | None => None end
      | None => None
      end
    | None => None
    end
  | None => None
  end.

(* struct { uint32; bool; uint; bool } *)
Definition dec4 (bs : bytes) : option (N * bool * N * bool) :=
  if starts_nil bs then Some (0, false, 0, false) else
  match dec_arr_head bs with
  | Some (h, r0) =>
    match dec_uint u32max r0 with
    | Some (m, r1) =>
      match dec_bool r1 with
      | Some (d, r2) =>
        match dec_uint u64max r2 with
        | Some (p, r3) =>
          match dec_bool r3 with
          | Some (q, r4) => match dec_arr_end h 4 r4 with Some _ => Some (m, d, p, q) | None => None end
          | None => None
          end
        | None => None
        end
      | None => None
      end
    | None => None
    end
  | None => None
  end.

(* NewVersionDataNtC9to14FromCbor .. NewVersionDataNtN13andUpFromCbor *)
Definition decode (sh : shape) (bs : bytes) : option vd :=
  match sh with
  | SNtC9 => match dec_uint u32max bs with Some (m, _) => Some (VNtC9 m) | None => None end
  | SNtC15 => match dec2 bs with Some (m, q) => Some (VNtC15 m q) | None => None end
  | SNtN7 => match dec2 bs with Some (m, d) => Some (VNtN7 m d) | None => None end
  | SNtN11 => match dec4 bs with Some (m, d, p, q) => Some (VNtN11 m d p q) | None => None end
  | SNtN13 => match dec4 bs with Some (m, d, p, q) => Some (VNtN13 m d p q) | None => None end
  | SUnknown => None
  end.

(* ---- tables ---------------------------------------------------------------- *)
(* one entry of the union of protocolVersions / dmqProtocolVersionsNtC / dmqProtocolVersionsNtN
   as GetProtocolVersion(v) returns it: decoder, era flags Shelley..Dijkstra, other flags *)
Record ventry := mkV { v_num : N; v_shape : shape; v_eras : list bool; v_flags : list bool }.

Fixpoint lookup_v (tab : list ventry) (v : N) : option ventry :=
  match tab with
  | [] => None
  | e :: r => if v_num e =? v then Some e else lookup_v r v
  end.
(* GetProtocolVersion(v).NewVersionDataFromCborFunc, None = nil *)
Definition known_shape (tab : list ventry) (v : N) : option shape :=
  match lookup_v tab v with
  | Some e => match v_shape e with SUnknown => None | s => Some s end
  | None => None
  end.

Inductive tbl := TNtC | TNtN | TDmqNtC | TDmqNtN.

Definition ntc_offset : N := 32768.   (* ProtocolVersionNtCOffset = 0x8000 *)
Definition dmq_ntc_offset : N := 4096. (* ProtocolVersionDMQNtCOffset = 0x1000 *)

(* GetProtocolVersionMap / GetProtocolVersionMapDMQNtC / GetProtocolVersionMapDMQNtN:
   the value generated for version v *)
Definition psval13 (ps : bool) : N := if ps then 1 else 0.  (* PeerSharingModePeerSharingPublic *)
Definition psval11 (ps : bool) : N := if ps then 2 else 0.  (* PeerSharingModeV11PeerSharingPublic *)
Definition gen_vd (t : tbl) (v magic : N) (dm ps q : bool) : vd :=
  match t with
  | TNtC => if 15 + ntc_offset <=? v then VNtC15 magic q else VNtC9 magic
  | TNtN => if 13 <=? v then VNtN13 magic dm (psval13 ps) q
            else if 11 <=? v then VNtN11 magic dm (psval11 ps) q
            else VNtN7 magic dm
  | TDmqNtC => VNtC15 magic q
  | TDmqNtN => VNtN13 magic dm (psval13 ps) q
  end.

(* which numbers a list may contain *)
Definition in_range (t : tbl) (v : N) : bool :=
  match t with
  | TNtC => ntc_offset <=? v                                 (* bit 15 set (v < 2^16) *)
  | TNtN => v <? ntc_offset
  | TDmqNtC => (dmq_ntc_offset <=? v) && (v <? 2 * dmq_ntc_offset)   (* bit 12 set, below bit 13 *)
  | TDmqNtN => v <? dmq_ntc_offset
  end.

Record gsample := mkG { g_tbl : tbl; g_ver : N; g_magic : N; g_dm : bool; g_ps : bool; g_q : bool;
                        g_shape : shape; g_bytes : bytes }.

(* ---- checkers: each returns the offending entries ------------------------- *)
Definition offenders {A} (ok : A -> bool) (l : list A) : list A := filter (fun x => negb (ok x)) l.

Fixpoint adjacent {A} (l : list A) : list (A * A) :=
  match l with
  | a :: (b :: _) as r => (a, b) :: adjacent r
  | _ => []
  end.
Definition bad_ascending (l : list N) : list (N * N) := offenders (fun p => fst p <? snd p) (adjacent l).

Definition memb (v : N) (l : list N) : bool := existsb (N.eqb v) l.
Definition count (v : N) (l : list N) : nat := length (filter (N.eqb v) l).

(* eras enabled = a prefix of the era sequence: never false followed by true *)
Fixpoint is_prefix_flags (l : list bool) : bool :=
  match l with
  | [] => true
  | true :: r => is_prefix_flags r
  | false :: r => forallb negb r
  end.
Fixpoint flags_le (a b : list bool) : bool :=
  match a, b with
  | [], [] => true
  | x :: r, y :: s => implb x y && flags_le r s
  | _, _ => false
  end.
Definition eras_of (tab : list ventry) (v : N) : list bool :=
  match lookup_v tab v with Some e => v_eras e | None => [] end.

(* ---- correspondence of the decoders: one case = decoder, input, what the Go decoder returned *)
Definition case := (shape * bytes * option vd)%type.
Definition check_case (c : case) : bool :=
  match c with (sh, bs, obs) => opt_eqb vd_eqb (decode sh bs) obs end.
Definition mismatches := failing check_case.
