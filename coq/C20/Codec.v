(* C20 - the version-data round trip for every value of every shape
   (unbounded: all magics, all flags, any trailing bytes), and which decoder
   accepts which encoding.  Independent of the tables; also used by C18/C19. *)
From Coq Require Import String.
From V Require Import Lib.Base Lib.Hex Lib.Cbor C20.Model.
Local Open Scope N_scope.

(* ---- generic list facts -------------------------------------------------- *)
Lemma offenders_nil {A} (ok : A -> bool) l :
  offenders ok l = [] -> forall x, In x l -> ok x = true.
Proof.
  unfold offenders. induction l as [|a r IH]; intros H x Hin; [destruct Hin|].
  cbn [filter] in H. destruct (ok a) eqn:E; cbn [negb] in H; [|discriminate].
  destruct Hin as [->|Hin]; auto.
Qed.

Lemma memb_In v l : memb v l = true <-> In v l.
Proof.
  unfold memb. rewrite existsb_exists. split.
  - intros (x & Hin & E). apply N.eqb_eq in E. subst. exact Hin.
  - intros Hin. exists v. split; [exact Hin|apply N.eqb_refl].
Qed.

(* strictly ascending lists *)
Inductive ascending : list N -> Prop :=
| asc_nil : ascending []
| asc_one a : ascending [a]
| asc_cons a b r : a < b -> ascending (b :: r) -> ascending (a :: b :: r).

Lemma bad_ascending_nil l : bad_ascending l = [] -> ascending l.
Proof.
  unfold bad_ascending, offenders. induction l as [|a [|b r] IH]; intros H; try constructor.
  - cbn [adjacent filter fst snd] in H. destruct (a <? b) eqn:E; cbn [negb] in H; [lia|discriminate].
  - apply IH. cbn [adjacent filter fst snd] in H. destruct (a <? b) eqn:E; cbn [negb] in H; [exact H|discriminate].
Qed.

Lemma ascending_lt_head a l : ascending (a :: l) -> forall x, In x l -> a < x.
Proof.
  revert a. induction l as [|b r IH]; intros a H x Hin; [destruct Hin|].
  inversion H as [| |? ? ? Hab Hr]; subst. destruct Hin as [->|Hin]; [exact Hab|].
  specialize (IH b Hr x Hin). lia.
Qed.

(* ---- big-endian read-back -------------------------------------------------- *)
Lemma rd_be_gen : forall k j m s acc, m < 256 ^ N.of_nat k ->
  rd (k + j) (be k m ++ s) acc = rd j s (acc * 256 ^ N.of_nat k + m).
Proof.
  induction k as [|k IH]; intros j m s acc Hm.
  - change (256 ^ N.of_nat 0) with 1 in *. cbn [be app Nat.add]. f_equal. lia.
  - rewrite Nat2N.inj_succ, N.pow_succ_r' in *. cbn [be]. rewrite <- app_assoc.
    replace (S k + j)%nat with (k + S j)%nat by lia.
    rewrite IH by (apply N.div_lt_upper_bound; lia).
    cbn [app rd]. f_equal.
    set (P := 256 ^ N.of_nat k) in *.
    rewrite N.mul_add_distr_r, <- N.mul_assoc, (N.mul_comm P 256).
    pose proof (N.div_mod m 256 ltac:(lia)). lia.
Qed.

Lemma rd_be k m s : m < 256 ^ N.of_nat k -> rd k (be k m ++ s) 0 = Some (m, s).
Proof.
  intros H. replace k with (k + 0)%nat at 1 by lia. rewrite rd_be_gen by exact H.
  cbn [rd]. replace (0 * 256 ^ N.of_nat k + m) with m by lia. reflexivity.
Qed.

(* ---- heads ------------------------------------------------------------------ *)
Lemma rd_head_imm base b r : base <= b -> b < base + 24 -> rd_head base b r = Some (b - base, r).
Proof. intros H1 H2. unfold rd_head. replace ((base <=? b) && (b <? base + 24)) with true by lia. reflexivity. Qed.

Lemma rd_head_w base b r k : b = base + k -> 24 <= k <= 27 ->
  rd_head base b r = rd (if k =? 24 then 1%nat else if k =? 25 then 2%nat else if k =? 26 then 4%nat else 8%nat) r 0.
Proof.
  intros -> Hk. unfold rd_head.
  replace ((base <=? base + k) && (base + k <? base + 24)) with false by lia.
  replace (base + k =? base + 24) with (k =? 24) by lia.
  replace (base + k =? base + 25) with (k =? 25) by lia.
  replace (base + k =? base + 26) with (k =? 26) by lia.
  replace (base + k =? base + 27) with (k =? 27) by lia.
  destruct (k =? 24) eqn:E1; [reflexivity|].
  destruct (k =? 25) eqn:E2; [reflexivity|].
  destruct (k =? 26) eqn:E3; [reflexivity|].
  replace (k =? 27) with true by lia. reflexivity.
Qed.

Lemma enc_iu_cases n : n <= u64max ->
  (n < 24 /\ enc (iu n) = [n]) \/
  (exists k w, 24 <= k <= 27 /\ enc (iu n) = k :: be w n /\ n < 256 ^ N.of_nat w /\
               w = (if k =? 24 then 1%nat else if k =? 25 then 2%nat else if k =? 26 then 4%nat else 8%nat)).
Proof.
  intros Hn. unfold iu, min_form, u64max in *.
  destruct (n <? 24) eqn:E0.
  { left. split; [lia|]. cbn [enc]. unfold enc_head. cbn [ai_of nbytes be]. f_equal; lia. }
  right.
  destruct (n <? 2 ^ 8) eqn:E1; [exists 24, 1%nat; repeat split; try reflexivity; try lia|].
  destruct (n <? 2 ^ 16) eqn:E2; [exists 25, 2%nat; repeat split; try reflexivity; try lia|].
  destruct (n <? 2 ^ 32) eqn:E3; [exists 26, 4%nat; repeat split; try reflexivity; try lia|].
  exists 27, 8%nat; repeat split; try reflexivity; try lia.
Qed.

Lemma dec_uint_enc n max r : n <= max -> max <= u64max ->
  dec_uint max (enc (iu n) ++ r) = Some (n, r).
Proof.
  intros Hn Hmax. destruct (enc_iu_cases n ltac:(lia)) as [[Hlt ->]|(k & w & Hk & -> & Hw & Ew)].
  - cbn [app dec_uint]. replace (is_nil_byte n) with false by (unfold is_nil_byte; lia).
    rewrite rd_head_imm by lia. rewrite N.sub_0_r. replace (n <=? max) with true by lia. reflexivity.
  - cbn [app dec_uint]. replace (is_nil_byte k) with false by (unfold is_nil_byte; lia).
    rewrite (rd_head_w 0 k _ k) by lia. rewrite <- Ew. rewrite rd_be by exact Hw.
    replace (n <=? max) with true by lia. reflexivity.
Qed.

Lemma dec_bool_enc b r : dec_bool (enc (ib b) ++ r) = Some (b, r).
Proof. destruct b; reflexivity. Qed.

Lemma enc_arr2 a b : enc (Arr (Some Fimm) [a; b]) = 130 :: enc a ++ enc b.
Proof. cbn [enc flat_map length]. rewrite app_nil_r. reflexivity. Qed.
Lemma enc_arr4 a b c d : enc (Arr (Some Fimm) [a; b; c; d]) = 132 :: enc a ++ enc b ++ enc c ++ enc d.
Proof. cbn [enc flat_map length]. rewrite app_nil_r. reflexivity. Qed.

Lemma arr_head_130 r : dec_arr_head (130 :: r) = Some (Some 2, r).
Proof. reflexivity. Qed.
Lemma arr_head_132 r : dec_arr_head (132 :: r) = Some (Some 4, r).
Proof. reflexivity. Qed.

Lemma dec2_enc m b r : m <= u32max ->
  dec2 (enc (Arr (Some Fimm) [iu m; ib b]) ++ r) = Some (m, b).
Proof.
  intros Hm. rewrite enc_arr2. cbn [app]. rewrite <- app_assoc.
  unfold dec2. cbn [starts_nil]. change (is_nil_byte 130) with false. cbv iota.
  rewrite arr_head_130. rewrite dec_uint_enc by (unfold u32max, u64max in *; lia).
  rewrite dec_bool_enc. reflexivity.
Qed.

Lemma dec4_enc m d p q r : m <= u32max -> p <= u64max ->
  dec4 (enc (Arr (Some Fimm) [iu m; ib d; iu p; ib q]) ++ r) = Some (m, d, p, q).
Proof.
  intros Hm Hp. rewrite enc_arr4. cbn [app]. rewrite <- !app_assoc.
  unfold dec4. cbn [starts_nil]. change (is_nil_byte 132) with false. cbv iota.
  rewrite arr_head_132. rewrite dec_uint_enc by (unfold u32max, u64max in *; lia).
  rewrite dec_bool_enc. rewrite dec_uint_enc by lia. rewrite dec_bool_enc. reflexivity.
Qed.

(* the round trip: any valid value of any of the five types, encoded the way
   the handshake messages encode it, decodes with the decoder of its own type
   to the same value, whatever follows it *)
Theorem decode_enc d r : vd_valid d -> decode (shape_of d) (vd_enc d ++ r) = Some d.
Proof.
  destruct d as [m|m q|m dm|m dm ps q|m dm ps q]; cbn [vd_valid shape_of]; intros H;
    unfold vd_enc; cbn [vd_item decode].
  - rewrite dec_uint_enc by (unfold u32max, u64max in *; lia). reflexivity.
  - rewrite dec2_enc by exact H. reflexivity.
  - rewrite dec2_enc by exact H. reflexivity.
  - destruct H. rewrite dec4_enc by assumption. reflexivity.
  - destruct H. rewrite dec4_enc by assumption. reflexivity.
Qed.


(* ---- which decoder accepts which encoding ---------------------------------- *)
(* a decoder of another wire shape rejects the encoding (nothing following it,
   as inside a handshake message); a decoder of the same wire shape returns
   the same magic *)
Lemma dec_uint_arr2 max r : dec_uint max (130 :: r) = None.
Proof. reflexivity. Qed.
Lemma dec_uint_arr4 max r : dec_uint max (132 :: r) = None.
Proof. reflexivity. Qed.

Lemma dec_arr_head_uint n r : n <= u64max -> dec_arr_head (enc (iu n) ++ r) = None /\ starts_nil (enc (iu n) ++ r) = false.
Proof.
  intros Hn. destruct (enc_iu_cases n Hn) as [[Hlt ->]|(k & w & Hk & -> & Hw & Ew)]; cbn [app dec_arr_head starts_nil].
  - replace (n =? 159) with false by lia. unfold rd_head.
    replace ((128 <=? n) && (n <? 128 + 24)) with false by lia.
    replace (n =? 128 + 24) with false by lia. replace (n =? 128 + 25) with false by lia.
    replace (n =? 128 + 26) with false by lia. replace (n =? 128 + 27) with false by lia.
    split; [reflexivity|unfold is_nil_byte; lia].
  - replace (k =? 159) with false by lia. unfold rd_head.
    replace ((128 <=? k) && (k <? 128 + 24)) with false by lia.
    replace (k =? 128 + 24) with false by lia. replace (k =? 128 + 25) with false by lia.
    replace (k =? 128 + 26) with false by lia. replace (k =? 128 + 27) with false by lia.
    split; [reflexivity|unfold is_nil_byte; lia].
Qed.

Lemma dec2_uint n : n <= u64max -> dec2 (enc (iu n)) = None.
Proof.
  intros Hn. destruct (dec_arr_head_uint n [] Hn) as [H1 H2]. rewrite app_nil_r in *.
  unfold dec2. rewrite H2, H1. reflexivity.
Qed.
Lemma dec4_uint n : n <= u64max -> dec4 (enc (iu n)) = None.
Proof.
  intros Hn. destruct (dec_arr_head_uint n [] Hn) as [H1 H2]. rewrite app_nil_r in *.
  unfold dec4. rewrite H2, H1. reflexivity.
Qed.

Lemma dec2_arr4 m d p q : m <= u32max -> p <= u64max ->
  dec2 (enc (Arr (Some Fimm) [iu m; ib d; iu p; ib q])) = None.
Proof.
  intros Hm Hp. rewrite enc_arr4. unfold dec2. cbn [starts_nil]. change (is_nil_byte 132) with false. cbv iota.
  rewrite arr_head_132. rewrite dec_uint_enc by (unfold u32max, u64max in *; lia).
  rewrite dec_bool_enc. reflexivity.
Qed.

Lemma dec4_arr2 m b : m <= u32max ->
  dec4 (enc (Arr (Some Fimm) [iu m; ib b])) = None.
Proof.
  intros Hm. rewrite enc_arr2. unfold dec4. cbn [starts_nil]. change (is_nil_byte 130) with false. cbv iota.
  rewrite arr_head_130. rewrite dec_uint_enc by (unfold u32max, u64max in *; lia).
  replace (enc (ib b)) with (enc (ib b) ++ []) by apply app_nil_r.
  rewrite dec_bool_enc. reflexivity.
Qed.

Lemma dec2_enc0 m b : m <= u32max -> dec2 (enc (Arr (Some Fimm) [iu m; ib b])) = Some (m, b).
Proof. intros H. rewrite <- (app_nil_r (enc _)). apply dec2_enc. exact H. Qed.
Lemma dec4_enc0 m d p q : m <= u32max -> p <= u64max ->
  dec4 (enc (Arr (Some Fimm) [iu m; ib d; iu p; ib q])) = Some (m, d, p, q).
Proof. intros H1 H2. rewrite <- (app_nil_r (enc _)). apply dec4_enc; assumption. Qed.
Lemma dec_uint_enc0 n max : n <= max -> max <= u64max -> dec_uint max (enc (iu n)) = Some (n, []).
Proof. intros H1 H2. rewrite <- (app_nil_r (enc _)). apply dec_uint_enc; assumption. Qed.

(* whatever decoder is applied to the encoding of a valid value: if it
   accepts, the decoded magic is the encoded magic *)
Theorem decode_any_magic sh d pd : vd_valid d -> decode sh (vd_enc d) = Some pd -> vd_magic pd = vd_magic d.
Proof.
  intros Hv. unfold vd_enc.
  destruct d as [m|m q|m dm|m dm ps q|m dm ps q]; cbn [vd_valid vd_item vd_magic] in *;
    destruct sh; cbn [decode];
    try discriminate;
    try (rewrite dec_uint_enc0 by (unfold u32max, u64max in *; lia); intros H; inversion H; reflexivity);
    try (rewrite dec2_uint by (unfold u32max, u64max in *; lia); discriminate);
    try (rewrite dec4_uint by (unfold u32max, u64max in *; lia); discriminate);
    try (rewrite enc_arr2, dec_uint_arr2; discriminate);
    try (rewrite enc_arr4, dec_uint_arr4; discriminate);
    try (rewrite dec2_enc0 by exact Hv; intros H; inversion H; reflexivity);
    try (rewrite dec4_arr2 by exact Hv; discriminate);
    try (destruct Hv as [Hm Hp]; rewrite dec2_arr4 by assumption; discriminate);
    try (destruct Hv as [Hm Hp]; rewrite dec4_enc0 by assumption; intros H; inversion H; reflexivity).
Qed.
