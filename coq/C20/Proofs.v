(* C20 - the finite facts about the regenerated tables, by evaluation, and
   the version-data theorem over the tables. *)
From Coq Require Import String.
From V Require Import Lib.Base Lib.Hex Lib.Cbor C20.Model C20.Codec C20.Gen.
Local Open Scope N_scope.

(* ========================================================================== *)
(* finite facts about the regenerated tables (Gen.v).  Each checker returns
   the offending entries; `= []` is decided by evaluation; a broken table
   shows up as "unable to unify [] with [<offender>]". *)
Definition tbls : list tbl := [TNtC; TNtN; TDmqNtC; TDmqNtN].
Definition list_of (t : tbl) : list N :=
  match t with TNtC => list_ntc | TNtN => list_ntn | TDmqNtC => list_dmq_ntc | TDmqNtN => list_dmq_ntn end.
Definition genkeys_of (t : tbl) : list N :=
  match t with TNtC => genkeys_ntc | TNtN => genkeys_ntn | TDmqNtC => genkeys_dmq_ntc | TDmqNtN => genkeys_dmq_ntn end.
Definition genkeys2_of (t : tbl) : list N :=
  match t with TNtC => genkeys2_ntc | TNtN => genkeys2_ntn | TDmqNtC => genkeys2_dmq_ntc | TDmqNtN => genkeys2_dmq_ntn end.
Definition all_listed : list (tbl * N) := flat_map (fun t => map (pair t) (list_of t)) tbls.

Definition tbl_eqb (a b : tbl) : bool :=
  match a, b with TNtC, TNtC | TNtN, TNtN | TDmqNtC, TDmqNtC | TDmqNtN, TDmqNtN => true | _, _ => false end.

Lemma in_all_listed t v : In v (list_of t) -> In (t, v) all_listed.
Proof.
  intros H. apply in_flat_map. exists t. split; [destruct t; cbn; auto|]. apply in_map. exact H.
Qed.

Lemma shape_eqb_eq a b : shape_eqb a b = true -> a = b.
Proof. destruct a, b; cbn; congruence. Qed.

(* 1. ranges *)
Definition bad_range : list (tbl * N) := offenders (fun p => in_range (fst p) (snd p)) all_listed.
Lemma bad_range_nil : bad_range = [].
Proof. vm_compute. reflexivity. Qed.
Lemma listed_in_range t v : In v (list_of t) -> in_range t v = true.
Proof. intros H. exact (offenders_nil _ _ bad_range_nil (t, v) (in_all_listed t v H)). Qed.

(* 2. strictly ascending *)
Definition bad_asc : list (N * N) := flat_map (fun t => bad_ascending (list_of t)) tbls.
Lemma bad_asc_nil : bad_asc = [].
Proof. vm_compute. reflexivity. Qed.
Lemma listed_ascending t : ascending (list_of t).
Proof. apply bad_ascending_nil. destruct t; vm_compute; reflexivity. Qed.
Lemma known_ascending : ascending (map v_num known).
Proof. apply bad_ascending_nil. vm_compute. reflexivity. Qed.

(* 3. every listed version has a decoder, and it is the decoder of the type the generator produces *)
Definition shape_ok (p : tbl * N) : bool :=
  match known_shape known (snd p) with
  | Some s => shape_eqb s (shape_of (gen_vd (fst p) (snd p) 0 false false false))
  | None => false
  end.
Definition bad_shape : list (tbl * N) := offenders shape_ok all_listed.
Lemma bad_shape_nil : bad_shape = [].
Proof. vm_compute. reflexivity. Qed.

Lemma gen_shape_indep t v m dm ps q :
  shape_of (gen_vd t v m dm ps q) = shape_of (gen_vd t v 0 false false false).
Proof. destruct t; unfold gen_vd; repeat match goal with |- context [if ?c then _ else _] => destruct c end; reflexivity. Qed.

Lemma listed_shape t v : In v (list_of t) ->
  forall m dm ps q, known_shape known v = Some (shape_of (gen_vd t v m dm ps q)).
Proof.
  intros H m dm ps q. pose proof (offenders_nil _ _ bad_shape_nil (t, v) (in_all_listed t v H)) as E.
  unfold shape_ok in E. cbn [fst snd] in E. destruct (known_shape known v) as [s|]; [|discriminate].
  apply shape_eqb_eq in E. rewrite gen_shape_indep. congruence.
Qed.

(* 4. the lists partition the known versions *)
Definition bad_partition : list ventry :=
  offenders (fun e => Nat.eqb (count (v_num e) (map snd all_listed)) 1) known.
Lemma bad_partition_nil : bad_partition = [].
Proof. vm_compute. reflexivity. Qed.
Definition bad_overlap : list ((tbl * N) * (tbl * N)) :=
  offenders (fun pq => implb (snd (fst pq) =? snd (snd pq)) (tbl_eqb (fst (fst pq)) (fst (snd pq))))
            (flat_map (fun p => map (pair p) all_listed) all_listed).
Lemma bad_overlap_nil : bad_overlap = [].
Proof. vm_compute. reflexivity. Qed.
Definition bad_unlisted : list ventry :=
  offenders (fun e => memb (v_num e) (map snd all_listed)) known.
Lemma bad_unlisted_nil : bad_unlisted = [].
Proof. vm_compute. reflexivity. Qed.

Lemma lists_disjoint t1 t2 v : In v (list_of t1) -> In v (list_of t2) -> t1 = t2.
Proof.
  intros H1 H2.
  assert (Hin : In ((t1, v), (t2, v)) (flat_map (fun p => map (pair p) all_listed) all_listed)).
  { apply in_flat_map. exists (t1, v). split; [apply in_all_listed; exact H1|].
    apply in_map. apply in_all_listed. exact H2. }
  pose proof (offenders_nil _ _ bad_overlap_nil _ Hin) as E. cbn [fst snd] in E.
  rewrite N.eqb_refl in E. cbn [implb] in E. destruct t1, t2; cbn in E; congruence.
Qed.

Lemma lookup_v_in tab v e : lookup_v tab v = Some e -> In e tab /\ v_num e = v.
Proof.
  induction tab as [|a r IH]; cbn [lookup_v]; [discriminate|].
  destruct (v_num a =? v) eqn:E; intros H.
  - inversion H; subst. split; [left; reflexivity|lia].
  - destruct (IH H). split; [right|]; assumption.
Qed.

Lemma known_listed v : known_shape known v <> None -> exists t, In v (list_of t).
Proof.
  unfold known_shape. destruct (lookup_v known v) as [e|] eqn:L; [|congruence]. intros _.
  destruct (lookup_v_in _ _ _ L) as [Hin Hv].
  pose proof (offenders_nil _ _ bad_unlisted_nil e Hin) as M. cbn beta in M.
  apply memb_In in M. apply in_map_iff in M. destruct M as ((t, w) & Ew & Hin').
  cbn [snd] in Ew. subst w. exists t.
  apply in_flat_map in Hin'. destruct Hin' as (t' & _ & Hm). apply in_map_iff in Hm.
  destruct Hm as (x & Ex & Hx). inversion Ex; subst. exact Hx.
Qed.

(* 5. the key set of every generated map is the list, whatever the parameters *)
Lemma genkeys_eq t : genkeys_of t = list_of t /\ genkeys2_of t = list_of t.
Proof. destruct t; split; vm_compute; reflexivity. Qed.

(* 6. the model generator + encoder reproduce the bytes of the real generator + cbor.Encode *)
Definition sample_ok (g : gsample) : bool :=
  let d := gen_vd (g_tbl g) (g_ver g) (g_magic g) (g_dm g) (g_ps g) (g_q g) in
  bytes_eqb (vd_enc d) (g_bytes g) && shape_eqb (shape_of d) (g_shape g) && memb (g_ver g) (list_of (g_tbl g)).
Definition bad_samples : list gsample := offenders sample_ok gen_samples.
Lemma bad_samples_nil : bad_samples = [].
Proof. vm_compute. reflexivity. Qed.
Lemma samples_ok g : In g gen_samples ->
  vd_enc (gen_vd (g_tbl g) (g_ver g) (g_magic g) (g_dm g) (g_ps g) (g_q g)) = g_bytes g /\
  shape_of (gen_vd (g_tbl g) (g_ver g) (g_magic g) (g_dm g) (g_ps g) (g_q g)) = g_shape g.
Proof.
  intros H. pose proof (offenders_nil _ _ bad_samples_nil g H) as E. unfold sample_ok in E.
  apply andb_true_iff in E. destruct E as [E _]. apply andb_true_iff in E. destruct E as [E1 E2].
  split; [apply bytes_eqb_eq; exact E1|apply shape_eqb_eq; exact E2].
Qed.

(* 7. eras *)
Definition bad_prefix : list ventry :=
  offenders (fun e => is_prefix_flags (v_eras e) && Nat.eqb (length (v_eras e)) (length era_names)) known.
Lemma bad_prefix_nil : bad_prefix = [].
Proof. vm_compute. reflexivity. Qed.
Definition pairs_of (t : tbl) : list (N * N) := flat_map (fun v => map (pair v) (list_of t)) (list_of t).
Definition mono_ok (p : N * N) : bool :=
  implb (fst p <=? snd p) (flags_le (eras_of known (fst p)) (eras_of known (snd p))).
Definition bad_mono : list (N * N) := flat_map (fun t => offenders mono_ok (pairs_of t)) tbls.
Lemma bad_mono_nil : bad_mono = [].
Proof. vm_compute. reflexivity. Qed.

Lemma is_prefix_flags_spec l : is_prefix_flags l = true ->
  forall i j, (i <= j)%nat -> nth j l false = true -> nth i l false = true.
Proof.
  induction l as [|[|] r IH]; intros H i j Hij Hj.
  - destruct j; discriminate.
  - destruct i; [reflexivity|]. destruct j; [lia|]. cbn [nth] in *. apply (IH H i j); [lia|exact Hj].
  - cbn [is_prefix_flags] in H. exfalso. destruct j; [discriminate|]. cbn [nth] in Hj.
    rewrite forallb_forall in H. assert (In true r) as Hin.
    { rewrite <- Hj. apply nth_In. destruct (Nat.lt_ge_cases j (length r)) as [L|G]; [exact L|].
      rewrite nth_overflow in Hj by exact G. discriminate. }
    specialize (H _ Hin). discriminate.
Qed.

Lemma flags_le_spec a : forall b, flags_le a b = true ->
  forall i, nth i a false = true -> nth i b false = true.
Proof.
  induction a as [|x r IH]; intros [|y s] H i Hi; cbn [flags_le] in H; try discriminate.
  - destruct i; discriminate.
  - apply andb_true_iff in H. destruct H as [H1 H2]. destruct i; cbn [nth] in *.
    + subst x. exact H1.
    + eapply IH; eauto.
Qed.

Lemma eras_prefix v : forall i j, (i <= j)%nat ->
  nth j (eras_of known v) false = true -> nth i (eras_of known v) false = true.
Proof.
  unfold eras_of. destruct (lookup_v known v) as [e|] eqn:L.
  - destruct (lookup_v_in _ _ _ L) as [Hin _].
    pose proof (offenders_nil _ _ bad_prefix_nil e Hin) as E. cbn beta in E.
    apply andb_true_iff in E. destruct E as [E _]. apply is_prefix_flags_spec. exact E.
  - intros i j _ H. destruct j; discriminate.
Qed.

Lemma eras_monotone t v w : In v (list_of t) -> In w (list_of t) -> v <= w ->
  forall i, nth i (eras_of known v) false = true -> nth i (eras_of known w) false = true.
Proof.
  intros Hv Hw Hle.
  assert (Hin : In (v, w) (pairs_of t)).
  { apply in_flat_map. exists v. split; [exact Hv|]. apply in_map. exact Hw. }
  assert (E : mono_ok (v, w) = true).
  { apply (offenders_nil mono_ok (pairs_of t)); [|exact Hin].
    destruct t; vm_compute; reflexivity. }
  unfold mono_ok in E. cbn [fst snd] in E. replace (v <=? w) with true in E by lia. cbn [implb] in E.
  apply flags_le_spec. exact E.
Qed.

(* ---- the version-data theorem over the tables --------------------------- *)
Lemma gen_valid t v m dm ps q : m <= u32max -> vd_valid (gen_vd t v m dm ps q).
Proof.
  intros H. destruct t; unfold gen_vd; repeat match goal with |- context [if ?c then _ else _] => destruct c end;
    cbn [vd_valid]; try exact H; split; try exact H; destruct ps; unfold psval13, psval11, u64max; lia.
Qed.

Theorem vdata_roundtrip t v : In v (list_of t) -> forall m dm ps q rest, m <= u32max ->
  exists sh, known_shape known v = Some sh /\
             decode sh (vd_enc (gen_vd t v m dm ps q) ++ rest) = Some (gen_vd t v m dm ps q).
Proof.
  intros Hin m dm ps q rest Hm. exists (shape_of (gen_vd t v m dm ps q)). split.
  - apply listed_shape. exact Hin.
  - apply decode_enc. apply gen_valid. exact Hm.
Qed.

(* what the generated value answers to the four accessors, in terms of the parameters *)
Lemma gen_view t v m dm ps q :
  let d := gen_vd t v m dm ps q in
  vd_magic d = m /\
  vd_dm d = (match t with TNtC | TDmqNtC => true | _ => dm end) /\
  vd_ps d = (match t with TNtN => (11 <=? v) && ps | TDmqNtN => ps | _ => false end) /\
  vd_query d = (match t with TNtC => (15 + ntc_offset <=? v) && q | TNtN => (11 <=? v) && q | _ => q end).
Proof.
  destruct t; unfold gen_vd; cbn zeta.
  - destruct (15 + ntc_offset <=? v); cbn; auto.
  - destruct (13 <=? v) eqn:E13; [replace (11 <=? v) with true by lia|destruct (11 <=? v)]; destruct ps; cbn; auto.
  - cbn; auto.
  - destruct ps; cbn; auto.
Qed.
