(* C11/C12/C13 - correspondence cases: an observed history of the real engine
   (already translated into labels by the harness) is replayed through `step`;
   the model's logs are compared with the observed projections. *)
From V Require Import Lib.Base C11.Engine.
Local Open Scope N_scope.

Definition M (i t l : N) (g : list N) : msg := {| m_id := i; m_type := t; m_len := l; m_guards := g |}.

(* handler message ids, state after each transition, pendingRecvBytes after
   each change, ids of the messages on the wire, ids of the messages whose send
   transition was made (in that order), error delivered *)
Definition obs := (list N * list N * list N * list N * list N * bool)%type.
(* index of the state map, server role?, receive queue capacity, labels, observations *)
Definition case := (nat * bool * N * list label * obs)%type.

Fixpoint prefixb (a b : list N) : bool :=
  match a, b with
  | [], _ => true
  | x :: a', y :: b' => N.eqb x y && prefixb a' b'
  | _, [] => false
  end.

(* the model says a loop is about to call SendError but the history ended
   (after quiescence) without that call *)
Definition pending_failure (s : st) : bool :=
  match sph (sn s) with SFail => true | _ => false end ||
  match rph (rc s) with RFail => true | _ => false end ||
  match lph (rc s) with LFail _ => true | _ => false end.

Definition diag (maps : list (statemap * N)) (k : consts) (cs : case) : N :=
  let '(i, srv, rq, ls, (oh, os, op, ow, ot, oe)) := cs in
  match nth_error maps i with
  | None => 9
  | Some (sm, s0) =>
    let r := if srv : bool then RServer else RClient in
    match run_at sm r s0 rq k 0 (init sm r s0) ls with
    | inr i => 1000 + N.of_nat i
    | inl s =>
      if negb (list_eqb N.eqb (map (fun e => m_id (snd e)) (hlog (lg s))) oh) then 1
      else if negb (list_eqb N.eqb (map (fun e : tentry => snd e) (tlog (lg s))) os) then 2
      else if negb (list_eqb N.eqb (plog (lg s)) op) then 3
      else if negb (prefixb ow (map m_id (wire_log (lg s)))) then 4
      else if negb (Bool.eqb (err (fl s)) oe) then 5
      else if pending_failure s then 6
      else if negb (list_eqb N.eqb (map m_id (strans_log (lg s))) ot) then 7
      else 0
    end
  end.
Definition diags_of maps k (cs : list case) : list N := map (diag maps k) cs.

(* ---- liveness probe (C13): histories recorded after the harness waited the
   hang bound with an idle consumer.  If the history itself is accepted and
   all projections agree (diag = 0), the final model state must not have an
   enabled readLoop step that only waits for room: a message decoded and held
   by readLoop (RAdmit) whose admission guard holds (C13_backpressure_progress)
   must have been admitted by then.  Code 8 = the implementation is stalled
   where the specification can move. *)
Definition reader_can_move sm r s0 rq k (s : st) : bool :=
  match rph (rc s) with
  | RAdmit _ _ => match step sm r s0 rq k s Admit with Some _ => true | None => false end
  | _ => false
  end.
Definition diag_live (maps : list (statemap * N)) (k : consts) (cs : case) : N :=
  match diag maps k cs with
  | 0 =>
    let '(i, srv, rq, ls, _) := cs in
    match nth_error maps i with
    | None => 9
    | Some (sm, s0) =>
      let r := if srv : bool then RServer else RClient in
      match run_at sm r s0 rq k 0 (init sm r s0) ls with
      | inl s => if reader_can_move sm r s0 rq k s then 8 else 0
      | inr _ => 9
      end
    end
  | d => d
  end.
Definition diags_live_of maps k (cs : list case) : list N := map (diag_live maps k) cs.
