(* C11 - property theorems.  Every statement quantifies over the state map,
   the role, the initial state, the queue capacity, the constants and the label
   list: every schedule of the engine's goroutines and every peer input. *)
From V Require Import Lib.Base C11.Engine C11.EngineProofs C11.AfterError C11.Model C11.Gen.
Local Open Scope N_scope.

(* exactly one agency token exists while some side has agency (none in a
   terminal state), and it is on the side `agency sm cur` names: in that
   side's ready channel or held by that side's loop *)
Theorem C11_token_inv : forall sm r s0 rqcap k ls s,
  run sm r s0 rqcap k (init sm r s0) ls = Some s ->
  ntokens (c s) = match agency_of sm (cur (c s)) with ANone => 0%nat | _ => 1%nat end /\
  sendTok (c s) || sendHeld (c s) = ours r (agency_of sm (cur (c s))) /\
  recvTok (c s) || recvHeld (c s) = theirs r (agency_of sm (cur (c s))).
Proof.
  intros. pose proof (token_inv sm r s0 rqcap k ls s H) as T.
  split; [apply (token_count sm r); exact T|]. destruct T as (A & B & _). auto.
Qed.
Print Assumptions C11_token_inv.

(* every handler invocation is for a message that was checked in a state in
   which the peer has agency and which permits the message *)
Theorem C11_handler_sound : forall sm r s0 rqcap k ls s,
  run sm r s0 rqcap k (init sm r s0) ls = Some s ->
  Forall (fun e => theirs r (agency_of sm (fst e)) = true /\ next sm (fst e) (snd e) <> None) (hlog (lg s)).
Proof. exact handler_sound. Qed.
Print Assumptions C11_handler_sound.

(* ... and that state is the one current at the moment the message is
   processed (the Handle step), recvLoop holding the only token *)
Theorem C11_handle_moment : forall sm r s0 rqcap k ls s s' m q,
  run sm r s0 rqcap k (init sm r s0) ls = Some s ->
  lph (rc s) = LWaitMsg -> recvq (rc s) = m :: q -> step sm r s0 rqcap k s Handle = Some s' ->
  theirs r (agency_of sm (cur (c s))) = true /\ sendTok (c s) = false /\ sendHeld (c s) = false /\
  match next sm (cur (c s)) m with
  | Some n => lph (rc s') = LAccepted m (cur (c s)) /\ cur (c s') = n
  | None => lph (rc s') = LFail [m] /\ hlog (lg s') = hlog (lg s) /\ c s' = c s
  end.
Proof. exact handle_moment. Qed.

(* a message the current state does not permit: recvLoop stops (LFail), the
   message never reaches the handler in any continuation, and recvLoop's only
   next action reports the error and stops the protocol *)
Theorem C11_reject : forall sm r s0 rqcap k ls s m q,
  run sm r s0 rqcap k (init sm r s0) ls = Some s ->
  lph (rc s) = LWaitMsg -> recvq (rc s) = m :: q -> next sm (cur (c s)) m = None ->
  exists s', step sm r s0 rqcap k s Handle = Some s' /\ lph (rc s') = LFail [m] /\
    (forall ls' s'', run sm r s0 rqcap k s' ls' = Some s'' -> hlog (lg s'') = hlog (lg s)) /\
    (forall l s'', step sm r s0 rqcap k s' l = Some s'' ->
       lph (rc s'') = LFail [m] \/ ((exists full, l = SendError GRecv full) /\ lph (rc s'') = LDead [m])) /\
    (forall s'', stopped (fl s') = false -> step sm r s0 rqcap k s' (SendError GRecv false) = Some s'' ->
       err (fl s'') = true /\ stopped (fl s'') = true).
Proof.
  intros sm r s0 rqcap k ls s m q Hr HL HQ HN.
  assert (E : exists s', step sm r s0 rqcap k s Handle = Some s').
  { destr_st s. cbn in *. subst. unfold do_handle. cbn. rewrite HN. eauto. }
  destruct E as (s' & E). exists s'. split; [exact E|].
  destruct (handle_moment sm r s0 rqcap k ls s s' m q Hr HL HQ E) as (_ & _ & _ & HM).
  rewrite HN in HM. destruct HM as (F & HH & _).
  split; [exact F|]. split; [|split].
  - intros ls' s'' R. destruct (recv_stopped_frozen sm r s0 rqcap k ls' s' s'') as (_ & L); auto.
    + rewrite F. reflexivity.
    + congruence.
  - intros l s'' S. eapply lfail_next; eauto.
  - intros s'' ST S. eapply lfail_error; eauto.
Qed.
Print Assumptions C11_reject.

(* after the first error raised on the receive side (refused message or handler
   error) - and after recvLoop has returned for any reason - the handler log is
   constant.  PARTIAL with respect to the property text: for an error reported
   by ANOTHER goroutine (readLoop decode error, sendLoop, timeout) the Go
   selects do not give priority to stopChan, so the model (like the code) lets
   recvLoop finish messages that are already queued; those calls are still
   covered by C11_handler_sound. *)
Theorem C11_after_error_partial : forall sm r s0 rqcap k ls s s',
  recv_stopped (lph (rc s)) = true -> run sm r s0 rqcap k s ls = Some s' ->
  recv_stopped (lph (rc s')) = true /\ hlog (lg s') = hlog (lg s).
Proof. exact recv_stopped_frozen. Qed.
Theorem C11_handler_error_stops : forall sm r s0 rqcap k s s' m,
  lph (rc s) = LInHandler m -> step sm r s0 rqcap k s (HandlerRet HErr) = Some s' ->
  recv_stopped (lph (rc s')) = true.
Proof.
  intros sm r s0 rqcap k s s' m HL HS. destr_st s. cbn in *. subst.
  unfold do_handler_ret in HS; cbn in HS. inversion HS; subst; reflexivity.
Qed.
Print Assumptions C11_after_error_partial.

(* errors raised by the OTHER goroutines (readLoop decode error, sendLoop error,
   state timeout) and an external Stop: in the strict model `stepS` - the engine
   model plus the Go fact that no transition request can be accepted once
   stopChan is closed (C11/AfterError.v) - after the stop no state transition
   happens any more and at most ONE more message reaches the handler: the one
   whose state-machine check had already been passed (its call was imminent).
   Every strict run is a run of the engine model, so all other theorems apply. *)
Theorem C11_after_error : forall sm r s0 rqcap k ls s s',
  stopped (fl s) = true -> runS sm r s0 rqcap k s ls = Some s' ->
  stopped (fl s') = true /\ tlog (lg s') = tlog (lg s) /\
  exists extra, hlog (lg s') = hlog (lg s) ++ extra /\ (extra = [] \/ extra = accepted_pending (lph (rc s))).
Proof. exact after_stop. Qed.
Theorem C11_strict_refines : forall sm r s0 rqcap k ls s s',
  runS sm r s0 rqcap k s ls = Some s' -> run sm r s0 rqcap k s ls = Some s'.
Proof. exact runS_refines. Qed.
Print Assumptions C11_after_error.

(* the theorems hold for every exported state map of the repository (they hold
   for every map; this only records the instantiation with the generated tables) *)
Theorem C11_all_protocols : Forall (fun p => forall r rqcap ls s,
  run (fst p) r (snd p) rqcap consts_gen (init (fst p) r (snd p)) ls = Some s ->
  Forall (fun e => theirs r (agency_of (fst p) (fst e)) = true /\ next (fst p) (fst e) (snd e) <> None) (hlog (lg s)))
  all_maps.
Proof. apply Forall_forall. intros p _ r rqcap ls s H. eapply handler_sound; eauto. Qed.

(* ---- non-vacuity: real conversations run through the model ----------------- *)
(* chain-sync client: RequestNext, the server answers RollForward; then a
   pipelined pair of RequestNext answered by AwaitReply+RollForward, RollBackward *)
Definition cs_labels : list label :=
  [Enq (M 1 0 3 []); TakeSendToken; SendDeq; BatchEnd; SendSeg 3; TakeRecvToken;
   SegIn 40; DecMsg (M 2 2 40 []); Admit; Put; Handle; HandlerCall; HandlerRet HOk;
   Enq (M 3 0 3 []); Enq (M 4 0 3 []); TakeSendToken; SendDeq; SendDeq; BatchEnd; SendSeg 6;
   TakeRecvToken; SegIn 63; DecMsg (M 5 1 3 []); Admit; Put; DecMsg (M 6 2 40 []); Admit; Put;
   DecMsg (M 7 3 20 []); Admit; Put;
   Handle; HandlerCall; HandlerRet HOk; TakeRecvToken; Handle; HandlerCall; HandlerRet HOk;
   TakeSendToken; SendQueuedTransition; TakeRecvToken; Handle; HandlerCall; HandlerRet HOk].
Example C11_chainsync_run :
  match run sm_chainsync_ntn RClient 1 55 consts_gen (init sm_chainsync_ntn RClient 1) cs_labels with
  | Some s => map (fun e => (fst e, m_id (snd e))) (hlog (lg s)) = [(2, 2); (2, 5); (3, 6); (2, 7)]
              /\ cur (c s) = 1 /\ err (fl s) = false /\ pendR (rc s) = 0 /\ map m_id (wire_log (lg s)) = [1; 3; 4]
  | None => False
  end.
Proof. vm_compute. repeat split; reflexivity. Qed.
(* the same server answers in the wrong order: AwaitReply twice is refused *)
Example C11_chainsync_reject :
  match run sm_chainsync_ntn RClient 1 55 consts_gen (init sm_chainsync_ntn RClient 1)
    [Enq (M 1 0 3 []); TakeSendToken; SendDeq; BatchEnd; SendSeg 3; TakeRecvToken;
     SegIn 6; DecMsg (M 2 1 3 []); Admit; Put; DecMsg (M 3 1 3 []); Admit; Put;
     Handle; HandlerCall; HandlerRet HOk; TakeRecvToken; Handle; SendError GRecv false] with
  | Some s => map (fun e => m_id (snd e)) (hlog (lg s)) = [2] /\ err (fl s) = true /\ lph (rc s) = LDead [M 3 1 3 []]
  | None => False
  end.
Proof. vm_compute. repeat split; reflexivity. Qed.
(* block-fetch server: RequestRange arrives, we stream StartBatch, Block (spills over one
   segment, which ends the batch), BatchDone *)
Example C11_blockfetch_run :
  match run sm_blockfetch RServer 1 55 consts_gen (init sm_blockfetch RServer 1)
    [TakeRecvToken; SegIn 20; DecMsg (M 1 0 20 []); Admit; Put; Handle; HandlerCall;
     Enq (M 2 2 3 []); Enq (M 3 4 70000 []); Enq (M 4 5 3 []); HandlerRet HOk;
     TakeSendToken; SendDeq; SendDeq; BatchEnd; SendSeg 65535; SendSeg 4468;
     TakeSendToken; SendQueuedTransition; TakeSendToken; SendDeq; BatchEnd; SendSeg 3] with
  | Some s => map (fun e => (fst e, m_id (snd e))) (hlog (lg s)) = [(1, 1)] /\ cur (c s) = 1
              /\ map (fun e : tentry => snd e) (tlog (lg s)) = [2; 3; 3; 1] /\ seg_log (lg s) = [65535; 4468; 3]
  | None => False
  end.
Proof. vm_compute. repeat split; reflexivity. Qed.
