(* C11 - invariants of the engine LTS, for every state map, role, initial state,
   queue capacity, constants and every label list (= every schedule and every
   peer input). *)
From V Require Import Lib.Base C11.Engine.
Local Open Scope N_scope.

Ltac crush H := repeat match type of H with
  | context [match ?x with _ => _ end] => destruct x eqn:?; try discriminate
  | context [if ?x then _ else _] => destruct x eqn:?; try discriminate end;
  try (inversion H; subst; clear H); cbn in *.

Ltac destr_st s :=
  destruct s as [[cur st rt sh rh] [sendq pendS sph queued] [rbuf rph recvq pendR sizes lph]
                 [err stopped muxdone] [enq wire rej segs strans tl hl pl]].

Lemma sumN_app a b : sumN (a ++ b) = sumN a + sumN b.
Proof. unfold sumN. induction a as [|x a IH]; cbn [fold_right app]; [lia|]. rewrite IH. lia. Qed.
Lemma lens_app a b : lens (a ++ b) = lens a ++ lens b.
Proof. apply map_app. Qed.

Section Proofs.
Variable sm : statemap.
Variable r : role.
Variable s0 : N.
Variable rqcap : N.
Variable k : consts.
Notation step := (step sm r s0 rqcap k).
Notation run := (run sm r s0 rqcap k).
Notation init := (init sm r s0).

Lemma run_app : forall l1 l2 s, run s (l1 ++ l2) = match run s l1 with Some s1 => run s1 l2 | None => None end.
Proof. induction l1 as [|l l1 IH]; intros; cbn; [reflexivity|]. destruct (step s l); auto. Qed.

Lemma run_inv (P : st -> Prop) :
  P init -> (forall s l s', P s -> step s l = Some s' -> P s') ->
  forall ls s, run init ls = Some s -> P s.
Proof.
  intros H0 HS ls.
  assert (G : forall ls s s', P s -> run s ls = Some s' -> P s').
  { induction ls0 as [|l ls0 IH]; intros s s' HP Hr; cbn in Hr.
    - injection Hr as <-. exact HP.
    - destruct (step s l) as [s1|] eqn:E; [|discriminate]. eapply IH; [eapply HS; eauto|exact Hr]. }
  intros s Hr. eapply G; eauto.
Qed.

Lemma run_inv_from (P : st -> Prop) :
  (forall s l s', P s -> step s l = Some s' -> P s') ->
  forall ls s s', P s -> run s ls = Some s' -> P s'.
Proof.
  intros HS. induction ls as [|l ls IH]; intros s s' HP Hr; cbn in Hr.
  - injection Hr as <-. exact HP.
  - destruct (step s l) as [s1|] eqn:E; [|discriminate]. eapply IH; [eapply HS; eauto|exact Hr].
Qed.

(* ------------------------------------------------------------ one token *)
Definition b2n (b : bool) : nat := if b then 1%nat else 0%nat.
Definition ntokens (x : ctl) : nat :=
  (b2n (sendTok x) + b2n (sendHeld x) + b2n (recvTok x) + b2n (recvHeld x))%nat.

(* exactly one token when some side has agency (none in an AgencyNone state),
   and it is on the side the agency of the current state names; a loop that
   consumed the token holds it until it makes its transition (a loop that died
   in that window keeps it for ever: the protocol is then stuck or stopping) *)
Definition TokInv (s : st) : Prop :=
  (sendTok (c s) || sendHeld (c s) = ours r (agency_of sm (cur (c s)))) /\
  (recvTok (c s) || recvHeld (c s) = theirs r (agency_of sm (cur (c s)))) /\
  (ntokens (c s) <= 1)%nat /\
  (sph (sn s) = SHeld -> sendHeld (c s) = true) /\
  (lph (rc s) = LWaitMsg -> recvHeld (c s) = true).

Lemma ours_theirs_excl a : ours r a && theirs r a = false.
Proof. destruct r, a; reflexivity. Qed.

Lemma tok_init : TokInv init.
Proof.
  unfold TokInv, init, set_state, ntokens; cbn.
  pose proof (ours_theirs_excl (agency_of sm s0)).
  destruct (ours r (agency_of sm s0)), (theirs r (agency_of sm s0)); cbn in *; try discriminate;
    repeat split; auto; try lia; discriminate.
Qed.

Ltac tok_new n :=
  pose proof (ours_theirs_excl (agency_of sm n));
  destruct (ours r (agency_of sm n)), (theirs r (agency_of sm n)); cbn in *; try discriminate;
  repeat split; auto; try lia; try discriminate.

Lemma tok_step s l s' : TokInv s -> step s l = Some s' -> TokInv s'.
Proof.
  intros (H1 & H2 & H3 & H4 & H5) Hs. destr_st s. unfold TokInv, ntokens in *. cbn in *.
  destruct l; cbn in Hs.
  - unfold do_enq in Hs; cbn in Hs. crush Hs; repeat split; auto; try discriminate.
  - unfold do_enq_over in Hs; cbn in Hs. crush Hs; repeat split; auto; try discriminate.
  - crush Hs; repeat split; auto; try discriminate.
  - unfold do_take_send in Hs; cbn in Hs. crush Hs.
    destruct sh, rt, rh; cbn in *; try lia; repeat split; auto; try lia; try discriminate.
  - unfold do_send_queued in Hs; cbn in Hs. crush Hs.
    + specialize (H4 eq_refl). subst sh.
      destruct st, rt, rh; cbn in *; try lia. tok_new n.
    + repeat split; auto; discriminate.
  - unfold do_send_deq in Hs; cbn in Hs. crush Hs.
    + specialize (H4 eq_refl). subst sh.
      destruct st, rt, rh; cbn in *; try lia. tok_new n.
    + repeat split; auto; discriminate.
    + repeat split; auto; discriminate.
  - unfold do_batch_end in Hs; cbn in Hs. crush Hs; repeat split; auto; try discriminate.
  - unfold do_send_seg in Hs; cbn in Hs. crush Hs; repeat split; auto; discriminate.
  - unfold do_seg_in in Hs; cbn in Hs. crush Hs; repeat split; auto; try discriminate.
  - unfold do_dec_incomplete in Hs; cbn in Hs. crush Hs; repeat split; auto; try discriminate.
  - unfold do_dec_bad in Hs; cbn in Hs. crush Hs; repeat split; auto; try discriminate.
  - unfold do_dec_empty in Hs; cbn in Hs. crush Hs; repeat split; auto; try discriminate.
  - unfold do_dec_msg in Hs; cbn in Hs. crush Hs; repeat split; auto; try discriminate.
  - unfold do_admit in Hs; cbn in Hs. crush Hs; repeat split; auto; try discriminate.
  - unfold do_put in Hs; cbn in Hs. crush Hs; repeat split; auto; try discriminate.
  - unfold do_take_recv in Hs; cbn in Hs. crush Hs.
    destruct sh, st, rh; cbn in *; try lia; repeat split; auto; try lia; try discriminate.
  - unfold do_handle in Hs; cbn in Hs. crush Hs.
    + specialize (H5 eq_refl). subst rh.
      destruct st, rt, sh; cbn in *; try lia. tok_new n.
    + repeat split; auto; discriminate.
  - unfold do_handler_call in Hs; cbn in Hs. crush Hs; repeat split; auto; try discriminate.
  - unfold do_handler_ret in Hs; cbn in Hs. crush Hs; repeat split; auto; discriminate.
  - unfold do_send_error in Hs; cbn in Hs. crush Hs; repeat split; auto; discriminate.
  - unfold do_exit in Hs; cbn in Hs. crush Hs; repeat split; auto; discriminate.
  - crush Hs; repeat split; auto; try discriminate.
  - crush Hs; repeat split; auto; try discriminate.
Qed.

Theorem token_inv : forall ls s, run init ls = Some s -> TokInv s.
Proof. apply run_inv; [apply tok_init|apply tok_step]. Qed.

(* exactly one: the count is 1 iff the current state gives agency to a side *)
Lemma token_count s : TokInv s ->
  ntokens (c s) = match agency_of sm (cur (c s)) with ANone => 0%nat | _ => 1%nat end.
Proof.
  intros (H1 & H2 & H3 & _). unfold ntokens in *.
  destruct (sendTok (c s)), (sendHeld (c s)), (recvTok (c s)), (recvHeld (c s)); cbn in *; try lia;
    destruct r, (agency_of sm (cur (c s))); cbn in *; try discriminate; reflexivity.
Qed.

(* ------------------------------------------------- the transition log is a run *)
Fixpoint path (p : N) (tl : list tentry) : Prop :=
  match tl with
  | [] => True
  | (w, a, m, b) :: rest =>
      a = p /\ next sm a m = Some b /\
      (if w : bool then theirs r (agency_of sm a) else ours r (agency_of sm a)) = true /\ path b rest
  end.
Fixpoint path_end (p : N) (tl : list tentry) : N :=
  match tl with [] => p | (_, _, _, b) :: rest => path_end b rest end.

Lemma path_snoc : forall tl p w m b,
  path p tl -> next sm (path_end p tl) m = Some b ->
  (if w : bool then theirs r (agency_of sm (path_end p tl)) else ours r (agency_of sm (path_end p tl))) = true ->
  path p (tl ++ [(w, path_end p tl, m, b)]) /\ path_end p (tl ++ [(w, path_end p tl, m, b)]) = b.
Proof.
  induction tl as [|[[[w' a] m'] b'] tl IH]; intros p w m b HP HN HA; cbn in *.
  - repeat split; auto.
  - destruct HP as (E & N1 & A1 & HP). destruct (IH b' w m b HP HN HA) as (P1 & P2).
    repeat split; auto.
Qed.

Definition recv_msgs (tl : list tentry) : list (N * msg) :=
  flat_map (fun e => match e with (true, a, m, _) => [(a, m)] | _ => [] end) tl.
Definition send_msgs (tl : list tentry) : list msg :=
  flat_map (fun e => match e with (false, _, m, _) => [m] | _ => [] end) tl.
Lemma recv_msgs_app a b : recv_msgs (a ++ b) = recv_msgs a ++ recv_msgs b.
Proof. apply flat_map_app. Qed.
Lemma send_msgs_app a b : send_msgs (a ++ b) = send_msgs a ++ send_msgs b.
Proof. apply flat_map_app. Qed.
Lemma recv_snoc_r tl a m b : recv_msgs (tl ++ [(true, a, m, b)]) = recv_msgs tl ++ [(a, m)].
Proof. rewrite recv_msgs_app. reflexivity. Qed.
Lemma recv_snoc_s tl a m b : recv_msgs (tl ++ [(false, a, m, b)]) = recv_msgs tl.
Proof. rewrite recv_msgs_app. cbn. apply app_nil_r. Qed.
Lemma send_snoc_s tl a m b : send_msgs (tl ++ [(false, a, m, b)]) = send_msgs tl ++ [m].
Proof. rewrite send_msgs_app. reflexivity. Qed.
Lemma send_snoc_r tl a m b : send_msgs (tl ++ [(true, a, m, b)]) = send_msgs tl.
Proof. rewrite send_msgs_app. cbn. apply app_nil_r. Qed.
Arguments recv_msgs : simpl never.
Arguments send_msgs : simpl never.

Definition accepted_pending (p : lphase) : list (N * msg) :=
  match p with LAccepted m pre => [(pre, m)] | _ => [] end.

(* the handler log is exactly the receive-side projection of the transition log
   (minus the message whose handler call is imminent); the send-side projection
   is the send transition log *)
Definition PathInv (s : st) : Prop :=
  TokInv s /\ path s0 (tlog (lg s)) /\ path_end s0 (tlog (lg s)) = cur (c s) /\
  recv_msgs (tlog (lg s)) = hlog (lg s) ++ accepted_pending (lph (rc s)) /\
  send_msgs (tlog (lg s)) = strans_log (lg s).

Lemma path_init : PathInv init.
Proof. split; [apply tok_init|]. cbn. repeat split; auto. Qed.

Ltac pfin := repeat split; eauto; try (rewrite ?app_nil_r in *; cbn in *; rewrite ?app_nil_r in *; congruence).

Lemma path_step s l s' : PathInv s -> step s l = Some s' -> PathInv s'.
Proof.
  intros (HT & HP & HE & HR & HS) Hs.
  assert (HT' : TokInv s') by (eapply tok_step; eauto).
  split; [exact HT'|]. clear HT'.
  destruct HT as (H1 & H2 & H3 & H4 & H5).
  destr_st s. unfold ntokens in *. cbn in *.
  destruct l; cbn in Hs.
  - unfold do_enq in Hs; cbn in Hs. crush Hs; pfin.
  - unfold do_enq_over in Hs; cbn in Hs. crush Hs; pfin.
  - crush Hs; pfin.
  - unfold do_take_send in Hs; cbn in Hs. crush Hs; pfin.
  - unfold do_send_queued in Hs; cbn in Hs. crush Hs; [|pfin].
    specialize (H4 eq_refl). subst sh.
    assert (HA : ours r (agency_of sm (path_end s0 tl)) = true) by (rewrite <- H1; apply orb_true_r).
    destruct (path_snoc tl s0 false m n HP Heqo HA) as (P1 & P2).
    repeat split; auto.
    + rewrite recv_snoc_s. auto.
    + rewrite send_snoc_s. congruence.
  - unfold do_send_deq in Hs; cbn in Hs. crush Hs; try (pfin; fail).
    specialize (H4 eq_refl). subst sh.
    assert (HA : ours r (agency_of sm (path_end s0 tl)) = true) by (rewrite <- H1; apply orb_true_r).
    destruct (path_snoc tl s0 false m n HP Heqo HA) as (P1 & P2).
    repeat split; auto.
    + rewrite recv_snoc_s. auto.
    + rewrite send_snoc_s. congruence.
  - unfold do_batch_end in Hs; cbn in Hs. crush Hs; pfin.
  - unfold do_send_seg in Hs; cbn in Hs. crush Hs; pfin.
  - unfold do_seg_in in Hs; cbn in Hs. crush Hs; pfin.
  - unfold do_dec_incomplete in Hs; cbn in Hs. crush Hs; pfin.
  - unfold do_dec_bad in Hs; cbn in Hs. crush Hs; pfin.
  - unfold do_dec_empty in Hs; cbn in Hs. crush Hs; pfin.
  - unfold do_dec_msg in Hs; cbn in Hs. crush Hs; pfin.
  - unfold do_admit in Hs; cbn in Hs. crush Hs; pfin.
  - unfold do_put in Hs; cbn in Hs. crush Hs; pfin.
  - unfold do_take_recv in Hs; cbn in Hs. crush Hs; pfin.
  - unfold do_handle in Hs; cbn in Hs. crush Hs; [|pfin].
    specialize (H5 eq_refl). subst rh.
    assert (HA : theirs r (agency_of sm (path_end s0 tl)) = true) by (rewrite <- H2; apply orb_true_r).
    destruct (path_snoc tl s0 true m n HP Heqo HA) as (P1 & P2).
    repeat split; auto.
    + rewrite recv_snoc_r. rewrite HR. rewrite app_nil_r. reflexivity.
    + rewrite send_snoc_r. congruence.
  - unfold do_handler_call in Hs; cbn in Hs. crush Hs; pfin.
  - unfold do_handler_ret in Hs; cbn in Hs. crush Hs; pfin.
  - unfold do_send_error in Hs; cbn in Hs. crush Hs; pfin.
  - unfold do_exit in Hs; cbn in Hs. crush Hs; pfin.
  - crush Hs; pfin.
  - crush Hs; pfin.
Qed.

Theorem path_inv : forall ls s, run init ls = Some s -> PathInv s.
Proof. apply run_inv; [apply path_init|apply path_step]. Qed.

(* membership in a path gives the local facts *)
Lemma path_in : forall tl p w a m b, path p tl -> In (w, a, m, b) tl ->
  next sm a m = Some b /\ (if w : bool then theirs r (agency_of sm a) else ours r (agency_of sm a)) = true.
Proof.
  induction tl as [|[[[w' a'] m'] b'] tl IH]; intros p w a m b HP HI; [destruct HI|].
  cbn in HP. destruct HP as (E & N1 & A1 & HP). destruct HI as [HI|HI].
  - injection HI as -> -> -> ->. auto.
  - eapply IH; eauto.
Qed.

Lemma recv_msgs_in : forall tl a m, In (a, m) (recv_msgs tl) -> exists b, In (true, a, m, b) tl.
Proof.
  induction tl as [|[[[w' a'] m'] b'] tl IH]; intros a m HI; [destruct HI|].
  cbn in HI. destruct w'; cbn in HI.
  - destruct HI as [HI|HI]; [injection HI as -> ->; exists b'; left; reflexivity|].
    destruct (IH _ _ HI) as (b & Hb). exists b. right. exact Hb.
  - destruct (IH _ _ HI) as (b & Hb). exists b. right. exact Hb.
Qed.

(* C11: every handler invocation is for a message that was accepted in a state
   in which the peer had agency and which permits that message *)
Theorem handler_sound : forall ls s, run init ls = Some s ->
  Forall (fun e => theirs r (agency_of sm (fst e)) = true /\ next sm (fst e) (snd e) <> None) (hlog (lg s)).
Proof.
  intros ls s Hr. destruct (path_inv ls s Hr) as (_ & HP & _ & HR & _).
  apply Forall_forall. intros [a m] HI.
  assert (HI' : In (a, m) (recv_msgs (tlog (lg s)))) by (rewrite HR; apply in_or_app; left; exact HI).
  destruct (recv_msgs_in _ _ _ HI') as (b & Hb).
  destruct (path_in _ _ _ _ _ _ HP Hb) as (N1 & A1). cbn. split; [exact A1|congruence].
Qed.

(* at the moment the message is processed (the Handle step) the current state
   is the one it is checked against, the peer has agency in it, and recvLoop
   holds the only token *)
Theorem handle_moment : forall ls s s' m q, run init ls = Some s ->
  lph (rc s) = LWaitMsg -> recvq (rc s) = m :: q -> step s Handle = Some s' ->
  theirs r (agency_of sm (cur (c s))) = true /\ sendTok (c s) = false /\ sendHeld (c s) = false /\
  match next sm (cur (c s)) m with
  | Some n => lph (rc s') = LAccepted m (cur (c s)) /\ cur (c s') = n
  | None => lph (rc s') = LFail [m] /\ hlog (lg s') = hlog (lg s) /\ c s' = c s
  end.
Proof.
  intros ls s s' m q Hr HL HQ Hs. destruct (token_inv ls s Hr) as (H1 & H2 & H3 & H4 & H5).
  specialize (H5 HL). destr_st s. unfold ntokens in *. cbn in *. subst.
  unfold do_handle in Hs; cbn in Hs.
  split; [rewrite <- H2; apply orb_true_r|].
  split; [destruct st, rt, sh; cbn in *; auto; lia|].
  split; [destruct st, rt, sh; cbn in *; auto; lia|].
  destruct (next sm cur m); inversion Hs; subst; cbn; auto.
Qed.

(* C11 reject: a message the state machine does not permit never reaches the
   handler: recvLoop goes to LFail, whose only continuation is SendError *)
Definition recv_stopped (p : lphase) : bool := match p with LFail _ | LDead _ => true | _ => false end.

Lemma recv_stopped_step s l s' : recv_stopped (lph (rc s)) = true -> step s l = Some s' ->
  recv_stopped (lph (rc s')) = true /\ hlog (lg s') = hlog (lg s).
Proof.
  intros HD Hs. destr_st s. cbn in *.
  destruct l; cbn in Hs;
    unfold do_enq, do_enq_over, do_take_send, do_send_queued, do_send_deq, do_batch_end, do_send_seg,
      do_seg_in, do_dec_incomplete, do_dec_bad, do_dec_empty, do_dec_msg, do_admit, do_put, do_take_recv,
      do_handle, do_handler_call, do_handler_ret, do_send_error, do_exit in Hs; cbn in Hs;
    destruct lph; try discriminate; crush Hs; auto.
Qed.

Theorem recv_stopped_frozen : forall ls s s', recv_stopped (lph (rc s)) = true -> run s ls = Some s' ->
  recv_stopped (lph (rc s')) = true /\ hlog (lg s') = hlog (lg s).
Proof.
  induction ls as [|l ls IH]; intros s s' HD Hr; cbn in Hr.
  - injection Hr as <-. auto.
  - destruct (step s l) as [s1|] eqn:E; [|discriminate].
    destruct (recv_stopped_step _ _ _ HD E) as (D1 & L1).
    destruct (IH _ _ D1 Hr) as (D2 & L2). split; [exact D2|congruence].
Qed.

Lemma lfail_error s h s' : lph (rc s) = LFail h -> stopped (fl s) = false ->
  step s (SendError GRecv false) = Some s' -> err (fl s') = true /\ stopped (fl s') = true.
Proof.
  intros HL HS Hs. destr_st s. cbn in *. subst. unfold do_send_error in Hs; cbn in Hs.
  inversion Hs; subst; cbn. unfold send_error; cbn. auto.
Qed.

Lemma lfail_next s h l s' : lph (rc s) = LFail h -> step s l = Some s' ->
  lph (rc s') = LFail h \/ ((exists full, l = SendError GRecv full) /\ lph (rc s') = LDead h).
Proof.
  intros HL Hs. destr_st s. cbn in *. subst.
  destruct l; cbn in Hs;
    unfold do_enq, do_enq_over, do_take_send, do_send_queued, do_send_deq, do_batch_end, do_send_seg,
      do_seg_in, do_dec_incomplete, do_dec_bad, do_dec_empty, do_dec_msg, do_admit, do_put, do_take_recv,
      do_handle, do_handler_call, do_handler_ret, do_send_error, do_exit in Hs; cbn in Hs;
    crush Hs; auto.
  right. split; eauto.
Qed.

(* the handler log only grows *)
Lemma hlog_mono_step s l s' : step s l = Some s' -> exists e, hlog (lg s') = hlog (lg s) ++ e.
Proof.
  intros Hs. destr_st s. cbn in *.
  destruct l; cbn in Hs;
    unfold do_enq, do_enq_over, do_take_send, do_send_queued, do_send_deq, do_batch_end, do_send_seg,
      do_seg_in, do_dec_incomplete, do_dec_bad, do_dec_empty, do_dec_msg, do_admit, do_put, do_take_recv,
      do_handle, do_handler_call, do_handler_ret, do_send_error, do_exit in Hs; cbn in Hs;
    crush Hs; try (exists []; rewrite app_nil_r; reflexivity).
  eexists; reflexivity.
Qed.

End Proofs.
