(* C11/C12/C13 - the mini-protocol engine of protocol/protocol.go as a labelled
   transition system.  Parametric in the state map, the role, the initial state,
   the receive-queue capacity and the constants; it does not depend on any
   generated table.  NO proofs here (EngineProofs.v).

   One label = one atomic action of one goroutine of protocol.Protocol:
     caller      : Enq, EnqOver, Stop                   (SendMessage / Stop)
     sendLoop    : TakeSendToken, SendQueuedTransition, SendDeq, BatchEnd, SendSeg
     readLoop    : SegIn, DecIncomplete, DecBad, DecEmpty, DecMsg, Admit, Put
     recvLoop    : TakeRecvToken, Handle, HandlerCall, HandlerRet
     stateLoop   : is merged into the label of the loop that requested the
                   transition (the requester blocks on the reply, so
                   nextState+setState is atomic for it); Timeout is its SendError
     any loop    : SendError g full, Exit g
     muxer       : MuxDone
   `step s l = None` means: label l is not enabled in s (a blocked channel
   operation, or something protocol.go cannot do). *)
From V Require Import Lib.Base.
Local Open Scope N_scope.

(* ---------------------------------------------------------------- state maps *)
Inductive agency := ANone | AClient | AServer.
Inductive role := RClient | RServer.

(* StateTransition{MsgType, NewState, MatchFunc}: the match function is an
   abstract predicate identified by a number; a message carries the set of
   predicate numbers that hold for it *)
Record trans := { t_type : N; t_guard : option N; t_next : N }.
(* StateMapEntry{Agency, Transitions, PendingMessageByteLimit} *)
Record sentry := { e_agency : agency; e_trans : list trans; e_limit : N }.
Record statemap := { sm_entries : list (N * sentry) }.

(* a message: identity, Type(), len(Cbor()), match predicates that hold *)
Record msg := { m_id : N; m_type : N; m_len : N; m_guards : list N }.

(* Go: StateMap[s] of a missing key is the zero entry (AgencyNone, no
   transitions, limit 0) *)
Definition empty_entry : sentry := {| e_agency := ANone; e_trans := []; e_limit := 0 |}.
Fixpoint lookup_entry (es : list (N * sentry)) (s : N) : option sentry :=
  match es with
  | [] => None
  | (k, e) :: r => if N.eqb k s then Some e else lookup_entry r s
  end.
Definition entry_of (sm : statemap) (s : N) : sentry :=
  match lookup_entry (sm_entries sm) s with Some e => e | None => empty_entry end.
Definition agency_of sm s := e_agency (entry_of sm s).
Definition limit_of sm s := e_limit (entry_of sm s).

Definition guard_ok (g : option N) (m : msg) : bool :=
  match g with None => true | Some k => existsb (N.eqb k) (m_guards m) end.
(* Protocol.nextState: first transition whose MsgType matches and whose
   MatchFunc (if any) accepts *)
Fixpoint next_in (ts : list trans) (m : msg) : option N :=
  match ts with
  | [] => None
  | t :: r => if N.eqb (t_type t) (m_type m) && guard_ok (t_guard t) m
              then Some (t_next t) else next_in r m
  end.
Definition next (sm : statemap) (s : N) (m : msg) : option N := next_in (e_trans (entry_of sm s)) m.

Definition ours (r : role) (a : agency) : bool :=
  match r, a with RClient, AClient => true | RServer, AServer => true | _, _ => false end.
Definition theirs (r : role) (a : agency) : bool :=
  match r, a with RClient, AServer => true | RServer, AClient => true | _, _ => false end.

(* maxMessagesPerSegment, muxer.SegmentMaxPayloadLength, maxReadBufferSize, cap(sendQueueChan) *)
Record consts := { c_maxmsgs : N; c_segmax : N; c_maxrbuf : N; c_sendqcap : N }.

(* ------------------------------------------------------------------- state *)
Record ctl := { cur : N;
  sendTok : bool;   (* a token sits in sendReadyChan (capacity 1) *)
  recvTok : bool;   (* a token sits in recvReadyChan (capacity 1) *)
  sendHeld : bool;  (* sendLoop consumed a token and has not made its transition yet *)
  recvHeld : bool   (* recvLoop consumed a token and has not made its transition yet *) }.

Inductive sphase :=
| SWait                   (* blocked on <-sendReadyChan *)
| SHeld                   (* token taken; queued transitions / first message not done yet *)
| SBatch (cnt pay : N)    (* readSendQueueLoop: cnt messages, pay bytes in payloadBuf *)
| SSeg (rem : N)          (* segment loop: rem bytes left in payloadBuf *)
| SFail                   (* about to call SendError and return *)
| SDead.                  (* returned: muxerSendChan and sendDoneChan closed *)
Inductive rphase :=
| RWaitSeg                (* blocked on muxerRecvChan *)
| RDecode                 (* about to cbor.Decode the buffer *)
| RAdmit (m : msg) (lim : N)  (* decoded, limit read; in the back-pressure wait loop *)
| RPut (m : msg)          (* accounted; blocked on recvQueueChan <- msg *)
| RFail
| RDead (held : list msg).
Inductive lphase :=
| LWaitTok                (* blocked on <-recvReadyChan *)
| LWaitMsg                (* token taken; blocked on <-recvQueueChan *)
| LAccepted (m : msg) (pre : N)  (* transitionState returned nil; handler not called yet *)
| LInHandler (m : msg)
| LFail (held : list msg)
| LDead (held : list msg).

Record sside := { sendq : list msg; pendS : N; sph : sphase; queued : list msg }.
Record rside := { rbuf : N; rph : rphase; recvq : list msg; pendR : N; sizes : list N; lph : lphase }.
Record flg := { err : bool; stopped : bool; muxdone : bool }.
(* one transition: (by recvLoop?, state before, message, state after) *)
Definition tentry := (bool * N * msg * N)%type.
Record logs := {
  enq_log : list msg;     (* accepted SendMessage calls *)
  wire_log : list msg;    (* messages written into payloadBuf, in order *)
  rej_log : list msg;     (* first-of-batch message refused by the state machine (at most one) *)
  seg_log : list N;       (* payload sizes of the segments handed to the muxer *)
  strans_log : list msg;  (* send-side transitions performed *)
  tlog : list tentry;     (* every transition performed *)
  hlog : list (N * msg);  (* handler invocations: (state the message was accepted in, message) *)
  plog : list N           (* pendingRecvBytes after every change *) }.
Record st := { c : ctl; sn : sside; rc : rside; fl : flg; lg : logs }.

Inductive who := GSend | GRead | GRecv.
Inductive hret := HOk | HErr | HShut.

Inductive label :=
| Enq (m : msg) | EnqOver (m : msg) (full : bool) | Stop
| TakeSendToken | SendQueuedTransition | SendDeq | BatchEnd | SendSeg (n : N)
| SegIn (n : N) | DecIncomplete | DecBad | DecEmpty | DecMsg (m : msg) | Admit | Put
| TakeRecvToken | Handle | HandlerCall | HandlerRet (r : hret)
| SendError (g : who) (full : bool) | Exit (g : who) | Timeout (full : bool) | MuxDone.

Definition sumN (l : list N) : N := fold_right N.add 0 l.
Definition lens (l : list msg) : list N := map m_len l.

Section Engine.
Variable sm : statemap.
Variable r : role.
Variable s0 : N.        (* config.InitialState *)
Variable rqcap : N.     (* config.RecvQueueSize *)
Variable k : consts.

(* setState: store the state, then a non-blocking put of a token into the
   ready channel of the side that has agency in it *)
Definition set_state (x : ctl) (n : N) : ctl :=
  {| cur := n;
     sendTok := sendTok x || ours r (agency_of sm n);
     recvTok := recvTok x || theirs r (agency_of sm n);
     sendHeld := sendHeld x; recvHeld := recvHeld x |}.
Definition drop_send (x : ctl) : ctl :=
  {| cur := cur x; sendTok := sendTok x; recvTok := recvTok x; sendHeld := false; recvHeld := recvHeld x |}.
Definition drop_recv (x : ctl) : ctl :=
  {| cur := cur x; sendTok := sendTok x; recvTok := recvTok x; sendHeld := sendHeld x; recvHeld := false |}.

Definition with_c (s : st) x := {| c := x; sn := sn s; rc := rc s; fl := fl s; lg := lg s |}.
Definition with_sn (s : st) x := {| c := c s; sn := x; rc := rc s; fl := fl s; lg := lg s |}.
Definition with_rc (s : st) x := {| c := c s; sn := sn s; rc := x; fl := fl s; lg := lg s |}.
Definition with_fl (s : st) x := {| c := c s; sn := sn s; rc := rc s; fl := x; lg := lg s |}.
Definition with_lg (s : st) x := {| c := c s; sn := sn s; rc := rc s; fl := fl s; lg := x |}.

Definition set_sph (x : sside) p := {| sendq := sendq x; pendS := pendS x; sph := p; queued := queued x |}.
Definition set_rph (x : rside) p :=
  {| rbuf := rbuf x; rph := p; recvq := recvq x; pendR := pendR x; sizes := sizes x; lph := lph x |}.
Definition set_lph (x : rside) p :=
  {| rbuf := rbuf x; rph := rph x; recvq := recvq x; pendR := pendR x; sizes := sizes x; lph := p |}.

(* SendError: no-op when already stopping; when ErrorChan is full the error is
   discarded and Stop is NOT called; otherwise report and Stop *)
Definition send_error (f : flg) (full : bool) : flg :=
  if stopped f then f else if full then f
  else {| err := true; stopped := true; muxdone := muxdone f |}.

Definition sdead (p : sphase) : bool := match p with SDead => true | _ => false end.
Definition ldead (p : lphase) : bool := match p with LDead _ => true | _ => false end.

(* IsInTerminalOrIdleState (without the doneChan clause) *)
Definition terminal_or_idle (x : ctl) : bool :=
  match lookup_entry (sm_entries sm) (cur x) with
  | Some e => match e_agency e with ANone => true | _ => N.eqb (cur x) s0 end
  | None => N.eqb (cur x) s0
  end.

Definition over_limit (lim pend len : N) : bool := (0 <? lim) && (lim <? pend + len).

Definition add_t (l : logs) (e : tentry) : logs :=
  {| enq_log := enq_log l; wire_log := wire_log l; rej_log := rej_log l; seg_log := seg_log l;
     strans_log := strans_log l; tlog := tlog l ++ [e]; hlog := hlog l; plog := plog l |}.
Definition add_wire (l : logs) (m : msg) (tr : bool) : logs :=
  {| enq_log := enq_log l; wire_log := wire_log l ++ [m]; rej_log := rej_log l; seg_log := seg_log l;
     strans_log := if tr then strans_log l ++ [m] else strans_log l; tlog := tlog l; hlog := hlog l; plog := plog l |}.
Definition add_strans (l : logs) (m : msg) : logs :=
  {| enq_log := enq_log l; wire_log := wire_log l; rej_log := rej_log l; seg_log := seg_log l;
     strans_log := strans_log l ++ [m]; tlog := tlog l; hlog := hlog l; plog := plog l |}.
Definition add_rej (l : logs) (m : msg) : logs :=
  {| enq_log := enq_log l; wire_log := wire_log l; rej_log := rej_log l ++ [m]; seg_log := seg_log l;
     strans_log := strans_log l; tlog := tlog l; hlog := hlog l; plog := plog l |}.
Definition add_enq (l : logs) (m : msg) : logs :=
  {| enq_log := enq_log l ++ [m]; wire_log := wire_log l; rej_log := rej_log l; seg_log := seg_log l;
     strans_log := strans_log l; tlog := tlog l; hlog := hlog l; plog := plog l |}.
Definition add_seg (l : logs) (n : N) : logs :=
  {| enq_log := enq_log l; wire_log := wire_log l; rej_log := rej_log l; seg_log := seg_log l ++ [n];
     strans_log := strans_log l; tlog := tlog l; hlog := hlog l; plog := plog l |}.
Definition add_h (l : logs) (e : N * msg) : logs :=
  {| enq_log := enq_log l; wire_log := wire_log l; rej_log := rej_log l; seg_log := seg_log l;
     strans_log := strans_log l; tlog := tlog l; hlog := hlog l ++ [e]; plog := plog l |}.
Definition add_p (l : logs) (n : N) : logs :=
  {| enq_log := enq_log l; wire_log := wire_log l; rej_log := rej_log l; seg_log := seg_log l;
     strans_log := strans_log l; tlog := tlog l; hlog := hlog l; plog := plog l ++ [n] |}.

(* --- caller ---------------------------------------------------------------- *)
(* enqueueMessage: shutdown checks, limit of the CURRENT state against
   pendingSendBytes, account, put into sendQueueChan (capacity 80) *)
Definition enq_enabled (s : st) : bool :=
  negb (stopped (fl s)) && negb (muxdone (fl s)) && negb (sdead (sph (sn s))) && negb (ldead (lph (rc s))).
Definition do_enq (s : st) (m : msg) : option st :=
  if enq_enabled s && negb (over_limit (limit_of sm (cur (c s))) (pendS (sn s)) (m_len m))
     && (N.of_nat (length (sendq (sn s))) <? c_sendqcap k)
  then Some (with_lg (with_sn s {| sendq := sendq (sn s) ++ [m]; pendS := pendS (sn s) + m_len m;
                                   sph := sph (sn s); queued := queued (sn s) |})
                     (add_enq (lg s) m))
  else None.
Definition do_enq_over (s : st) (m : msg) (full : bool) : option st :=
  if enq_enabled s && over_limit (limit_of sm (cur (c s))) (pendS (sn s)) (m_len m)
  then Some (with_fl s (send_error (fl s) full)) else None.

(* --- sendLoop -------------------------------------------------------------- *)
Definition do_take_send (s : st) : option st :=
  match sph (sn s) with
  | SWait => if sendTok (c s)
             then Some (with_sn (with_c s {| cur := cur (c s); sendTok := false; recvTok := recvTok (c s);
                                             sendHeld := true; recvHeld := recvHeld (c s) |})
                                (set_sph (sn s) SHeld))
             else None
  | _ => None
  end.

(* "Check for queued state transitions": transitionState(queued[0]) *)
Definition do_send_queued (s : st) : option st :=
  match sph (sn s), queued (sn s) with
  | SHeld, m :: q =>
      match next sm (cur (c s)) m with
      | Some n => Some (with_lg (with_sn (with_c s (set_state (drop_send (c s)) n))
                                   {| sendq := sendq (sn s); pendS := pendS (sn s); sph := SWait; queued := q |})
                                (add_t (add_strans (lg s) m) (false, cur (c s), m, n)))
      | None => Some (with_sn s (set_sph (sn s) SFail))
      end
  | _, _ => None
  end.

(* one iteration of readSendQueueLoop: take a message from sendQueueChan, write
   it into payloadBuf, decrement pendingSendBytes (clamped at 0); the first
   message of the batch makes its state transition now, the others are queued *)
Definition do_send_deq (s : st) : option st :=
  match sendq (sn s) with
  | [] => None
  | m :: q =>
    let pend' := pendS (sn s) - m_len m in
    match sph (sn s) with
    | SHeld =>
        match queued (sn s) with
        | [] =>
          match next sm (cur (c s)) m with
          | Some n => Some (with_lg (with_sn (with_c s (set_state (drop_send (c s)) n))
                                       {| sendq := q; pendS := pend'; sph := SBatch 1 (m_len m); queued := [] |})
                                    (add_t (add_wire (lg s) m true) (false, cur (c s), m, n)))
          | None => Some (with_lg (with_sn s {| sendq := q; pendS := pend'; sph := SFail; queued := [] |})
                                  (add_rej (lg s) m))
          end
        | _ => None
        end
    | SBatch cnt pay =>
        if (cnt <? c_maxmsgs k) && (pay <=? c_segmax k)
        then Some (with_lg (with_sn s {| sendq := q; pendS := pend'; sph := SBatch (cnt + 1) (pay + m_len m);
                                         queued := queued (sn s) ++ [m] |})
                           (add_wire (lg s) m false))
        else None
    | _ => None
    end
  end.

(* leaving readSendQueueLoop.  The Go loop leaves when msgCount >= 20, the
   payload spilled over one segment, a delivery channel was attached, or
   len(sendQueueChan) == 0; the last test races with SendMessage, so the model
   lets the batch end after any message (over-approximation) *)
Definition do_batch_end (s : st) : option st :=
  match sph (sn s) with
  | SBatch _ pay => Some (with_sn s (set_sph (sn s) (SSeg pay)))
  | _ => None
  end.

(* one iteration of the segment loop *)
Definition do_send_seg (s : st) (n : N) : option st :=
  match sph (sn s) with
  | SSeg rem =>
      if N.eqb n (N.min rem (c_segmax k))
      then Some (with_lg (with_sn s (set_sph (sn s) (if c_segmax k <? rem then SSeg (rem - c_segmax k) else SWait)))
                         (add_seg (lg s) n))
      else None
  | _ => None
  end.

(* --- readLoop -------------------------------------------------------------- *)
Definition do_seg_in (s : st) (n : N) : option st :=
  match rph (rc s) with
  | RWaitSeg => if 0 <? n
                then Some (with_rc s {| rbuf := rbuf (rc s) + n; rph := RDecode; recvq := recvq (rc s);
                                        pendR := pendR (rc s); sizes := sizes (rc s); lph := lph (rc s) |})
                else None
  | _ => None
  end.
(* io.ErrUnexpectedEOF: wait for more, unless the buffer passed maxReadBufferSize *)
Definition do_dec_incomplete (s : st) : option st :=
  match rph (rc s) with
  | RDecode => if 0 <? rbuf (rc s)
               then Some (with_rc s (set_rph (rc s) (if c_maxrbuf k <? rbuf (rc s) then RFail else RWaitSeg)))
               else None
  | _ => None
  end.
(* decode error / unknown message type / MessageFromCborFunc error *)
Definition do_dec_bad (s : st) : option st :=
  match rph (rc s) with
  | RDecode => Some (with_rc s (set_rph (rc s) RFail))
  | _ => None
  end.
(* empty CBOR array: silent return in a terminal/initial state, error otherwise *)
Definition do_dec_empty (s : st) : option st :=
  match rph (rc s) with
  | RDecode => Some (with_rc s (set_rph (rc s) (if terminal_or_idle (c s) then RDead [] else RFail)))
  | _ => None
  end.
(* a whole message was decoded: read the limit of the CURRENT state once;
   a message that alone exceeds it is an error *)
Definition do_dec_msg (s : st) (m : msg) : option st :=
  match rph (rc s) with
  | RDecode =>
      if (0 <? m_len m) && (m_len m <=? rbuf (rc s))
      then let lim := limit_of sm (cur (c s)) in
           Some (with_rc s (set_rph (rc s) (if (0 <? lim) && (lim <? m_len m) then RFail else RAdmit m lim)))
      else None
  | _ => None
  end.
(* the back-pressure loop lets the message through when
   pendingRecvBytes+msgLen <= limit (or there is no limit) *)
Definition do_admit (s : st) : option st :=
  match rph (rc s) with
  | RAdmit m lim =>
      if N.eqb lim 0 || (pendR (rc s) + m_len m <=? lim)
      then Some (with_lg (with_rc s {| rbuf := rbuf (rc s); rph := RPut m; recvq := recvq (rc s);
                                       pendR := pendR (rc s) + m_len m; sizes := sizes (rc s) ++ [m_len m];
                                       lph := lph (rc s) |})
                         (add_p (lg s) (pendR (rc s) + m_len m)))
      else None
  | _ => None
  end.
(* recvQueueChan <- msg.  recvLoop receives from the channel as soon as it has
   the token and only then asks stateLoop for the transition; the model takes
   the message out of recvq at the transition (Handle), so while recvLoop is in
   LWaitMsg the head of recvq may already have left the channel: one more slot *)
Definition do_put (s : st) : option st :=
  match rph (rc s) with
  | RPut m =>
      if N.of_nat (length (recvq (rc s))) <? rqcap + (match lph (rc s) with LWaitMsg => 1 | _ => 0 end)
      then Some (with_rc s {| rbuf := rbuf (rc s) - m_len m;
                              rph := if m_len m <? rbuf (rc s) then RDecode else RWaitSeg;
                              recvq := recvq (rc s) ++ [m]; pendR := pendR (rc s); sizes := sizes (rc s);
                              lph := lph (rc s) |})
      else None
  | _ => None
  end.

(* --- recvLoop -------------------------------------------------------------- *)
Definition do_take_recv (s : st) : option st :=
  match lph (rc s) with
  | LWaitTok => if recvTok (c s)
                then Some (with_rc (with_c s {| cur := cur (c s); sendTok := sendTok (c s); recvTok := false;
                                                sendHeld := sendHeld (c s); recvHeld := true |})
                                   (set_lph (rc s) LWaitMsg))
                else None
  | _ => None
  end.
(* msg := <-recvQueueChan; handleMessage: transitionState(msg) first *)
Definition do_handle (s : st) : option st :=
  match lph (rc s), recvq (rc s) with
  | LWaitMsg, m :: q =>
      let rc' p := {| rbuf := rbuf (rc s); rph := rph (rc s); recvq := q; pendR := pendR (rc s);
                      sizes := sizes (rc s); lph := p |} in
      match next sm (cur (c s)) m with
      | Some n => Some (with_lg (with_rc (with_c s (set_state (drop_recv (c s)) n)) (rc' (LAccepted m (cur (c s)))))
                                (add_t (lg s) (true, cur (c s), m, n)))
      | None => Some (with_rc s (rc' (LFail [m])))
      end
  | _, _ => None
  end.
(* ... then config.MessageHandlerFunc(msg) *)
Definition do_handler_call (s : st) : option st :=
  match lph (rc s) with
  | LAccepted m pre => Some (with_lg (with_rc s (set_lph (rc s) (LInHandler m))) (add_h (lg s) (pre, m)))
  | _ => None
  end.
(* handler returned; on nil pendingRecvBytes -= pendingRecvSizes[0] (clamped) *)
Definition do_handler_ret (s : st) (x : hret) : option st :=
  match lph (rc s) with
  | LInHandler m =>
      match x with
      | HOk =>
          match sizes (rc s) with
          | sz :: rest =>
              Some (with_lg (with_rc s {| rbuf := rbuf (rc s); rph := rph (rc s); recvq := recvq (rc s);
                                          pendR := pendR (rc s) - sz; sizes := rest; lph := LWaitTok |})
                            (add_p (lg s) (pendR (rc s) - sz)))
          | [] => Some (with_rc s (set_lph (rc s) LWaitTok))
          end
      | HErr => Some (with_rc s (set_lph (rc s) (LFail [m])))
      | HShut => Some (with_rc s (set_lph (rc s) (LDead [m])))
      end
  | _ => None
  end.

(* --- errors and shutdown ---------------------------------------------------- *)
Definition do_send_error (s : st) (g : who) (full : bool) : option st :=
  match g with
  | GSend => match sph (sn s) with
             | SFail => Some (with_fl (with_sn s (set_sph (sn s) SDead)) (send_error (fl s) full))
             | _ => None end
  | GRead => match rph (rc s) with
             | RFail => Some (with_fl (with_rc s (set_rph (rc s) (RDead []))) (send_error (fl s) full))
             | _ => None end
  | GRecv => match lph (rc s) with
             | LFail h => Some (with_fl (with_rc s (set_lph (rc s) (LDead h))) (send_error (fl s) full))
             | _ => None end
  end.

(* a loop leaves through one of the shutdown cases of its selects:
   sendLoop watches stopChan and recvDoneChan; readLoop and recvLoop watch
   stopChan, sendDoneChan and muxerDoneChan *)
Definition do_exit (s : st) (g : who) : option st :=
  match g with
  | GSend => if stopped (fl s) || ldead (lph (rc s))
             then match sph (sn s) with
                  | SWait | SHeld | SBatch _ _ | SSeg _ => Some (with_sn s (set_sph (sn s) SDead))
                  | _ => None end
             else None
  | GRead => if stopped (fl s) || sdead (sph (sn s)) || muxdone (fl s)
             then match rph (rc s) with
                  | RWaitSeg | RAdmit _ _ => Some (with_rc s (set_rph (rc s) (RDead [])))
                  | RPut m => Some (with_rc s (set_rph (rc s) (RDead [m])))
                  | _ => None end
             else None
  | GRecv => if stopped (fl s) || sdead (sph (sn s)) || muxdone (fl s)
             then match lph (rc s) with
                  | LWaitTok | LWaitMsg => Some (with_rc s (set_lph (rc s) (LDead [])))
                  | _ => None end
             else None
  end.

Definition step (s : st) (l : label) : option st :=
  match l with
  | Enq m => do_enq s m
  | EnqOver m full => do_enq_over s m full
  | Stop => Some (with_fl s {| err := err (fl s); stopped := true; muxdone := muxdone (fl s) |})
  | TakeSendToken => do_take_send s
  | SendQueuedTransition => do_send_queued s
  | SendDeq => do_send_deq s
  | BatchEnd => do_batch_end s
  | SendSeg n => do_send_seg s n
  | SegIn n => do_seg_in s n
  | DecIncomplete => do_dec_incomplete s
  | DecBad => do_dec_bad s
  | DecEmpty => do_dec_empty s
  | DecMsg m => do_dec_msg s m
  | Admit => do_admit s
  | Put => do_put s
  | TakeRecvToken => do_take_recv s
  | Handle => do_handle s
  | HandlerCall => do_handler_call s
  | HandlerRet x => do_handler_ret s x
  | SendError g full => do_send_error s g full
  | Exit g => do_exit s g
  | Timeout full => Some (with_fl s (send_error (fl s) full))
  | MuxDone => Some (with_fl s {| err := err (fl s); stopped := stopped (fl s); muxdone := true |})
  end.

Definition init : st :=
  {| c := set_state {| cur := s0; sendTok := false; recvTok := false; sendHeld := false; recvHeld := false |} s0;
     sn := {| sendq := []; pendS := 0; sph := SWait; queued := [] |};
     rc := {| rbuf := 0; rph := RWaitSeg; recvq := []; pendR := 0; sizes := []; lph := LWaitTok |};
     fl := {| err := false; stopped := false; muxdone := false |};
     lg := {| enq_log := []; wire_log := []; rej_log := []; seg_log := []; strans_log := []; tlog := [];
              hlog := []; plog := [] |} |}.

Fixpoint run (s : st) (ls : list label) : option st :=
  match ls with
  | [] => Some s
  | l :: ls' => match step s l with Some s' => run s' ls' | None => None end
  end.

(* replay with the position of the first label the model refuses *)
Fixpoint run_at (i : nat) (s : st) (ls : list label) : st + nat :=
  match ls with
  | [] => inl s
  | l :: ls' => match step s l with Some s' => run_at (S i) s' ls' | None => inr i end
  end.

(* messages accounted in pendingRecvSizes that are not in recvQueueChan *)
Definition inproc (p : lphase) : list msg :=
  match p with LAccepted m _ => [m] | LInHandler m => [m] | LFail h => h | LDead h => h | _ => [] end.
Definition rtail (p : rphase) : list msg :=
  match p with RPut m => [m] | RDead h => h | _ => [] end.
(* bytes of the current batch not yet handed to the muxer *)
Definition inflight (p : sphase) : N :=
  match p with SBatch _ pay => pay | SSeg rem => rem | _ => 0 end.
Definition salive (p : sphase) : bool := match p with SFail | SDead => false | _ => true end.

End Engine.
