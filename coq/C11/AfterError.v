(* C11 - what can still reach the application after the protocol was stopped by
   ANOTHER goroutine (readLoop decode error, sendLoop error, state timeout,
   external Stop).  New file; Engine.v / EngineProofs.v are used unchanged.

   Engine.v is deliberately permissive after `stopped` (every loop may go on).
   The Go runtime is stricter for everything that needs stateLoop: a state
   transition is a rendezvous on the unbuffered stateTransitionChan between
   transitionState's select {stopChan, doneChan, send} and stateLoop's select
   {stopChan, receive, timer, doneChan}.  A select never blocks when a case is
   ready, close(stopChan) commits every goroutine parked in a select that
   contains stopChan to that case (runtime.closechan marks their selectDone
   under the channel lock), and an unbuffered send/receive is only "ready"
   when the partner is already parked.  Hence once close(stopChan) has
   returned no new transition request can be accepted: the requester finds
   stopChan ready and no parked stateLoop, stateLoop finds stopChan ready and
   no live parked requester.  `stepS` adds exactly that: the three labels
   that contain a state transition are disabled when `stopped` is set. *)
From V Require Import Lib.Base C11.Engine C11.EngineProofs.
Local Open Scope N_scope.

Section AfterError.
Variable sm : statemap.
Variable r : role.
Variable s0 : N.
Variable rqcap : N.
Variable k : consts.

Definition needs_state_loop (s : st) (l : label) : bool :=
  match l with
  | Handle | SendQueuedTransition => true
  | SendDeq => match sph (sn s) with SHeld => true | _ => false end  (* first message of a batch *)
  | _ => false
  end.

Definition stepS (s : st) (l : label) : option st :=
  if stopped (fl s) && needs_state_loop s l then None else step sm r s0 rqcap k s l.

Fixpoint runS (s : st) (ls : list label) : option st :=
  match ls with
  | [] => Some s
  | l :: ls' => match stepS s l with Some s' => runS s' ls' | None => None end
  end.

(* every strict run is a run of the engine model: all theorems about `run`
   (token invariant, handler soundness, ordering, accounting) apply to it *)
Lemma stepS_refines s l s' : stepS s l = Some s' -> step sm r s0 rqcap k s l = Some s'.
Proof. unfold stepS. destruct (_ && _); [discriminate|auto]. Qed.
Lemma runS_refines : forall ls s s', runS s ls = Some s' -> run sm r s0 rqcap k s ls = Some s'.
Proof.
  induction ls as [|l ls IH]; intros s s' H; cbn in *; [exact H|].
  destruct (stepS s l) as [s1|] eqn:E; [|discriminate]. rewrite (stepS_refines _ _ _ E). eauto.
Qed.

Definition pend (s : st) : list (N * msg) := accepted_pending (lph (rc s)).

Lemma after_stop_step s l s' : stopped (fl s) = true -> stepS s l = Some s' ->
  stopped (fl s') = true /\ hlog (lg s') ++ pend s' = hlog (lg s) ++ pend s /\ tlog (lg s') = tlog (lg s).
Proof.
  intros ST H. unfold stepS in H. rewrite ST in H. cbn [andb] in H.
  destruct (needs_state_loop s l) eqn:NS; [discriminate|].
  unfold pend. destr_st s. cbn in *. subst stopped.
  destruct l; cbn in H; cbn in NS; try discriminate NS;
    unfold do_enq, do_enq_over, do_take_send, do_send_queued, do_send_deq, do_batch_end, do_send_seg,
      do_seg_in, do_dec_incomplete, do_dec_bad, do_dec_empty, do_dec_msg, do_admit, do_put, do_take_recv,
      do_handle, do_handler_call, do_handler_ret, do_send_error, do_exit, send_error, enq_enabled in H; cbn in H;
    crush H; try discriminate NS; rewrite ?app_nil_r; auto.
Qed.

(* after the protocol was stopped - by any goroutine - no state transition
   happens any more and the only message that can still reach the handler is
   the one whose transition had already been accepted (the call was imminent) *)
Theorem after_stop : forall ls s s', stopped (fl s) = true -> runS s ls = Some s' ->
  stopped (fl s') = true /\ tlog (lg s') = tlog (lg s) /\
  exists extra, hlog (lg s') = hlog (lg s) ++ extra /\ (extra = [] \/ extra = pend s).
Proof.
  induction ls as [|l ls IH]; intros s s' ST H; cbn in H.
  - injection H as <-. repeat split; auto. exists []. rewrite app_nil_r. auto.
  - destruct (stepS s l) as [s1|] eqn:E; [|discriminate].
    destruct (after_stop_step _ _ _ ST E) as (ST1 & HL & TL).
    destruct (IH _ _ ST1 H) as (ST2 & TL2 & extra & HE & HX).
    split; [exact ST2|]. split; [congruence|].
    assert (PL : (length (pend s1) <= 1)%nat) by (unfold pend; destruct (lph (rc s1)); cbn; lia).
    assert (PL0 : (length (pend s) <= 1)%nat) by (unfold pend; destruct (lph (rc s)); cbn; lia).
    destruct HX as [-> | ->].
    + (* nothing more after s1 *)
      rewrite app_nil_r in HE.
      destruct (pend s1) as [|x1 t1] eqn:P1.
      * rewrite app_nil_r in HL. exists (pend s). rewrite HE, HL. auto.
      * destruct (pend s) as [|x0 t0] eqn:P0.
        -- rewrite app_nil_r in HL. exfalso.
           assert (X : length (hlog (lg s1) ++ x1 :: t1) = length (hlog (lg s))) by (rewrite HL; reflexivity).
           rewrite app_length in X. cbn in X.
           (* the handler log only grows *)
           destruct (hlog_mono_step sm r s0 rqcap k _ _ _ (stepS_refines _ _ _ E)) as (e & HG).
           rewrite HG, app_length in X. lia.
        -- destruct (hlog_mono_step sm r s0 rqcap k _ _ _ (stepS_refines _ _ _ E)) as (e & HG).
           rewrite HG in HL. rewrite <- app_assoc in HL. apply app_inv_head in HL.
           destruct e as [|y e]; cbn in HL.
           ++ exists []. rewrite HE, HG, !app_nil_r. auto.
           ++ exfalso. assert (X : length (y :: e ++ x1 :: t1) = length (x0 :: t0)) by (rewrite HL; reflexivity).
              cbn in X. rewrite app_length in X. cbn in X, PL0. lia.
    + (* the pending call of s1 was made later *)
      destruct (hlog_mono_step sm r s0 rqcap k _ _ _ (stepS_refines _ _ _ E)) as (e & HG).
      rewrite HG in HL. rewrite <- app_assoc in HL. apply app_inv_head in HL.
      exists (pend s). rewrite HE, HG, <- app_assoc, HL. auto.
Qed.

End AfterError.
