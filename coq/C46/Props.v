(* C46 - property theorems only.  Every theorem holds for every hash function,
   every Ed25519 verifier and every (family of) KES verifier callbacks: the
   primitives are universally quantified, no law about them is assumed. *)
From Coq Require Import Sorted.
From V Require Import Lib.Base Lib.Cbor C46.Model C46.Proofs.
(* *)
Local Open Scope N_scope.

Section Props.
  Variable H256 : bytes -> bytes.
  Variable edverify : bytes -> bytes -> bytes -> bool.
  Variable kesverify : N -> bytes -> bytes -> bytes -> N -> N -> N -> bool.
  Notation verify := (verify H256 edverify kesverify).
  Notation run := (run H256 edverify kesverify).
  Notation step := (step H256 edverify kesverify).
  Notation authentic := (authentic H256 edverify kesverify).
  Notation pool_of := (pool_of H256).

  (* one call on any state of a validating authenticator: accepted iff id =
     hash(payload), opcert signed by the cold key, KES verifies (or no verifier and
     insecure mode), pool registered, counter >= cached counter; on acceptance
     exactly the pool's cache entry becomes the message's counter *)
  Theorem C46_accept : forall st m slot st' out,
    disabled st = false -> verify st (Some m) slot = (st', out) ->
    (o_ok out = true <->
       authentic (registered st) (verifier st) (insecure st) (cache_list (cache st (pool_of m))) m slot)
    /\ (o_ok out = true -> st' = set_cache st (pool_of m) (Some (oc_issue (m_opcert m)))).
  Proof.
    intros st m slot st' out D E. split.
    - pose proof (verify_accept_iff H256 edverify kesverify st m slot D) as W. rewrite E in W. exact W.
    - pose proof (verify_state_ok H256 edverify kesverify st m slot D) as W. rewrite E in W. exact W.
  Qed.

  (* every history of registry / configuration / verify operations on a fresh
     validating authenticator: a Verify event is accepted iff the message is
     authentic w.r.t. the configuration read off the history before it, and its
     counter is >= every counter accepted before for that pool (since the pool's
     cache entry was last removed explicitly) *)
  Theorem C46_accept_history : forall ops evs stf,
    run (init false) ops = (evs, stf) ->
    forall pre m slot out post, evs = pre ++ (Verify (Some m) slot, out) :: post ->
      (o_ok out = true <-> authentic_at H256 edverify kesverify (rev pre) m slot).
  Proof.
    intros ops evs stf E pre m slot out post Hs.
    destruct (run_sound H256 edverify kesverify ops _ [] _ _ (Inv_init H256) E) as [_ HA].
    specialize (HA pre m slot out post Hs). rewrite app_nil_r in HA. exact HA.
  Qed.

  (* the cache is the last accepted counter per pool, and accepted counters never
     go down: the list of counters accepted for a pool (most recent first) is
     descending and its head is the cache entry *)
  Theorem C46_monotone : forall ops evs stf p,
    run (init false) ops = (evs, stf) ->
    cache stf p = hd_error (accepted_of H256 (rev evs) p)
    /\ StronglySorted (fun a b => b <= a) (accepted_of H256 (rev evs) p)
    /\ (forall q, registered stf q = reg_of (rev evs) q)
    /\ verifier stf = ver_of (rev evs) /\ insecure stf = ins_of (rev evs).
  Proof.
    intros ops evs stf p E.
    destruct (run_sound H256 edverify kesverify ops _ [] _ _ (Inv_init H256) E) as [HI _].
    rewrite app_nil_r in HI. destruct HI as [D R V I C S]. repeat split; auto. apply S.
  Qed.

  (* only RemoveKESOpCertCacheEntry can lower (remove) a cache entry *)
  Theorem C46_cache_never_decreases : forall st o st' out p c,
    disabled st = false -> step st o = (st', out) -> (forall q, o <> RemoveCache q) ->
    cache st p = Some c -> exists c', cache st' p = Some c' /\ c <= c'.
  Proof. exact (step_cache_mono H256 edverify kesverify). Qed.

  (* a rejected message changes nothing (in particular it never bumps a counter) *)
  Theorem C46_reject_leaves_state : forall st om slot st' out,
    verify st om slot = (st', out) -> o_ok out = false -> st' = st.
  Proof.
    intros st om slot st' out E Ok. pose proof (verify_reject_state H256 edverify kesverify st om slot) as W.
    rewrite E in W. exact (W Ok).
  Qed.

  (* without a verifier nothing is accepted unless insecure mode was switched on *)
  Theorem C46_no_verifier : forall st om slot st' out,
    disabled st = false -> verifier st = None -> insecure st = false ->
    verify st om slot = (st', out) -> o_ok out = false.
  Proof.
    intros st om slot st' out D V I E. pose proof (verify_no_verifier H256 edverify kesverify st om slot D V I) as W.
    rewrite E in W. exact W.
  Qed.

  (* order of the steps: the injected verifier is consulted only for messages
     whose id and operational certificate already verified; the id fields are
     normalised exactly when step 1 passed *)
  Theorem C46_order : forall st m slot st' out,
    verify st (Some m) slot = (st', out) ->
    (o_kes_called out = true -> step1 H256 m = true /\ step2 edverify m = true /\ kes_pre m = true /\ verifier st <> None)
    /\ (o_id_set out = true <-> (disabled st = false /\ step1 H256 m = true)).
  Proof.
    intros st m slot st' out E. split.
    - exact (verify_kes_called H256 edverify kesverify st m slot out st' E).
    - exact (verify_id_set H256 edverify kesverify st m slot out st' E).
  Qed.

  (* the documented opt-out: NewNoOpAuthenticator accepts everything and keeps no state *)
  Theorem C46_disabled_accepts_all : forall st om slot,
    disabled st = true -> verify st om slot = (st, mkOut true false false).
  Proof. exact (verify_disabled H256 edverify kesverify). Qed.
End Props.

Print Assumptions C46_accept.
Print Assumptions C46_accept_history.
Print Assumptions C46_monotone.
Print Assumptions C46_cache_never_decreases.
Print Assumptions C46_reject_leaves_state.
Print Assumptions C46_no_verifier.
Print Assumptions C46_order.

(* ---- non-vacuity: with primitives that accept, a well-formed message is
   accepted, a replay with a lower counter is rejected, an equal one accepted *)
Definition ex_H (_ : bytes) : bytes := repeat 7 32.
Definition ex_ed (_ _ _ : bytes) : bool := true.
Definition ex_kes (_ : N) (_ _ _ : bytes) (_ _ _ : N) : bool := true.
Definition ex_msg (ctr : N) : msg :=
  mkMsg (repeat 7 32) [] (mkPayload (Some [1; 2; 3]) 5 1000) (repeat 0 448)
        (mkOpcert (Some (repeat 1 32)) ctr 4 (repeat 2 64)) (repeat 3 32).
Definition ex_pool : bytes := hex_ascii (repeat 7 32).

Example C46_nonvacuous :
  map (fun e => o_ok (snd e))
      (fst (run ex_H ex_ed ex_kes (init false)
             [Verify (Some (ex_msg 5)) None;           (* unregistered, no verifier *)
              Register ex_pool;
              Verify (Some (ex_msg 5)) None;           (* no verifier, not insecure *)
              SetVerifier 1;
              Verify (Some (ex_msg 5)) None;           (* accepted *)
              Verify (Some (ex_msg 4)) (Some 9);       (* counter went backwards *)
              Verify (Some (ex_msg 5)) None;           (* equal counter accepted *)
              Verify (Some (ex_msg 9)) None;
              Unregister ex_pool;
              Verify (Some (ex_msg 9)) None]))
  = [false; true; false; true; true; false; true; true; true; false].
Proof. vm_compute. reflexivity. Qed.

Example C46_authentic_satisfiable :
  authentic ex_H ex_ed ex_kes (fun _ => true) (Some 1) false [3; 2] (ex_msg 5) None.
Proof.
  unfold authentic. repeat split; try reflexivity.
  - exists (repeat 1 32). repeat split; reflexivity.
  - repeat constructor; cbn; lia.
Qed.
