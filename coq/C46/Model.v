(* C46 - DMQ message authenticator.  Function-by-function model of
   protocol/common/authentication.go (MessageAuthenticator) and the id /
   encoding helpers of protocol/common/dmq.go.

   Cryptographic primitives are Section variables (no laws are needed):
     H256      Blake2b-256 (message id and pool id)
     edverify  crypto/ed25519.Verify  key msg sig
     kesverify the injected KES verifier callback, indexed by an identity
               (SetKESVerifier may replace it); result = valid && err == nil
   No proofs in this file. *)
From V Require Import Lib.Base Lib.Cbor.
(* *)
Local Open Scope N_scope.

(* ---- dmq.go data ------------------------------------------------------- *)
(* []byte fields that are CBOR-encoded keep nil (None -> f6) apart from empty
   (Some [] -> 40): fxamacker encodes a nil slice held in an interface as null *)
Record payload := mkPayload {
  p_body : option bytes;      (* DmqMessagePayload.MessageBody *)
  p_kes_period : N;           (* uint64 *)
  p_expires : N }.            (* uint32 *)

Record opcert := mkOpcert {
  oc_kes_vkey : option bytes; (* KESVerificationKey *)
  oc_issue : N;               (* IssueNumber uint64 *)
  oc_kes_period : N;          (* KESPeriod uint64 *)
  oc_cold_sig : bytes }.      (* ColdSignature *)

Record msg := mkMsg {
  m_id : bytes;               (* DmqMessage.MessageID *)
  m_legacy_id : bytes;        (* DmqMessage.Payload.MessageID (cbor:"-" alias) *)
  m_payload : payload;
  m_kes_sig : bytes;
  m_opcert : opcert;
  m_cold : bytes }.

Definition obytes (b : option bytes) : bytes := match b with Some l => l | None => [] end.

(* cbor.Encode of a []byte held in an interface / of a uint *)
Definition bstr_item (b : option bytes) : item :=
  match b with
  | None => Simple Fimm 22
  | Some bs => BStr (min_form (N.of_nat (length bs))) bs
  end.
Definition uint_item (n : N) : item := UInt (min_form n) n.

(* DmqMessagePayload.MarshalCBOR: [messageBody, kesPeriod, expiresAt] *)
Definition enc_payload (p : payload) : bytes :=
  enc (Arr (Some Fimm) [bstr_item (p_body p); uint_item (p_kes_period p); uint_item (p_expires p)]).

(* verifyOperationalCertificate: certData = []any{KESVerificationKey, IssueNumber, KESPeriod} *)
Definition enc_cert (oc : opcert) : bytes :=
  enc (Arr (Some Fimm) [bstr_item (oc_kes_vkey oc); uint_item (oc_issue oc); uint_item (oc_kes_period oc)]).

(* verifyKESSignature: wrappedCbor = cbor.Encode(payloadCbor) (a byte string) *)
Definition wrap (bs : bytes) : bytes := enc (BStr (min_form (N.of_nat (length bs))) bs).

(* DmqMessage.ID: MessageID if non-empty, else the legacy alias *)
Definition msg_id (m : msg) : bytes :=
  match m_id m with [] => m_legacy_id m | _ => m_id m end.

(* hex.EncodeToString as ASCII codes (pool ids are Go strings) *)
Definition hexc (n : N) : N := if n <? 10 then 48 + n else 87 + n.
Fixpoint hex_ascii (l : bytes) : bytes :=
  match l with [] => [] | b :: r => hexc (b / 16) :: hexc (b mod 16) :: hex_ascii r end.

(* NewMessageAuthenticator: slotsPerKesPeriod: 129600 (no setter) *)
Definition slots_per_kes_period : N := 129600.

(* ---- authenticator state ------------------------------------------------ *)
Record state := mkState {
  disabled : bool;                 (* disableValidation *)
  registered : bytes -> bool;      (* spoPoolIDs *)
  cache : bytes -> option N;       (* kesOpCertCache *)
  verifier : option N;             (* kesVerifier (identity of the injected callback) *)
  insecure : bool }.               (* allowInsecureKES *)

Definition init (dis : bool) : state :=
  mkState dis (fun _ => false) (fun _ => None) None false.

Definition upd {A} (f : bytes -> A) (k : bytes) (v : A) : bytes -> A :=
  fun x => if bytes_eqb x k then v else f x.

Definition set_registered st p b := mkState (disabled st) (upd (registered st) p b) (cache st) (verifier st) (insecure st).
Definition set_cache st p v := mkState (disabled st) (registered st) (upd (cache st) p v) (verifier st) (insecure st).
Definition set_verifier st v := mkState (disabled st) (registered st) (cache st) v (insecure st).
Definition set_insecure st b := mkState (disabled st) (registered st) (cache st) (verifier st) b.

(* what one VerifyMessage call shows to the outside *)
Record outcome := mkOut {
  o_ok : bool;          (* err == nil *)
  o_id_set : bool;      (* step 1 passed: msg.SetMessageID(ID()) overwrote both id fields *)
  o_kes_called : bool }. (* the injected verifier was invoked *)

Section Auth.
  Variable H256 : bytes -> bytes.
  Variable edverify : bytes -> bytes -> bytes -> bool.
  (* verifier-id wrappedPayload signature vkey kesPeriod slot slotsPerKesPeriod *)
  Variable kesverify : N -> bytes -> bytes -> bytes -> N -> N -> N -> bool.

  (* verifyMessageID *)
  Definition step1 (m : msg) : bool :=
    let id := msg_id m in
    negb (Nat.eqb (length id) 0) && Nat.eqb (length id) 32
    && bytes_eqb id (H256 (enc_payload (m_payload m))).

  (* verifyOperationalCertificate *)
  Definition step2 (m : msg) : bool :=
    Nat.eqb (length (m_cold m)) 32
    && Nat.eqb (length (oc_cold_sig (m_opcert m))) 64
    && edverify (m_cold m) (enc_cert (m_opcert m)) (oc_cold_sig (m_opcert m)).

  (* verifyKESSignature: the two length checks that precede the verifier *)
  Definition kes_pre (m : msg) : bool :=
    Nat.eqb (length (m_kes_sig m)) 448
    && Nat.eqb (length (obytes (oc_kes_vkey (m_opcert m)))) 32.

  (* computedSlot := kesPeriod * slotsPerKesPeriod (uint64, wraps) unless a slot is given *)
  Definition kes_slot (m : msg) (slot : option N) : N :=
    match slot with
    | Some s => s
    | None => (p_kes_period (m_payload m) * slots_per_kes_period) mod 2 ^ 64
    end.

  Definition kes_call (v : N) (m : msg) (slot : option N) : bool :=
    kesverify v (wrap (enc_payload (m_payload m))) (m_kes_sig m)
      (obytes (oc_kes_vkey (m_opcert m))) (p_kes_period (m_payload m))
      (kes_slot m slot) slots_per_kes_period.

  (* verifyKESSignature after the length checks *)
  Definition kes_decide (st : state) (m : msg) (slot : option N) : bool :=
    match verifier st with
    | Some v => kes_call v m slot
    | None => insecure st
    end.

  (* computePoolID *)
  Definition pool_of (m : msg) : bytes := hex_ascii (H256 (m_cold m)).

  (* verifyKESPeriodRotation, the test part *)
  Definition step5 (st : state) (m : msg) : bool :=
    match cache st (pool_of m) with
    | Some c => negb (oc_issue (m_opcert m) <? c)
    | None => true
    end.

  Definition is_some {A} (o : option A) : bool := match o with Some _ => true | None => false end.

  (* verifyMessageInternal.  The message argument None is a nil pointer. *)
  Definition verify (st : state) (om : option msg) (slot : option N) : state * outcome :=
    if disabled st then (st, mkOut true false false) else
    match om with
    | None => (st, mkOut false false false)
    | Some m =>
      if negb (step1 m) then (st, mkOut false false false) else
      if negb (step2 m) then (st, mkOut false true false) else
      if negb (kes_pre m) then (st, mkOut false true false) else
      let called := is_some (verifier st) in
      if negb (kes_decide st m slot) then (st, mkOut false true called) else
      if negb (registered st (pool_of m)) then (st, mkOut false true called) else
      if negb (step5 st m) then (st, mkOut false true called) else
      (set_cache st (pool_of m) (Some (oc_issue (m_opcert m))), mkOut true true called)
    end.

  (* ---- histories: the exported API as operations -------------------------- *)
  Inductive op :=
  | Register (p : bytes)            (* RegisterSPOPool *)
  | Unregister (p : bytes)          (* UnregisterSPOPool *)
  | RemoveCache (p : bytes)         (* RemoveKESOpCertCacheEntry *)
  | SetInsecure (b : bool)          (* SetAllowInsecureKES *)
  | SetVerifier (v : N)             (* SetKESVerifier *)
  | Verify (m : option msg) (slot : option N). (* VerifyMessage / VerifyMessageWithSlot *)

  Definition ok_out : outcome := mkOut true false false.

  Definition step (st : state) (o : op) : state * outcome :=
    match o with
    | Register p => (set_registered st p true, ok_out)
    | Unregister p => (set_registered st p false, ok_out)
    | RemoveCache p => (set_cache st p None, ok_out)
    | SetInsecure b => (set_insecure st b, ok_out)
    | SetVerifier v => (set_verifier st (Some v), ok_out)
    | Verify m slot => verify st m slot
    end.

  (* events = operation with what it returned, oldest first *)
  Fixpoint run (st : state) (ops : list op) : list (op * outcome) * state :=
    match ops with
    | [] => ([], st)
    | o :: r =>
      let '(st1, out) := step st o in
      let '(evs, st2) := run st1 r in
      ((o, out) :: evs, st2)
    end.
End Auth.

(* ---- correspondence ------------------------------------------------------ *)
(* oracle tables recorded by the harness with independent computations *)
Definition lookup_hash (tbl : list (bytes * bytes)) (x : bytes) : bytes :=
  match find (fun e => bytes_eqb (fst e) x) tbl with Some e => snd e | None => [] end.

Definition ed_entry := (bytes * bytes * bytes)%type.  (* valid (key, msg, sig) triples *)
Definition lookup_ed (tbl : list ed_entry) (k m s : bytes) : bool :=
  existsb (fun e => let '(k', m', s') := e in bytes_eqb k k' && bytes_eqb m m' && bytes_eqb s s') tbl.

Record kes_entry := mkKes {
  k_vid : N; k_wrapped : bytes; k_sig : bytes; k_vkey : bytes;
  k_period : N; k_slot : N; k_spkp : N; k_result : bool }.
Definition lookup_kes (tbl : list kes_entry) (v : N) (w s k : bytes) (p sl sp : N) : bool :=
  existsb (fun e => (k_vid e =? v) && bytes_eqb (k_wrapped e) w && bytes_eqb (k_sig e) s
                    && bytes_eqb (k_vkey e) k && (k_period e =? p) && (k_slot e =? sl)
                    && (k_spkp e =? sp) && k_result e) tbl.

Record case := mkCase {
  c_disabled : bool;
  c_hashes : list (bytes * bytes);
  c_ed : list ed_entry;
  c_kes : list kes_entry;
  c_ops : list op;
  c_outs : list (bool * bool * bool);        (* observed (ok, both id fields = id afterwards, kes_called) per op *)
  c_final : list (bytes * bool * option N) }. (* observed final (pool, registered, cache) *)

(* observable "after the call both id fields hold the message's id": true when
   SetMessageID ran (step 1 passed) or when the object arrived that way - every
   CBOR-decoded message does, DmqMessage.UnmarshalCBOR copies the wire id into
   the legacy alias *)
Definition both_id (m : msg) : bool :=
  bytes_eqb (m_id m) (msg_id m) && bytes_eqb (m_legacy_id m) (msg_id m).
Definition obs_id (o : op) (out : outcome) : bool :=
  match o with
  | Verify (Some m) _ => o_id_set out || both_id m
  | _ => o_id_set out
  end.

Definition out_eqb (o : op) (out : outcome) (x : bool * bool * bool) : bool :=
  let '(a, b, c) := x in Bool.eqb (o_ok out) a && Bool.eqb (obs_id o out) b && Bool.eqb (o_kes_called out) c.

Fixpoint outs_eqb (evs : list (op * outcome)) (xs : list (bool * bool * bool)) : bool :=
  match evs, xs with
  | [], [] => true
  | (o, out) :: r, x :: s => out_eqb o out x && outs_eqb r s
  | _, _ => false
  end.

Definition check_case (c : case) : bool :=
  let '(evs, st) := run (lookup_hash (c_hashes c)) (lookup_ed (c_ed c)) (lookup_kes (c_kes c))
                        (init (c_disabled c)) (c_ops c) in
  outs_eqb evs (c_outs c)
  && forallb (fun e => let '(p, r, k) := e in
                Bool.eqb (registered st p) r && opt_eqb N.eqb (cache st p) k) (c_final c).

Definition mismatches := failing check_case.
