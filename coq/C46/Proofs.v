(* C46 - specification of "fully authenticated" and the proofs that the model
   of MessageAuthenticator meets it, for single calls and for every history
   of API operations. *)
From Coq Require Import Sorted.
From V Require Import Lib.Base Lib.Cbor C46.Model.
(* *)
Local Open Scope N_scope.

Section Spec.
  Variable H256 : bytes -> bytes.
  Variable edverify : bytes -> bytes -> bytes -> bool.
  Variable kesverify : N -> bytes -> bytes -> bytes -> N -> N -> N -> bool.

  Notation verify := (verify H256 edverify kesverify).
  Notation step := (step H256 edverify kesverify).
  Notation run := (run H256 edverify kesverify).
  Notation pool_of := (pool_of H256).
  Notation op := Model.op.

  (* ---- the specification, written from the property text ------------------ *)
  (* the slot handed to the KES verifier: the caller's, else kesPeriod * 129600 in uint64 *)
  Definition spec_slot (m : msg) (slot : option N) : N :=
    match slot with Some s => s | None => (p_kes_period (m_payload m) * 129600) mod 2 ^ 64 end.

  (* reg / ver / ins: the authenticator's configuration; prev: the opcert counters
     accepted before for this message's pool *)
  Definition authentic (reg : bytes -> bool) (ver : option N) (ins : bool) (prev : list N)
             (m : msg) (slot : option N) : Prop :=
    (* id = Blake2b-256 of the CBOR payload, 32 bytes *)
    msg_id m = H256 (enc_payload (m_payload m)) /\ length (msg_id m) = 32%nat
    (* the opcert [kes vkey, counter, kes period] is signed by the message's cold key *)
    /\ length (m_cold m) = 32%nat /\ length (oc_cold_sig (m_opcert m)) = 64%nat
    /\ edverify (m_cold m) (enc_cert (m_opcert m)) (oc_cold_sig (m_opcert m)) = true
    (* the KES signature over bstr(payload) verifies under the opcert's KES key;
       with no verifier only the explicit insecure mode lets it through *)
    /\ length (m_kes_sig m) = 448%nat
    /\ (exists k, oc_kes_vkey (m_opcert m) = Some k /\ length k = 32%nat
          /\ match ver with
             | Some v => kesverify v (wrap (enc_payload (m_payload m))) (m_kes_sig m) k
                           (p_kes_period (m_payload m)) (spec_slot m slot) 129600 = true
             | None => ins = true
             end)
    (* the issuing pool (hex of the hash of the cold key) is registered *)
    /\ reg (hex_ascii (H256 (m_cold m))) = true
    (* the counter is not below any counter accepted before for that pool *)
    /\ Forall (fun c => c <= oc_issue (m_opcert m)) prev.

  Definition cache_list (o : option N) : list N := match o with Some c => [c] | None => [] end.

  (* ---- single call ---------------------------------------------------------- *)
  Lemma step1_true m : step1 H256 m = true <->
    msg_id m = H256 (enc_payload (m_payload m)) /\ length (msg_id m) = 32%nat.
  Proof.
    unfold step1. rewrite !andb_true_iff, negb_true_iff, bytes_eqb_eq, !Nat.eqb_eq, Nat.eqb_neq.
    split; [intros [[_ A] B]; auto|intros [A B]; rewrite B; repeat split; auto; discriminate].
  Qed.

  Lemma step2_true m : step2 edverify m = true <->
    length (m_cold m) = 32%nat /\ length (oc_cold_sig (m_opcert m)) = 64%nat
    /\ edverify (m_cold m) (enc_cert (m_opcert m)) (oc_cold_sig (m_opcert m)) = true.
  Proof. unfold step2. rewrite !andb_true_iff, !Nat.eqb_eq. tauto. Qed.

  Lemma kes_pre_true m : kes_pre m = true <->
    length (m_kes_sig m) = 448%nat /\ exists k, oc_kes_vkey (m_opcert m) = Some k /\ length k = 32%nat.
  Proof.
    unfold kes_pre. rewrite andb_true_iff, !Nat.eqb_eq. split.
    - intros [A B]. split; [exact A|]. destruct (oc_kes_vkey (m_opcert m)) as [k|]; cbn in B; [eauto|discriminate].
    - intros [A (k & E & L)]. rewrite E. cbn. auto.
  Qed.

  Lemma step5_true st m : step5 H256 st m = true <->
    Forall (fun c => c <= oc_issue (m_opcert m)) (cache_list (cache st (pool_of m))).
  Proof.
    unfold step5. destruct (cache st (pool_of m)) as [c|]; cbn [cache_list].
    - rewrite negb_true_iff, N.ltb_ge. split; [intros; repeat constructor; auto|intros F; inversion F; auto].
    - split; auto.
  Qed.

  (* the boolean the code computes *)
  Definition accepts (st : state) (m : msg) (slot : option N) : bool :=
    step1 H256 m && step2 edverify m && kes_pre m && kes_decide kesverify st m slot
    && registered st (pool_of m) && step5 H256 st m.

  Lemma verify_unfold st m slot : disabled st = false ->
    o_ok (snd (verify st (Some m) slot)) = accepts st m slot
    /\ fst (verify st (Some m) slot) =
         if accepts st m slot then set_cache st (pool_of m) (Some (oc_issue (m_opcert m))) else st.
  Proof.
    intros D. unfold verify, accepts. rewrite D.
    destruct (step1 H256 m); cbn [negb andb fst snd o_ok]; [|auto].
    destruct (step2 edverify m); cbn [negb andb fst snd o_ok]; [|auto].
    destruct (kes_pre m); cbn [negb andb fst snd o_ok]; [|auto].
    destruct (kes_decide kesverify st m slot); cbn [negb andb fst snd o_ok]; [|auto].
    destruct (registered st (pool_of m)); cbn [negb andb fst snd o_ok]; [|auto].
    destruct (step5 H256 st m); cbn [negb andb fst snd o_ok]; auto.
  Qed.

  Lemma accepts_authentic st m slot :
    accepts st m slot = true <->
    authentic (registered st) (verifier st) (insecure st) (cache_list (cache st (pool_of m))) m slot.
  Proof.
    unfold accepts, authentic.
    rewrite !andb_true_iff, step1_true, step2_true, kes_pre_true, step5_true.
    unfold kes_decide, kes_call, Model.kes_slot, spec_slot, Model.pool_of, slots_per_kes_period.
    split.
    - intros [[[[[[A1 A2] (B1 & B2 & B3)] [C1 (k & C2 & C3)]] D] E] F].
      repeat (split; [assumption|]). split; [|auto].
      exists k. repeat (split; [assumption|]). rewrite C2 in D. cbn [obytes] in D.
      destruct (verifier st); exact D.
    - intros (A1 & A2 & B1 & B2 & B3 & C1 & (k & C2 & C3 & D) & E & F).
      repeat split; eauto. rewrite C2. cbn [obytes]. destruct (verifier st); exact D.
  Qed.

  Lemma verify_accept_iff st m slot : disabled st = false ->
    (o_ok (snd (verify st (Some m) slot)) = true <->
     authentic (registered st) (verifier st) (insecure st) (cache_list (cache st (pool_of m))) m slot).
  Proof. intros D. destruct (verify_unfold st m slot D) as [-> _]. apply accepts_authentic. Qed.

  Lemma verify_state_ok st m slot : disabled st = false ->
    o_ok (snd (verify st (Some m) slot)) = true ->
    fst (verify st (Some m) slot) = set_cache st (pool_of m) (Some (oc_issue (m_opcert m))).
  Proof. intros D. destruct (verify_unfold st m slot D) as [-> ->]. intros ->. reflexivity. Qed.

  Lemma verify_reject_state st om slot :
    o_ok (snd (verify st om slot)) = false -> fst (verify st om slot) = st.
  Proof.
    unfold verify. destruct (disabled st); [reflexivity|]. destruct om as [m|]; [|reflexivity].
    repeat match goal with |- context [if negb ?b then _ else _] => destruct b; cbn [negb fst snd o_ok]; try reflexivity end.
    discriminate.
  Qed.

  Lemma verify_disabled st om slot : disabled st = true ->
    verify st om slot = (st, mkOut true false false).
  Proof. intros D. unfold verify. rewrite D. reflexivity. Qed.

  Lemma verify_nil st slot : disabled st = false -> o_ok (snd (verify st None slot)) = false.
  Proof. intros D. unfold verify. rewrite D. reflexivity. Qed.

  Lemma verify_no_verifier st om slot :
    disabled st = false -> verifier st = None -> insecure st = false ->
    o_ok (snd (verify st om slot)) = false.
  Proof.
    intros D V I. destruct om as [m|]; [|apply verify_nil; exact D].
    destruct (verify_unfold st m slot D) as [-> _]. unfold accepts, kes_decide. rewrite V, I.
    rewrite !andb_false_r. reflexivity.
  Qed.

  (* order of the steps, seen through the side effects *)
  Lemma verify_kes_called st m slot out st' :
    verify st (Some m) slot = (st', out) -> o_kes_called out = true ->
    step1 H256 m = true /\ step2 edverify m = true /\ kes_pre m = true /\ verifier st <> None.
  Proof.
    unfold verify. destruct (disabled st); [intros E; inversion E; subst; cbn; discriminate|].
    destruct (step1 H256 m); cbn [negb]; [|intros E; inversion E; subst; cbn; discriminate].
    destruct (step2 edverify m); cbn [negb]; [|intros E; inversion E; subst; cbn; discriminate].
    destruct (kes_pre m); cbn [negb]; [|intros E; inversion E; subst; cbn; discriminate].
    intros E C. repeat split; auto. intros V. rewrite V in E. cbn [is_some] in E.
    repeat match type of E with (if negb ?b then _ else _) = _ => destruct b; cbn [negb] in E end;
      inversion E; subst; cbn in C; discriminate.
  Qed.

  Lemma verify_id_set st m slot out st' :
    verify st (Some m) slot = (st', out) -> (o_id_set out = true <-> (disabled st = false /\ step1 H256 m = true)).
  Proof.
    unfold verify. destruct (disabled st); [intros E; inversion E; subst; cbn; split; [discriminate|intros [? _]; discriminate]|].
    destruct (step1 H256 m); cbn [negb]; [|intros E; inversion E; subst; cbn; split; [discriminate|intros [_ ?]; discriminate]].
    intros E.
    repeat match type of E with (if negb ?b then _ else _) = _ => destruct b; cbn [negb] in E end;
      inversion E; subst; cbn; tauto.
  Qed.

  (* ---- histories ------------------------------------------------------------ *)
  (* What the configuration and the per-pool accepted counters are, read off a
     history (most recent event first), independently of the state record. *)
  Definition event := (op * outcome)%type.

  Fixpoint reg_of (past : list event) (p : bytes) : bool :=
    match past with
    | [] => false
    | (Register q, _) :: r => if bytes_eqb p q then true else reg_of r p
    | (Unregister q, _) :: r => if bytes_eqb p q then false else reg_of r p
    | _ :: r => reg_of r p
    end.

  Fixpoint ver_of (past : list event) : option N :=
    match past with
    | [] => None
    | (SetVerifier v, _) :: _ => Some v
    | _ :: r => ver_of r
    end.

  Fixpoint ins_of (past : list event) : bool :=
    match past with
    | [] => false
    | (SetInsecure b, _) :: _ => b
    | _ :: r => ins_of r
    end.

  (* counters of the messages accepted for pool p since its cache entry was last
     removed (RemoveKESOpCertCacheEntry), most recent first *)
  Fixpoint accepted_of (past : list event) (p : bytes) : list N :=
    match past with
    | [] => []
    | (Verify (Some m) _, out) :: r =>
        if o_ok out && bytes_eqb p (pool_of m) then oc_issue (m_opcert m) :: accepted_of r p
        else accepted_of r p
    | (RemoveCache q, _) :: r => if bytes_eqb p q then [] else accepted_of r p
    | _ :: r => accepted_of r p
    end.

  Definition descending : list N -> Prop := StronglySorted (fun a b => b <= a).

  Record Inv (past : list event) (st : state) : Prop := {
    inv_dis : disabled st = false;
    inv_reg : forall p, registered st p = reg_of past p;
    inv_ver : verifier st = ver_of past;
    inv_ins : insecure st = ins_of past;
    inv_cache : forall p, cache st p = hd_error (accepted_of past p);
    inv_desc : forall p, descending (accepted_of past p) }.

  Lemma Inv_init : Inv [] (init false).
  Proof. constructor; cbn; auto; intros; constructor. Qed.

  Lemma hd_desc_forall l x : descending l -> Forall (fun c => c <= x) (cache_list (hd_error l)) ->
    Forall (fun c => c <= x) l.
  Proof.
    intros S F. destruct l as [|a r]; [constructor|]. cbn in F. inversion F as [|? ? Ha _]; subst.
    inversion S as [|? ? _ Hr]; subst. constructor; [exact Ha|].
    eapply Forall_impl; [|exact Hr]. cbn. intros; lia.
  Qed.

  Lemma Inv_step past st o st' out : Inv past st -> step st o = (st', out) -> Inv ((o, out) :: past) st'.
  Proof.
    intros [D R V I C S] E. destruct o as [q|q|q|b|v|om slot]; cbn [Model.step] in E.
    1-5: inversion E; subst; clear E; constructor; cbn [disabled registered verifier insecure cache
           set_registered set_cache set_verifier set_insecure reg_of ver_of ins_of accepted_of]; auto.
    - intros p. unfold upd. destruct (bytes_eqb p q); auto.
    - intros p. unfold upd. destruct (bytes_eqb p q); auto.
    - intros p. unfold upd. destruct (bytes_eqb p q); auto.
    - intros p. destruct (bytes_eqb p q); [constructor|apply S].
    - (* Verify *)
      destruct om as [m|].
      + pose proof (verify_unfold st m slot D) as [Ho Hs]. rewrite E in Ho, Hs. cbn [fst snd] in Ho, Hs.
        subst st'. destruct (accepts st m slot) eqn:A.
        * apply accepts_authentic in A. destruct A as (_ & _ & _ & _ & _ & _ & _ & _ & F).
          constructor; cbn [disabled registered verifier insecure cache set_cache reg_of ver_of ins_of accepted_of]; auto.
          -- intros p. unfold upd. rewrite Ho. cbn [andb]. destruct (bytes_eqb p (pool_of m)); auto.
          -- intros p. rewrite Ho. cbn [andb]. destruct (bytes_eqb p (pool_of m)) eqn:Ep; [|apply S].
             apply bytes_eqb_eq in Ep. subst p. constructor; [apply S|].
             apply hd_desc_forall; [apply S|]. rewrite <- C. exact F.
        * constructor; cbn [reg_of ver_of ins_of accepted_of]; auto.
          -- intros p. rewrite Ho. cbn [andb]. apply C.
          -- intros p. rewrite Ho. cbn [andb]. apply S.
      + unfold verify in E. rewrite D in E. inversion E; subst. constructor; cbn; auto.
  Qed.

  (* every accepted message of every history is authentic with respect to the
     registry/verifier configuration the history had built up at that point *)
  Definition authentic_at (past : list event) (m : msg) (slot : option N) : Prop :=
    authentic (reg_of past) (ver_of past) (ins_of past) (accepted_of past (pool_of m)) m slot.

  Lemma authentic_ext reg reg' ver ins prev m slot :
    (forall p, reg p = reg' p) -> authentic reg ver ins prev m slot -> authentic reg' ver ins prev m slot.
  Proof. intros Hr. unfold authentic. rewrite Hr. tauto. Qed.

  Lemma run_sound ops : forall st past evs stf,
    Inv past st -> run st ops = (evs, stf) ->
    Inv (rev evs ++ past) stf /\
    forall pre m slot out post, evs = pre ++ (Verify (Some m) slot, out) :: post ->
      (o_ok out = true <-> authentic_at (rev pre ++ past) m slot).
  Proof.
    induction ops as [|o r IH]; intros st past evs stf HI E; cbn [Model.run] in E.
    - inversion E; subst. split; [exact HI|]. intros pre m slot out post Hs. destruct pre; discriminate.
    - destruct (step st o) as [st1 out1] eqn:E1. destruct (run st1 r) as [evs2 st2] eqn:E2.
      inversion E; subst; clear E.
      pose proof (Inv_step _ _ _ _ _ HI E1) as HI1.
      destruct (IH _ _ _ _ HI1 E2) as [HF HA]. split.
      + cbn [rev]. rewrite <- app_assoc. exact HF.
      + intros pre m slot out post Hs. destruct pre as [|e pre].
        * cbn [app] in Hs. inversion Hs; subst. cbn [rev app]. cbn [Model.step] in E1.
          pose proof (verify_accept_iff st m slot (inv_dis _ _ HI)) as W. rewrite E1 in W. cbn [snd] in W.
          rewrite W. unfold authentic_at.
          destruct HI as [D R V I C S]. rewrite <- V, <- I. split; intros A.
          -- apply (authentic_ext (registered st)); [exact R|].
             destruct A as (a1&a2&a3&a4&a5&a6&a7&a8&F). repeat (split; [assumption|]).
             apply hd_desc_forall; [apply S|]. rewrite <- C. exact F.
          -- apply (authentic_ext (reg_of past)); [intros; symmetry; apply R|].
             destruct A as (a1&a2&a3&a4&a5&a6&a7&a8&F). repeat (split; [assumption|]).
             rewrite C. destruct (accepted_of past (pool_of m)); cbn; [constructor|].
             inversion F; subst. repeat constructor; auto.
        * cbn [app] in Hs. inversion Hs; subst. cbn [rev]. rewrite <- app_assoc. cbn [app].
          eapply HA. reflexivity.
  Qed.

  (* a non-removing operation never lowers a cache entry *)
  Lemma step_cache_mono st o st' out p c :
    disabled st = false -> step st o = (st', out) -> (forall q, o <> RemoveCache q) ->
    cache st p = Some c -> exists c', cache st' p = Some c' /\ c <= c'.
  Proof.
    intros D E NR Hc. destruct o as [q|q|q|b|v|om slot]; cbn [Model.step] in E.
    1,2,4,5: inversion E; subst; cbn; eauto using N.le_refl.
    - exfalso. eapply NR. reflexivity.
    - destruct (o_ok out) eqn:Ok.
      + destruct om as [m|]; [|pose proof (verify_nil st slot D) as Hn; rewrite E in Hn; cbn [snd] in Hn; congruence].
        pose proof (verify_state_ok st m slot D) as Hs. rewrite E in Hs. cbn [fst snd] in Hs.
        rewrite (Hs Ok). cbn [cache set_cache]. unfold upd.
        destruct (bytes_eqb p (pool_of m)) eqn:Ep; [|eauto using N.le_refl].
        apply bytes_eqb_eq in Ep. subst p. eexists. split; [reflexivity|].
        pose proof (verify_accept_iff st m slot D) as W. rewrite E in W. cbn [snd] in W.
        apply W in Ok. destruct Ok as (_&_&_&_&_&_&_&_&F). rewrite Hc in F. inversion F; auto.
      + pose proof (verify_reject_state st om slot) as Hs. rewrite E in Hs. cbn [fst snd] in Hs.
        rewrite (Hs Ok). eauto using N.le_refl.
  Qed.
End Spec.
