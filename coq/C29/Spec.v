(* C29 - the ledger's semantics of native (timelock) scripts, written from
   cardano-ledger's evalTimelock (Allegra `Timelock`, reused to Conway) and
   the property text; independent of the Go code's shape:
     RequireSignature h     -> h is one of the witness key hashes
     RequireAllOf xs        -> all
     RequireAnyOf xs        -> any
     RequireMOf m xs        -> isValidMOf m xs      (the ledger's own recursion on a signed m)
     RequireTimeStart lock  -> lock `lteNegInfty` txStart   (SNothing -> False)
     RequireTimeExpire lock -> txExpire `ltePosInfty` lock  (SNothing -> False)
   (Dijkstra) RequireGuard c -> c is one of the transaction's guards. *)
From V Require Import Lib.Base Lib.Cbor C29.Model.
Local Open Scope N_scope.

Definition lte_neg_infty (i : N) (j : option N) : bool :=
  match j with None => false | Some j => i <=? j end.
Definition lte_pos_infty (i : option N) (j : N) : bool :=
  match i with None => false | Some i => i <=? j end.

(* isValidMOf n Empty = n <= 0
   isValidMOf n (t :<| ts) = n <= 0 || if go t then isValidMOf (n - 1) ts else isValidMOf n ts *)
Definition valid_mof (f : script -> bool) : Z -> list script -> bool :=
  fix go (n : Z) (l : list script) {struct l} : bool :=
    match l with
    | [] => (n <=? 0)%Z
    | x :: r => (n <=? 0)%Z || (if f x then go (n - 1)%Z r else go n r)
    end.

Section spec.
  Variables (start ttl : option N).      (* the transaction's validity interval *)
  Variable keys : list bytes.            (* hashes of the witnessing keys *)
  Variable guards : list (N * bytes).    (* Dijkstra guards *)

  Fixpoint spec_eval (s : script) : bool :=
    match s with
    | Pubkey h => mem_bytes h keys
    | All l => forallb spec_eval l
    | Any l => existsb spec_eval l
    | NofK m l => valid_mof spec_eval (Z.of_N m) l
    | InvalidBefore lock => lte_neg_infty lock start
    | InvalidHereafter lock => lte_pos_infty ttl lock
    | RequireGuard t h => mem_cred (t, h) guards
    end.
End spec.

(* every slot number in the script is a uint64 (what decoding guarantees) *)
Fixpoint slots_u64 (s : script) : bool :=
  match s with
  | All l | Any l | NofK _ l => forallb slots_u64 l
  | InvalidBefore b | InvalidHereafter b => b <? 2^64
  | _ => true
  end.

(* The input class on which the implementation's sentinels (absent start =
   0, absent or zero TTL = 2^64-1) cannot be told apart from real bounds:
   a leaf is *affected* when
     - the transaction has no validity start and the leaf is InvalidBefore 0
     - the transaction has no TTL and the leaf is InvalidHereafter (2^64-1)
     - the transaction's TTL is present and 0 and the leaf is
       InvalidHereafter b with b < 2^64-1.
   sentinel_free = no affected leaf anywhere in the script. *)
Definition leaf_affected (start ttl : option N) (s : script) : bool :=
  match s with
  | InvalidBefore b => match start with None => b =? 0 | Some _ => false end
  | InvalidHereafter b =>
      match ttl with
      | None => b =? u64max
      | Some t => (t =? 0) && negb (b =? u64max)
      end
  | _ => false
  end.

Fixpoint sentinel_free (start ttl : option N) (s : script) : bool :=
  match s with
  | All l | Any l | NofK _ l => forallb (sentinel_free start ttl) l
  | _ => negb (leaf_affected start ttl s)
  end.

(* the CDDL encoding of a script, minimal headers:
   native_script = [0, addr_keyhash] / [1, [* native_script]] / [2, [* native_script]]
                 / [3, n, [* native_script]] / [4, slot] / [5, slot]   (Dijkstra: [6, credential]) *)
Fixpoint to_item (s : script) : item :=
  match s with
  | Pubkey h => Arr (Some Fimm) [UInt Fimm 0; BStr (min_form (N.of_nat (length h))) h]
  | All l => Arr (Some Fimm) [UInt Fimm 1; Arr (Some (min_form (N.of_nat (length l)))) (map to_item l)]
  | Any l => Arr (Some Fimm) [UInt Fimm 2; Arr (Some (min_form (N.of_nat (length l)))) (map to_item l)]
  | NofK n l => Arr (Some Fimm) [UInt Fimm 3; UInt (min_form n) n; Arr (Some (min_form (N.of_nat (length l)))) (map to_item l)]
  | InvalidBefore b => Arr (Some Fimm) [UInt Fimm 4; UInt (min_form b) b]
  | InvalidHereafter b => Arr (Some Fimm) [UInt Fimm 5; UInt (min_form b) b]
  | RequireGuard t h => Arr (Some Fimm) [UInt Fimm 6; Arr (Some Fimm) [UInt (min_form t) t; BStr (min_form 28) h]]
  end.

(* what the Go field types can hold *)
Fixpoint representable (s : script) : bool :=
  match s with
  | All l | Any l => forallb representable l
  | NofK n l => (n <? 2^64) && forallb representable l
  | InvalidBefore b | InvalidHereafter b => b <? 2^64
  | RequireGuard t h => (t <? 2^64) && (N.of_nat (length h) =? 28)
  | Pubkey _ => true
  end.
