(* C29 - native scripts.  Model of ledger/common/script.go (NativeScript
   UnmarshalCBOR / evaluate / Hash) and of the evaluation context built by
   UtxoValidateNativeScripts (ledger/allegra/rules.go, ledger/conway/rules.go,
   ledger/dijkstra/rules.go; Mary, Alonzo, Babbage delegate to Allegra).
   The model describes the code WITH fixes/C29-pubkey-hash-length.patch
   (evaluate refuses a key hash whose length is not 28). No proofs here. *)
From Coq Require Import String.
From V Require Import Lib.Base Lib.Hex Lib.HTerm Lib.Cbor.
Local Open Scope N_scope.

(* the n.item variants of common.NativeScript *)
Inductive script :=
| Pubkey (h : bytes)                 (* *NativeScriptPubkey{Hash []byte}: any length decodes *)
| All (l : list script)              (* *NativeScriptAll *)
| Any (l : list script)              (* *NativeScriptAny *)
| NofK (n : N) (l : list script)     (* *NativeScriptNofK{N uint} *)
| InvalidBefore (slot : N)           (* *NativeScriptInvalidBefore{Slot uint64} *)
| InvalidHereafter (slot : N)        (* *NativeScriptInvalidHereafter{Slot uint64} *)
| RequireGuard (typ : N) (h : bytes). (* *NativeScriptRequireGuard{Credential} (Dijkstra) *)

Definition u64max : N := 18446744073709551615.

(* nativeScriptEvalContext; keyHashes / guardCredentials are Go maps used as sets *)
Record ctx := mkctx {
  validityStart : N;
  validityEnd : N;
  keyHashes : list bytes;
  guardCredentials : list (N * bytes) }.

Definition mem_bytes (h : bytes) (l : list bytes) : bool := existsb (bytes_eqb h) l.
Definition cred_eqb (a b : N * bytes) : bool := (fst a =? fst b) && bytes_eqb (snd a) (snd b).
Definition mem_cred (c : N * bytes) (l : list (N * bytes)) : bool := existsb (cred_eqb c) l.

(* number of sub-scripts that evaluate to true: the `count++` loop *)
Definition count_true (f : script -> bool) (l : list script) : N := N.of_nat (length (filter f l)).

(* func (n *NativeScript) evaluate(ctx) bool *)
Fixpoint evaluate (c : ctx) (s : script) : bool :=
  match s with
  | Pubkey h =>
      (* if len(s.Hash) != Blake2b224Size { return false }   [the fix]
         copy(hash[:], s.Hash); return ctx.keyHashes[hash] *)
      (N.of_nat (length h) =? 28) && mem_bytes h (keyHashes c)
  | All l => forallb (evaluate c) l          (* first false returns false; none: true *)
  | Any l => existsb (evaluate c) l          (* first true returns true; none: false *)
  | NofK n l => n <=? count_true (evaluate c) l     (* count >= s.N *)
  | InvalidBefore slot => slot <=? validityStart c  (* ctx.validityStart >= s.Slot *)
  | InvalidHereafter slot => validityEnd c <=? slot (* ctx.validityEnd <= s.Slot *)
  | RequireGuard t h => mem_cred (t, h) (guardCredentials c)  (* nil map: false *)
  end.

(* The context UtxoValidateNativeScripts builds from a decoded transaction.
   start / ttl are what the transaction body carries on the wire (key 8 / key
   3, None = key absent).  The body structs keep them in plain uint64 fields
   with `omitempty`, so tx.ValidityIntervalStart() and tx.TTL() return 0 for
   an absent key; the rule then replaces a zero TTL by MaxUint64:
       validityStart := tx.ValidityIntervalStart()
       validityEnd := tx.TTL(); if validityEnd == 0 { validityEnd = ^uint64(0) } *)
Definition from_opt (o : option N) : N := match o with Some x => x | None => 0 end.
Definition rule_ctx (start ttl : option N) (keys : list bytes) (guards : list (N * bytes)) : ctx :=
  let t := from_opt ttl in
  mkctx (from_opt start) (if t =? 0 then u64max else t) keys guards.

(* the rule itself: every native script of the witness set must evaluate to true *)
Definition rule_accepts (start ttl : option N) keys guards (scripts : list script) : bool :=
  forallb (evaluate (rule_ctx start ttl keys guards)) scripts.

(* ---- decoding (NativeScript.UnmarshalCBOR), on the CBOR syntax tree ----
   Only the shapes the tie exercises: a definite outer array with a minimal
   header and a minimal type id (other header forms of these two are
   property C03), integer / byte-string / inner-list headers of any form.
   Struct decoding (`toarray`) demands the exact number of elements. *)
Definition as_u64 (it : item) : option N :=
  match it with UInt _ n => if n <? 2^64 then Some n else None | _ => None end.
Definition as_bytes (it : item) : option bytes :=
  match it with
  | BStr _ bs => Some bs
  | BStrI cs => Some (flat_map snd cs)
  | _ => None
  end.

Fixpoint decode (it : item) : option script :=
  match it with
  | Arr (Some Fimm) (UInt Fimm id :: args) =>
      let dl := (fix dl (l : list item) : option (list script) :=
                   match l with
                   | [] => Some []
                   | x :: r => match decode x, dl r with
                               | Some s, Some ss => Some (s :: ss)
                               | _, _ => None
                               end
                   end) in
      match id, args with
      | 0, [h] => option_map Pubkey (as_bytes h)
      | 1, [Arr _ xs] => option_map All (dl xs)
      | 2, [Arr _ xs] => option_map Any (dl xs)
      | 3, [n; Arr _ xs] =>
          match as_u64 n, dl xs with
          | Some n, Some ss => Some (NofK n ss)
          | _, _ => None
          end
      | 4, [n] => option_map InvalidBefore (as_u64 n)
      | 5, [n] => option_map InvalidHereafter (as_u64 n)
      | 6, [Arr (Some Fimm) [UInt _ t; BStr _ h]] =>
          if (t <? 2^64) && (N.of_nat (length h) =? 28) then Some (RequireGuard t h) else None
      | _, _ => None
      end
  | _ => None
  end.

(* NativeScript.Hash(): Blake2b224(0x00 || s.Cbor()); s.Cbor() is the byte
   range UnmarshalCBOR was handed (SetCbor(data)), not a re-encoding.
   alg 1 of Lib/HTerm = Blake2b-224. *)
Definition script_hash (stored : bytes) : hterm := HH 1 [HB (0 :: stored)].

(* ---- correspondence ------------------------------------------------- *)
(* one case: the script as a CBOR tree, the transaction's bounds as they are
   on the wire, witness key hashes, guard credentials.  The model answers
   "decoded?", "evaluates to true under the rule's context?" and the hash
   preimage; the harness compares with what the implementation did. *)
Record case := mkcase {
  c_direct : bool;   (* true: NativeScript.Evaluate called with (start, ttl) as given (0 if None);
                        false: through UtxoValidateNativeScripts on a decoded transaction *)
  c_item : item;
  c_start : option N;
  c_ttl : option N;
  c_keys : list bytes;
  c_guards : list (N * bytes) }.

Local Open Scope string_scope.
Definition out_of (c : case) : string :=
  match decode (c_item c) with
  | None => "U"
  | Some s =>
      (if evaluate (if c_direct c
                    then mkctx (from_opt (c_start c)) (from_opt (c_ttl c)) (c_keys c) (c_guards c)
                    else rule_ctx (c_start c) (c_ttl c) (c_keys c) (c_guards c)) s then "T" else "F")
      ++ hser (script_hash (enc (c_item c)))
  end.
Definition model_outs (cs : list case) : list string := map out_of cs.
