(* C29 - lemmas. *)
From V Require Import Lib.Base Lib.HTerm Lib.Cbor C29.Model C29.Spec.
Local Open Scope N_scope.

(* ---- nested induction principle for scripts ---- *)
Section script_ind'.
  Variable P : script -> Prop.
  Hypothesis HPub : forall h, P (Pubkey h).
  Hypothesis HAll : forall l, Forall P l -> P (All l).
  Hypothesis HAny : forall l, Forall P l -> P (Any l).
  Hypothesis HNofK : forall n l, Forall P l -> P (NofK n l).
  Hypothesis HBefore : forall b, P (InvalidBefore b).
  Hypothesis HHereafter : forall b, P (InvalidHereafter b).
  Hypothesis HGuard : forall t h, P (RequireGuard t h).

  Fixpoint script_ind' (s : script) : P s :=
    let go := fix go (l : list script) : Forall P l :=
      match l return Forall P l with
      | [] => Forall_nil P
      | x :: r => Forall_cons x (script_ind' x) (go r)
      end in
    match s with
    | Pubkey h => HPub h
    | All l => HAll l (go l)
    | Any l => HAny l (go l)
    | NofK n l => HNofK n l (go l)
    | InvalidBefore b => HBefore b
    | InvalidHereafter b => HHereafter b
    | RequireGuard t h => HGuard t h
    end.
End script_ind'.

(* ---- list helpers ---- *)
Lemma forallb_ext_Forall {A} (f g : A -> bool) l :
  Forall (fun x => f x = g x) l -> forallb f l = forallb g l.
Proof. induction 1 as [|x r E _ IH]; cbn; [reflexivity|]. now rewrite E, IH. Qed.

Lemma existsb_ext_Forall {A} (f g : A -> bool) l :
  Forall (fun x => f x = g x) l -> existsb f l = existsb g l.
Proof. induction 1 as [|x r E _ IH]; cbn; [reflexivity|]. now rewrite E, IH. Qed.

Lemma filter_ext_Forall {A} (f g : A -> bool) l :
  Forall (fun x => f x = g x) l -> filter f l = filter g l.
Proof. induction 1 as [|x r E _ IH]; cbn; [reflexivity|]. now rewrite E, IH. Qed.

Lemma forallb_Forall {A} (f : A -> bool) l : forallb f l = true -> Forall (fun x => f x = true) l.
Proof. intros H. apply Forall_forall. intros x Hx. eapply forallb_forall in H; eauto. Qed.

Lemma Forall_forallb {A} (f : A -> bool) l : Forall (fun x => f x = true) l -> forallb f l = true.
Proof. intros H. apply forallb_forall. intros x Hx. eapply Forall_forall in H; eauto. Qed.

Lemma Forall_mp2 {A} (P Q R : A -> Prop) l :
  Forall P l -> Forall Q l -> Forall (fun x => P x -> Q x -> R x) l -> Forall R l.
Proof.
  intros HP HQ HR. induction HR as [|x r Hx _ IH]; constructor.
  - inversion HP; inversion HQ; subst. auto.
  - inversion HP; inversion HQ; subst. auto.
Qed.

(* ---- the ledger's isValidMOf is "at least m sub-scripts hold" ---- *)
Lemma valid_mof_count f l : forall z,
  valid_mof f z l = (z <=? Z.of_nat (length (filter f l)))%Z.
Proof.
  induction l as [|x r IH]; intros z; cbn [valid_mof filter length].
  - reflexivity.
  - destruct (f x); cbn [length]; rewrite IH; lia.
Qed.

Lemma valid_mof_N f m l :
  valid_mof f (Z.of_N m) l = (m <=? count_true f l).
Proof. rewrite valid_mof_count. unfold count_true. lia. Qed.

(* Stated directly: RequireMOf m holds iff some m sub-scripts hold.  A
   negative m (the ledger's m is a signed Int) always holds. *)
Lemma valid_mof_neg f z l : (z <= 0)%Z -> valid_mof f z l = true.
Proof. intros Hz. rewrite valid_mof_count. lia. Qed.

(* ---- key hashes ---- *)
Definition len28 (k : bytes) : Prop := length k = 28%nat.

Lemma mem_bytes_In h l : mem_bytes h l = true <-> In h l.
Proof.
  unfold mem_bytes. rewrite existsb_exists. split.
  - intros (x & Hin & E). apply bytes_eqb_eq in E. now subst.
  - intros Hin. exists h. split; [exact Hin|]. now apply bytes_eqb_eq.
Qed.

Lemma mem_bytes_len h keys : Forall len28 keys -> mem_bytes h keys = true -> length h = 28%nat.
Proof.
  intros Hk Hm. apply mem_bytes_In in Hm. eapply Forall_forall in Hk; eauto.
Qed.

Lemma pubkey_guard h keys : Forall len28 keys ->
  (N.of_nat (length h) =? 28) && mem_bytes h keys = mem_bytes h keys.
Proof.
  intros Hk. destruct (mem_bytes h keys) eqn:E.
  - apply (mem_bytes_len _ _ Hk) in E. rewrite E. reflexivity.
  - apply andb_false_r.
Qed.

(* ---- evaluate = spec whenever the time leaves agree ---- *)
Definition leaf_ok (c : ctx) (start ttl : option N) (s : script) : bool :=
  match s with
  | InvalidBefore b => Bool.eqb (b <=? validityStart c) (lte_neg_infty b start)
  | InvalidHereafter b => Bool.eqb (validityEnd c <=? b) (lte_pos_infty ttl b)
  | _ => true
  end.
Fixpoint leaves_ok (c : ctx) (start ttl : option N) (s : script) : bool :=
  match s with
  | All l | Any l | NofK _ l => forallb (leaves_ok c start ttl) l
  | _ => leaf_ok c start ttl s
  end.

Lemma evaluate_spec_gen c start ttl : Forall len28 (keyHashes c) -> forall s,
  leaves_ok c start ttl s = true ->
  evaluate c s = spec_eval start ttl (keyHashes c) (guardCredentials c) s.
Proof.
  intros Hk. induction s as [h|l IH|l IH|n l IH|b|b|t h] using script_ind';
    cbn [leaves_ok leaf_ok evaluate spec_eval]; intros Hl.
  - now apply pubkey_guard.
  - apply forallb_ext_Forall. apply forallb_Forall in Hl.
    eapply Forall_mp2 with (P := fun _ => True); [apply Forall_forall; auto|exact Hl|].
    eapply Forall_impl; [|exact IH]. cbn. auto.
  - apply existsb_ext_Forall. apply forallb_Forall in Hl.
    eapply Forall_mp2 with (P := fun _ => True); [apply Forall_forall; auto|exact Hl|].
    eapply Forall_impl; [|exact IH]. cbn. auto.
  - rewrite valid_mof_N. unfold count_true. f_equal. f_equal. f_equal.
    apply filter_ext_Forall. apply forallb_Forall in Hl.
    eapply Forall_mp2 with (P := fun _ => True); [apply Forall_forall; auto|exact Hl|].
    eapply Forall_impl; [|exact IH]. cbn. auto.
  - now apply eqb_prop in Hl.
  - now apply eqb_prop in Hl.
  - reflexivity.
Qed.

(* both bounds present and handed over unchanged: no side condition *)
Lemma leaves_ok_present a t keys guards s :
  leaves_ok (mkctx a t keys guards) (Some a) (Some t) s = true.
Proof.
  induction s as [h|l IH|l IH|n l IH|b|b|ty h] using script_ind';
    cbn [leaves_ok leaf_ok]; try reflexivity;
    try (apply Forall_forallb; exact IH); cbn; apply eqb_reflx.
Qed.

(* the rule's context agrees on every leaf outside the sentinel class *)
Lemma leaves_ok_rule start ttl keys guards s :
  slots_u64 s = true -> sentinel_free start ttl s = true ->
  leaves_ok (rule_ctx start ttl keys guards) start ttl s = true.
Proof.
  induction s as [h|l IH|l IH|n l IH|b|b|ty h] using script_ind';
    cbn [slots_u64 sentinel_free leaves_ok leaf_ok]; intros Hw Hs; try reflexivity.
  1-3: apply Forall_forallb; apply forallb_Forall in Hw; apply forallb_Forall in Hs;
       eapply Forall_mp2; [exact Hw|exact Hs|exact IH].
  - (* InvalidBefore *)
    cbn [leaf_affected] in Hs. unfold rule_ctx.
    destruct start as [a|]; cbn [validityStart from_opt lte_neg_infty].
    + apply eqb_reflx.
    + apply eqb_true_iff. lia.
  - (* InvalidHereafter *)
    cbn [leaf_affected] in Hs. unfold rule_ctx, u64max in *.
    destruct ttl as [t|]; cbn [validityEnd from_opt lte_pos_infty].
    + destruct (t =? 0) eqn:Et; apply eqb_true_iff; lia.
    + change (0 =? 0) with true. cbn iota. apply eqb_true_iff. lia.
Qed.

(* exactness of the side condition at the leaves *)
Lemma leaf_exact_before start ttl keys guards b :
  evaluate (rule_ctx start ttl keys guards) (InvalidBefore b)
    = spec_eval start ttl keys guards (InvalidBefore b)
  <-> leaf_affected start ttl (InvalidBefore b) = false.
Proof.
  cbn [evaluate spec_eval leaf_affected]. unfold rule_ctx.
  destruct start as [a|]; cbn [validityStart from_opt lte_neg_infty]; [tauto|]. lia.
Qed.

Lemma leaf_exact_hereafter start ttl keys guards b : b < 2^64 ->
  evaluate (rule_ctx start ttl keys guards) (InvalidHereafter b)
    = spec_eval start ttl keys guards (InvalidHereafter b)
  <-> leaf_affected start ttl (InvalidHereafter b) = false.
Proof.
  intros Hb. cbn [evaluate spec_eval leaf_affected]. unfold rule_ctx, u64max.
  destruct ttl as [t|]; cbn [validityEnd from_opt lte_pos_infty].
  - destruct (t =? 0) eqn:Et; lia.
  - change (0 =? 0) with true. cbn iota. lia.
Qed.

(* ---- decoding ---- *)
Fixpoint decode_list (l : list item) : option (list script) :=
  match l with
  | [] => Some []
  | x :: r => match decode x, decode_list r with
              | Some s, Some ss => Some (s :: ss)
              | _, _ => None
              end
  end.

Lemma decode_list_Forall2 l : forall ss, decode_list l = Some ss ->
  Forall2 (fun it s => decode it = Some s) l ss.
Proof.
  induction l as [|x r IH]; cbn [decode_list]; intros ss E.
  - injection E as <-. constructor.
  - destruct (decode x) as [s|] eqn:Ex; [|discriminate].
    destruct (decode_list r) as [ss'|] eqn:Er; [|discriminate].
    injection E as <-. constructor; auto.
Qed.

Lemma as_u64_bound it n : as_u64 it = Some n -> n < 2^64.
Proof.
  destruct it; cbn; try discriminate. destruct (n0 <? 2^64) eqn:E; [|discriminate].
  intros H; injection H as <-. lia.
Qed.

(* inversion of one decoding step *)
Ltac inv_decode it E :=
  destruct it as [?f ?n|?f ?n|?f ?bs|?cs|?f ?bs|?cs|f xs|?f ?kvs|?f ?t ?x|?f ?v|?f ?b]; try discriminate E;
  destruct f as [[| | | |]|]; try discriminate E;
  destruct xs as [|[[| | | |] id| | | | | | | | | |] args]; try discriminate E;
  cbn [decode] in E; fold decode_list in E; unfold option_map in E;
  repeat match type of E with
         | context [match ?x with _ => _ end] => destruct x eqn:?; try discriminate E
         end.

Lemma Forall2_slots l ss :
  Forall (fun s => forall it, decode it = Some s -> slots_u64 s = true) ss ->
  Forall2 (fun it s => decode it = Some s) l ss -> forallb slots_u64 ss = true.
Proof.
  intros HF H2. induction H2 as [|it s l ss E _ IH]; [reflexivity|].
  inversion HF as [|? ? Hs Hr]; subst. cbn. rewrite (Hs _ E), (IH Hr). reflexivity.
Qed.

Lemma decode_slots : forall s it, decode it = Some s -> slots_u64 s = true.
Proof.
  induction s as [h|l IH|l IH|n l IH|b|b|t h] using script_ind'; intros it E;
    cbn [slots_u64]; try reflexivity.
  - inv_decode it E; injection E as <-; eapply Forall2_slots; eauto using decode_list_Forall2.
  - inv_decode it E; injection E as <-; eapply Forall2_slots; eauto using decode_list_Forall2.
  - inv_decode it E; injection E as <- <-; eapply Forall2_slots; eauto using decode_list_Forall2.
  - inv_decode it E; injection E as <-. apply N.ltb_lt. eapply as_u64_bound; eauto.
  - inv_decode it E; injection E as <-. apply N.ltb_lt. eapply as_u64_bound; eauto.
Qed.

(* ---- decoding the CDDL encoding gives the script back ---- *)
Lemma decode_list_map l :
  Forall (fun s => representable s = true -> decode (to_item s) = Some s) l ->
  forallb representable l = true -> decode_list (map to_item l) = Some l.
Proof.
  induction 1 as [|x r Hx _ IH]; cbn [map decode_list forallb]; intros Hr; [reflexivity|].
  apply andb_true_iff in Hr. destruct Hr as [H1 H2]. now rewrite (Hx H1), (IH H2).
Qed.

Lemma decode_to_item : forall s, representable s = true -> decode (to_item s) = Some s.
Proof.
  induction s as [h|l IH|l IH|n l IH|b|b|t h] using script_ind'; cbn [representable]; intros Hr;
    cbn [to_item decode]; fold decode_list; cbn [as_bytes as_u64 option_map].
  - reflexivity.
  - now rewrite (decode_list_map l IH Hr).
  - now rewrite (decode_list_map l IH Hr).
  - apply andb_true_iff in Hr. destruct Hr as [Hn Hl]. rewrite Hn, (decode_list_map l IH Hl). reflexivity.
  - now rewrite Hr.
  - now rewrite Hr.
  - now rewrite Hr.
Qed.

(* ---- hashing ---- *)
Lemma script_hash_eval H stored : heval H (script_hash stored) = H 1 (0 :: stored).
Proof. cbn. now rewrite app_nil_r. Qed.
