(* C29 - property theorems only.  The model is the code with
   fixes/C29-pubkey-hash-length.patch applied. *)
From Coq Require Import String.
From V Require Import Lib.Base Lib.Hex Lib.HTerm Lib.Cbor C29.Model C29.Spec C29.Proofs.
Local Open Scope N_scope.

(* NativeScript.evaluate computes the ledger's evalTimelock for EVERY script
   (any depth and width), key set and guard set, when it is told the
   transaction's real bounds (both present).  keys are 28-byte hashes. *)
Theorem C29_evaluate_present_bounds :
  forall (s : script) (a t : N) (keys : list bytes) (guards : list (N * bytes)),
    Forall len28 keys ->
    evaluate (mkctx a t keys guards) s = spec_eval (Some a) (Some t) keys guards s.
Proof.
  intros s a t keys guards Hk.
  apply (evaluate_spec_gen (mkctx a t keys guards) (Some a) (Some t) Hk).
  apply leaves_ok_present.
Qed.
Print Assumptions C29_evaluate_present_bounds.

(* The full statement for the era rule: evaluation under the context that
   UtxoValidateNativeScripts builds from the transaction's wire bounds equals
   the ledger semantics - on every script that has no leaf in the sentinel
   class (Spec.leaf_affected).  _partial: the side condition is needed, see
   C29_eval_refuted_*. *)
Theorem C29_eval_partial :
  forall (s : script) (start ttl : option N) (keys : list bytes) (guards : list (N * bytes)),
    Forall len28 keys ->
    slots_u64 s = true ->
    sentinel_free start ttl s = true ->
    evaluate (rule_ctx start ttl keys guards) s = spec_eval start ttl keys guards s.
Proof.
  intros s start ttl keys guards Hk Hw Hs.
  apply (evaluate_spec_gen (rule_ctx start ttl keys guards) start ttl Hk).
  now apply leaves_ok_rule.
Qed.
Print Assumptions C29_eval_partial.

(* the side condition is exact at the leaves: a time leaf agrees with the
   ledger iff it is not in the sentinel class *)
Theorem C29_leaf_exact :
  forall start ttl keys guards b, b < 2^64 ->
    (evaluate (rule_ctx start ttl keys guards) (InvalidBefore b)
       = spec_eval start ttl keys guards (InvalidBefore b)
     <-> leaf_affected start ttl (InvalidBefore b) = false) /\
    (evaluate (rule_ctx start ttl keys guards) (InvalidHereafter b)
       = spec_eval start ttl keys guards (InvalidHereafter b)
     <-> leaf_affected start ttl (InvalidHereafter b) = false).
Proof.
  intros. split; [apply leaf_exact_before|now apply leaf_exact_hereafter].
Qed.

(* The unrestricted statement is false of the code (known findings). *)
Theorem C29_eval_refuted_invalid_before_0_without_validity_start :
  exists s start ttl,
    slots_u64 s = true /\
    evaluate (rule_ctx start ttl [] []) s = true /\ spec_eval start ttl [] [] s = false.
Proof. exists (InvalidBefore 0), None, (Some 100). vm_compute. auto. Qed.

Theorem C29_eval_refuted_invalid_hereafter_max_without_ttl :
  exists s start ttl,
    slots_u64 s = true /\
    evaluate (rule_ctx start ttl [] []) s = true /\ spec_eval start ttl [] [] s = false.
Proof. exists (InvalidHereafter u64max), (Some 5), None. vm_compute. auto. Qed.

Theorem C29_eval_refuted_ttl_present_zero :
  exists s start ttl,
    slots_u64 s = true /\
    evaluate (rule_ctx start ttl [] []) s = false /\ spec_eval start ttl [] [] s = true.
Proof. exists (InvalidHereafter 7), None, (Some 0). vm_compute. auto. Qed.

(* pubkey: a matching witness, nothing else (also for hashes that are not 28 bytes) *)
Theorem C29_pubkey : forall c h,
  evaluate c (Pubkey h) = true <-> length h = 28%nat /\ In h (keyHashes c).
Proof.
  intros c h. cbn [evaluate]. rewrite andb_true_iff, mem_bytes_In, N.eqb_eq. intuition lia.
Qed.

(* n-of-k: the counting loop is the ledger's isValidMOf, for every n
   (also n > length) and every predicate *)
Theorem C29_mofn : forall f n l,
  valid_mof f (Z.of_N n) l = (n <=? count_true f l).
Proof. exact valid_mof_N. Qed.

(* what decoding yields is within the theorems' hypothesis *)
Theorem C29_decode_slots : forall it s, decode it = Some s -> slots_u64 s = true.
Proof. intros it s. apply decode_slots. Qed.

(* decoding dispatches on the type id as the CDDL says: the canonical
   encoding of EVERY script the Go types can hold decodes to that script *)
Theorem C29_decode_roundtrip : forall s, representable s = true -> decode (to_item s) = Some s.
Proof. exact decode_to_item. Qed.

(* the script hash is Blake2b-224 (H 1) of a zero byte followed by the
   original encoding of the decoded item, whatever header forms it uses *)
Theorem C29_hash : forall (H : N -> bytes -> bytes) it s,
  decode it = Some s -> heval H (script_hash (enc it)) = H 1 (0 :: enc it).
Proof. intros. apply script_hash_eval. Qed.
Print Assumptions C29_hash.

(* non-vacuity: a depth-3 script with both time locks satisfies the side
   conditions and evaluates to true; and one that evaluates to false *)
Example C29_nonvacuous :
  let k := hx "01020304050607080910111213141516171819202122232425262728"%string in
  let s := All [NofK 2 [Pubkey k; InvalidBefore 10; Any [InvalidHereafter 50; Pubkey []]]; InvalidBefore 0] in
  slots_u64 s = true /\ sentinel_free (Some 10) (Some 40) s = true /\
  evaluate (rule_ctx (Some 10) (Some 40) [k] []) s = true /\
  evaluate (rule_ctx (Some 9) (Some 40) [] []) s = false.
Proof. vm_compute. auto. Qed.
