(* C27 - lemmas relating the rule bodies to the balance equation. *)
From V Require Import Lib.Base C27.Model C27.Spec.
Local Open Scope Z_scope.

(* ---- sums ------------------------------------------------------------------ *)
Lemma fold_add_acc l : forall a, fold_left Z.add l a = a + fold_left Z.add l 0.
Proof.
  induction l as [|x r IH]; intros a; cbn [fold_left]; [lia|].
  rewrite IH. rewrite (IH (0 + x)). lia.
Qed.
Lemma zsum_ztotal l : zsum l = ztotal l.
Proof.
  unfold zsum. induction l as [|x r IH]; cbn [fold_left ztotal]; [reflexivity|].
  rewrite fold_add_acc. rewrite IH. lia.
Qed.
Lemma ztotal_app a b : ztotal (a ++ b) = ztotal a + ztotal b.
Proof. induction a as [|x r IH]; cbn [app ztotal]; [lia|]. rewrite IH. lia. Qed.

(* ---- asset ids ------------------------------------------------------------- *)
Lemma aid_eqb_eq a b : aid_eqb a b = true <-> a = b.
Proof.
  destruct a as [p n], b as [p' n']. unfold aid_eqb. cbn [fst snd].
  rewrite andb_true_iff, !bytes_eqb_eq. split; [intros [-> ->]; reflexivity|intros E; inversion E; auto].
Qed.
Lemma aid_eqb_refl a : aid_eqb a a = true.
Proof. apply aid_eqb_eq. reflexivity. Qed.
Lemma aid_eqb_neq a b : a <> b -> aid_eqb a b = false.
Proof. intros H. destruct (aid_eqb a b) eqn:E; [apply aid_eqb_eq in E; contradiction|reflexivity]. Qed.
Lemma aid_dec (a b : aid) : {a = b} + {a <> b}.
Proof. destruct (aid_eqb a b) eqn:E; [left; apply aid_eqb_eq; exact E|right; intros ->; rewrite aid_eqb_refl in E; discriminate]. Qed.

(* ---- qty -------------------------------------------------------------------- *)
Lemma qty_app a b k : qty (a ++ b) k = qty a k + qty b k.
Proof. induction a as [|[k' q] r IH]; cbn [app qty]; [lia|]. rewrite IH. lia. Qed.

Lemma coin_vsum l : coin (vsum l) = ztotal (map coin l).
Proof. induction l as [|v r IH]; cbn [vsum fold_right map ztotal coin vzero vadd]; [reflexivity|]. unfold vsum in IH. rewrite IH. reflexivity. Qed.
Lemma assets_vsum l : assets (vsum l) = flat_map assets l.
Proof. induction l as [|v r IH]; cbn [vsum fold_right flat_map assets vzero vadd]; [reflexivity|]. unfold vsum in IH. rewrite IH. reflexivity. Qed.

(* ---- the Go map as an association list ---------------------------------------- *)
Lemma mget0_madd m k q k' : mget0 (madd m k q) k' = mget0 m k' + (if aid_eqb k k' then q else 0).
Proof.
  unfold mget0. induction m as [|[k1 q1] r IH]; cbn [madd mget].
  - destruct (aid_eqb k k'); lia.
  - destruct (aid_eqb k1 k) eqn:E1; cbn [mget].
    + apply aid_eqb_eq in E1. subst k1. destruct (aid_eqb k k'); lia.
    + destruct (aid_eqb k1 k') eqn:E2.
      * destruct (aid_eqb k k') eqn:E3; [|lia].
        apply aid_eqb_eq in E2, E3. subst. rewrite aid_eqb_refl in E1. discriminate.
      * exact IH.
Qed.

Lemma mget0_madd_all l : forall m k, mget0 (madd_all m l) k = mget0 m k + qty l k.
Proof.
  unfold madd_all. induction l as [|[k1 q1] r IH]; intros m k; cbn [fold_left qty fst snd]; [lia|].
  rewrite IH, mget0_madd. lia.
Qed.

Definition keys (m : massets) : list aid := map fst m.

Lemma keys_madd m k q : forall x, In x (keys (madd m k q)) <-> x = k \/ In x (keys m).
Proof.
  induction m as [|[k1 q1] r IH]; intros x; cbn [madd keys map In fst].
  - intuition.
  - destruct (aid_eqb k1 k) eqn:E; cbn [keys map In fst].
    + apply aid_eqb_eq in E. subst. intuition.
    + fold (keys (madd r k q)). rewrite IH. fold (keys r). intuition.
Qed.

Lemma nodup_madd m k q : NoDup (keys m) -> NoDup (keys (madd m k q)).
Proof.
  induction m as [|[k1 q1] r IH]; intros H; cbn [madd].
  - cbn. constructor; [intros []|constructor].
  - destruct (aid_eqb k1 k) eqn:E.
    + exact H.
    + cbn [keys map fst] in *. inversion H as [|? ? Hn Hr]; subst. constructor.
      * fold (keys (madd r k q)). rewrite keys_madd. intros [->|Hin]; [rewrite aid_eqb_refl in E; discriminate|].
        apply Hn. exact Hin.
      * apply IH. exact Hr.
Qed.

Lemma nodup_madd_all l : forall m, NoDup (keys m) -> NoDup (keys (madd_all m l)).
Proof.
  unfold madd_all. induction l as [|e r IH]; intros m H; cbn [fold_left]; [exact H|].
  apply IH. apply nodup_madd. exact H.
Qed.

Lemma mget_in m : NoDup (keys m) -> forall k q, In (k, q) m -> mget m k = Some q.
Proof.
  induction m as [|[k1 q1] r IH]; intros H k q Hin; [destruct Hin|].
  cbn [keys map fst] in H. inversion H as [|? ? Hn Hr]; subst.
  cbn [mget]. destruct Hin as [E|Hin].
  - inversion E; subst. rewrite aid_eqb_refl. reflexivity.
  - destruct (aid_eqb k1 k) eqn:E.
    + apply aid_eqb_eq in E. subst. exfalso. apply Hn. change k with (fst (k, q)). apply in_map. exact Hin.
    + apply IH; assumption.
Qed.

Lemma mget_none m k : mget m k = None <-> ~ In k (keys m).
Proof.
  induction m as [|[k1 q1] r IH]; cbn [mget keys map fst In]; [intuition|].
  destruct (aid_eqb k1 k) eqn:E.
  - apply aid_eqb_eq in E. subst. split; [discriminate|intros H; exfalso; apply H; left; reflexivity].
  - fold (keys r). rewrite IH. split; [intros H [->|Hin]; [rewrite aid_eqb_refl in E; discriminate|auto]|intuition].
Qed.

Lemma mget_some_in m k q : mget m k = Some q -> In (k, q) m.
Proof.
  induction m as [|[k1 q1] r IH]; cbn [mget]; [discriminate|].
  destruct (aid_eqb k1 k) eqn:E; intros H.
  - apply aid_eqb_eq in E. inversion H; subst. left. reflexivity.
  - right. apply IH. exact H.
Qed.

Lemma flat_map_nil {A B} (f : A -> list B) l : flat_map f l = [] <-> forall x, In x l -> f x = [].
Proof.
  induction l as [|a r IH]; cbn [flat_map]; [split; [intros _ x []|reflexivity]|].
  split.
  - intros H x [->|Hin]; apply app_eq_nil in H; destruct H as [H1 H2]; [exact H1|apply IH; assumption].
  - intros H. rewrite (H a (or_introl eq_refl)). apply IH. intros x Hin. apply H. right. exact Hin.
Qed.

(* the two Go loops accept iff the two maps agree at every key *)
Lemma asset_check_ok t :
  asset_check t = Ok <-> forall k, mget0 (consumed_assets t) k = mget0 (produced_assets t) k.
Proof.
  unfold asset_check, asset_mismatches.
  set (c := consumed_assets t). set (p := produced_assets t).
  assert (Nc : NoDup (keys c)) by (apply nodup_madd_all, nodup_madd_all; constructor).
  assert (Np : NoDup (keys p)) by (apply nodup_madd_all; constructor).
  split.
  - intros H.
    destruct (flat_map _ c ++ flat_map _ p) eqn:E; [|discriminate].
    apply app_eq_nil in E. destruct E as [E1 E2].
    rewrite flat_map_nil in E1, E2.
    intros k. destruct (mget c k) as [q|] eqn:G.
    + pose proof (mget_some_in _ _ _ G) as Hin. specialize (E1 _ Hin). cbn [fst snd] in E1.
      unfold mget0 at 1. rewrite G.
      destruct (q =? mget0 p k) eqn:Q; [lia|discriminate].
    + unfold mget0 at 1. rewrite G.
      destruct (mget p k) as [q|] eqn:G2; unfold mget0; rewrite G2; [|reflexivity].
      pose proof (mget_some_in _ _ _ G2) as Hin. specialize (E2 _ Hin). cbn [fst snd] in E2.
      rewrite G in E2. destruct (q =? 0) eqn:Q; [lia|discriminate].
  - intros H.
    assert (E1 : flat_map (fun e => if snd e =? mget0 p (fst e) then [] else [(snd e, mget0 p (fst e))]) c = []).
    { apply flat_map_nil. intros [k q] Hin. cbn [fst snd].
      pose proof (mget_in _ Nc _ _ Hin) as G. specialize (H k). unfold mget0 at 1 in H. rewrite G in H.
      destruct (q =? mget0 p k) eqn:Q; [reflexivity|lia]. }
    assert (E2 : flat_map (fun e => match mget c (fst e) with Some _ => [] | None => if snd e =? 0 then [] else [(0, snd e)] end) p = []).
    { apply flat_map_nil. intros [k q] Hin. cbn [fst snd].
      destruct (mget c k) eqn:G; [reflexivity|].
      pose proof (mget_in _ Np _ _ Hin) as G2. specialize (H k). unfold mget0 in H. rewrite G, G2 in H.
      destruct (q =? 0) eqn:Q; [reflexivity|lia]. }
    rewrite E1, E2. reflexivity.
Qed.

Lemma mget0_nil k : mget0 [] k = 0.
Proof. reflexivity. Qed.

Lemma consumed_assets_qty t k :
  mget0 (consumed_assets t) k = qty (flat_map assets (resolved (inputs t))) k + qty (mint_counted t) k.
Proof. unfold consumed_assets. rewrite !mget0_madd_all, mget0_nil. lia. Qed.
Lemma produced_assets_qty t k :
  mget0 (produced_assets t) k = qty (flat_map assets (outputs t)) k.
Proof. unfold produced_assets. rewrite mget0_madd_all, mget0_nil. lia. Qed.

(* ---- zero policy ---------------------------------------------------------------- *)
Lemma mint_counted_free t : zero_policy_free t -> mint_counted t = mint t.
Proof.
  unfold zero_policy_free, mint_counted. induction (mint t) as [|e r IH]; cbn [forallb filter]; [reflexivity|].
  intros H. apply andb_true_iff in H. destruct H as [H1 H2]. rewrite H1, IH; auto.
Qed.
Lemma minted_ada_free t : zero_policy_free t -> minted_ada t = 0.
Proof.
  unfold zero_policy_free, minted_ada, mget0.
  induction (mint t) as [|[[p n] q] r IH]; cbn [forallb mget]; [reflexivity|].
  intros H. apply andb_true_iff in H. destruct H as [H1 H2].
  unfold is_zero_policy in H1. cbn [fst] in H1.
  unfold aid_eqb. cbn [fst snd]. destruct (bytes_eqb p zero28); [discriminate|]. cbn [andb]. apply IH. exact H2.
Qed.

(* ---- certificate loops -------------------------------------------------------------- *)
Lemma sum_certs_val f g cs : forall acc,
  (forall c z, In c cs -> f c = Val z -> z = g c) ->
  forall z, sum_certs f cs acc = Val z -> z = acc + ztotal (map g cs) /\ forall c, In c cs -> f c = Val (g c).
Proof.
  induction cs as [|c r IH]; intros acc Hg z H; cbn [sum_certs map ztotal] in *.
  - inversion H. split; [lia|intros c []].
  - destruct (f c) as [o|v] eqn:E; [discriminate|].
    pose proof (Hg c v (or_introl eq_refl) E) as ->.
    apply IH in H; [|intros c' z' Hin; apply Hg; right; exact Hin].
    destruct H as [H1 H2]. split; [lia|].
    intros c' [<-|Hin]; [exact E|apply H2; exact Hin].
Qed.

Lemma sum_certs_total f g cs : forall acc,
  (forall c, In c cs -> f c = Val (g c)) -> sum_certs f cs acc = Val (acc + ztotal (map g cs)).
Proof.
  induction cs as [|c r IH]; intros acc H; cbn [sum_certs map ztotal].
  - f_equal. lia.
  - rewrite (H c (or_introl eq_refl)). rewrite IH; [|intros c' Hin; apply H; right; exact Hin].
    f_equal. lia.
Qed.

(* amount the Go deposit loops add for one certificate *)
Definition pool_charge (st : lstate) (c : cert) : Z :=
  match c with CPoolReg op => match pool st op with PoolUnreg => pool_deposit st | _ => 0 end | _ => 0 end.

Lemma pool_charge_total st cs :
  ztotal (map (pool_charge st) cs) = pool_deposit st * Z.of_nat (length (new_pool_regs st cs)).
Proof.
  induction cs as [|c r IH]; cbn [map ztotal new_pool_regs flat_map length]; [lia|].
  rewrite IH. fold (new_pool_regs st r). rewrite app_length.
  destruct c; cbn [pool_charge length]; try lia.
  destruct (pool st operator); cbn [length]; lia.
Qed.

Lemma ztotal_map_add {A} (f g : A -> Z) l : ztotal (map (fun x => f x + g x) l) = ztotal (map f l) + ztotal (map g l).
Proof. induction l as [|x r IH]; cbn [map ztotal]; [lia|]. rewrite IH. lia. Qed.

Lemma ztotal_map_ext {A} (f g : A -> Z) l : (forall x, In x l -> f x = g x) -> ztotal (map f l) = ztotal (map g l).
Proof.
  induction l as [|x r IH]; intros H; cbn [map ztotal]; [reflexivity|].
  rewrite (H x (or_introl eq_refl)). rewrite IH; [reflexivity|intros y Hy; apply H; right; exact Hy].
Qed.

Lemma new_pools_distinct st t : distinct_new_pools st t -> new_pools st (certs t) = new_pool_regs st (certs t).
Proof. intros H. unfold new_pools. apply nodup_fixed_point. exact H. Qed.

(* ---- spec projections ------------------------------------------------------------------ *)
Lemma consumed_spec_coin st t :
  coin (consumed_spec st t) = ztotal (map coin (resolved (inputs t))) + ztotal (wdrls t) + ztotal (map (refund_of st) (certs t)).
Proof. unfold consumed_spec. cbn [coin vadd of_coin of_assets]. rewrite coin_vsum. lia. Qed.
Lemma consumed_spec_assets st t k :
  qty (assets (consumed_spec st t)) k = qty (flat_map assets (resolved (inputs t))) k + qty (mint t) k.
Proof. unfold consumed_spec. cbn [assets vadd of_coin of_assets]. rewrite assets_vsum, !qty_app. cbn [app qty]. lia. Qed.
Lemma produced_spec_coin st t :
  coin (produced_spec st t) = ztotal (map coin (outputs t)) + fee t + total_deposits st t + donation t.
Proof. unfold produced_spec. cbn [coin vadd of_coin]. rewrite coin_vsum. lia. Qed.
Lemma produced_spec_assets st t k :
  qty (assets (produced_spec st t)) k = qty (flat_map assets (outputs t)) k.
Proof. unfold produced_spec. cbn [assets vadd of_coin]. rewrite assets_vsum, !qty_app. cbn [app qty]. lia. Qed.

(* asset part, under the zero-policy side condition *)
Lemma asset_check_balanced st t : zero_policy_free t ->
  (asset_check t = Ok <-> forall k, qty (assets (consumed_spec st t)) k = qty (assets (produced_spec st t)) k).
Proof.
  intros Z. rewrite asset_check_ok. split; intros H k; specialize (H k).
  - rewrite consumed_spec_assets, produced_spec_assets. rewrite consumed_assets_qty, produced_assets_qty, mint_counted_free in H by exact Z. exact H.
  - rewrite consumed_spec_assets, produced_spec_assets in H. rewrite consumed_assets_qty, produced_assets_qty, mint_counted_free by exact Z. exact H.
Qed.

Lemma asset_check_cases t : asset_check t = Ok \/ exists l, asset_check t = NotConservedAsset l.
Proof. unfold asset_check. destruct (asset_mismatches t); [left; reflexivity|right; eauto]. Qed.
