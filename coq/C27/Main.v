(* C27 - the rule bodies accept exactly the balanced transactions (under the
   stated side conditions). *)
From V Require Import Lib.Base C27.Model C27.Spec C27.Proofs.
Local Open Scope Z_scope.

Lemma sum_certs_err f cs : forall acc o, sum_certs f cs acc = Err o -> exists c, In c cs /\ f c = Err o.
Proof.
  induction cs as [|c r IH]; intros acc o H; cbn [sum_certs] in H; [discriminate|].
  destruct (f c) as [o'|v] eqn:E.
  - inversion H; subst. exists c. split; [left; reflexivity|exact E].
  - apply IH in H. destruct H as (c' & Hin & E'). exists c'. split; [right; exact Hin|exact E'].
Qed.

Lemma pos_amount_val a z : pos_amount a = Val z -> z = a /\ 0 < a.
Proof. unfold pos_amount. destruct (a <=? 0) eqn:E; intros H; inversion H; subst. split; [reflexivity|lia]. Qed.
Lemma pos_amount_pos a : 0 < a -> pos_amount a = Val a.
Proof. unfold pos_amount. intros H. destruct (a <=? 0) eqn:E; [lia|reflexivity]. Qed.
Lemma pos_amount_err a o : pos_amount a = Err o -> o = BadDeposit /\ a <= 0.
Proof. unfold pos_amount. destruct (a <=? 0) eqn:E; intros H; inversion H; subst. split; [reflexivity|lia]. Qed.

(* the coin totals of the balance equation *)
Definition C_coin st t : Z :=
  ztotal (map coin (resolved (inputs t))) + ztotal (wdrls t) + ztotal (map (refund_of st) (certs t)).
Definition P_coin st t : Z :=
  ztotal (map coin (outputs t)) + fee t + ztotal (map (deposit_of st) (certs t))
  + pool_deposit st * Z.of_nat (length (new_pool_regs st (certs t))) + ztotal (proposals t) + donation t.

Lemma spec_coin_eq st t : distinct_new_pools st t ->
  (coin (consumed_spec st t) = coin (produced_spec st t) <-> C_coin st t = P_coin st t).
Proof.
  intros D. rewrite consumed_spec_coin, produced_spec_coin. unfold total_deposits, C_coin, P_coin.
  rewrite (new_pools_distinct _ _ D). lia.
Qed.

(* ------------------------------------------------------------------------------ *)
(* legacy coin part (shelley body; first half of the mary body)                     *)

Lemma legacy_refund_val st c : legacy_cert c = true -> legacy_refund st c = Val (refund_of st c).
Proof. destruct c; cbn; intros H; try discriminate; reflexivity. Qed.

Lemma legacy_deposit_val st c z : legacy_cert c = true -> legacy_deposit st c = Val z ->
  z = deposit_of st c + pool_charge st c /\ (forall op, c = CPoolReg op -> pool st op <> PoolErr).
Proof.
  destruct c; cbn [legacy_cert legacy_deposit deposit_of pool_charge]; intros L H; try discriminate;
    try (inversion H; subst; split; [lia|intros op E; discriminate]).
  destruct (pool st operator) eqn:P; inversion H; subst; (split; [lia|]); intros op E; inversion E; subst; rewrite P; discriminate.
Qed.

Lemma legacy_deposit_total st c : legacy_cert c = true ->
  (forall op, c = CPoolReg op -> pool st op <> PoolErr) ->
  legacy_deposit st c = Val (deposit_of st c + pool_charge st c).
Proof.
  destruct c; cbn [legacy_cert legacy_deposit deposit_of pool_charge]; intros L H; try discriminate; try (f_equal; lia).
  destruct (pool st operator) eqn:P; try (f_equal; lia). exfalso. apply (H operator eq_refl). exact P.
Qed.

Lemma legacy_deposit_err st c o : legacy_deposit st c = Err o ->
  o = PoolLookupErr /\ exists op, c = CPoolReg op /\ pool st op = PoolErr.
Proof.
  destruct c; cbn [legacy_deposit]; intros H; try discriminate.
  destruct (pool st operator) eqn:P; inversion H; subst. split; [reflexivity|eauto].
Qed.

Definition legacy_class st t (o : outcome) : Prop :=
  match o with
  | Ok => no_pool_err st t /\ C_coin st t = P_coin st t
  | NotConservedCoin c p => no_pool_err st t /\ c = C_coin st t /\ p = P_coin st t /\ c <> p
  | PoolLookupErr => ~ no_pool_err st t
  | _ => False
  end.

Lemma legacy_characterised st t : pre_conway t -> legacy_class st t (conserved_legacy st t).
Proof.
  intros (L & Pr & Dn). rewrite forallb_forall in L.
  unfold conserved_legacy.
  rewrite (sum_certs_total (legacy_refund st) (refund_of st)) by (intros c Hin; apply legacy_refund_val, L, Hin).
  destruct (sum_certs (legacy_deposit st) (certs t) (outputs_coin t + fee t)) as [o|p] eqn:E.
  - apply sum_certs_err in E. destruct E as (c & Hin & E). apply legacy_deposit_err in E.
    destruct E as (-> & op & -> & Pe). cbn. intros H. apply (H op Hin). exact Pe.
  - apply (sum_certs_val _ (fun c => deposit_of st c + pool_charge st c)) in E.
    2:{ intros c z Hin Ez. apply (legacy_deposit_val st c z (L c Hin) Ez). }
    destruct E as (-> & All).
    assert (NP : no_pool_err st t).
    { intros op Hin. specialize (All _ Hin). eapply legacy_deposit_val in All; [|apply L, Hin]. destruct All as [_ H]. apply H. reflexivity. }
    assert (EC : inputs_coin t + zsum (wdrls t) + ztotal (map (refund_of st) (certs t)) = C_coin st t).
    { unfold inputs_coin, C_coin. rewrite !zsum_ztotal. lia. }
    assert (EP : outputs_coin t + fee t + ztotal (map (fun c => deposit_of st c + pool_charge st c) (certs t)) = P_coin st t).
    { unfold outputs_coin, P_coin. rewrite zsum_ztotal, ztotal_map_add, pool_charge_total, Pr, Dn. cbn [ztotal]. lia. }
    rewrite EC, EP. destruct (C_coin st t =? P_coin st t) eqn:Q; cbn; [split; [exact NP|lia]|].
    repeat split; auto. lia.
Qed.

Lemma legacy_ok_iff st t : pre_conway t ->
  (conserved_legacy st t = Ok <-> no_pool_err st t /\ C_coin st t = P_coin st t).
Proof.
  intros Pre. pose proof (legacy_characterised st t Pre) as H.
  split.
  - intros E. rewrite E in H. exact H.
  - intros [NP EQ]. destruct (conserved_legacy st t); cbn in H; try contradiction; try reflexivity.
    all: destruct H as (_ & -> & -> & Hne); contradiction.
Qed.

(* Shelley / Allegra *)
Theorem legacy_accepts_iff st t : pre_conway t -> coin_only t -> distinct_new_pools st t ->
  (conserved_legacy st t = Ok <-> no_pool_err st t /\ balanced st t).
Proof.
  intros Pre (Ci & Co & Cm) D. rewrite (legacy_ok_iff st t Pre). rewrite <- (spec_coin_eq st t D).
  unfold balanced, veq. split; intros [NP H]; (split; [exact NP|]).
  - split; [exact H|]. intros k. rewrite consumed_spec_assets, produced_spec_assets, Cm.
    assert (Z1 : flat_map assets (resolved (inputs t)) = []) by (apply flat_map_nil; exact Ci).
    assert (Z2 : flat_map assets (outputs t) = []) by (apply flat_map_nil; exact Co).
    rewrite Z1, Z2. reflexivity.
  - apply H.
Qed.

(* Mary / Alonzo / Babbage *)
Theorem mary_accepts_iff st t : pre_conway t -> distinct_new_pools st t -> zero_policy_free t ->
  (conserved_mary st t = Ok <-> no_pool_err st t /\ balanced st t).
Proof.
  intros Pre D Zf. unfold conserved_mary, balanced, veq.
  rewrite <- (asset_check_balanced st t Zf), (spec_coin_eq st t D).
  pose proof (legacy_ok_iff st t Pre) as L.
  destruct (conserved_legacy st t) eqn:E.
  - destruct L as [L _]. destruct (L eq_refl) as [NP EQ]. split; [intros A; auto|intros (_ & _ & A); exact A].
  - split; [intros H; discriminate|]. intros (NP & EQ & _). destruct L as [_ L]. discriminate (L (conj NP EQ)).
  - split; [intros H; discriminate|]. intros (NP & EQ & _). destruct L as [_ L]. discriminate (L (conj NP EQ)).
  - split; [intros H; discriminate|]. intros (NP & EQ & _). destruct L as [_ L]. discriminate (L (conj NP EQ)).
  - split; [intros H; discriminate|]. intros (NP & EQ & _). destruct L as [_ L]. discriminate (L (conj NP EQ)).
  - split; [intros H; discriminate|]. intros (NP & EQ & _). destruct L as [_ L]. discriminate (L (conj NP EQ)).
  - split; [intros H; discriminate|]. intros (NP & EQ & _). destruct L as [_ L]. discriminate (L (conj NP EQ)).
Qed.

(* ------------------------------------------------------------------------------ *)
(* conway                                                                           *)

Lemma conway_refund_val st c z : conway_refund st c = Val z ->
  z = refund_of st c /\ (forall a, (c = CDereg a \/ c = CDeregDrep a) -> 0 < a).
Proof.
  destruct c; cbn [conway_refund refund_of]; intros H;
    try (inversion H; subst; split; [reflexivity|intros a [E|E]; discriminate]).
  - apply pos_amount_val in H. destruct H as [-> P]. split; [reflexivity|]. intros a [E|E]; inversion E; subst; exact P.
  - apply pos_amount_val in H. destruct H as [-> P]. split; [reflexivity|]. intros a [E|E]; inversion E; subst; exact P.
Qed.

Lemma conway_deposit_val st c z : conway_deposit st c = Val z ->
  z = deposit_of st c + pool_charge st c /\ (forall op, c = CPoolReg op -> pool st op <> PoolErr) /\
  (forall a, cert_amount c = Some a -> (forall b, c <> CDereg b /\ c <> CDeregDrep b) -> 0 < a).
Proof.
  destruct c; cbn [conway_deposit deposit_of pool_charge cert_amount]; intros H.
  1,2,11: inversion H; subst; (split; [lia|]); (split; [intros op E; discriminate|intros a E; discriminate]).
  - destruct (pool st operator) eqn:P; inversion H; subst; (split; [lia|]);
      (split; [intros op E; inversion E; subst; rewrite P; discriminate|intros a E; discriminate]).
  - apply pos_amount_val in H. destruct H as [-> P]. split; [lia|]. split; [intros op E; discriminate|intros a E _; inversion E; subst; exact P].
  - inversion H; subst. split; [|split]; [| intros op E; discriminate|intros a E N; exfalso; apply (proj1 (N amt)); reflexivity].
    (* CDereg contributes no deposit *) reflexivity.
  - apply pos_amount_val in H. destruct H as [-> P]. split; [lia|]. split; [intros op E; discriminate|intros a E _; inversion E; subst; exact P].
  - apply pos_amount_val in H. destruct H as [-> P]. split; [lia|]. split; [intros op E; discriminate|intros a E _; inversion E; subst; exact P].
  - apply pos_amount_val in H. destruct H as [-> P]. split; [lia|]. split; [intros op E; discriminate|intros a E _; inversion E; subst; exact P].
  - apply pos_amount_val in H. destruct H as [-> P]. split; [lia|]. split; [intros op E; discriminate|intros a E _; inversion E; subst; exact P].
  - inversion H; subst. split; [reflexivity|]. split; [intros op E; discriminate|intros a E N; exfalso; apply (proj2 (N amt)); reflexivity].
Qed.

Lemma conway_refund_total st c : (forall a, cert_amount c = Some a -> 0 < a) ->
  conway_refund st c = Val (refund_of st c).
Proof.
  destruct c; cbn [conway_refund refund_of cert_amount]; intros H; try reflexivity; apply pos_amount_pos, H; reflexivity.
Qed.

Lemma conway_deposit_total st c : (forall a, cert_amount c = Some a -> 0 < a) ->
  (forall op, c = CPoolReg op -> pool st op <> PoolErr) ->
  conway_deposit st c = Val (deposit_of st c + pool_charge st c).
Proof.
  destruct c; cbn [conway_deposit deposit_of pool_charge cert_amount]; intros H HP;
    try (f_equal; lia); try (rewrite pos_amount_pos by (apply H; reflexivity); f_equal; lia).
  destruct (pool st operator) eqn:P; try (f_equal; lia). exfalso. apply (HP operator eq_refl). exact P.
Qed.

Lemma conway_refund_err st c o : conway_refund st c = Err o -> o = BadDeposit.
Proof. destruct c; cbn [conway_refund]; intros H; try discriminate; apply pos_amount_err in H; apply H. Qed.
Lemma conway_deposit_err st c o : conway_deposit st c = Err o -> o = BadDeposit \/ o = PoolLookupErr.
Proof.
  destruct c; cbn [conway_deposit]; intros H; try discriminate; try (apply pos_amount_err in H; left; apply H).
  destruct (pool st operator); inversion H. right. reflexivity.
Qed.

Lemma conway_donation_val t d : 0 <= donation t -> conway_donation t = Val d -> d = donation t /\ donation_allowed t.
Proof.
  unfold conway_donation, donation_allowed. intros NN.
  destruct (0 <? donation t) eqn:Pz.
  - destruct (wit_v1 t); [discriminate|]. destruct (wit_v2 t); [discriminate|]. cbn [orb].
    destruct (scan_refins (refins t)); try discriminate. intros H; inversion H. split; [reflexivity|right; auto].
  - intros H; inversion H. split; [lia|left; lia].
Qed.
Lemma conway_donation_total t : 0 <= donation t -> donation_allowed t -> conway_donation t = Val (donation t).
Proof.
  unfold conway_donation, donation_allowed. intros NN [Z|(A & B & S)].
  - rewrite Z. reflexivity.
  - rewrite A, B, S. cbn [orb]. destruct (0 <? donation t) eqn:Pz; [reflexivity|f_equal; lia].
Qed.
Lemma conway_donation_err t o : conway_donation t = Err o -> o = DonationPlutus \/ o = RefInputErr.
Proof.
  unfold conway_donation. destruct (0 <? donation t); [|discriminate].
  destruct (wit_v1 t || wit_v2 t); [intros H; inversion H; auto|].
  destruct (scan_refins (refins t)); intros H; inversion H; auto.
Qed.

Theorem conway_accepts_iff st t :
  distinct_new_pools st t -> zero_policy_free t -> 0 <= donation t ->
  (conserved_conway st t = Ok <->
   no_pool_err st t /\ amounts_positive t /\ donation_allowed t /\ balanced st t).
Proof.
  intros D Zf NN. unfold balanced, veq.
  rewrite <- (asset_check_balanced st t Zf), (spec_coin_eq st t D).
  unfold conserved_conway. rewrite (minted_ada_free t Zf).
  assert (EC : inputs_coin t + zsum (wdrls t) + ztotal (map (refund_of st) (certs t)) + 0 = C_coin st t).
  { unfold inputs_coin, C_coin. rewrite !zsum_ztotal. lia. }
  assert (EP : outputs_coin t + fee t + ztotal (map (fun c => deposit_of st c + pool_charge st c) (certs t))
               + zsum (proposals t) + donation t = P_coin st t).
  { unfold outputs_coin, P_coin. rewrite !zsum_ztotal, ztotal_map_add, pool_charge_total. lia. }
  split.
  - intros H.
    destruct (sum_certs (conway_refund st) (certs t) _) as [o|c0] eqn:E1.
    { apply sum_certs_err in E1. destruct E1 as (c & _ & E1). apply conway_refund_err in E1. subst. discriminate. }
    destruct (sum_certs (conway_deposit st) (certs t) _) as [o|p0] eqn:E2.
    { apply sum_certs_err in E2. destruct E2 as (c & _ & E2). apply conway_deposit_err in E2. destruct E2; subst; discriminate. }
    destruct (conway_donation t) as [o|d] eqn:E3.
    { apply conway_donation_err in E3. destruct E3; subst; discriminate. }
    apply (sum_certs_val _ (refund_of st)) in E1; [|intros c z _ Ez; apply (conway_refund_val st c z Ez)].
    apply (sum_certs_val _ (fun c => deposit_of st c + pool_charge st c)) in E2; [|intros c z _ Ez; apply (conway_deposit_val st c z Ez)].
    destruct E1 as (-> & A1). destruct E2 as (-> & A2).
    apply (conway_donation_val t d NN) in E3. destruct E3 as (-> & DA).
    rewrite EC, EP in H.
    destruct (C_coin st t =? P_coin st t) eqn:Q; [|discriminate].
    split; [|split; [|split; [exact DA|split; [lia|exact H]]]].
    + intros op Hin. specialize (A2 _ Hin). apply conway_deposit_val in A2. apply A2. reflexivity.
    + intros c a Hin Ea. pose proof (A1 _ Hin) as R. pose proof (A2 _ Hin) as Dp.
      apply conway_refund_val in R. apply conway_deposit_val in Dp.
      destruct R as [_ R]. destruct Dp as (_ & _ & Dp).
      destruct c; cbn [cert_amount] in Ea; try discriminate; inversion Ea; subst;
        try (apply (R a); auto; fail);
        apply (Dp a eq_refl); intros b; split; discriminate.
  - intros (NP & AP & DA & EQ & AS).
    rewrite (sum_certs_total (conway_refund st) (refund_of st))
      by (intros c Hin; apply conway_refund_total; intros a Ea; apply (AP c a Hin Ea)).
    rewrite (sum_certs_total (conway_deposit st) (fun c => deposit_of st c + pool_charge st c)).
    2:{ intros c Hin. apply conway_deposit_total; [intros a Ea; apply (AP c a Hin Ea)|intros op ->; apply NP; exact Hin]. }
    rewrite (conway_donation_total t NN DA). rewrite EC, EP.
    destruct (C_coin st t =? P_coin st t) eqn:Q; [exact AS|lia].
Qed.
