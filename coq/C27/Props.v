(* C27 - property theorems only. *)
From Coq Require Import String.
From V Require Import Lib.Base C27.Model C27.Spec C27.Proofs C27.Main C27.Gen.
Local Open Scope Z_scope.

(* Shelley / Allegra (ledger/shelley/rules.go; coin-only eras).  The rule accepts
   exactly the balanced transactions whose pool lookups succeed.
   _partial: excludes two registrations of one new pool in one transaction
   (known finding dup-new-pool-registration-charged-twice). *)
Theorem C27_legacy_partial : forall st t,
  pre_conway t -> coin_only t -> distinct_new_pools st t ->
  (conserved_legacy st t = Ok <-> no_pool_err st t /\ balanced st t).
Proof. exact legacy_accepts_iff. Qed.
Print Assumptions C27_legacy_partial.

(* Mary / Alonzo / Babbage.  _partial: additionally excludes mint entries under
   the all-zero policy id (known finding zero-policy-mint-not-counted). *)
Theorem C27_mary_partial : forall st t,
  pre_conway t -> distinct_new_pools st t -> zero_policy_free t ->
  (conserved_mary st t = Ok <-> no_pool_err st t /\ balanced st t).
Proof. exact mary_accepts_iff. Qed.
Print Assumptions C27_mary_partial.

(* Conway / Dijkstra.  The other reasons for rejection are spelled out:
   a pool lookup error, a certificate amount <= 0, a donation together with
   PlutusV1/V2 scripts (or an unresolvable reference input while looking for them). *)
Theorem C27_conway_partial : forall st t,
  distinct_new_pools st t -> zero_policy_free t -> 0 <= donation t ->
  (conserved_conway st t = Ok <->
   no_pool_err st t /\ amounts_positive t /\ donation_allowed t /\ balanced st t).
Proof. exact conway_accepts_iff. Qed.
Print Assumptions C27_conway_partial.

(* what "balanced" says, unfolded: coin and every asset separately *)
Theorem C27_balanced_meaning : forall st t, balanced st t <->
  coin (consumed_spec st t) = coin (produced_spec st t) /\
  forall policy name, qty (assets (consumed_spec st t)) (policy, name) = qty (assets (produced_spec st t)) (policy, name).
Proof.
  intros st t. unfold balanced, veq. split; intros [H1 H2]; (split; [exact H1|]).
  - intros p n. apply H2.
  - intros [p n]. apply H2.
Qed.

(* unresolved inputs contribute nothing (they are left to BadInputsUtxo, which
   every era's rule list contains: C27_rule_lists); when every input resolves,
   the consumed side ranges over all inputs *)
Theorem C27_all_inputs_resolved : forall vs, resolved (map Some vs) = vs.
Proof. induction vs as [|v r IH]; cbn; [reflexivity|]. unfold resolved in IH. rewrite IH. reflexivity. Qed.

(* ---- refutations (the pinned tree) ------------------------------------------------ *)
Definition st0 : lstate := mkSt 2 500 (fun _ => PoolUnreg).
Definition tx_base (ins outs : Z) (m : massets) (cs : list cert) : tx :=
  mkTx [Some (mkValue ins [])] [mkValue outs []] 0 [] cs m [] 0 false false [].

(* Conway: 1000 in, 1100 out, "mint" of 100 of policy 00..00 / name "" is accepted *)
Theorem C27_conway_refuted : exists st t,
  conserved_conway st t = Ok /\ coin (consumed_spec st t) <> coin (produced_spec st t).
Proof.
  exists st0, (tx_base 1000 1100 [((zero28, []), 100)] []). split; [vm_compute; reflexivity|vm_compute; discriminate].
Qed.

(* Mary..Dijkstra: minted tokens of policy 00..00 are not counted: 5 tokens vanish *)
Theorem C27_zero_policy_refuted : exists st t k,
  conserved_mary st t = Ok /\ conserved_conway st t = Ok /\
  qty (assets (consumed_spec st t)) k <> qty (assets (produced_spec st t)) k.
Proof.
  exists st0, (tx_base 1000 1000 [((zero28, [97%N]), 5)] []), (zero28, [97%N]).
  repeat split; vm_compute; try reflexivity; discriminate.
Qed.

(* every era: two registration certificates for one new pool are charged two deposits *)
Theorem C27_dup_pool_refuted : exists st t,
  conserved_legacy st t = Ok /\ conserved_mary st t = Ok /\ conserved_conway st t = Ok /\
  coin (consumed_spec st t) <> coin (produced_spec st t).
Proof.
  exists st0, (tx_base 2000 1000 [] [CPoolReg 7; CPoolReg 7]).
  repeat split; vm_compute; try reflexivity; discriminate.
Qed.

(* ---- the rule lists (regenerated from the code by the translator) ------------------- *)
Definition has_rule (name : string) (l : list (string * string)) : bool :=
  existsb (fun pf => String.eqb (snd pf) name) l.
Definition list_ok (e : string * list (string * string)) : bool :=
  has_rule "UtxoValidateValueNotConservedUtxo" (snd e) && has_rule "UtxoValidateBadInputsUtxo" (snd e).
Definition eras : list string := ["shelley"; "allegra"; "mary"; "alonzo"; "babbage"; "conway"; "dijkstra"]%string.

(* every era's UtxoValidationRules contains a conservation rule and the
   bad-inputs rule; VerifyTransaction accepts only if every listed rule does *)
Theorem C27_rule_lists :
  map fst rule_lists = eras /\ forall e, In e rule_lists -> list_ok e = true.
Proof. split; [vm_compute; reflexivity|]. apply forallb_forall. vm_compute. reflexivity. Qed.
Print Assumptions C27_rule_lists.

Definition hx28 : bytes := repeat 1%N 28.
(* non-vacuity: a Conway transaction with every feature that balances and is accepted *)
Example C27_nonvacuous :
  let t := mkTx [Some (mkValue 1000 [((hx28, [1%N]), 5)]); None]
                [mkValue 965 [((hx28, [1%N]), 8)]] 3 [10]
                [CStakeReg; CStakeDereg; CPoolReg 1; CPoolReg 2; CReg 7; CDereg 7; CRegDrep 9; CDeregDrep 4; COther]
                [((hx28, [1%N]), 3)] [6] 11 false false [Some SNone; Some SOther] in
  let st := mkSt 2 20 (fun op => if (op =? 1)%N then PoolRegd else PoolUnreg) in
  conserved_conway st t = Ok /\ distinct_new_pools st t /\ zero_policy_free t.
Proof.
  cbv zeta. split; [vm_compute; reflexivity|]. split; [|vm_compute; reflexivity].
  unfold distinct_new_pools. cbn. constructor; [intros []|constructor].
Qed.
