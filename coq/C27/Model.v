(* C27 - value conservation.  Executable model of the three distinct Go bodies
   of UtxoValidateValueNotConservedUtxo, quirks included (the all-zero policy
   id is treated as "ADA" in the mint field):

     legacy : ledger/shelley/rules.go   (Allegra delegates to it)
     mary   : ledger/mary/rules.go = alonzo = babbage (bodies identical up to
              the protocol-parameter type)
     conway : ledger/conway/rules.go    (Dijkstra delegates to it)

   No proofs in this file. *)
From V Require Import Lib.Base.
Local Open Scope Z_scope.

(* ---- values ------------------------------------------------------------ *)
(* asset id = (policy id bytes, asset name bytes); the Go map key is
   assetKey{policy, string(assetName)} *)
Definition aid := (bytes * bytes)%type.
Definition aid_eqb (a b : aid) : bool := bytes_eqb (fst a) (fst b) && bytes_eqb (snd a) (snd b).
(* a MultiAsset flattened to its (key, quantity) entries *)
Definition massets := list (aid * Z).
Record value := mkValue { coin : Z; assets : massets }.

(* ---- the transaction as the rule sees it --------------------------------- *)
Inductive cert :=
| CStakeReg                    (* *common.StakeRegistrationCertificate (type 0) *)
| CStakeDereg                  (* type 1 *)
| CPoolReg (operator : N)      (* type 3; the rule reads only Operator *)
| CReg (amt : Z)               (* type 7, Amount int64 *)
| CDereg (amt : Z)             (* type 8 *)
| CStakeRegDeleg (amt : Z)     (* type 11 *)
| CVoteRegDeleg (amt : Z)      (* type 12 *)
| CStakeVoteRegDeleg (amt : Z) (* type 13 *)
| CRegDrep (amt : Z)           (* type 16 *)
| CDeregDrep (amt : Z)         (* type 17 *)
| COther.                      (* delegation, pool retirement, genesis, MIR, committee, DRep update:
                                  no case in any of the type switches *)

Inductive pool_status := PoolUnreg | PoolRegd | PoolErr.  (* ls.PoolCurrentState: (nil,nil) / (reg,nil) / (_, err) *)
Inductive script_kind := SNone | SV1 | SV2 | SOther.       (* utxo.Output.ScriptRef() of a reference input *)

Record tx := mkTx {
  inputs : list (option value);   (* ls.UtxoById(input): None = error *)
  outputs : list value;
  fee : Z;
  wdrls : list Z;                 (* the amounts of tx.Withdrawals() *)
  certs : list cert;
  mint : massets;                 (* tx.AssetMint(), [] when nil *)
  proposals : list Z;             (* proposal.Deposit() *)
  donation : Z;
  wit_v1 : bool;                  (* len(witnesses.PlutusV1Scripts()) > 0 *)
  wit_v2 : bool;
  refins : list (option script_kind)  (* reference inputs: None = UtxoById error *)
}.

Record lstate := mkSt { key_deposit : Z; pool_deposit : Z; pool : N -> pool_status }.

Inductive outcome :=
| Ok
| NotConservedCoin (c p : Z)            (* ValueNotConservedUtxoError from the coin comparison *)
| NotConservedAsset (bad : list (Z * Z)) (* ... from the per-asset loops: every (consumed, produced) pair that differs *)
| BadDeposit                            (* InvalidCertificateDepositError *)
| PoolLookupErr                         (* error of ls.PoolCurrentState *)
| DonationPlutus                        (* TreasuryDonationWithPlutusV1V2Error *)
| RefInputErr.                          (* ReferenceInputResolutionError *)

Inductive res := Err (o : outcome) | Val (z : Z).

Definition zsum (l : list Z) : Z := fold_left Z.add l 0.

(* "for _, tmpInput := range tx.Inputs() { utxo, err := ls.UtxoById; if err != nil { continue } ... }" *)
Definition resolved (ins : list (option value)) : list value :=
  flat_map (fun o => match o with Some v => [v] | None => [] end) ins.

(* loop over certificates accumulating into a big.Int, with early return *)
Fixpoint sum_certs (f : cert -> res) (cs : list cert) (acc : Z) : res :=
  match cs with
  | [] => Val acc
  | c :: r => match f c with Err o => Err o | Val z => sum_certs f r (acc + z) end
  end.

(* ---- legacy / mary coin part --------------------------------------------- *)
Definition legacy_refund (st : lstate) (c : cert) : res :=
  match c with CStakeDereg => Val (key_deposit st) | _ => Val 0 end.
Definition legacy_deposit (st : lstate) (c : cert) : res :=
  match c with
  | CPoolReg op => match pool st op with
                   | PoolErr => Err PoolLookupErr
                   | PoolUnreg => Val (pool_deposit st)
                   | PoolRegd => Val 0 end
  | CStakeReg => Val (key_deposit st)
  | _ => Val 0
  end.

Definition inputs_coin (t : tx) : Z := zsum (map coin (resolved (inputs t))).
Definition outputs_coin (t : tx) : Z := zsum (map coin (outputs t)).

(* ---- the per-asset part (identical text in mary, alonzo, babbage, conway) -- *)
(* map[assetKey]*big.Int filled by "if m[key] == nil { m[key] = new } ; m[key].Add(m[key], amount)" *)
Fixpoint madd (m : massets) (k : aid) (q : Z) : massets :=
  match m with
  | [] => [(k, q)]
  | (k', q') :: r => if aid_eqb k' k then (k', q' + q) :: r else (k', q') :: madd r k q
  end.
Definition madd_all (m : massets) (l : massets) : massets :=
  fold_left (fun m e => madd m (fst e) (snd e)) l m.
Fixpoint mget (m : massets) (k : aid) : option Z :=
  match m with
  | [] => None
  | (k', q) :: r => if aid_eqb k' k then Some q else mget r k
  end.
Definition mget0 (m : massets) (k : aid) : Z := match mget m k with Some q => q | None => 0 end.

(* common.Blake2b224{} *)
Definition zero28 : bytes := repeat 0%N 28.
Definition is_zero_policy (e : aid * Z) : bool := bytes_eqb (fst (fst e)) zero28.
(* "for _, policy := range mint.Policies() { if policy == (common.Blake2b224{}) { continue } ..." *)
Definition mint_counted (t : tx) : massets := filter (fun e => negb (is_zero_policy e)) (mint t).

Definition consumed_assets (t : tx) : massets :=
  madd_all (madd_all [] (flat_map assets (resolved (inputs t)))) (mint_counted t).
Definition produced_assets (t : tx) : massets :=
  madd_all [] (flat_map assets (outputs t)).

(* first loop: every consumed key must match (missing produced = zero), and is
   deleted from producedAssets; second loop: what is left must be zero.
   Returns the differing pairs (map iteration order is not modelled: the Go
   code returns the first one it meets). *)
Definition asset_mismatches (t : tx) : list (Z * Z) :=
  let c := consumed_assets t in
  let p := produced_assets t in
  flat_map (fun e => if snd e =? mget0 p (fst e) then [] else [(snd e, mget0 p (fst e))]) c ++
  flat_map (fun e => match mget c (fst e) with
                     | Some _ => []
                     | None => if snd e =? 0 then [] else [(0, snd e)] end) p.

Definition asset_check (t : tx) : outcome :=
  match asset_mismatches t with [] => Ok | l => NotConservedAsset l end.

(* ---- legacy: shelley.UtxoValidateValueNotConservedUtxo -------------------- *)
Definition conserved_legacy (st : lstate) (t : tx) : outcome :=
  match sum_certs (legacy_refund st) (certs t) (inputs_coin t + zsum (wdrls t)) with
  | Err o => o
  | Val c =>
    match sum_certs (legacy_deposit st) (certs t) (outputs_coin t + fee t) with
    | Err o => o
    | Val p => if c =? p then Ok else NotConservedCoin c p
    end
  end.

(* ---- mary.UtxoValidateValueNotConservedUtxo (= alonzo = babbage) ----------- *)
Definition conserved_mary (st : lstate) (t : tx) : outcome :=
  match conserved_legacy st t with
  | Ok => asset_check t
  | o => o
  end.

(* ---- conway.UtxoValidateValueNotConservedUtxo ------------------------------ *)
Definition pos_amount (a : Z) : res := if a <=? 0 then Err BadDeposit else Val a.
Definition conway_refund (st : lstate) (c : cert) : res :=
  match c with
  | CDereg a | CDeregDrep a => pos_amount a
  | CStakeDereg => Val (key_deposit st)
  | _ => Val 0
  end.
Definition conway_deposit (st : lstate) (c : cert) : res :=
  match c with
  | CPoolReg op => match pool st op with
                   | PoolErr => Err PoolLookupErr
                   | PoolUnreg => Val (pool_deposit st)
                   | PoolRegd => Val 0 end
  | CReg a | CRegDrep a | CStakeRegDeleg a | CStakeVoteRegDeleg a | CVoteRegDeleg a => pos_amount a
  | CStakeReg => Val (key_deposit st)
  | _ => Val 0
  end.

(* the reference-input scan that looks for a PlutusV1/V2 reference script *)
Inductive scan := ScanErr | ScanPlutus | ScanNone.
Fixpoint scan_refins (l : list (option script_kind)) : scan :=
  match l with
  | [] => ScanNone
  | None :: _ => ScanErr
  | Some SV1 :: _ | Some SV2 :: _ => ScanPlutus
  | Some _ :: r => scan_refins r
  end.

(* the donation block: Err = early return, Val = amount added to produced *)
Definition conway_donation (t : tx) : res :=
  if 0 <? donation t then
    if wit_v1 t || wit_v2 t then Err DonationPlutus
    else match scan_refins (refins t) with
         | ScanErr => Err RefInputErr
         | ScanPlutus => Err DonationPlutus
         | ScanNone => Val (donation t)
         end
  else Val 0.

(* "mintedAda := tx.AssetMint().Asset(common.Blake2b224{}, []byte{})": a map
   lookup, the zero *big.Int (nil) when absent *)
Definition minted_ada (t : tx) : Z := mget0 (mint t) (zero28, []).

Definition conserved_conway (st : lstate) (t : tx) : outcome :=
  match sum_certs (conway_refund st) (certs t) (inputs_coin t + zsum (wdrls t)) with
  | Err o => o
  | Val c0 =>
    let c := c0 + minted_ada t in
    match sum_certs (conway_deposit st) (certs t) (outputs_coin t + fee t) with
    | Err o => o
    | Val p0 =>
      let p1 := p0 + zsum (proposals t) in
      match conway_donation t with
      | Err o => o
      | Val d =>
        let p := p1 + d in
        if c =? p then asset_check t else NotConservedCoin c p
      end
    end
  end.

(* ---- eras, families, and the translator's tables --------------------------- *)
Inductive family := Legacy | MaryF | ConwayF.
Definition conserved (f : family) : lstate -> tx -> outcome :=
  match f with Legacy => conserved_legacy | MaryF => conserved_mary | ConwayF => conserved_conway end.

(* ---- correspondence ---------------------------------------------------------- *)
(* observable of the real rule: class + the two numbers of a
   ValueNotConservedUtxoError *)
Inductive obs := OOk | ONotConserved (c p : Z) | OBadDeposit | OPoolErr | ODonationPlutus | ORefInputErr.

Definition pair_eqb (a b : Z * Z) : bool := (fst a =? fst b) && (snd a =? snd b).

Definition agrees (m : outcome) (o : obs) : bool :=
  match m, o with
  | Ok, OOk => true
  | NotConservedCoin c p, ONotConserved c' p' => (c =? c') && (p =? p')
  | NotConservedAsset l, ONotConserved c' p' => existsb (pair_eqb (c', p')) l
  | BadDeposit, OBadDeposit => true
  | PoolLookupErr, OPoolErr => true
  | DonationPlutus, ODonationPlutus => true
  | RefInputErr, ORefInputErr => true
  | _, _ => false
  end.

Definition pool_of (l : list pool_status) : N -> pool_status :=
  fun i => nth (N.to_nat i) l PoolUnreg.

Record case := mkCase {
  c_family : family; c_kd : Z; c_pd : Z; c_pools : list pool_status; c_tx : tx; c_obs : obs }.

Definition check_case (c : case) : bool :=
  agrees (conserved (c_family c) (mkSt (c_kd c) (c_pd c) (pool_of (c_pools c))) (c_tx c)) (c_obs c).

Definition mismatches : list case -> list nat := failing check_case.
