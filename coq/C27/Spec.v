(* C27 - the ledger's balance equation, written independently of the rule
   bodies: values form a commutative monoid (coin, bag of asset entries);
   consumed = inputs + withdrawals + refunds + mint,
   produced = outputs + fee + deposits + proposal deposits + donation. *)
From V Require Import Lib.Base C27.Model.
Local Open Scope Z_scope.

(* quantity of one asset in a bag of entries *)
Fixpoint qty (m : massets) (k : aid) : Z :=
  match m with
  | [] => 0
  | (k', q) :: r => (if aid_eqb k' k then q else 0) + qty r k
  end.

Definition vzero : value := mkValue 0 [].
Definition vadd (a b : value) : value := mkValue (coin a + coin b) (assets a ++ assets b).
Definition vsum (l : list value) : value := fold_right vadd vzero l.
Definition of_coin (c : Z) : value := mkValue c [].
Definition of_assets (m : massets) : value := mkValue 0 m.

(* equality of values: coin, and every asset separately *)
Definition veq (a b : value) : Prop :=
  coin a = coin b /\ forall k, qty (assets a) k = qty (assets b) k.

Fixpoint ztotal (l : list Z) : Z := match l with [] => 0 | x :: r => x + ztotal r end.

(* refund carried by one certificate: the key deposit for a Shelley-style
   deregistration, the stated amount for Conway stake / DRep deregistrations *)
Definition refund_of (st : lstate) (c : cert) : Z :=
  match c with
  | CStakeDereg => key_deposit st
  | CDereg a | CDeregDrep a => a
  | _ => 0
  end.

(* deposit of one certificate other than a pool registration *)
Definition deposit_of (st : lstate) (c : cert) : Z :=
  match c with
  | CStakeReg => key_deposit st
  | CReg a | CStakeRegDeleg a | CVoteRegDeleg a | CStakeVoteRegDeleg a | CRegDrep a => a
  | _ => 0
  end.

(* pool operators this transaction registers that the ledger state does not
   know yet (in certificate order, with repetitions) ... *)
Definition new_pool_regs (st : lstate) (cs : list cert) : list N :=
  flat_map (fun c => match c with
                     | CPoolReg op => match pool st op with PoolUnreg => [op] | _ => [] end
                     | _ => [] end) cs.
(* ... and as the set the ledger charges for (one deposit per new pool) *)
Definition new_pools (st : lstate) (cs : list cert) : list N := nodup N.eq_dec (new_pool_regs st cs).

Definition total_deposits (st : lstate) (t : tx) : Z :=
  ztotal (map (deposit_of st) (certs t))
  + pool_deposit st * Z.of_nat (length (new_pools st (certs t)))
  + ztotal (proposals t).

Definition consumed_spec (st : lstate) (t : tx) : value :=
  vadd (vsum (resolved (inputs t)))
  (vadd (of_coin (ztotal (wdrls t)))
  (vadd (of_coin (ztotal (map (refund_of st) (certs t))))
        (of_assets (mint t)))).

Definition produced_spec (st : lstate) (t : tx) : value :=
  vadd (vsum (outputs t))
  (vadd (of_coin (fee t))
  (vadd (of_coin (total_deposits st t))
        (of_coin (donation t)))).

Definition balanced (st : lstate) (t : tx) : Prop := veq (consumed_spec st t) (produced_spec st t).

(* ---- side conditions ---------------------------------------------------------- *)

(* the Go loops charge one pool deposit per registration certificate of an
   unregistered operator; the ledger charges one per operator *)
Definition distinct_new_pools (st : lstate) (t : tx) : Prop := NoDup (new_pool_regs st (certs t)).

(* certificate kinds of the Shelley..Babbage CDDL *)
Definition legacy_cert (c : cert) : bool :=
  match c with CStakeReg | CStakeDereg | CPoolReg _ | COther => true | _ => false end.
(* a pre-Conway transaction: no Conway certificates, proposals or donation *)
Definition pre_conway (t : tx) : Prop :=
  forallb legacy_cert (certs t) = true /\ proposals t = [] /\ donation t = 0.
(* a Shelley/Allegra transaction: no assets anywhere *)
Definition coin_only (t : tx) : Prop :=
  (forall v, In v (resolved (inputs t)) -> assets v = []) /\
  (forall v, In v (outputs t) -> assets v = []) /\ mint t = [].

(* the other reasons for which the rule bodies return an error *)
Definition no_pool_err (st : lstate) (t : tx) : Prop :=
  forall op, In (CPoolReg op) (certs t) -> pool st op <> PoolErr.
Definition cert_amount (c : cert) : option Z :=
  match c with
  | CReg a | CDereg a | CStakeRegDeleg a | CVoteRegDeleg a | CStakeVoteRegDeleg a
  | CRegDrep a | CDeregDrep a => Some a
  | _ => None
  end.
Definition amounts_positive (t : tx) : Prop :=
  forall c a, In c (certs t) -> cert_amount c = Some a -> 0 < a.
Definition donation_allowed (t : tx) : Prop :=
  donation t = 0 \/ (wit_v1 t = false /\ wit_v2 t = false /\ scan_refins (refins t) = ScanNone).

(* no entry of the mint field is under the all-zero policy id (the rule bodies
   treat that policy as "ADA": known finding) *)
Definition zero_policy_free (t : tx) : Prop :=
  forallb (fun e => negb (is_zero_policy e)) (mint t) = true.
