(* C04 - lemmas: generic round trip, arity, field types, point shape. *)
From V Require Import Lib.Base Lib.Cbor Lib.CborParse C04.Model.
Local Open Scope N_scope.

(* nested induction principle for schemas *)
Section SInd.
  Variable P : schema -> Prop.
  Hypothesis HU : forall w, P (SUInt w).
  Hypothesis HB : P SBool.
  Hypothesis HBy : P SBytes.
  Hypothesis HT : P SText.
  Hypothesis HR : P SRaw.
  Hypothesis HL : forall e, P e -> P (SList e).
  Hypothesis HS : forall fs, Forall P fs -> P (SStruct fs).
  Hypothesis HP : P SPoint.
  Hypothesis HO : P SOpaque.
  Fixpoint schema_ind' (s : schema) : P s :=
    match s with
    | SUInt w => HU w | SBool => HB | SBytes => HBy | SText => HT | SRaw => HR
    | SList e => HL e (schema_ind' e)
    | SStruct fs => HS fs ((fix go (l : list schema) : Forall P l :=
                              match l with [] => Forall_nil P | x :: r => Forall_cons x (schema_ind' x) (go r) end) fs)
    | SPoint => HP | SOpaque => HO
    end.
End SInd.

(* the inner loops, named *)
Fixpoint enc_list (e : schema) (vs : list value) : option (list item) :=
  match vs with
  | [] => Some []
  | v :: r => match enc_s e v, enc_list e r with Some x, Some xs => Some (x :: xs) | _, _ => None end
  end.
Fixpoint enc_fields (fs : list schema) (vs : list value) : option (list item) :=
  match fs, vs with
  | [], [] => Some []
  | f :: fr, v :: vr => match enc_s f v, enc_fields fr vr with Some x, Some xs => Some (x :: xs) | _, _ => None end
  | _, _ => None
  end.
Fixpoint dec_list (pt : item -> option value) (e : schema) (xs : list item) : option (list value) :=
  match xs with
  | [] => Some []
  | x :: r => match dec_g pt e x, dec_list pt e r with Some v, Some vs => Some (v :: vs) | _, _ => None end
  end.
Fixpoint dec_fields (pt : item -> option value) (fs : list schema) (xs : list item) : option (list value) :=
  match fs, xs with
  | [], [] => Some []
  | f :: fr, x :: xr => match dec_g pt f x, dec_fields pt fr xr with Some v, Some vs => Some (v :: vs) | _, _ => None end
  | _, _ => None
  end.

Lemma enc_s_list e vs : enc_s (SList e) (VList vs) =
  option_map (fun xs => Arr (Some (min_form (len xs))) xs) (enc_list e vs).
Proof. cbn [enc_s]. f_equal. induction vs as [|v r IH]; [reflexivity|]. cbn [enc_list]. rewrite <- IH. reflexivity. Qed.

Lemma enc_s_struct fs vs : enc_s (SStruct fs) (VStruct vs) =
  option_map (fun xs => Arr (Some (min_form (len xs))) xs) (enc_fields fs vs).
Proof.
  reflexivity.
Qed.

Lemma dec_g_list pt e i : dec_g pt (SList e) i =
  if is_nil (strip i) then Some (VList []) else
  match strip i with Arr _ xs => option_map VList (dec_list pt e xs) | _ => None end.
Proof.
  cbn [dec_g zero]. destruct (is_nil (strip i)); [reflexivity|]. destruct (strip i); try reflexivity.
  f_equal. induction xs as [|x r IH]; [reflexivity|]. cbn [dec_list]. rewrite <- IH. reflexivity.
Qed.

Lemma dec_g_struct pt fs i : dec_g pt (SStruct fs) i =
  if is_nil (strip i) then Some (VStruct (map zero fs)) else
  match strip i with Arr _ xs => option_map VStruct (dec_fields pt fs xs) | _ => None end.
Proof.
  cbn [dec_g zero]. destruct (is_nil (strip i)); [reflexivity|]. destruct (strip i); try reflexivity.
  f_equal. revert xs. induction fs as [|f0 fr IH]; intros [|x xr]; try reflexivity.
  cbn [dec_fields]. rewrite <- IH. reflexivity.
Qed.

Lemma dec_fields_length pt : forall fs xs vs, dec_fields pt fs xs = Some vs ->
  length xs = length fs /\ length vs = length fs.
Proof.
  induction fs as [|f fr IH]; intros [|x xr] vs H; cbn [dec_fields] in H; try discriminate.
  - injection H as <-. split; reflexivity.
  - destruct (dec_g pt f x); [|discriminate]. destruct (dec_fields pt fr xr) as [vs'|] eqn:E; [|discriminate].
    injection H as <-. destruct (IH _ _ E). cbn [length]. split; congruence.
Qed.

Lemma dec_fields_each pt : forall fs xs vs, dec_fields pt fs xs = Some vs ->
  Forall2 (fun f xv => dec_g pt f (fst xv) = Some (snd xv)) fs (combine xs vs).
Proof.
  induction fs as [|f fr IH]; intros [|x xr] vs H; cbn [dec_fields] in H; try discriminate.
  - injection H as <-. constructor.
  - destruct (dec_g pt f x) eqn:D; [|discriminate]. destruct (dec_fields pt fr xr) as [vs'|] eqn:E; [|discriminate].
    injection H as <-. cbn [combine]. constructor; [exact D|]. apply IH. exact E.
Qed.

(* ---- generic round trip ---- *)
Definition point_ok (pt : item -> option value) : Prop :=
  pt (Arr (Some Fimm) []) = Some VOrigin /\
  forall f g n h, pt (Arr (Some Fimm) [UInt f n; BStr g h]) = Some (VPoint n h).

Lemma dec_enc_g pt : point_ok pt -> forall s v i, enc_s s v = Some i -> dec_g pt s i = Some v.
Proof.
  intros [P0 P2]. induction s as [w| | | | |e IH|fs IH| |] using schema_ind'; intros v i E.
  - destruct v; try discriminate. cbn [enc_s] in E. destruct (n <? 2 ^ w) eqn:L; [|discriminate].
    injection E as <-. cbn [dec_g strip is_nil dec_uint]. unfold fit. rewrite L. reflexivity.
  - destruct v; try discriminate. injection E as <-. destruct b; reflexivity.
  - destruct v; try discriminate. injection E as <-. reflexivity.
  - destruct v; try discriminate. injection E as <-. reflexivity.
  - destruct v; try discriminate. injection E as <-. reflexivity.
  - destruct v as [| | | | |vs| | |]; try discriminate. rewrite enc_s_list in E.
    destruct (enc_list e vs) as [xs|] eqn:EL; [|discriminate]. injection E as <-.
    rewrite dec_g_list. cbn [strip is_nil].
    assert (G : dec_list pt e xs = Some vs).
    { revert xs EL. induction vs as [|v r IHr]; intros xs EL; cbn [enc_list] in EL.
      - injection EL as <-. reflexivity.
      - destruct (enc_s e v) as [x|] eqn:Ev; [|discriminate]. destruct (enc_list e r) as [xr|] eqn:Er; [|discriminate].
        injection EL as <-. cbn [dec_list]. rewrite (IH _ _ Ev), (IHr _ eq_refl). reflexivity. }
    rewrite G. reflexivity.
  - destruct v as [| | | | | |vs| |]; try discriminate. rewrite enc_s_struct in E.
    destruct (enc_fields fs vs) as [xs|] eqn:EL; [|discriminate]. injection E as <-.
    rewrite dec_g_struct. cbn [strip is_nil].
    assert (G : dec_fields pt fs xs = Some vs).
    { revert vs xs EL. induction IH as [|f fr Hf _ IHr]; intros [|v vr] xs EL; cbn [enc_fields] in EL; try discriminate.
      - injection EL as <-. reflexivity.
      - destruct (enc_s f v) as [x|] eqn:Ev; [|discriminate]. destruct (enc_fields fr vr) as [xr|] eqn:Er; [|discriminate].
        injection EL as <-. cbn [dec_fields]. rewrite (Hf _ _ Ev), (IHr _ _ Er). reflexivity. }
    rewrite G. reflexivity.
  - destruct v; try discriminate; cbn [enc_s] in E.
    + injection E as <-. cbn [dec_g strip is_nil]. exact P0.
    + destruct (slot <? 2 ^ 64); [|discriminate]. injection E as <-. cbn [dec_g strip is_nil]. apply P2.
  - destruct v; discriminate.
Qed.

Lemma point_ok_fixed : point_ok dec_point.
Proof. split; reflexivity. Qed.
Lemma point_ok_pinned : point_ok dec_point_pinned.
Proof. split; reflexivity. Qed.

(* ---- shapes ---- *)
Lemma struct_shape pt fs i v : dec_g pt (SStruct fs) i = Some v ->
  is_nil (strip i) = true \/
  exists f xs vs, strip i = Arr f xs /\ length xs = length fs /\ v = VStruct vs /\
    Forall2 (fun s xv => dec_g pt s (fst xv) = Some (snd xv)) fs (combine xs vs).
Proof.
  rewrite dec_g_struct. destruct (is_nil (strip i)); [left; reflexivity|]. right. revert H.
  destruct (strip i) as [| | | | | |f xs| | | |]; try discriminate.
  destruct (dec_fields pt fs xs) as [vs|] eqn:E; [|discriminate]. intros H. injection H as <-.
  exists f, xs, vs. destruct (dec_fields_length _ _ _ _ E). repeat split; auto. apply dec_fields_each. exact E.
Qed.

Lemma point_shape i p : dec_s SPoint i = Some p ->
  is_nil (strip i) = true \/
  (exists f, strip i = Arr f [] /\ p = VOrigin) \/
  (exists f g n h bs, strip i = Arr f [UInt g n; h] /\ dec_bytes h = Some bs /\ p = VPoint n bs).
Proof.
  unfold dec_s. cbn [dec_g]. intros H0. destruct (is_nil (strip i)); [left; reflexivity|]. right. revert H0.
  unfold dec_point. destruct (strip i) as [| | | | | |f xs| | | |]; try discriminate.
  destruct xs as [|a [|b [|c r]]]; try discriminate; try (destruct a; discriminate).
  - intros E. injection E as <-. left. eauto.
  - destruct a; try discriminate. destruct (dec_bytes b) as [bs|] eqn:B; [|discriminate].
    intros E. injection E as <-. right. exists f, f0, n, b, bs. auto.
Qed.

(* a plain item: no tag, no simple value *)
Definition plain (j : item) : bool := match j with Tag _ _ _ | Simple _ _ => false | _ => true end.

Lemma uint_shape pt w i v : dec_g pt (SUInt w) i = Some v -> plain (strip i) = true ->
  exists f n, strip i = UInt f n /\ n < 2 ^ w /\ v = VUInt n.
Proof.
  cbn [dec_g]. destruct (strip i) eqn:S; cbn [is_nil plain dec_uint]; try discriminate.
  unfold fit. destruct (n <? 2 ^ w) eqn:L; [|discriminate]. intros H _. injection H as <-.
  exists f, n. repeat split. apply N.ltb_lt. exact L.
Qed.

Lemma bool_shape pt i v : dec_g pt SBool i = Some v -> is_nil (strip i) = false ->
  exists b : bool, strip i = Simple Fimm (if b then 21 else 20) /\ v = VBool b.
Proof.
  cbn [dec_g]. intros H Hn. rewrite Hn in H. destruct (strip i) as [| | | | | | | | |f v0|]; try discriminate.
  destruct f; try discriminate. destruct (v0 =? 20) eqn:A.
  - injection H as <-. apply N.eqb_eq in A. subst. exists false. auto.
  - destruct (v0 =? 21) eqn:B; [|discriminate]. injection H as <-. apply N.eqb_eq in B. subst. exists true. auto.
Qed.

Definition is_arr (j : item) : bool := match j with Arr _ _ => true | _ => false end.

Lemma bytes_shape pt i v : dec_g pt SBytes i = Some v -> is_nil (strip i) = false -> is_arr (strip i) = false ->
  exists bs, v = VBytes bs /\ ((exists f, strip i = BStr f bs) \/ (exists cs, strip i = BStrI cs /\ bs = flat_map snd cs)).
Proof.
  cbn [dec_g]. intros H Hn Ha. rewrite Hn in H. destruct (strip i); try discriminate; cbn in H; injection H as <-.
  - eexists. split; [reflexivity|]. left. eauto.
  - eexists. split; [reflexivity|]. right. eauto.
Qed.

Lemma text_shape pt i v : dec_g pt SText i = Some v -> is_nil (strip i) = false ->
  exists bs, v = VText bs /\ ((exists f, strip i = TStr f bs) \/ (exists cs, strip i = TStrI cs /\ bs = flat_map snd cs)).
Proof.
  cbn [dec_g]. intros H Hn. rewrite Hn in H. destruct (strip i); try discriminate; injection H as <-.
  - eexists. split; [reflexivity|]. left. eauto.
  - eexists. split; [reflexivity|]. right. eauto.
Qed.
