(* C04 - lemmas: generic round trip, arity, field types, point shape. *)
From V Require Import Lib.Base Lib.Cbor Lib.CborParse C04.Model C04.Hand.
Local Open Scope N_scope.

(* nested induction principle for schemas *)
Section SInd.
  Variable P : schema -> Prop.
  Hypothesis HU : forall w, P (SUInt w).
  Hypothesis HB : P SBool.
  Hypothesis HBy : P SBytes.
  Hypothesis HT : P SText.
  Hypothesis HR : P SRaw.
  Hypothesis HL : forall e, P e -> P (SList e).
  Hypothesis HS : forall fs, Forall P fs -> P (SStruct fs).
  Hypothesis HP : P SPoint.
  Hypothesis HO : P SOpaque.
  Hypothesis HLI : forall e, P e -> P (SListI e).
  Hypothesis HTB : P STagBytes.
  Hypothesis HBN : forall n, P (SBytesN n).
  Hypothesis HTA : P STagAny.
  Hypothesis HA : P SAny.
  Hypothesis HM : forall ind w e, P e -> P (SMapU ind w e).
  Hypothesis HPe : P SPeer.
  Hypothesis HPo : forall p s, P s -> P (SPost p s).
  Hypothesis HBL : forall n a b, P a -> P b -> P (SByLen n a b).
  Hypothesis HAl : forall a b, P a -> P b -> P (SAlt a b).
  Fixpoint schema_ind' (s : schema) : P s :=
    match s with
    | SUInt w => HU w | SBool => HB | SBytes => HBy | SText => HT | SRaw => HR
    | SList e => HL e (schema_ind' e)
    | SStruct fs => HS fs ((fix go (l : list schema) : Forall P l :=
                              match l with [] => Forall_nil P | x :: r => Forall_cons x (schema_ind' x) (go r) end) fs)
    | SPoint => HP | SOpaque => HO
    | SListI e => HLI e (schema_ind' e) | STagBytes => HTB | SBytesN n => HBN n | STagAny => HTA | SAny => HA
    | SMapU ind w e => HM ind w e (schema_ind' e) | SPeer => HPe
    | SPost p s' => HPo p s' (schema_ind' s')
    | SByLen n a b => HBL n a b (schema_ind' a) (schema_ind' b)
    | SAlt a b => HAl a b (schema_ind' a) (schema_ind' b)
    end.
End SInd.

(* the inner loops, named *)
Fixpoint enc_list (e : schema) (vs : list value) : option (list item) :=
  match vs with
  | [] => Some []
  | v :: r => match enc_s e v, enc_list e r with Some x, Some xs => Some (x :: xs) | _, _ => None end
  end.
Fixpoint enc_fields (fs : list schema) (vs : list value) : option (list item) :=
  match fs, vs with
  | [], [] => Some []
  | f :: fr, v :: vr => match enc_s f v, enc_fields fr vr with Some x, Some xs => Some (x :: xs) | _, _ => None end
  | _, _ => None
  end.
Fixpoint dec_list (pt : item -> option value) (e : schema) (xs : list item) : option (list value) :=
  match xs with
  | [] => Some []
  | x :: r => match dec_g pt e x, dec_list pt e r with Some v, Some vs => Some (v :: vs) | _, _ => None end
  end.
Fixpoint dec_fields (pt : item -> option value) (fs : list schema) (xs : list item) : option (list value) :=
  match fs, xs with
  | [], [] => Some []
  | f :: fr, x :: xr => match dec_g pt f x, dec_fields pt fr xr with Some v, Some vs => Some (v :: vs) | _, _ => None end
  | _, _ => None
  end.

Fixpoint enc_kvs (e : schema) (kvs : list (N * value)) : option (list (item * item)) :=
  match kvs with
  | [] => Some []
  | (k, v) :: r => match enc_s e v, enc_kvs e r with Some x, Some xs => Some ((UInt (min_form k) k, x) :: xs) | _, _ => None end
  end.
Fixpoint dec_kvs (pt : item -> option value) (w : N) (e : schema) (prev : N) (kvs : list (item * item)) : option (list (N * value)) :=
  match kvs with
  | [] => Some []
  | (k, x) :: r =>
      match dec_key w prev k with
      | Some k' => match dec_g pt e x, dec_kvs pt w e k' r with Some v, Some vs => Some ((k', v) :: vs) | _, _ => None end
      | None => None
      end
  end.

Lemma enc_s_listi e vs : enc_s (SListI e) (VList vs) = option_map (fun xs => Arr None xs) (enc_list e vs).
Proof. cbn [enc_s]. f_equal. induction vs as [|v r IH]; [reflexivity|]. cbn [enc_list]. rewrite <- IH. reflexivity. Qed.

Lemma dec_g_listi pt e i : dec_g pt (SListI e) i =
  if is_nil (strip i) then Some (VList []) else
  match strip i with Arr _ xs => option_map VList (dec_list pt e xs) | _ => None end.
Proof.
  cbn [dec_g zero]. destruct (is_nil (strip i)); [reflexivity|]. destruct (strip i); try reflexivity.
  f_equal. induction xs as [|x r IH]; [reflexivity|]. cbn [dec_list]. rewrite <- IH. reflexivity.
Qed.

Lemma enc_s_map ind w e kvs : enc_s (SMapU ind w e) (VMap kvs) =
  if sorted_keys w kvs then option_map (fun xs => Map (if ind then None else Some (min_form (len xs))) xs) (enc_kvs e kvs) else None.
Proof.
  cbn [enc_s]. destruct (sorted_keys w kvs); [|reflexivity]. f_equal.
  induction kvs as [|[k v] r IH]; [reflexivity|]. cbn [enc_kvs]. rewrite <- IH. reflexivity.
Qed.

Lemma dec_g_map pt ind w e i : dec_g pt (SMapU ind w e) i =
  if is_nil (strip i) then Some (VMap []) else
  match strip i with
  | Map _ kvs => match dec_kvs pt w e 0 kvs with
                 | Some l => if nodup_keys (map fst l) then Some (VMap l) else None
                 | None => None end
  | _ => None end.
Proof.
  cbn [dec_g zero]. destruct (is_nil (strip i)); [reflexivity|]. destruct (strip i); try reflexivity.
  assert (E : forall l prev, (fix go (prev : N) (kvs : list (item * item)) : option (list (N * value)) :=
                     match kvs with
                     | [] => Some []
                     | (k, x) :: r =>
                         match dec_key w prev k with
                         | Some k' => match dec_g pt e x, go k' r with Some v, Some vs => Some ((k', v) :: vs) | _, _ => None end
                         | None => None
                         end
                     end) prev l = dec_kvs pt w e prev l).
  { induction l as [|[k x] r IH]; intros prev; [reflexivity|]. cbn [dec_kvs]. destruct (dec_key w prev k); [|reflexivity].
    rewrite <- IH. reflexivity. }
  rewrite E. reflexivity.
Qed.

(* strictly ascending keys are pairwise distinct *)
Lemma sorted_lower {A} w : forall (kvs : list (N * A)) k v, sorted_keys w ((k, v) :: kvs) = true ->
  Forall (fun kv => k < fst kv) kvs.
Proof.
  induction kvs as [|[k1 v1] r IH]; intros k v H; [constructor|].
  cbn [sorted_keys] in H. apply andb_true_iff in H. destruct H as [H1 H2]. apply andb_true_iff in H1. destruct H1 as [_ H1].
  apply N.ltb_lt in H1. constructor; [exact H1|].
  pose proof (IH k1 v1 H2) as F. eapply Forall_impl; [|exact F]. cbn. intros a Ha. lia.
Qed.

Lemma sorted_nodup {A} w : forall (kvs : list (N * A)), sorted_keys w kvs = true -> nodup_keys (map fst kvs) = true.
Proof.
  induction kvs as [|[k v] r IH]; intros H; [reflexivity|]. cbn [map fst nodup_keys].
  pose proof (sorted_lower w r k v H) as F.
  cbn [sorted_keys] in H. apply andb_true_iff in H. destruct H as [_ H2]. rewrite (IH H2), andb_true_r.
  apply negb_true_iff. apply not_true_is_false. intros E. apply existsb_exists in E. destruct E as (x & Hin & Ex).
  apply N.eqb_eq in Ex. subst x. apply in_map_iff in Hin. destruct Hin as ([k' v'] & E1 & Hin). cbn in E1. subst k'.
  rewrite Forall_forall in F. specialize (F _ Hin). cbn in F. lia.
Qed.

Lemma fixn_exact n bs : len bs = n -> fixn n bs = bs.
Proof.
  intros <-. unfold fixn, len. rewrite Nat2N.id, firstn_app, Nat.sub_diag, firstn_all. cbn. apply app_nil_r.
Qed.

Lemma enc_s_list e vs : enc_s (SList e) (VList vs) =
  option_map (fun xs => Arr (Some (min_form (len xs))) xs) (enc_list e vs).
Proof. cbn [enc_s]. f_equal. induction vs as [|v r IH]; [reflexivity|]. cbn [enc_list]. rewrite <- IH. reflexivity. Qed.

Lemma enc_s_struct fs vs : enc_s (SStruct fs) (VStruct vs) =
  option_map (fun xs => Arr (Some (min_form (len xs))) xs) (enc_fields fs vs).
Proof.
  reflexivity.
Qed.

Lemma dec_g_list pt e i : dec_g pt (SList e) i =
  if is_nil (strip i) then Some (VList []) else
  match strip i with Arr _ xs => option_map VList (dec_list pt e xs) | _ => None end.
Proof.
  cbn [dec_g zero]. destruct (is_nil (strip i)); [reflexivity|]. destruct (strip i); try reflexivity.
  f_equal. induction xs as [|x r IH]; [reflexivity|]. cbn [dec_list]. rewrite <- IH. reflexivity.
Qed.

Lemma dec_g_struct pt fs i : dec_g pt (SStruct fs) i =
  if is_nil (strip i) then Some (VStruct (map zero fs)) else
  match strip i with Arr _ xs => option_map VStruct (dec_fields pt fs xs) | _ => None end.
Proof.
  cbn [dec_g zero]. destruct (is_nil (strip i)); [reflexivity|]. destruct (strip i); try reflexivity.
  f_equal. revert xs. induction fs as [|f0 fr IH]; intros [|x xr]; try reflexivity.
  cbn [dec_fields]. rewrite <- IH. reflexivity.
Qed.

Lemma dec_fields_length pt : forall fs xs vs, dec_fields pt fs xs = Some vs ->
  length xs = length fs /\ length vs = length fs.
Proof.
  induction fs as [|f fr IH]; intros [|x xr] vs H; cbn [dec_fields] in H; try discriminate.
  - injection H as <-. split; reflexivity.
  - destruct (dec_g pt f x); [|discriminate]. destruct (dec_fields pt fr xr) as [vs'|] eqn:E; [|discriminate].
    injection H as <-. destruct (IH _ _ E). cbn [length]. split; congruence.
Qed.

Lemma dec_fields_each pt : forall fs xs vs, dec_fields pt fs xs = Some vs ->
  Forall2 (fun f xv => dec_g pt f (fst xv) = Some (snd xv)) fs (combine xs vs).
Proof.
  induction fs as [|f fr IH]; intros [|x xr] vs H; cbn [dec_fields] in H; try discriminate.
  - injection H as <-. constructor.
  - destruct (dec_g pt f x) eqn:D; [|discriminate]. destruct (dec_fields pt fr xr) as [vs'|] eqn:E; [|discriminate].
    injection H as <-. cbn [combine]. constructor; [exact D|]. apply IH. exact E.
Qed.

(* ---- generic round trip ---- *)
Definition point_ok (pt : item -> option value) : Prop :=
  pt (Arr (Some Fimm) []) = Some VOrigin /\
  forall f g n h, pt (Arr (Some Fimm) [UInt f n; BStr g h]) = Some (VPoint n h).

Lemma dec_enc_g pt : point_ok pt -> forall s v i, enc_s s v = Some i -> dec_g pt s i = Some v.
Proof.
  intros [P0 P2]. induction s as [w| | | | |e IH|fs IH| | |e IH| |n| | |ind w e IH| |p s IH|n a b IHa IHb|a b IHa IHb] using schema_ind'; intros v i E.
  - destruct v; try discriminate. cbn [enc_s] in E. destruct (n <? 2 ^ w) eqn:L; [|discriminate].
    injection E as <-. cbn [dec_g strip is_nil dec_uint]. unfold fit. rewrite L. reflexivity.
  - destruct v; try discriminate. injection E as <-. destruct b; reflexivity.
  - destruct v; try discriminate. injection E as <-. reflexivity.
  - destruct v; try discriminate. injection E as <-. reflexivity.
  - destruct v; try discriminate. injection E as <-. reflexivity.
  - destruct v as [| | | | |vs| | | | | | | |]; try discriminate. rewrite enc_s_list in E.
    destruct (enc_list e vs) as [xs|] eqn:EL; [|discriminate]. injection E as <-.
    rewrite dec_g_list. cbn [strip is_nil].
    assert (G : dec_list pt e xs = Some vs).
    { revert xs EL. induction vs as [|v r IHr]; intros xs EL; cbn [enc_list] in EL.
      - injection EL as <-. reflexivity.
      - destruct (enc_s e v) as [x|] eqn:Ev; [|discriminate]. destruct (enc_list e r) as [xr|] eqn:Er; [|discriminate].
        injection EL as <-. cbn [dec_list]. rewrite (IH _ _ Ev), (IHr _ eq_refl). reflexivity. }
    rewrite G. reflexivity.
  - destruct v as [| | | | | |vs| | | | | | |]; try discriminate. rewrite enc_s_struct in E.
    destruct (enc_fields fs vs) as [xs|] eqn:EL; [|discriminate]. injection E as <-.
    rewrite dec_g_struct. cbn [strip is_nil].
    assert (G : dec_fields pt fs xs = Some vs).
    { revert vs xs EL. induction IH as [|f fr Hf _ IHr]; intros [|v vr] xs EL; cbn [enc_fields] in EL; try discriminate.
      - injection EL as <-. reflexivity.
      - destruct (enc_s f v) as [x|] eqn:Ev; [|discriminate]. destruct (enc_fields fr vr) as [xr|] eqn:Er; [|discriminate].
        injection EL as <-. cbn [dec_fields]. rewrite (Hf _ _ Ev), (IHr _ _ Er). reflexivity. }
    rewrite G. reflexivity.
  - destruct v; try discriminate; cbn [enc_s] in E.
    + injection E as <-. cbn [dec_g strip is_nil]. exact P0.
    + destruct (slot <? 2 ^ 64); [|discriminate]. injection E as <-. cbn [dec_g strip is_nil]. apply P2.
  - destruct v; discriminate.
  - (* SListI *)
    destruct v as [| | | | |vs| | | | | | | |]; try discriminate. rewrite enc_s_listi in E.
    destruct (enc_list e vs) as [xs|] eqn:EL; [|discriminate]. injection E as <-.
    rewrite dec_g_listi. cbn [strip is_nil].
    assert (G : dec_list pt e xs = Some vs).
    { revert xs EL. induction vs as [|v r IHr]; intros xs EL; cbn [enc_list] in EL.
      - injection EL as <-. reflexivity.
      - destruct (enc_s e v) as [x|] eqn:Ev; [|discriminate]. destruct (enc_list e r) as [xr|] eqn:Er; [|discriminate].
        injection EL as <-. cbn [dec_list]. rewrite (IH _ _ Ev), (IHr _ eq_refl). reflexivity. }
    rewrite G. reflexivity.
  - (* STagBytes *) destruct v; try discriminate. injection E as <-. reflexivity.
  - (* SBytesN *) destruct v; try discriminate. cbn [enc_s] in E. destruct (len bs =? n) eqn:L; [|discriminate].
    injection E as <-. apply N.eqb_eq in L. cbn [dec_g strip is_nil dec_bytes option_map]. rewrite (fixn_exact n bs L). reflexivity.
  - (* STagAny *) destruct v as [| | | | | | | | | |t v0| | |]; try discriminate. destruct v0; try discriminate. cbn [enc_s] in E.
    destruct (N.leb_spec 4 t) as [L|L]; [|discriminate]. injection E as <-.
    cbn [dec_g is_nil]. unfold builtin_ok.
    destruct (N.eqb_spec t 0); [lia|]. destruct (N.eqb_spec t 1); [lia|]. destruct (N.eqb_spec t 2); [lia|]. destruct (N.eqb_spec t 3); [lia|].
    reflexivity.
  - (* SAny *) destruct v; discriminate.
  - (* SMapU *)
    destruct v as [| | | | | | | | | | |kvs| |]; try discriminate. rewrite enc_s_map in E.
    destruct (sorted_keys w kvs) eqn:SK; [|discriminate].
    destruct (enc_kvs e kvs) as [xs|] eqn:EL; [|discriminate]. injection E as <-.
    rewrite dec_g_map. cbn [strip is_nil].
    assert (G : forall prev, dec_kvs pt w e prev xs = Some kvs).
    { revert xs EL SK. induction kvs as [|[k v] r IHr]; intros xs EL SK prev; cbn [enc_kvs] in EL.
      - injection EL as <-. reflexivity.
      - destruct (enc_s e v) as [x|] eqn:Ev; [|discriminate]. destruct (enc_kvs e r) as [xr|] eqn:Er; [|discriminate].
        injection EL as <-. cbn [dec_kvs]. cbn [sorted_keys] in SK. apply andb_true_iff in SK. destruct SK as [S1 S2].
        apply andb_true_iff in S1. destruct S1 as [S0 _].
        unfold dec_key. cbn [strip is_nil dec_uint]. unfold fit. rewrite S0.
        rewrite (IH _ _ Ev), (IHr _ eq_refl S2). reflexivity. }
    rewrite G, (sorted_nodup w kvs SK). reflexivity.
  - (* SPeer *)
    destruct v; try discriminate; cbn [enc_s] in E.
    + destruct (addr <? 2 ^ 32) eqn:A; [|discriminate]. destruct (port <? 2 ^ 16) eqn:Pt; [|discriminate]. cbn [andb] in E.
      injection E as <-. cbn [dec_g dec_peer N.eqb]. unfold dec_u. cbn [strip is_nil dec_uint]. unfold fit. rewrite A, Pt. reflexivity.
    + destruct (a1 <? 2 ^ 32) eqn:A1; [|discriminate]. destruct (a2 <? 2 ^ 32) eqn:A2; [|discriminate].
      destruct (a3 <? 2 ^ 32) eqn:A3; [|discriminate]. destruct (a4 <? 2 ^ 32) eqn:A4; [|discriminate].
      destruct (port <? 2 ^ 16) eqn:Pt; [|discriminate]. cbn [andb] in E.
      injection E as <-. cbn [dec_g dec_peer N.eqb Pos.eqb]. unfold dec_u. cbn [strip is_nil dec_uint]. unfold fit.
      rewrite A1, A2, A3, A4, Pt. reflexivity.
  - (* SPost *)
    assert (E' : match post_enc p v with Some v' => enc_s s v' | None => None end = Some i) by (destruct v; exact E).
    destruct (post_enc p v) as [v'|] eqn:PE; [|discriminate].
    cbn [dec_g]. rewrite (IH _ _ E'). apply post_law. exact PE.
  - (* SByLen *)
    assert (E' : match enc_s a v with
                 | Some i => if arr_len_is n i then Some i else None
                 | None => match enc_s b v with Some i => if arr_len_isnt n i then Some i else None | None => None end
                 end = Some i) by (destruct v; exact E).
    destruct (enc_s a v) as [ia|] eqn:Ea.
    + destruct (arr_len_is n ia) eqn:L; [|discriminate]. injection E' as <-.
      destruct ia; try discriminate. cbn [arr_len_is] in L. cbn [dec_g strip]. rewrite L. apply IHa. exact Ea.
    + destruct (enc_s b v) as [ib|] eqn:Eb; [|discriminate]. destruct (arr_len_isnt n ib) eqn:L; [|discriminate]. injection E' as <-.
      destruct ib; try discriminate. cbn [arr_len_isnt] in L. apply negb_true_iff in L. cbn [dec_g strip]. rewrite L. apply IHb. exact Eb.
  - (* SAlt *)
    assert (E' : enc_s a v = Some i) by (destruct v; exact E).
    cbn [dec_g]. rewrite (IHa _ _ E'). reflexivity.
Qed.

Lemma point_ok_fixed : point_ok dec_point.
Proof. split; reflexivity. Qed.
Lemma point_ok_pinned : point_ok dec_point_pinned.
Proof. split; reflexivity. Qed.

(* ---- shapes ---- *)
Lemma struct_shape pt fs i v : dec_g pt (SStruct fs) i = Some v ->
  is_nil (strip i) = true \/
  exists f xs vs, strip i = Arr f xs /\ length xs = length fs /\ v = VStruct vs /\
    Forall2 (fun s xv => dec_g pt s (fst xv) = Some (snd xv)) fs (combine xs vs).
Proof.
  rewrite dec_g_struct. destruct (is_nil (strip i)); [left; reflexivity|]. right. revert H.
  destruct (strip i) as [| | | | | |f xs| | | |]; try discriminate.
  destruct (dec_fields pt fs xs) as [vs|] eqn:E; [|discriminate]. intros H. injection H as <-.
  exists f, xs, vs. destruct (dec_fields_length _ _ _ _ E). repeat split; auto. apply dec_fields_each. exact E.
Qed.

Lemma point_shape i p : dec_s SPoint i = Some p ->
  is_nil (strip i) = true \/
  (exists f, strip i = Arr f [] /\ p = VOrigin) \/
  (exists f g n h bs, strip i = Arr f [UInt g n; h] /\ dec_bytes h = Some bs /\ p = VPoint n bs).
Proof.
  unfold dec_s. cbn [dec_g]. intros H0. destruct (is_nil (strip i)); [left; reflexivity|]. right. revert H0.
  unfold dec_point. destruct (strip i) as [| | | | | |f xs| | | |]; try discriminate.
  destruct xs as [|a [|b [|c r]]]; try discriminate; try (destruct a; discriminate).
  - intros E. injection E as <-. left. eauto.
  - destruct a; try discriminate. destruct (dec_bytes b) as [bs|] eqn:B; [|discriminate].
    intros E. injection E as <-. right. exists f, f0, n, b, bs. auto.
Qed.

(* a plain item: no tag, no simple value *)
Definition plain (j : item) : bool := match j with Tag _ _ _ | Simple _ _ => false | _ => true end.

Lemma uint_shape pt w i v : dec_g pt (SUInt w) i = Some v -> plain (strip i) = true ->
  exists f n, strip i = UInt f n /\ n < 2 ^ w /\ v = VUInt n.
Proof.
  cbn [dec_g]. destruct (strip i) eqn:S; cbn [is_nil plain dec_uint]; try discriminate.
  unfold fit. destruct (n <? 2 ^ w) eqn:L; [|discriminate]. intros H _. injection H as <-.
  exists f, n. repeat split. apply N.ltb_lt. exact L.
Qed.

Lemma bool_shape pt i v : dec_g pt SBool i = Some v -> is_nil (strip i) = false ->
  exists b : bool, strip i = Simple Fimm (if b then 21 else 20) /\ v = VBool b.
Proof.
  cbn [dec_g]. intros H Hn. rewrite Hn in H. destruct (strip i) as [| | | | | | | | |f v0|]; try discriminate.
  destruct f; try discriminate. destruct (v0 =? 20) eqn:A.
  - injection H as <-. apply N.eqb_eq in A. subst. exists false. auto.
  - destruct (v0 =? 21) eqn:B; [|discriminate]. injection H as <-. apply N.eqb_eq in B. subst. exists true. auto.
Qed.

Definition is_arr (j : item) : bool := match j with Arr _ _ => true | _ => false end.

Lemma bytes_shape pt i v : dec_g pt SBytes i = Some v -> is_nil (strip i) = false -> is_arr (strip i) = false ->
  exists bs, v = VBytes bs /\ ((exists f, strip i = BStr f bs) \/ (exists cs, strip i = BStrI cs /\ bs = flat_map snd cs)).
Proof.
  cbn [dec_g]. intros H Hn Ha. rewrite Hn in H. destruct (strip i); try discriminate; cbn in H; injection H as <-.
  - eexists. split; [reflexivity|]. left. eauto.
  - eexists. split; [reflexivity|]. right. eauto.
Qed.

Lemma text_shape pt i v : dec_g pt SText i = Some v -> is_nil (strip i) = false ->
  exists bs, v = VText bs /\ ((exists f, strip i = TStr f bs) \/ (exists cs, strip i = TStrI cs /\ bs = flat_map snd cs)).
Proof.
  cbn [dec_g]. intros H Hn. rewrite Hn in H. destruct (strip i); try discriminate; injection H as <-.
  - eexists. split; [reflexivity|]. left. eauto.
  - eexists. split; [reflexivity|]. right. eauto.
Qed.
