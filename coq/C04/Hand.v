(* C04 - the hand-written codecs (third round): decoding what the hand-written
   encoder produced gives the fields back (post_law), per codec. *)
From V Require Import Lib.Base Lib.Cbor Lib.CborParse C04.Model.
From V Require Lib.CborProofs C22.Model C22.Proofs.
Local Open Scope N_scope.

Ltac dv H := repeat match type of H with
  | context [match ?x with _ => _ end] => is_var x; destruct x; try discriminate H
  end.
Ltac split_and H := repeat match type of H with
  | (_ && _) = true => let H1 := fresh H in apply andb_true_iff in H; destruct H as [H H1]
  end.

Lemma all_bytes_b_ok bs : all_bytes_b bs = true -> all_bytes bs.
Proof.
  unfold all_bytes_b, all_bytes. intros H. apply Forall_forall. intros x Hx.
  rewrite forallb_forall in H. specialize (H x Hx). unfold is_byte. lia.
Qed.

Lemma dec_u_muint w n : n < 2 ^ w -> dec_u w (C22.Model.muint n) = Some n.
Proof.
  intros H. unfold dec_u, C22.Model.muint. cbn [strip is_nil dec_uint]. unfold fit.
  destruct (N.ltb_spec n (2 ^ w)); [reflexivity|lia].
Qed.

Lemma dec_tag_bytes_24 h : dec_tag_bytes (C22.Model.tag24 (C22.Model.mbstr h)) = Some h.
Proof. reflexivity. Qed.

Lemma filter_all {A} (p : A -> bool) l : forallb p l = true -> filter p l = l.
Proof.
  induction l as [|x r IH]; [reflexivity|]. cbn [forallb filter]. intros H. apply andb_true_iff in H. destruct H as [H1 H2].
  rewrite H1, (IH H2). reflexivity.
Qed.
Lemma filter_none {A} (p q : A -> bool) l : forallb p l = true -> (forall x, p x = true -> q x = false) -> filter q l = [].
Proof.
  induction l as [|x r IH]; [reflexivity|]. cbn [forallb filter]. intros H D. apply andb_true_iff in H. destruct H as [H1 H2].
  rewrite (D x H1), (IH H2 D). reflexivity.
Qed.
Lemma k_arity_disj n m v : n <> m -> k_arity n v = true -> k_arity m v = false.
Proof.
  unfold k_arity. destruct v; try discriminate. intros Hn H. apply Nat.eqb_eq in H. apply Nat.eqb_neq. congruence.
Qed.
Lemma partition3_homogeneous vs : homogeneous vs = true -> partition3 vs = vs.
Proof.
  unfold homogeneous, partition3. intros H. apply orb_true_iff in H. destruct H as [H|H]; [apply orb_true_iff in H; destruct H as [H|H]|].
  - rewrite (filter_all _ _ H), (filter_none _ (k_arity 4) _ H), (filter_none _ (k_arity 3) _ H).
    + rewrite app_nil_r. reflexivity.
    + intros x. apply k_arity_disj. lia.
    + intros x. apply k_arity_disj. lia.
  - rewrite (filter_all _ _ H), (filter_none _ (k_arity 2) _ H), (filter_none _ (k_arity 3) _ H).
    + rewrite app_nil_r. reflexivity.
    + intros x. apply k_arity_disj. lia.
    + intros x. apply k_arity_disj. lia.
  - rewrite (filter_all _ _ H), (filter_none _ (k_arity 2) _ H), (filter_none _ (k_arity 4) _ H).
    + reflexivity.
    + intros x. apply k_arity_disj. lia.
    + intros x. apply k_arity_disj. lia.
Qed.

(* the wrapped block of the NtC RollForward: what NewMsgRollForwardNtC put into
   the tag is parsed back to (block type, block bytes) - via C22's lemmas *)
Lemma ntc_content bt braw :
  bt < 2 ^ 64 -> all_bytes braw -> C22.Model.one_item braw = true ->
  exists inner, parse_full (C22.Model.wrapped_block_bytes bt braw) = Ok inner [] /\ dec_wblock inner = Some (bt, braw).
Proof.
  intros Hbt Hb H1. unfold C22.Model.one_item in H1.
  destruct (parse_full braw) as [b rest| |] eqn:P; try discriminate. destruct rest; [|discriminate].
  destruct (Lib.CborProofs.parse_full_sound braw b [] Hb P) as [E Wb]. rewrite app_nil_r in E. subst braw.
  exists (C22.Model.arr2 (C22.Model.muint bt) b). split.
  - rewrite C22.Proofs.wrapped_block_enc by exact Wb. apply C22.Proofs.parse_full_enc_nil.
    apply C22.Proofs.wf_arr2; [apply C22.Proofs.wf_muint, Hbt|exact Wb].
  - unfold dec_wblock, C22.Model.arr2. cbn [strip is_nil]. rewrite (dec_u_muint 64 bt Hbt). reflexivity.
Qed.

Lemma post_law p v v' : post_enc p v = Some v' -> post_dec p v' = Some v.
Proof.
  destruct p; intros H; cbn [post_enc] in H.
  - (* PReplyNextTx *)
    dv H.
    + destruct ((n <? 256) && (n0 =? 0)) eqn:C; [|discriminate]. injection H as <-. split_and C.
      apply N.eqb_eq in C0. subst n0. unfold arr1, muint, C22.Model.muint. cbn [post_dec strip]. rewrite C. reflexivity.
    + destruct ((n <? 256) && (n0 <? 256)) eqn:C; [|discriminate]. injection H as <-. split_and C.
      unfold arr2, C22.Model.arr2, muint, C22.Model.muint, tag24, C22.Model.tag24, mbstr, C22.Model.mbstr.
      cbn [post_dec strip]. rewrite C, C0. reflexivity.
  - (* PNtC *)
    dv H.
    match type of H with (if ?c then _ else _) = _ => destruct c eqn:C; [|discriminate] end. injection H as <-. split_and C.
    apply bytes_eqb_eq in C0. subst bs. apply N.ltb_lt in C3. apply all_bytes_b_ok in C2.
    match goal with A : ?b < 2 ^ 64, B : all_bytes ?r, O : C22.Model.one_item ?r = true |- _ => destruct (ntc_content b r A B O) as (inner & P & D) end.
    cbn [post_dec]. rewrite P, D. reflexivity.
  - (* PWHeader *)
    dv H. destruct (N.eqb_spec n 0) as [->|Hn].
    + match type of H with (if ?c then _ else _) = _ => destruct c eqn:C; [|discriminate] end. injection H as <-. split_and C.
      apply N.ltb_lt in C, C0. cbn [post_dec N.eqb]. unfold arr2, C22.Model.arr2. cbn [strip].
      unfold dec_byron_meta. cbn [strip is_nil]. unfold muint. rewrite (dec_u_muint 64 n0 C), (dec_u_muint 64 n1 C0).
      unfold tag24, mbstr. rewrite dec_tag_bytes_24. reflexivity.
    + match type of H with (if ?c then _ else _) = _ => destruct c eqn:C; [|discriminate] end. injection H as <-. split_and C.
      apply N.eqb_eq in C, C0. subst n0 n1. cbn [post_dec]. destruct (N.eqb_spec n 0); [contradiction|].
      unfold tag24, mbstr. rewrite dec_tag_bytes_24. reflexivity.
  - (* PLens *)
    destruct (lens_ok cs v) eqn:L; [|discriminate]. injection H as <-. cbn [post_dec]. rewrite L. reflexivity.
  - (* PPartition *)
    dv H. match type of H with (if homogeneous ?l then _ else _) = _ => destruct (homogeneous l) eqn:Hm; [|discriminate]; injection H as <-;
      cbn [post_dec]; rewrite (partition3_homogeneous l Hm); reflexivity end.
  - (* PRejectReason *)
    dv H. destruct (n <=? 3) eqn:C; [|discriminate]. injection H as <-.
    unfold arr2, C22.Model.arr2, muint, C22.Model.muint, mtstr. cbn [post_dec strip is_nil]. rewrite C. reflexivity.
  - discriminate.
  - (* PDmqPayload *) dv H. injection H as <-. reflexivity.
  - (* PDmq *) dv H.
    match type of H with (if ?c then _ else _) = _ => destruct c eqn:C; [|discriminate] end. injection H as <-. split_and C.
    apply bytes_eqb_eq in C. subst. reflexivity.
Qed.
