(* C04 - mini-protocol message codecs.
   A schema language for the message structs of protocol/*/messages.go as the
   CBOR library (fxamacker, struct tag `toarray` via cbor.StructAsArray)
   encodes and decodes them, instantiated per message type by the translator
   (C04/Gen.v, reflection over the Go types).  enc_s = cbor.Encode of a Go
   value; dec_s = cbor.Decode into the Go type, quirks included (null and
   undefined leave the zero value in ANY field, simple values and fitting
   bignums decode into unsigned fields, unknown tags are transparent).
   Point is the FIXED pcommon.Point.UnmarshalCBOR (fixes/C04-point-arity.patch);
   dec_point_pinned is the pinned code.  NO proofs in this file. *)
From V Require Import Lib.Base Lib.Cbor Lib.CborParse.
From V Require C22.Model.
Local Open Scope N_scope.

(* hand-written post-processing of a decoded value (third round): the part of
   an UnmarshalCBOR / MarshalCBOR pair that is not the library's reflection *)
Inductive post :=
| PReplyNextTx                 (* localtxmonitor.MsgReplyNextTx: whole message through []any *)
| PNtC                         (* chainsync.MsgRollForwardNtC: the wrapped block inside the tag-24 content *)
| PWHeader                     (* chainsync.WrappedHeader *)
| PLens (cs : list (nat * N))  (* Validate(): byte fields of a struct with fixed lengths (Leios votes) *)
| PPartition                   (* leiosnotify.MsgVotesOffer: votes sorted into three lists by shape *)
| PRejectReason                (* pcommon.RejectReasonData: [type, message?] through []any *)
| PQuery                       (* localstatequery.QueryWrapper *)
| PDmqPayload                  (* pcommon.DmqMessagePayload: current / legacy shape -> one struct *)
| PDmq.                        (* pcommon.DmqMessage *)

Inductive schema :=
| SUInt (bits : N)            (* uint8/16/32/64, uint *)
| SBool
| SBytes                      (* []byte *)
| SText                       (* string *)
| SRaw                        (* cbor.RawMessage: any item, kept verbatim *)
| SList (s : schema)          (* []T *)
| SStruct (fs : list schema)  (* struct with cbor.StructAsArray: fixed-length array *)
| SPoint                      (* pcommon.Point: [] or [slot, hash], custom codec *)
| SListI (s : schema)         (* []T written by a hand MarshalCBOR as an indefinite-length list, read by reflection *)
| STagBytes                   (* []byte written as tag 24 (wrapped CBOR) + byte string, read by reflection as []byte *)
| SBytesN (n : N)             (* [n]byte *)
| STagAny                     (* cbor.Tag: any tag number, any content *)
| SAny                        (* any / interface{}: every item, content not observed *)
| SMapU (indef : bool) (bits : N) (s : schema) (* map[uintN]T; indef: written as an indefinite-length map by a hand encoder *)
| SPeer                       (* peersharing.PeerAddress, custom codec *)
| SOpaque                     (* custom codec not modelled here *)
| SPost (p : post) (s : schema)     (* decode by s, then the hand-written post-processing p (encode: p first) *)
| SByLen (n : N) (a b : schema)     (* the decoder peeks at the element count: an array of n elements is an a, every other array a b *)
| SAlt (a b : schema).              (* decoder: try a, on error b; the encoder emits a only *)

Inductive value :=
| VUInt (n : N) | VBool (b : bool) | VBytes (bs : bytes) | VText (bs : bytes) | VRaw (i : item)
| VList (vs : list value) | VStruct (vs : list value)
| VOrigin | VPoint (slot : N) (hash : bytes)
| VAny | VTagged (t : N) (v : value) | VMap (kvs : list (N * value))
| VPeer4 (addr port : N) | VPeer6 (a1 a2 a3 a4 port : N).

Definition len {A} (l : list A) : N := N.of_nat (length l).

(* map keys as the encoder emits them (SortCoreDeterministic = ascending for
   unsigned keys), in range, without duplicates *)
Fixpoint sorted_keys {A} (w : N) (kvs : list (N * A)) : bool :=
  match kvs with
  | [] => true
  | (k, _) :: r => (k <? 2 ^ w) && match r with (k', _) :: _ => k <? k' | [] => true end && sorted_keys w r
  end.

(* ---- hand-written encoders (third round) ---- *)
Definition muint := C22.Model.muint.     (* shortest-form unsigned *)
Definition mbstr := C22.Model.mbstr.     (* definite byte string, shortest length form *)
Definition tag24 := C22.Model.tag24.     (* d8 18 *)
Definition mtstr (bs : bytes) : item := TStr (min_form (len bs)) bs.
Definition arr1 (a : item) : item := Arr (Some Fimm) [a].
Definition arr2 := C22.Model.arr2.
Definition all_bytes_b (bs : bytes) : bool := forallb (fun b => b <? 256) bs.
Definition k_arity (n : nat) (v : value) : bool := match v with VStruct l => Nat.eqb (length l) n | _ => false end.
(* Validate(): the byte fields at the given positions have the given lengths *)
Definition lens_ok (cs : list (nat * N)) (v : value) : bool :=
  match v with
  | VStruct vs => forallb (fun c => match nth_error vs (fst c) with Some (VBytes bs) => len bs =? snd c | _ => false end) cs
  | _ => false
  end.
(* MsgVotesOffer keeps vote ids (2 elements), full votes (4) and prototype
   votes (3) in three lists; observed in that order *)
Definition partition3 (vs : list value) : list value :=
  filter (k_arity 2) vs ++ filter (k_arity 4) vs ++ filter (k_arity 3) vs.
Definition homogeneous (vs : list value) : bool :=
  forallb (k_arity 2) vs || forallb (k_arity 4) vs || forallb (k_arity 3) vs.

(* the MarshalCBOR side of each hand-written codec: from the observed fields
   to the value the underlying schema encodes; None = a field combination no
   constructor produces / the encoder rejects *)
Definition post_enc (p : post) (v : value) : option value :=
  match p, v with
  (* MsgReplyNextTx.MarshalCBOR: [type] when Tx == nil, else [type, [era, 24(tx)]] *)
  | PReplyNextTx, VStruct [VUInt t; VUInt e; VList []] =>
      if (t <? 256) && (e =? 0) then Some (VRaw (arr1 (muint t))) else None
  | PReplyNextTx, VStruct [VUInt t; VUInt e; VList [VBytes bs]] =>
      if (t <? 256) && (e <? 256) then Some (VRaw (arr2 (muint t) (arr2 (muint e) (tag24 (mbstr bs))))) else None
  (* NewMsgRollForwardNtC: WrappedBlock = Tag{24, cbor.Encode([blockType, RawMessage(block)])};
     fxamacker refuses a RawMessage that is not exactly one well-formed item *)
  | PNtC, VStruct [VUInt t; VTagged n (VBytes c); tip; VUInt bt; VBytes braw] =>
      if (n =? 24) && (bt <? 2 ^ 64) && all_bytes_b braw && C22.Model.one_item braw
         && bytes_eqb c (C22.Model.wrapped_block_bytes bt braw)
      then Some (VStruct [VUInt t; VTagged n (VBytes c); tip]) else None
  (* WrappedHeader.MarshalCBOR: [era, 24(header)], Byron: [0, [[type, size], 24(header)]] *)
  | PWHeader, VStruct [VUInt era; VUInt ty; VUInt sz; VBytes h] =>
      if era =? 0 then
        if (ty <? 2 ^ 64) && (sz <? 2 ^ 64) then
          Some (VStruct [VUInt era; VRaw (arr2 (arr2 (muint ty) (muint sz)) (tag24 (mbstr h)))]) else None
      else if (ty =? 0) && (sz =? 0) then Some (VStruct [VUInt era; VRaw (tag24 (mbstr h))]) else None
  | PLens cs, _ => if lens_ok cs v then Some v else None
  (* MsgVotesOffer.MarshalCBOR emits ONE of the three lists *)
  | PPartition, VStruct [t; VList vs] => if homogeneous vs then Some v else None
  (* RejectReasonData.MarshalCBOR: always [type, message] *)
  | PRejectReason, VStruct [VUInt t; VText m] =>
      if t <=? 3 then Some (VRaw (arr2 (muint t) (mtstr m))) else None
  (* DmqMessagePayload.MarshalCBOR: the current shape [body, kesPeriod, expiresAt];
     the legacy MessageID alias is not written *)
  | PDmqPayload, VStruct [VBytes []; b; k; e] => Some (VStruct [b; k; e])
  (* DmqMessage.MarshalCBOR: the current shape with msgID = ID(); an empty id is
     recomputed (Blake2b-256 of the payload: outside this model, None) *)
  | PDmq, VStruct [VBytes id; VStruct [VBytes pid; b; k; e]; sg; oc; ck] =>
      if bytes_eqb id pid && negb (len id =? 0) then Some (VStruct [VBytes id; VStruct [VBytes []; b; k; e]; sg; oc; ck]) else None
  | _, _ => None
  end.

(* ---- cbor.Encode: shortest heads, definite lengths ---- *)
Definition arr_len_is (n : N) (i : item) : bool := match i with Arr _ xs => len xs =? n | _ => false end.
Definition arr_len_isnt (n : N) (i : item) : bool := match i with Arr _ xs => negb (len xs =? n) | _ => false end.
Fixpoint enc_s (s : schema) (v : value) {struct s} : option item :=
  match s, v with
  | SUInt w, VUInt n => if n <? 2 ^ w then Some (UInt (min_form n) n) else None
  | SBool, VBool b => Some (Simple Fimm (if b then 21 else 20))
  | SBytes, VBytes bs => Some (BStr (min_form (len bs)) bs)
  | SText, VText bs => Some (TStr (min_form (len bs)) bs)
  | SRaw, VRaw i => Some i
  | SList e, VList vs =>
      option_map (fun xs => Arr (Some (min_form (len xs))) xs)
        ((fix go (vs : list value) : option (list item) :=
            match vs with
            | [] => Some []
            | v :: r => match enc_s e v, go r with Some x, Some xs => Some (x :: xs) | _, _ => None end
            end) vs)
  | SStruct fs, VStruct vs =>
      option_map (fun xs => Arr (Some (min_form (len xs))) xs)
        ((fix go (fs : list schema) (vs : list value) {struct fs} : option (list item) :=
            match fs, vs with
            | [], [] => Some []
            | f :: fr, v :: vr => match enc_s f v, go fr vr with Some x, Some xs => Some (x :: xs) | _, _ => None end
            | _, _ => None
            end) fs vs)
  | SListI e, VList vs =>
      option_map (fun xs => Arr None xs)
        ((fix go (vs : list value) : option (list item) :=
            match vs with
            | [] => Some []
            | v :: r => match enc_s e v, go r with Some x, Some xs => Some (x :: xs) | _, _ => None end
            end) vs)
  | STagBytes, VBytes bs => Some (Tag F1 24 (BStr (min_form (len bs)) bs))
  | SBytesN n, VBytes bs => if len bs =? n then Some (BStr (min_form (len bs)) bs) else None
  | STagAny, VTagged t (VBytes bs) => if 4 <=? t then Some (Tag (min_form t) t (BStr (min_form (len bs)) bs)) else None
  | SMapU ind w e, VMap kvs =>
      if sorted_keys w kvs then
        option_map (fun xs => Map (if ind then None else Some (min_form (len xs))) xs)
          ((fix go (kvs : list (N * value)) : option (list (item * item)) :=
              match kvs with
              | [] => Some []
              | (k, v) :: r => match enc_s e v, go r with Some x, Some xs => Some ((UInt (min_form k) k, x) :: xs) | _, _ => None end
              end) kvs)
      else None
  | SPeer, VPeer4 a p =>
      if (a <? 2 ^ 32) && (p <? 2 ^ 16) then Some (Arr (Some Fimm) [UInt Fimm 0; UInt (min_form a) a; UInt (min_form p) p]) else None
  | SPeer, VPeer6 a1 a2 a3 a4 p =>
      if (a1 <? 2 ^ 32) && (a2 <? 2 ^ 32) && (a3 <? 2 ^ 32) && (a4 <? 2 ^ 32) && (p <? 2 ^ 16) then
        Some (Arr (Some Fimm) [UInt Fimm 1; UInt (min_form a1) a1; UInt (min_form a2) a2; UInt (min_form a3) a3;
                               UInt (min_form a4) a4; UInt (min_form p) p])
      else None
  | SPoint, VOrigin => Some (Arr (Some Fimm) [])
  | SPoint, VPoint sl h =>
      if sl <? 2 ^ 64 then Some (Arr (Some Fimm) [UInt (min_form sl) sl; BStr (min_form (len h)) h]) else None
  | SPost p s', _ => match post_enc p v with Some v' => enc_s s' v' | None => None end
  | SByLen n a b, _ =>
      match enc_s a v with
      | Some i => if arr_len_is n i then Some i else None
      | None => match enc_s b v with Some i => if arr_len_isnt n i then Some i else None | None => None end
      end
  | SAlt a b, _ => enc_s a v
  | _, _ => None
  end.

(* ---- cbor.Decode ---- *)
(* tag numbers other than the built-in 0..3 are skipped when the destination
   is not a tag type *)
Fixpoint strip (i : item) : item :=
  match i with Tag _ t x => if 4 <=? t then strip x else i | _ => i end.

Definition is_nil (i : item) : bool :=
  match i with Simple _ v => (v =? 22) || (v =? 23) | _ => false end.

(* the Go zero value of a hand-coded type as the harness renders it (seen only
   when an enclosing struct is null) *)
Definition post_zero (p : post) (z : value) : value :=
  match p with
  | PReplyNextTx => VStruct [VUInt 0; VUInt 0; VList []]
  | PWHeader => VStruct [VUInt 0; VUInt 0; VUInt 0; VBytes []]
  | PRejectReason => VStruct [VUInt 0; VText []]
  | PDmqPayload => VStruct [VBytes []; VBytes []; VUInt 0; VUInt 0]
  | PDmq => VStruct [VBytes []; VStruct [VBytes []; VBytes []; VUInt 0; VUInt 0]; VBytes [];
                     VStruct [VBytes []; VUInt 0; VUInt 0; VBytes []]; VBytes []]
  | PNtC => match z with VStruct l => VStruct (l ++ [VUInt 0; VBytes []]) | _ => z end
  | _ => z
  end.

Fixpoint zero (s : schema) : value :=
  match s with
  | SUInt _ => VUInt 0 | SBool => VBool false | SBytes => VBytes [] | SText => VText []
  | SRaw => VRaw (Simple Fimm 22) | SList _ => VList [] | SStruct fs => VStruct (map zero fs)
  | SPoint => VOrigin | SOpaque => VOrigin
  | SListI _ => VList [] | STagBytes => VBytes [] | SBytesN n => VBytes (repeat 0 (N.to_nat n))
  | STagAny => VTagged 0 VAny | SAny => VAny | SMapU _ _ _ => VMap [] | SPeer => VOrigin
  | SPost p s' => post_zero p (zero s') | SByLen _ a _ => zero a | SAlt a _ => zero a
  end.

Fixpoint be_val (bs : bytes) (acc : N) : N :=
  match bs with [] => acc | b :: r => be_val r (acc * 256 + b) end.

Definition fit (w n : N) : option value := if n <? 2 ^ w then Some (VUInt n) else None.

(* an unsigned destination: integers, simple values other than false/true,
   unsigned bignums that fit, epoch-tagged integers *)
Definition dec_uint (w : N) (j : item) : option value :=
  match j with
  | UInt _ n => fit w n
  | Simple _ v => if (v =? 20) || (v =? 21) then None else fit w v
  | Tag _ t y =>
      if t =? 2 then
        match y with
        | BStr _ bs => fit w (be_val bs 0)
        | BStrI cs => fit w (be_val (flat_map snd cs) 0)
        | _ => None
        end
      else if t =? 1 then match y with UInt _ n => fit w n | _ => None end
      else None
  | _ => None
  end.

Definition dec_bytes (j : item) : option bytes :=
  match j with BStr _ bs => Some bs | BStrI cs => Some (flat_map snd cs) | _ => None end.

(* an unsigned destination of w bits inside a reflection-decoded struct, as a
   number (null/undefined leave 0) *)
Definition dec_u (w : N) (x : item) : option N :=
  let j := strip x in
  if is_nil j then Some 0 else match dec_uint w j with Some (VUInt n) => Some n | _ => None end.
(* a []byte destination also takes a CBOR array, element by element, as a
   slice of uint8 (with the coercions of an unsigned destination) *)
Definition dec_u8 := dec_u 8.
Fixpoint dec_u8s (xs : list item) : option bytes :=
  match xs with
  | [] => Some []
  | x :: r => match dec_u8 x, dec_u8s r with Some n, Some ns => Some (n :: ns) | _, _ => None end
  end.

(* a Go array [n]byte: the source is copied as far as it fits, the rest stays
   zero - neither a short nor a long byte string is an error *)
Definition fixn (n : N) (bs : bytes) : bytes := firstn (N.to_nat n) (bs ++ repeat 0 (N.to_nat n)).

(* the built-in tag content rule (fxamacker validBuiltinTag) *)
Definition builtin_ok (t : N) (x : item) : bool :=
  if t =? 0 then match x with TStr _ _ | TStrI _ => true | _ => false end
  else if t =? 1 then match x with UInt _ _ | NInt _ _ | Float _ _ => true | _ => false end
  else if (t =? 2) || (t =? 3) then match x with BStr _ _ | BStrI _ => true | _ => false end
  else true.

(* peersharing.PeerAddress.UnmarshalCBOR: cbor.DecodeIdFromList (a plain
   unsigned first element), then a typed toarray struct chosen by the id and,
   for IPv6, by the list length (6, or 8 with flow info and scope id that are
   dropped).  Called also for null (which it rejects). *)
Definition dec_peer (i : item) : option value :=
  match i with
  | Arr _ (UInt _ id :: rest) =>
      if id =? 0 then
        match rest with
        | [a; p] => match dec_u 32 a, dec_u 16 p with Some a', Some p' => Some (VPeer4 a' p') | _, _ => None end
        | _ => None
        end
      else if id =? 1 then
        match rest with
        | [a1; a2; a3; a4; p] =>
            match dec_u 32 a1, dec_u 32 a2, dec_u 32 a3, dec_u 32 a4, dec_u 16 p with
            | Some b1, Some b2, Some b3, Some b4, Some p' => Some (VPeer6 b1 b2 b3 b4 p') | _, _, _, _, _ => None end
        | [a1; a2; a3; a4; fl; sc; p] =>
            match dec_u 32 a1, dec_u 32 a2, dec_u 32 a3, dec_u 32 a4, dec_u 32 fl, dec_u 32 sc, dec_u 16 p with
            | Some b1, Some b2, Some b3, Some b4, Some _, Some _, Some p' => Some (VPeer6 b1 b2 b3 b4 p') | _, _, _, _, _, _, _ => None end
        | _ => None
        end
      else None
  | _ => None
  end.

(* pcommon.Point.UnmarshalCBOR after the fix: decode into []any; length 0 is
   the origin, length 2 must be (uint64, []byte), every other length is an
   error.  Elements decoded into `any`: only a plain unsigned integer gives
   uint64, only a byte string gives []byte. *)
Definition dec_point (j : item) : option value :=
  match j with
  | Arr _ [] => Some VOrigin
  | Arr _ [UInt _ n; h] => match dec_bytes h with Some bs => Some (VPoint n bs) | None => None end
  | _ => None
  end.

(* the pinned code: lengths other than 2 are silently the origin *)
Definition dec_point_pinned (j : item) : option value :=
  match j with
  | Arr _ [UInt _ n; h] => match dec_bytes h with Some bs => Some (VPoint n bs) | None => None end
  | Arr _ [_; _] => None
  | Arr _ _ => Some VOrigin
  | _ => None
  end.

(* ---- the UnmarshalCBOR side of the hand-written codecs ---- *)
(* the content of tag 24 as the registered type cbor.WrappedCbor ([]byte):
   filled by reflection (null leaves nil, an array of small integers is taken
   byte by byte), but a further tag around the content is an error *)
Definition dec_bytes_r (x : item) : option bytes :=
  if is_nil x then Some [] else match x with Arr _ xs => dec_u8s xs | _ => dec_bytes x end.
(* a cbor.Tag destination whose Content (decoded into `any`) must be []byte *)
Definition dec_tag_bytes (x : item) : option bytes :=
  match x with Tag _ t c => if builtin_ok t c then dec_bytes c else None | _ => None end.
(* chainsync.WrappedBlock by reflection: [uint, RawMessage] *)
Definition dec_wblock (inner : item) : option (N * bytes) :=
  let j := strip inner in
  if is_nil j then Some (0, []) else
  match j with
  | Arr _ [a; b] => match dec_u 64 a with Some bt => Some (bt, enc b) | None => None end
  | _ => None
  end.
(* wrappedHeaderByron.Metadata by reflection: [uint, uint] *)
Definition dec_byron_meta (m : item) : option (N * N) :=
  let j := strip m in
  if is_nil j then Some (0, 0) else
  match j with
  | Arr _ [a; b] => match dec_u 64 a, dec_u 64 b with Some x, Some y => Some (x, y) | _, _ => None end
  | _ => None
  end.

Definition post_dec (p : post) (v : value) : option value :=
  match p, v with
  (* MsgReplyNextTx.UnmarshalCBOR (fixed, 3f33b77): []any of 1 or 2 elements;
     elements decoded into `any`: only a plain unsigned integer is uint64, only
     an untagged array is []any, only tag 24 is cbor.WrappedCbor (a []byte
     filled by reflection: null leaves it nil, an array of small integers is
     taken byte by byte) *)
  | PReplyNextTx, VRaw i =>
      match strip i with
      | Arr _ [UInt _ t] => if t <? 256 then Some (VStruct [VUInt t; VUInt 0; VList []]) else None
      | Arr _ [UInt _ t; Arr _ [UInt _ e; Tag _ tg c]] =>
          if (t <? 256) && (e <? 256) && (tg =? 24) then
            match dec_bytes_r c with
            | Some bs => Some (VStruct [VUInt t; VUInt e; if is_nil c then VList [] else VList [VBytes bs]])
            | None => None
            end
          else None
      | _ => None
      end
  (* MsgRollForwardNtC.UnmarshalCBOR: Content.([]byte), then cbor.Decode(content, &WrappedBlock)
     (first item, trailing bytes ignored: listed known finding) *)
  | PNtC, VStruct [VUInt t; VTagged n (VBytes c); tip] =>
      match parse_full c with
      | Ok inner _ =>
          match dec_wblock inner with
          | Some (bt, braw) => Some (VStruct [VUInt t; VTagged n (VBytes c); tip; VUInt bt; VBytes braw])
          | None => None
          end
      | _ => None
      end
  (* WrappedHeader.UnmarshalCBOR *)
  | PWHeader, VStruct [VUInt era; VRaw r] =>
      if era =? 0 then
        match strip r with
        | Arr _ [m; tg] =>
            match dec_byron_meta m, dec_tag_bytes tg with
            | Some (ty, sz), Some h => Some (VStruct [VUInt era; VUInt ty; VUInt sz; VBytes h])
            | _, _ => None
            end
        | _ => None
        end
      else match dec_tag_bytes r with Some h => Some (VStruct [VUInt era; VUInt 0; VUInt 0; VBytes h]) | None => None end
  | PLens cs, _ => if lens_ok cs v then Some v else None
  | PPartition, VStruct [t; VList vs] => Some (VStruct [t; VList (partition3 vs)])
  (* RejectReasonData.UnmarshalCBOR (FIXED, fixes/C04-rejectreason-arity.patch):
     []any of 1 or 2 elements, type a plain unsigned <= 3, message a text string or nil *)
  | PRejectReason, VRaw i =>
      match strip i with
      | Arr _ [UInt _ t] => if t <=? 3 then Some (VStruct [VUInt t; VText []]) else None
      | Arr _ [UInt _ t; m] =>
          if t <=? 3 then
            if is_nil m then Some (VStruct [VUInt t; VText []]) else
            match m with
            | TStr _ bs => Some (VStruct [VUInt t; VText bs])
            | TStrI cs => Some (VStruct [VUInt t; VText (flat_map snd cs)])
            | _ => None
            end
          else None
      | _ => None
      end
  (* DmqMessagePayload.UnmarshalCBOR: current [body, kes, expires] or legacy
     [id, body, kes, expires] into one struct *)
  | PDmqPayload, VStruct [b; k; e] => Some (VStruct [VBytes []; b; k; e])
  | PDmqPayload, VStruct [id; b; k; e] => Some (VStruct [id; b; k; e])
  (* DmqMessage.UnmarshalCBOR: current [id, payload, sig, opcert, key] (the id also
     overwrites the payload's alias) or legacy [payload, sig, opcert, key] (the
     id is the one inside the payload) *)
  | PDmq, VStruct [id; VStruct [_; b; k; e]; sg; oc; ck] => Some (VStruct [id; VStruct [id; b; k; e]; sg; oc; ck])
  | PDmq, VStruct [VStruct [pid; b; k; e]; sg; oc; ck] => Some (VStruct [pid; VStruct [pid; b; k; e]; sg; oc; ck])
  | _, _ => None
  end.

(* a map key: the library reuses one key variable for all entries, so a
   null/undefined key leaves the PREVIOUS entry's key (0 for the first entry)
   - and is then caught as a duplicate unless it is the first *)
Definition dec_key (w prev : N) (k : item) : option N :=
  let j := strip k in
  if is_nil j then Some prev else match dec_uint w j with Some (VUInt n) => Some n | _ => None end.

Fixpoint nodup_keys (ks : list N) : bool :=
  match ks with [] => true | k :: r => negb (existsb (N.eqb k) r) && nodup_keys r end.

Section Dec.
  Variable point : item -> option value.

  Fixpoint dec_g (s : schema) (i : item) {struct s} : option value :=
    let j := strip i in
    match s with
    | SRaw => Some (VRaw i)
    | SOpaque => None
    | SUInt w => if is_nil j then Some (zero s) else dec_uint w j
    | SBool => if is_nil j then Some (zero s) else
               match j with Simple Fimm v => if v =? 20 then Some (VBool false) else if v =? 21 then Some (VBool true) else None | _ => None end
    | SBytes => if is_nil j then Some (zero s) else
               match j with
               | Arr _ xs => option_map VBytes (dec_u8s xs)   (* []byte is also a slice of uint8 *)
               | _ => option_map VBytes (dec_bytes j)
               end
    | SText => if is_nil j then Some (zero s) else
               match j with TStr _ bs => Some (VText bs) | TStrI cs => Some (VText (flat_map snd cs)) | _ => None end
    | SPoint => if is_nil j then Some (zero s) else point j
    | SPeer => dec_peer i
    | SAny => Some VAny
    | STagAny =>
        if is_nil i then Some (zero s) else
        match i with
        | Tag _ t x => if builtin_ok t x then Some (VTagged t (match dec_bytes x with Some bs => VBytes bs | None => VAny end)) else None
        | _ => None
        end
    | STagBytes => if is_nil j then Some (zero s) else
               match j with
               | Arr _ xs => option_map VBytes (dec_u8s xs)
               | _ => option_map VBytes (dec_bytes j)
               end
    | SBytesN n => if is_nil j then Some (zero s) else
               match j with
               | Arr _ xs => option_map (fun bs => VBytes (fixn n bs)) (dec_u8s xs)
               | _ => option_map (fun bs => VBytes (fixn n bs)) (dec_bytes j)
               end
    | SListI e => if is_nil j then Some (zero s) else
        match j with
        | Arr _ xs =>
            option_map VList
              ((fix go (xs : list item) : option (list value) :=
                  match xs with
                  | [] => Some []
                  | x :: r => match dec_g e x, go r with Some v, Some vs => Some (v :: vs) | _, _ => None end
                  end) xs)
        | _ => None
        end
    | SMapU _ w e => if is_nil j then Some (zero s) else
        match j with
        | Map _ kvs =>
            match (fix go (prev : N) (kvs : list (item * item)) : option (list (N * value)) :=
                     match kvs with
                     | [] => Some []
                     | (k, x) :: r =>
                         match dec_key w prev k with
                         | Some k' => match dec_g e x, go k' r with Some v, Some vs => Some ((k', v) :: vs) | _, _ => None end
                         | None => None
                         end
                     end) 0 kvs with
            | Some l => if nodup_keys (map fst l) then Some (VMap l) else None   (* DupMapKeyEnforcedAPF *)
            | None => None
            end
        | _ => None
        end
    | SList e => if is_nil j then Some (zero s) else
        match j with
        | Arr _ xs =>
            option_map VList
              ((fix go (xs : list item) : option (list value) :=
                  match xs with
                  | [] => Some []
                  | x :: r => match dec_g e x, go r with Some v, Some vs => Some (v :: vs) | _, _ => None end
                  end) xs)
        | _ => None
        end
    | SStruct fs => if is_nil j then Some (zero s) else
        match j with
        | Arr _ xs =>
            option_map VStruct
              ((fix go (fs : list schema) (xs : list item) {struct fs} : option (list value) :=
                  match fs, xs with
                  | [], [] => Some []
                  | f :: fr, x :: xr => match dec_g f x, go fr xr with Some v, Some vs => Some (v :: vs) | _, _ => None end
                  | _, _ => None    (* "cannot decode CBOR array to struct with different number of elements" *)
                  end) fs xs)
        | _ => None
        end
    (* a type with a hand-written UnmarshalCBOR is handed the item even when it
       is null (no zero-value shortcut) *)
    | SPost p s' => match dec_g s' i with Some v => post_dec p v | None => None end
    (* cbor.Decode(data, &[]cbor.RawMessage) then a switch on len(elems) *)
    | SByLen n a b =>
        match j with
        | Arr _ xs => if len xs =? n then dec_g a i else dec_g b i
        | _ => None
        end
    | SAlt a b => match dec_g a i with Some v => Some v | None => dec_g b i end
    end.
End Dec.

Definition dec_s := dec_g dec_point.
Definition dec_pinned := dec_g dec_point_pinned.

(* ---- correspondence ---- *)
(* first argument: the observation (maps rendered in key order by the
   harness); second: the model's value (maps in wire order) *)
Fixpoint value_eqb (a b : value) {struct a} : bool :=
  match a, b with
  | VUInt n, VUInt m => n =? m
  | VBool x, VBool y => Bool.eqb x y
  | VBytes x, VBytes y | VText x, VText y => bytes_eqb x y
  | VRaw x, VRaw y => item_eqb x y
  | VList xs, VList ys | VStruct xs, VStruct ys =>
      (fix go (l1 l2 : list value) : bool :=
         match l1, l2 with [], [] => true | x :: r1, y :: r2 => value_eqb x y && go r1 r2 | _, _ => false end) xs ys
  | VOrigin, VOrigin => true
  | VPoint s h, VPoint s' h' => (s =? s') && bytes_eqb h h'
  | VAny, VAny => true
  | VTagged t x, VTagged u y => (t =? u) && value_eqb x y
  | VMap xs, VMap ys =>
      (length xs =? length ys)%nat &&
      (fix all (l : list (N * value)) : bool :=
         match l with
         | [] => true
         | (k, x) :: r =>
             (fix find (m : list (N * value)) : bool :=
                match m with [] => false | (k', y) :: m' => ((k =? k') && value_eqb x y) || find m' end) ys && all r
         end) xs
  | VPeer4 a p, VPeer4 a' p' => (a =? a') && (p =? p')
  | VPeer6 a b c d p, VPeer6 a' b' c' d' p' => (a =? a') && (b =? b') && (c =? c') && (d =? d') && (p =? p')
  | _, _ => false
  end.

(* one case: the schema of the message type (by reflection, the same term as
   in Gen.v), the item handed to NewMsgFromCbor, and what came back: None =
   error, Some v = the decoded fields *)
Record case := C { c_schema : schema; c_item : item; c_obs : option value }.
Definition check_case (c : case) : bool :=
  match dec_s (c_schema c) (c_item c), c_obs c with
  | Some v, Some w => value_eqb w v
  | None, None => true
  | _, _ => false
  end.
(* encoder case: cbor.Encode of a constructed message (hand-written
   MarshalCBOR methods included) is the model's encoding *)
Record ecase := E { e_schema : schema; e_value : value; e_item : item }.
Definition check_ecase (c : ecase) : bool :=
  match enc_s (e_schema c) (e_value c) with Some i => item_eqb i (e_item c) | None => false end.
Inductive tcase := TD (c : case) | TE (c : ecase).
Definition check_tcase (c : tcase) : bool := match c with TD d => check_case d | TE e => check_ecase e end.
Definition mismatches := failing check_tcase.
