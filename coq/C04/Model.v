(* C04 - mini-protocol message codecs.
   A schema language for the message structs of protocol/*/messages.go as the
   CBOR library (fxamacker, struct tag `toarray` via cbor.StructAsArray)
   encodes and decodes them, instantiated per message type by the translator
   (C04/Gen.v, reflection over the Go types).  enc_s = cbor.Encode of a Go
   value; dec_s = cbor.Decode into the Go type, quirks included (null and
   undefined leave the zero value in ANY field, simple values and fitting
   bignums decode into unsigned fields, unknown tags are transparent).
   Point is the FIXED pcommon.Point.UnmarshalCBOR (fixes/C04-point-arity.patch);
   dec_point_pinned is the pinned code.  NO proofs in this file. *)
From V Require Import Lib.Base Lib.Cbor Lib.CborParse.
Local Open Scope N_scope.

Inductive schema :=
| SUInt (bits : N)            (* uint8/16/32/64, uint *)
| SBool
| SBytes                      (* []byte *)
| SText                       (* string *)
| SRaw                        (* cbor.RawMessage: any item, kept verbatim *)
| SList (s : schema)          (* []T *)
| SStruct (fs : list schema)  (* struct with cbor.StructAsArray: fixed-length array *)
| SPoint                      (* pcommon.Point: [] or [slot, hash], custom codec *)
| SOpaque.                    (* custom codec / map / any: not modelled here *)

Inductive value :=
| VUInt (n : N) | VBool (b : bool) | VBytes (bs : bytes) | VText (bs : bytes) | VRaw (i : item)
| VList (vs : list value) | VStruct (vs : list value)
| VOrigin | VPoint (slot : N) (hash : bytes).

Definition len {A} (l : list A) : N := N.of_nat (length l).

(* ---- cbor.Encode: shortest heads, definite lengths ---- *)
Fixpoint enc_s (s : schema) (v : value) {struct s} : option item :=
  match s, v with
  | SUInt w, VUInt n => if n <? 2 ^ w then Some (UInt (min_form n) n) else None
  | SBool, VBool b => Some (Simple Fimm (if b then 21 else 20))
  | SBytes, VBytes bs => Some (BStr (min_form (len bs)) bs)
  | SText, VText bs => Some (TStr (min_form (len bs)) bs)
  | SRaw, VRaw i => Some i
  | SList e, VList vs =>
      option_map (fun xs => Arr (Some (min_form (len xs))) xs)
        ((fix go (vs : list value) : option (list item) :=
            match vs with
            | [] => Some []
            | v :: r => match enc_s e v, go r with Some x, Some xs => Some (x :: xs) | _, _ => None end
            end) vs)
  | SStruct fs, VStruct vs =>
      option_map (fun xs => Arr (Some (min_form (len xs))) xs)
        ((fix go (fs : list schema) (vs : list value) {struct fs} : option (list item) :=
            match fs, vs with
            | [], [] => Some []
            | f :: fr, v :: vr => match enc_s f v, go fr vr with Some x, Some xs => Some (x :: xs) | _, _ => None end
            | _, _ => None
            end) fs vs)
  | SPoint, VOrigin => Some (Arr (Some Fimm) [])
  | SPoint, VPoint sl h =>
      if sl <? 2 ^ 64 then Some (Arr (Some Fimm) [UInt (min_form sl) sl; BStr (min_form (len h)) h]) else None
  | _, _ => None
  end.

(* ---- cbor.Decode ---- *)
(* tag numbers other than the built-in 0..3 are skipped when the destination
   is not a tag type *)
Fixpoint strip (i : item) : item :=
  match i with Tag _ t x => if 4 <=? t then strip x else i | _ => i end.

Definition is_nil (i : item) : bool :=
  match i with Simple _ v => (v =? 22) || (v =? 23) | _ => false end.

Fixpoint zero (s : schema) : value :=
  match s with
  | SUInt _ => VUInt 0 | SBool => VBool false | SBytes => VBytes [] | SText => VText []
  | SRaw => VRaw (Simple Fimm 22) | SList _ => VList [] | SStruct fs => VStruct (map zero fs)
  | SPoint => VOrigin | SOpaque => VOrigin
  end.

Fixpoint be_val (bs : bytes) (acc : N) : N :=
  match bs with [] => acc | b :: r => be_val r (acc * 256 + b) end.

Definition fit (w n : N) : option value := if n <? 2 ^ w then Some (VUInt n) else None.

(* an unsigned destination: integers, simple values other than false/true,
   unsigned bignums that fit, epoch-tagged integers *)
Definition dec_uint (w : N) (j : item) : option value :=
  match j with
  | UInt _ n => fit w n
  | Simple _ v => if (v =? 20) || (v =? 21) then None else fit w v
  | Tag _ t y =>
      if t =? 2 then
        match y with
        | BStr _ bs => fit w (be_val bs 0)
        | BStrI cs => fit w (be_val (flat_map snd cs) 0)
        | _ => None
        end
      else if t =? 1 then match y with UInt _ n => fit w n | _ => None end
      else None
  | _ => None
  end.

Definition dec_bytes (j : item) : option bytes :=
  match j with BStr _ bs => Some bs | BStrI cs => Some (flat_map snd cs) | _ => None end.

(* a []byte destination also takes a CBOR array, element by element, as a
   slice of uint8 (with the coercions of an unsigned destination) *)
Definition dec_u8 (x : item) : option N :=
  let j := strip x in
  if is_nil j then Some 0 else match dec_uint 8 j with Some (VUInt n) => Some n | _ => None end.
Fixpoint dec_u8s (xs : list item) : option bytes :=
  match xs with
  | [] => Some []
  | x :: r => match dec_u8 x, dec_u8s r with Some n, Some ns => Some (n :: ns) | _, _ => None end
  end.

(* pcommon.Point.UnmarshalCBOR after the fix: decode into []any; length 0 is
   the origin, length 2 must be (uint64, []byte), every other length is an
   error.  Elements decoded into `any`: only a plain unsigned integer gives
   uint64, only a byte string gives []byte. *)
Definition dec_point (j : item) : option value :=
  match j with
  | Arr _ [] => Some VOrigin
  | Arr _ [UInt _ n; h] => match dec_bytes h with Some bs => Some (VPoint n bs) | None => None end
  | _ => None
  end.

(* the pinned code: lengths other than 2 are silently the origin *)
Definition dec_point_pinned (j : item) : option value :=
  match j with
  | Arr _ [UInt _ n; h] => match dec_bytes h with Some bs => Some (VPoint n bs) | None => None end
  | Arr _ [_; _] => None
  | Arr _ _ => Some VOrigin
  | _ => None
  end.

Section Dec.
  Variable point : item -> option value.

  Fixpoint dec_g (s : schema) (i : item) {struct s} : option value :=
    let j := strip i in
    match s with
    | SRaw => Some (VRaw i)
    | SOpaque => None
    | SUInt w => if is_nil j then Some (zero s) else dec_uint w j
    | SBool => if is_nil j then Some (zero s) else
               match j with Simple Fimm v => if v =? 20 then Some (VBool false) else if v =? 21 then Some (VBool true) else None | _ => None end
    | SBytes => if is_nil j then Some (zero s) else
               match j with
               | Arr _ xs => option_map VBytes (dec_u8s xs)   (* []byte is also a slice of uint8 *)
               | _ => option_map VBytes (dec_bytes j)
               end
    | SText => if is_nil j then Some (zero s) else
               match j with TStr _ bs => Some (VText bs) | TStrI cs => Some (VText (flat_map snd cs)) | _ => None end
    | SPoint => if is_nil j then Some (zero s) else point j
    | SList e => if is_nil j then Some (zero s) else
        match j with
        | Arr _ xs =>
            option_map VList
              ((fix go (xs : list item) : option (list value) :=
                  match xs with
                  | [] => Some []
                  | x :: r => match dec_g e x, go r with Some v, Some vs => Some (v :: vs) | _, _ => None end
                  end) xs)
        | _ => None
        end
    | SStruct fs => if is_nil j then Some (zero s) else
        match j with
        | Arr _ xs =>
            option_map VStruct
              ((fix go (fs : list schema) (xs : list item) {struct fs} : option (list value) :=
                  match fs, xs with
                  | [], [] => Some []
                  | f :: fr, x :: xr => match dec_g f x, go fr xr with Some v, Some vs => Some (v :: vs) | _, _ => None end
                  | _, _ => None    (* "cannot decode CBOR array to struct with different number of elements" *)
                  end) fs xs)
        | _ => None
        end
    end.
End Dec.

Definition dec_s := dec_g dec_point.
Definition dec_pinned := dec_g dec_point_pinned.

(* ---- correspondence ---- *)
Fixpoint value_eqb (a b : value) {struct a} : bool :=
  match a, b with
  | VUInt n, VUInt m => n =? m
  | VBool x, VBool y => Bool.eqb x y
  | VBytes x, VBytes y | VText x, VText y => bytes_eqb x y
  | VRaw x, VRaw y => item_eqb x y
  | VList xs, VList ys | VStruct xs, VStruct ys =>
      (fix go (l1 l2 : list value) : bool :=
         match l1, l2 with [], [] => true | x :: r1, y :: r2 => value_eqb x y && go r1 r2 | _, _ => false end) xs ys
  | VOrigin, VOrigin => true
  | VPoint s h, VPoint s' h' => (s =? s') && bytes_eqb h h'
  | _, _ => false
  end.

(* one case: the schema of the message type (by reflection, the same term as
   in Gen.v), the item handed to NewMsgFromCbor, and what came back: None =
   error, Some v = the decoded fields *)
Record case := C { c_schema : schema; c_item : item; c_obs : option value }.
Definition check_case (c : case) : bool :=
  match dec_s (c_schema c) (c_item c), c_obs c with
  | Some v, Some w => value_eqb v w
  | None, None => true
  | _, _ => false
  end.
Definition mismatches := failing check_case.
