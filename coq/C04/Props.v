(* C04 - property theorems only. *)
From Coq Require Import String.
From V Require Import Lib.Base Lib.Cbor Lib.CborParse C04.Model C04.Gen C04.Proofs.
From V Require C22.Model C22.Props.
Local Open Scope N_scope.
Ltac vc := vm_compute; reflexivity.
Ltac conj_vc := repeat (match goal with |- _ /\ _ => split; [vc|] end); vc.

(* Generic round trip: for EVERY schema and every value that cbor.Encode
   accepts for it, decoding the encoding gives the value back (fixed and
   pinned point decoder alike). *)
Theorem C04_dec_enc_s : forall s v i, enc_s s v = Some i -> dec_s s i = Some v.
Proof. exact (dec_enc_g dec_point point_ok_fixed). Qed.
Print Assumptions C04_dec_enc_s.

(* Per protocol, through the generated table: every message type any
   NewMsgFromCbor can return (schema taken from the Go struct by reflection)
   round-trips; its first field is the 8-bit message type. *)
Theorem C04_roundtrip : forall name ty s v i, In (name, ty, s) msg_table ->
  enc_s s v = Some i -> dec_s s i = Some v.
Proof. intros name ty s v i _. apply C04_dec_enc_s. Qed.

Fixpoint typed (s : schema) : bool :=
  match s with
  | SStruct (SUInt 8 :: _) => true
  | SOpaque => true
  | SPost PReplyNextTx SRaw => true      (* the hand decoder checks the type itself: C04_reply_next_tx *)
  | SPost _ s' => typed s'
  | SByLen _ a b | SAlt a b => typed a && typed b
  | _ => false
  end.
Definition table_ok (e : string * N * schema) : bool := typed (snd e).
Theorem C04_table_shape : forall e, In e msg_table -> table_ok e = true.
Proof. apply forallb_forall. vm_compute. reflexivity. Qed.

(* Arity: a struct (message, tip, nested record) is only decoded from an array
   with exactly as many elements as it has fields, every element decoding at
   its field's schema - or from null/undefined (the library's coercion, see
   C04_null_coerced_refuted). *)
Theorem C04_arity : forall fs i v, dec_s (SStruct fs) i = Some v ->
  is_nil (strip i) = true \/
  exists f xs vs, strip i = Arr f xs /\ length xs = length fs /\ v = VStruct vs /\
    Forall2 (fun s xv => dec_s s (fst xv) = Some (snd xv)) fs (combine xs vs).
Proof. intros fs i v. apply struct_shape. Qed.
Print Assumptions C04_arity.

(* Chain points (fixed code): only [] and [uint, bytes] are points. *)
Theorem C04_point : forall i p, dec_s SPoint i = Some p ->
  is_nil (strip i) = true \/
  (exists f, strip i = Arr f [] /\ p = VOrigin) \/
  (exists f g n h bs, strip i = Arr f [UInt g n; h] /\ dec_bytes h = Some bs /\ p = VPoint n bs).
Proof. exact point_shape. Qed.
Print Assumptions C04_point.

(* The pinned code: a 3-element and a 1-element "point" decode to the origin. *)
Theorem C04_point_pinned_refuted :
  dec_pinned SPoint (Arr (Some Fimm) [UInt Fimm 5; UInt Fimm 6; UInt Fimm 7]) = Some VOrigin /\
  dec_pinned SPoint (Arr (Some Fimm) [UInt Fimm 5]) = Some VOrigin /\
  dec_s SPoint (Arr (Some Fimm) [UInt Fimm 5; UInt Fimm 6; UInt Fimm 7]) = None /\
  dec_s SPoint (Arr (Some Fimm) [UInt Fimm 5]) = None.
Proof. conj_vc. Qed.

(* Field types, partial: for items without tags and simple values in the
   field position (that is excluding the library coercions below) an unsigned
   field only decodes from an unsigned integer in range; bool, bytes, text
   only from their own kind unless the item is null/undefined. *)
Theorem C04_field_types_partial :
  (forall w i v, dec_s (SUInt w) i = Some v -> plain (strip i) = true ->
     exists f n, strip i = UInt f n /\ n < 2 ^ w /\ v = VUInt n) /\
  (forall i v, dec_s SBool i = Some v -> is_nil (strip i) = false ->
     exists b : bool, strip i = Simple Fimm (if b then 21 else 20) /\ v = VBool b) /\
  (forall i v, dec_s SBytes i = Some v -> is_nil (strip i) = false -> is_arr (strip i) = false ->
     exists bs, v = VBytes bs /\ ((exists f, strip i = BStr f bs) \/ (exists cs, strip i = BStrI cs /\ bs = flat_map snd cs))) /\
  (forall i v, dec_s SText i = Some v -> is_nil (strip i) = false ->
     exists bs, v = VText bs /\ ((exists f, strip i = TStr f bs) \/ (exists cs, strip i = TStrI cs /\ bs = flat_map snd cs))).
Proof.
  repeat split; intros.
  - eapply uint_shape; eauto.
  - eapply bool_shape; eauto.
  - eapply bytes_shape; eauto.
  - eapply text_shape; eauto.
Qed.
Print Assumptions C04_field_types_partial.

(* The coercions the property forbids and the code performs (known findings):
   null in any field is the zero value (also a whole tip), a simple value or a
   bignum is an unsigned field, a tag around a field is ignored. *)
Theorem C04_field_types_refuted :
  dec_s (SStruct [SUInt 8; SUInt 16]) (Arr (Some Fimm) [UInt Fimm 0; Simple Fimm 22]) = Some (VStruct [VUInt 0; VUInt 0]) /\
  dec_s (SStruct [SUInt 8; SUInt 16]) (Arr (Some Fimm) [UInt Fimm 0; Simple Fimm 16]) = Some (VStruct [VUInt 0; VUInt 16]) /\
  dec_s (SStruct [SUInt 8; SUInt 16]) (Arr (Some Fimm) [UInt Fimm 0; Tag Fimm 2 (BStr Fimm [5])]) = Some (VStruct [VUInt 0; VUInt 5]) /\
  dec_s (SStruct [SUInt 8; SUInt 16]) (Arr (Some Fimm) [UInt Fimm 0; Tag F1 24 (UInt Fimm 5)]) = Some (VStruct [VUInt 0; VUInt 5]) /\
  dec_s (SStruct [SUInt 8; SPoint; SStruct [SPoint; SUInt 64]]) (Arr (Some Fimm) [UInt Fimm 3; Arr (Some Fimm) []; Simple Fimm 22])
    = Some (VStruct [VUInt 3; VOrigin; VStruct [VOrigin; VUInt 0]]) /\
  dec_s (SStruct [SUInt 8; SBytes]) (Arr (Some Fimm) [UInt Fimm 7; Arr (Some Fimm) [UInt Fimm 1; UInt Fimm 2; UInt F1 255]])
    = Some (VStruct [VUInt 7; VBytes [1; 2; 255]]).
Proof. conj_vc. Qed.

(* ... but NOT inside a chain point: the hand-written point decoder takes a
   plain unsigned integer and a byte string only.  null / undefined / simple
   value / bignum / any tag in the slot position and null / undefined / array
   of integers / any tag in the hash position are rejected (instances of
   C04_point; the harness feeds exactly these to every point-carrying message
   and a message that accepts one is reported under
   malformed-accepted:coerce:point:<kind>, which is not a listed finding). *)
Theorem C04_point_no_coercion : forall f g n h bad,
  In bad [Simple Fimm 22; Simple Fimm 23; Simple Fimm 16; Tag Fimm 2 (BStr Fimm [5]); Tag F1 24 (UInt Fimm 5);
          Tag Fimm 1 (UInt Fimm 5); Arr (Some Fimm) [UInt Fimm 1; UInt Fimm 2]; Arr (Some Fimm) [];
          Tag F1 24 (BStr g h); Tag Fimm 2 (BStr g h)] ->
  dec_s SPoint (Arr f [bad; BStr g h]) = None /\ dec_s SPoint (Arr f [UInt g n; bad]) = None.
Proof.
  intros f g n h bad H. cbn [In] in H.
  repeat (destruct H as [<-|H]; [split; reflexivity|]). destruct H.
Qed.
Print Assumptions C04_point_no_coercion.

(* Maps (handshake version tables, Leios bitmaps): only from a CBOR map whose
   decoded keys are pairwise distinct. *)
Theorem C04_map : forall ind w e i v, dec_s (SMapU ind w e) i = Some v ->
  is_nil (strip i) = true \/
  exists f kvs l, strip i = Map f kvs /\ v = VMap l /\ length l = length kvs /\ nodup_keys (map fst l) = true.
Proof.
  intros ind w e i v. unfold dec_s. rewrite dec_g_map. destruct (is_nil (strip i)); [left; reflexivity|]. right. revert H.
  destruct (strip i) as [| | | | | | |f kvs| | |]; try discriminate.
  destruct (dec_kvs dec_point w e 0 kvs) as [l|] eqn:D; [|discriminate].
  destruct (nodup_keys (map fst l)) eqn:ND; [|discriminate]. intros H. injection H as <-.
  exists f, kvs, l. repeat split; auto.
  clear ND. revert l D. generalize 0. induction kvs as [|[k x] r IH]; intros prev l D; cbn [dec_kvs] in D.
  - injection D as <-. reflexivity.
  - destruct (dec_key w prev k) as [k'|]; [|discriminate]. destruct (dec_g dec_point e x); [|discriminate].
    destruct (dec_kvs dec_point w e k' r) as [vs|] eqn:E; [|discriminate]. injection D as <-. cbn [length]. f_equal. eapply IH. exact E.
Qed.
Print Assumptions C04_map.

(* Peer addresses: an array headed by a plain unsigned peer type 0 (IPv4: two
   more elements) or 1 (IPv6: five, or seven in the legacy form). *)
Theorem C04_peer : forall i v, dec_s SPeer i = Some v ->
  exists f g id rest, i = Arr f (UInt g id :: rest) /\
    ((id = 0 /\ length rest = 2%nat) \/ (id = 1 /\ (length rest = 5%nat \/ length rest = 7%nat))).
Proof.
  intros i v. unfold dec_s. cbn [dec_g]. unfold dec_peer.
  destruct i as [| | | | | |f xs| | | |]; try discriminate. destruct xs as [|x rest]; [discriminate|].
  destruct x as [g id| | | | | | | | | |]; try discriminate. intros H. exists f, g, id, rest. split; [reflexivity|].
  destruct (N.eqb_spec id 0) as [->|_].
  - left. split; [reflexivity|]. destruct rest as [|a [|b [|c r]]]; try discriminate. reflexivity.
  - destruct (N.eqb_spec id 1) as [->|_]; [|discriminate]. right. split; [reflexivity|].
    destruct rest as [|a1 [|a2 [|a3 [|a4 [|a5 [|a6 [|a7 [|a8 r]]]]]]]]; try discriminate; auto.
Qed.
Print Assumptions C04_peer.

(* fixed-size byte arrays ([32]byte transaction ids): the library copies what
   fits - a short id is zero-padded, a long one truncated (known finding,
   coerce:struct-field:short/long-bytes-for-array) *)
Theorem C04_fixed_array_refuted :
  dec_s (SBytesN 4) (BStr Fimm [1; 2; 3]) = Some (VBytes [1; 2; 3; 0]) /\
  dec_s (SBytesN 4) (BStr Fimm [1; 2; 3; 4; 5]) = Some (VBytes [1; 2; 3; 4]).
Proof. conj_vc. Qed.

(* The chain-sync RollForward wrappers (hand-written in both directions) are
   modelled and proved in coq/C22; their round trips, restated. *)
Theorem C04_rollforward_ntc : forall t b tip trail,
  wf b -> wf tip -> C22.Model.tip_ok tip = true -> t < 2 ^ 64 ->
  N.of_nat (length (enc b)) + 10 < 2 ^ 64 ->
  exists m, C22.Model.wrap_ntc t (enc b) tip = Some m /\
            C22.Model.unwrap_ntc (enc m ++ trail) = Some (t, enc b, tip).
Proof. exact C22.Props.C22_ntc. Qed.

(* Decoder limits.  The translator reads the limits of every cbor.Decode*
   entry point from cbor/decode.go (Gen.dec_limits) and the entry point each
   protocol's NewMsgFromCbor applies to the message body (Gen.decode_mode).
   Every protocol decodes with the documented limits of the message decoder:
   at least 256 nesting levels, 10,000,000 array elements and map pairs - so
   that legal large messages (ledger-state query results) decode.  A change of
   the decode mode of one protocol changes Gen.v and breaks this obligation. *)
Definition mode_ok (pm : string * string) : bool :=
  match find (fun e => String.eqb (fst e) (snd pm)) dec_limits with
  | Some (_, (n, a, m)) => (256 <=? n) && (10000000 <=? a) && (10000000 <=? m)
  | None => false
  end.
Theorem C04_limits_ok : forall pm, In pm decode_mode -> mode_ok pm = true.
Proof. apply forallb_forall. vm_compute. reflexivity. Qed.
Example C04_limits_nonvacuous : (15 <=? N.of_nat (length decode_mode)) = true /\ mode_ok ("x"%string, "DecodeStrict"%string) = false.
Proof. split; vm_compute; reflexivity. Qed.

(* non-vacuity for the hand-encoded types *)
Example C04_txsubmission_ex :
  let v := VStruct [VUInt 3; VList [VStruct [VUInt 6; VBytes [128]]]] in
  enc_s sch_txsubmission_MsgReplyTxs v
    = Some (Arr (Some Fimm) [UInt Fimm 3; Arr None [Arr (Some Fimm) [UInt Fimm 6; Tag F1 24 (BStr Fimm [128])]]])
  /\ forall i, enc_s sch_txsubmission_MsgReplyTxs v = Some i -> dec_s sch_txsubmission_MsgReplyTxs i = Some v.
Proof. split; [vc|]. intros i. apply C04_dec_enc_s. Qed.
Example C04_handshake_ex :
  let v := VStruct [VUInt 0; VMap [(13, VRaw (UInt Fimm 1)); (14, VRaw (UInt Fimm 2))]] in
  exists i, enc_s sch_handshake_MsgProposeVersions v = Some i /\ dec_s sch_handshake_MsgProposeVersions i = Some v.
Proof. eexists. split; [vm_compute; reflexivity|vc]. Qed.
Example C04_map_dup_ex :
  dec_s sch_handshake_MsgProposeVersions (Arr (Some Fimm) [UInt Fimm 0; Map (Some Fimm) [(UInt Fimm 13, UInt Fimm 1); (UInt Fimm 13, UInt Fimm 2)]]) = None.
Proof. vc. Qed.

(* non-vacuity: a chain-sync RollBackward with a real point and tip *)
Example C04_roundtrip_ex :
  let v := VStruct [VUInt 3; VPoint 1000 [1;2;3]; VStruct [VOrigin; VUInt 18446744073709551615]] in
  exists i, enc_s sch_chainsync_ntn_MsgRollBackward v = Some i /\ dec_s sch_chainsync_ntn_MsgRollBackward i = Some v.
Proof. eexists. split; [vm_compute; reflexivity|vc]. Qed.
Example C04_arity_ex :
  dec_s sch_keepalive_MsgKeepAlive (Arr (Some Fimm) [UInt Fimm 0; UInt Fimm 5; UInt Fimm 6]) = None /\
  dec_s sch_keepalive_MsgKeepAlive (Arr (Some Fimm) [UInt Fimm 0]) = None /\
  dec_s sch_keepalive_MsgKeepAlive (Arr None [UInt F1 0; UInt F2 5]) = Some (VStruct [VUInt 0; VUInt 5]).
Proof. conj_vc. Qed.

(* ---- third round: the hand-written codecs ---- *)
From V Require Lib.CborProofs C22.Proofs.

(* SPost: whatever a hand-written decoder accepts was first accepted by the
   underlying schema, and the post-processing accepted that value *)
Theorem C04_post : forall p s i v, dec_s (SPost p s) i = Some v ->
  exists v0, dec_s s i = Some v0 /\ post_dec p v0 = Some v.
Proof.
  intros p s i v. unfold dec_s. cbn [dec_g]. destruct (dec_g dec_point s i) as [v0|]; [|discriminate]. eauto.
Qed.

(* SByLen (decoder switching on the element count): only an array, decoded by
   the alternative its length selects *)
Theorem C04_bylen : forall n a b i v, dec_s (SByLen n a b) i = Some v ->
  exists f xs, strip i = Arr f xs /\
    ((len xs = n /\ dec_s a i = Some v) \/ (len xs <> n /\ dec_s b i = Some v)).
Proof.
  intros n a b i v. unfold dec_s. cbn [dec_g]. destruct (strip i) as [| | | | | |f xs| | | |]; try discriminate.
  intros H. exists f, xs. split; [reflexivity|]. destruct (N.eqb_spec (len xs) n); [left|right]; auto.
Qed.

(* leios-fetch MsgBlockTxs: an array of exactly 2 or exactly 4 elements *)
Theorem C04_block_txs_arity : forall i v, dec_s sch_leiosfetch_MsgBlockTxs i = Some v ->
  exists f xs, strip i = Arr f xs /\ (length xs = 2%nat \/ length xs = 4%nat).
Proof.
  intros i v H. apply C04_bylen in H. destruct H as (f & xs & S & [[L D]|[L D]]); exists f, xs; (split; [exact S|]).
  - left. unfold len in L. lia.
  - right. apply C04_arity in D. destruct D as [D|(f' & xs' & vs & S' & L' & _)].
    + rewrite S in D. discriminate.
    + rewrite S in S'. injection S' as _ <-. exact L'.
Qed.

(* Validate(): the byte fields have the required lengths (Leios vote signature
   48 bytes; prototype vote hash 32 bytes) *)
Theorem C04_lens : forall cs s i v, dec_s (SPost (PLens cs) s) i = Some v ->
  dec_s s i = Some v /\ lens_ok cs v = true.
Proof.
  intros cs s i v H. apply C04_post in H. destruct H as (v0 & D & P). cbn [post_dec] in P.
  destruct (lens_ok cs v0) eqn:L; [|discriminate]. injection P as <-. auto.
Qed.

Ltac dm H := repeat match type of H with
  | context [match ?x with _ => _ end] => destruct x eqn:?; try discriminate H
  end.

(* local-tx-monitor ReplyNextTx (fixed code, 3f33b77): [type] or
   [type, [era, 24(content)]] with plain unsigned type and era below 256 -
   no other element count, no coercion outside the tag-24 content *)
Theorem C04_reply_next_tx : forall i v, dec_s sch_localtxmonitor_MsgReplyNextTx i = Some v ->
  (exists f g t, strip i = Arr f [UInt g t] /\ t < 256 /\ v = VStruct [VUInt t; VUInt 0; VList []]) \/
  (exists f g t f' g' e h c, strip i = Arr f [UInt g t; Arr f' [UInt g' e; Tag h 24 c]] /\ t < 256 /\ e < 256).
Proof.
  intros i v H. apply C04_post in H. destruct H as (v0 & D & P). unfold dec_s in D. cbn [dec_g] in D. injection D as <-.
  cbn [post_dec] in P. dm P.
  1: { left. injection P as <-. do 3 eexists. repeat split. lia. }
  all: right; subst; repeat match goal with H : (_ && _) = true |- _ => apply andb_true_iff in H; destruct H end;
    match goal with H : (?t =? 24) = true |- _ => apply N.eqb_eq in H; subst t end;
    do 8 eexists; repeat split; lia.
Qed.

(* DMQ reject reason (FIXED code): [type] or [type, message], plain unsigned type <= 3 *)
Theorem C04_reject_reason : forall i v, dec_s (SPost PRejectReason SRaw) i = Some v ->
  exists f g t rest, strip i = Arr f (UInt g t :: rest) /\ t <= 3 /\ (length rest <= 1)%nat.
Proof.
  intros i v H. apply C04_post in H. destruct H as (v0 & D & P). unfold dec_s in D. cbn [dec_g] in D. injection D as <-.
  cbn [post_dec] in P.
  destruct (strip i) as [| | | | | |f xs| | | |]; try discriminate.
  destruct xs as [|x rest]; [discriminate|]. destruct x as [g t| | | | | | | | | |]; try discriminate.
  destruct rest as [|m [|m2 r]]; try discriminate; destruct (N.leb_spec t 3); try discriminate;
    exists f, g, t; eexists; (split; [reflexivity|]); split; cbn [length]; lia.
Qed.

(* the pinned RejectReasonData decoder ignored everything after the message *)
Example C04_reject_reason_ex :
  dec_s sch_localmessagesubmission_MsgRejectMessage
    (Arr (Some Fimm) [UInt Fimm 2; Arr (Some Fimm) [UInt Fimm 0; TStr Fimm [120]; UInt Fimm 5]]) = None /\
  dec_s sch_localmessagesubmission_MsgRejectMessage
    (Arr (Some Fimm) [UInt Fimm 2; Arr (Some Fimm) [UInt Fimm 0; TStr Fimm [120]]]) = Some (VStruct [VUInt 2; VStruct [VUInt 0; VText [120]]]).
Proof. conj_vc. Qed.

(* ---- chain-sync RollForward: C04's codec IS C22's wrapper ---- *)
Lemma all_bytes_b_of bs : all_bytes bs -> all_bytes_b bs = true.
Proof.
  unfold all_bytes, all_bytes_b. intros H. apply forallb_forall. intros x Hx. rewrite Forall_forall in H.
  specialize (H x Hx). unfold is_byte in H. apply N.ltb_lt. exact H.
Qed.

Definition sch_tip : schema := SStruct [SPoint; SUInt 64].

(* node-to-client: the item C22.Model.wrap_ntc builds is what C04's schema
   encodes for the fields (type 2, tag 24 around [t, block], tip, t, block) ... *)
Theorem C04_ntc_enc_is_c22 : forall t b tip tv m,
  wf b -> t < 2 ^ 64 -> enc_s sch_tip tv = Some tip ->
  C22.Model.wrap_ntc t (enc b) tip = Some m ->
  enc_s sch_chainsync_ntc_MsgRollForwardNtC
    (VStruct [VUInt 2; VTagged 24 (VBytes (C22.Model.wrapped_block_bytes t (enc b))); tv; VUInt t; VBytes (enc b)]) = Some m.
Proof.
  intros t b tip tv m Wb Ht Et W. unfold C22.Model.wrap_ntc in W.
  rewrite (C22.Proofs.raw_enc b Wb), (C22.Proofs.one_item_enc b Wb) in W. injection W as <-.
  unfold sch_chainsync_ntc_MsgRollForwardNtC. fold sch_tip. cbn [enc_s post_enc].
  change (24 =? 24) with true. destruct (N.ltb_spec t (2 ^ 64)); [|lia].
  rewrite (all_bytes_b_of _ (Lib.CborProofs.enc_bytes b Wb)), (C22.Proofs.one_item_enc b Wb).
  rewrite (proj2 (bytes_eqb_eq _ _) eq_refl). cbn [andb enc_s].
  rewrite Et. reflexivity.
Qed.

(* ... hence (C04_dec_enc_s) decoding C22's message gives these fields back:
   C04_roundtrip for the NtC RollForward, stated on C22's encoder *)
Theorem C04_rollforward_ntc_roundtrip : forall t b tip tv m,
  wf b -> t < 2 ^ 64 -> enc_s sch_tip tv = Some tip ->
  C22.Model.wrap_ntc t (enc b) tip = Some m ->
  dec_s sch_chainsync_ntc_MsgRollForwardNtC m =
    Some (VStruct [VUInt 2; VTagged 24 (VBytes (C22.Model.wrapped_block_bytes t (enc b))); tv; VUInt t; VBytes (enc b)]).
Proof. intros. apply C04_dec_enc_s. eapply C04_ntc_enc_is_c22; eauto. Qed.
Print Assumptions C04_rollforward_ntc_roundtrip.

(* node-to-node: WrappedHeader.MarshalCBOR as C22 has it *)
Definition sch_wheader : schema := SPost PWHeader (SStruct [SUInt 64; SRaw]).
Theorem C04_wheader_enc_is_c22 : forall era ty sz h, era < 2 ^ 64 -> ty < 2 ^ 64 -> sz < 2 ^ 64 ->
  enc_s sch_wheader (VStruct [VUInt era; VUInt (if era =? 0 then ty else 0); VUInt (if era =? 0 then sz else 0); VBytes h])
    = Some (C22.Model.wrapped_header era ty sz h).
Proof.
  intros era ty sz h He Hty Hsz. unfold sch_wheader, C22.Model.wrapped_header, C22.Model.header_era_byron. cbn [enc_s post_enc].
  destruct (N.eqb_spec era 0) as [->|Hn].
  - destruct (N.ltb_spec ty (2 ^ 64)); [|lia]. destruct (N.ltb_spec sz (2 ^ 64)); [|lia]. cbn [andb enc_s]. reflexivity.
  - cbn [N.eqb andb enc_s]. destruct (N.ltb_spec era (2 ^ 64)); [|lia]. reflexivity.
Qed.

Theorem C04_rollforward_ntn_roundtrip : forall era bt block tip tv m,
  era < 2 ^ 64 -> bt < 2 ^ 64 -> N.of_nat (length block) + 2 < 2 ^ 64 -> enc_s sch_tip tv = Some tip ->
  C22.Model.wrap_ntn era bt block tip = Some m ->
  exists hdr, C22.Model.header_of block = Some hdr /\
    dec_s sch_chainsync_ntn_MsgRollForwardNtN m =
      Some (VStruct [VUInt 2; VStruct [VUInt era; VUInt (if era =? 0 then bt else 0);
                                       VUInt (if era =? 0 then C22.Model.byron_size_of era block else 0); VBytes hdr]; tv]).
Proof.
  intros era bt block tip tv m He Hbt Hlen Et W. unfold C22.Model.wrap_ntn in W.
  destruct (C22.Model.header_of block) as [hdr|]; [|discriminate]. injection W as <-.
  exists hdr. split; [reflexivity|]. apply C04_dec_enc_s.
  assert (Hsz : C22.Model.byron_size_of era block < 2 ^ 64).
  { unfold C22.Model.byron_size_of. destruct (era =? C22.Model.header_era_byron); lia. }
  pose proof (C04_wheader_enc_is_c22 era bt (C22.Model.byron_size_of era block) hdr He Hbt Hsz) as EH.
  unfold sch_chainsync_ntn_MsgRollForwardNtN. fold sch_wheader sch_tip. cbn [enc_s]. cbn [enc_s] in EH.
  rewrite EH, Et. reflexivity.
Qed.
Print Assumptions C04_rollforward_ntn_roundtrip.

(* non-vacuity *)
Example C04_hand_ex :
  dec_s sch_localtxmonitor_MsgReplyNextTx (Arr (Some Fimm) []) = None /\
  dec_s sch_localtxmonitor_MsgReplyNextTx (Arr (Some Fimm) [UInt Fimm 6; Arr (Some Fimm) [UInt Fimm 6; Tag F1 24 (BStr Fimm [128])]; UInt Fimm 0]) = None /\
  dec_s sch_localtxmonitor_MsgReplyNextTx (Arr None [UInt F2 6; Arr (Some F1) [UInt F8 6; Tag F2 24 (BStr Fimm [128])]])
    = Some (VStruct [VUInt 6; VUInt 6; VList [VBytes [128]]]) /\
  dec_s sch_leiosfetch_MsgBlockTxs (Arr (Some Fimm) [UInt Fimm 3; Arr (Some Fimm) []; Arr (Some Fimm) []]) = None /\
  dec_s sch_leiosfetch_MsgBlockTxs (Arr (Some Fimm) [UInt Fimm 3; Arr (Some Fimm) [UInt Fimm 1]])
    = Some (VStruct [VUInt 3; VList [VRaw (UInt Fimm 1)]]) /\
  (exists i, enc_s sch_leiosvotes_MsgVote (VStruct [VUInt 1; VStruct [VUInt 5; VBytes (repeat 7 32); VUInt 9; VBytes (repeat 1 48)]]) = Some i) /\
  enc_s sch_leiosvotes_MsgVote (VStruct [VUInt 1; VStruct [VUInt 5; VBytes (repeat 7 32); VUInt 9; VBytes (repeat 1 47)]]) = None.
Proof.
  repeat (match goal with |- _ /\ _ => split end); try vc.
  eexists. vm_compute. reflexivity.
Qed.
