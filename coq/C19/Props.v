(* C19 - property theorems only.  The decoder table [known], the proposed
   table P and the acceptance (v, data) are universally quantified: data is
   ANY byte string. *)
From Coq Require Import String.
From V Require Import Lib.Base Lib.Hex Lib.Cbor C20.Model C20.Codec C18.Model C18.Proofs C19.Model.
Local Open Scope string_scope.
Local Open Scope N_scope.

(* The initiator completes only with a version it proposed, whose accepted
   data decodes with that version's own decoder and carries the magic the
   initiator proposed for that version. *)
Theorem C19_accept_sound : forall known P v data v' d,
  client_accept known P v data = CFinished v' d ->
  v' = v /\ In v (keys P) /\
  exists own sh, assoc P v = Some own /\ known_shape known v = Some sh /\
                 decode sh data = Some d /\ vd_magic d = vd_magic own.
Proof.
  intros known P v data v' d H.
  assert (v' = v) as ->.
  { destruct (client_accept_class known P v data) as [[d' E]|E]; rewrite E in H; [inversion H; reflexivity|discriminate]. }
  destruct (client_accept_sound known P v data d H) as (own & sh & A & K & D & M).
  split; [reflexivity|]. split; [eapply assoc_Some_key; eauto|]. exists own, sh. auto.
Qed.
Print Assumptions C19_accept_sound.

(* Any other acceptance is a handshake failure: the handler has no third outcome,
   and nothing is recorded on failure. *)
Theorem C19_accept_total : forall known P v data,
  (exists d, client_accept known P v data = CFinished v d) \/
  (client_accept known P v data = CError /\ recorded (client_accept known P v data) = None).
Proof.
  intros. destruct (client_accept_class known P v data) as [H|H]; [left; exact H|right].
  rewrite H. split; reflexivity.
Qed.
Print Assumptions C19_accept_total.

(* completeness: an acceptance that satisfies the three conditions IS accepted
   (the fix does not reject honest responders) *)
Theorem C19_accept_complete : forall known P v data own sh d,
  assoc P v = Some own -> known_shape known v = Some sh -> decode sh data = Some d ->
  vd_magic d = vd_magic own -> client_accept known P v data = CFinished v d.
Proof.
  intros known P v data own sh d A K D M. unfold client_accept. rewrite A, K, D.
  replace (vd_magic d =? vd_magic own) with true by lia. reflexivity.
Qed.
Print Assumptions C19_accept_complete.

(* the wire-level entry point and what Connection.ProtocolVersion() reports *)
Theorem C19_recorded : forall known P v data v' d,
  recorded (client_accept_wire known P v data) = Some (v', d) ->
  v' = v /\ v < 65536 /\ In v (keys P) /\
  exists own sh, assoc P v = Some own /\ known_shape known v = Some sh /\
                 decode sh data = Some d /\ vd_magic d = vd_magic own.
Proof.
  intros known P v data v' d H. unfold client_accept_wire in H.
  destruct (v <? 65536) eqn:E; [|discriminate].
  destruct (client_accept known P v data) as [w dd| | | | |] eqn:A; try discriminate.
  cbn [recorded] in H. inversion H; subst.
  destruct (C19_accept_sound _ _ _ _ _ _ A) as (-> & Hin & R). repeat split; auto. lia.
Qed.
Print Assumptions C19_recorded.

(* The pinned handler is refuted: an NtN client proposing mainnet magic is told
   "Accept(32784, [999, false])" - a node-to-client version it never proposed,
   with a foreign magic - and finishes with it. *)
Definition ex_known : list ventry :=
  [mkV 13 SNtN13 [] []; mkV 14 SNtN13 [] []; mkV 32784 SNtC15 [] []].
Definition ex_P : table := [(13, VNtN13 764824073 true 0 false); (14, VNtN13 764824073 true 0 false)].

Theorem C19_pinned_refuted : exists known P v data d,
  client_accept_pinned known P v data = CFinished v d /\
  (~ In v (keys P) \/ exists own, assoc P v = Some own /\ vd_magic d <> vd_magic own).
Proof.
  exists ex_known, ex_P, 32784, (hx "821903e7f4"), (VNtC15 999 false). split; [vm_compute; reflexivity|].
  left. cbn. intros [H|[H|[]]]; discriminate.
Qed.
Print Assumptions C19_pinned_refuted.

Theorem C19_pinned_refuted_magic : exists known P v data d own,
  client_accept_pinned known P v data = CFinished v d /\ assoc P v = Some own /\ vd_magic d <> vd_magic own.
Proof.
  exists ex_known, ex_P, 14, (hx "841903e7f500f4"), (VNtN13 999 true 0 false), (VNtN13 764824073 true 0 false).
  split; [vm_compute; reflexivity|]. split; [reflexivity|]. cbn. discriminate.
Qed.
Print Assumptions C19_pinned_refuted_magic.

(* non-vacuity: the fixed handler rejects both witnesses and accepts the honest answer *)
Example C19_ex_fixed :
  client_accept ex_known ex_P 32784 (hx "821903e7f4") = CError /\
  client_accept ex_known ex_P 14 (hx "841903e7f500f4") = CError /\
  client_accept ex_known ex_P 14 (hx "841a2d964a09f400f4") = CFinished 14 (VNtN13 764824073 false 0 false).
Proof. vm_compute. repeat split. Qed.
