(* C19 - a client never settles on a version it did not offer.
   The model is C18.Model.client_accept (handleAcceptVersion WITH
   fixes/C19-accept-version-checks.patch, followed by connection.go's
   FinishedFunc which records exactly the version and data it is given) and
   C18.Model.client_accept_pinned (the pinned handler).  This file only fixes
   the correspondence entry points.  NO proofs here. *)
From V Require Export Lib.Base Lib.Hex Lib.Cbor C20.Model C18.Model.
Local Open Scope N_scope.

(* the wire carries a uint16 version: a larger number does not decode as
   MsgAcceptVersion at all and the protocol fails before the handler runs *)
Definition client_accept_wire (known : list ventry) (C : table) (v : N) (data : bytes) : couts :=
  if v <? 65536 then client_accept known C v data else CError.

(* what Connection.ProtocolVersion() returns after NewConnection succeeded:
   the FinishedFunc stores its arguments unchanged *)
Definition recorded (o : couts) : option (N * vd) :=
  match o with CFinished v d => Some (v, d) | _ => None end.

Definition check_wire_case (known : list ventry) (c : acase) : bool :=
  match c with (ct, v, data, co) => couts_eqb (client_accept_wire known ct v data) co end.
