(* C21 - Client.Stop() (protocol/chainsync/client.go) on top of the chain-sync LTS of
   Model.v.  NO proofs here (StopProofs.v).

   The extended state is the base state [b] (Model.st, unchanged) plus
     - the engine's send side for this client (protocol/protocol.go sendLoop), a SMALL
       ABSTRACTION of coq/C11/Engine.v (not an import: C11.Engine carries byte counts,
       the receive side and error plumbing that play no role here).  Kept from C11:
       sendQueueChan with capacity 80 ([sq], do_enq), the send-ready token ([tok],
       set_state/do_take_send), "first message of a batch needs the token and makes its
       transition at once, the following ones are written at once and only their
       TRANSITIONS are queued" (do_send_deq, [qtr], do_send_queued), at most 20 messages
       per batch, the batch may end after any message (C11's over-approximation of the
       racy len(sendQueueChan)==0 test), the segment hand-off (do_send_seg) and the exit
       on stopChan (do_exit GSend).  Added since fix a8c9a5c: Protocol.sendInFlight
       ([infl]: set in the critical section that takes a message out of the accounting,
       cleared after the batch was handed to the muxer; WaitSendQueueDrained tests it).  Message sizes are dropped (RequestNext and Done are
       2 bytes: neither the segment limit nor PendingMessageByteLimit can trigger).
       The receive side is: recvLoop takes a message only while the engine state has
       server agency (that is what recvReadyChan encodes; C11 proves token/agency
       coherence) and the handler of Model.v runs.
     - Stop() itself, one label per statement that can block or be observed, with
       busyMutex / lifecycleMutex / lifecycleState as the code has them.
   Time: Stop has two bounded waits.  (T1) the 5 s TryLock loop on busyMutex gives up
   only when the holder (syncLoop, inside its request loop) is blocked on a FULL send
   queue - any other critical section of syncLoop is a few instructions.  (T2) the 250 ms
   WaitSendQueueDrained may expire at any moment (label LStopDrainTimeout, ghost
   [timedout]); what is proved about Done is proved for runs in which it did not expire,
   everything else for all runs.
   The server has a finite [budget] of further chain updates (0 = it sits at the tip and
   leaves requests unanswered); theorems quantify over every budget. *)
From V Require Import Lib.Base C21.Model.

Inductive qmsg := QReq | QDone.
Inductive pst := PIdle | PCanAwait | PMustReply | PDone.   (* chainsync.StateMapNtC/NtN *)
Inductive sphase :=
| SpWait                (* blocked on <-sendReadyChan *)
| SpHeld                (* token taken; queued transitions / first message not done yet *)
| SpBatch (cnt : nat)   (* readSendQueueLoop, cnt messages written into payloadBuf *)
| SpSeg                 (* at muxerSendChan <- segment *)
| SpFail                (* transition refused: about to SendError and return *)
| SpDead.               (* returned *)
Inductive stopph :=
| TNone      (* Stop() not called *)
| TTry       (* in the busyMutex.TryLock loop *)
| TLife      (* at lifecycleMutex.Lock() *)
| TEnq       (* holds lifecycleMutex, state is Running, !IsDone(): at SendMessage(Done) *)
| TDrain     (* in WaitSendQueueDrained(250 ms) *)
| TUnbusy    (* at busyMutex.Unlock() *)
| TClose     (* at close(readyForNextBlockChan); = nil *)
| TPStop     (* at Protocol.Stop() *)
| TUnlife    (* lifecycleState = Stopped; at lifecycleMutex.Unlock() *)
| TWaitDone  (* at <-doneChan *)
| TReturned.

Record eng := {
  sq : list qmsg;               (* sendQueueChan *)
  qtr : list qmsg;              (* queuedStateTransitions *)
  cur : pst;                    (* currentState *)
  tok : bool;                   (* a token sits in sendReadyChan *)
  sp : sphase;
  batch : list (qmsg * bool);   (* written into payloadBuf, segment not yet handed to the muxer *)
  wire : list (qmsg * bool);    (* handed to the muxer; the flag: did the client have agency
                                   (every RequestNext written so far answered by the server)
                                   at the moment the message was written *)
  dropped : bool;               (* ghost: sendLoop returned on stopChan with a non-empty batch *)
  infl : bool                   (* Protocol.sendInFlight (fix a8c9a5c): sendLoop holds dequeued messages
                                   that have not been handed to the muxer yet *)
}.
Record ctl := {
  tp : stopph;
  sbusy : bool;        (* Stop holds busyMutex *)
  closed : bool;       (* readyForNextBlockChan closed and nil *)
  pstop : bool;        (* Protocol.stopChan closed *)
  sldead : bool;       (* syncLoop returned *)
  rdead : bool;        (* recvLoop returned *)
  timedout : bool;     (* ghost: the 250 ms drain wait expired *)
  gaveup : bool;       (* ghost: the 5 s TryLock loop gave up; Stop runs without busyMutex *)
  enq_clean : bool;    (* ghost: when Done was enqueued the send queue was empty and sendLoop
                          was not inside a batch *)
  drain_clean : bool   (* ghost: when WaitSendQueueDrained reported "drained" sendLoop had
                          finished its batch and handed the segment over; since fix a8c9a5c
                          (sendInFlight) this is an invariant: C21_stop_drain_after_handoff *)
}.
Record xst := { b : st; budget : nat; e : eng; k : ctl }.

Inductive xlabel :=
| XB (l : label)                       (* a label of the base LTS, with the extra guards below *)
| XTakeTok | XQueuedTr | XDeq | XBatchEnd | XSegOut | XSendExit | XSendFail   (* sendLoop *)
| XRecvExit                            (* recvLoop leaves on stopChan *)
| XSyncExit | XSendReqFail             (* syncLoop leaves *)
| XStopCall | XStopBusy | XStopBusyTimeout | XStopLife | XStopEnq | XStopDrained
| XStopDrainTimeout | XStopUnbusy | XStopClose | XStopProto | XStopUnlife | XStopReturn.

Definition sendq_cap : nat := 80.     (* make(chan outboundMessage, 80) *)
Definition max_batch : nat := 20.     (* maxMessagesPerSegment *)

Definition is_req (m : qmsg) : bool := match m with QReq => true | QDone => false end.
Definition is_done (m : qmsg) : bool := match m with QDone => true | QReq => false end.
Definition nreq (l : list qmsg) : nat := length (filter is_req l).
Definition ndone (l : list qmsg) : nat := length (filter is_done l).
Definition msgs (l : list (qmsg * bool)) : list qmsg := map fst l.
Definition written (x : eng) : list (qmsg * bool) := wire x ++ batch x.

Definition srv_agency (p : pst) : bool := match p with PCanAwait | PMustReply => true | _ => false end.
(* Protocol.nextState on the chain-sync map, client messages *)
Definition next_send (p : pst) (m : qmsg) : option pst :=
  match p, m with PIdle, QReq => Some PCanAwait | PIdle, QDone => Some PDone | _, _ => None end.

(* Stop holds lifecycleMutex *)
Definition life_held (t : stopph) : bool :=
  match t with TEnq | TDrain | TUnbusy | TClose | TPStop | TUnlife => true | _ => false end.
Definition in_send (s : spc) : bool := match s with SSend _ => true | _ => false end.
Definition in_batch (p : sphase) : bool := match p with SpBatch _ | SpSeg => true | _ => false end.

Definition set_hp (s : st) (h : hpc) : st :=
  {| sent := sent s; replied := replied s; awaited := awaited s; inq := inq s; hist := hist s; dlv := dlv s;
     hp := h; rdy := rdy s; sl := sl s; counter := counter s; recv := recv s; cblog := cblog s;
     pipe := pipe s; inflight := inflight s |}.

Definition set_tp (c : ctl) (t : stopph) : ctl :=
  {| tp := t; sbusy := sbusy c; closed := closed c; pstop := pstop c; sldead := sldead c; rdead := rdead c;
     timedout := timedout c; gaveup := gaveup c; enq_clean := enq_clean c; drain_clean := drain_clean c |}.
Definition set_sp (x : eng) (p : sphase) : eng :=
  {| sq := sq x; qtr := qtr x; cur := cur x; tok := tok x; sp := p; batch := batch x; wire := wire x;
     dropped := dropped x; infl := infl x |}.
Definition push_sq (x : eng) (m : qmsg) : eng :=
  {| sq := sq x ++ [m]; qtr := qtr x; cur := cur x; tok := tok x; sp := sp x; batch := batch x; wire := wire x;
     dropped := dropped x; infl := infl x |}.
Definition mk (s : xst) (b' : st) (e' : eng) (k' : ctl) : xst := {| b := b'; budget := budget s; e := e'; k := k' |}.

Section Limit.
Variable limit : nat.

(* ---- base labels with their extra guards ---- *)
Definition xbase (s : xst) (l : label) : option xst :=
  let B := b s in let E := e s in let K := k s in
  match l with
  | LSrvAwait =>
      (* the server answers only requests that reached the muxer *)
      if replied B <? nreq (msgs (wire E)) then
        match step limit B l with Some B' => Some (mk s B' E K) | None => None end
      else None
  | LSrvReply _ =>
      match budget s with
      | S n => if replied B <? nreq (msgs (wire E)) then
                 match step limit B l with
                 | Some B' => Some {| b := B'; budget := n; e := E; k := K |}
                 | None => None end
               else None
      | O => None
      end
  | LDeliver =>
      (* recvLoop: needs the receive token (= the engine state has server agency); the
         message's transition is made before the handler runs *)
      if negb (rdead K) && srv_agency (cur E) then
        match step limit B l, inq B with
        | Some B', Await :: _ =>
            Some (mk s B' {| sq := sq E; qtr := qtr E; cur := PMustReply; tok := tok E; sp := sp E; batch := batch E;
                             wire := wire E; dropped := dropped E; infl := infl E |} K)
        | Some B', Reply _ :: _ =>
            Some (mk s B' {| sq := sq E; qtr := qtr E; cur := PIdle; tok := true; sp := sp E; batch := batch E;
                             wire := wire E; dropped := dropped E; infl := infl E |} K)
        | _, _ => None
        end
      else None
  | LCb _ | LApply _ =>
      match step limit B l with Some B' => Some (mk s B' E K) | None => None end
  | LPush =>
      (* lifecycleMutex.Lock(); if readyForNextBlockChan != nil { push }; Unlock() *)
      if life_held (tp K) then None
      else if closed K then
        match hp B with HReady => Some (mk s (set_hp B HIdle) E K) | _ => None end
      else match step limit B l with Some B' => Some (mk s B' E K) | None => None end
  | LTake =>
      (* a closed channel still hands out its buffered values *)
      if sldead K then None
      else match step limit B l with Some B' => Some (mk s B' E K) | None => None end
  | LProc =>
      (* busyMutex.Lock() *)
      if sldead K || sbusy K then None
      else match step limit B l with Some B' => Some (mk s B' E K) | None => None end
  | LSendReq =>
      (* enqueueMessage: refused once stopChan is closed (XSendReqFail), blocks while the queue is full *)
      if sldead K || pstop K || negb (length (sq E) <? sendq_cap) then None
      else match step limit B l with Some B' => Some (mk s B' (push_sq E QReq) K) | None => None end
  | LSendEnd =>
      if sldead K then None
      else match step limit B l with Some B' => Some (mk s B' E K) | None => None end
  end.

(* has the client agency on the wire: every RequestNext written so far was answered *)
Definition agency_now (s : xst) : bool := Nat.eqb (nreq (msgs (written (e s)))) (replied (b s)).

Definition xstep (s : xst) (l : xlabel) : option xst :=
  let B := b s in let E := e s in let K := k s in
  match l with
  | XB bl => xbase s bl
  (* ---- sendLoop ---- *)
  | XTakeTok =>
      match sp E with
      | SpWait => if tok E then Some (mk s B {| sq := sq E; qtr := qtr E; cur := cur E; tok := false; sp := SpHeld;
                                                batch := batch E; wire := wire E; dropped := dropped E; infl := infl E |} K)
                  else None
      | _ => None
      end
  | XQueuedTr =>
      match sp E, qtr E with
      | SpHeld, m :: q =>
          match next_send (cur E) m with
          | Some n => Some (mk s B {| sq := sq E; qtr := q; cur := n; tok := tok E; sp := SpWait;
                                      batch := batch E; wire := wire E; dropped := dropped E; infl := infl E |} K)
          | None => Some (mk s B (set_sp E SpFail) K)
          end
      | _, _ => None
      end
  | XDeq =>
      match sq E with
      | [] => None
      | m :: q =>
          match sp E with
          | SpHeld =>
              match qtr E with
              | [] =>
                  match next_send (cur E) m with
                  | Some n => Some (mk s B {| sq := q; qtr := []; cur := n; tok := tok E; sp := SpBatch 1;
                                              batch := batch E ++ [(m, agency_now s)]; wire := wire E;
                                              dropped := dropped E; infl := true |} K)
                  | None => Some (mk s B {| sq := q; qtr := []; cur := cur E; tok := tok E; sp := SpFail;
                                            batch := batch E; wire := wire E; dropped := dropped E; infl := true |} K)
                  end
              | _ => None
              end
          | SpBatch cnt =>
              if cnt <? max_batch then
                Some (mk s B {| sq := q; qtr := qtr E ++ [m]; cur := cur E; tok := tok E; sp := SpBatch (S cnt);
                                batch := batch E ++ [(m, agency_now s)]; wire := wire E; dropped := dropped E; infl := true |} K)
              else None
          | _ => None
          end
      end
  | XBatchEnd => match sp E with SpBatch _ => Some (mk s B (set_sp E SpSeg) K) | _ => None end
  | XSegOut =>
      match sp E with
      | SpSeg => Some (mk s B {| sq := sq E; qtr := qtr E; cur := cur E; tok := tok E; sp := SpWait; batch := [];
                                 wire := wire E ++ batch E; dropped := dropped E; infl := false |} K)
      | _ => None
      end
  | XSendExit =>
      (* every select of sendLoop watches stopChan *)
      if pstop K then
        match sp E with
        | SpWait | SpHeld | SpBatch _ | SpSeg =>
            Some (mk s B {| sq := sq E; qtr := qtr E; cur := cur E; tok := tok E; sp := SpDead; batch := batch E;
                            wire := wire E;
                            dropped := dropped E || match batch E with [] => false | _ => true end;
                            infl := infl E |} K)
        | _ => None
        end
      else None
  | XSendFail =>
      match sp E with
      | SpFail => Some (mk s B (set_sp E SpDead)
                           {| tp := tp K; sbusy := sbusy K; closed := closed K; pstop := true; sldead := sldead K;
                              rdead := rdead K; timedout := timedout K; gaveup := gaveup K;
                              enq_clean := enq_clean K; drain_clean := drain_clean K |})
      | _ => None
      end
  (* ---- recvLoop / syncLoop leave ---- *)
  | XRecvExit =>
      if pstop K && negb (rdead K) then
        match hp B with
        | HIdle => Some (mk s B E {| tp := tp K; sbusy := sbusy K; closed := closed K; pstop := pstop K;
                                     sldead := sldead K; rdead := true; timedout := timedout K; gaveup := gaveup K;
                                     enq_clean := enq_clean K; drain_clean := drain_clean K |})
        | _ => None
        end
      else None
  | XSyncExit =>
      (* the select of syncLoop: closed channel with nothing buffered, or DoneChan *)
      if negb (sldead K) && closed K then
        match sl B with
        | SWait =>
            if Nat.eqb (rdy B) 0 || (rdead K && match sp E with SpDead => true | _ => false end) then
              Some (mk s B E {| tp := tp K; sbusy := sbusy K; closed := closed K; pstop := pstop K;
                                sldead := true; rdead := rdead K; timedout := timedout K; gaveup := gaveup K;
                                enq_clean := enq_clean K; drain_clean := drain_clean K |})
            else None
        | _ => None
        end
      else None
  | XSendReqFail =>
      (* SendMessage returns ErrProtocolShuttingDown: SendError, busyMutex.Unlock, return *)
      if negb (sldead K) && pstop K then
        match sl B with
        | SSend (S _) =>
            Some (mk s B E {| tp := tp K; sbusy := sbusy K; closed := closed K; pstop := pstop K;
                              sldead := true; rdead := rdead K; timedout := timedout K; gaveup := gaveup K;
                              enq_clean := enq_clean K; drain_clean := drain_clean K |})
        | _ => None
        end
      else None
  (* ---- Stop() ---- *)
  | XStopCall => match tp K with TNone => Some (mk s B E (set_tp K TTry)) | _ => None end
  | XStopBusy =>
      match tp K with
      | TTry => if negb (in_send (sl B)) || sldead K then
                  Some (mk s B E {| tp := TLife; sbusy := true; closed := closed K; pstop := pstop K;
                                    sldead := sldead K; rdead := rdead K; timedout := timedout K; gaveup := gaveup K;
                                    enq_clean := enq_clean K; drain_clean := drain_clean K |})
                else None
      | _ => None
      end
  | XStopBusyTimeout =>
      match tp K, sl B with
      | TTry, SSend (S _) =>
          if negb (sldead K) && negb (length (sq E) <? sendq_cap) then
            Some (mk s B E {| tp := TLife; sbusy := false; closed := closed K; pstop := pstop K;
                              sldead := sldead K; rdead := rdead K; timedout := timedout K; gaveup := true;
                              enq_clean := enq_clean K; drain_clean := drain_clean K |})
          else None
      | _, _ => None
      end
  | XStopLife => match tp K with TLife => Some (mk s B E (set_tp K TEnq)) | _ => None end
  | XStopEnq =>
      match tp K with
      | TEnq =>
          if length (sq E) <? sendq_cap then
            Some (mk s B (push_sq E QDone)
                     {| tp := TDrain; sbusy := sbusy K; closed := closed K; pstop := pstop K;
                        sldead := sldead K; rdead := rdead K; timedout := timedout K; gaveup := gaveup K;
                        enq_clean := match sq E with [] => negb (in_batch (sp E)) | _ => false end;
                        drain_clean := drain_clean K |})
          else None
      | _ => None
      end
  | XStopDrained =>
      (* pendingSendBytes == 0 && len(sendQueueChan) == 0 && !sendInFlight: everything was taken by
         sendLoop AND the batch it was taken into has been handed to the muxer *)
      match tp K, sq E with
      | TDrain, [] =>
          if infl E then None else
          Some (mk s B E {| tp := TUnbusy; sbusy := sbusy K; closed := closed K; pstop := pstop K;
                            sldead := sldead K; rdead := rdead K; timedout := timedout K; gaveup := gaveup K;
                            enq_clean := enq_clean K; drain_clean := negb (in_batch (sp E)) |})
      | _, _ => None
      end
  | XStopDrainTimeout =>
      match tp K with
      | TDrain => Some (mk s B E {| tp := TUnbusy; sbusy := sbusy K; closed := closed K; pstop := pstop K;
                                    sldead := sldead K; rdead := rdead K; timedout := true; gaveup := gaveup K;
                                    enq_clean := enq_clean K; drain_clean := drain_clean K |})
      | _ => None
      end
  | XStopUnbusy =>
      match tp K with
      | TUnbusy => Some (mk s B E {| tp := TClose; sbusy := false; closed := closed K; pstop := pstop K;
                                     sldead := sldead K; rdead := rdead K; timedout := timedout K; gaveup := gaveup K;
                                     enq_clean := enq_clean K; drain_clean := drain_clean K |})
      | _ => None
      end
  | XStopClose =>
      match tp K with
      | TClose => Some (mk s B E {| tp := TPStop; sbusy := sbusy K; closed := true; pstop := pstop K;
                                    sldead := sldead K; rdead := rdead K; timedout := timedout K; gaveup := gaveup K;
                                    enq_clean := enq_clean K; drain_clean := drain_clean K |})
      | _ => None
      end
  | XStopProto =>
      match tp K with
      | TPStop => Some (mk s B E {| tp := TUnlife; sbusy := sbusy K; closed := closed K; pstop := true;
                                    sldead := sldead K; rdead := rdead K; timedout := timedout K; gaveup := gaveup K;
                                    enq_clean := enq_clean K; drain_clean := drain_clean K |})
      | _ => None
      end
  | XStopUnlife => match tp K with TUnlife => Some (mk s B E (set_tp K TWaitDone)) | _ => None end
  | XStopReturn =>
      (* doneChan is closed once recvLoop and sendLoop have returned *)
      match tp K, sp E with
      | TWaitDone, SpDead => if rdead K then Some (mk s B E (set_tp K TReturned)) else None
      | _, _ => None
      end
  end.

Fixpoint xrun (s : xst) (ls : list xlabel) : option xst :=
  match ls with
  | [] => Some s
  | l :: r => match xstep s l with Some s' => xrun s' r | None => None end
  end.
End Limit.

(* where Sync() returns: IntersectFound was handled (state Idle, a send token is there),
   the first RequestNext has been ENQUEUED (not necessarily written) *)
Definition xinit (p : bool) (bud : nat) : xst :=
  {| b := init_p p; budget := bud;
     e := {| sq := [QReq]; qtr := []; cur := PIdle; tok := true; sp := SpWait; batch := []; wire := []; dropped := false; infl := false |};
     k := {| tp := TNone; sbusy := false; closed := false; pstop := false; sldead := false; rdead := false;
             timedout := false; gaveup := false; enq_clean := true; drain_clean := true |} |}.

(* every label that can be enabled in s (finite: the parametrised labels are determined by the state) *)
Definition candidates (s : xst) : list xlabel :=
  let B := b s in
  [XB LSrvAwait; XB LDeliver; XB LPush; XB LTake; XB LProc; XB LSendReq; XB LSendEnd;
   XTakeTok; XQueuedTr; XDeq; XBatchEnd; XSegOut; XSendExit; XSendFail; XRecvExit; XSyncExit; XSendReqFail;
   XStopCall; XStopBusy; XStopBusyTimeout; XStopLife; XStopEnq; XStopDrained; XStopDrainTimeout; XStopUnbusy;
   XStopClose; XStopProto; XStopUnlife; XStopReturn]
  ++ match hp B with HCb u => [XB (LCb u)] | _ => [] end
  ++ match inflight B with u :: _ => [XB (LApply u)] | [] => [] end.
Definition enabled limit (s : xst) (l : xlabel) : bool := match xstep limit s l with Some _ => true | None => false end.
(* nothing but "the server sends another chain update" can move *)
Definition client_stuck limit (s : xst) : bool := forallb (fun l => negb (enabled limit s l)) (candidates s).

(* ---- what C21 means by "stopping the client ends the conversation cleanly" ---- *)
Definition all_req (l : list (qmsg * bool)) : Prop := forall m, In m l -> fst m = QReq.
Definition clean_end (s : xst) : Prop :=
  tp (k s) = TReturned /\ pstop (k s) = true /\ sp (e s) = SpDead /\ rdead (k s) = true /\ sldead (k s) = true
  /\ batch (e s) = [] /\ exists pre, wire (e s) = pre ++ [(QDone, true)] /\ all_req pre.
(* always, also after an expired drain wait: Stop returned, everything terminated *)
Definition stopped_end (s : xst) : Prop :=
  tp (k s) = TReturned /\ pstop (k s) = true /\ sp (e s) = SpDead /\ rdead (k s) = true /\ sldead (k s) = true.

(* the side condition excluding exactly the known findings, as recorded on the run *)
Definition side_ok (s : xst) : bool :=
  negb (gaveup (k s)) && enq_clean (k s).

(* ---- correspondence of the send path: the chain-sync segments the client writes to the
   connection (RequestNext / Done only), interleaved with the server's replies.  What every
   run of the model satisfies (C21_batch_starts_with_agency, max_batch, PDone is final):
   a segment starts only when every RequestNext written before has been answered, holds at
   most 20 messages, and no segment follows the one that carries Done. ---- *)
Inductive wev := WRep | WSeg (ms : list qmsg).
Fixpoint check_wire (wreq reps : nat) (done : bool) (evs : list wev) : bool :=
  match evs with
  | [] => true
  | WRep :: r => (reps <? wreq) && check_wire wreq (S reps) done r
  | WSeg ms :: r =>
      negb done && Nat.eqb wreq reps && (1 <=? length ms) && (length ms <=? max_batch)
      && check_wire (wreq + nreq ms) reps (existsb is_done ms) r
  end.
Record xcase := { xc : case; xc_wire : list wev }.
Definition xcheck_case (c : xcase) : bool := check_case (xc c) && check_wire 0 0 false (xc_wire c).
Definition xmismatches := failing xcheck_case.
