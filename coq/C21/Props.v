(* C21 - property theorems: for every pipeline limit, every server history of any
   length (any interleaving of AwaitReply / RollForward / RollBackward that a
   protocol-conforming server can emit), every schedule of recvLoop, the
   handlers and syncLoop. *)
From V Require Import Lib.Base C21.Model C21.Proofs.

(* C21_callbacks: the callback log is, in order, exactly the roll-forward /
   roll-backward messages recvLoop has taken (each carrying its own point and
   tip), one callback per message, AwaitReply produces none; what has been taken
   is a prefix of what the server emitted.  At most the callback of the message
   in the handler is still due. *)
Theorem C21_callbacks : forall limit p ls s,
  run limit (init_p p) ls = Some s ->
  cblog s ++ inflight s ++ pend (hp s) = replies_of (dlv s) /\ dlv s ++ inq s = hist s.
Proof.
  intros limit p ls s HR.
  destruct (kinv_run limit ls (init_p p) s (kinv_init p) HR) as (A & B & _). auto.
Qed.
Print Assumptions C21_callbacks.

Corollary C21_callbacks_quiescent : forall limit p ls s,
  run limit (init_p p) ls = Some s -> inq s = [] -> inflight s = [] -> pend (hp s) = [] ->
  cblog s = replies_of (hist s).
Proof.
  intros limit p ls s HR HQ HF HP. destruct (C21_callbacks _ _ _ _ HR) as [A B].
  rewrite HF, HP in A. cbn in A. rewrite app_nil_r in A. rewrite HQ, app_nil_r in B. congruence.
Qed.

(* C21_pipeline_rollback_order.  With a block pipeline (config.Pipeline != nil) roll-forward
   blocks are applied by the pipeline's ApplyFunc, asynchronously, while the roll-backward
   callback is made by the handler.  In every reachable state, every schedule of the
   pipeline's apply stage against recvLoop and syncLoop: the merged log of ApplyFunc and
   RollBackwardFunc calls is a prefix of the server's updates in the server's order; in
   particular, when a RollBackwardFunc call is the last entry of the log, every update the
   server sent before that roll-backward has already been applied (nothing earlier is in
   flight).  This rests on the drain-before-rollback guard of handleRollBackward. *)
Theorem C21_pipeline_rollback_order : forall limit ls s,
  run limit (init_p true) ls = Some s ->
  (exists rest, replies_of (hist s) = cblog s ++ rest)
  /\ (forall pre s0 h t, cblog s = pre ++ [RollBackward s0 h t] ->
        exists n, firstn n (replies_of (hist s)) = pre ++ [RollBackward s0 h t]).
Proof.
  intros limit ls s HR. destruct (C21_callbacks _ _ _ _ HR) as [A B].
  assert (E : replies_of (hist s) = cblog s ++ (inflight s ++ pend (hp s)) ++ replies_of (inq s)).
  { rewrite <- B, replies_of_app, <- A, <- !app_assoc. reflexivity. }
  split; [eexists; exact E|].
  intros pre s0 h t HC. exists (length (cblog s)). rewrite E, firstn_app, Nat.sub_diag, firstn_all.
  cbn. rewrite app_nil_r. exact HC.
Qed.
Print Assumptions C21_pipeline_rollback_order.

(* the guard is what makes it true: in the LTS the roll-backward callback is enabled only
   when the pipeline is empty *)
Theorem C21_rollback_waits_for_drain : forall limit s u s',
  pipe s = true -> step limit s (LCb u) = Some s' -> inflight s = [].
Proof.
  intros limit s u s' HP Hs. cbn in Hs. destruct (hp s); try discriminate.
  rewrite HP in Hs. cbn in Hs. destruct (inflight s); [reflexivity|].
  rewrite andb_false_r in Hs. discriminate.
Qed.

(* C21_outstanding: requests sent minus replies handled (and a fortiori minus replies
   the server emitted) never exceeds max(PipelineLimit, 1). *)
Theorem C21_outstanding : forall limit p ls s,
  run limit (init_p p) ls = Some s ->
  sent s - recv s <= Nat.max limit 1 /\ recv s <= replied s /\ replied s <= sent s.
Proof.
  intros limit p ls s HR.
  destruct (inv_run limit ls (init_p p) s (inv_init limit p) HR) as (A & B & C & D).
  pose proof (L_pos limit) as LP. unfold L in *.
  destruct (sl s); lia.
Qed.
Print Assumptions C21_outstanding.

(* the counter itself stays below the limit *)
Theorem C21_counter : forall limit p ls s,
  run limit (init_p p) ls = Some s -> counter s <= Nat.max limit 1 - 1.
Proof.
  intros limit p ls s HR.
  destruct (inv_run limit ls (init_p p) s (inv_init limit p) HR) as (A & B & C & D).
  unfold L in *. destruct (sl s); lia.
Qed.

(* C21_stop (partial).  Stop() takes busyMutex, then lifecycleMutex, sends Done, closes
   readyForNextBlockChan and stops the protocol.  The only wait cycle it could close is:
   syncLoop has taken a ready signal and waits for busyMutex (held by Stop) while a
   handler holds lifecycleMutex blocked on a FULL readyForNextBlockChan.  That
   configuration is unreachable, for every limit: Stop always gets lifecycleMutex. *)
Theorem C21_stop_no_wait_cycle : forall limit p ls s,
  run limit (init_p p) ls = Some s ->
  ~ (hp s = HReady /\ sl s = SGot /\ limit <= rdy s).
Proof.
  intros limit p ls s HR (H1 & H2 & H3).
  destruct (inv_run limit ls (init_p p) s (inv_init limit p) HR) as (A & B & C & D).
  rewrite H2 in D. unfold uh in D. rewrite H1 in D. unfold L in D. lia.
Qed.
Print Assumptions C21_stop_no_wait_cycle.

(* when Stop holds busyMutex the client cannot issue further requests: syncLoop
   sends only from SSend, which it enters through LProc (under busyMutex) *)

(* non-vacuity: limit 3, two replies pipelined, the log follows *)
Example C21_nonvacuous :
  let t := {| tslot := 9; thash := []; tblock := 3 |} in
  let a := RollForward 5 [] t in let b := RollBackward 4 [] t in
  exists s, run 3 init [LSrvAwait; LSrvReply a; LDeliver; LDeliver; LCb a; LPush; LTake; LProc; LSendReq; LSendReq; LSendReq; LSendEnd;
                        LSrvReply b; LSrvReply a; LDeliver; LCb b; LPush; LDeliver; LCb a] = Some s
            /\ cblog s = [a; b; a] /\ sent s = 4 /\ recv s = 3 /\ counter s = 2.
Proof. eexists. split; [vm_compute; reflexivity|]. repeat split. Qed.

(* C21_stop refuted on the pinned tree for large limits: with limit 100 a state with more
   than 80 unanswered requests is reachable; the engine's send queue has 80 slots and is
   drained only with client agency, so Stop()'s SendMessage(Done) blocks (observed:
   known finding stop-hangs-sendqueue-full). *)
Theorem C21_stop_queue_can_fill :
  let t := {| tslot := 9; thash := []; tblock := 3 |} in
  let a := RollForward 5 [] t in
  exists ls s, run 100 init ls = Some s /\ 80 < sent s - replied s.
Proof.
  intros t a. exists ([LSrvReply a; LDeliver; LCb a; LPush; LTake; LProc] ++ repeat LSendReq 100).
  eexists. split; [vm_compute; reflexivity|]. cbn. lia.
Qed.

(* non-vacuity of the pipeline clause: two blocks in flight, the rollback waits *)
Example C21_pipeline_nonvacuous :
  let t := {| tslot := 9; thash := []; tblock := 3 |} in
  let a := RollForward 5 [] t in let b := RollBackward 4 [] t in
  exists s, run 3 (init_p true) [LSrvReply a; LDeliver; LPush; LTake; LProc; LSendReq; LSendReq; LSendReq; LSendEnd;
                                 LSrvReply a; LSrvReply b; LDeliver; LPush; LDeliver] = Some s
            /\ inflight s = [a; a] /\ hp s = HCb b /\ step 3 s (LCb b) = None
            /\ exists s', run 3 s [LApply a; LApply a; LCb b] = Some s' /\ cblog s' = [a; a; b].
Proof. eexists. split; [vm_compute; reflexivity|]. repeat split. eexists. split; vm_compute; reflexivity. Qed.
