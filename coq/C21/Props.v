(* C21 - property theorems: for every pipeline limit, every server history of any
   length (any interleaving of AwaitReply / RollForward / RollBackward that a
   protocol-conforming server can emit), every schedule of recvLoop, the
   handlers and syncLoop. *)
From V Require Import Lib.Base C21.Model C21.Proofs C21.Stop C21.StopProofs C21.StopTermination C21.StopCap.

(* C21_callbacks: the callback log is, in order, exactly the roll-forward /
   roll-backward messages recvLoop has taken (each carrying its own point and
   tip), one callback per message, AwaitReply produces none; what has been taken
   is a prefix of what the server emitted.  At most the callback of the message
   in the handler is still due. *)
Theorem C21_callbacks : forall limit p ls s,
  run limit (init_p p) ls = Some s ->
  cblog s ++ inflight s ++ pend (hp s) = replies_of (dlv s) /\ dlv s ++ inq s = hist s.
Proof.
  intros limit p ls s HR.
  destruct (kinv_run limit ls (init_p p) s (kinv_init p) HR) as (A & B & _). auto.
Qed.
Print Assumptions C21_callbacks.

Corollary C21_callbacks_quiescent : forall limit p ls s,
  run limit (init_p p) ls = Some s -> inq s = [] -> inflight s = [] -> pend (hp s) = [] ->
  cblog s = replies_of (hist s).
Proof.
  intros limit p ls s HR HQ HF HP. destruct (C21_callbacks _ _ _ _ HR) as [A B].
  rewrite HF, HP in A. cbn in A. rewrite app_nil_r in A. rewrite HQ, app_nil_r in B. congruence.
Qed.

(* C21_pipeline_rollback_order.  With a block pipeline (config.Pipeline != nil) roll-forward
   blocks are applied by the pipeline's ApplyFunc, asynchronously, while the roll-backward
   callback is made by the handler.  In every reachable state, every schedule of the
   pipeline's apply stage against recvLoop and syncLoop: the merged log of ApplyFunc and
   RollBackwardFunc calls is a prefix of the server's updates in the server's order; in
   particular, when a RollBackwardFunc call is the last entry of the log, every update the
   server sent before that roll-backward has already been applied (nothing earlier is in
   flight).  This rests on the drain-before-rollback guard of handleRollBackward. *)
Theorem C21_pipeline_rollback_order : forall limit ls s,
  run limit (init_p true) ls = Some s ->
  (exists rest, replies_of (hist s) = cblog s ++ rest)
  /\ (forall pre s0 h t, cblog s = pre ++ [RollBackward s0 h t] ->
        exists n, firstn n (replies_of (hist s)) = pre ++ [RollBackward s0 h t]).
Proof.
  intros limit ls s HR. destruct (C21_callbacks _ _ _ _ HR) as [A B].
  assert (E : replies_of (hist s) = cblog s ++ (inflight s ++ pend (hp s)) ++ replies_of (inq s)).
  { rewrite <- B, replies_of_app, <- A, <- !app_assoc. reflexivity. }
  split; [eexists; exact E|].
  intros pre s0 h t HC. exists (length (cblog s)). rewrite E, firstn_app, Nat.sub_diag, firstn_all.
  cbn. rewrite app_nil_r. exact HC.
Qed.
Print Assumptions C21_pipeline_rollback_order.

(* the guard is what makes it true: in the LTS the roll-backward callback is enabled only
   when the pipeline is empty *)
Theorem C21_rollback_waits_for_drain : forall limit s u s',
  pipe s = true -> step limit s (LCb u) = Some s' -> inflight s = [].
Proof.
  intros limit s u s' HP Hs. cbn in Hs. destruct (hp s); try discriminate.
  rewrite HP in Hs. cbn in Hs. destruct (inflight s); [reflexivity|].
  rewrite andb_false_r in Hs. discriminate.
Qed.

(* C21_outstanding: requests sent minus replies handled (and a fortiori minus replies
   the server emitted) never exceeds max(PipelineLimit, 1). *)
Theorem C21_outstanding : forall limit p ls s,
  run limit (init_p p) ls = Some s ->
  sent s - recv s <= Nat.max limit 1 /\ recv s <= replied s /\ replied s <= sent s.
Proof.
  intros limit p ls s HR.
  destruct (inv_run limit ls (init_p p) s (inv_init limit p) HR) as (A & B & C & D).
  pose proof (L_pos limit) as LP. unfold L in *.
  destruct (sl s); lia.
Qed.
Print Assumptions C21_outstanding.

(* the counter itself stays below the limit *)
Theorem C21_counter : forall limit p ls s,
  run limit (init_p p) ls = Some s -> counter s <= Nat.max limit 1 - 1.
Proof.
  intros limit p ls s HR.
  destruct (inv_run limit ls (init_p p) s (inv_init limit p) HR) as (A & B & C & D).
  unfold L in *. destruct (sl s); lia.
Qed.

(* C21_stop (partial).  Stop() takes busyMutex, then lifecycleMutex, sends Done, closes
   readyForNextBlockChan and stops the protocol.  The only wait cycle it could close is:
   syncLoop has taken a ready signal and waits for busyMutex (held by Stop) while a
   handler holds lifecycleMutex blocked on a FULL readyForNextBlockChan.  That
   configuration is unreachable, for every limit: Stop always gets lifecycleMutex. *)
Theorem C21_stop_no_wait_cycle : forall limit p ls s,
  run limit (init_p p) ls = Some s ->
  ~ (hp s = HReady /\ sl s = SGot /\ limit <= rdy s).
Proof.
  intros limit p ls s HR (H1 & H2 & H3).
  destruct (inv_run limit ls (init_p p) s (inv_init limit p) HR) as (A & B & C & D).
  rewrite H2 in D. unfold uh in D. rewrite H1 in D. unfold L in D. lia.
Qed.
Print Assumptions C21_stop_no_wait_cycle.

(* when Stop holds busyMutex the client cannot issue further requests: syncLoop
   sends only from SSend, which it enters through LProc (under busyMutex) *)

(* non-vacuity: limit 3, two replies pipelined, the log follows *)
Example C21_nonvacuous :
  let t := {| tslot := 9; thash := []; tblock := 3 |} in
  let a := RollForward 5 [] t in let b := RollBackward 4 [] t in
  exists s, run 3 init [LSrvAwait; LSrvReply a; LDeliver; LDeliver; LCb a; LPush; LTake; LProc; LSendReq; LSendReq; LSendReq; LSendEnd;
                        LSrvReply b; LSrvReply a; LDeliver; LCb b; LPush; LDeliver; LCb a] = Some s
            /\ cblog s = [a; b; a] /\ sent s = 4 /\ recv s = 3 /\ counter s = 2.
Proof. eexists. split; [vm_compute; reflexivity|]. repeat split. Qed.

(* C21_stop refuted on the pinned tree for large limits: with limit 100 a state with more
   than 80 unanswered requests is reachable; the engine's send queue has 80 slots and is
   drained only with client agency, so Stop()'s SendMessage(Done) blocks (observed:
   known finding stop-hangs-sendqueue-full). *)
Theorem C21_stop_queue_can_fill :
  let t := {| tslot := 9; thash := []; tblock := 3 |} in
  let a := RollForward 5 [] t in
  exists ls s, run 100 init ls = Some s /\ 80 < sent s - replied s.
Proof.
  intros t a. exists ([LSrvReply a; LDeliver; LCb a; LPush; LTake; LProc] ++ repeat LSendReq 100).
  eexists. split; [vm_compute; reflexivity|]. cbn. lia.
Qed.

(* non-vacuity of the pipeline clause: two blocks in flight, the rollback waits *)
Example C21_pipeline_nonvacuous :
  let t := {| tslot := 9; thash := []; tblock := 3 |} in
  let a := RollForward 5 [] t in let b := RollBackward 4 [] t in
  exists s, run 3 (init_p true) [LSrvReply a; LDeliver; LPush; LTake; LProc; LSendReq; LSendReq; LSendReq; LSendEnd;
                                 LSrvReply a; LSrvReply b; LDeliver; LPush; LDeliver] = Some s
            /\ inflight s = [a; a] /\ hp s = HCb b /\ step 3 s (LCb b) = None
            /\ exists s', run 3 s [LApply a; LApply a; LCb b] = Some s' /\ cblog s' = [a; a; b].
Proof. eexists. split; [vm_compute; reflexivity|]. repeat split. eexists. split; vm_compute; reflexivity. Qed.

(* ======================= Stop(): "stopping the client ends the conversation cleanly" ==========
   Extended LTS of Stop.v: base LTS + the engine's send side (queue of 80, token, batches,
   queued transitions, segment hand-off) + Stop() statement by statement.  [limit] is the
   EFFECTIVE PipelineLimit (NewClient replaces 0 by 75), hence 1 <= limit. *)

(* the extension only adds guards: until readyForNextBlockChan is closed every step of the
   extended LTS is a step of the base LTS (or leaves the base state alone), so every theorem
   above holds of the extended system *)
Theorem C21_stop_refines_base : forall limit s l s',
  xstep limit s l = Some s' -> closed (k s') = false ->
  b s' = b s \/ exists bl, l = XB bl /\ step limit (b s) bl = Some (b s').
Proof. exact xstep_proj. Qed.

(* C21_stop.  For every effective limit with limit + 1 <= 80 (the send queue always has room
   for Done behind the at most [limit] queued RequestNext), every server budget (a server that
   answers everything, or falls silent at the tip at any point), every schedule: a run in
   which Stop() was called and no client-side label is enabled any more (a maximal run - the
   only thing that could still happen is nothing, or the server volunteering another update)
   has Stop returned, Protocol stopped, sendLoop / recvLoop / syncLoop gone.  If moreover the
   run satisfies the side condition [side_ok] (when Done was enqueued the send queue was empty
   and sendLoop was not inside a batch - the negation is known finding
   done-sent-without-agency; that WaitSendQueueDrained reports "drained" only after sendLoop
   handed its segment over is no longer a hypothesis: it follows from the sendInFlight flag of
   fix a8c9a5c, C21_stop_drain_after_handoff) and the 250 ms drain wait did not
   expire, then Done is on the wire, was written at a moment the client had agency, is the
   last message on the wire, and everything before it is a RequestNext. *)
Theorem C21_stop : forall limit p bud ls s,
  1 <= limit -> limit + 1 <= sendq_cap ->
  xrun limit (xinit p bud) ls = Some s ->
  tp (k s) <> TNone -> client_stuck limit s = true ->
  stopped_end s /\ (side_ok s = true -> timedout (k s) = false -> clean_end s).
Proof.
  intros limit p bud ls s L1 L2 HR NT ST.
  pose proof (reach_run limit ls L1 _ _ (reach_init limit p bud) HR) as RS.
  split; [apply (stuck_returned limit s L1 L2 RS NT ST)|].
  intros SO TO. apply (stuck_clean limit s L1 L2 RS NT ST). apply good_of_side; try assumption. apply RS.
Qed.
Print Assumptions C21_stop.

(* the queue condition also rules out the TryLock give-up: Stop always holds busyMutex *)
Theorem C21_stop_holds_busy : forall limit p bud ls s,
  1 <= limit -> limit + 1 <= sendq_cap ->
  xrun limit (xinit p bud) ls = Some s -> gaveup (k s) = false.
Proof.
  intros limit p bud ls s L1 L2 HR.
  destruct (reach_run limit ls L1 _ _ (reach_init limit p bud) HR) as (_ & _ & HQ).
  destruct HQ as (_ & _ & _ & _ & _ & _ & _ & Q7). auto.
Qed.

(* safety at EVERY moment of every run under the side condition (not only at the end): Done
   has not been written yet, or it was written with agency and nothing was written after it *)
Theorem C21_stop_done_position : forall limit p bud ls s,
  1 <= limit -> xrun limit (xinit p bud) ls = Some s ->
  side_ok s = true -> timedout (k s) = false ->
  ndone (msgs (written (e s))) = 0 \/
  exists pre, written (e s) = pre ++ [(QDone, true)] /\ all_req pre.
Proof.
  intros limit p bud ls s L1 HR SO TO.
  pose proof (reach_run limit ls L1 _ _ (reach_init limit p bud) HR) as RS.
  apply (done_position limit); [exact RS|]. apply good_of_side; try assumption. apply RS.
Qed.
Print Assumptions C21_stop_done_position.

(* sendLoop starts a batch (takes a first message with the token, no transitions queued) only
   when the client has agency on the wire: every RequestNext written so far has been answered.
   This is what the wire correspondence (check_wire) tests on the real connection. *)
Theorem C21_batch_starts_with_agency : forall limit p bud ls s,
  1 <= limit -> xrun limit (xinit p bud) ls = Some s ->
  sp (e s) = SpHeld -> qtr (e s) = [] -> agency_now s = true.
Proof.
  intros limit p bud ls s L1 HR SH QT.
  destruct (reach_run limit ls L1 _ _ (reach_init limit p bud) HR) as ((J1 & J2 & J3 & J4 & J5 & J6 & J7 & J8) & _ & _).
  specialize (J2 SH). rewrite QT, J2 in J5. unfold sa in J5. cbn in J5.
  pose proof (written_wire_le (e s)) as WL. unfold RI in J6. unfold agency_now. apply Nat.eqb_eq. lia.
Qed.

Definition upd_a : upd := RollForward 5 [] {| tslot := 9; thash := []; tblock := 3 |}.

(* non-vacuity: limit 1, Stop() while the callback of the only reply is still running
   (the client has agency): Done goes out alone, with agency, and the run ends cleanly *)
Example C21_stop_nonvacuous :
  exists s, xrun 1 (xinit false 1)
    [XTakeTok; XDeq; XBatchEnd; XSegOut; XB (LSrvReply upd_a); XB LDeliver;
     XStopCall; XStopBusy; XStopLife; XStopEnq; XTakeTok; XDeq; XBatchEnd; XSegOut; XStopDrained;
     XStopUnbusy; XStopClose; XStopProto; XStopUnlife; XSendExit; XB (LCb upd_a); XB LPush; XRecvExit;
     XSyncExit; XStopReturn] = Some s
  /\ client_stuck 1 s = true /\ side_ok s = true /\ timedout (k s) = false
  /\ wire (e s) = [(QReq, true); (QDone, true)] /\ tp (k s) = TReturned.
Proof. eexists. split; [vm_compute; reflexivity|]. repeat split. Qed.

(* known finding done-sent-without-agency as a theorem about the model: Stop() right after
   Sync() (the first RequestNext still queued): sendLoop takes RequestNext with the token and
   Done as its pipelined follower - Done is written while the request is unanswered.  Only
   [enq_clean] fails. *)
Theorem C21_stop_refuted_done_without_agency :
  exists ls s, xrun 3 (xinit false 0) ls = Some s
  /\ client_stuck 3 s = true /\ tp (k s) = TReturned
  /\ gaveup (k s) = false /\ drain_clean (k s) = true /\ timedout (k s) = false /\ enq_clean (k s) = false
  /\ wire (e s) = [(QReq, true); (QDone, false)].
Proof.
  exists [XStopCall; XStopBusy; XStopLife; XStopEnq; XTakeTok; XDeq; XDeq; XBatchEnd; XSegOut; XB LSrvAwait; XStopDrained;
          XStopUnbusy; XStopClose; XStopProto; XStopUnlife; XSendExit; XRecvExit; XSyncExit; XStopReturn].
  eexists. split; [vm_compute; reflexivity|]. repeat split.
Qed.

(* known finding stop-hangs-sendqueue-full as a theorem about the model: PipelineLimit 81, the
   server answers the first request and then sits at the tip (AwaitReply).  syncLoop has queued
   81 requests, one was written, 80 fill the queue; Stop() holds busyMutex and lifecycleMutex
   and is blocked in SendMessage(Done); no client-side label is enabled - only a further
   chain update from the server could move anything. *)
Theorem C21_stop_refuted_sendqueue_full :
  exists ls s, xrun 81 (xinit false 1) ls = Some s
  /\ client_stuck 81 s = true /\ tp (k s) = TEnq /\ sbusy (k s) = true /\ budget s = 0
  /\ length (sq (e s)) = sendq_cap.
Proof.
  exists ([XTakeTok; XDeq; XBatchEnd; XSegOut; XB (LSrvReply upd_a); XB LDeliver; XB (LCb upd_a); XB LPush; XB LTake;
           XB LProc; XTakeTok; XB LSendReq; XDeq; XBatchEnd; XSegOut] ++ repeat (XB LSendReq) 80
          ++ [XB LSendEnd; XB LSrvAwait; XB LDeliver; XStopCall; XStopBusy; XStopLife]).
  eexists. split; [vm_compute; reflexivity|]. repeat split.
Qed.

(* The drain race of the pinned tree (WaitSendQueueDrained reporting "drained" once sendLoop
   had TAKEN Done, before the segment reached the muxer; repaired by a8c9a5c) is gone: with
   Protocol.sendInFlight the flag covers the whole batch phase, so in EVERY reachable state,
   whenever Stop() observed "drained", sendLoop had already handed the batch over ... *)
Theorem C21_stop_drain_after_handoff : forall limit p bud ls s,
  1 <= limit -> xrun limit (xinit p bud) ls = Some s ->
  drain_clean (k s) = true /\ (in_batch (sp (e s)) = true -> infl (e s) = true).
Proof.
  intros limit p bud ls s L1 HR.
  destruct (reach_run limit ls L1 _ _ (reach_init limit p bud) HR) as ((_ & _ & _ & _ & _ & _ & _ & _ & J9 & J10) & _ & _).
  split; assumption.
Qed.

(* ... and the schedule that lost Done on the pinned tree (Done taken, "drained" observed, stopChan
   closed, sendLoop returns with the segment in hand) is not a run of the model any more: the
   XStopDrained step is refused while the batch is in flight *)
Example C21_stop_drain_race_closed :
  xrun 1 (xinit false 1)
    [XTakeTok; XDeq; XBatchEnd; XSegOut; XB (LSrvReply upd_a); XB LDeliver;
     XStopCall; XStopBusy; XStopLife; XStopEnq; XTakeTok; XDeq; XStopDrained] = None
  /\ exists s, xrun 1 (xinit false 1)
    [XTakeTok; XDeq; XBatchEnd; XSegOut; XB (LSrvReply upd_a); XB LDeliver;
     XStopCall; XStopBusy; XStopLife; XStopEnq; XTakeTok; XDeq] = Some s
     /\ enabled 1 s XStopDrained = false /\ enabled 1 s XBatchEnd = true.
Proof. split; [vm_compute; reflexivity|]. eexists. split; [vm_compute; reflexivity|]. split; reflexivity. Qed.

(* RequestNext behind Done.  Under the hypotheses of C21_stop it is impossible at every state
   (C21_stop_done_position: Done is the LAST written message): Stop() holds busyMutex until
   "drained", "drained" now implies the batch with Done was handed over, and after Done's
   transition (state Done, no agency) sendLoop never gets a token again.  It remains possible
   ONLY when the 250 ms drain wait expires with Done still queued (timedout = true, outside
   C21_stop's Done clause): busyMutex.Unlock() lets a syncLoop that already took its ready
   signal queue requests behind Done before Protocol.Stop() closes stopChan; if sendLoop gets
   its token in that window the requests are pipelined behind Done.  In the code this needs
   sendLoop to be starved for the whole 250 ms although it holds agency. *)
Example C21_stop_timeout_request_behind_done :
  exists s, xrun 1 (xinit false 1)
    [XTakeTok; XDeq; XBatchEnd; XSegOut; XB (LSrvReply upd_a); XB LDeliver; XB (LCb upd_a); XB LPush; XB LTake;
     XStopCall; XStopBusy; XStopLife; XStopEnq; XStopDrainTimeout; XStopUnbusy;
     XB LProc; XB LSendReq; XTakeTok; XDeq; XDeq; XBatchEnd; XSegOut] = Some s
  /\ timedout (k s) = true /\ side_ok s = true
  /\ wire (e s) = [(QReq, true); (QDone, true); (QReq, true)].
Proof. eexists. split; [vm_compute; reflexivity|]. repeat split. Qed.

(* when the 250 ms drain wait expires (server silent at the tip with a request outstanding)
   Stop() tears the protocol down without Done: nothing at all is written after that *)
Example C21_stop_silent_at_tip :
  exists s, xrun 1 (xinit false 0)
    [XTakeTok; XDeq; XBatchEnd; XSegOut; XB LSrvAwait; XB LDeliver;
     XStopCall; XStopBusy; XStopLife; XStopEnq; XStopDrainTimeout; XStopUnbusy; XStopClose; XStopProto; XStopUnlife;
     XSendExit; XRecvExit; XSyncExit; XStopReturn] = Some s
  /\ client_stuck 1 s = true /\ tp (k s) = TReturned /\ timedout (k s) = true /\ wire (e s) = [(QReq, true)].
Proof. eexists. split; [vm_compute; reflexivity|]. repeat split. Qed.

(* ======================= termination: every run extends to a maximal run =====================
   StopTermination.v: the natural number [measure] (weighted sum of the server's remaining
   budget, undelivered messages, handler / syncLoop / sendLoop program counters, ready signals,
   queued messages and transitions, the send token, Stop's remaining statements) strictly
   decreases on EVERY step of the extended LTS - server steps included; there is no loop to
   assume fair (the TryLock polling of Stop() is not a label).  Hence: *)
Theorem C21_stop_measure_decreases : forall limit s l s',
  xstep limit s l = Some s' -> measure limit s' < measure limit s.
Proof. exact measure_step. Qed.
Print Assumptions C21_stop_measure_decreases.

(* C21_stop_total.  For every effective limit with limit + 1 <= 80, every server budget, every
   run from the state where Sync() returns: (a) the run is finite - its length is bounded by
   the measure of the initial state; (b) it extends to a maximal run (a state in which NO label
   at all is enabled, the server's included); (c) in EVERY maximal extension Stop() has been
   called (calling it is always possible) and has returned, stopChan is closed, sendLoop /
   recvLoop / syncLoop are gone, and - under [side_ok], if the 250 ms drain wait did not expire -
   Done is on the wire, written with agency, the last message. *)
Theorem C21_stop_total : forall limit p bud ls s,
  1 <= limit -> limit + 1 <= sendq_cap ->
  xrun limit (xinit p bud) ls = Some s ->
  length ls <= measure limit (xinit p bud)
  /\ (exists ls' s', xrun limit s ls' = Some s' /\ terminal limit s')
  /\ (forall ls' s', xrun limit s ls' = Some s' -> terminal limit s' ->
        tp (k s') <> TNone /\ stopped_end s'
        /\ (side_ok s' = true -> timedout (k s') = false -> clean_end s')).
Proof.
  intros limit p bud ls s L1 L2 HR. split; [|split].
  - pose proof (run_bounded limit ls _ _ HR). lia.
  - apply (maximal_run_exists limit (measure limit s)). lia.
  - intros ls' s' HR' T. destruct (terminal_stuck limit s' T) as [ST NT].
    pose proof (xrun_app limit ls ls' _ _ _ HR HR') as HR2.
    destruct (C21_stop limit p bud (ls ++ ls') s' L1 L2 HR2 NT ST) as [A B]. auto.
Qed.
Print Assumptions C21_stop_total.

(* ======================= the queue condition at its boundary: limit = 80 ======================
   C21_stop assumes limit + 1 <= 80; limit 81 is refuted (C21_stop_refuted_sendqueue_full).
   limit = 80 is decided here: it is fine.  With 80 requests queued the queue is full and
   SendMessage(Done) blocks, but 80 unwritten requests mean that every earlier request was
   answered and delivered: the engine is in Idle, the send token exists (StopCap.TokI) and
   sendLoop takes a request out - Stop() is delayed, never stuck.  The TryLock loop never gives
   up either (inside its request loop syncLoop has fewer than 80 queued).  So the proved range
   is exactly 1 <= limit <= 80 and the refuted range starts at 81. *)
Theorem C21_stop_cap : forall limit p bud ls s,
  1 <= limit -> limit <= sendq_cap ->
  xrun limit (xinit p bud) ls = Some s ->
  tp (k s) <> TNone -> client_stuck limit s = true ->
  gaveup (k s) = false /\ stopped_end s /\ (side_ok s = true -> timedout (k s) = false -> clean_end s).
Proof.
  intros limit p bud ls s L1 L2 HR NT ST.
  destruct (cap_run limit ls L1 L2 _ _ (reach_init limit p bud) (TokI_init p bud) eq_refl HR) as (RS & HT & GU).
  split; [exact GU|split].
  - apply (stuck_returned_cap limit s L1 L2 RS HT GU NT ST).
  - intros SO TO. apply (stuck_clean_cap limit s L1 L2 RS HT GU NT ST). apply good_of_side; try assumption. apply RS.
Qed.
Print Assumptions C21_stop_cap.

(* ... and the total version for the whole range 1..80 *)
Theorem C21_stop_total_cap : forall limit p bud ls s,
  1 <= limit -> limit <= sendq_cap ->
  xrun limit (xinit p bud) ls = Some s ->
  length ls <= measure limit (xinit p bud)
  /\ (exists ls' s', xrun limit s ls' = Some s' /\ terminal limit s')
  /\ (forall ls' s', xrun limit s ls' = Some s' -> terminal limit s' ->
        tp (k s') <> TNone /\ stopped_end s'
        /\ (side_ok s' = true -> timedout (k s') = false -> clean_end s')).
Proof.
  intros limit p bud ls s L1 L2 HR. split; [|split].
  - pose proof (run_bounded limit ls _ _ HR). lia.
  - apply (maximal_run_exists limit (measure limit s)). lia.
  - intros ls' s' HR' T. destruct (terminal_stuck limit s' T) as [ST NT].
    pose proof (xrun_app limit ls ls' _ _ _ HR HR') as HR2.
    destruct (C21_stop_cap limit p bud (ls ++ ls') s' L1 L2 HR2 NT ST) as (_ & A & B). auto.
Qed.
Print Assumptions C21_stop_total_cap.

(* non-vacuity at the boundary: limit 80, the queue really is full when Stop() wants to
   enqueue Done (XStopEnq refused), and sendLoop can move *)
Example C21_stop_cap_full_but_not_stuck :
  exists s, xrun 80 (xinit false 1)
    ([XTakeTok; XDeq; XBatchEnd; XSegOut; XB (LSrvReply upd_a); XB LDeliver; XB (LCb upd_a); XB LPush; XB LTake; XB LProc]
     ++ repeat (XB LSendReq) 80 ++ [XB LSendEnd; XStopCall; XStopBusy; XStopLife]) = Some s
  /\ length (sq (e s)) = sendq_cap /\ enabled 80 s XStopEnq = false /\ enabled 80 s XTakeTok = true.
Proof. eexists. split; [vm_compute; reflexivity|]. repeat split. Qed.
