(* C21 - invariants of the chain-sync client LTS, for every label sequence. *)
From V Require Import Lib.Base C21.Model.

Local Arguments Nat.ltb : simpl never.
Local Arguments Nat.leb : simpl never.
Local Arguments Nat.max : simpl never.
Local Arguments Nat.sub : simpl never.
Definition uh (s : st) : nat := match hp s with HIdle => 0 | _ => 1 end.

Section Limit.
Variable limit : nat.
Notation L := (L limit).

Definition Inv (s : st) : Prop :=
  replied s = recv s + length (replies_of (inq s)) /\ replied s <= sent s /\ rdy s <= limit /\
  match sl s with
  | SWait => sent s + rdy s + uh s = recv s + counter s + 1 /\ counter s <= L - 1
  | SGot => sent s + rdy s + uh s + 1 = recv s + counter s + 1 /\ counter s <= L - 1
  | SSend k => sent s + rdy s + uh s + k = recv s + L /\ counter s = 0 /\ k <= L
  end.

Lemma L_pos : 1 <= L.
Proof. unfold Model.L. lia. Qed.

Lemma replies_of_app a b : replies_of (a ++ b) = replies_of a ++ replies_of b.
Proof. unfold replies_of. apply flat_map_app. Qed.

Lemma ro_snoc_await l : replies_of (l ++ [Await]) = replies_of l.
Proof. rewrite replies_of_app. cbn. apply app_nil_r. Qed.
Lemma ro_snoc_reply l u : replies_of (l ++ [Reply u]) = replies_of l ++ [u].
Proof. rewrite replies_of_app. reflexivity. Qed.
Lemma ro_cons_await l : replies_of (Await :: l) = replies_of l.
Proof. reflexivity. Qed.
Lemma ro_cons_reply l u : replies_of (Reply u :: l) = u :: replies_of l.
Proof. reflexivity. Qed.
Local Arguments replies_of : simpl never.

Ltac crush_step H :=
  repeat match type of H with
  | match ?x with _ => _ end = Some _ => destruct x eqn:?; try discriminate H
  | (if ?x then _ else _) = Some _ => destruct x eqn:?; try discriminate H
  end;
  try (injection H as <-).

Lemma inv_init : Inv init.
Proof. unfold Inv, init, uh, replies_of; cbn. pose proof L_pos. lia. Qed.

Lemma inv_step s l s' : Inv s -> step limit s l = Some s' -> Inv s'.
Proof.
  intros (A & B & C & D) Hs. pose proof L_pos as LP.
  destruct s as [sent0 replied0 awaited0 inq0 hist0 dlv0 hp0 rdy0 sl0 counter0 recv0 cblog0].
  unfold uh in *. cbn in A, B, C, D.
  destruct l; cbn in Hs; crush_step Hs; subst; unfold Inv, uh; cbn;
    rewrite ?ro_snoc_await, ?ro_snoc_reply, ?ro_cons_await, ?ro_cons_reply, ?app_length in *; cbn [length] in *;
    repeat match goal with
    | H : (_ <? _) = true |- _ => apply Nat.ltb_lt in H
    | H : (_ <? _) = false |- _ => apply Nat.ltb_ge in H
    | H : _ && _ = true |- _ => apply andb_true_iff in H; destruct H
    end;
    cbn in D; try lia; try (destruct sl0; cbn in D; cbn; lia).
  all: match goal with H : limit = 0 |- _ => rewrite H end; lia.
Qed.

Lemma inv_run ls : forall s s', Inv s -> run limit s ls = Some s' -> Inv s'.
Proof.
  induction ls as [|l r IH]; intros s s' HI HR; cbn in HR.
  - injection HR as <-. exact HI.
  - destruct (step limit s l) as [s1|] eqn:E; [|discriminate]. eapply IH; [eapply inv_step; eauto|exact HR].
Qed.

(* callbacks *)
Definition pend (h : hpc) : list upd := match h with HCb u => [u] | _ => [] end.
Definition KInv (s : st) : Prop :=
  cblog s ++ pend (hp s) = replies_of (dlv s) /\ dlv s ++ inq s = hist s.

Lemma upd_eqb_eq a b : upd_eqb a b = true -> a = b.
Proof.
  assert (T : forall x y, tip_eqb x y = true -> x = y).
  { intros [a1 a2 a3] [b1 b2 b3]. unfold tip_eqb; cbn. rewrite !andb_true_iff, !N.eqb_eq, bytes_eqb_eq.
    intros [[-> ->] ->]. reflexivity. }
  destruct a as [s h t|s h t], b as [s' h' t'|s' h' t']; cbn; try discriminate;
    rewrite !andb_true_iff, N.eqb_eq, bytes_eqb_eq; intros [[-> ->] E]; apply T in E; subst; reflexivity.
Qed.

Lemma kinv_step s l s' : KInv s -> step limit s l = Some s' -> KInv s'.
Proof.
  intros (A & B) Hs.
  destruct s as [sent0 replied0 awaited0 inq0 hist0 dlv0 hp0 rdy0 sl0 counter0 recv0 cblog0].
  cbn in A, B.
  destruct l; cbn in Hs; crush_step Hs; subst; unfold KInv; cbn in *;
    rewrite ?ro_snoc_await, ?ro_snoc_reply, ?ro_cons_await, ?ro_cons_reply, ?app_nil_r in *; cbn; rewrite ?app_nil_r;
    try (split; [assumption|]); try (split; [|assumption]); try (split; assumption).
  all: try (rewrite app_assoc; reflexivity).
  all: try (rewrite <- app_assoc; reflexivity).
  all: try (rewrite <- A; rewrite ?app_nil_r; reflexivity).
  all: try (split; [congruence|]; rewrite <- app_assoc; reflexivity).
Qed.

Lemma kinv_run ls : forall s s', KInv s -> run limit s ls = Some s' -> KInv s'.
Proof.
  induction ls as [|l r IH]; intros s s' HI HR; cbn in HR.
  - injection HR as <-. exact HI.
  - destruct (step limit s l) as [s1|] eqn:E; [|discriminate]. eapply IH; [eapply kinv_step; eauto|exact HR].
Qed.
End Limit.
