(* C21 - invariants of the chain-sync client LTS, for every label sequence. *)
From V Require Import Lib.Base C21.Model.

Local Arguments Nat.ltb : simpl never.
Local Arguments Nat.leb : simpl never.
Local Arguments Nat.max : simpl never.
Local Arguments Nat.sub : simpl never.
Definition uh (s : st) : nat := match hp s with HIdle => 0 | _ => 1 end.

Section Limit.
Variable limit : nat.
Notation L := (L limit).

Definition Inv (s : st) : Prop :=
  replied s = recv s + length (replies_of (inq s)) /\ replied s <= sent s /\ rdy s <= limit /\
  match sl s with
  | SWait => sent s + rdy s + uh s = recv s + counter s + 1 /\ counter s <= L - 1
  | SGot => sent s + rdy s + uh s + 1 = recv s + counter s + 1 /\ counter s <= L - 1
  | SSend k => sent s + rdy s + uh s + k = recv s + L /\ counter s = 0 /\ k <= L
  end.

Lemma L_pos : 1 <= L.
Proof. unfold Model.L. lia. Qed.

Lemma replies_of_app a b : replies_of (a ++ b) = replies_of a ++ replies_of b.
Proof. unfold replies_of. apply flat_map_app. Qed.

Lemma ro_snoc_await l : replies_of (l ++ [Await]) = replies_of l.
Proof. rewrite replies_of_app. cbn. apply app_nil_r. Qed.
Lemma ro_snoc_reply l u : replies_of (l ++ [Reply u]) = replies_of l ++ [u].
Proof. rewrite replies_of_app. reflexivity. Qed.
Lemma ro_cons_await l : replies_of (Await :: l) = replies_of l.
Proof. reflexivity. Qed.
Lemma ro_cons_reply l u : replies_of (Reply u :: l) = u :: replies_of l.
Proof. reflexivity. Qed.
Local Arguments replies_of : simpl never.

Ltac crush_step H :=
  repeat match type of H with
  | match ?x with _ => _ end = Some _ => destruct x eqn:?; try discriminate H
  | (if ?x then _ else _) = Some _ => destruct x eqn:?; try discriminate H
  end;
  try (injection H as <-).

Lemma inv_init p : Inv (init_p p).
Proof. unfold Inv, init_p, uh, replies_of; cbn. pose proof L_pos. lia. Qed.

Lemma inv_step s l s' : Inv s -> step limit s l = Some s' -> Inv s'.
Proof.
  intros (A & B & C & D) Hs. pose proof L_pos as LP.
  destruct s as [sent0 replied0 awaited0 inq0 hist0 dlv0 hp0 rdy0 sl0 counter0 recv0 cblog0 pipe0 inflight0].
  unfold uh in *. cbn in A, B, C, D.
  destruct l; cbn in Hs; crush_step Hs; subst; unfold Inv, uh; cbn;
    rewrite ?ro_snoc_await, ?ro_snoc_reply, ?ro_cons_await, ?ro_cons_reply, ?app_length in *; cbn [length] in *;
    repeat match goal with
    | H : (_ <? _) = true |- _ => apply Nat.ltb_lt in H
    | H : (_ <? _) = false |- _ => apply Nat.ltb_ge in H
    | H : _ && _ = true |- _ => apply andb_true_iff in H; destruct H
    end;
    cbn in D; try lia; try (destruct sl0; cbn in D; cbn; lia).
  all: match goal with H : limit = 0 |- _ => rewrite H end; lia.
Qed.

Lemma inv_run ls : forall s s', Inv s -> run limit s ls = Some s' -> Inv s'.
Proof.
  induction ls as [|l r IH]; intros s s' HI HR; cbn in HR.
  - injection HR as <-. exact HI.
  - destruct (step limit s l) as [s1|] eqn:E; [|discriminate]. eapply IH; [eapply inv_step; eauto|exact HR].
Qed.

(* callbacks *)
Definition pend (h : hpc) : list upd := match h with HCb u => [u] | _ => [] end.
(* the merged log of RollForwardFunc / ApplyFunc / RollBackwardFunc calls, then what the
   pipeline still holds (in sequence order), then the callback the handler is about to
   make: together exactly the updates taken so far, in the server's order *)
Definition KInv (s : st) : Prop :=
  cblog s ++ inflight s ++ pend (hp s) = replies_of (dlv s) /\ dlv s ++ inq s = hist s
  /\ (pipe s = false -> inflight s = []).

Lemma upd_eqb_eq a b : upd_eqb a b = true -> a = b.
Proof.
  assert (T : forall x y, tip_eqb x y = true -> x = y).
  { intros [a1 a2 a3] [b1 b2 b3]. unfold tip_eqb; cbn. rewrite !andb_true_iff, !N.eqb_eq, bytes_eqb_eq.
    intros [[-> ->] ->]. reflexivity. }
  destruct a as [s h t|s h t], b as [s' h' t'|s' h' t']; cbn; try discriminate;
    rewrite !andb_true_iff, N.eqb_eq, bytes_eqb_eq; intros [[-> ->] E]; apply T in E; subst; reflexivity.
Qed.

Lemma kinv_step s l s' : KInv s -> step limit s l = Some s' -> KInv s'.
Proof.
  intros (A & B & P) Hs.
  destruct s as [sent0 replied0 awaited0 inq0 hist0 dlv0 hp0 rdy0 sl0 counter0 recv0 cblog0 pipe0 inflight0].
  cbn in A, B, P.
  destruct l; cbn in Hs; crush_step Hs; subst; unfold KInv; cbn [cblog inflight hp dlv inq hist pipe pend] in *;
    rewrite ?ro_snoc_await, ?ro_snoc_reply, ?app_nil_r in *.
  all: try (repeat split; try assumption; try (rewrite <- app_assoc; reflexivity); fail).
  - (* LDeliver, pipeline submit *)
    repeat split.
    + rewrite app_assoc. rewrite A. reflexivity.
    + rewrite <- app_assoc. reflexivity.
    + intros E. apply andb_true_iff in Heqb as [E1 _]. congruence.
  - (* LDeliver, handler callback pending *)
    repeat split; auto.
    + rewrite app_assoc. rewrite A. reflexivity.
    + rewrite <- app_assoc. reflexivity.
  - (* LCb: nothing in flight *)
    apply andb_true_iff in Heqb as [_ G].
    assert (inflight0 = []) as ->.
    { destruct pipe0; cbn in G; [destruct inflight0; [reflexivity|discriminate]|auto]. }
    cbn in *. rewrite app_nil_r. repeat split; auto.
  - (* LApply *)
    repeat split; auto.
    + rewrite <- app_assoc. exact A.
    + intros E. specialize (P E). discriminate.
Qed.

Lemma kinv_init p : KInv (init_p p).
Proof. repeat split. Qed.

Lemma kinv_run ls : forall s s', KInv s -> run limit s ls = Some s' -> KInv s'.
Proof.
  induction ls as [|l r IH]; intros s s' HI HR; cbn in HR.
  - injection HR as <-. exact HI.
  - destruct (step limit s l) as [s1|] eqn:E; [|discriminate]. eapply IH; [eapply kinv_step; eauto|exact HR].
Qed.
End Limit.
