(* C21 - termination of the extended LTS of Stop.v: a natural-number measure that strictly
   decreases on EVERY step (server, handlers, syncLoop, sendLoop, Stop), hence every run is
   finite (bounded by the measure of its first state) and every state has a maximal run.
   There is no livelock to assume away: the TryLock polling of Stop() is not a label (XStopBusy
   is simply not enabled while syncLoop holds busyMutex), and the server's budget of chain
   updates is finite. *)
From V Require Import Lib.Base C21.Model C21.Proofs C21.Stop C21.StopProofs.

Local Arguments Nat.ltb : simpl never.
Local Arguments Nat.leb : simpl never.
Local Arguments Nat.eqb : simpl never.
Local Arguments Nat.max : simpl never.
Local Arguments Nat.mul : simpl never.

Section Limit.
Variable limit : nat.
Notation L := (Model.L limit).

(* what one unit of each resource can still cause *)
Fixpoint inqw (l : list smsg) : nat :=
  match l with
  | [] => 0
  | Await :: r => 1 + inqw r
  | Reply _ :: r => (3 * L + 8) + inqw r
  end.
Definition hpw (h : hpc) : nat := match h with HIdle => 0 | HReady => 3 * L + 4 | HCb _ => 3 * L + 5 end.
Definition slw (s : spc) : nat := match s with SWait => 0 | SGot => 3 * L + 2 | SSend n => 3 * n + 1 end.
Definition spw (p : sphase) : nat :=
  match p with SpDead => 0 | SpWait => 1 | SpFail => 1 | SpHeld => 2 | SpSeg => 2 | SpBatch _ => 3 end.
Definition tpw (t : stopph) : nat :=
  match t with
  | TNone => 10 | TTry => 9 | TLife => 8 | TEnq => 7 | TDrain => 6 | TUnbusy => 5 | TClose => 4
  | TPStop => 3 | TUnlife => 2 | TWaitDone => 1 | TReturned => 0
  end.
Definition b2n (x : bool) : nat := if x then 1 else 0.

Definition measure (s : xst) : nat :=
  let B := b s in let E := e s in let K := k s in
  (3 * L + 11) * budget s + 2 * b2n (negb (awaited B)) + inqw (inq B) + hpw (hp B) + length (inflight B)
  + (3 * L + 3) * rdy B + slw (sl B) + b2n (negb (sldead K))
  + 2 * length (sq E) + length (qtr E) + 2 * b2n (tok E) + spw (sp E) + b2n (negb (rdead K)) + 3 * tpw (tp K).

Lemma inqw_app a c : inqw (a ++ c) = inqw a + inqw c.
Proof. induction a as [|[|u] a IH]; cbn [inqw app]; lia. Qed.

Lemma measure_step s l s' : xstep limit s l = Some s' -> measure s' < measure s.
Proof.
  intros Hs.
  destruct s as [B bud [sq0 qtr0 cur0 tok0 sp0 batch0 wire0 dropped0 infl0]
                 [tp0 sbusy0 closed0 pstop0 sldead0 rdead0 timedout0 gaveup0 enq_clean0 drain_clean0]].
  destruct B as [sent0 replied0 awaited0 inq0 hist0 dlv0 hp0 rdy0 sl0 counter0 recv0 cblog0 pipe0 inflight0].
  destruct l as [bl| | | | | | | | | | | | | | | | | | | | | |]; cbn in Hs;
    [destruct bl; cbn in Hs|..]; crush Hs;
    repeat match goal with H : _ = Some ?x |- _ => is_var x; progress (crush H) end; boolfacts; subst; unfold measure;
    cbn [Stop.b Stop.e Stop.k budget sq qtr cur tok sp batch wire dropped infl mk push_sq set_sp set_tp set_hp
         tp sbusy closed pstop sldead rdead sent replied awaited inq hist dlv hp rdy sl counter recv cblog pipe inflight
         hpw slw spw tpw b2n negb];
    rewrite ?inqw_app, ?app_length; cbn [inqw length hpw slw spw tpw b2n negb];
    try (destruct awaited0; cbn [b2n negb]); try (destruct tok0; cbn [b2n negb]); try lia; try nia.
Qed.

(* every run is finite: its length is bounded by the measure of its first state *)
Lemma run_bounded ls : forall s s', xrun limit s ls = Some s' -> length ls + measure s' <= measure s.
Proof.
  induction ls as [|l r IH]; intros s s' HR; cbn in HR.
  - injection HR as <-. cbn. lia.
  - destruct (xstep limit s l) as [s1|] eqn:E; [|discriminate].
    pose proof (measure_step _ _ _ E). specialize (IH _ _ HR). cbn [length]. lia.
Qed.

Lemma xrun_app a : forall c s s1 s2, xrun limit s a = Some s1 -> xrun limit s1 c = Some s2 -> xrun limit s (a ++ c) = Some s2.
Proof.
  induction a as [|l r IH]; intros c s s1 s2 H1 H2; cbn in *.
  - injection H1 as <-. exact H2.
  - destruct (xstep limit s l) as [s'|]; [|discriminate]. eapply IH; eauto.
Qed.

(* no label at all is enabled (neither client-side nor the server's) *)
Definition terminal (s : xst) : Prop := forall l, xstep limit s l = None.

Definition u0 : upd := RollForward 0 [] {| tslot := 0; thash := []; tblock := 0 |}.
Definition all_candidates (s : xst) : list xlabel := XB (LSrvReply u0) :: candidates s.

(* the candidate list is complete: if any label is enabled, a candidate is *)
Lemma candidates_complete s l s' : xstep limit s l = Some s' ->
  exists l', In l' (all_candidates s) /\ enabled limit s l' = true.
Proof.
  intros Hs.
  assert (FIX : forall l0, In l0 [XB LSrvAwait; XB LDeliver; XB LPush; XB LTake; XB LProc; XB LSendReq; XB LSendEnd;
     XTakeTok; XQueuedTr; XDeq; XBatchEnd; XSegOut; XSendExit; XSendFail; XRecvExit; XSyncExit; XSendReqFail;
     XStopCall; XStopBusy; XStopBusyTimeout; XStopLife; XStopEnq; XStopDrained; XStopDrainTimeout; XStopUnbusy;
     XStopClose; XStopProto; XStopUnlife; XStopReturn] -> In l0 (all_candidates s)).
  { intros l0 H. right. unfold candidates. apply in_or_app. left. exact H. }
  assert (SELF : In l (all_candidates s) -> exists l', In l' (all_candidates s) /\ enabled limit s l' = true).
  { intros HI. exists l. split; [exact HI|]. unfold enabled. rewrite Hs. reflexivity. }
  destruct l as [bl| | | | | | | | | | | | | | | | | | | | | |]; try (apply SELF, FIX; cbn; tauto).
  destruct bl; try (apply SELF, FIX; cbn; tauto).
  - (* LSrvReply u: enabledness does not depend on u *)
    exists (XB (LSrvReply u0)). split; [left; reflexivity|]. unfold enabled. cbn in Hs |- *.
    destruct (budget s); [discriminate Hs|].
    destruct (replied (b s) <? nreq (msgs (wire (e s)))); [|discriminate Hs].
    unfold step in Hs |- *. destruct (replied (b s) <? sent (b s)); [reflexivity|discriminate Hs].
  - (* LCb u: only the update in the handler *)
    change (xstep limit s (XB (LCb u))) with (match step limit (b s) (LCb u) with Some B' => Some (mk s B' (e s) (k s)) | None => None end) in Hs.
    destruct (step limit (b s) (LCb u)) eqn:SB; [|discriminate Hs]. unfold step in SB.
    destruct (hp (b s)) eqn:HP; try discriminate SB.
    destruct (upd_eqb u u1 && (negb (pipe (b s)) || match inflight (b s) with [] => true | _ => false end)) eqn:G; [|discriminate SB].
    apply andb_true_iff in G. destruct G as [G1 G2].
    exists (XB (LCb u1)). split.
    + right. unfold candidates. apply in_or_app. right. apply in_or_app. left. rewrite HP. left. reflexivity.
    + unfold enabled. cbn. unfold step. rewrite HP, upd_eqb_refl, G2. reflexivity.
  - (* LApply u: only the head of the pipeline *)
    change (xstep limit s (XB (LApply u))) with (match step limit (b s) (LApply u) with Some B' => Some (mk s B' (e s) (k s)) | None => None end) in Hs.
    destruct (step limit (b s) (LApply u)) eqn:SB; [|discriminate Hs]. unfold step in SB.
    destruct (inflight (b s)) as [|u1 r] eqn:IF; [discriminate SB|].
    exists (XB (LApply u1)). split.
    + right. unfold candidates. apply in_or_app. right. apply in_or_app. right. rewrite IF. left. reflexivity.
    + unfold enabled. cbn. unfold step. rewrite IF, upd_eqb_refl. reflexivity.
Qed.

Lemma terminal_or_step s : terminal s \/ exists l s', xstep limit s l = Some s'.
Proof.
  destruct (existsb (enabled limit s) (all_candidates s)) eqn:E.
  - right. apply existsb_exists in E. destruct E as (l & _ & H). unfold enabled in H.
    destruct (xstep limit s l) as [s'|] eqn:X; [|discriminate]. eauto.
  - left. intros l. destruct (xstep limit s l) as [s'|] eqn:X; [|reflexivity]. exfalso.
    destruct (candidates_complete _ _ _ X) as (l' & HI & HE).
    assert (existsb (enabled limit s) (all_candidates s) = true) by (apply existsb_exists; eauto). congruence.
Qed.

(* every state has a maximal run *)
Lemma maximal_run_exists n : forall s, measure s <= n -> exists ls s', xrun limit s ls = Some s' /\ terminal s'.
Proof.
  induction n as [|n IH]; intros s HM.
  - destruct (terminal_or_step s) as [T|(l & s' & X)].
    + exists [], s. split; [reflexivity|exact T].
    + pose proof (measure_step _ _ _ X). lia.
  - destruct (terminal_or_step s) as [T|(l & s1 & X)].
    + exists [], s. split; [reflexivity|exact T].
    + pose proof (measure_step _ _ _ X) as LT. destruct (IH s1 ltac:(lia)) as (ls & s' & R & T).
      exists (l :: ls), s'. split; [cbn; rewrite X; exact R|exact T].
Qed.

Lemma terminal_stuck s : terminal s -> client_stuck limit s = true /\ tp (k s) <> TNone.
Proof.
  intros T. split.
  - unfold client_stuck. apply forallb_forall. intros l _. unfold enabled. rewrite (T l). reflexivity.
  - intros E. specialize (T XStopCall). cbn in T. rewrite E in T. discriminate.
Qed.
End Limit.
