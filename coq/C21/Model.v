(* C21 - chain-sync client logic (protocol/chainsync/client.go) as a labelled
   transition system: syncLoop with the pipelined RequestNext counter, the
   readyForNextBlock hand-off channel (capacity = PipelineLimit, unbuffered when
   the limit is 0), the RollForward / RollBackward / AwaitReply handlers run by
   the engine's recvLoop, and a protocol-conforming server that answers only
   requests it has received.  The LTS starts where Sync() returns: intersect
   found, the initial RequestNext sent, syncPipelinedRequestNext = 0, syncLoop
   started.

   Abstractions: SendMessage = written to the wire (the engine may write a
   pipelined request later, never earlier, so an upper bound on queued requests
   is an upper bound on the wire); user callbacks return nil; no block pipeline
   (config.Pipeline = nil); Stop is not a label (see C21_stop_no_wait_cycle). *)
From V Require Import Lib.Base.

(* a chain update as the callbacks see it: kind, slot, hash, tip (slot, hash, block number) *)
Record tipT := { tslot : N; thash : bytes; tblock : N }.
Inductive upd := RollForward (slot : N) (hash : bytes) (t : tipT) | RollBackward (slot : N) (hash : bytes) (t : tipT).
Inductive smsg := Await | Reply (u : upd).

Inductive hpc := HIdle | HCb (u : upd) (* about to call RollForwardFunc / RollBackwardFunc *)
               | HReady.                (* about to signal readyForNextBlockChan <- true *)
Inductive spc := SWait               (* select on readyForNextBlockChan *)
               | SGot                (* received true; at busyMutex.Lock() / counter test *)
               | SSend (k : nat).    (* in the request loop, k SendMessage calls to go *)

Record st := {
  sent : nat;          (* RequestNext messages sent (the initial one included) *)
  replied : nat;       (* RollForward/RollBackward messages emitted by the server *)
  awaited : bool;      (* the server has sent AwaitReply for the request it is answering *)
  inq : list smsg;     (* server messages not yet taken by recvLoop, FIFO *)
  hist : list smsg;    (* ghost: everything the server emitted *)
  dlv : list smsg;     (* ghost: everything recvLoop has taken *)
  hp : hpc;
  rdy : nat;           (* values buffered in readyForNextBlockChan *)
  sl : spc;
  counter : nat;       (* syncPipelinedRequestNext *)
  recv : nat;          (* RollForward/RollBackward messages handled *)
  cblog : list upd;    (* callbacks invoked: RollForwardFunc / pipeline ApplyFunc / RollBackwardFunc, merged *)
  pipe : bool;         (* config.Pipeline != nil (constant) *)
  inflight : list upd  (* blocks submitted to the block pipeline and not yet applied, in sequence order *)
}.

Inductive label :=
| LSrvAwait | LSrvReply (u : upd)      (* server *)
| LDeliver | LCb (u : upd) | LPush      (* recvLoop / handler *)
| LApply (u : upd)                      (* block pipeline: ApplyFunc, in sequence order *)
| LTake | LProc | LSendReq | LSendEnd.  (* syncLoop *)

Definition tip_eqb (a b : tipT) := N.eqb (tslot a) (tslot b) && bytes_eqb (thash a) (thash b) && N.eqb (tblock a) (tblock b).
Definition upd_eqb (a b : upd) :=
  match a, b with
  | RollForward s h t, RollForward s' h' t' => N.eqb s s' && bytes_eqb h h' && tip_eqb t t'
  | RollBackward s h t, RollBackward s' h' t' => N.eqb s s' && bytes_eqb h h' && tip_eqb t t'
  | _, _ => false
  end.

Definition is_forward (u : upd) : bool := match u with RollForward _ _ _ => true | _ => false end.

Section Limit.
Variable limit : nat.                       (* config.PipelineLimit *)
Definition L := Nat.max limit 1.             (* msgCount := max(c.config.PipelineLimit, 1) *)

Definition step (s : st) (l : label) : option st :=
  match l with
  | LSrvAwait =>
      if (replied s <? sent s) && negb (awaited s) then
        Some {| sent := sent s; replied := replied s; awaited := true; inq := inq s ++ [Await]; hist := hist s ++ [Await];
                dlv := dlv s; hp := hp s; rdy := rdy s; sl := sl s; counter := counter s; recv := recv s; cblog := cblog s;
                  pipe := pipe s; inflight := inflight s |}
      else None
  | LSrvReply u =>
      if replied s <? sent s then
        Some {| sent := sent s; replied := S (replied s); awaited := false; inq := inq s ++ [Reply u];
                hist := hist s ++ [Reply u]; dlv := dlv s; hp := hp s; rdy := rdy s; sl := sl s;
                counter := counter s; recv := recv s; cblog := cblog s;
                  pipe := pipe s; inflight := inflight s |}
      else None
  | LDeliver =>
      match hp s, inq s with
      | HIdle, Await :: r =>   (* handleAwaitReply: log only *)
          Some {| sent := sent s; replied := replied s; awaited := awaited s; inq := r; hist := hist s;
                  dlv := dlv s ++ [Await]; hp := HIdle; rdy := rdy s; sl := sl s; counter := counter s;
                  recv := recv s; cblog := cblog s;
                  pipe := pipe s; inflight := inflight s |}
      | HIdle, Reply u :: r =>
          if pipe s && is_forward u then
            (* handleRollForward with a pipeline: Pipeline.Submit, then signal ready at once *)
            Some {| sent := sent s; replied := replied s; awaited := awaited s; inq := r; hist := hist s;
                    dlv := dlv s ++ [Reply u]; hp := HReady; rdy := rdy s; sl := sl s; counter := counter s;
                    recv := S (recv s); cblog := cblog s;
                    pipe := pipe s; inflight := inflight s ++ [u] |}
          else
          Some {| sent := sent s; replied := replied s; awaited := awaited s; inq := r; hist := hist s;
                  dlv := dlv s ++ [Reply u]; hp := HCb u; rdy := rdy s; sl := sl s; counter := counter s;
                  recv := S (recv s); cblog := cblog s;
                  pipe := pipe s; inflight := inflight s |}
      | _, _ => None
      end
  | LCb u' =>
      match hp s with
      | HCb u =>
          (* handleRollBackward with a pipeline: Pipeline.WaitForDrain first - the callback runs
             only when nothing submitted earlier is still in flight *)
          if upd_eqb u' u && (negb (pipe s) || match inflight s with [] => true | _ => false end) then
            Some {| sent := sent s; replied := replied s; awaited := awaited s; inq := inq s; hist := hist s;
                    dlv := dlv s; hp := HReady; rdy := rdy s; sl := sl s; counter := counter s;
                    recv := recv s; cblog := cblog s ++ [u];
                  pipe := pipe s; inflight := inflight s |}
          else None
      | _ => None
      end
  | LApply u' =>
      match inflight s with
      | u :: r =>
          if upd_eqb u' u then
            Some {| sent := sent s; replied := replied s; awaited := awaited s; inq := inq s; hist := hist s;
                    dlv := dlv s; hp := hp s; rdy := rdy s; sl := sl s; counter := counter s;
                    recv := recv s; cblog := cblog s ++ [u];
                    pipe := pipe s; inflight := r |}
          else None
      | [] => None
      end
  | LPush =>
      match hp s with
      | HReady =>
          if rdy s <? limit then   (* buffered send *)
            Some {| sent := sent s; replied := replied s; awaited := awaited s; inq := inq s; hist := hist s;
                    dlv := dlv s; hp := HIdle; rdy := S (rdy s); sl := sl s; counter := counter s;
                    recv := recv s; cblog := cblog s;
                  pipe := pipe s; inflight := inflight s |}
          else match limit, sl s with
               | O, SWait =>       (* unbuffered: rendezvous with syncLoop's receive *)
                   Some {| sent := sent s; replied := replied s; awaited := awaited s; inq := inq s; hist := hist s;
                           dlv := dlv s; hp := HIdle; rdy := rdy s; sl := SGot; counter := counter s;
                           recv := recv s; cblog := cblog s;
                  pipe := pipe s; inflight := inflight s |}
               | _, _ => None
               end
      | _ => None
      end
  | LTake =>
      match sl s, rdy s with
      | SWait, S n =>
          Some {| sent := sent s; replied := replied s; awaited := awaited s; inq := inq s; hist := hist s;
                  dlv := dlv s; hp := hp s; rdy := n; sl := SGot; counter := counter s;
                  recv := recv s; cblog := cblog s;
                  pipe := pipe s; inflight := inflight s |}
      | _, _ => None
      end
  | LProc =>
      match sl s with
      | SGot =>
          match counter s with
          | S n =>   (* syncPipelinedRequestNext--; continue *)
              Some {| sent := sent s; replied := replied s; awaited := awaited s; inq := inq s; hist := hist s;
                      dlv := dlv s; hp := hp s; rdy := rdy s; sl := SWait; counter := n;
                      recv := recv s; cblog := cblog s;
                  pipe := pipe s; inflight := inflight s |}
          | O =>
              Some {| sent := sent s; replied := replied s; awaited := awaited s; inq := inq s; hist := hist s;
                      dlv := dlv s; hp := hp s; rdy := rdy s; sl := SSend L; counter := 0;
                      recv := recv s; cblog := cblog s;
                  pipe := pipe s; inflight := inflight s |}
          end
      | _ => None
      end
  | LSendReq =>
      match sl s with
      | SSend (S k) =>
          Some {| sent := S (sent s); replied := replied s; awaited := awaited s; inq := inq s; hist := hist s;
                  dlv := dlv s; hp := hp s; rdy := rdy s; sl := SSend k; counter := counter s;
                  recv := recv s; cblog := cblog s;
                  pipe := pipe s; inflight := inflight s |}
      | _ => None
      end
  | LSendEnd =>
      match sl s with
      | SSend O =>   (* c.syncPipelinedRequestNext = msgCount - 1 *)
          Some {| sent := sent s; replied := replied s; awaited := awaited s; inq := inq s; hist := hist s;
                  dlv := dlv s; hp := hp s; rdy := rdy s; sl := SWait; counter := L - 1;
                  recv := recv s; cblog := cblog s;
                  pipe := pipe s; inflight := inflight s |}
      | _ => None
      end
  end.

Fixpoint run (s : st) (ls : list label) : option st :=
  match ls with
  | [] => Some s
  | l :: r => match step s l with Some s' => run s' r | None => None end
  end.
End Limit.

Definition init_p (p : bool) : st :=
  {| sent := 1; replied := 0; awaited := false; inq := []; hist := []; dlv := []; hp := HIdle; rdy := 0;
     sl := SWait; counter := 0; recv := 0; cblog := []; pipe := p; inflight := [] |}.
Definition init : st := init_p false.

Definition replies_of (l : list smsg) : list upd :=
  flat_map (fun m => match m with Reply u => [u] | Await => [] end) l.

(* ---- correspondence: the observed history of one sync session.
   ev: SReq = the peer read a RequestNext; SAwait / SRep u = the peer sent a message;
   SCb u = a callback was invoked.  The model replays them: a request observation
   needs a send by syncLoop (fired through the canonical internal schedule). ---- *)
Inductive ev := EReq | EAwait | ERep (u : upd) | ECb (u : upd) | EAp (u : upd).
Record case := { c_limit : nat; c_pipe : bool; c_evs : list ev }.

(* canonical internal schedule of the client side *)
Definition internals : list label := [LDeliver; LPush; LTake; LProc; LSendEnd].
Fixpoint first_enabled (limit : nat) (s : st) (ls : list label) : option st :=
  match ls with
  | [] => None
  | l :: r => match step limit s l with Some s' => Some s' | None => first_enabled limit s r end
  end.

(* the model tracks requests at SendMessage; the peer sees them when they are read.
   [seen] = requests the peer has read so far; it may lag behind [sent]. *)
Fixpoint replay (limit fuel : nat) (s : st) (seen : nat) (evs : list ev) : bool :=
  match fuel with
  | O => false
  | S f =>
    match evs with
    | [] => true
    | e :: r =>
        let try_internal :=
          match first_enabled limit s (internals ++ [LSendReq]) with
          | Some s1 => replay limit f s1 seen evs
          | None => false
          end in
        match e with
        | EReq => if seen <? sent s then replay limit f s (S seen) r else try_internal
        | EAwait =>
            (* the peer only answers requests it has read *)
            if (replied s <? seen) then
              match step limit s LSrvAwait with Some s1 => replay limit f s1 seen r | None => false end
            else false
        | ERep u =>
            if (replied s <? seen) then
              match step limit s (LSrvReply u) with Some s1 => replay limit f s1 seen r | None => false end
            else false
        | ECb u =>
            match step limit s (LCb u) with
            | Some s1 => replay limit f s1 seen r
            | None => try_internal
            end
        | EAp u =>
            match step limit s (LApply u) with
            | Some s1 => replay limit f s1 seen r
            | None => try_internal
            end
        end
    end
  end.

(* NewClient: PipelineLimit 0 is replaced by DefaultPipelineLimit = 75 *)
Definition effective (limit : nat) : nat := match limit with O => 75 | _ => limit end.

Definition check_case (c : case) : bool :=
  replay (effective (c_limit c)) (40 * length (c_evs c) + 100) (init_p (c_pipe c)) 0 (c_evs c).
Definition mismatches := failing check_case.
