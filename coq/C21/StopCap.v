(* C21 - Stop(): the queue condition at its exact boundary.  C21_stop needs limit + 1 <= 80;
   limit = 81 is refuted (C21_stop_refuted_sendqueue_full).  Here: limit = 80 is fine too
   (limit <= 80).  With 80 requests queued the send queue IS full and SendMessage(Done) blocks -
   but only for a moment: 80 unwritten requests means every earlier request was answered and
   delivered, so the engine is in Idle, the send token exists (invariant TokI) and sendLoop
   takes the first of them. *)
From V Require Import Lib.Base C21.Model C21.Proofs C21.Stop C21.StopProofs.

Local Arguments Nat.ltb : simpl never.
Local Arguments Nat.leb : simpl never.
Local Arguments Nat.eqb : simpl never.
Local Arguments Nat.max : simpl never.
Local Arguments Nat.sub : simpl never.
Local Arguments nreq : simpl never.
Local Arguments ndone : simpl never.
Local Arguments msgs : simpl never.
Local Arguments written : simpl never.

Ltac xsimp := unfold written in *;
  cbn [Stop.b Stop.e Stop.k budget sq qtr cur tok sp batch wire dropped infl mk push_sq set_sp set_tp
       tp sbusy closed pstop sldead rdead timedout gaveup enq_clean drain_clean] in *.
Ltac fixedin := apply in_or_app; left; cbn; tauto.

Section Limit.
Variable limit : nat.
Local Arguments step : simpl never.

(* token conservation: in Idle the send token is in the channel or in sendLoop's hand *)
Definition TokI (s : xst) : Prop :=
  cur (e s) = PIdle -> tok (e s) = true \/ sp (e s) = SpHeld \/ sp (e s) = SpDead \/ sp (e s) = SpFail.

Lemma TokI_init p bud : TokI (xinit p bud).
Proof. intros _. left. reflexivity. Qed.

Lemma TokI_step s l s' : TokI s -> xstep limit s l = Some s' -> TokI s'.
Proof.
  unfold TokI. intros HT Hs.
  destruct s as [B bud [sq0 qtr0 cur0 tok0 sp0 batch0 wire0 dropped0 infl0] K].
  xsimp.
  destruct l as [bl| | | | | | | | | | | | | | | | | | | | | |]; cbn in Hs;
    [destruct bl; cbn in Hs|..]; crush Hs; xsimp; auto.
  all: try (intros C; discriminate C).
  all: try match goal with H : next_send ?c ?m = Some _ |- _ => destruct c, m; cbn in H; try discriminate H; injection H as <- end.
  all: try (intros C; discriminate C).
  all: try (intros C; destruct (HT C) as [T|[T|[T|T]]]; try discriminate T; auto).
Qed.

Lemma TokI_run ls : forall s s', TokI s -> xrun limit s ls = Some s' -> TokI s'.
Proof.
  induction ls as [|l r IH]; intros s s' HI HR; cbn in HR.
  - injection HR as <-. exact HI.
  - destruct (xstep limit s l) as [s1|] eqn:E; [|discriminate]. eapply IH; [eapply TokI_step; eauto|exact HR].
Qed.

(* the TryLock loop never gives up when limit <= 80: inside the request loop fewer than L are queued *)
Lemma gaveup_step s l s' : 1 <= limit -> limit <= sendq_cap -> Reach limit s -> gaveup (k s) = false ->
  xstep limit s l = Some s' -> gaveup (k s') = false.
Proof.
  intros L1 L2 (HJ & HD & HQ) GU Hs.
  destruct HJ as (J1 & J2 & J3 & J4 & J5 & J6 & J7 & J8 & J9 & J10).
  destruct HQ as (Q1 & Q2 & Q3 & Q4 & Q4b & Q5 & Q6 & Q7).
  destruct s as [B bud [sq0 qtr0 cur0 tok0 sp0 batch0 wire0 dropped0 infl0]
                 [tp0 sbusy0 closed0 pstop0 sldead0 rdead0 timedout0 gaveup0 enq_clean0 drain_clean0]].
  xsimp.
  destruct l as [bl| | | | | | | | | | | | | | | | | | | | | |]; cbn in Hs;
    [destruct bl; cbn in Hs|..]; crush Hs; xsimp; auto.
  (* XStopBusyTimeout *)
  exfalso. boolfacts. subst. specialize (Q2 eq_refl). destruct (Q1 (Q3 eq_refl)) as (A & A2 & A3 & A4).
  match goal with H : sl B = SSend _ |- _ => rewrite H in A4 end.
  pose proof (nreq_len sq0). unfold Model.L, sa, sendq_cap in *. destruct (srv_agency cur0); lia.
Qed.

Lemma stuck_returned_cap s : 1 <= limit -> limit <= sendq_cap -> Reach limit s -> TokI s -> gaveup (k s) = false -> tp (k s) <> TNone ->
  client_stuck limit s = true -> stopped_end s.
Proof.
  intros L1 L2 (HJ & HD & HQ) HT GU NT ST.
  pose proof (stuck_labels limit _ ST) as NE.
  pose proof (queue_bound limit s L1 HJ HQ) as QB.
  destruct HJ as (J1 & J2 & J3 & J4 & J5 & J6 & J7 & J8 & J9 & J10).
  destruct HD as (D1 & D2 & D3 & D4 & D5 & D6 & D7).
  destruct HQ as (Q1 & Q2 & Q3 & Q4 & Q4b & Q5 & Q6 & Q7).
  destruct s as [B bud [sq0 qtr0 cur0 tok0 sp0 batch0 wire0 dropped0 infl0]
                 [tp0 sbusy0 closed0 pstop0 sldead0 rdead0 timedout0 gaveup0 enq_clean0 drain_clean0]].
  unfold stopped_end, TokI in *. xsimp. clear ST.
  destruct tp0; try congruence.
  - (* TTry *) exfalso.
    assert (P0 : pstop0 = false) by (apply D5; reflexivity).
    assert (X1 := NE XStopBusy ltac:(fixedin)). cbn in X1.
    destruct (sl B) as [| |[|n]] eqn:SL; cbn in X1; try discriminate X1; destruct sldead0; try discriminate X1.
    + assert (X2 := NE (XB LSendEnd) ltac:(fixedin)). cbn in X2. unfold step in X2. rewrite SL in X2. discriminate X2.
    + (* inside the request loop with requests still to send: fewer than L are queued *)
      assert (LB : (length sq0 <? sendq_cap) = true).
      { apply Nat.ltb_lt. specialize (Q2 eq_refl). destruct (Q1 (Q3 eq_refl)) as (A & A2 & A3 & A4).
        rewrite SL in A4. pose proof (nreq_len sq0). unfold Model.L, sa in *. unfold sendq_cap in *.
        destruct (srv_agency cur0); lia. }
      assert (X2 := NE (XB LSendReq) ltac:(fixedin)). cbn in X2. rewrite P0, LB in X2. cbn in X2.
      unfold step in X2. rewrite SL in X2. discriminate X2.
  - exfalso. assert (X := NE XStopLife ltac:(fixedin)). discriminate X.
  - (* TEnq: the queue has room, or it is full of exactly L unwritten requests - then every
       earlier request was answered and delivered, the engine is in Idle with the token around,
       and sendLoop can move *)
    exfalso. assert (X := NE XStopEnq ltac:(fixedin)). cbn in X.
    destruct (length sq0 <? sendq_cap) eqn:LB; [discriminate X|]. apply Nat.ltb_ge in LB.
    assert (P0 : pstop0 = false) by (apply D5; reflexivity).
    assert (G : good {| tp := TEnq; sbusy := sbusy0; closed := closed0; pstop := pstop0; sldead := sldead0; rdead := rdead0;
                        timedout := timedout0; gaveup := gaveup0; enq_clean := enq_clean0; drain_clean := drain_clean0 |}).
    { unfold good; cbn. repeat split; auto. apply D3; reflexivity. }
    destruct (D7 G) as (_ & ND1 & ND2 & ND3 & ND4). xsimp.
    specialize (Q2 eq_refl). destruct (Q1 (Q3 eq_refl)) as (A & A2 & A3 & A4).
    pose proof (nreq_len sq0) as NL. pose proof (nreq_len qtr0) as NQ.
    assert (QE : length qtr0 = 0 /\ sa cur0 = 0).
    { unfold Model.L, sa, sendq_cap in *. destruct (sl B); destruct (srv_agency cur0); lia. }
    destruct QE as [QE SA]. destruct qtr0; [|discriminate QE].
    assert (CI : cur0 = PIdle) by (destruct cur0; cbn in SA; try discriminate SA; congruence).
    subst cur0. destruct sq0 as [|m sq0]; [cbn in LB; unfold sendq_cap in LB; lia|].
    destruct (HT eq_refl) as [T|[T|[T|T]]].
    + subst tok0. destruct (J1 eq_refl) as [_ NH].
      destruct sp0; try congruence.
      * assert (X2 := NE XTakeTok ltac:(fixedin)). discriminate X2.
      * assert (X2 := NE XBatchEnd ltac:(fixedin)). discriminate X2.
      * assert (X2 := NE XSegOut ltac:(fixedin)). discriminate X2.
      * specialize (D6 eq_refl). congruence.
    + subst sp0. assert (X2 := NE XDeq ltac:(fixedin)). cbn in X2. destruct m; discriminate X2.
    + subst sp0. specialize (D6 eq_refl). congruence.
    + congruence.
  - exfalso. assert (X := NE XStopDrainTimeout ltac:(fixedin)). discriminate X.
  - exfalso. assert (X := NE XStopUnbusy ltac:(fixedin)). discriminate X.
  - exfalso. assert (X := NE XStopClose ltac:(fixedin)). discriminate X.
  - exfalso. assert (X := NE XStopProto ltac:(fixedin)). discriminate X.
  - exfalso. assert (X := NE XStopUnlife ltac:(fixedin)). discriminate X.
  - (* TWaitDone *) exfalso.
    assert (P1 : pstop0 = true) by (apply Q5; reflexivity).
    assert (C1 : closed0 = true) by (apply Q4; reflexivity). subst.
    assert (X := NE XStopReturn ltac:(fixedin)). cbn in X.
    assert (X2 := NE XSendExit ltac:(fixedin)). cbn in X2.
    destruct sp0; try discriminate X2; try congruence.
    destruct rdead0; [discriminate X|].
    destruct (hp B) eqn:HP.
    + assert (X3 := NE XRecvExit ltac:(fixedin)). cbn in X3. rewrite HP in X3. discriminate X3.
    + assert (X3 := NE (XB (LCb u)) ltac:(apply in_or_app; right; apply in_or_app; left; cbn; rewrite HP; left; reflexivity)).
      cbn in X3. unfold step in X3. rewrite HP, upd_eqb_refl in X3. cbn in X3.
      destruct (pipe B) eqn:PB; cbn in X3.
      * destruct (inflight B) as [|u' r] eqn:IF.
        -- discriminate X3.
        -- assert (X4 := NE (XB (LApply u')) ltac:(apply in_or_app; right; apply in_or_app; right; cbn; rewrite IF; left; reflexivity)).
           cbn in X4. unfold step in X4. rewrite IF, upd_eqb_refl in X4. discriminate X4.
      * discriminate X3.
    + assert (X3 := NE (XB LPush) ltac:(fixedin)). cbn in X3. rewrite HP in X3. discriminate X3.
  - (* TReturned *)
    assert (P1 : pstop0 = true) by (apply Q5; reflexivity).
    assert (C1 : closed0 = true) by (apply Q4; reflexivity).
    destruct (Q6 eq_refl) as [S1 R1]. subst. repeat split.
    destruct sldead0; [reflexivity|exfalso].
    destruct (sl B) as [| |[|n]] eqn:SL.
    + destruct (rdy B) eqn:RD.
      * assert (X := NE XSyncExit ltac:(fixedin)). cbn in X. rewrite SL, RD in X. discriminate X.
      * assert (X := NE (XB LTake) ltac:(fixedin)). cbn in X. unfold step in X. rewrite SL, RD in X. discriminate X.
    + assert (X := NE (XB LProc) ltac:(fixedin)). cbn in X. unfold step in X. rewrite SL in X.
      destruct (counter B); discriminate X.
    + assert (X := NE (XB LSendEnd) ltac:(fixedin)). cbn in X. unfold step in X. rewrite SL in X. discriminate X.
    + assert (X := NE XSendReqFail ltac:(fixedin)). cbn in X. rewrite SL in X. discriminate X.
Qed.

Lemma stuck_clean_cap s : 1 <= limit -> limit <= sendq_cap -> Reach limit s -> TokI s -> gaveup (k s) = false ->
  tp (k s) <> TNone -> client_stuck limit s = true -> good (k s) -> clean_end s.
Proof.
  intros L1 L2 HR HT GU NT ST G.
  destruct (stuck_returned_cap s L1 L2 HR HT GU NT ST) as (T & P & S & R & SD).
  destruct HR as (HJ & HD & HQ). destruct HD as (_ & _ & _ & _ & _ & _ & D7). specialize (D7 G).
  rewrite T in D7. cbn in D7. destruct D7 as (_ & _ & _ & BE & _ & pre & W & N).
  unfold clean_end. repeat split; auto. exists pre. split; [exact W|apply ndone0_all_req; exact N].
Qed.

Lemma cap_run ls : 1 <= limit -> limit <= sendq_cap -> forall s s',
  Reach limit s -> TokI s -> gaveup (k s) = false -> xrun limit s ls = Some s' ->
  Reach limit s' /\ TokI s' /\ gaveup (k s') = false.
Proof.
  intros L1 L2. induction ls as [|l r IH]; intros s s' HR HT GU HX; cbn in HX.
  - injection HX as <-. auto.
  - destruct (xstep limit s l) as [s1|] eqn:E; [|discriminate].
    eapply IH; [eapply reach_step; eauto|eapply TokI_step; eauto|eapply gaveup_step; eauto|exact HX].
Qed.
End Limit.
