(* C21 - Stop(): invariants of the extended LTS of Stop.v, for every limit, every server
   budget, every label sequence. *)
From V Require Import Lib.Base C21.Model C21.Proofs C21.Stop.

Local Arguments Nat.ltb : simpl never.
Local Arguments Nat.leb : simpl never.
Local Arguments Nat.eqb : simpl never.
Local Arguments Nat.max : simpl never.
Local Arguments Nat.sub : simpl never.
Local Arguments replies_of : simpl never.
Local Arguments nreq : simpl never.
Local Arguments ndone : simpl never.
Local Arguments msgs : simpl never.
Local Arguments written : simpl never.

Ltac crush H :=
  repeat match type of H with
  | match ?x with _ => _ end = Some _ => destruct x eqn:?; try discriminate H
  | (if ?x then _ else _) = Some _ => destruct x eqn:?; try discriminate H
  end;
  try (injection H as <-).

Ltac boolfacts :=
  repeat match goal with
  | H : (_ <? _) = true |- _ => apply Nat.ltb_lt in H
  | H : (_ <? _) = false |- _ => apply Nat.ltb_ge in H
  | H : (_ =? _) = true |- _ => apply Nat.eqb_eq in H
  | H : (_ =? _) = false |- _ => apply Nat.eqb_neq in H
  | H : _ && _ = true |- _ => apply andb_true_iff in H; destruct H
  | H : _ || _ = false |- _ => apply orb_false_iff in H; destruct H
  | H : negb _ = true |- _ => apply negb_true_iff in H
  | H : negb _ = false |- _ => apply negb_false_iff in H
  end.

(* ---- counting ---- *)
Lemma nreq_app a c : nreq (a ++ c) = nreq a + nreq c.
Proof. unfold nreq. rewrite filter_app, app_length. reflexivity. Qed.
Lemma ndone_app a c : ndone (a ++ c) = ndone a + ndone c.
Proof. unfold ndone. rewrite filter_app, app_length. reflexivity. Qed.
Lemma msgs_app a c : msgs (a ++ c) = msgs a ++ msgs c.
Proof. apply map_app. Qed.
Lemma nreq_cons m l : nreq (m :: l) = (if is_req m then 1 else 0) + nreq l.
Proof. unfold nreq. cbn. destruct (is_req m); reflexivity. Qed.
Lemma ndone_cons m l : ndone (m :: l) = (if is_done m then 1 else 0) + ndone l.
Proof. unfold ndone. cbn. destruct (is_done m); reflexivity. Qed.
Lemma nreq_len l : nreq l + ndone l = length l.
Proof. induction l as [|m l IH]; [reflexivity|]. rewrite nreq_cons, ndone_cons. destruct m; cbn; lia. Qed.

(* ---- the base state under base steps: two facts that do not need the whole of Inv ---- *)
Section Limit.
Variable limit : nat.

Definition RI (B : st) : Prop := replied B = recv B + length (replies_of (inq B)).

Lemma ri_step B l B' : RI B -> step limit B l = Some B' -> RI B'.
Proof.
  unfold RI. intros A Hs.
  destruct B as [sent0 replied0 awaited0 inq0 hist0 dlv0 hp0 rdy0 sl0 counter0 recv0 cblog0 pipe0 inflight0].
  cbn in A.
  destruct l; cbn in Hs; crush Hs; subst; cbn;
    rewrite ?ro_snoc_await, ?ro_snoc_reply, ?ro_cons_await, ?ro_cons_reply, ?app_length in *; cbn [length] in *; lia.
Qed.

(* which base fields a base label can change *)
Lemma step_recv B l B' : step limit B l = Some B' ->
  recv B' = match l, inq B with LDeliver, Reply _ :: _ => S (recv B) | _, _ => recv B end.
Proof.
  intros Hs. destruct B as [sent0 replied0 awaited0 inq0 hist0 dlv0 hp0 rdy0 sl0 counter0 recv0 cblog0 pipe0 inflight0].
  destruct l; cbn in Hs; crush Hs; subst; cbn; reflexivity.
Qed.
Lemma step_replied B l B' : step limit B l = Some B' ->
  replied B' = match l with LSrvReply _ => S (replied B) | _ => replied B end.
Proof.
  intros Hs. destruct B as [sent0 replied0 awaited0 inq0 hist0 dlv0 hp0 rdy0 sl0 counter0 recv0 cblog0 pipe0 inflight0].
  destruct l; cbn in Hs; crush Hs; subst; cbn; reflexivity.
Qed.
Lemma step_sent B l B' : step limit B l = Some B' ->
  sent B' = match l with LSendReq => S (sent B) | _ => sent B end.
Proof.
  intros Hs. destruct B as [sent0 replied0 awaited0 inq0 hist0 dlv0 hp0 rdy0 sl0 counter0 recv0 cblog0 pipe0 inflight0].
  destruct l; cbn in Hs; crush Hs; subst; cbn; reflexivity.
Qed.

Local Arguments step : simpl never.

(* ---- J: engine coherence and counting, all reachable states ---- *)
Definition sa (p : pst) : nat := if srv_agency p then 1 else 0.

Definition J (s : xst) : Prop :=
  let B := b s in let E := e s in
  (tok E = true -> cur E = PIdle /\ sp E <> SpHeld) /\
  (sp E = SpHeld -> cur E = PIdle) /\
  sp E <> SpFail /\
  (in_batch (sp E) = false -> sp E <> SpDead -> batch E = []) /\
  nreq (msgs (written E)) = nreq (qtr E) + recv B + sa (cur E) /\
  RI B /\ replied B <= nreq (msgs (wire E)) /\
  nreq (sq E) + nreq (msgs (written E)) = sent B /\
  (* sendInFlight covers the whole batch phase, so "drained" is only ever observed after the
     segment hand-off (fix a8c9a5c) *)
  (in_batch (sp E) = true -> infl E = true) /\
  drain_clean (k s) = true.

Lemma J_init p bud : J (xinit p bud).
Proof.
  unfold J, xinit, RI; cbn. repeat split; try discriminate; try reflexivity.
Qed.

Lemma written_wire_le E : nreq (msgs (wire E)) <= nreq (msgs (written E)).
Proof. unfold written. rewrite msgs_app, nreq_app. lia. Qed.

Ltac xsimp := unfold written in *;
  cbn [b e k budget sq qtr cur tok sp batch wire dropped infl mk push_sq set_sp set_tp
       tp sbusy closed pstop sldead rdead timedout gaveup enq_clean drain_clean] in *.
Lemma msgs_one m (a : bool) : msgs [(m, a)] = [m].
Proof. reflexivity. Qed.
Lemma msgs_nil : msgs [] = [].
Proof. reflexivity. Qed.
Ltac ncount := rewrite ?msgs_app, ?msgs_one, ?msgs_nil, ?nreq_app, ?nreq_cons, ?ndone_app, ?ndone_cons, ?app_nil_r in *;
  cbn [msgs map fst is_req is_done] in *; change (nreq []) with 0 in *; change (ndone []) with 0 in *.

Lemma J_step s l s' : J s -> xstep limit s l = Some s' -> J s'.
Proof.
  intros (J1 & J2 & J3 & J4 & J5 & J6 & J7 & J8 & J9 & J10) Hs.
  destruct s as [B bud [sq0 qtr0 cur0 tok0 sp0 batch0 wire0 dropped0 infl0] K].
  xsimp.
  assert (FIN : forall P : Prop, P -> P) by auto.
  destruct l as [bl| | | | | | | | | | | | | | | | | | | | | |]; cbn in Hs;
    [destruct bl; cbn in Hs|..]; crush Hs; boolfacts; unfold J; xsimp;
    try match goal with H : step limit B ?l = Some ?B' |- _ =>
        pose proof (ri_step _ _ _ J6 H) as RI'; pose proof (step_recv _ _ _ H) as R'; pose proof (step_replied _ _ _ H) as P';
        pose proof (step_sent _ _ _ H) as S'; cbn in R', P', S' end;
    try match goal with H : inq B = _ |- _ => rewrite H in * end;
    try match goal with H : SpHeld = SpHeld -> _ |- _ => specialize (H eq_refl) end;
    subst;
    try match goal with H : next_send _ ?m = _ |- _ => destruct m; cbn in H; try discriminate H; try (injection H as <-) end;
    try match goal with H : srv_agency ?c = true |- _ => destruct c; try discriminate H end;
    unfold sa, RI in *; cbn [srv_agency recv replied inq set_hp sent] in *; ncount;
    repeat split; intros; try assumption; try lia; try discriminate; try congruence;
    try match goal with T : ?a = ?c, H : ?a = ?c -> _ = _ |- _ => specialize (H T); try discriminate H end;
    try match goal with T : ?t = true, H : ?t = true -> _ |- _ => destruct (H T) as [X Y]; try discriminate X; try congruence end;
    try (apply J4; [assumption|discriminate]);
    try (intros T; specialize (J2 T); discriminate J2);
    try tauto;
    try (destruct (in_batch sp0); [specialize (J9 eq_refl); discriminate J9|reflexivity]).
Qed.

Lemma J_run ls : forall s s', J s -> xrun limit s ls = Some s' -> J s'.
Proof.
  induction ls as [|l r IH]; intros s s' HI HR; cbn in HR.
  - injection HR as <-. exact HI.
  - destruct (xstep limit s l) as [s1|] eqn:E; [|discriminate]. eapply IH; [eapply J_step; eauto|exact HR].
Qed.

(* ---- D: where MsgDone is, phase by phase of Stop() ---- *)
Definition good (K : ctl) : Prop :=
  gaveup K = false /\ enq_clean K = true /\ drain_clean K = true /\ timedout K = false.

Definition NoDone (E : eng) : Prop :=
  ndone (sq E) = 0 /\ ndone (qtr E) = 0 /\ ndone (msgs (written E)) = 0 /\ cur E <> PDone.
(* Done is queued, alone, and sendLoop is not inside a batch: it will be the first message of one *)
Definition Pend (E : eng) : Prop :=
  sq E = [QDone] /\ in_batch (sp E) = false /\ ndone (qtr E) = 0 /\ ndone (msgs (written E)) = 0 /\ cur E <> PDone.
(* Done has been written, with agency, as the last message *)
Definition Wr (E : eng) : Prop :=
  sq E = [] /\ qtr E = [] /\ cur E = PDone /\
  exists pre, written E = pre ++ [(QDone, true)] /\ ndone (msgs pre) = 0.
Definition Fin (E : eng) : Prop :=
  qtr E = [] /\ cur E = PDone /\ ndone (sq E) = 0 /\ batch E = [] /\ (sp E = SpWait \/ sp E = SpDead) /\
  exists pre, wire E = pre ++ [(QDone, true)] /\ ndone (msgs pre) = 0.
Definition phase (t : stopph) (E : eng) (busy : bool) : Prop :=
  match t with
  | TNone | TTry => NoDone E
  | TLife | TEnq => busy = true /\ NoDone E
  | TDrain => busy = true /\ (Pend E \/ Wr E)
  | TUnbusy => busy = true /\ Fin E
  | _ => Fin E
  end.

Definition before_enq (t : stopph) : bool := match t with TNone | TTry | TLife | TEnq => true | _ => false end.
Definition before_drained (t : stopph) : bool := match t with TNone | TTry | TLife | TEnq | TDrain => true | _ => false end.
Definition before_pstop (t : stopph) : bool :=
  match t with TUnlife | TWaitDone | TReturned => false | _ => true end.

Definition D (s : xst) : Prop :=
  let K := k s in
  (sbusy K = true -> in_send (sl (b s)) = false \/ sldead K = true) /\
  (before_enq (tp K) = true -> enq_clean K = true) /\
  (before_drained (tp K) = true -> drain_clean K = true /\ timedout K = false) /\
  (tp K = TNone \/ tp K = TTry -> gaveup K = false) /\
  (before_pstop (tp K) = true -> pstop K = false) /\
  (sp (e s) = SpDead -> pstop K = true) /\
  (good K -> phase (tp K) (e s) (sbusy K)).

Lemma D_init p bud : D (xinit p bud).
Proof.
  unfold D, xinit, good, phase, NoDone; cbn. repeat split; auto; try discriminate.
Qed.

Lemma step_sendreq_in B B' : step limit B LSendReq = Some B' -> in_send (sl B) = true.
Proof.
  intros Hs. unfold step in Hs. destruct (sl B) as [| |[|n]]; try discriminate. reflexivity.
Qed.

Lemma step_in_send B l B' : step limit B l = Some B' -> l <> LProc -> in_send (sl B') = true -> in_send (sl B) = true.
Proof.
  intros Hs NL. destruct B as [sent0 replied0 awaited0 inq0 hist0 dlv0 hp0 rdy0 sl0 counter0 recv0 cblog0 pipe0 inflight0].
  unfold step in Hs. destruct l; cbn in Hs; crush Hs; subst; cbn; try discriminate; try congruence; auto.
Qed.

Lemma ndone0_cons m l : ndone (m :: l) = 0 -> m = QReq /\ ndone l = 0.
Proof. rewrite ndone_cons. destruct m; cbn; [auto|discriminate]. Qed.

Ltac t0 := repeat split; auto; try lia; try congruence; try discriminate;
  try (eexists; split; [first [eassumption|reflexivity] | assumption]).

Lemma D_step s l s' : J s -> D s -> xstep limit s l = Some s' -> D s'.
Proof.
  intros (J1 & J2 & J3 & J4 & J5 & J6 & J7 & J8 & J9 & J10) (D1 & D2 & D3 & D4 & D5 & D6 & D7) Hs.
  destruct s as [B bud [sq0 qtr0 cur0 tok0 sp0 batch0 wire0 dropped0 infl0]
                 [tp0 sbusy0 closed0 pstop0 sldead0 rdead0 timedout0 gaveup0 enq_clean0 drain_clean0]].
  unfold good in *. xsimp.
  destruct l as [bl| | | | | | | | | | | | | | | | | | | | | |]; cbn in Hs;
    [destruct bl; cbn in Hs|..]; crush Hs; boolfacts; unfold D, good; xsimp.
  all: try match goal with H : step limit ?BB ?l = Some ?B1 |- _ =>
        pose proof (step_in_send _ _ _ H) as IS end.
  all: repeat match goal with |- _ /\ _ => split end.
  all: try assumption.
  all: try (intros; discriminate).
  all: try (intros T; destruct (D1 T) as [X|X]; [left|right; exact X];
            destruct (in_send (sl s)) eqn:Q; [rewrite IS in X; [discriminate X|discriminate|reflexivity]|reflexivity]).
  all: try (cbn; auto; fail).
  all: try (cbn in *; intros; auto; fail).
  all: try (intros (G1 & G2 & G3 & G4)); try discriminate;
    try (assert (G0 : gaveup0 = false /\ enq_clean0 = true /\ drain_clean0 = true /\ timedout0 = false)
           by (repeat split; first [assumption | apply D2; reflexivity | apply D3; reflexivity | apply D4; auto]);
         specialize (D7 G0); clear G0).
  all: try (destruct tp0); cbn [phase] in *; unfold NoDone, Pend, Wr, Fin in *; xsimp.
  all: repeat match goal with
       | H : _ /\ _ |- _ => destruct H
       | H : exists _, _ |- _ => destruct H
       | H : _ \/ _ |- _ => destruct H
       end.
  all: try match goal with H : SpHeld = SpHeld -> _ |- _ => specialize (H eq_refl) end; subst.
  all: cbn [srv_agency next_send] in *; try discriminate.
  all: try match goal with H : next_send ?c ?m = _ |- _ => is_var c; destruct c; cbn in H; try discriminate H end.
  all: try match goal with H : next_send _ ?m = _ |- _ => is_var m; destruct m; cbn in H; try discriminate H; try (injection H as <-) end.
  all: try match goal with H : Some _ = Some _ |- _ => injection H as <- end.
  all: try match goal with H : srv_agency ?c = true |- _ => is_var c; destruct c; try discriminate H end.
  all: try match goal with H : ndone (_ :: _) = 0 |- _ => apply ndone0_cons in H; destruct H; subst end.
  all: ncount.
  all: try (intros [T|T]; discriminate T).
  all: try (exfalso; congruence).
  all: try (exfalso; destruct (J1 eq_refl); congruence).
  all: try (exfalso; assert (pstop0 = false) by (apply D5; reflexivity); congruence).
  all: try (exfalso; match goal with H : step limit _ LSendReq = Some _ |- _ => apply step_sendreq_in in H end;
            destruct (D1 eq_refl); congruence).
  all: try (split; [reflexivity|]).
  all: try (solve [t0] || solve [left; t0] || solve [right; t0]).
  - (* XDeq takes Done as the first message of a batch: with agency *)
    match goal with H : _ :: _ = [QDone] |- _ => injection H as -> -> end.
    cbn in Heqo. injection Heqo as <-. right. repeat split; auto.
    exists (wire0 ++ batch0). split.
    + rewrite app_assoc. f_equal. f_equal. f_equal. unfold agency_now, written; xsimp. ncount.
      unfold sa in J5; cbn in J5. unfold RI in J6. apply Nat.eqb_eq. lia.
    + ncount. lia.
  - match goal with H : _ :: _ = [QDone] |- _ => injection H as -> -> end. discriminate Heqo.
  - intros _. match goal with H : _ || _ = true |- _ => apply orb_true_iff in H; destruct H as [H|H] end.
    + left. apply negb_true_iff. assumption.
    + right. assumption.
  - destruct sq0; [|discriminate]. apply negb_true_iff in G2. left. cbn. repeat split; auto.
  - apply negb_true_iff in G3.
    assert (P0 : pstop0 = false) by (apply D5; reflexivity).
    assert (SW : sp0 = SpWait).
    { destruct sp0; try discriminate; auto.
      - specialize (J2 eq_refl). discriminate.
      - congruence.
      - specialize (D6 eq_refl). congruence. }
    subst sp0. assert (batch0 = []) as -> by (apply J4; [reflexivity|discriminate]).
    rewrite app_nil_r in *. repeat split; auto. eexists; split; eauto.
Qed.

Lemma D_run ls : forall s s', J s -> D s -> xrun limit s ls = Some s' -> J s' /\ D s'.
Proof.
  induction ls as [|l r IH]; intros s s' HJ HD HR; cbn in HR.
  - injection HR as <-. auto.
  - destruct (xstep limit s l) as [s1|] eqn:E; [|discriminate].
    eapply IH; [eapply J_step; eauto|eapply D_step; eauto|exact HR].
Qed.

(* ---- the extended LTS refines the base LTS until readyForNextBlockChan is closed ---- *)
Lemma xstep_proj s l s' : xstep limit s l = Some s' -> closed (k s') = false ->
  b s' = b s \/ exists bl, l = XB bl /\ step limit (b s) bl = Some (b s').
Proof.
  intros Hs HC.
  destruct s as [B bud E [tp0 sbusy0 closed0 pstop0 sldead0 rdead0 timedout0 gaveup0 enq_clean0 drain_clean0]].
  destruct l as [bl| | | | | | | | | | | | | | | | | | | | | |]; cbn in Hs;
    [destruct bl; cbn in Hs|..]; crush Hs; cbn in *; try (left; reflexivity); try discriminate;
    right; eexists; split; try reflexivity; congruence.
Qed.

Lemma closed_mono s l s' : xstep limit s l = Some s' -> closed (k s') = false -> closed (k s) = false.
Proof.
  intros Hs HC.
  destruct s as [B bud E [tp0 sbusy0 closed0 pstop0 sldead0 rdead0 timedout0 gaveup0 enq_clean0 drain_clean0]].
  destruct l as [bl| | | | | | | | | | | | | | | | | | | | | |]; cbn in Hs;
    [destruct bl; cbn in Hs|..]; crush Hs; cbn in *; congruence.
Qed.

(* ---- Q: lifecycle bookkeeping and the bound on the send queue, all reachable states ---- *)
Definition before_close (t : stopph) : bool :=
  match t with TPStop | TUnlife | TWaitDone | TReturned => false | _ => true end.

Definition Q (s : xst) : Prop :=
  let K := k s in
  (closed K = false -> Inv limit (b s)) /\
  (before_enq (tp K) = true -> ndone (sq (e s)) = 0) /\
  (before_close (tp K) = true -> closed K = false) /\
  (before_close (tp K) = false -> closed K = true) /\
  (match tp K with TClose | TPStop | TUnlife | TWaitDone | TReturned => sbusy K = false | _ => True end) /\
  (before_pstop (tp K) = false -> pstop K = true) /\
  (tp K = TReturned -> sp (e s) = SpDead /\ rdead K = true) /\
  (limit + 1 <= sendq_cap -> gaveup K = false).

Lemma Q_init p bud : Q (xinit p bud).
Proof.
  unfold Q, xinit; cbn. split; [intros _; apply inv_init|]. repeat split; auto; try discriminate.
Qed.

Lemma queue_bound s : 1 <= limit -> J s -> Q s -> before_enq (tp (k s)) = true -> length (sq (e s)) <= limit.
Proof.
  intros L1 (J1 & J2 & J3 & J4 & J5 & J6 & J7 & J8 & J9 & J10) (Q1 & Q2 & Q3 & Q4 & Q4b & Q5 & Q6 & Q7) BE.
  assert (CF : closed (k s) = false) by (apply Q3; destruct (tp (k s)); try discriminate; reflexivity).
  destruct (Q1 CF) as (A & A2 & A3 & A4). specialize (Q2 BE).
  pose proof (nreq_len (sq (e s))) as NL. unfold Model.L in A4.
  destruct (sl (b s)); lia.
Qed.

Lemma Q_step s l s' : 1 <= limit -> J s -> Q s -> xstep limit s l = Some s' -> Q s'.
Proof.
  intros L1 HJ HQ Hs.
  assert (QB := queue_bound s L1 HJ HQ).
  destruct HQ as (Q1 & Q2 & Q3 & Q4 & Q4b & Q5 & Q6 & Q7).
  split.
  { intros CF. pose proof (closed_mono _ _ _ Hs CF) as CF0. specialize (Q1 CF0).
    destruct (xstep_proj _ _ _ Hs CF) as [E|(bl & _ & E)]; [rewrite E; exact Q1|].
    eapply inv_step; eauto. }
  destruct s as [B bud [sq0 qtr0 cur0 tok0 sp0 batch0 wire0 dropped0 infl0]
                 [tp0 sbusy0 closed0 pstop0 sldead0 rdead0 timedout0 gaveup0 enq_clean0 drain_clean0]].
  xsimp. clear Q1 HJ.
  destruct l as [bl| | | | | | | | | | | | | | | | | | | | | |]; cbn in Hs;
    [destruct bl; cbn in Hs|..]; crush Hs; boolfacts; xsimp.
  all: repeat match goal with |- _ /\ _ => split end; try assumption; try (intros; discriminate).
  all: try (cbn in *; auto; fail).
  all: try (intros T; specialize (Q2 T); ncount; try apply ndone0_cons in Q2; cbn; try tauto; try lia).
  all: try (intros T; destruct (Q6 T); auto; discriminate).
  all: try (intros T; exfalso; specialize (QB eq_refl); cbn in QB; unfold sendq_cap in *; lia).
Qed.

Definition Reach (s : xst) : Prop := J s /\ D s /\ Q s.
Lemma reach_init p bud : Reach (xinit p bud).
Proof. split; [apply J_init|split; [apply D_init|apply Q_init]]. Qed.
Lemma reach_step s l s' : 1 <= limit -> Reach s -> xstep limit s l = Some s' -> Reach s'.
Proof.
  intros L1 (HJ & HD & HQ) Hs. split; [eapply J_step; eauto|split; [eapply D_step; eauto|eapply Q_step; eauto]].
Qed.
Lemma reach_run ls : 1 <= limit -> forall s s', Reach s -> xrun limit s ls = Some s' -> Reach s'.
Proof.
  intros L1. induction ls as [|l r IH]; intros s s' HI HR; cbn in HR.
  - injection HR as <-. exact HI.
  - destruct (xstep limit s l) as [s1|] eqn:E; [|discriminate]. eapply IH; [eapply reach_step; eauto|exact HR].
Qed.

Lemma upd_eqb_refl u : upd_eqb u u = true.
Proof.
  assert (T : forall t, tip_eqb t t = true).
  { intros [a h c]. unfold tip_eqb; cbn. rewrite !N.eqb_refl. cbn. rewrite andb_true_r. apply bytes_eqb_eq. reflexivity. }
  destruct u as [a h t|a h t]; cbn; rewrite N.eqb_refl, T; cbn; rewrite andb_true_r; apply bytes_eqb_eq; reflexivity.
Qed.

Lemma stuck_labels s : client_stuck limit s = true -> forall l, In l (candidates s) -> xstep limit s l = None.
Proof.
  unfold client_stuck. rewrite forallb_forall. intros H l HI. specialize (H l HI). unfold enabled in H.
  destruct (xstep limit s l); [discriminate|reflexivity].
Qed.

Ltac fixedin := apply in_or_app; left; cbn; tauto.

Lemma stuck_returned s : 1 <= limit -> limit + 1 <= sendq_cap -> Reach s -> tp (k s) <> TNone ->
  client_stuck limit s = true -> stopped_end s.
Proof.
  intros L1 L2 (HJ & HD & HQ) NT ST.
  pose proof (stuck_labels _ ST) as NE.
  pose proof (queue_bound s L1 HJ HQ) as QB.
  destruct HJ as (J1 & J2 & J3 & J4 & J5 & J6 & J7 & J8 & J9 & J10).
  destruct HD as (D1 & D2 & D3 & D4 & D5 & D6 & D7).
  destruct HQ as (Q1 & Q2 & Q3 & Q4 & Q4b & Q5 & Q6 & Q7).
  destruct s as [B bud [sq0 qtr0 cur0 tok0 sp0 batch0 wire0 dropped0 infl0]
                 [tp0 sbusy0 closed0 pstop0 sldead0 rdead0 timedout0 gaveup0 enq_clean0 drain_clean0]].
  unfold stopped_end. xsimp. clear D7 J5 J6 J7 J8 ST.
  destruct tp0; try congruence.
  - (* TTry *) exfalso.
    assert (P0 : pstop0 = false) by (apply D5; reflexivity).
    assert (LB : (length sq0 <? sendq_cap) = true) by (apply Nat.ltb_lt; specialize (QB eq_refl); unfold sendq_cap in *; lia).
    assert (X1 := NE XStopBusy ltac:(fixedin)). cbn in X1.
    destruct (sl B) as [| |[|n]] eqn:SL; cbn in X1; try discriminate X1; destruct sldead0; try discriminate X1.
    + assert (X2 := NE (XB LSendEnd) ltac:(fixedin)). cbn in X2. unfold step in X2. rewrite SL in X2. discriminate X2.
    + assert (X2 := NE (XB LSendReq) ltac:(fixedin)). cbn in X2. rewrite P0, LB in X2. cbn in X2.
      unfold step in X2. rewrite SL in X2. discriminate X2.
  - exfalso. assert (X := NE XStopLife ltac:(fixedin)). discriminate X.
  - exfalso. assert (X := NE XStopEnq ltac:(fixedin)). cbn in X.
    assert (LB : (length sq0 <? sendq_cap) = true) by (apply Nat.ltb_lt; specialize (QB eq_refl); unfold sendq_cap in *; lia).
    rewrite LB in X. discriminate X.
  - exfalso. assert (X := NE XStopDrainTimeout ltac:(fixedin)). discriminate X.
  - exfalso. assert (X := NE XStopUnbusy ltac:(fixedin)). discriminate X.
  - exfalso. assert (X := NE XStopClose ltac:(fixedin)). discriminate X.
  - exfalso. assert (X := NE XStopProto ltac:(fixedin)). discriminate X.
  - exfalso. assert (X := NE XStopUnlife ltac:(fixedin)). discriminate X.
  - (* TWaitDone *) exfalso.
    assert (P1 : pstop0 = true) by (apply Q5; reflexivity).
    assert (C1 : closed0 = true) by (apply Q4; reflexivity). subst.
    assert (X := NE XStopReturn ltac:(fixedin)). cbn in X.
    assert (X2 := NE XSendExit ltac:(fixedin)). cbn in X2.
    destruct sp0; try discriminate X2; try congruence.
    destruct rdead0; [discriminate X|].
    destruct (hp B) eqn:HP.
    + assert (X3 := NE XRecvExit ltac:(fixedin)). cbn in X3. rewrite HP in X3. discriminate X3.
    + assert (X3 := NE (XB (LCb u)) ltac:(apply in_or_app; right; apply in_or_app; left; cbn; rewrite HP; left; reflexivity)).
      cbn in X3. unfold step in X3. rewrite HP, upd_eqb_refl in X3. cbn in X3.
      destruct (pipe B) eqn:PB; cbn in X3.
      * destruct (inflight B) as [|u' r] eqn:IF.
        -- discriminate X3.
        -- assert (X4 := NE (XB (LApply u')) ltac:(apply in_or_app; right; apply in_or_app; right; cbn; rewrite IF; left; reflexivity)).
           cbn in X4. unfold step in X4. rewrite IF, upd_eqb_refl in X4. discriminate X4.
      * discriminate X3.
    + assert (X3 := NE (XB LPush) ltac:(fixedin)). cbn in X3. rewrite HP in X3. discriminate X3.
  - (* TReturned *)
    assert (P1 : pstop0 = true) by (apply Q5; reflexivity).
    assert (C1 : closed0 = true) by (apply Q4; reflexivity).
    destruct (Q6 eq_refl) as [S1 R1]. subst. repeat split.
    destruct sldead0; [reflexivity|exfalso].
    destruct (sl B) as [| |[|n]] eqn:SL.
    + destruct (rdy B) eqn:RD.
      * assert (X := NE XSyncExit ltac:(fixedin)). cbn in X. rewrite SL, RD in X. discriminate X.
      * assert (X := NE (XB LTake) ltac:(fixedin)). cbn in X. unfold step in X. rewrite SL, RD in X. discriminate X.
    + assert (X := NE (XB LProc) ltac:(fixedin)). cbn in X. unfold step in X. rewrite SL in X.
      destruct (counter B); discriminate X.
    + assert (X := NE (XB LSendEnd) ltac:(fixedin)). cbn in X. unfold step in X. rewrite SL in X. discriminate X.
    + assert (X := NE XSendReqFail ltac:(fixedin)). cbn in X. rewrite SL in X. discriminate X.
Qed.

Lemma ndone0_all_req pre : ndone (msgs pre) = 0 -> all_req pre.
Proof.
  induction pre as [|[m a] r IH]; intros H x HI; [destruct HI|].
  change (msgs ((m, a) :: r)) with (m :: msgs r) in H. apply ndone0_cons in H. destruct H as [-> H].
  destruct HI as [<-|HI]; [reflexivity|apply IH; assumption].
Qed.

Lemma good_of_side s : J s -> side_ok s = true -> timedout (k s) = false -> good (k s).
Proof.
  unfold side_ok, good. intros (_ & _ & _ & _ & _ & _ & _ & _ & _ & DC) H T.
  apply andb_true_iff in H. destruct H as [H1 H2]. apply negb_true_iff in H1. auto.
Qed.

(* at every moment of every run that satisfies the side condition: MsgDone has not been written,
   or it was written with agency and is the last message written *)
Lemma done_position s : Reach s -> good (k s) ->
  ndone (msgs (written (e s))) = 0 \/
  exists pre, written (e s) = pre ++ [(QDone, true)] /\ all_req pre.
Proof.
  intros (HJ & HD & HQ) G. destruct HD as (_ & _ & _ & _ & _ & _ & D7). specialize (D7 G).
  destruct (tp (k s)); cbn in D7; unfold NoDone, Pend, Wr, Fin in D7.
  all: repeat match goal with
       | H : _ /\ _ |- _ => destruct H
       | H : exists _, _ |- _ => destruct H
       | H : _ \/ _ |- _ => destruct H
       end; auto.
  all: right; eexists; split; [|apply ndone0_all_req; eassumption]; unfold written;
    try match goal with H : batch _ = [] |- _ => rewrite H, app_nil_r end; eassumption.
Qed.

Lemma stuck_clean s : 1 <= limit -> limit + 1 <= sendq_cap -> Reach s -> tp (k s) <> TNone ->
  client_stuck limit s = true -> good (k s) -> clean_end s.
Proof.
  intros L1 L2 HR NT ST G.
  destruct (stuck_returned s L1 L2 HR NT ST) as (T & P & S & R & SD).
  destruct HR as (HJ & HD & HQ). destruct HD as (_ & _ & _ & _ & _ & _ & D7). specialize (D7 G).
  rewrite T in D7. cbn in D7. destruct D7 as (_ & _ & _ & BE & _ & pre & W & N).
  unfold clean_end. repeat split; auto. exists pre. split; [exact W|apply ndone0_all_req; exact N].
Qed.
End Limit.
