package main

import (
	"fmt"
	"go/ast"
	"go/parser"
	"go/token"
	"os"
	"path/filepath"
	"sort"
	"strconv"
	"strings"

	"verifharness/vh"
)

// one tagged-sum decoder whose `switch` on the result of DecodeIdFromList is translated
type target struct {
	name string // table name in Coq
	dir  string // package directory below the repository root
	recv string // receiver type of UnmarshalCBOR
}

var targets = []target{
	{"native-script", "ledger/common", "NativeScript"},
	{"certificate", "ledger/common", "CertificateWrapper"},
	{"nonce", "ledger/common", "Nonce"},
	{"drep", "ledger/common", "Drep"},
	{"gov-action", "ledger/conway", "ConwayGovAction"},
	{"peer-address", "protocol/peersharing", "PeerAddress"},
	{"datum-option", "ledger/babbage", "BabbageTransactionOutputDatumOption"},
}

func repoRoot() string {
	if r := os.Getenv("VERIF_REPO"); r != "" {
		return r
	}
	return "/repo"
}

// integer constants with literal values of a package directory (and of ledger/common, which the eras import)
func consts(fset *token.FileSet, dirs ...string) map[string]uint64 {
	out := map[string]uint64{}
	for _, dir := range dirs {
		pkgs, err := parser.ParseDir(fset, dir, func(fi os.FileInfo) bool { return !strings.HasSuffix(fi.Name(), "_test.go") }, 0)
		if err != nil {
			continue
		}
		for _, pkg := range pkgs {
			for _, f := range pkg.Files {
				for _, d := range f.Decls {
					gd, ok := d.(*ast.GenDecl)
					if !ok || gd.Tok != token.CONST {
						continue
					}
					for _, sp := range gd.Specs {
						vs := sp.(*ast.ValueSpec)
						for i, n := range vs.Names {
							if i < len(vs.Values) {
								if bl, ok := vs.Values[i].(*ast.BasicLit); ok && bl.Kind == token.INT {
									if v, err := strconv.ParseUint(bl.Value, 0, 64); err == nil {
										out[n.Name] = v
									}
								}
							}
						}
					}
				}
			}
		}
	}
	return out
}

func exprName(e ast.Expr) string {
	switch v := e.(type) {
	case *ast.Ident:
		return v.Name
	case *ast.SelectorExpr:
		return v.Sel.Name
	case *ast.BasicLit:
		return v.Value
	}
	return "?"
}

// mentions reports whether the expression mentions identifier id
func mentions(e ast.Expr, id string) bool {
	found := false
	ast.Inspect(e, func(n ast.Node) bool {
		if i, ok := n.(*ast.Ident); ok && i.Name == id {
			found = true
		}
		return true
	})
	return found
}

type entry struct {
	id      uint64
	variant string
}

func translate(t target) ([]entry, error) {
	root := repoRoot()
	fset := token.NewFileSet()
	dir := filepath.Join(root, t.dir)
	cs := consts(fset, dir, filepath.Join(root, "ledger/common"))
	pkgs, err := parser.ParseDir(fset, dir, func(fi os.FileInfo) bool { return !strings.HasSuffix(fi.Name(), "_test.go") }, 0)
	if err != nil {
		return nil, err
	}
	for _, pkg := range pkgs {
		for _, f := range pkg.Files {
			for _, d := range f.Decls {
				fd, ok := d.(*ast.FuncDecl)
				if !ok || fd.Name.Name != "UnmarshalCBOR" || fd.Recv == nil || len(fd.Recv.List) != 1 {
					continue
				}
				rt := fd.Recv.List[0].Type
				if st, ok := rt.(*ast.StarExpr); ok {
					rt = st.X
				}
				if exprName(rt) != t.recv {
					continue
				}
				// the variable assigned from cbor.DecodeIdFromList
				idVar := ""
				ast.Inspect(fd.Body, func(n ast.Node) bool {
					as, ok := n.(*ast.AssignStmt)
					if !ok || len(as.Rhs) != 1 {
						return true
					}
					if call, ok := as.Rhs[0].(*ast.CallExpr); ok && exprName(call.Fun) == "DecodeIdFromList" && idVar == "" {
						idVar = exprName(as.Lhs[0])
					}
					return true
				})
				if idVar == "" {
					return nil, fmt.Errorf("%s.UnmarshalCBOR does not call DecodeIdFromList", t.recv)
				}
				var out []entry
				var terr error
				ast.Inspect(fd.Body, func(n ast.Node) bool {
					sw, ok := n.(*ast.SwitchStmt)
					if !ok || sw.Tag == nil || !mentions(sw.Tag, idVar) || out != nil {
						return true
					}
					for _, st := range sw.Body.List {
						cc := st.(*ast.CaseClause)
						// the variant: the composite type assigned in the clause, else the case label
						variant := ""
						for _, bs := range cc.Body {
							ast.Inspect(bs, func(m ast.Node) bool {
								if variant != "" {
									return false
								}
								if u, ok := m.(*ast.UnaryExpr); ok && u.Op == token.AND {
									if cl, ok := u.X.(*ast.CompositeLit); ok && cl.Type != nil {
										if _, isStruct := cl.Type.(*ast.StructType); !isStruct {
											variant = exprName(cl.Type)
										}
									}
								}
								return true
							})
							break // only the first statement names the variant
						}
						for _, ce := range cc.List {
							var id uint64
							if bl, ok := ce.(*ast.BasicLit); ok {
								id, _ = strconv.ParseUint(bl.Value, 0, 64)
							} else if v, ok := cs[exprName(ce)]; ok {
								id = v
							} else {
								terr = fmt.Errorf("%s: cannot evaluate case label %s", t.recv, exprName(ce))
								return false
							}
							v := variant
							if v == "" {
								v = exprName(ce)
							}
							out = append(out, entry{id, v})
						}
					}
					return false
				})
				if terr != nil {
					return nil, terr
				}
				if out == nil {
					return nil, fmt.Errorf("%s.UnmarshalCBOR: no switch on %s", t.recv, idVar)
				}
				sort.SliceStable(out, func(i, j int) bool { return out[i].id < out[j].id })
				return out, nil
			}
		}
	}
	return nil, fmt.Errorf("%s.UnmarshalCBOR not found in %s", t.recv, t.dir)
}

func gen(out string) error {
	var sb strings.Builder
	sb.WriteString("(* GENERATED by harness/cmd/c03 gen from the switch statements on the result of\n   cbor.DecodeIdFromList in the UnmarshalCBOR methods named below.  Do not edit. *)\n")
	sb.WriteString("From Coq Require Import String.\nFrom V Require Import Lib.Base.\nLocal Open Scope string_scope.\nLocal Open Scope N_scope.\n\n")
	sb.WriteString("Definition gen_tables : list (string * list (N * string)) := [\n")
	for k, t := range targets {
		es, err := translate(t)
		if err != nil {
			return err
		}
		var xs []string
		for _, e := range es {
			xs = append(xs, fmt.Sprintf("(%d, %s)", e.id, vh.Str(e.variant)))
		}
		sep := ";"
		if k == len(targets)-1 {
			sep = ""
		}
		fmt.Fprintf(&sb, "  (* %s.%s.UnmarshalCBOR *)\n  (%s, [%s])%s\n", t.dir, t.recv, vh.Str(t.name), strings.Join(xs, "; "), sep)
	}
	sb.WriteString("].\n")
	if err := gen2(&sb); err != nil {
		return err
	}
	if out == "" {
		fmt.Print(sb.String())
		return nil
	}
	return vh.WriteIfChanged(out, sb.String())
}
