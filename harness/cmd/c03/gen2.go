package main

// Second translator: a scan of the WHOLE repository (non-test files) for
//   - every function that calls cbor.DecodeIdFromList: the switch statements over the
//     returned id (with or without a tag expression), and the switches over a parameter
//     of a same-package function the id is passed to (UtxowFailure.unmarshal<Era>)
//   - every map[int]any{ K: &T{} ... } literal (the idMaps of DecodeById / decodeQuery)
//     and the m[K] = &T{} additions made to such a map under a case label
// The result is `gen_tables_all` (site name -> id -> variant) and `gen_sites` (every
// function calling DecodeIdFromList / DecodeById with the number of tables found for it).

import (
	"fmt"
	"go/ast"
	"go/parser"
	"go/token"
	"go/types"
	"os"
	"path/filepath"
	"sort"
	"strconv"
	"strings"

	"verifharness/vh"
)

type gtable struct {
	name    string
	entries []entry
}

type gsite struct {
	name   string
	tables int
}

type pkgInfo struct {
	dir   string // relative to the repository root
	files []*ast.File
	funcs map[string]*ast.FuncDecl // "Recv.Name" or "Name"
	ctors map[string][]entry       // package-level constructor tables: map[int]func() T / []func() T (and map[int]any)
	pass  map[string]bool          // unexported helpers that only hand the result of DecodeIdFromList on
}

// variantOfExt: like variantOf, but also accepts new(T) and a plain T{} (constructor functions)
func variantOfExt(body []ast.Stmt) string {
	if v := variantOf(body); v != "" {
		return v
	}
	variant := ""
	for _, bs := range body {
		ast.Inspect(bs, func(m ast.Node) bool {
			if variant != "" {
				return false
			}
			switch v := m.(type) {
			case *ast.CallExpr:
				if exprName(v.Fun) == "new" && len(v.Args) == 1 {
					variant = exprName(v.Args[0])
				}
			case *ast.CompositeLit:
				if v.Type != nil {
					if _, isStruct := v.Type.(*ast.StructType); !isStruct {
						variant = exprName(v.Type)
					}
				}
			}
			return true
		})
		if variant != "" {
			break
		}
	}
	return variant
}

func isFuncType(e ast.Expr) bool { _, ok := e.(*ast.FuncType); return ok }

// collectCtors finds package-level id -> constructor tables
func collectCtors(pi *pkgInfo, cs map[string]uint64) {
	pi.ctors = map[string][]entry{}
	if os.Getenv("C03_NO_CTORS") != "" { // test switch: forces the probe fallback on constructor-table decoders
		return
	}
	for _, f := range pi.files {
		for _, d := range f.Decls {
			gd, ok := d.(*ast.GenDecl)
			if !ok || gd.Tok != token.VAR {
				continue
			}
			for _, sp := range gd.Specs {
				vs := sp.(*ast.ValueSpec)
				for k, nm := range vs.Names {
					if k >= len(vs.Values) {
						continue
					}
					lit, ok := vs.Values[k].(*ast.CompositeLit)
					if !ok {
						continue
					}
					okType := false
					switch t := lit.Type.(type) {
					case *ast.MapType:
						okType = isFuncType(t.Value) || exprName(t.Value) == "any"
					case *ast.ArrayType:
						okType = isFuncType(t.Elt)
					}
					if !okType {
						continue
					}
					var es []entry
					for idx, el := range lit.Elts {
						id, val := uint64(idx), el
						if kv, ok := el.(*ast.KeyValueExpr); ok {
							n, ok := evalConst(kv.Key, cs, 0)
							if !ok {
								continue
							}
							id, val = n, kv.Value
						}
						v := ""
						switch fv := val.(type) {
						case *ast.FuncLit:
							v = variantOfExt(fv.Body.List)
						case *ast.UnaryExpr:
							if cl, ok := fv.X.(*ast.CompositeLit); ok && fv.Op == token.AND {
								v = exprName(cl.Type)
							}
						case *ast.Ident: // a named constructor function
							if fd, ok := pi.funcs[fv.Name]; ok {
								v = variantOfExt(fd.Body.List)
							}
						}
						if v != "" {
							es = append(es, entry{id, v})
						}
					}
					if len(es) > 0 {
						sort.SliceStable(es, func(i, j int) bool { return es[i].id < es[j].id })
						pi.ctors[nm.Name] = es
					}
				}
			}
		}
	}
}

// collectPass finds unexported plain functions that call DecodeIdFromList and return its result
func collectPass(pi *pkgInfo) {
	pi.pass = map[string]bool{}
	for key, fd := range pi.funcs {
		if fd.Recv != nil || ast.IsExported(fd.Name.Name) {
			continue
		}
		idVar, direct := "", false
		ast.Inspect(fd.Body, func(n ast.Node) bool {
			switch v := n.(type) {
			case *ast.AssignStmt:
				if len(v.Rhs) == 1 {
					if call, ok := v.Rhs[0].(*ast.CallExpr); ok && exprName(call.Fun) == "DecodeIdFromList" {
						idVar = exprName(v.Lhs[0])
					}
				}
			case *ast.ReturnStmt:
				for _, r := range v.Results {
					if call, ok := r.(*ast.CallExpr); ok && exprName(call.Fun) == "DecodeIdFromList" {
						direct = true
					}
				}
			}
			return true
		})
		returnsId := direct
		if idVar != "" {
			ast.Inspect(fd.Body, func(n ast.Node) bool {
				if rs, ok := n.(*ast.ReturnStmt); ok {
					for _, r := range rs.Results {
						if i, ok := r.(*ast.Ident); ok && i.Name == idVar {
							returnsId = true
						}
					}
				}
				return true
			})
		}
		if returnsId {
			pi.pass[key] = true
		}
	}
}

// ifChainsOn translates if / else-if chains comparing id with constants
func ifChainsOn(body *ast.BlockStmt, id string, cs map[string]uint64) [][]entry {
	var out [][]entry
	ast.Inspect(body, func(n ast.Node) bool {
		head, ok := n.(*ast.IfStmt)
		if !ok {
			return true
		}
		var es []entry
		for s := head; s != nil; {
			v := variantOf(s.Body.List)
			ast.Inspect(s.Cond, func(m ast.Node) bool {
				be, ok := m.(*ast.BinaryExpr)
				if !ok || be.Op != token.EQL {
					return true
				}
				var other ast.Expr
				if mentions(be.X, id) {
					other = be.Y
				} else if mentions(be.Y, id) {
					other = be.X
				}
				if other == nil {
					return true
				}
				if k, ok := evalConst(other, cs, 0); ok {
					name := v
					if name == "" {
						name = types.ExprString(other)
					}
					es = append(es, entry{k, name})
				}
				return false
			})
			next, _ := s.Else.(*ast.IfStmt)
			s = next
		}
		if len(es) >= 2 {
			sort.SliceStable(es, func(i, j int) bool { return es[i].id < es[j].id })
			out = append(out, es)
			return false
		}
		return true
	})
	return out
}

// ctorLookups: tbl[id] where tbl is a package-level constructor table
func ctorLookups(pi *pkgInfo, body *ast.BlockStmt, id string) [][]entry {
	var out [][]entry
	ast.Inspect(body, func(n ast.Node) bool {
		ix, ok := n.(*ast.IndexExpr)
		if !ok || !mentions(ix.Index, id) {
			return true
		}
		if es, ok := pi.ctors[exprName(ix.X)]; ok {
			out = append(out, es)
		}
		return true
	})
	return out
}

type ntable struct {
	callee string // "" = found in the function itself
	es     []entry
}

// tablesFor: every dispatch over id in body; depth 1 follows the id into same-package callees
func tablesFor(pi *pkgInfo, body *ast.BlockStmt, id string, cs map[string]uint64, depth int) []ntable {
	var out []ntable
	for _, es := range switchesOn(body, id, cs) {
		out = append(out, ntable{"", es})
	}
	for _, es := range ifChainsOn(body, id, cs) {
		out = append(out, ntable{"", es})
	}
	for _, es := range ctorLookups(pi, body, id) {
		out = append(out, ntable{"", es})
	}
	if depth <= 0 {
		return out
	}
	ast.Inspect(body, func(n ast.Node) bool {
		call, ok := n.(*ast.CallExpr)
		if !ok {
			return true
		}
		for ai, a := range call.Args {
			if i, ok := a.(*ast.Ident); !ok || i.Name != id {
				continue
			}
			callee := exprName(call.Fun)
			var target *ast.FuncDecl
			for k2, f2 := range pi.funcs {
				if f2.Name.Name == callee && (k2 == callee || strings.HasSuffix(k2, "."+callee)) {
					target = f2
				}
			}
			if target == nil {
				continue
			}
			pos, pname := 0, ""
			for _, fl := range target.Type.Params.List {
				for _, nm := range fl.Names {
					if pos == ai {
						pname = nm.Name
					}
					pos++
				}
			}
			if pname == "" {
				continue
			}
			for _, t := range tablesFor(pi, target.Body, pname, cs, depth-1) {
				out = append(out, ntable{pi.dir + "." + funcKey(target), t.es})
			}
		}
		return true
	})
	return out
}

func evalConst(e ast.Expr, cs map[string]uint64, iota uint64) (uint64, bool) {
	switch v := e.(type) {
	case *ast.BasicLit:
		if v.Kind == token.INT {
			n, err := strconv.ParseUint(v.Value, 0, 64)
			return n, err == nil
		}
	case *ast.Ident:
		if v.Name == "iota" {
			return iota, true
		}
		n, ok := cs[v.Name]
		return n, ok
	case *ast.SelectorExpr:
		n, ok := cs[v.Sel.Name]
		return n, ok
	case *ast.ParenExpr:
		return evalConst(v.X, cs, iota)
	case *ast.CallExpr: // conversion T(x)
		if len(v.Args) == 1 {
			return evalConst(v.Args[0], cs, iota)
		}
	case *ast.BinaryExpr:
		a, ok1 := evalConst(v.X, cs, iota)
		b, ok2 := evalConst(v.Y, cs, iota)
		if ok1 && ok2 {
			switch v.Op {
			case token.ADD:
				return a + b, true
			case token.SUB:
				return a - b, true
			case token.MUL:
				return a * b, true
			case token.SHL:
				return a << b, true
			}
		}
	}
	return 0, false
}

func collectConsts(files []*ast.File, cs map[string]uint64) {
	for _, f := range files {
		for _, d := range f.Decls {
			gd, ok := d.(*ast.GenDecl)
			if !ok || gd.Tok != token.CONST {
				continue
			}
			var last []ast.Expr
			for i, sp := range gd.Specs {
				vs := sp.(*ast.ValueSpec)
				vals := vs.Values
				if len(vals) == 0 {
					vals = last
				} else {
					last = vals
				}
				for k, n := range vs.Names {
					if k < len(vals) {
						if v, ok := evalConst(vals[k], cs, uint64(i)); ok {
							if _, dup := cs[n.Name]; !dup {
								cs[n.Name] = v
							}
						}
					}
				}
			}
		}
	}
}

func recvName(fd *ast.FuncDecl) string {
	if fd.Recv == nil || len(fd.Recv.List) != 1 {
		return ""
	}
	rt := fd.Recv.List[0].Type
	if st, ok := rt.(*ast.StarExpr); ok {
		rt = st.X
	}
	return exprName(rt)
}

func funcKey(fd *ast.FuncDecl) string {
	if r := recvName(fd); r != "" {
		return r + "." + fd.Name.Name
	}
	return fd.Name.Name
}

// variantOf: the composite type whose address is taken in the first statements of a
// clause body (tmp = &T{...}); "" if there is none
func variantOf(body []ast.Stmt) string {
	variant := ""
	for k, bs := range body {
		if k > 1 {
			break
		}
		ast.Inspect(bs, func(m ast.Node) bool {
			if variant != "" {
				return false
			}
			if u, ok := m.(*ast.UnaryExpr); ok && u.Op == token.AND {
				if cl, ok := u.X.(*ast.CompositeLit); ok && cl.Type != nil {
					if _, isStruct := cl.Type.(*ast.StructType); !isStruct {
						variant = exprName(cl.Type)
					}
				}
			}
			return true
		})
		if variant != "" {
			break
		}
	}
	return variant
}

// switchesOn translates every switch in body that dispatches on identifier id
func switchesOn(body *ast.BlockStmt, id string, cs map[string]uint64) [][]entry {
	var out [][]entry
	ast.Inspect(body, func(n ast.Node) bool {
		sw, ok := n.(*ast.SwitchStmt)
		if !ok {
			return true
		}
		var es []entry
		if sw.Tag != nil {
			if !mentions(sw.Tag, id) {
				return true
			}
			for _, st := range sw.Body.List {
				cc := st.(*ast.CaseClause)
				v := variantOf(cc.Body)
				for _, ce := range cc.List {
					n, ok := evalConst(ce, cs, 0)
					if !ok {
						continue
					}
					name := v
					if name == "" {
						name = exprName(ce)
					}
					es = append(es, entry{n, name})
				}
			}
		} else {
			// switch { case id == K && ...: }
			for _, st := range sw.Body.List {
				cc := st.(*ast.CaseClause)
				v := variantOf(cc.Body)
				for _, ce := range cc.List {
					ast.Inspect(ce, func(m ast.Node) bool {
						be, ok := m.(*ast.BinaryExpr)
						if !ok || be.Op != token.EQL {
							return true
						}
						var other ast.Expr
						if i, ok := be.X.(*ast.Ident); ok && i.Name == id {
							other = be.Y
						} else if i, ok := be.Y.(*ast.Ident); ok && i.Name == id {
							other = be.X
						}
						if other == nil {
							return true
						}
						if n, ok := evalConst(other, cs, 0); ok {
							name := v
							if name == "" {
								name = types.ExprString(ce)
							}
							es = append(es, entry{n, name})
						}
						return false
					})
				}
			}
		}
		if len(es) > 0 {
			sort.SliceStable(es, func(i, j int) bool { return es[i].id < es[j].id })
			out = append(out, es)
			return false
		}
		return true
	})
	return out
}

func scanRepo() ([]gtable, []gsite, error) {
	root := repoRoot()
	fset := token.NewFileSet()
	var pkgs []*pkgInfo
	err := filepath.Walk(root, func(p string, fi os.FileInfo, err error) error {
		if err != nil {
			return err
		}
		if !fi.IsDir() {
			return nil
		}
		base := filepath.Base(p)
		if p != root && (strings.HasPrefix(base, ".") || base == "testdata" || base == "vendor") {
			return filepath.SkipDir
		}
		parsed, perr := parser.ParseDir(fset, p, func(f os.FileInfo) bool { return !strings.HasSuffix(f.Name(), "_test.go") }, 0)
		if perr != nil {
			return nil
		}
		for _, pk := range parsed {
			rel, _ := filepath.Rel(root, p)
			pi := &pkgInfo{dir: rel, funcs: map[string]*ast.FuncDecl{}}
			names := make([]string, 0, len(pk.Files))
			for n := range pk.Files {
				names = append(names, n)
			}
			sort.Strings(names)
			for _, n := range names {
				f := pk.Files[n]
				pi.files = append(pi.files, f)
				for _, d := range f.Decls {
					if fd, ok := d.(*ast.FuncDecl); ok && fd.Body != nil {
						pi.funcs[funcKey(fd)] = fd
					}
				}
			}
			pkgs = append(pkgs, pi)
		}
		return nil
	})
	if err != nil {
		return nil, nil, err
	}
	sort.Slice(pkgs, func(i, j int) bool { return pkgs[i].dir < pkgs[j].dir })
	// constants: own package first, then ledger/common and ledger (the packages the decoders import)
	shared := map[string]uint64{}
	for _, pi := range pkgs {
		if pi.dir == "ledger/common" || pi.dir == "ledger" {
			collectConsts(pi.files, shared)
		}
	}
	var tables []gtable
	var sites []gsite
	for _, pi := range pkgs {
		if pi.dir == "cbor" {
			continue // the definitions themselves
		}
		cs := map[string]uint64{}
		collectConsts(pi.files, cs)
		for k, v := range shared {
			if _, ok := cs[k]; !ok {
				cs[k] = v
			}
		}
		collectCtors(pi, cs)
		collectPass(pi)
		keys := make([]string, 0, len(pi.funcs))
		for k := range pi.funcs {
			keys = append(keys, k)
		}
		sort.Strings(keys)
		for _, key := range keys {
			fd := pi.funcs[key]
			site := pi.dir + "." + key
			// ---- id maps (literals and additions) ----
			nmap := 0
			ast.Inspect(fd.Body, func(n ast.Node) bool {
				as, ok := n.(*ast.AssignStmt)
				var lit *ast.CompositeLit
				label := ""
				if ok && len(as.Rhs) == 1 {
					if cl, ok := as.Rhs[0].(*ast.CompositeLit); ok {
						lit, label = cl, exprName(as.Lhs[0])
					}
				} else if cl, ok := n.(*ast.CompositeLit); ok {
					lit = cl
				}
				if lit == nil {
					return true
				}
				mt, ok := lit.Type.(*ast.MapType)
				if !ok || exprName(mt.Key) != "int" {
					return true
				}
				var es []entry
				for _, el := range lit.Elts {
					kv, ok := el.(*ast.KeyValueExpr)
					if !ok {
						continue
					}
					id, ok := evalConst(kv.Key, cs, 0)
					if !ok {
						continue
					}
					v := ""
					if u, ok := kv.Value.(*ast.UnaryExpr); ok && u.Op == token.AND {
						if cl, ok := u.X.(*ast.CompositeLit); ok {
							v = exprName(cl.Type)
						}
					}
					if v == "" {
						continue
					}
					es = append(es, entry{id, v})
				}
				if len(es) > 0 {
					if label == "" {
						label = strconv.Itoa(nmap)
					}
					nmap++
					sort.SliceStable(es, func(i, j int) bool { return es[i].id < es[j].id })
					tables = append(tables, gtable{site + "#" + label, es})
				}
				return false
			})
			// additions m[K] = &T{} grouped by the enclosing case label
			ast.Inspect(fd.Body, func(n ast.Node) bool {
				cc, ok := n.(*ast.CaseClause)
				if !ok || len(cc.List) == 0 {
					return true
				}
				var es []entry
				mapv := ""
				for _, st := range cc.Body {
					as, ok := st.(*ast.AssignStmt)
					if !ok || len(as.Lhs) != 1 || len(as.Rhs) != 1 {
						continue
					}
					ix, ok := as.Lhs[0].(*ast.IndexExpr)
					if !ok {
						continue
					}
					u, ok := as.Rhs[0].(*ast.UnaryExpr)
					if !ok || u.Op != token.AND {
						continue
					}
					cl, ok := u.X.(*ast.CompositeLit)
					if !ok {
						continue
					}
					if id, ok := evalConst(ix.Index, cs, 0); ok {
						es = append(es, entry{id, exprName(cl.Type)})
						mapv = exprName(ix.X)
					}
				}
				if len(es) > 0 {
					sort.SliceStable(es, func(i, j int) bool { return es[i].id < es[j].id })
					tables = append(tables, gtable{site + "#" + mapv + "+" + exprName(cc.List[0]), es})
				}
				return true
			})
			// ---- dispatch over the id ----
			if pi.pass[key] {
				continue // a pass-through helper: its callers are the sites
			}
			idVar, usesById := "", false
			ast.Inspect(fd.Body, func(n ast.Node) bool {
				switch v := n.(type) {
				case *ast.AssignStmt:
					if len(v.Rhs) == 1 {
						if call, ok := v.Rhs[0].(*ast.CallExpr); ok && idVar == "" &&
							(exprName(call.Fun) == "DecodeIdFromList" || pi.pass[exprName(call.Fun)]) {
							idVar = exprName(v.Lhs[0])
						}
					}
				case *ast.CallExpr:
					if exprName(v.Fun) == "DecodeById" {
						usesById = true
					}
				}
				return true
			})
			if idVar == "" && !usesById {
				continue
			}
			found := 0
			if idVar != "" {
				nts := tablesFor(pi, fd.Body, idVar, cs, 1)
				own := 0
				for _, t := range nts {
					name := t.callee
					if name == "" || len(nts) == 1 {
						name = site
						if t.callee == "" && own > 0 {
							name += "#" + strconv.Itoa(own)
						}
						own++
					}
					tables = append(tables, gtable{name, t.es})
					found++
				}
			}
			sites = append(sites, gsite{site, found + nmap})
		}
	}
	// unique table names, deterministic order
	seen := map[string]int{}
	for i := range tables {
		seen[tables[i].name]++
		if seen[tables[i].name] > 1 {
			tables[i].name += "~" + strconv.Itoa(seen[tables[i].name])
		}
	}
	sort.SliceStable(tables, func(i, j int) bool { return tables[i].name < tables[j].name })
	return tables, sites, nil
}

func gen2(sb *strings.Builder, sources *[]string) error {
	tables, sites, err := cachedScan()
	if err != nil {
		return err
	}
	tables = append([]gtable(nil), tables...)
	sites = append([]gsite(nil), sites...)
	have := map[string]bool{}
	for _, t := range tables {
		have[t.name] = true
		*sources = append(*sources, fmt.Sprintf("(%s, %s)", vh.Str(t.name), vh.Str("ast")))
	}
	// a known decoder whose dispatch the scan did not recognise: probe it
	for _, fam := range append(families(), families2()...) {
		if fam.table == "" || have[fam.table] {
			continue
		}
		es, _ := probeFamily(fam, nil)
		if len(es) == 0 {
			continue
		}
		have[fam.table] = true
		tables = append(tables, gtable{fam.table, es})
		for k := range sites { // the probe table counts for its site
			if sites[k].name == fam.table {
				sites[k].tables++
			}
		}
		*sources = append(*sources, fmt.Sprintf("(%s, %s)", vh.Str(fam.table), vh.Str("probe")))
	}
	sort.SliceStable(tables, func(i, j int) bool { return tables[i].name < tables[j].name })
	sb.WriteString("\n(* every switch over an id from cbor.DecodeIdFromList and every int-keyed idMap in the repository *)\n")
	sb.WriteString("Definition gen_tables_all : list (string * list (N * string)) := [\n")
	for k, t := range tables {
		var xs []string
		for _, e := range t.entries {
			xs = append(xs, fmt.Sprintf("(%d, %s)", e.id, vh.Str(e.variant)))
		}
		sep := ";"
		if k == len(tables)-1 {
			sep = ""
		}
		fmt.Fprintf(sb, "  (%s, [%s])%s\n", vh.Str(t.name), strings.Join(xs, "; "), sep)
	}
	sb.WriteString("].\n\n(* every function that calls DecodeIdFromList / DecodeById, with the number of tables translated from it *)\n")
	sb.WriteString("Definition gen_sites : list (string * N) := [\n")
	for k, s := range sites {
		sep := ";"
		if k == len(sites)-1 {
			sep = ""
		}
		fmt.Fprintf(sb, "  (%s, %d)%s\n", vh.Str(s.name), s.tables, sep)
	}
	sb.WriteString("].\n")
	return nil
}
