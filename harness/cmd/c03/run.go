package main

import (
	"encoding/json"
	"fmt"
	"os"

	"github.com/blinklabs-io/gouroboros/cbor"
	fx "github.com/fxamacker/cbor/v2"

	"verifharness/vh"
)

type replay struct {
	Kind string `json:"kind"` // "id" | "variant" | "parser" | "dirty"
	Fam  string `json:"family,omitempty"`
	Hex  string `json:"hex"`
	Prev string `json:"previous_full_hex,omitempty"` // dirty: what the receiver was decoded from before
	Obs  any    `json:"observed,omitempty"`
}

// accepted is one shape of a family that decodes in minimal form
type accepted struct {
	sh      shape
	full    []byte
	variant string
}

// obsOf decodes full (after prev, into the same receiver) and returns variant and deep observation
func obsOf(fam family, full []byte, prev ...[]byte) (string, string, error) {
	var v, deep string
	var err error
	lastDst = nil
	if pan, pv := vh.Recover(func() { v, err = fam.decode(full, prev...) }); pan {
		return "", "", fmt.Errorf("panic: %v", pv)
	}
	if err == nil && lastDst != nil {
		deep = deepObs(lastDst)
	}
	return v, deep, err
}

// dirtyCase: the receiver was first decoded from prev; the observation must be that of a fresh receiver
func dirtyCase(c *vh.Ctx, cf *vh.CaseFile, fam family, it *vh.Item, tgt accepted, prev accepted, thin int, n *int) {
	inner := it.Enc()
	full := fam.full(it)
	rp := replay{Kind: "dirty", Fam: fam.name, Hex: vh.Hex(inner), Prev: vh.Hex(prev.full)}
	c.Begin(rp)
	fv, fdeep, ferr := obsOf(fam, full)
	if ferr != nil {
		return // the variant monitor reports rejections of a fresh receiver
	}
	_, fdeep2, _ := obsOf(fam, full)
	dv, ddeep, derr := obsOf(fam, full, prev.full)
	class := fam.name + ":" + prev.variant + "->" + tgt.variant
	c.Res.Count("dirty:"+vh.Hex(prev.full)+">"+vh.Hex(full), true, "dirty-receiver:"+fam.name)
	differs := false
	switch {
	case derr == errDirtySetup:
		c.Res.Distribution["dirty-setup-failed:"+fam.name]++
		return
	case derr != nil:
		differs = true
		c.Res.Violate("monitor", "dirty-receiver-rejects:"+class,
			fmt.Sprintf("%s: %s decodes into a fresh receiver (%s) but is rejected by a receiver previously decoded from %s: %v", fam.name, vh.Hex(full), fv, vh.Hex(prev.full), derr), rp)
	case dv != fv:
		differs = true
		c.Res.Violate("monitor", "dirty-receiver-differs:"+class,
			fmt.Sprintf("%s: first element %d; a fresh receiver presents %s, a receiver previously decoded from %s presents %s (input %s)", fam.name, tgt.sh.id, fv, vh.Hex(prev.full), dv, vh.Hex(full)), rp)
	case fdeep == fdeep2 && ddeep != fdeep:
		differs = true
		c.Res.Violate("monitor", "dirty-receiver-differs:"+class+":payload",
			fmt.Sprintf("%s: same variant %s but re-encoding/JSON differ: fresh %.200s, after %s: %.200s (input %s)", fam.name, fv, fdeep, vh.Hex(prev.full), ddeep, vh.Hex(full)), rp)
	}
	// the model is a function of the input bytes only: the id named by the variant the dirty
	// receiver presents goes through the same Coq check as a fresh observation
	*n++
	if differs || thin <= 1 || *n%thin == 0 {
		o := observe(inner)
		if derr != nil {
			o.Id = nil
		} else if dv != fv {
			o.Id = nil
			for _, id := range ids(fam.spec) {
				if fam.spec[id] == dv {
					k := int(id)
					o.Id = &k
					if id == prev.sh.id {
						break
					}
				}
			}
		} else if differs {
			o.Id = nil // right variant, stale payload: not the decoding of these bytes
		}
		o.Class = "dirty:" + class
		rp.Obs = o
		cf.Add(o.coq(inner), rp)
	}
}

func run(c *vh.Ctx) error {
	c.Res.Rule = "one case = one byte string fed to cbor.ListLength/DecodeIdFromList (and, for tagged shapes, to the real decoder); " +
		"tagged shapes: every family shape x 6 outer header forms x every admissible integer form of the id (+ reformed payloads); " +
		"non-trivial = outer header is not the minimal one-byte form, or the id is not an immediate integer, or the input is an error case; " +
		"distinct = distinct byte string"
	c.Res.Modelled = []string{
		"fxamacker's decode-time acceptance (UTF-8, depth, duplicate keys, limits, built-in tag rules) enters the model as the observed booleans raw_ok/val_ok of each case",
		"int is 64 bits (MaxInt = 2^63-1)",
	}
	cf := c.NewCaseFile("id", header)
	pf := c.NewCaseFile("parse", header)
	pf.Func, pf.Type = "pmismatches", "pcase"

	coqEvery, coqCount := 1, 0 // thinning of the Coq cases of the second-round families in the quick tier
	idCase := func(b []byte, class string, expect *int64, nontrivial bool) obs {
		rp := replay{Kind: "id", Hex: vh.Hex(b)}
		c.Begin(rp)
		var o obs
		pan, pv := vh.Recover(func() { o = observe(b) })
		o.Class, o.Expect = class, expect
		c.Res.Count(o.Hex, nontrivial, class)
		if pan {
			c.Res.Violate("monitor", "decode-id-panic", fmt.Sprintf("DecodeIdFromList/ListLength panicked: %v", pv), rp)
			return o
		}
		rp.Obs = o
		coqCount++
		if coqEvery <= 1 || coqCount%coqEvery == 0 {
			cf.Add(o.coq(b), rp)
		}
		// monitor: the id is the first element (oracle: we built the list)
		if expect != nil {
			switch {
			case *expect >= 0 && (o.Id == nil || int64(*o.Id) != *expect):
				got := "error"
				if o.Id != nil {
					got = fmt.Sprint(*o.Id)
				}
				c.Res.Violate("monitor", "decode-id-wrong:"+class,
					fmt.Sprintf("DecodeIdFromList(%s) = %s, first list element is %d", o.Hex, got, *expect), rp)
			case *expect < 0 && o.Id != nil:
				c.Res.Violate("monitor", "decode-id-accepts:"+class,
					fmt.Sprintf("DecodeIdFromList(%s) = %d but the input has no unsigned first element", o.Hex, *o.Id), rp)
			}
		}
		return o
	}

	if c.Replay != "" {
		return doReplay(c, idCase)
	}

	// ---- (a)+(b): tagged shapes -------------------------------------------------
	fams := append(families(), families2()...)
	rounds := c.Pick(1, 6)
	nFirst := len(families())
	for fi, fam := range fams {
		coqEvery = 1
		if fi >= nFirst {
			coqEvery = c.Pick(4, 3)
		}
		done := map[uint64]bool{}
		exercised := map[uint64]bool{}
		var acc []accepted
		for _, sh := range fam.shapes {
			if fam.firstAccepted && done[sh.id] {
				continue
			}
			// baseline: minimal encoding must decode, otherwise the shape itself is wrong
			base := fam.full(tagged(vh.Fimm, vh.MinForm(sh.id), sh.id, sh.rest))
			var baseVar string
			var err error
			if pan, pv := vh.Recover(func() { baseVar, err = fam.decode(base) }); pan {
				err = fmt.Errorf("panic: %v", pv)
			}
			if err != nil || (fam.firstAccepted && fam.spec != nil && baseVar != fam.spec[sh.id]) {
				if !fam.firstAccepted {
					c.Res.Count(vh.Hex(base), false, "shape-rejected:"+fam.name)
					c.Res.Notes = append(c.Res.Notes, fmt.Sprintf("%s shape id=%d rejected in minimal form: %v", fam.name, sh.id, err))
				}
				continue
			}
			done[sh.id] = true
			exercised[sh.id] = true
			acc = append(acc, accepted{sh, base, baseVar})
			for _, of := range outerForms {
				for _, idf := range intForms(sh.id) {
					for r := 0; r < rounds; r++ {
						it := tagged(of, idf, sh.id, sh.rest)
						if r > 0 { // reformed payload, outer header and id form kept
							rest := make([]*vh.Item, len(sh.rest))
							for k, x := range sh.rest {
								rest[k] = vh.Reform(c.Rng, x, vh.ReformOpts{Ints: true, Strings: true, Containers: true, Indef: true, Prob: 50})
							}
							it = tagged(of, idf, sh.id, rest)
						}
						b := it.Enc()
						class := "hdr=" + formName[of] + ",id=" + formName[idf]
						exp := int64(sh.id)
						nontriv := of != vh.Fimm || idf != vh.Fimm
						o := idCase(b, class, &exp, nontriv)
						// the variant
						rp := replay{Kind: "variant", Fam: fam.name, Hex: vh.Hex(b)}
						c.Begin(rp)
						var got string
						var derr error
						pan, pv := vh.Recover(func() { got, derr = fam.decode(fam.full(it)) })
						want := fam.spec[sh.id]
						if fam.spec == nil { // no generated table for this decoder: only the comparison with the minimal form applies
							want = baseVar
						}
						o.Variant = got
						c.Res.Distribution["family:"+fam.name]++
						c.Res.Sample(map[string]any{"family": fam.name, "hex": o.Hex, "header": formName[of], "id_form": formName[idf], "id": sh.id, "variant": got})
						switch {
						case pan:
							c.Res.Violate("monitor", "variant-panic:"+fam.name, fmt.Sprintf("%s decoder panicked on %s: %v", fam.name, o.Hex, pv), rp)
						case derr != nil:
							// an encoding of the same list that the minimal form accepts must not be rejected
							c.Res.Violate("monitor", "variant-rejected:"+fam.name+":"+class,
								fmt.Sprintf("%s: tag %d decodes as %s with a minimal header but %s is rejected: %v", fam.name, sh.id, baseVar, o.Hex, derr), rp)
						case got != want || got != baseVar:
							c.Res.Violate("monitor", "variant-wrong:"+fam.name+":"+class,
								fmt.Sprintf("%s: first element %d names %s, decoded variant is %s (input %s)", fam.name, sh.id, want, got, o.Hex), rp)
						}
					}
				}
			}
		}
		// ---- dirty receivers: every accepted shape decoded into a value that already holds
		// another variant (first accepted shape of every other id) or the same variant with a
		// different payload
		ndirty := 0
		for ti, tgt := range acc {
			var prevs []accepted
			seenId := map[uint64]bool{}
			for pi, p := range acc {
				if pi == ti {
					continue
				}
				if p.sh.id == tgt.sh.id {
					if !seenId[p.sh.id] && string(p.full) != string(tgt.full) {
						prevs = append(prevs, p)
						seenId[p.sh.id] = true
					}
				} else if !seenId[p.sh.id] {
					prevs = append(prevs, p)
					seenId[p.sh.id] = true
				}
			}
			if !seenId[tgt.sh.id] { // same variant, other payload: a re-formed copy of the same list
				alt := tagged(vh.F1, vh.F1, tgt.sh.id, tgt.sh.rest)
				prevs = append(prevs, accepted{tgt.sh, fam.full(alt), tgt.variant})
			}
			forms := [][2]vh.Form{{vh.Fimm, vh.MinForm(tgt.sh.id)}}
			if c.Thorough() {
				for _, of := range outerForms[1:] {
					forms = append(forms, [2]vh.Form{of, vh.MinForm(tgt.sh.id)})
				}
			} else {
				idfs := intForms(tgt.sh.id)
				forms = append(forms, [2]vh.Form{outerForms[1+c.Rng.Intn(5)], idfs[c.Rng.Intn(len(idfs))]})
			}
			for _, f := range forms {
				it := tagged(f[0], f[1], tgt.sh.id, tgt.sh.rest)
				for _, p := range prevs {
					dirtyCase(c, cf, fam, it, tgt, p, c.Pick(8, 4), &ndirty)
				}
			}
		}
		var missing []uint64
		for _, id := range ids(fam.spec) {
			if !exercised[id] {
				missing = append(missing, id)
			}
		}
		if len(missing) > 0 {
			c.Res.Distribution["unexercised-ids:"+fam.name] += len(missing)
			c.Res.Notes = append(c.Res.Notes, fmt.Sprintf("%s: no payload accepted in minimal form for ids %v (variant not monitored for them; DecodeIdFromList itself is covered by the family-independent cases)", fam.name, missing))
		}
	}

	coqEvery = 1
	// ---- (a): error behaviour and corner inputs ---------------------------------
	neg := int64(-1)
	corpus := []string{
		"", "80", "8000", "9800", "990000", "9fff", "9fff00", "f6", "f7", "f600", "c18101", "d8798101", "d879810100", "4101", "a10102", "6161",
		"8120", "81c249010000000000000000", "811b8000000000000000", "8161ff", "98", "9801", "81", "8200", "97000000", "9f0001", "821c00", "82001c",
		"818100", "81f6", "9f20ff", "98012000", "9f", "9f00", "810000", "1800", "00", "0000", "ff00", "bf0001ff", "9b000000000000000000",
		"9b00000000000000010000", "9bffffffffffffffff00", "9affffffff00", "817818", "81a0", "81fb3ff0000000000000",
	}
	for _, hx := range corpus {
		b := vh.UnHex(hx)
		idCase(b, "corner", expectOf(b), true)
	}
	// ids at integer boundaries, every outer form
	for _, n := range []uint64{0, 2, 23, 24, 255, 65536, 1 << 32, 1<<63 - 1} {
		for _, of := range outerForms {
			for _, idf := range intForms(n) {
				for _, extra := range []int{0, 21, 22, 23} {
					if !vh.Fits(of, uint64(extra+1)) {
						continue
					}
					var rest []*vh.Item
					for k := 0; k < extra; k++ {
						rest = append(rest, vh.U(uint64(k)))
					}
					exp := int64(n)
					idCase(tagged(of, idf, n, rest).Enc(), fmt.Sprintf("boundary:hdr=%s,id=%s", formName[of], formName[idf]), &exp, true)
				}
			}
		}
	}
	// ids above MaxInt and first elements that are not unsigned integers: errors for every form
	for _, of := range outerForms {
		idCase(tagged(of, vh.F8, 1<<63, nil).Enc(), "too-large:hdr="+formName[of], &neg, true)
		idCase(tagged(of, vh.F8, ^uint64(0), []*vh.Item{vh.U(1)}).Enc(), "too-large:hdr="+formName[of], &neg, true)
		for _, x := range []*vh.Item{vh.NI(0), vh.NI(5), vh.B([]byte{1}), vh.T("a"), vh.A(vh.U(1)), vh.M(vh.U(1), vh.U(2)), vh.TagOf(2, vh.B([]byte{1})),
			vh.Null(), vh.BoolItem(true), {K: vh.KFloat, F: vh.F2, N: 0x3c00}, {K: vh.KBStrI}, {K: vh.KArr, F: vh.Findef}} {
			it := &vh.Item{K: vh.KArr, F: of, Xs: []*vh.Item{x, vh.U(3)}}
			idCase(it.Enc(), "first-not-uint:hdr="+formName[of], &neg, true)
		}
		idCase((&vh.Item{K: vh.KArr, F: of}).Enc(), "empty:hdr="+formName[of], &neg, true)
	}
	// random well-formed items (mostly not tagged lists) and their truncations/corruptions
	nr := c.Pick(250, 3000)
	for k := 0; k < nr; k++ {
		it := vh.RandItem(c.Rng, 3)
		b := it.Enc()
		if len(b) > 300 {
			continue
		}
		idCase(b, "random-item", expectOf(b), true)
		if len(b) > 1 && k%2 == 0 {
			idCase(b[:1+c.Rng.Intn(len(b)-1)], "random-truncated", nil, true)
		}
		if k%3 == 0 {
			m := append([]byte(nil), b...)
			m[c.Rng.Intn(len(m))] = byte(c.Rng.U64())
			idCase(m, "random-corrupted", expectOf(m), true)
		}
	}
	cf.Flush()

	// ---- (c): validation of the Lib parser ---------------------------------------
	parserCase := func(b []byte, class string) {
		rp := replay{Kind: "parser", Hex: vh.Hex(b)}
		it, used, err := vh.ParseItem(b)
		cls := classOf(err)
		wc, wused, huge := walk(b)
		c.Res.Count("p:"+vh.Hex(b), true, "parser:"+class+":"+[]string{"ok", "needmore", "bad"}[wc])
		// the two Go walkers must agree, except that vh.ParseItem reports NeedMore early when a
		// definite container announces more elements than bytes remain (documented difference)
		if cls != wc || (cls == clsOk && used != wused) {
			if huge && cls == clsShort {
				c.Res.Count("p:"+vh.Hex(b), false, "parser:vh-early-needmore")
			} else {
				c.Res.Violate("correspondence", "parser-mirrors-disagree", fmt.Sprintf("vh.ParseItem class %d used %d, strict walker class %d used %d on %s", cls, used, wc, wused, vh.Hex(b)), rp)
			}
		}
		tree := "None"
		if wc == clsOk && cls == clsOk {
			tree = "(Some " + it.Coq() + ")"
		} else if wc == clsOk {
			return
		}
		pf.Add(fmt.Sprintf("(%s, %s, %s, %s)", vh.Bytes(b), vh.N(uint64(wc)), vh.N(uint64(wused)), tree), rp)
		// fxamacker / the repository's decoder on well-formedness.  They are stricter in
		// documented ways (nesting depth, and at decode time UTF-8, duplicate keys, tag
		// content): those inputs are not generated here except depth, which is excluded.
		deep := depth(b) > 30 || builtinTag(b)
		fxErr := fx.Wellformed(b)
		var raw cbor.RawMessage
		n, rerr := cbor.Decode(b, &raw)
		switch wc {
		case clsOk:
			if !deep && fx.Wellformed(b[:wused]) != nil {
				c.Res.Violate("correspondence", "parser-vs-fxamacker:rejects-wellformed", "fxamacker Wellformed rejects "+vh.Hex(b[:wused]), rp)
			}
			if !deep && (rerr != nil || n != wused) {
				c.Res.Violate("correspondence", "parser-vs-repo-decode:ok", fmt.Sprintf("cbor.Decode RawMessage err=%v read=%d, parser consumed %d of %s", rerr, n, wused, vh.Hex(b)), rp)
			}
		default:
			if fxErr == nil {
				c.Res.Violate("correspondence", "parser-vs-fxamacker:accepts-malformed", "fxamacker Wellformed accepts "+vh.Hex(b), rp)
			}
			if rerr == nil {
				c.Res.Violate("correspondence", "parser-vs-repo-decode:accepts", "cbor.Decode into RawMessage accepts "+vh.Hex(b), rp)
			}
		}
	}
	for _, hx := range append(corpus, "1c", "1f", "3f", "df00", "ff", "81ff", "5f6100ff", "5f5fffff", "7f4100ff", "f800", "f81f", "f820", "bf01ff", "bf0102ff",
		"5f4101", "5f", "7f", "bf", "d8", "fb0000", "9b", "bb", "5b", "a1", "a101", "c0", "f8", "1c00", "9f1cff", "a11c00", "5f1cff", "5f41", "5f4101ff", "7f6161ff") {
		parserCase(vh.UnHex(hx), "corpus")
	}
	np := c.Pick(200, 4000)
	for k := 0; k < np; k++ {
		b := vh.RandItem(c.Rng, 3).Enc()
		if len(b) > 250 {
			continue
		}
		parserCase(append(append([]byte(nil), b...), c.Rng.Bytes(c.Rng.Intn(3))...), "item+tail")
		if len(b) > 1 {
			parserCase(b[:c.Rng.Intn(len(b))], "truncated")
		}
		m := append([]byte(nil), b...)
		for j := 0; j <= c.Rng.Intn(2); j++ {
			m[c.Rng.Intn(len(m))] = byte(c.Rng.U64())
		}
		parserCase(m, "corrupted")
		if k%4 == 0 {
			parserCase(c.Rng.Bytes(1+c.Rng.Intn(12)), "random-bytes")
		}
	}
	pf.Flush()
	c.Res.TracesValidated = c.Res.CoqCases
	return nil
}

// builtinTag: the first item contains a tag 0..3, whose content fxamacker checks
// even when decoding into RawMessage (stricter than well-formedness)
func builtinTag(b []byte) bool {
	it, _, err := vh.ParseItem(b)
	if err != nil {
		return false
	}
	var f func(i *vh.Item) bool
	f = func(i *vh.Item) bool {
		if i.K == vh.KTag && i.N <= 3 {
			return true
		}
		for _, x := range i.Xs {
			if f(x) {
				return true
			}
		}
		return false
	}
	return f(it)
}

// nesting depth of the first item (rough: counts open containers/tags along the deepest path)
func depth(b []byte) int {
	it, _, err := vh.ParseItem(b)
	if err != nil {
		return 0
	}
	var d func(i *vh.Item) int
	d = func(i *vh.Item) int {
		m := 0
		for _, x := range i.Xs {
			if k := d(x); k > m {
				m = k
			}
		}
		return m + 1
	}
	return d(it)
}

// expectOf derives the expected id from the bytes with the independent walker:
// the first element if the input starts with a well-formed list whose first
// element is an unsigned integer below 2^63, -1 (= must be an error) if it
// starts with a well-formed item of any other shape, nil (no expectation) if
// it is not well-formed
func expectOf(b []byte) *int64 {
	it, _, err := vh.ParseItem(b)
	if err != nil {
		return nil
	}
	e := int64(-1)
	if it.K == vh.KArr && len(it.Xs) > 0 && it.Xs[0].K == vh.KUInt && it.Xs[0].N < 1<<63 {
		e = int64(it.Xs[0].N)
	}
	return &e
}

func doReplay(c *vh.Ctx, idCase func([]byte, string, *int64, bool) obs) error {
	raw, err := os.ReadFile(c.Replay)
	if err != nil {
		return err
	}
	var outer struct {
		Replay replay `json:"replay"`
	}
	if err := json.Unmarshal(raw, &outer); err != nil {
		return err
	}
	rp := outer.Replay
	b := vh.UnHex(rp.Hex)
	exp := expectOf(b)
	hdr := "replay"
	if it, _, err := vh.ParseItem(b); err == nil && it.K == vh.KArr {
		hdr = "hdr=" + formName[it.F]
		if len(it.Xs) > 0 {
			hdr += ",id=" + formName[it.Xs[0].F]
		}
	}
	idCase(b, hdr, exp, true)
	if rp.Kind == "dirty" {
		for _, fam := range append(families(), families2()...) {
			if fam.name != rp.Fam {
				continue
			}
			it, _, perr := vh.ParseItem(b)
			if perr != nil || it.K != vh.KArr || len(it.Xs) == 0 {
				continue
			}
			prevFull := vh.UnHex(rp.Prev)
			pv, _, _ := obsOf(fam, prevFull)
			tv, _, _ := obsOf(fam, fam.full(it))
			n := 0
			cf := c.NewCaseFile("id", header)
			dirtyCase(c, cf, fam, it, accepted{shape{it.Xs[0].N, it.Xs[1:]}, fam.full(it), tv}, accepted{shape{}, prevFull, pv}, 1, &n)
		}
	}
	if rp.Kind == "variant" {
		for _, fam := range append(families(), families2()...) {
			if fam.name != rp.Fam {
				continue
			}
			full := b
			if it, _, perr := vh.ParseItem(b); perr == nil {
				full = fam.full(it)
			}
			got, derr := fam.decode(full)
			want := ""
			if exp != nil && *exp >= 0 {
				want = fam.spec[uint64(*exp)]
			}
			if derr != nil || got != want {
				c.Res.Violate("monitor", "variant-wrong:"+fam.name+":"+hdr, fmt.Sprintf("%s: first element names %s, decoded %q err=%v (input %s)", fam.name, want, got, derr, rp.Hex), rp)
			}
		}
	}
	return nil
}
