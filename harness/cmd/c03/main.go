// C03 - tagged-sum decoding follows the tag, whatever the length encoding.
//
//	gen : id -> variant tables of the tagged-sum decoders, from the Go switch statements (go/ast)
//	run : (a) DecodeIdFromList / ListLength on every tagged list shape x 6 header forms x integer forms,
//	          random items and malformed inputs  -> Coq cases (model = implementation)
//	      (b) the decoded VARIANT of the real decoders (native script, certificate, nonce, drep,
//	          governance action, peer address, datum option)           -> monitor
//	      (c) validation of the Lib CBOR parser: vh.ParseItem / fxamacker / cbor.Decode vs Coq parse_full
package main

import (
	"encoding/json"
	"errors"
	"fmt"
	"net"
	"sort"
	"strings"

	"github.com/blinklabs-io/gouroboros/cbor"
	"github.com/blinklabs-io/gouroboros/ledger/babbage"
	"github.com/blinklabs-io/gouroboros/ledger/common"
	"github.com/blinklabs-io/gouroboros/ledger/conway"
	"github.com/blinklabs-io/gouroboros/protocol/peersharing"

	"verifharness/vh"
)

const header = `From Coq Require Import String.
From V Require Import Lib.Base Lib.Hex Lib.Cbor Lib.CborParse C03.Model.
Open Scope N_scope.`

var outerForms = []vh.Form{vh.Fimm, vh.F1, vh.F2, vh.F4, vh.F8, vh.Findef}
var formName = map[vh.Form]string{vh.Fimm: "Fimm", vh.F1: "F1", vh.F2: "F2", vh.F4: "F4", vh.F8: "F8", vh.Findef: "indef"}

func intForms(n uint64) []vh.Form {
	var fs []vh.Form
	for _, f := range []vh.Form{vh.Fimm, vh.F1, vh.F2, vh.F4, vh.F8} {
		if vh.Fits(f, n) {
			fs = append(fs, f)
		}
	}
	return fs
}

func uintF(n uint64, f vh.Form) *vh.Item { return &vh.Item{K: vh.KUInt, F: f, N: n} }

// tagged builds [id, rest...] with the given outer header form and id integer form
func tagged(of vh.Form, idf vh.Form, id uint64, rest []*vh.Item) *vh.Item {
	xs := append([]*vh.Item{uintF(id, idf)}, rest...)
	return &vh.Item{K: vh.KArr, F: of, Xs: xs}
}

// ---------------------------------------------------------------------------
// the tagged-sum families: shapes, spec tables (written from the CDDL / the
// documented constants, NOT read from the switch statements) and observers

type shape struct {
	id   uint64
	rest []*vh.Item
}

type family struct {
	name   string
	spec   map[uint64]string
	shapes []shape
	decode func(b []byte, prev ...[]byte) (string, error)
	// wrap embeds the tagged list into the structure the decoder expects (nil = the list itself)
	wrap func(*vh.Item) *vh.Item
	// firstAccepted: the shapes are candidates; per id only the first one accepted in minimal form is used
	firstAccepted bool
	// table: name of the generated dispatch table of this decoder (gen_tables_all)
	table string
	// probeAlias renames observed variants to the labels the AST translation would give (probe fallback)
	probeAlias map[string]string
}

// decodeInto decodes the encodings of prev (in order) and then b into the SAME
// destination: the receiver of the last decode is "dirty" when prev is not empty.
var errDirtySetup = errors.New("dirty receiver: a previous encoding was rejected")
var lastDst any

func decodeInto(dst any, b []byte, prev [][]byte) error {
	for _, p := range prev {
		if _, err := cbor.Decode(p, dst); err != nil {
			return errDirtySetup
		}
	}
	lastDst = dst
	_, err := cbor.Decode(b, dst)
	return err
}

// deepObs: what the decoded value presents beyond its variant: its re-encoding and its JSON form
func deepObs(v any) (out string) {
	defer func() {
		if r := recover(); r != nil {
			out = fmt.Sprintf("panic:%v", r)
		}
	}()
	enc, err := cbor.Encode(v)
	out = vh.Hex(enc)
	if err != nil {
		out = "enc-err"
	}
	js, jerr := json.Marshal(v)
	if jerr != nil {
		return out + "|json-err"
	}
	return out + "|" + string(js)
}

// table names of the first-round families
var famTable = map[string]string{
	"native-script": "ledger/common.NativeScript.UnmarshalCBOR",
	"certificate":   "ledger/common.CertificateWrapper.UnmarshalCBOR",
	"nonce":         "ledger/common.Nonce.UnmarshalCBOR",
	"drep":          "ledger/common.Drep.UnmarshalCBOR",
	"gov-action":    "ledger/conway.ConwayGovAction.UnmarshalCBOR",
	"peer-address":  "protocol/peersharing.PeerAddress.UnmarshalCBOR",
	"datum-option":  "ledger/babbage.BabbageTransactionOutputDatumOption.UnmarshalCBOR",
}

// probeFamily builds the id -> variant table of a decoder by RUNNING it: every
// shape is decoded in minimal form and the concrete variant observed is recorded.
// ids (of wanted) for which no payload is accepted are returned as unprobed.
func probeFamily(fam family, wanted []uint64) ([]entry, []uint64) {
	got := map[uint64]string{}
	for _, sh := range fam.shapes {
		if _, ok := got[sh.id]; ok {
			continue
		}
		var v string
		var err error
		b := fam.full(tagged(vh.Fimm, vh.MinForm(sh.id), sh.id, sh.rest))
		if pan, _ := vh.Recover(func() { v, err = fam.decode(b) }); pan || err != nil || v == "" || v == "?" {
			continue
		}
		if a, ok := fam.probeAlias[v]; ok {
			v = a
		}
		got[sh.id] = v
	}
	var es []entry
	var unprobed []uint64
	seen := map[uint64]bool{}
	for _, id := range wanted {
		seen[id] = true
		if v, ok := got[id]; ok {
			es = append(es, entry{id, v})
		} else {
			unprobed = append(unprobed, id)
		}
	}
	for id := uint64(0); id < 64; id++ {
		if v, ok := got[id]; ok && !seen[id] {
			es = append(es, entry{id, v})
		}
	}
	sort.SliceStable(es, func(i, j int) bool { return es[i].id < es[j].id })
	return es, unprobed
}

func (f family) full(it *vh.Item) []byte {
	if f.wrap != nil {
		return f.wrap(it).Enc()
	}
	return it.Enc()
}

func h(n int, fill byte) *vh.Item {
	b := make([]byte, n)
	for i := range b {
		b[i] = fill + byte(i)
	}
	return vh.B(b)
}

func trimType(v any) string {
	s := fmt.Sprintf("%T", v)
	if i := strings.LastIndex(s, "."); i >= 0 {
		s = s[i+1:]
	}
	return strings.TrimPrefix(s, "*")
}

func families() []family {
	fs := families1()
	for i := range fs {
		fs[i].table = famTable[fs[i].name]
		if fs[i].name == "peer-address" {
			fs[i].probeAlias = map[string]string{"IPv4": "0", "IPv6": "1"}
		}
	}
	return fs
}

func families1() []family {
	cred := func() *vh.Item { return vh.A(vh.U(0), h(28, 1)) }
	pk := func() *vh.Item { return vh.A(vh.U(0), h(28, 7)) }
	return []family{
		{"native-script",
			map[uint64]string{0: "NativeScriptPubkey", 1: "NativeScriptAll", 2: "NativeScriptAny", 3: "NativeScriptNofK",
				4: "NativeScriptInvalidBefore", 5: "NativeScriptInvalidHereafter", 6: "NativeScriptRequireGuard"},
			[]shape{{0, []*vh.Item{h(28, 3)}}, {1, []*vh.Item{vh.A(pk())}}, {2, []*vh.Item{vh.A(pk())}}, {1, []*vh.Item{vh.A(pk(), pk())}},
				{3, []*vh.Item{vh.U(1), vh.A(pk())}}, {4, []*vh.Item{vh.U(1000)}}, {5, []*vh.Item{vh.U(2000)}}, {6, []*vh.Item{cred()}}},
			func(b []byte, prev ...[]byte) (string, error) {
				var ns common.NativeScript
				if err := decodeInto(&ns, b, prev); err != nil {
					return "", err
				}
				return trimType(ns.Item()), nil
			}, nil, false, "", nil},
		{"certificate",
			map[uint64]string{0: "StakeRegistrationCertificate", 1: "StakeDeregistrationCertificate", 2: "StakeDelegationCertificate",
				3: "PoolRegistrationCertificate", 4: "PoolRetirementCertificate", 5: "GenesisKeyDelegationCertificate",
				6: "MoveInstantaneousRewardsCertificate", 7: "RegistrationCertificate", 8: "DeregistrationCertificate",
				9: "VoteDelegationCertificate", 10: "StakeVoteDelegationCertificate", 11: "StakeRegistrationDelegationCertificate",
				12: "VoteRegistrationDelegationCertificate", 13: "StakeVoteRegistrationDelegationCertificate",
				14: "AuthCommitteeHotCertificate", 15: "ResignCommitteeColdCertificate", 16: "RegistrationDrepCertificate",
				17: "DeregistrationDrepCertificate", 18: "UpdateDrepCertificate"},
			[]shape{{0, []*vh.Item{cred()}}, {1, []*vh.Item{cred()}}, {2, []*vh.Item{cred(), h(28, 9)}},
				{4, []*vh.Item{h(28, 9), vh.U(300)}}, {5, []*vh.Item{h(28, 1), h(28, 2), h(32, 3)}},
				{7, []*vh.Item{cred(), vh.U(2000000)}}, {8, []*vh.Item{cred(), vh.U(2000000)}},
				{9, []*vh.Item{cred(), vh.A(vh.U(2))}}, {10, []*vh.Item{cred(), h(28, 9), vh.A(vh.U(3))}},
				{11, []*vh.Item{cred(), h(28, 9), vh.U(2000000)}}, {12, []*vh.Item{cred(), vh.A(vh.U(2)), vh.U(2000000)}},
				{13, []*vh.Item{cred(), h(28, 9), vh.A(vh.U(2)), vh.U(2000000)}},
				{14, []*vh.Item{cred(), cred()}}, {15, []*vh.Item{cred(), vh.Null()}}, {16, []*vh.Item{cred(), vh.U(500), vh.Null()}},
				{17, []*vh.Item{cred(), vh.U(500)}}, {18, []*vh.Item{cred(), vh.Null()}}},
			func(b []byte, prev ...[]byte) (string, error) {
				var w common.CertificateWrapper
				if err := decodeInto(&w, b, prev); err != nil {
					return "", err
				}
				return trimType(w.Certificate), nil
			}, nil, false, "", nil},
		{"nonce",
			map[uint64]string{0: "NonceTypeNeutral", 1: "NonceTypeNonce"},
			[]shape{{0, nil}, {1, []*vh.Item{h(32, 5)}}},
			func(b []byte, prev ...[]byte) (string, error) {
				var n common.Nonce
				if err := decodeInto(&n, b, prev); err != nil {
					return "", err
				}
				return map[uint]string{0: "NonceTypeNeutral", 1: "NonceTypeNonce"}[n.Type], nil
			}, nil, false, "", nil},
		{"drep",
			map[uint64]string{0: "DrepTypeAddrKeyHash", 1: "DrepTypeScriptHash", 2: "DrepTypeAbstain", 3: "DrepTypeNoConfidence"},
			[]shape{{0, []*vh.Item{h(28, 5)}}, {1, []*vh.Item{h(28, 6)}}, {2, nil}, {3, nil}},
			func(b []byte, prev ...[]byte) (string, error) {
				var d common.Drep
				if err := decodeInto(&d, b, prev); err != nil {
					return "", err
				}
				return map[int]string{0: "DrepTypeAddrKeyHash", 1: "DrepTypeScriptHash", 2: "DrepTypeAbstain", 3: "DrepTypeNoConfidence"}[d.Type], nil
			}, nil, false, "", nil},
		{"gov-action",
			map[uint64]string{0: "ConwayParameterChangeGovAction", 1: "HardForkInitiationGovAction", 2: "TreasuryWithdrawalGovAction",
				3: "NoConfidenceGovAction", 4: "UpdateCommitteeGovAction", 5: "NewConstitutionGovAction", 6: "InfoGovAction"},
			[]shape{{6, nil}, {3, []*vh.Item{vh.Null()}}, {1, []*vh.Item{vh.Null(), vh.A(vh.U(10), vh.U(0))}},
				{5, []*vh.Item{vh.Null(), vh.A(vh.A(vh.T("https://x"), h(32, 1)), vh.Null())}}},
			func(b []byte, prev ...[]byte) (string, error) {
				var g conway.ConwayGovAction
				if err := decodeInto(&g, b, prev); err != nil {
					return "", err
				}
				return trimType(g.Action), nil
			}, nil, false, "", nil},
		{"peer-address",
			map[uint64]string{0: "IPv4", 1: "IPv6"},
			[]shape{{0, []*vh.Item{vh.U(0x0100007f), vh.U(3001)}}, {1, []*vh.Item{vh.U(1), vh.U(2), vh.U(3), vh.U(4), vh.U(3001)}}},
			func(b []byte, prev ...[]byte) (string, error) {
				var p peersharing.PeerAddress
				if err := decodeInto(&p, b, prev); err != nil {
					return "", err
				}
				switch len(p.IP) {
				case net.IPv4len:
					return "IPv4", nil
				case net.IPv6len:
					return "IPv6", nil
				}
				return "?", nil
			}, nil, false, "", nil},
		{"datum-option",
			map[uint64]string{0: "DatumOptionTypeHash", 1: "DatumOptionTypeData"},
			[]shape{{0, []*vh.Item{h(32, 2)}}, {1, []*vh.Item{vh.TagOf(24, vh.B([]byte{0x05}))}}},
			func(b []byte, prev ...[]byte) (string, error) {
				var d babbage.BabbageTransactionOutputDatumOption
				if err := decodeInto(&d, b, prev); err != nil {
					return "", err
				}
				// the variant is private; it is visible in what the option re-encodes to
				out, err := d.MarshalCBOR()
				if err != nil {
					return "", err
				}
				it, _, err := vh.ParseItem(out)
				if err != nil || it.K != vh.KArr || len(it.Xs) == 0 || it.Xs[0].K != vh.KUInt {
					return "?", nil
				}
				return map[uint64]string{0: "DatumOptionTypeHash", 1: "DatumOptionTypeData"}[it.Xs[0].N], nil
			}, nil, false, "", nil},
	}
}

// ---------------------------------------------------------------------------
// observation of DecodeIdFromList / ListLength

type obs struct {
	Hex     string `json:"hex"`
	RawOk   bool   `json:"raw_ok"`
	ValOk   bool   `json:"val_ok"`
	Len     *int   `json:"list_length"`
	Id      *int   `json:"id"`
	Class   string `json:"class"`
	Expect  *int64 `json:"expected_id,omitempty"`
	Variant string `json:"variant,omitempty"`
}

func observe(b []byte) obs {
	o := obs{Hex: vh.Hex(b)}
	var raw []cbor.RawMessage
	_, e1 := cbor.Decode(b, &raw)
	o.RawOk = e1 == nil
	var v cbor.Value
	pan, _ := vh.Recover(func() { _, e := cbor.Decode(b, &v); o.ValOk = e == nil })
	if pan {
		o.ValOk = false
	}
	if n, err := cbor.ListLength(b); err == nil {
		o.Len = &n
	}
	if id, err := cbor.DecodeIdFromList(b); err == nil {
		o.Id = &id
	}
	return o
}

func optN(p *int) string {
	if p == nil {
		return "None"
	}
	return "(Some " + vh.N(uint64(*p)) + ")"
}

func (o obs) coq(b []byte) string {
	return fmt.Sprintf("(%s, (%s, %s), (%s, %s))", vh.Bytes(b), vh.Bool(o.RawOk), vh.Bool(o.ValOk), optN(o.Len), optN(o.Id))
}

// ---------------------------------------------------------------------------
// a second, strict three-outcome walker (no tree), written from RFC 8949
// section 3 / appendix C, used to cross-check vh.ParseItem and Coq

const (
	clsOk = iota
	clsShort
	clsBad
)

// walk returns (class, bytes consumed, hugeCount); hugeCount is set when a
// definite container announces more elements than there are bytes left (the
// situation in which vh.ParseItem gives up early with ErrShort)
func walk(b []byte) (int, int, bool) {
	huge := false
	var item func(p int) (int, int)
	arg := func(p int, ai byte) (uint64, int, int) {
		k := 0
		switch {
		case ai < 24:
			return uint64(ai), p, clsOk
		case ai == 24:
			k = 1
		case ai == 25:
			k = 2
		case ai == 26:
			k = 4
		case ai == 27:
			k = 8
		default:
			return 0, p, clsBad
		}
		if len(b)-p < k {
			return 0, p, clsShort
		}
		var n uint64
		for i := 0; i < k; i++ {
			n = n<<8 | uint64(b[p+i])
		}
		return n, p + k, clsOk
	}
	item = func(p int) (int, int) {
		if p >= len(b) {
			return clsShort, p
		}
		mt, ai := b[p]>>5, b[p]&31
		p0 := p
		p++
		if ai == 31 {
			switch mt {
			case 2, 3:
				for {
					if p >= len(b) {
						return clsShort, p
					}
					if b[p] == 0xff {
						return clsOk, p + 1
					}
					if b[p]>>5 != mt || b[p]&31 == 31 {
						return clsBad, p
					}
					n, q, c := arg(p+1, b[p]&31)
					if c != clsOk {
						return c, p
					}
					if uint64(len(b)-q) < n {
						return clsShort, p
					}
					p = q + int(n)
				}
			case 4, 5:
				cnt := 0
				for {
					if p >= len(b) {
						return clsShort, p
					}
					if b[p] == 0xff {
						if mt == 5 && cnt%2 == 1 {
							return clsBad, p
						}
						return clsOk, p + 1
					}
					c, q := item(p)
					if c != clsOk {
						return c, q
					}
					p = q
					cnt++
				}
			}
			return clsBad, p
		}
		n, q, c := arg(p, ai)
		if c != clsOk {
			return c, p
		}
		p = q
		switch mt {
		case 0, 1:
			return clsOk, p
		case 2, 3:
			if uint64(len(b)-p) < n {
				return clsShort, p
			}
			return clsOk, p + int(n)
		case 4, 5:
			// count items without multiplying a wire value: 2 per map entry
			per := 1
			if mt == 5 {
				per = 2
			}
			// vh.ParseItem compares the element count with the bytes left from the item's first byte
			if left := uint64(len(b) - p0); n > 1<<62 || n*uint64(per) > left {
				huge = true
			}
			for j := uint64(0); j < n; j++ {
				for k := 0; k < per; k++ {
					c, q := item(p)
					if c != clsOk {
						return c, q
					}
					p = q
				}
			}
			return clsOk, p
		case 6:
			return item(p)
		}
		if ai == 24 && n < 32 {
			return clsBad, p
		}
		return clsOk, p
	}
	c, p := item(0)
	if c != clsOk {
		p = 0
	}
	return c, p, huge
}

func classOf(err error) int {
	switch {
	case err == nil:
		return clsOk
	case errors.Is(err, vh.ErrShort):
		return clsShort
	}
	return clsBad
}

func main() {
	vh.Main(vh.Runner{Property: "C03", Gen: gen, Run: run})
}
