package main

// Second round: the remaining tagged-sum decoders of the repository.  The
// expected variant names of these families are the generated tables of the
// repository scan (gen2.go; pinned by coq/C03/SpecAll.v), looked up by the
// first element the harness put into the list; independently of any table the
// monitor requires the variant to be the one decoded from the minimal form.

import (
	"errors"
	"fmt"
	"sync"

	"github.com/blinklabs-io/gouroboros/ledger"
	"github.com/blinklabs-io/gouroboros/ledger/byron"
	"github.com/blinklabs-io/gouroboros/ledger/common"
	"github.com/blinklabs-io/gouroboros/ledger/dijkstra"
	lsq "github.com/blinklabs-io/gouroboros/protocol/localstatequery"

	"verifharness/vh"
)

var (
	scanOnce  sync.Once
	scanTabs  []gtable
	scanSites []gsite
	scanErr   error
)

func cachedScan() ([]gtable, []gsite, error) {
	scanOnce.Do(func() { scanTabs, scanSites, scanErr = scanRepo() })
	return scanTabs, scanSites, scanErr
}

func tableByName(name string) map[uint64]string {
	tabs, _, err := cachedScan()
	if err != nil {
		return nil
	}
	for _, t := range tabs {
		if t.name == name {
			m := map[uint64]string{}
			for _, e := range t.entries {
				m[e.id] = e.variant
			}
			return m
		}
	}
	return nil
}

// candidate payloads tried (in this order) for families whose variants have
// undocumented bodies; the first one the decoder accepts in minimal form is used
func candidates() [][]*vh.Item {
	set := func(xs ...*vh.Item) *vh.Item { return vh.TagOf(258, vh.A(xs...)) }
	return [][]*vh.Item{
		nil, {vh.A()}, {vh.M()}, {vh.U(0)}, {vh.Null()}, {set()}, {vh.A(), vh.A()}, {vh.U(0), vh.U(0)}, {vh.M(), vh.M()},
		{h(28, 1)}, {h(32, 1)}, {vh.A(vh.U(0), vh.U(0))}, {vh.A(vh.A(), vh.A())}, {vh.U(0), vh.A()}, {vh.A(), vh.U(0)},
		{set(), set()}, {vh.U(0), vh.U(0), vh.U(0)}, {vh.A(vh.U(0), h(28, 1))}, {vh.A(vh.U(1), vh.A(vh.U(0), vh.A()))},
	}
}

func autoShapes(ids []uint64) []shape {
	var out []shape
	for _, id := range ids {
		for _, c := range candidates() {
			out = append(out, shape{id, c})
		}
	}
	return out
}

func ids(m map[uint64]string) []uint64 {
	var out []uint64
	for k := uint64(0); k < 64; k++ {
		if _, ok := m[k]; ok {
			out = append(out, k)
		}
	}
	return out
}

func errType(e error) string {
	if e == nil {
		return "nil"
	}
	return trimType(e)
}

func families2() []family {
	cred := func() *vh.Item { return vh.A(vh.U(0), h(28, 1)) }
	var fs []family
	add := func(name, table string, spec map[uint64]string, shapes []shape, wrap func(*vh.Item) *vh.Item, firstOnly bool, dec func(b []byte, prev ...[]byte) (string, error)) {
		if spec == nil {
			spec = tableByName(table)
		}
		if shapes == nil {
			if spec == nil { // the table was not found by the scan: candidates for every small id
				all := make([]uint64, 41)
				for k := range all {
					all[k] = uint64(k)
				}
				shapes = autoShapes(all)
			} else {
				shapes = autoShapes(ids(spec))
			}
		}
		fs = append(fs, family{name: name, spec: spec, shapes: shapes, decode: dec, wrap: wrap, firstAccepted: firstOnly, table: table})
	}
	add("with-origin-slot", "", map[uint64]string{0: "origin", 1: "slot"}, []shape{{0, nil}, {1, []*vh.Item{vh.U(42)}}}, nil, false,
		func(b []byte, prev ...[]byte) (string, error) {
			var w lsq.WithOriginSlot
			if err := decodeInto(&w, b, prev); err != nil {
				return "", err
			}
			if w.HasSlot {
				return "slot", nil
			}
			return "origin", nil
		})
	add("relay-access-point", "protocol/localstatequery.RelayAccessPoint.UnmarshalCBOR", nil,
		[]shape{{0, []*vh.Item{vh.U(0x7f000001), vh.U(3001)}}, {1, []*vh.Item{vh.A(vh.U(1), vh.U(2), vh.U(3), vh.U(4)), vh.U(3001)}},
			{2, []*vh.Item{vh.B([]byte("example.com")), vh.U(3001)}}, {3, []*vh.Item{vh.B([]byte("_srv.example.com"))}}}, nil, false,
		func(b []byte, prev ...[]byte) (string, error) {
			var r lsq.RelayAccessPoint
			if err := decodeInto(&r, b, prev); err != nil {
				return "", err
			}
			return map[lsq.RelayKind]string{0: "RelayKindIPv4", 1: "RelayKindIPv6", 2: "RelayKindDomain", 3: "RelayKindSRV"}[r.Kind], nil
		})
	add("hot-cred-auth-status", "", map[uint64]string{0: "0", 1: "1", 2: "2"},
		[]shape{{0, nil}, {1, []*vh.Item{cred()}}, {2, []*vh.Item{vh.Null()}}}, nil, false,
		func(b []byte, prev ...[]byte) (string, error) {
			var v lsq.HotCredAuthStatusValue
			if err := decodeInto(&v, b, prev); err != nil {
				return "", err
			}
			return fmt.Sprint(int(v.Status)), nil
		})
	add("lsq-query", "protocol/localstatequery.QueryWrapper.UnmarshalCBOR#0", nil,
		[]shape{{1, nil}, {2, nil}, {3, nil}, {0, []*vh.Item{vh.A(vh.U(2), vh.A(vh.U(1)))}}}, nil, false,
		func(b []byte, prev ...[]byte) (string, error) {
			var q lsq.QueryWrapper
			if err := decodeInto(&q, b, prev); err != nil {
				return "", err
			}
			return trimType(q.Query), nil
		})
	blockQ := func(b []byte, prev [][]byte) (*lsq.BlockQuery, error) {
		var q lsq.QueryWrapper
		if err := decodeInto(&q, b, prev); err != nil {
			return nil, err
		}
		bq, ok := q.Query.(*lsq.BlockQuery)
		if !ok {
			return nil, errors.New("not a block query")
		}
		return bq, nil
	}
	add("lsq-block-query", "protocol/localstatequery.BlockQuery.UnmarshalCBOR#0", nil,
		[]shape{{0, []*vh.Item{vh.A(vh.U(5), vh.A(vh.U(1)))}}, {2, []*vh.Item{vh.A(vh.U(1))}}},
		func(in *vh.Item) *vh.Item { return vh.A(vh.U(0), in) }, false,
		func(b []byte, prev ...[]byte) (string, error) {
			bq, err := blockQ(b, prev)
			if err != nil {
				return "", err
			}
			return trimType(bq.Query), nil
		})
	add("lsq-shelley-query", "protocol/localstatequery.shelleyQueryTypes#0", nil, nil,
		func(in *vh.Item) *vh.Item { return vh.A(vh.U(0), vh.A(vh.U(0), vh.A(vh.U(5), in))) }, true,
		func(b []byte, prev ...[]byte) (string, error) {
			bq, err := blockQ(b, prev)
			if err != nil {
				return "", err
			}
			sq, ok := bq.Query.(*lsq.ShelleyQuery)
			if !ok {
				return "", errors.New("not a shelley query")
			}
			return trimType(sq.Query), nil
		})
	add("lsq-hardfork-query", "protocol/localstatequery.HardForkQuery.UnmarshalCBOR#0", nil, []shape{{0, nil}, {1, nil}},
		func(in *vh.Item) *vh.Item { return vh.A(vh.U(0), vh.A(vh.U(2), in)) }, false,
		func(b []byte, prev ...[]byte) (string, error) {
			bq, err := blockQ(b, prev)
			if err != nil {
				return "", err
			}
			hq, ok := bq.Query.(*lsq.HardForkQuery)
			if !ok {
				return "", errors.New("not a hard-fork query")
			}
			return trimType(hq.Query), nil
		})
	add("dijkstra-gov-action", "ledger/dijkstra.DijkstraGovAction.UnmarshalCBOR", nil,
		[]shape{{6, nil}, {3, []*vh.Item{vh.Null()}}, {1, []*vh.Item{vh.Null(), vh.A(vh.U(10), vh.U(0))}},
			{5, []*vh.Item{vh.Null(), vh.A(vh.A(vh.T("https://x"), h(32, 1)), vh.Null())}}}, nil, false,
		func(b []byte, prev ...[]byte) (string, error) {
			var g dijkstra.DijkstraGovAction
			if err := decodeInto(&g, b, prev); err != nil {
				return "", err
			}
			return trimType(g.Action), nil
		})
	add("pool-relay", "ledger/common.PoolRelay.UnmarshalCBOR", nil,
		[]shape{{0, []*vh.Item{vh.U(3001), vh.B([]byte{127, 0, 0, 1}), vh.Null()}}, {1, []*vh.Item{vh.U(3001), vh.T("relay.example")}}, {2, []*vh.Item{vh.T("relay.example")}}}, nil, false,
		func(b []byte, prev ...[]byte) (string, error) {
			var p common.PoolRelay
			if err := decodeInto(&p, b, prev); err != nil {
				return "", err
			}
			v := map[int]string{0: "PoolRelayTypeSingleHostAddress", 1: "PoolRelayTypeSingleHostName", 2: "PoolRelayTypeMultiHostName"}[p.Type]
			// the fields filled in must be those of the variant
			if (p.Type == 0) != (p.Ipv4 != nil) || (p.Type != 0) != (p.Hostname != nil) {
				v += "?fields"
			}
			return v, nil
		})
	add("byron-tx-input", "ledger/byron.ByronTransactionInput.UnmarshalCBOR", nil,
		[]shape{{0, []*vh.Item{vh.TagOf(24, vh.B(vh.A(h(32, 1), vh.U(7)).Enc()))}}}, nil, false,
		func(b []byte, prev ...[]byte) (string, error) {
			var i byron.ByronTransactionInput
			if err := decodeInto(&i, b, prev); err != nil {
				return "", err
			}
			if i.OutputIndex != 7 {
				return "?", nil
			}
			return "0", nil
		})
	// ---- ledger/error.go: failure reasons ----
	add("shelley-utxow-failure", "ledger.ShelleyUtxowFailure.UnmarshalCBOR", nil, nil, nil, true,
		func(b []byte, prev ...[]byte) (string, error) {
			var e ledger.ShelleyUtxowFailure
			if err := decodeInto(&e, b, prev); err != nil {
				return "", err
			}
			return errType(e.Err), nil
		})
	add("alonzo-utxow-failure", "ledger.AlonzoUtxowFailure.UnmarshalCBOR", nil, nil, nil, true,
		func(b []byte, prev ...[]byte) (string, error) {
			var e ledger.AlonzoUtxowFailure
			if err := decodeInto(&e, b, prev); err != nil {
				return "", err
			}
			return errType(e.Err), nil
		})
	add("babbage-utxo-failure", "ledger.BabbageUtxoFailure.UnmarshalCBOR", nil, nil, nil, true,
		func(b []byte, prev ...[]byte) (string, error) {
			var e ledger.BabbageUtxoFailure
			if err := decodeInto(&e, b, prev); err != nil {
				return "", err
			}
			return errType(e.Err), nil
		})
	add("conway-utxow-failure", "ledger.ConwayUtxowFailure.UnmarshalCBOR", nil, nil, nil, true,
		func(b []byte, prev ...[]byte) (string, error) {
			var e ledger.ConwayUtxowFailure
			if err := decodeInto(&e, b, prev); err != nil {
				return "", err
			}
			return errType(e.Err), nil
		})
	type eraT struct {
		name  string
		id    uint8
		utxo  []string // idMap tables composing the era's UTXO failure map
		utxow string
	}
	const G = "ledger.getEraSpecificUtxoFailureConstants#"
	eras := []eraT{
		{"shelley", ledger.EraIdShelley, []string{G + "shelleyMap"}, "ledger.UtxowFailure.unmarshalShelley"},
		{"mary", ledger.EraIdMary, []string{G + "allegraMaryMap"}, "ledger.UtxowFailure.unmarshalShelley"},
		{"alonzo", ledger.EraIdAlonzo, []string{G + "baseMap", G + "baseMap+EraIdAlonzo"}, "ledger.UtxowFailure.unmarshalAlonzo"},
		{"babbage", ledger.EraIdBabbage, []string{G + "baseMap", G + "baseMap+EraIdBabbage"}, "ledger.UtxowFailure.unmarshalBabbage"},
		{"conway", ledger.EraIdConway, []string{G + "conwayMap"}, "ledger.UtxowFailure.unmarshalConway"},
		{"dijkstra", ledger.EraIdDijkstra, []string{G + "dijkstraMap"}, ""},
	}
	for _, era := range eras {
		era := era
		spec := map[uint64]string{}
		for _, tn := range era.utxo {
			for k, v := range tableByName(tn) {
				spec[k] = v
			}
		}
		add("utxo-failure-"+era.name, "", spec, autoShapes(ids(spec)),
			func(in *vh.Item) *vh.Item { return vh.A(vh.U(uint64(era.id)), in) }, true,
			func(b []byte, prev ...[]byte) (string, error) {
				var e ledger.UtxoFailure
				if err := decodeInto(&e, b, prev); err != nil {
					return "", err
				}
				return errType(e.Err), nil
			})
		if era.utxow == "" {
			continue
		}
		// era-aware UTXOW failures are reached through [[era, [[0, failure]]]]
		add("utxow-failure-"+era.name, era.utxow, nil, nil,
			func(in *vh.Item) *vh.Item {
				return vh.A(vh.A(vh.U(uint64(era.id)), vh.A(vh.A(vh.U(0), in))))
			}, true,
			func(b []byte, prev ...[]byte) (string, error) {
				var e ledger.ShelleyTxValidationError
				if err := decodeInto(&e, b, prev); err != nil {
					return "", err
				}
				if len(e.Err.Failures) != 1 {
					return "", errors.New("expected one failure")
				}
				uw, ok := e.Err.Failures[0].(*ledger.UtxowFailure)
				if !ok {
					return trimType(e.Err.Failures[0]), nil
				}
				return errType(uw.Err), nil
			})
	}
	// the LEDGER-level sum: [0, utxow-failure] (other tags are era-dependent predicates / unknown)
	add("apply-tx-failure", "ledger.ApplyTxError.UnmarshalCBOR", nil,
		func() []shape {
			var out []shape
			for uid := uint64(1); uid < 9; uid++ {
				for _, c := range candidates() {
					out = append(out, shape{0, []*vh.Item{vh.A(append([]*vh.Item{vh.U(uid)}, c...)...)}})
				}
			}
			return out
		}(),
		func(in *vh.Item) *vh.Item { return vh.A(vh.A(vh.U(uint64(ledger.EraIdConway)), vh.A(in))) }, true,
		func(b []byte, prev ...[]byte) (string, error) {
			var e ledger.ShelleyTxValidationError
			if err := decodeInto(&e, b, prev); err != nil {
				return "", err
			}
			if len(e.Err.Failures) != 1 {
				return "", errors.New("expected one failure")
			}
			return trimType(e.Err.Failures[0]), nil
		})
	return fs
}
