// C44 - a failed submission does not stall later blocks.
package main

import "verifharness/cmd/c42/pipesim"

func main() {
	pipesim.Main("C44", map[string]int{"plain": 1, "stop": 1, "expiry": 3, "retry": 4}, 70, 900)
}
