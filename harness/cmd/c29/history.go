package main

// History class: the outcome of UtxoValidateNativeScripts must be a function
// of the transaction that is validated NOW, not of what the same Go object
// held or was validated as before.  For every era:
//
//	reuse:        decode tx A into a transaction object, validate; decode tx B
//	              into the SAME object (cbor.Decode receiver reuse), validate
//	witness-edit: decode tx A, validate; replace its WitnessSet by that of tx B
//	              (same body and script, other key witnesses), validate
//
// expected (monitor) = the outcome on a freshly decoded tx B; the Coq model
// evaluates case B alone.

import (
	"errors"
	"fmt"

	"github.com/blinklabs-io/gouroboros/cbor"
	"github.com/blinklabs-io/gouroboros/ledger/allegra"
	"github.com/blinklabs-io/gouroboros/ledger/alonzo"
	"github.com/blinklabs-io/gouroboros/ledger/babbage"
	"github.com/blinklabs-io/gouroboros/ledger/common"
	"github.com/blinklabs-io/gouroboros/ledger/conway"
	"github.com/blinklabs-io/gouroboros/ledger/dijkstra"
	"github.com/blinklabs-io/gouroboros/ledger/mary"

	"verifharness/vh"
)

type ruleFn func(common.Transaction, uint64, common.LedgerState, common.ProtocolParameters) error

type txHandle struct {
	tx      common.Transaction
	decode  func(b []byte) error
	setWits func(from *txHandle) bool
	rule    ruleFn
}

func newHandle(era string) *txHandle {
	h := &txHandle{}
	switch era {
	case "allegra":
		t := &allegra.AllegraTransaction{}
		h.tx, h.rule = t, allegra.UtxoValidateNativeScripts
		h.decode = func(b []byte) error { _, err := cbor.Decode(b, t); return err }
		h.setWits = func(f *txHandle) bool {
			s, ok := f.tx.(*allegra.AllegraTransaction)
			if ok {
				t.WitnessSet = s.WitnessSet
			}
			return ok
		}
	case "mary":
		t := &mary.MaryTransaction{}
		h.tx, h.rule = t, mary.UtxoValidateNativeScripts
		h.decode = func(b []byte) error { _, err := cbor.Decode(b, t); return err }
		h.setWits = func(f *txHandle) bool {
			s, ok := f.tx.(*mary.MaryTransaction)
			if ok {
				t.WitnessSet = s.WitnessSet
			}
			return ok
		}
	case "alonzo":
		t := &alonzo.AlonzoTransaction{}
		h.tx, h.rule = t, alonzo.UtxoValidateNativeScripts
		h.decode = func(b []byte) error { _, err := cbor.Decode(b, t); return err }
		h.setWits = func(f *txHandle) bool {
			s, ok := f.tx.(*alonzo.AlonzoTransaction)
			if ok {
				t.WitnessSet = s.WitnessSet
			}
			return ok
		}
	case "babbage":
		t := &babbage.BabbageTransaction{}
		h.tx, h.rule = t, babbage.UtxoValidateNativeScripts
		h.decode = func(b []byte) error { _, err := cbor.Decode(b, t); return err }
		h.setWits = func(f *txHandle) bool {
			s, ok := f.tx.(*babbage.BabbageTransaction)
			if ok {
				t.WitnessSet = s.WitnessSet
			}
			return ok
		}
	case "conway":
		t := &conway.ConwayTransaction{}
		h.tx, h.rule = t, conway.UtxoValidateNativeScripts
		h.decode = func(b []byte) error { _, err := cbor.Decode(b, t); return err }
		h.setWits = func(f *txHandle) bool {
			s, ok := f.tx.(*conway.ConwayTransaction)
			if ok {
				t.WitnessSet = s.WitnessSet
			}
			return ok
		}
	case "dijkstra":
		t := &dijkstra.DijkstraTransaction{}
		h.tx, h.rule = t, dijkstra.UtxoValidateNativeScripts
		h.decode = func(b []byte) error { _, err := cbor.Decode(b, t); return err }
		h.setWits = func(f *txHandle) bool {
			s, ok := f.tx.(*dijkstra.DijkstraTransaction)
			if ok {
				t.WitnessSet = s.WitnessSet
			}
			return ok
		}
	}
	return h
}

func (h *txHandle) validate() string {
	var res string
	p, pv := vh.Recover(func() {
		e := h.rule(h.tx, 12345, nil, nil)
		if e == nil {
			res = "accept"
			return
		}
		var nf allegra.NativeScriptFailedError
		if errors.As(e, &nf) {
			res = "reject:" + vh.Hex(nf.ScriptHash[:])
			return
		}
		res = "error:other"
	})
	if p {
		return fmt.Sprintf("error:panic %v", pv)
	}
	return res
}

type hspec struct {
	it         *vh.Item
	start, ttl *uint64
	wit        []int
}

func vksOf(wit []int) [][]byte {
	var out [][]byte
	for _, i := range wit {
		out = append(out, vkeys[i])
	}
	return out
}

// runHistory validates A, then turns the same object into B (mode "reuse" or
// "witness-edit") and validates again.
func runHistory(c *vh.Ctx, cf *vh.CaseFile, mode string, a, b hspec) {
	if mode == "witness-edit" {
		b.it, b.start, b.ttl = a.it, a.start, a.ttl
	}
	enc := b.it.Enc()
	rc := rcase{Script: vh.Hex(enc), Start: b.start, TTL: b.ttl, History: mode, PrevScript: vh.Hex(a.it.Enc()), PrevStart: a.start, PrevTTL: a.ttl, Eras: map[string]string{}}
	var coqKeys []string
	seen := map[int]bool{}
	for _, i := range b.wit {
		rc.Vkeys = append(rc.Vkeys, vh.Hex(vkeys[i]))
		if !seen[i] {
			coqKeys = append(coqKeys, vh.Bytes(khash[i]))
		}
		seen[i] = true
	}
	for _, i := range a.wit {
		rc.PrevVkeys = append(rc.PrevVkeys, vh.Hex(vkeys[i]))
	}
	c.Begin(rc)
	var ns common.NativeScript
	if _, err := cbor.Decode(enc, &ns); err != nil {
		return
	}
	if _, ok := parseScript(b.it); !ok {
		return
	}
	rc.Decoded = true
	h := ns.Hash()
	rc.Hash = vh.Hex(h[:])
	c.Res.Count(fmt.Sprintf("%s|%s|%s|%v|%v", mode, rc.PrevScript, rc.Script, a.wit, b.wit), true, "history/"+mode)
	for _, era := range eras {
		txA := buildTx(era, a.it, a.start, a.ttl, vksOf(a.wit), nil)
		txB := buildTx(era, b.it, b.start, b.ttl, vksOf(b.wit), nil)
		fresh := runRule(era, txB)
		obj := newHandle(era)
		if err := obj.decode(txA); err != nil {
			rc.Eras[era] = "error:decode-tx"
			continue
		}
		obj.validate()
		if mode == "reuse" {
			if err := obj.decode(txB); err != nil {
				rc.Eras[era] = "error:decode-tx"
				continue
			}
		} else {
			src := newHandle(era)
			if err := src.decode(txB); err != nil || !obj.setWits(src) {
				rc.Eras[era] = "error:decode-tx"
				continue
			}
		}
		second := obj.validate()
		rc.Eras[era] = second
		if second != fresh {
			c.Res.Violate("monitor", fmt.Sprintf("rule-depends-on-history:%s:%s", era, mode),
				fmt.Sprintf("%s.UtxoValidateNativeScripts after %s: script %x witnesses %v gives %s, the same transaction decoded afresh gives %s (previously validated in the same object: script %s witnesses %v)", era, mode, enc, b.wit, second, fresh, rc.PrevScript, a.wit), rc)
		}
	}
	rc.Eval = rc.Eras["dijkstra"] == "accept"
	cf.Add(fmt.Sprintf("(mkcase false %s %s %s %s [])", b.it.Coq(), optN(b.start), optN(b.ttl), vh.List(coqKeys)), rc)
}

func historyCases(c *vh.Ctx, cf *vh.CaseFile) {
	sig := func(i int) *vh.Item { return vh.A(vh.U(0), vh.B(khash[i])) }
	mof := func(n uint64, xs ...*vh.Item) *vh.Item { return vh.A(vh.U(3), vh.U(n), vh.A(xs...)) }
	pairs := [][2]hspec{
		{{sig(0), nil, nil, []int{0}}, {sig(0), nil, nil, []int{1}}},
		{{sig(0), nil, nil, []int{1}}, {sig(0), nil, nil, []int{0}}},
		{{sig(0), nil, nil, []int{0}}, {sig(1), nil, nil, []int{1}}},
		{{sig(0), nil, nil, nil}, {sig(0), nil, nil, []int{0}}},
		{{sig(0), nil, nil, []int{0, 1}}, {sig(0), nil, nil, nil}},
		{{mof(2, sig(0), sig(1), sig(2)), nil, nil, []int{0, 1}}, {mof(2, sig(0), sig(1), sig(2)), nil, nil, []int{2}}},
		{{mof(2, sig(0), sig(1), sig(2)), nil, nil, []int{2}}, {mof(2, sig(0), sig(1), sig(2)), nil, nil, []int{0, 2}}},
		{{vh.A(vh.U(4), vh.U(5)), ptr(9), nil, nil}, {vh.A(vh.U(4), vh.U(5)), ptr(3), nil, nil}},
		{{vh.A(vh.U(5), vh.U(50)), nil, ptr(40), nil}, {vh.A(vh.U(5), vh.U(50)), nil, ptr(60), nil}},
	}
	for _, p := range pairs {
		runHistory(c, cf, "reuse", p[0], p[1])
		runHistory(c, cf, "witness-edit", p[0], p[1])
	}
	for i := c.Pick(40, 400); i > 0; i-- {
		g := &gen{r: c.Rng, b: boundaries[c.Rng.Intn(len(boundaries))]}
		mk := func() hspec {
			d := 1 + c.Rng.Intn(3)
			g.top = d
			return hspec{g.script(d, 3, false, false), g.bound(), g.bound(), subset(c.Rng)}
		}
		a, b := mk(), mk()
		if c.Rng.Bool() {
			b.it = a.it // same script, other witnesses / bounds
		}
		runHistory(c, cf, "reuse", a, b)
		runHistory(c, cf, "witness-edit", a, b)
	}
}
