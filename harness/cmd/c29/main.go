// C29 - native scripts evaluate as the ledger defines them.
//
// Every case is a native script built as a CBOR syntax tree (vh.Item), decoded
// by the real NativeScript.UnmarshalCBOR and evaluated
//   - directly through NativeScript.Evaluate / EvaluateWithGuards, and
//   - through the era rule UtxoValidateNativeScripts of Allegra, Mary, Alonzo,
//     Babbage, Conway and Dijkstra on a real decoded transaction whose body
//     carries (or omits) the validity start / TTL and whose witness set carries
//     the script and the vkey witnesses.
//
// Monitor: an independent transcription of cardano-ledger's evalTimelock on an
// independently parsed script tree, and Blake2b-224(0x00 || bytes) for the hash.
package main

import (
	"bytes"
	"encoding/json"
	"errors"
	"fmt"
	"os"
	"path/filepath"
	"sort"
	"strings"

	"github.com/blinklabs-io/gouroboros/cbor"
	"github.com/blinklabs-io/gouroboros/ledger/allegra"
	"github.com/blinklabs-io/gouroboros/ledger/alonzo"
	"github.com/blinklabs-io/gouroboros/ledger/babbage"
	"github.com/blinklabs-io/gouroboros/ledger/common"
	"github.com/blinklabs-io/gouroboros/ledger/conway"
	"github.com/blinklabs-io/gouroboros/ledger/dijkstra"
	"github.com/blinklabs-io/gouroboros/ledger/mary"
	"golang.org/x/crypto/blake2b"

	"verifharness/vh"
)

const header = `From Coq Require Import String.
From V Require Import Lib.Base Lib.Hex Lib.Cbor C29.Model.
Open Scope string_scope.
Open Scope N_scope.`

const maxU64 = ^uint64(0)

// ---------------------------------------------------------------------------
// independent script tree + the ledger's evalTimelock

type node struct {
	Kind int // 0 sig, 1 all, 2 any, 3 m-of-n, 4 time start, 5 time expire, 6 guard
	Hash []byte
	N    uint64
	Slot uint64
	Typ  uint64
	Subs []*node
}

// parseScript reads a script from the CBOR tree with the harness' own walker
// (never through the repository's decoder).  ok=false: not a script the
// ledger's decoder would accept in the shapes this harness generates.
func parseScript(it *vh.Item) (*node, bool) {
	if it.K != vh.KArr || it.F == vh.Findef || len(it.Xs) < 1 || it.Xs[0].K != vh.KUInt {
		return nil, false
	}
	u := func(x *vh.Item) (uint64, bool) { return x.N, x.K == vh.KUInt }
	bs := func(x *vh.Item) ([]byte, bool) {
		switch x.K {
		case vh.KBStr:
			return x.Bs, true
		case vh.KBStrI:
			var out []byte
			for _, c := range x.Chunks {
				out = append(out, c.Bs...)
			}
			return out, true
		}
		return nil, false
	}
	list := func(x *vh.Item) ([]*node, bool) {
		if x.K != vh.KArr {
			return nil, false
		}
		var out []*node
		for _, e := range x.Xs {
			n, ok := parseScript(e)
			if !ok {
				return nil, false
			}
			out = append(out, n)
		}
		return out, true
	}
	args := it.Xs[1:]
	switch it.Xs[0].N {
	case 0:
		if len(args) == 1 {
			if h, ok := bs(args[0]); ok {
				return &node{Kind: 0, Hash: h}, true
			}
		}
	case 1, 2:
		if len(args) == 1 {
			if l, ok := list(args[0]); ok {
				return &node{Kind: int(it.Xs[0].N), Subs: l}, true
			}
		}
	case 3:
		if len(args) == 2 {
			n, ok1 := u(args[0])
			l, ok2 := list(args[1])
			if ok1 && ok2 {
				return &node{Kind: 3, N: n, Subs: l}, true
			}
		}
	case 4, 5:
		if len(args) == 1 {
			if n, ok := u(args[0]); ok {
				return &node{Kind: int(it.Xs[0].N), Slot: n}, true
			}
		}
	case 6:
		if len(args) == 1 && args[0].K == vh.KArr && len(args[0].Xs) == 2 {
			t, ok1 := u(args[0].Xs[0])
			h, ok2 := bs(args[0].Xs[1])
			if ok1 && ok2 && len(h) == 28 && args[0].Xs[1].K == vh.KBStr {
				return &node{Kind: 6, Typ: t, Hash: h}, true
			}
		}
	}
	return nil, false
}

type env struct {
	start, ttl *uint64 // nil = SNothing
	keys       map[string]bool
	guards     map[string]bool
}

// evalTimelock (cardano-ledger, Allegra Timelock):
//
//	RequireSignature hk -> member hk vhks
//	RequireAllOf xs -> all go xs ; RequireAnyOf xs -> any go xs
//	RequireMOf m xs -> isValidMOf m xs
//	RequireTimeStart lockStart -> lockStart `lteNegInfty` txStart
//	RequireTimeExpire lockExp  -> txExp `ltePosInfty` lockExp
func (e *env) eval(n *node) bool {
	switch n.Kind {
	case 0:
		return e.keys[string(n.Hash)]
	case 1:
		for _, s := range n.Subs {
			if !e.eval(s) {
				return false
			}
		}
		return true
	case 2:
		for _, s := range n.Subs {
			if e.eval(s) {
				return true
			}
		}
		return false
	case 3:
		// isValidMOf n Empty = n <= 0 ; isValidMOf n (t:ts) = n <= 0 || if go t then isValidMOf (n-1) ts else isValidMOf n ts
		var mof func(m uint64, xs []*node) bool
		mof = func(m uint64, xs []*node) bool {
			if m == 0 {
				return true
			}
			if len(xs) == 0 {
				return false
			}
			if e.eval(xs[0]) {
				return mof(m-1, xs[1:])
			}
			return mof(m, xs[1:])
		}
		return mof(n.N, n.Subs)
	case 4:
		return e.start != nil && n.Slot <= *e.start // SNothing -> False
	case 5:
		return e.ttl != nil && *e.ttl <= n.Slot // SNothing -> False
	case 6:
		return e.guards[fmt.Sprintf("%d:%x", n.Typ, n.Hash)]
	}
	return false
}

func (n *node) walk(f func(*node)) {
	f(n)
	for _, s := range n.Subs {
		s.walk(f)
	}
}

func (n *node) depth() int {
	d := 0
	for _, s := range n.Subs {
		if x := s.depth(); x > d {
			d = x
		}
	}
	return d + 1
}

// ---------------------------------------------------------------------------
// case

type rcase struct {
	Direct bool     `json:"direct"`
	Script string   `json:"script_cbor"`
	Start  *uint64  `json:"validity_start"`
	TTL    *uint64  `json:"ttl"`
	Vkeys  []string `json:"vkeys"`  // 32-byte verification keys witnessing the tx
	Guards []string `json:"guards"` // "<type>:<hash hex>"
	// observed
	Decoded bool              `json:"decoded"`
	Eval    bool              `json:"eval"`
	Hash    string            `json:"hash"`
	Eras    map[string]string `json:"eras,omitempty"`
	// history class: what the same transaction object held / was validated as before
	History    string   `json:"history,omitempty"` // "reuse" | "witness-edit"
	PrevScript string   `json:"prev_script_cbor,omitempty"`
	PrevStart  *uint64  `json:"prev_validity_start,omitempty"`
	PrevTTL    *uint64  `json:"prev_ttl,omitempty"`
	PrevVkeys  []string `json:"prev_vkeys,omitempty"`
}

type guard struct {
	Typ  uint64
	Hash []byte
}

var vkeys [][]byte // the key universe (verification keys)
var khash [][]byte // their Blake2b-224 hashes

func b224(b []byte) []byte {
	h, _ := blake2b.New(28, nil)
	h.Write(b)
	return h.Sum(nil)
}

func initKeys() {
	// three keys; the third is ground so that its hash ends in a zero byte
	// (a 27-byte prefix of it is zero-padded to the full hash by copy())
	for i := 0; len(vkeys) < 3; i++ {
		vk := make([]byte, 32)
		vk[0], vk[1], vk[2] = byte(i), byte(i>>8), 0xc2
		h := b224(vk)
		if len(vkeys) < 2 || h[27] == 0 {
			vkeys = append(vkeys, vk)
			khash = append(khash, h)
		}
	}
}

func ptr(v uint64) *uint64 { return &v }

func optN(p *uint64) string {
	if p == nil {
		return "None"
	}
	return "(Some " + vh.N(*p) + ")"
}

func buildTx(era string, script *vh.Item, start, ttl *uint64, vks [][]byte, guards []guard) []byte {
	body := []*vh.Item{
		vh.U(0), vh.A(vh.A(vh.B(make([]byte, 32)), vh.U(0))),
		vh.U(1), vh.A(),
		vh.U(2), vh.U(0),
	}
	if ttl != nil {
		body = append(body, vh.U(3), vh.U(*ttl))
	}
	if start != nil {
		body = append(body, vh.U(8), vh.U(*start))
	}
	if era == "dijkstra" && len(guards) > 0 {
		var gs []*vh.Item
		for _, g := range guards {
			gs = append(gs, vh.A(vh.U(g.Typ), vh.B(g.Hash)))
		}
		body = append(body, vh.U(14), vh.A(gs...))
	}
	var wit []*vh.Item
	if len(vks) > 0 {
		var ws []*vh.Item
		for _, vk := range vks {
			ws = append(ws, vh.A(vh.B(vk), vh.B(make([]byte, 64))))
		}
		wit = append(wit, vh.U(0), vh.A(ws...))
	}
	wit = append(wit, vh.U(1), vh.A(script))
	switch era {
	case "allegra", "mary":
		return vh.A(vh.M(body...), vh.M(wit...), vh.Null()).Enc()
	}
	return vh.A(vh.M(body...), vh.M(wit...), vh.BoolItem(true), vh.Null()).Enc()
}

var eras = []string{"allegra", "mary", "alonzo", "babbage", "conway", "dijkstra"}

// runRule decodes the transaction with the era's decoder and applies the
// era's UtxoValidateNativeScripts.  Returns "accept", "reject:<hash>" or
// "error:<...>".
func runRule(era string, txCbor []byte) string {
	var tx common.Transaction
	var err error
	var rule func(common.Transaction, uint64, common.LedgerState, common.ProtocolParameters) error
	switch era {
	case "allegra":
		tx, err = allegra.NewAllegraTransactionFromCbor(txCbor)
		rule = allegra.UtxoValidateNativeScripts
	case "mary":
		tx, err = mary.NewMaryTransactionFromCbor(txCbor)
		rule = mary.UtxoValidateNativeScripts
	case "alonzo":
		tx, err = alonzo.NewAlonzoTransactionFromCbor(txCbor)
		rule = alonzo.UtxoValidateNativeScripts
	case "babbage":
		tx, err = babbage.NewBabbageTransactionFromCbor(txCbor)
		rule = babbage.UtxoValidateNativeScripts
	case "conway":
		tx, err = conway.NewConwayTransactionFromCbor(txCbor)
		rule = conway.UtxoValidateNativeScripts
	case "dijkstra":
		tx, err = dijkstra.NewDijkstraTransactionFromCbor(txCbor)
		rule = dijkstra.UtxoValidateNativeScripts
	}
	if err != nil {
		return "error:decode-tx"
	}
	var res string
	p, pv := vh.Recover(func() {
		e := rule(tx, 12345, nil, nil)
		if e == nil {
			res = "accept"
			return
		}
		var nf allegra.NativeScriptFailedError
		if errors.As(e, &nf) {
			res = "reject:" + vh.Hex(nf.ScriptHash[:])
			return
		}
		res = "error:other"
	})
	if p {
		return fmt.Sprintf("error:panic %v", pv)
	}
	return res
}

// classify names the input class of a disagreement between the
// implementation and the ledger semantics.  The known sentinel conflation is
// recognised by re-evaluating the ledger semantics on the conflated bounds
// (absent start = present 0, absent or zero TTL = present 2^64-1): only when
// that explains the implementation's answer completely is the case filed
// under a sentinel key.
func classify(n *node, e *env, got bool, direct bool) string {
	if !direct {
		conf := *e
		if conf.start == nil {
			conf.start = ptr(0)
		}
		if conf.ttl == nil || *conf.ttl == 0 {
			conf.ttl = ptr(maxU64)
		}
		if conf.eval(n) == got {
			var keys []string
			n.walk(func(x *node) {
				switch {
				case x.Kind == 4 && e.start == nil && x.Slot == 0:
					keys = append(keys, "invalid-before-0-without-validity-start")
				case x.Kind == 5 && e.ttl == nil && x.Slot == maxU64:
					keys = append(keys, "invalid-hereafter-max-without-ttl")
				case x.Kind == 5 && e.ttl != nil && *e.ttl == 0 && x.Slot != maxU64:
					keys = append(keys, "ttl-present-zero-treated-as-absent")
				}
			})
			if len(keys) > 0 {
				sort.Strings(keys)
				return keys[0]
			}
		}
	}
	bad := ""
	n.walk(func(x *node) {
		if x.Kind == 0 && len(x.Hash) != 28 && bad == "" {
			bad = fmt.Sprintf("pubkey-hash-length-%d-matches-a-witness", len(x.Hash))
		}
	})
	if bad != "" {
		return bad
	}
	kinds := []string{"sig", "all", "any", "mofn", "timestart", "timeexpire", "guard"}
	return "eval-differs-root-" + kinds[n.Kind]
}

func runCase(c *vh.Ctx, cf *vh.CaseFile, direct bool, it *vh.Item, start, ttl *uint64, wit []int, extraKeys [][]byte, guards []guard) {
	enc := it.Enc()
	rc := rcase{Direct: direct, Script: vh.Hex(enc), Start: start, TTL: ttl}
	var vks [][]byte
	keyset := map[common.Blake2b224]bool{}
	e := &env{start: start, ttl: ttl, keys: map[string]bool{}, guards: map[string]bool{}}
	var coqKeys []string
	for _, i := range wit {
		vks = append(vks, vkeys[i])
		rc.Vkeys = append(rc.Vkeys, vh.Hex(vkeys[i]))
		if !e.keys[string(khash[i])] {
			coqKeys = append(coqKeys, vh.Bytes(khash[i]))
		}
		e.keys[string(khash[i])] = true
		keyset[common.Blake2b224(khash[i])] = true
	}
	var creds []common.Credential
	var coqGuards []string
	for _, g := range guards {
		rc.Guards = append(rc.Guards, fmt.Sprintf("%d:%x", g.Typ, g.Hash))
		e.guards[fmt.Sprintf("%d:%x", g.Typ, g.Hash)] = true
		creds = append(creds, common.Credential{CredType: uint(g.Typ), Credential: common.Blake2b224(g.Hash)})
		coqGuards = append(coqGuards, vh.Pair(vh.N(g.Typ), vh.Bytes(g.Hash)))
	}
	_ = extraKeys
	c.Begin(rc)

	// ---- implementation: decode
	var ns common.NativeScript
	var derr error
	p, pv := vh.Recover(func() { _, derr = cbor.Decode(enc, &ns) })
	if p {
		c.Res.Violate("monitor", "decode-panic", fmt.Sprintf("NativeScript.UnmarshalCBOR panicked: %v", pv), rc)
		return
	}
	rc.Decoded = derr == nil
	want, wantOk := parseScript(it)
	class := "undecodable"
	if wantOk {
		class = fmt.Sprintf("depth%d", want.depth())
	}
	mode := "rule"
	if direct {
		mode = "direct"
	}
	canon := fmt.Sprintf("%v|%s|%v|%v|%v|%v", direct, rc.Script, optN(start), optN(ttl), wit, rc.Guards)
	nontrivial := wantOk && (want.depth() >= 2 || want.Kind >= 4)
	c.Res.Count(canon, nontrivial, mode+"/"+class)
	if rc.Decoded != wantOk {
		c.Res.Violate("monitor", "decode-accepts-differ", fmt.Sprintf("script %x: decoder ok=%v, expected ok=%v (%v)", enc, rc.Decoded, wantOk, derr), rc)
	}
	coq := fmt.Sprintf("(mkcase %s %s %s %s %s %s)", vh.Bool(direct), it.Coq(), optN(start), optN(ttl), vh.List(coqKeys), vh.List(coqGuards))
	if !rc.Decoded {
		cf.Add(coq, rc)
		return
	}

	// ---- implementation: hash
	h := ns.Hash()
	rc.Hash = vh.Hex(h[:])
	wantHash := b224(append([]byte{0}, enc...))
	if !bytes.Equal(h[:], wantHash) {
		c.Res.Violate("monitor", "hash-differs", fmt.Sprintf("script %x: Hash()=%x, Blake2b-224(00||cbor)=%x", enc, h[:], wantHash), rc)
	}

	// ---- implementation: evaluate
	if direct {
		vs, ve := uint64(0), uint64(0)
		if start != nil {
			vs = *start
		}
		if ttl != nil {
			ve = *ttl
		}
		var got bool
		p, pv := vh.Recover(func() {
			if len(creds) > 0 {
				got = ns.EvaluateWithGuards(777, vs, ve, keyset, creds)
			} else {
				got = ns.Evaluate(777, vs, ve, keyset)
			}
		})
		if p {
			c.Res.Violate("monitor", "evaluate-panic", fmt.Sprintf("Evaluate panicked: %v", pv), rc)
			return
		}
		rc.Eval = got
		// direct calls hand over real (present) bounds
		de := *e
		de.start, de.ttl = &vs, &ve
		if wantOk && de.eval(want) != got {
			c.Res.Violate("monitor", classify(want, &de, got, true),
				fmt.Sprintf("Evaluate(start=%d,end=%d) of %x = %v, ledger evalTimelock = %v", vs, ve, enc, got, !got), rc)
		}
	} else {
		rc.Eras = map[string]string{}
		first := ""
		for _, era := range eras {
			r := runRule(era, buildTx(era, it, start, ttl, vks, guards))
			rc.Eras[era] = r
			if strings.HasPrefix(r, "error") {
				c.Res.Violate("monitor", "rule-"+r+"-"+era, fmt.Sprintf("%s: UtxoValidateNativeScripts / tx decode failed on script %x: %s", era, enc, r), rc)
				continue
			}
			if strings.HasPrefix(r, "reject:") && r != "reject:"+rc.Hash {
				c.Res.Violate("monitor", "rule-reports-other-hash-"+era, fmt.Sprintf("%s: failure reports hash %s, script hash is %s", era, r, rc.Hash), rc)
			}
			acc := r == "accept"
			// guards only exist in Dijkstra transactions
			ee := *e
			if era != "dijkstra" {
				ee.guards = map[string]bool{}
			}
			if wantOk && ee.eval(want) != acc {
				c.Res.Violate("monitor", classify(want, &ee, acc, false),
					fmt.Sprintf("%s rule: script %x with start=%s ttl=%s witnesses=%v -> accepted=%v, ledger evalTimelock = %v", era, enc, optN(start), optN(ttl), wit, acc, !acc), rc)
			}
			if era == "dijkstra" || len(guards) == 0 {
				if first == "" {
					first = r
				} else if (first == "accept") != acc {
					c.Res.Violate("monitor", "era-rules-disagree-"+era, fmt.Sprintf("%s rule says %s, an earlier era says %s on the same script and bounds", era, r, first), rc)
				}
			}
		}
		rc.Eval = rc.Eras["dijkstra"] == "accept"
	}
	if nontrivial {
		c.Res.Sample(map[string]any{"mode": mode, "script": rc.Script, "start": start, "ttl": ttl, "witnesses": wit, "eval": rc.Eval})
	}
	cf.Add(coq, rc)
}

// ---------------------------------------------------------------------------
// generators

type gen struct {
	r   *vh.Rng
	b   uint64 // the case's boundary slot
	top int    // depth of the root call: the root of a deep script is a non-empty combinator
}

func (g *gen) form(n uint64) vh.Form {
	if g.r.Chance(1, 10) {
		fs := []vh.Form{vh.F1, vh.F2, vh.F4, vh.F8}
		f := fs[g.r.Intn(4)]
		if vh.Fits(f, n) && f >= vh.MinForm(n) {
			return f
		}
	}
	return vh.MinForm(n)
}

func (g *gen) uint(n uint64) *vh.Item { return &vh.Item{K: vh.KUInt, F: g.form(n), N: n} }

func (g *gen) bstr(b []byte) *vh.Item {
	if len(b) > 2 && g.r.Chance(1, 25) {
		k := 1 + g.r.Intn(len(b)-1)
		return &vh.Item{K: vh.KBStrI, Chunks: []vh.Chunk{{F: vh.MinForm(uint64(k)), Bs: b[:k]}, {F: vh.MinForm(uint64(len(b) - k)), Bs: b[k:]}}}
	}
	return &vh.Item{K: vh.KBStr, F: g.form(uint64(len(b))), Bs: b}
}

func (g *gen) list(xs []*vh.Item) *vh.Item {
	it := &vh.Item{K: vh.KArr, F: g.form(uint64(len(xs))), Xs: xs}
	if g.r.Chance(1, 20) {
		it.F = vh.Findef
	}
	return it
}

func (g *gen) slot() uint64 {
	switch g.r.Intn(7) {
	case 0:
		return 0
	case 1:
		return g.b - 1
	case 2, 3:
		return g.b
	case 4:
		return g.b + 1
	case 5:
		return maxU64
	}
	return maxU64 - 1
}

func (g *gen) bound() *uint64 {
	switch g.r.Intn(8) {
	case 0, 1:
		return nil
	case 2:
		return ptr(0)
	case 3:
		return ptr(g.b - 1)
	case 4, 5:
		return ptr(g.b)
	case 6:
		return ptr(g.b + 1)
	}
	return ptr(maxU64)
}

func (g *gen) hash(malformed bool) []byte {
	i := g.r.Intn(3)
	if malformed {
		switch g.r.Intn(5) {
		case 0:
			return khash[2][:27] // zero-padding reaches the full hash of key 2
		case 1:
			return append(append([]byte{}, khash[i]...), byte(g.r.Intn(256))) // truncation reaches key i
		case 2:
			return nil
		case 3:
			return khash[i][:g.r.Intn(28)]
		}
		return append(append([]byte{}, khash[i]...), g.r.Bytes(1+g.r.Intn(4))...)
	}
	if g.r.Chance(1, 6) {
		return g.r.Bytes(28) // nobody's key
	}
	return khash[i]
}

func (g *gen) script(depth, width int, malformed, guards bool) *vh.Item {
	k := g.r.Intn(10)
	if depth <= 1 {
		k = []int{0, 0, 4, 5, 4, 5, 0, 6, 4, 5}[k]
	}
	forced := depth > 1 && (depth == g.top || g.r.Chance(1, 2))
	if forced {
		k = 1 + g.r.Intn(3)
	}
	subs := func() []*vh.Item {
		n := g.r.Intn(width + 1)
		if forced && n == 0 {
			n = 1 + g.r.Intn(width)
		}
		xs := make([]*vh.Item, n)
		for i := range xs {
			xs[i] = g.script(depth-1, width, malformed, guards)
		}
		return xs
	}
	switch k {
	case 0:
		return vh.A(vh.U(0), g.bstr(g.hash(malformed && g.r.Chance(1, 2))))
	case 1, 7:
		return vh.A(vh.U(1), g.list(subs()))
	case 2, 8:
		return vh.A(vh.U(2), g.list(subs()))
	case 3, 9:
		xs := subs()
		var n uint64
		switch g.r.Intn(6) {
		case 0:
			n = 0
		case 1:
			n = 1
		case 2:
			n = uint64(len(xs))
		case 3:
			n = uint64(len(xs)) + 1
		case 4:
			n = uint64(g.r.Intn(len(xs) + 1))
		default:
			n = g.r.Boundary()
		}
		return vh.A(vh.U(3), g.uint(n), g.list(xs))
	case 4:
		return vh.A(vh.U(4), g.uint(g.slot()))
	case 5:
		return vh.A(vh.U(5), g.uint(g.slot()))
	default:
		if !guards {
			return vh.A(vh.U(4), g.uint(g.slot()))
		}
		return vh.A(vh.U(6), vh.A(vh.U(uint64(g.r.Intn(2))), vh.B(khash[g.r.Intn(3)])))
	}
}

func subset(r *vh.Rng) []int {
	var out []int
	for i := 0; i < 3; i++ {
		if r.Bool() {
			out = append(out, i)
		}
	}
	return out
}

var boundaries = []uint64{1, 2, 5, 1000, 1 << 32, 1<<63 - 1, 1 << 63, maxU64 - 1}

func corpus(c *vh.Ctx, cf *vh.CaseFile) {
	k0, k1, k2 := khash[0], khash[1], khash[2]
	sig := func(h []byte) *vh.Item { return vh.A(vh.U(0), vh.B(h)) }
	tb := func(s uint64) *vh.Item { return vh.A(vh.U(4), vh.U(s)) }
	te := func(s uint64) *vh.Item { return vh.A(vh.U(5), vh.U(s)) }
	all := func(xs ...*vh.Item) *vh.Item { return vh.A(vh.U(1), vh.A(xs...)) }
	anyOf := func(xs ...*vh.Item) *vh.Item { return vh.A(vh.U(2), vh.A(xs...)) }
	mof := func(n uint64, xs ...*vh.Item) *vh.Item { return vh.A(vh.U(3), vh.U(n), vh.A(xs...)) }
	type cc struct {
		it         *vh.Item
		start, ttl *uint64
		wit        []int
	}
	cases := []cc{
		// the sentinel classes
		{tb(0), nil, ptr(100), nil},
		{tb(0), ptr(0), ptr(100), nil},
		{tb(1), nil, nil, nil},
		{te(maxU64), ptr(5), nil, nil},
		{te(maxU64), ptr(5), ptr(maxU64), nil},
		{te(maxU64 - 1), nil, nil, nil},
		{te(7), nil, ptr(0), nil},
		{te(maxU64), nil, ptr(0), nil},
		{all(tb(0), te(maxU64)), nil, nil, nil},
		{anyOf(tb(0), sig(k0)), nil, nil, []int{1}},
		// boundaries of both comparisons
		{tb(10), ptr(9), nil, nil}, {tb(10), ptr(10), nil, nil}, {tb(10), ptr(11), nil, nil},
		{te(10), nil, ptr(9), nil}, {te(10), nil, ptr(10), nil}, {te(10), nil, ptr(11), nil},
		// combinators on empty lists, n-of-k edges
		{all(), nil, nil, nil}, {anyOf(), nil, nil, nil}, {mof(0), nil, nil, nil}, {mof(1), nil, nil, nil},
		{mof(2, sig(k0), sig(k1), sig(k2)), nil, nil, []int{0}},
		{mof(2, sig(k0), sig(k1), sig(k2)), nil, nil, []int{0, 2}},
		{mof(3, sig(k0), sig(k1), sig(k2)), nil, nil, []int{0, 1, 2}},
		{mof(4, sig(k0), sig(k1), sig(k2)), nil, nil, []int{0, 1, 2}},
		{mof(maxU64, sig(k0)), nil, nil, []int{0}},
		{mof(2, sig(k0), sig(k0)), nil, nil, []int{0}},
		// key hashes that are not 28 bytes
		{sig(k2[:27]), nil, nil, []int{2}},
		{sig(append(append([]byte{}, k0...), 9)), nil, nil, []int{0}},
		{sig(nil), nil, nil, []int{0, 1, 2}},
		{sig(k1), nil, nil, []int{1}}, {sig(k1), nil, nil, []int{0, 2}},
		// rejected shapes
		{vh.A(vh.U(7), vh.U(1)), nil, nil, nil},
		{vh.A(vh.U(4), vh.U(1), vh.U(2)), nil, nil, nil},
		{vh.A(vh.U(3), vh.NI(0), vh.A()), nil, nil, nil},
		{vh.A(vh.U(0), vh.T("abc")), nil, nil, nil},
		// nested
		{all(anyOf(sig(k0), all(tb(5), te(50))), mof(1, te(50), sig(k1))), ptr(5), ptr(50), nil},
		{all(anyOf(sig(k0), all(tb(5), te(50))), mof(1, te(50), sig(k1))), ptr(4), ptr(51), []int{1}},
	}
	for _, x := range cases {
		runCase(c, cf, false, x.it, x.start, x.ttl, x.wit, nil, nil)
		runCase(c, cf, true, x.it, x.start, x.ttl, x.wit, nil, nil)
	}
	// guards
	g0 := guard{0, k0}
	g1 := guard{1, k0}
	gs := vh.A(vh.U(6), vh.A(vh.U(0), vh.B(k0)))
	for _, gl := range [][]guard{nil, {g0}, {g1}, {g1, g0}} {
		runCase(c, cf, false, gs, nil, nil, nil, nil, gl)
		runCase(c, cf, true, gs, nil, nil, nil, nil, gl)
		runCase(c, cf, false, all(gs, tb(3)), ptr(3), nil, nil, nil, gl)
	}
}

func run(c *vh.Ctx) error {
	initKeys()
	c.Res.Rule = "native scripts as CBOR trees (depth <= 3 quick / 4 thorough, width <= 3) over a 3-key universe; plus a history class (validate tx A, then decode tx B into the same object or replace its witness set, validate again: must equal B alone), leaf slots and transaction bounds drawn from {absent, 0, b-1, b, b+1, 2^64-2, 2^64-1} around a per-case boundary b, n-of-k thresholds {0,1,len,len+1,random,huge}, 10% non-minimal inner headers / chunked strings, a malformed stream with key hashes of length != 28; each evaluated directly (Evaluate) and through the six era rules on a decoded transaction. Distinct by (mode, script bytes, bounds, witnesses, guards); non-trivial = decodable and (nested or a time lock)."
	c.Res.Modelled = []string{
		"Blake2b-224 is symbolic in the model (hash term evaluated by golang.org/x/crypto in the correspondence) and a universally quantified function in C29_hash",
		"decoding is modelled only for the generated shapes (definite minimal outer header and type id; non-minimal forms of those are property C03); fxamacker's leniencies (null for a list / integer) are outside the model",
		"the witness key-hash set is given to the model as a list of 28-byte strings; vkey hashing and signature checking are not part of this property",
	}
	cf := c.NewCaseFile("c29", header)
	cf.Func = "model_outs"
	cf.SetShardSize(c.Pick(120, 300))
	if c.Replay != "" {
		b, err := os.ReadFile(c.Replay)
		if err != nil {
			return err
		}
		var rp struct {
			Replay rcase `json:"replay"`
		}
		if err := json.Unmarshal(b, &rp); err != nil {
			return err
		}
		it, n, err := vh.ParseItem(vh.UnHex(rp.Replay.Script))
		if err != nil || n != len(rp.Replay.Script)/2 {
			return fmt.Errorf("replay: cannot parse script: %v", err)
		}
		var wit []int
		for _, v := range rp.Replay.Vkeys {
			for i := range vkeys {
				if vh.Hex(vkeys[i]) == v {
					wit = append(wit, i)
				}
			}
		}
		var gl []guard
		for _, g := range rp.Replay.Guards {
			var t uint64
			var hx string
			fmt.Sscanf(g, "%d:%s", &t, &hx)
			gl = append(gl, guard{t, vh.UnHex(hx)})
		}
		if rp.Replay.History != "" {
			pit, _, err := vh.ParseItem(vh.UnHex(rp.Replay.PrevScript))
			if err != nil {
				return fmt.Errorf("replay: cannot parse previous script: %v", err)
			}
			var pw []int
			for _, v := range rp.Replay.PrevVkeys {
				for i := range vkeys {
					if vh.Hex(vkeys[i]) == v {
						pw = append(pw, i)
					}
				}
			}
			runHistory(c, cf, rp.Replay.History, hspec{pit, rp.Replay.PrevStart, rp.Replay.PrevTTL, pw}, hspec{it, rp.Replay.Start, rp.Replay.TTL, wit})
			cf.Flush()
			return nil
		}
		runCase(c, cf, rp.Replay.Direct, it, rp.Replay.Start, rp.Replay.TTL, wit, nil, gl)
		cf.Flush()
		return nil
	}
	corpus(c, cf)
	historyCases(c, cf)
	n := c.Pick(1000, 6000)
	for i := 0; i < n; i++ {
		g := &gen{r: c.Rng, b: boundaries[c.Rng.Intn(len(boundaries))]}
		depth := 2 + c.Rng.Intn(c.Pick(2, 3))
		if c.Rng.Chance(1, 7) {
			depth = 1
		}
		malformed := c.Rng.Chance(1, 8)
		withGuards := c.Rng.Chance(1, 10)
		g.top = depth
		it := g.script(depth, 3, malformed, withGuards)
		start, ttl := g.bound(), g.bound()
		var gl []guard
		if withGuards {
			for j := c.Rng.Intn(3); j > 0; j-- {
				gl = append(gl, guard{uint64(c.Rng.Intn(2)), khash[c.Rng.Intn(3)]})
			}
			gl = dedup(gl)
		}
		runCase(c, cf, c.Rng.Chance(1, 4), it, start, ttl, subset(c.Rng), nil, gl)
	}
	cf.Flush()
	return nil
}

func dedup(gl []guard) []guard {
	seen := map[string]bool{}
	var out []guard
	for _, g := range gl {
		k := fmt.Sprintf("%d:%x", g.Typ, g.Hash)
		if !seen[k] {
			seen[k] = true
			out = append(out, g)
		}
	}
	return out
}

func post(c *vh.Ctx) error {
	for _, fn := range c.Res.CaseFiles {
		out, err := os.ReadFile(filepath.Join(c.Out, fn+".out"))
		if err != nil {
			c.Res.Violate("correspondence", "coqc-failed:"+fn, "no coqc output", nil)
			continue
		}
		terms, err := vh.ParseStringList(out)
		if err != nil {
			c.Res.Violate("correspondence", "coqc-failed:"+fn, err.Error(), nil)
			continue
		}
		for i, t := range terms {
			var rc rcase
			b, _ := json.Marshal(c.Res.CaseIndex[fmt.Sprintf("%s#%d", fn, i)])
			json.Unmarshal(b, &rc)
			if t == "U" {
				if rc.Decoded {
					c.Res.Violate("correspondence", "model-vs-impl", "model rejects a script the implementation decodes: "+rc.Script, rc)
				}
				continue
			}
			if !rc.Decoded {
				c.Res.Violate("correspondence", "model-vs-impl", "model decodes a script the implementation rejects: "+rc.Script, rc)
				continue
			}
			mEval := t[0] == 'T'
			d, err := vh.EvalHTerm(t[1:])
			if err != nil || vh.Hex(d) != rc.Hash {
				c.Res.Violate("correspondence", "model-vs-impl", fmt.Sprintf("model hash %x (%v) differs from NativeScript.Hash %s", d, err, rc.Hash), rc)
			}
			if rc.Direct {
				if mEval != rc.Eval {
					c.Res.Violate("correspondence", "model-vs-impl", fmt.Sprintf("model evaluate=%v, NativeScript.Evaluate=%v on %s", mEval, rc.Eval, rc.Script), rc)
				}
				continue
			}
			for _, era := range eras {
				r := rc.Eras[era]
				// the model case carries the guards: only the Dijkstra transaction has them
				if era != "dijkstra" && len(rc.Guards) > 0 {
					continue
				}
				if strings.HasPrefix(r, "error") || (r == "accept") != mEval {
					c.Res.Violate("correspondence", "model-vs-impl", fmt.Sprintf("model rule outcome accept=%v, %s.UtxoValidateNativeScripts: %s on %s", mEval, era, r, rc.Script), rc)
				}
			}
		}
		c.Res.TracesValidated += len(terms)
	}
	return nil
}

func main() { vh.Main(vh.Runner{Property: "C29", Run: run, Post: post}) }
