// Package muxpeer is a scripted raw peer for the Ouroboros muxer wire format
// plus a net.Conn wrapper that fragments and records traffic.  It is written
// from the network specification (8-byte big-endian segment header: 32-bit
// timestamp, 16-bit protocol id whose top bit is the response flag, 16-bit
// payload length) and does not use the muxer package, so that it can serve
// as an independent oracle.  Shared by the C09 and C17 harnesses.
package muxpeer

import (
	"encoding/hex"
	"errors"
	"fmt"
	"io"
	"net"
	"runtime"
	"strings"
	"sync"
	"time"

	"verifharness/vh"
)

// Seg is one segment as it appears on the wire.
type Seg struct {
	Ts      uint32
	Raw     uint16 // protocol id field including the response flag
	Payload []byte
}

func (s Seg) Pid() uint16      { return s.Raw & 0x7fff }
func (s Seg) IsResponse() bool { return s.Raw&0x8000 != 0 }

// Header builds a segment header with an explicit length field.
func Header(ts uint32, raw uint16, length uint16) []byte {
	return []byte{byte(ts >> 24), byte(ts >> 16), byte(ts >> 8), byte(ts),
		byte(raw >> 8), byte(raw), byte(length >> 8), byte(length)}
}

// Frame builds header ++ payload (len(payload) must be <= 65535).
func Frame(ts uint32, raw uint16, payload []byte) []byte {
	return append(Header(ts, raw, uint16(len(payload))), payload...)
}

// Deframe splits a byte stream into whole segments; rest is what is left when
// no further whole segment is available; zero reports a zero-length header
// (parsing stops in front of it).
func Deframe(w []byte) (segs []Seg, rest []byte, zero bool) {
	for len(w) >= 8 {
		n := int(w[6])<<8 | int(w[7])
		if n == 0 {
			return segs, w, true
		}
		if len(w) < 8+n {
			break
		}
		segs = append(segs, Seg{
			Ts:      uint32(w[0])<<24 | uint32(w[1])<<16 | uint32(w[2])<<8 | uint32(w[3]),
			Raw:     uint16(w[4])<<8 | uint16(w[5]),
			Payload: append([]byte(nil), w[8:8+n]...),
		})
		w = w[8+n:]
	}
	return segs, w, false
}

// SplitChunks cuts b into random pieces (possibly across segment boundaries).
// style 0: tiny pieces, 1: medium, 2: whole, 3: mixed.
func SplitChunks(r *vh.Rng, b []byte, style int) [][]byte {
	var out [][]byte
	for len(b) > 0 {
		var n int
		switch style {
		case 0:
			n = 1 + r.Intn(3)
		case 1:
			n = 1 + r.Intn(40)
		case 2:
			n = len(b)
		default:
			switch r.Intn(4) {
			case 0:
				n = 1
			case 1:
				n = 1 + r.Intn(9)
			case 2:
				n = 1 + r.Intn(700)
			default:
				n = 1 + r.Intn(len(b))
			}
		}
		if n > len(b) {
			n = len(b)
		}
		out = append(out, b[:n])
		b = b[n:]
	}
	return out
}

// ChunkConn wraps a net.Conn.  Writes are cut into seeded pieces and every
// piece is recorded in the order it reaches the inner connection; reads
// return at most a seeded number of bytes.  Pieces of different concurrent
// Write calls may interleave (net.Conn does not promise atomic writes).
type ChunkConn struct {
	net.Conn
	wmu    sync.Mutex
	wrng   *vh.Rng
	wstyle int
	// maxRecord bounds the number of recorded pieces for one write (large
	// payloads are cut into few pieces so that case files stay small)
	written [][]byte
	rmu     sync.Mutex
	rrng    *vh.Rng
	rstyle  int
	read    int
	// slow > 0: every Write call sleeps a seeded 0..slow and yields between its
	// pieces, so that other goroutines queue up on whatever lock the caller holds
	// (steers schedules only; no verdict depends on the timing)
	slow time.Duration
}

// SetSlow makes every Write take a seeded 0..max and yield between partial writes.
func (c *ChunkConn) SetSlow(max time.Duration) { c.slow = max }

func NewChunkConn(c net.Conn, r *vh.Rng, wstyle, rstyle int) *ChunkConn {
	return &ChunkConn{Conn: c, wrng: r.Fork(), rrng: r.Fork(), wstyle: wstyle, rstyle: rstyle}
}

func (c *ChunkConn) pieces(b []byte) [][]byte {
	c.wmu.Lock()
	defer c.wmu.Unlock()
	if len(b) > 4000 {
		// a big segment: a few cuts only
		var out [][]byte
		k := 1 + c.wrng.Intn(4)
		for i := 0; i < k && len(b) > 1; i++ {
			n := 1 + c.wrng.Intn(len(b)-1)
			if c.wrng.Chance(1, 2) {
				n = 1 + c.wrng.Intn(12)
			}
			if n > len(b)-1 {
				n = len(b) - 1
			}
			out = append(out, b[:n])
			b = b[n:]
		}
		return append(out, b)
	}
	return SplitChunks(c.wrng, b, c.wstyle)
}

func (c *ChunkConn) Write(b []byte) (int, error) {
	total := 0
	var nap time.Duration
	if c.slow > 0 {
		c.wmu.Lock()
		nap = time.Duration(c.wrng.Intn(int(c.slow/time.Microsecond)+1)) * time.Microsecond
		c.wmu.Unlock()
	}
	for i, p := range c.pieces(b) {
		if c.slow > 0 {
			if i == 0 {
				time.Sleep(nap)
			}
			runtime.Gosched()
		}
		c.wmu.Lock()
		n, err := c.Conn.Write(p)
		c.written = append(c.written, append([]byte(nil), p[:n]...))
		c.wmu.Unlock()
		total += n
		if err != nil {
			return total, err
		}
	}
	return total, nil
}

func (c *ChunkConn) Read(p []byte) (int, error) {
	n := len(p)
	if n > 1 {
		c.rmu.Lock()
		switch c.rstyle {
		case 0:
			n = 1 + c.rrng.Intn(2)
		case 1:
			n = 1 + c.rrng.Intn(n)
		case 2:
		default:
			if c.rrng.Chance(1, 3) {
				n = 1 + c.rrng.Intn(n)
			}
		}
		c.rmu.Unlock()
		if n > len(p) {
			n = len(p)
		}
	}
	k, err := c.Conn.Read(p[:n])
	c.rmu.Lock()
	c.read += k
	c.rmu.Unlock()
	return k, err
}

// Written returns the recorded pieces in wire order.
func (c *ChunkConn) Written() [][]byte {
	c.wmu.Lock()
	defer c.wmu.Unlock()
	return append([][]byte(nil), c.written...)
}

func Concat(chunks [][]byte) []byte {
	var w []byte
	for _, c := range chunks {
		w = append(w, c...)
	}
	return w
}

// CoqBytes prints a byte string as a Coq term of type bytes, compressing long
// runs of one byte as `rep n b` (Model.rep) so that big payloads stay small.
func CoqBytes(b []byte) string {
	var parts []string
	lit := 0
	flush := func(to int) {
		if to > lit {
			parts = append(parts, `hx "`+hex.EncodeToString(b[lit:to])+`"`)
		}
	}
	i := 0
	for i < len(b) {
		j := i
		for j < len(b) && b[j] == b[i] {
			j++
		}
		if j-i >= 64 {
			flush(i)
			parts = append(parts, fmt.Sprintf("rep %d%%N %d%%N", j-i, b[i]))
			lit = j
		}
		i = j
	}
	flush(len(b))
	if len(parts) == 0 {
		return `(hx "")`
	}
	return "(" + strings.Join(parts, " ++ ") + ")%list"
}

func CoqChunks(chunks [][]byte) string {
	xs := make([]string, len(chunks))
	for i, c := range chunks {
		xs[i] = CoqBytes(c)
	}
	return vh.List(xs)
}

// ---------------------------------------------------------------------------
// RawPeer: a scripted peer speaking raw segments over a net.Conn.

type RawPeer struct {
	Conn net.Conn
	buf  []byte
}

var ErrTimeout = errors.New("muxpeer: timeout")

// WriteChunks writes the pieces one by one; it stops at the first error.
func (p *RawPeer) WriteChunks(chunks [][]byte, deadline time.Duration) error {
	_ = p.Conn.SetWriteDeadline(time.Now().Add(deadline))
	for _, c := range chunks {
		if _, err := p.Conn.Write(c); err != nil {
			return err
		}
	}
	return nil
}

// ReadSeg reads one whole segment (or returns the read error / timeout).
func (p *RawPeer) ReadSeg(deadline time.Duration) (Seg, error) {
	_ = p.Conn.SetReadDeadline(time.Now().Add(deadline))
	hdr := make([]byte, 8)
	if _, err := io.ReadFull(p.Conn, hdr); err != nil {
		return Seg{}, err
	}
	n := int(hdr[6])<<8 | int(hdr[7])
	pl := make([]byte, n)
	if _, err := io.ReadFull(p.Conn, pl); err != nil {
		return Seg{}, err
	}
	return Seg{
		Ts:      uint32(hdr[0])<<24 | uint32(hdr[1])<<16 | uint32(hdr[2])<<8 | uint32(hdr[3]),
		Raw:     uint16(hdr[4])<<8 | uint16(hdr[5]),
		Payload: pl,
	}, nil
}

// ---------------------------------------------------------------------------
// Minimal CBOR for the handshake mini-protocol (protocol id 0), written from
// the network spec CDDL:
//   msgProposeVersions = [0, {* versionNumber => versionData}]
//   msgAcceptVersion   = [1, versionNumber, versionData]
//   msgRefuse          = [2, refuseReason]
//   NtC versionData (v15+) = [magic, query];  v9..14 = magic
//   NtN versionData v7..10 = [magic, initiatorOnly]; v11+ = [magic, initiatorOnly, peerSharing, query]

func cborUint(major byte, v uint64) []byte {
	m := major << 5
	switch {
	case v < 24:
		return []byte{m | byte(v)}
	case v < 1<<8:
		return []byte{m | 24, byte(v)}
	case v < 1<<16:
		return []byte{m | 25, byte(v >> 8), byte(v)}
	case v < 1<<32:
		return []byte{m | 26, byte(v >> 24), byte(v >> 16), byte(v >> 8), byte(v)}
	default:
		return []byte{m | 27, byte(v >> 56), byte(v >> 48), byte(v >> 40), byte(v >> 32), byte(v >> 24), byte(v >> 16), byte(v >> 8), byte(v)}
	}
}

func cborBool(b bool) []byte {
	if b {
		return []byte{0xf5}
	}
	return []byte{0xf4}
}

// VersionData encodes the handshake parameters of one version.
// kind: "ntc-old" (v9..14), "ntc" (v15+, DMQ NtC), "ntn-old" (v7..10), "ntn" (v11+)
func VersionData(kind string, magic uint32, initiatorOnly bool, peerSharing uint64, query bool) []byte {
	switch kind {
	case "ntc-old":
		return cborUint(0, uint64(magic))
	case "ntc":
		return append(append(cborUint(4, 2), cborUint(0, uint64(magic))...), cborBool(query)...)
	case "ntn-old":
		return append(append(cborUint(4, 2), cborUint(0, uint64(magic))...), cborBool(initiatorOnly)...)
	default:
		out := append(cborUint(4, 4), cborUint(0, uint64(magic))...)
		out = append(out, cborBool(initiatorOnly)...)
		out = append(out, cborUint(0, peerSharing)...)
		return append(out, cborBool(query)...)
	}
}

// MsgPropose encodes [0, {version: data}] for a single version.
func MsgPropose(version uint16, data []byte) []byte {
	out := append(cborUint(4, 2), cborUint(0, 0)...)
	out = append(out, cborUint(5, 1)...)
	out = append(out, cborUint(0, uint64(version))...)
	return append(out, data...)
}

// MsgAccept encodes [1, version, data].
func MsgAccept(version uint16, data []byte) []byte {
	out := append(cborUint(4, 3), cborUint(0, 1)...)
	out = append(out, cborUint(0, uint64(version))...)
	return append(out, data...)
}

// ParseHandshakeReply classifies a handshake message received from the
// implementation: returns the message tag (0 propose, 1 accept, 2 refuse,
// 3 query reply) and, for accept, the version number.
func ParseHandshakeReply(b []byte) (tag int, version uint16, err error) {
	if len(b) < 2 || b[0]>>5 != 4 {
		return -1, 0, fmt.Errorf("not a CBOR array: %x", b)
	}
	tag = int(b[1])
	if tag != 1 {
		return tag, 0, nil
	}
	v, _, e := readUint(b[2:])
	return tag, uint16(v), e
}

func readUint(b []byte) (uint64, int, error) {
	if len(b) == 0 || b[0]>>5 != 0 {
		return 0, 0, fmt.Errorf("not a CBOR uint: %x", b)
	}
	ai := b[0] & 0x1f
	switch {
	case ai < 24:
		return uint64(ai), 1, nil
	case ai == 24 && len(b) >= 2:
		return uint64(b[1]), 2, nil
	case ai == 25 && len(b) >= 3:
		return uint64(b[1])<<8 | uint64(b[2]), 3, nil
	case ai == 26 && len(b) >= 5:
		return uint64(b[1])<<24 | uint64(b[2])<<16 | uint64(b[3])<<8 | uint64(b[4]), 5, nil
	}
	return 0, 0, fmt.Errorf("unsupported CBOR uint: %x", b)
}

// ---------------------------------------------------------------------------
// Decoding what the implementation put on the wire in the handshake.

func cborHead(b []byte) (major byte, val uint64, n int, err error) {
	if len(b) == 0 {
		return 0, 0, 0, errors.New("cbor: truncated")
	}
	major, ai := b[0]>>5, b[0]&0x1f
	switch {
	case ai < 24:
		return major, uint64(ai), 1, nil
	case ai == 24 && len(b) >= 2:
		return major, uint64(b[1]), 2, nil
	case ai == 25 && len(b) >= 3:
		return major, uint64(b[1])<<8 | uint64(b[2]), 3, nil
	case ai == 26 && len(b) >= 5:
		return major, uint64(b[1])<<24 | uint64(b[2])<<16 | uint64(b[3])<<8 | uint64(b[4]), 5, nil
	case ai == 27 && len(b) >= 9:
		var v uint64
		for i := 1; i <= 8; i++ {
			v = v<<8 | uint64(b[i])
		}
		return major, v, 9, nil
	}
	return 0, 0, 0, fmt.Errorf("cbor: unsupported head %#x", b[0])
}

// cborSkip returns the length of the first (definite-length) item of b.
func cborSkip(b []byte) (int, error) {
	major, val, n, err := cborHead(b)
	if err != nil {
		return 0, err
	}
	switch major {
	case 0, 1, 7:
		return n, nil
	case 2, 3:
		if len(b) < n+int(val) {
			return 0, errors.New("cbor: truncated string")
		}
		return n + int(val), nil
	case 4, 5:
		cnt := int(val)
		if major == 5 {
			cnt *= 2
		}
		for i := 0; i < cnt; i++ {
			k, err := cborSkip(b[n:])
			if err != nil {
				return 0, err
			}
			n += k
		}
		return n, nil
	case 6:
		k, err := cborSkip(b[n:])
		return n + k, err
	}
	return 0, errors.New("cbor: unsupported")
}

// ParseProposal decodes msgProposeVersions = [0, {version => versionData}] into the raw
// version data per version.
func ParseProposal(b []byte) (map[uint16][]byte, error) {
	major, val, n, err := cborHead(b)
	if err != nil || major != 4 || val != 2 {
		return nil, fmt.Errorf("not a proposal: %x", b)
	}
	_, tag, k, err := cborHead(b[n:])
	if err != nil || tag != 0 {
		return nil, fmt.Errorf("not a proposal: %x", b)
	}
	n += k
	major, cnt, k, err := cborHead(b[n:])
	if err != nil || major != 5 {
		return nil, fmt.Errorf("proposal without a map: %x", b)
	}
	n += k
	out := map[uint16][]byte{}
	for i := 0; i < int(cnt); i++ {
		_, ver, k, err := cborHead(b[n:])
		if err != nil {
			return nil, err
		}
		n += k
		l, err := cborSkip(b[n:])
		if err != nil {
			return nil, err
		}
		out[uint16(ver)] = b[n : n+l]
		n += l
	}
	return out, nil
}

// ParseAccept decodes msgAcceptVersion = [1, version, versionData].
func ParseAccept(b []byte) (uint16, []byte, error) {
	major, val, n, err := cborHead(b)
	if err != nil || major != 4 || val != 3 {
		return 0, nil, fmt.Errorf("not an accept: %x", b)
	}
	_, tag, k, err := cborHead(b[n:])
	if err != nil || tag != 1 {
		return 0, nil, fmt.Errorf("not an accept: %x", b)
	}
	n += k
	_, ver, k, err := cborHead(b[n:])
	if err != nil {
		return 0, nil, err
	}
	n += k
	l, err := cborSkip(b[n:])
	if err != nil {
		return 0, nil, err
	}
	return uint16(ver), b[n : n+l], nil
}

// AdvertisedDuplex reads the diffusion mode out of node-to-node version data
// [magic, initiatorOnly, ...]: true = InitiatorAndResponder (initiatorOnly = false).
// Node-to-client version data (a bare magic or [magic, query]) carries no diffusion mode:
// has = false.
func AdvertisedDuplex(data []byte, nodeToNode bool) (duplex bool, has bool) {
	if !nodeToNode {
		return false, false
	}
	major, val, n, err := cborHead(data)
	if err != nil || major != 4 || val < 2 {
		return false, false
	}
	k, err := cborSkip(data[n:])
	if err != nil || len(data) <= n+k {
		return false, false
	}
	switch data[n+k] {
	case 0xf4:
		return true, true
	case 0xf5:
		return false, true
	}
	return false, false
}
