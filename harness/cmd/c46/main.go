// C46 - DMQ messages are accepted only when fully authenticated.
//
// Histories of API operations (RegisterSPOPool, UnregisterSPOPool,
// RemoveKESOpCertCacheEntry, SetAllowInsecureKES, SetKESVerifier,
// VerifyMessage / VerifyMessageWithSlot) are run against the real
// MessageAuthenticator with real Ed25519 keys and an injected KES verifier.
// Monitor: the property clauses evaluated with independent re-computation of
// the CBOR encodings, hashes and signatures on a shadow of the history.
// Correspondence: the Coq model replays the history with oracle tables of the
// primitive results and must reproduce every outcome and the final state.
package main

import (
	"bytes"
	"crypto/ed25519"
	"encoding/binary"
	"encoding/hex"
	"encoding/json"
	"errors"
	"fmt"
	"io"
	"log/slog"
	"os"
	"reflect"
	"strings"

	pcbor "github.com/blinklabs-io/gouroboros/cbor"
	pcommon "github.com/blinklabs-io/gouroboros/protocol/common"
	lms "github.com/blinklabs-io/gouroboros/protocol/localmessagesubmission"
	"golang.org/x/crypto/blake2b"

	"verifharness/vh"
)

const header = `From Coq Require Import String.
From V Require Import Lib.Base Lib.Hex C46.Model.
Open Scope string_scope.`

// ---------------------------------------------------------------------------
// replayable history

type jmsg struct {
	ID       string  `json:"id"`
	LegacyID string  `json:"legacy_id"`
	Body     *string `json:"body"` // nil = nil slice
	KesP     uint64  `json:"kes_period"`
	Expires  uint32  `json:"expires"`
	KesSig   string  `json:"kes_sig"`
	KesVkey  *string `json:"kes_vkey"`
	Issue    uint64  `json:"issue"`
	OcKesP   uint64  `json:"oc_kes_period"`
	ColdSig  string  `json:"cold_sig"`
	Cold     string  `json:"cold"`
	Note     string  `json:"note,omitempty"`
}

type jop struct {
	Kind string  `json:"kind"` // register unregister remove insecure verifier verify
	Pool string  `json:"pool,omitempty"`
	B    bool    `json:"b,omitempty"`
	V    uint64  `json:"v,omitempty"`
	Msg  *jmsg   `json:"msg,omitempty"`
	Nil  bool    `json:"nil,omitempty"` // verify(nil)
	Slot *uint64 `json:"slot,omitempty"`
	// Via says how the message object handed to VerifyMessage comes into being:
	// "" struct literal; "wire" MarshalCBOR + the real decoder; "legacy-wire" the V1 wire shape + the real
	// decoder; "submit" inside a local-message-submission MsgSubmitMessage through NewMsgFromCbor;
	// "setid" struct literal followed by SetMessageID(ID())
	Via string `json:"via,omitempty"`
}

type hist struct {
	Disabled bool  `json:"disabled"`
	Ops      []jop `json:"ops"`
}

func unhexp(s *string) []byte {
	if s == nil {
		return nil
	}
	b := vh.UnHex(*s)
	if b == nil {
		b = []byte{}
	}
	return b
}
func hexp(b []byte) *string {
	if b == nil {
		return nil
	}
	s := hex.EncodeToString(b)
	return &s
}

func (j *jmsg) build() *pcommon.DmqMessage {
	m := &pcommon.DmqMessage{
		MessageID: vh.UnHex(j.ID),
		Payload: pcommon.DmqMessagePayload{
			MessageID:   vh.UnHex(j.LegacyID),
			MessageBody: unhexp(j.Body),
			KESPeriod:   j.KesP,
			ExpiresAt:   j.Expires,
		},
		KESSignature: vh.UnHex(j.KesSig),
		OperationalCertificate: pcommon.OperationalCertificate{
			KESVerificationKey: unhexp(j.KesVkey),
			IssueNumber:        j.Issue,
			KESPeriod:          j.OcKesP,
			ColdSignature:      vh.UnHex(j.ColdSig),
		},
		ColdVerificationKey: vh.UnHex(j.Cold),
	}
	return m
}

// construct builds the message object the way o.Via says.  The returned jmsg describes the fields of the
// object that is actually verified (decoding normalises the two id fields); monitor and model work on it.
func (o *jop) construct() (*pcommon.DmqMessage, *jmsg, error) {
	m := o.Msg.build()
	switch o.Via {
	case "wire":
		data, err := pcbor.Encode(*m) // DmqMessage.MarshalCBOR
		if err != nil {
			return nil, nil, err
		}
		var d pcommon.DmqMessage
		if _, err := pcbor.Decode(data, &d); err != nil {
			return nil, nil, err
		}
		m = &d
	case "legacy-wire":
		data, err := pcommon.MarshalDmqMessageLegacyCBOR(*m)
		if err != nil {
			return nil, nil, err
		}
		var d pcommon.DmqMessage
		if _, err := pcbor.Decode(data, &d); err != nil {
			return nil, nil, err
		}
		m = &d
	case "submit":
		data, err := pcbor.Encode(lms.NewMsgSubmitMessage(*m))
		if err != nil {
			return nil, nil, err
		}
		pm, err := lms.NewMsgFromCbor(lms.MessageTypeSubmitMessage, data)
		if err != nil {
			return nil, nil, err
		}
		sm, ok := pm.(*lms.MsgSubmitMessage)
		if !ok {
			return nil, nil, errors.New("NewMsgFromCbor did not return a MsgSubmitMessage")
		}
		m = &sm.Message
	case "setid":
		m.SetMessageID(m.ID())
	}
	eff := &jmsg{
		ID: hex.EncodeToString(m.MessageID), LegacyID: hex.EncodeToString(m.Payload.MessageID),
		Body: hexp(m.Payload.MessageBody), KesP: m.Payload.KESPeriod, Expires: m.Payload.ExpiresAt,
		KesSig: hex.EncodeToString(m.KESSignature), KesVkey: hexp(m.OperationalCertificate.KESVerificationKey),
		Issue: m.OperationalCertificate.IssueNumber, OcKesP: m.OperationalCertificate.KESPeriod,
		ColdSig: hex.EncodeToString(m.OperationalCertificate.ColdSignature), Cold: hex.EncodeToString(m.ColdVerificationKey),
		Note: o.Msg.Note,
	}
	if o.Via != "" {
		eff.Note += "/" + o.Via
	}
	return m, eff, nil
}

// ---------------------------------------------------------------------------
// independent encodings (written from RFC 8949 / the CDDL, not via repo code)

func cborHead(major byte, n uint64) []byte {
	switch {
	case n < 24:
		return []byte{major<<5 | byte(n)}
	case n < 1<<8:
		return []byte{major<<5 | 24, byte(n)}
	case n < 1<<16:
		return []byte{major<<5 | 25, byte(n >> 8), byte(n)}
	case n < 1<<32:
		b := []byte{major<<5 | 26, 0, 0, 0, 0}
		binary.BigEndian.PutUint32(b[1:], uint32(n))
		return b
	default:
		b := []byte{major<<5 | 27, 0, 0, 0, 0, 0, 0, 0, 0}
		binary.BigEndian.PutUint64(b[1:], n)
		return b
	}
}
func cborBytes(b []byte) []byte {
	if b == nil {
		return []byte{0xf6}
	}
	return append(cborHead(2, uint64(len(b))), b...)
}
func encTriple(b []byte, x, y uint64) []byte {
	out := []byte{0x83}
	out = append(out, cborBytes(b)...)
	out = append(out, cborHead(0, x)...)
	out = append(out, cborHead(0, y)...)
	return out
}
func encPayload(j *jmsg) []byte { return encTriple(unhexp(j.Body), j.KesP, uint64(j.Expires)) }
func encCert(j *jmsg) []byte    { return encTriple(unhexp(j.KesVkey), j.Issue, j.OcKesP) }
func wrapBstr(b []byte) []byte  { return append(cborHead(2, uint64(len(b))), b...) }
func h256(b []byte) []byte      { h := blake2b.Sum256(b); return h[:] }
func poolOf(cold []byte) string { return hex.EncodeToString(h256(cold)) }

const spkp = 129600

// the injected KES verifiers: a family of deterministic functions indexed by
// an id.  A signature is "valid" when its first 32 bytes are the hash of the
// signed bytes, the key and the period.
func kesTag(wrapped, vkey []byte, period uint64) []byte {
	var p [8]byte
	binary.LittleEndian.PutUint64(p[:], period)
	return h256(append(append(append([]byte("kes"), wrapped...), vkey...), p[:]...))
}
func kesFn(vid uint64, wrapped, sig, vkey []byte, period, slot, sp uint64) (bool, error) {
	base := len(sig) >= 32 && bytes.Equal(sig[:32], kesTag(wrapped, vkey, period))
	switch vid % 4 {
	case 0:
		return base, nil
	case 1: // also insists that the slot lies in the claimed period
		return base && sp != 0 && slot/sp == period, nil
	case 2: // reports an error for marked signatures even though it says valid
		if len(sig) > 32 && sig[32] == 0xEE {
			return true, errors.New("kes backend error")
		}
		return base, nil
	default:
		return false, nil
	}
}

// ---------------------------------------------------------------------------
// running one history

type kesCall struct {
	vid                uint64
	wrapped, sig, vkey []byte
	period, slot, sp   uint64
	result             bool
}

type obs struct {
	ok, idSet, called bool
}

type finalEntry struct {
	pool  string
	reg   bool
	cache *uint64
}

// readCache reads the unexported kesOpCertCache through reflection (read-only)
func readCache(a *pcommon.MessageAuthenticator) (map[string]uint64, error) {
	f := reflect.ValueOf(a).Elem().FieldByName("kesOpCertCache")
	if !f.IsValid() || f.Kind() != reflect.Map {
		return nil, errors.New("MessageAuthenticator.kesOpCertCache not found")
	}
	out := map[string]uint64{}
	it := f.MapRange()
	for it.Next() {
		out[it.Key().String()] = it.Value().Uint()
	}
	return out, nil
}

type runResult struct {
	eff   map[int]*jmsg // op index -> fields of the object that was verified
	obs   []obs
	calls []kesCall
	final []finalEntry
	viol  []vh.Violation
	acc   int
	rej   int
}

func quiet() *slog.Logger { return slog.New(slog.NewTextHandler(io.Discard, nil)) }

func runHist(h *hist) (*runResult, error) {
	var a *pcommon.MessageAuthenticator
	if h.Disabled {
		a = pcommon.NewNoOpAuthenticator(quiet())
	} else {
		a = pcommon.NewMessageAuthenticator(quiet())
	}
	rr := &runResult{eff: map[int]*jmsg{}}
	ncalls := 0
	// shadow of the history for the monitor
	shReg := map[string]bool{}
	shAcc := map[string][]uint64{} // counters accepted per pool since its cache entry was removed
	var shVer *uint64
	shIns := false
	pools := map[string]bool{}

	for i := range h.Ops {
		o := &h.Ops[i]
		switch o.Kind {
		case "register":
			a.RegisterSPOPool(o.Pool)
			shReg[o.Pool] = true
			pools[o.Pool] = true
			rr.obs = append(rr.obs, obs{true, false, false})
		case "unregister":
			a.UnregisterSPOPool(o.Pool)
			delete(shReg, o.Pool)
			pools[o.Pool] = true
			rr.obs = append(rr.obs, obs{true, false, false})
		case "remove":
			a.RemoveKESOpCertCacheEntry(o.Pool)
			delete(shAcc, o.Pool)
			pools[o.Pool] = true
			rr.obs = append(rr.obs, obs{true, false, false})
		case "insecure":
			a.SetAllowInsecureKES(o.B)
			shIns = o.B
			rr.obs = append(rr.obs, obs{true, false, false})
		case "verifier":
			vid := o.V
			a.SetKESVerifier(func(w, s, k []byte, p, sl, sp uint64) (bool, error) {
				ncalls++
				ok, err := kesFn(vid, w, s, k, p, sl, sp)
				rr.calls = append(rr.calls, kesCall{vid, append([]byte{}, w...), append([]byte{}, s...), append([]byte{}, k...), p, sl, sp, ok && err == nil})
				return ok, err
			})
			v := vid
			shVer = &v
			rr.obs = append(rr.obs, obs{true, false, false})
		case "verify":
			before := ncalls
			var err error
			if o.Nil {
				if o.Slot != nil {
					err = a.VerifyMessageWithSlot(nil, *o.Slot)
				} else {
					err = a.VerifyMessage(nil)
				}
				rr.obs = append(rr.obs, obs{err == nil, false, false})
				if err == nil && !h.Disabled {
					rr.viol = append(rr.viol, vh.Violation{Kind: "monitor", Key: "accepted-nil-message", What: fmt.Sprintf("op %d: VerifyMessage(nil) returned nil", i)})
				}
				continue
			}
			m, eff, cerr := o.construct()
			if cerr != nil {
				return nil, fmt.Errorf("op %d: cannot build the message via %q: %w", i, o.Via, cerr)
			}
			rr.eff[i] = eff
			id0 := append([]byte{}, m.ID()...)
			mid0, lid0 := append([]byte{}, m.MessageID...), append([]byte{}, m.Payload.MessageID...)
			if o.Slot != nil {
				err = a.VerifyMessageWithSlot(m, *o.Slot)
			} else {
				err = a.VerifyMessage(m)
			}
			changed := !bytes.Equal(mid0, m.MessageID) || !bytes.Equal(lid0, m.Payload.MessageID)
			if changed && !(bytes.Equal(m.MessageID, id0) && bytes.Equal(m.Payload.MessageID, id0)) {
				rr.viol = append(rr.viol, vh.Violation{Kind: "monitor", Key: "id-fields-rewritten-to-other-value", What: fmt.Sprintf("op %d: verification rewrote the id fields to something that is not the message's id", i)})
			}
			// observable: after the call both id fields hold the message's id (set by SetMessageID, or
			// already so before - decoded messages arrive like that)
			bothID := bytes.Equal(m.MessageID, id0) && bytes.Equal(m.Payload.MessageID, id0)
			rr.obs = append(rr.obs, obs{err == nil, bothID, ncalls > before})
			cold := vh.UnHex(eff.Cold)
			pool := poolOf(cold)
			pools[pool] = true
			if err != nil {
				rr.rej++
				continue
			}
			rr.acc++
			if h.Disabled {
				continue // the documented no-op authenticator
			}
			// ---- the property, clause by clause, on independent computations ----
			j := eff
			bad := func(key, what string) {
				rr.viol = append(rr.viol, vh.Violation{Kind: "monitor", Key: key, What: fmt.Sprintf("op %d (%s): accepted although %s", i, j.Note, what)})
			}
			// (forge-payload-stale-kes is legitimately accepted in insecure mode; the KES clause below judges it)
			if strings.HasPrefix(j.Note, "forge-") && !strings.HasPrefix(j.Note, "forge-payload-stale-kes") {
				kind := strings.SplitN(j.Note, "/", 2)[0]
				bad("forged-opcert-accepted-after-genuine:"+strings.TrimPrefix(kind, "forge-"), "it is a forgery that re-uses the fields of the genuine message before it with one of them replaced")
			}
			pe := encPayload(j)
			if len(id0) != 32 || !bytes.Equal(id0, h256(pe)) {
				bad("accepted-id-not-hash-of-payload", fmt.Sprintf("id %x is not blake2b-256 of the payload encoding %x", id0, pe))
			}
			csig := vh.UnHex(j.ColdSig)
			if len(cold) != 32 || len(csig) != 64 || !ed25519.Verify(ed25519.PublicKey(cold), encCert(j), csig) {
				bad("accepted-opcert-not-signed-by-cold-key", "the cold key's Ed25519 signature over [kes vkey, counter, kes period] does not verify")
			}
			if shVer != nil {
				slot := j.KesP * spkp // uint64 wrap, as a node deriving the slot from the period would
				if o.Slot != nil {
					slot = *o.Slot
				}
				ok, kerr := kesFn(*shVer, wrapBstr(pe), vh.UnHex(j.KesSig), unhexp(j.KesVkey), j.KesP, slot, spkp)
				if !ok || kerr != nil || len(vh.UnHex(j.KesSig)) != 448 || len(unhexp(j.KesVkey)) != 32 {
					bad("accepted-kes-signature-invalid", "the KES signature over the wrapped payload does not verify under the opcert's KES key")
				}
			} else if !shIns {
				bad("accepted-without-kes-verifier", "no KES verifier is set and insecure mode was not enabled")
			}
			if !shReg[pool] {
				bad("accepted-unregistered-pool", "pool "+pool+" is not registered")
			}
			for _, c := range shAcc[pool] {
				if j.Issue < c {
					bad("accepted-counter-regression", fmt.Sprintf("counter %d is below %d accepted earlier for pool %s", j.Issue, c, pool))
					break
				}
			}
			shAcc[pool] = append(shAcc[pool], j.Issue)
		default:
			return nil, fmt.Errorf("unknown op kind %q", o.Kind)
		}
	}
	cache, err := readCache(a)
	if err != nil {
		return nil, err
	}
	for p := range cache {
		pools[p] = true
	}
	for _, p := range vh.SortedKeys(pools) {
		fe := finalEntry{pool: p, reg: a.IsSPOPoolRegistered(p)}
		if v, ok := cache[p]; ok {
			vv := v
			fe.cache = &vv
		}
		rr.final = append(rr.final, fe)
	}
	return rr, nil
}

// ---------------------------------------------------------------------------
// Coq rendering with per-case interning of byte strings

type interner struct {
	names map[string]string
	defs  []string
}

func (n *interner) b(b []byte) string {
	h := hex.EncodeToString(b)
	if len(b) < 6 {
		return vh.Bytes(b)
	}
	// long runs of one byte are written as repeat
	if nm, ok := n.names[h]; ok {
		return nm
	}
	nm := fmt.Sprintf("b%d", len(n.names))
	n.names[h] = nm
	// trailing padding of one repeated byte is common (KES signatures)
	k := len(b)
	for k > 0 && b[k-1] == b[len(b)-1] {
		k--
	}
	if len(b)-k >= 64 {
		n.defs = append(n.defs, fmt.Sprintf("let %s := (hx \"%s\" ++ repeat %d%%N %d)%%list in", nm, hex.EncodeToString(b[:k]), b[len(b)-1], len(b)-k))
	} else {
		n.defs = append(n.defs, fmt.Sprintf("let %s := hx \"%s\" in", nm, h))
	}
	return nm
}
func (n *interner) ob(b []byte) string {
	if b == nil {
		return "None"
	}
	return "(Some " + n.b(b) + ")"
}

func optN(p *uint64) string {
	if p == nil {
		return "None"
	}
	return "(Some " + vh.N(*p) + ")"
}

func coqCase(h *hist, rr *runResult) string {
	in := &interner{names: map[string]string{}}
	hashes := map[string]bool{}
	var hashTbl, edTbl []string
	addHash := func(pre []byte) {
		k := hex.EncodeToString(pre)
		if hashes[k] {
			return
		}
		hashes[k] = true
		hashTbl = append(hashTbl, vh.Pair(in.b(pre), in.b(h256(pre))))
	}
	eds := map[string]bool{}
	var ops []string
	for i := range h.Ops {
		o := &h.Ops[i]
		switch o.Kind {
		case "register":
			ops = append(ops, "Register "+in.b([]byte(o.Pool)))
		case "unregister":
			ops = append(ops, "Unregister "+in.b([]byte(o.Pool)))
		case "remove":
			ops = append(ops, "RemoveCache "+in.b([]byte(o.Pool)))
		case "insecure":
			ops = append(ops, "SetInsecure "+vh.Bool(o.B))
		case "verifier":
			ops = append(ops, "SetVerifier "+vh.N(o.V))
		case "verify":
			if o.Nil {
				ops = append(ops, "Verify None "+optN(o.Slot))
				continue
			}
			j := rr.eff[i]
			cold, csig := vh.UnHex(j.Cold), vh.UnHex(j.ColdSig)
			addHash(encPayload(j))
			addHash(cold)
			if len(cold) == 32 && len(csig) == 64 && ed25519.Verify(ed25519.PublicKey(cold), encCert(j), csig) {
				k := j.Cold + "|" + hex.EncodeToString(encCert(j)) + "|" + j.ColdSig
				if !eds[k] {
					eds[k] = true
					edTbl = append(edTbl, fmt.Sprintf("(%s, %s, %s)", in.b(cold), in.b(encCert(j)), in.b(csig)))
				}
			}
			ms := fmt.Sprintf("(mkMsg %s %s (mkPayload %s %s %s) %s (mkOpcert %s %s %s %s) %s)",
				in.b(vh.UnHex(j.ID)), in.b(vh.UnHex(j.LegacyID)), in.ob(unhexp(j.Body)), vh.N(j.KesP), vh.N(uint64(j.Expires)),
				in.b(vh.UnHex(j.KesSig)), in.ob(unhexp(j.KesVkey)), vh.N(j.Issue), vh.N(j.OcKesP), in.b(csig), in.b(cold))
			ops = append(ops, fmt.Sprintf("Verify (Some %s) %s", ms, optN(o.Slot)))
		}
	}
	var kes []string
	for _, c := range rr.calls {
		kes = append(kes, fmt.Sprintf("mkKes %s %s %s %s %s %s %s %s", vh.N(c.vid), in.b(c.wrapped), in.b(c.sig), in.b(c.vkey), vh.N(c.period), vh.N(c.slot), vh.N(c.sp), vh.Bool(c.result)))
	}
	var outs []string
	for _, o := range rr.obs {
		outs = append(outs, fmt.Sprintf("(%s, %s, %s)", vh.Bool(o.ok), vh.Bool(o.idSet), vh.Bool(o.called)))
	}
	var fin []string
	for _, f := range rr.final {
		fin = append(fin, fmt.Sprintf("(%s, %s, %s)", in.b([]byte(f.pool)), vh.Bool(f.reg), optN(f.cache)))
	}
	body := fmt.Sprintf("mkCase %s %s %s %s %s %s %s", vh.Bool(h.Disabled), vh.List(hashTbl), vh.List(edTbl), vh.List(kes), vh.List(ops), vh.List(outs), vh.List(fin))
	return "(" + strings.Join(in.defs, "\n ") + "\n " + body + ")"
}

// ---------------------------------------------------------------------------
// generators

type poolKey struct {
	priv ed25519.PrivateKey
	pub  []byte
	id   string
	vkey []byte
	ctr  uint64
	ocp  uint64 // base of the op-cert KES period: the certificate for issue n is (vkey, n, ocp + n%7), always the same
}

func newPool(r *vh.Rng) *poolKey {
	priv := ed25519.NewKeyFromSeed(r.Bytes(32))
	pub := []byte(priv.Public().(ed25519.PublicKey))
	return &poolKey{priv: priv, pub: pub, id: poolOf(pub), vkey: r.Bytes(32), ctr: uint64(r.Intn(5)), ocp: uint64(r.Intn(500))}
}

func kesSig(wrapped, vkey []byte, period uint64, pad byte) []byte {
	s := make([]byte, 448)
	copy(s, kesTag(wrapped, vkey, period))
	for i := 32; i < 448; i++ {
		s[i] = pad
	}
	return s
}

// validMsg builds a message that satisfies every clause for pool p with the given counter
func validMsg(r *vh.Rng, p *poolKey, issue uint64) *jmsg {
	j := &jmsg{Issue: issue, OcKesP: p.ocp + issue%7, Expires: uint32(r.U64())}
	switch r.Intn(8) {
	case 0:
		j.Body = nil
	case 1:
		j.Body = hexp([]byte{})
	case 2:
		j.Body = hexp(r.Bytes(24 + r.Intn(3))) // around the 1-byte length header
	default:
		j.Body = hexp(r.Bytes(1 + r.Intn(20)))
	}
	switch r.Intn(6) {
	case 0:
		j.KesP = r.Boundary()
	case 1:
		j.KesP = (1<<64-1)/spkp + uint64(r.Intn(3)) // slot computation wraps around here
	default:
		j.KesP = uint64(r.Intn(1000))
	}
	j.KesVkey = hexp(p.vkey)
	j.Cold = hex.EncodeToString(p.pub)
	resign(p, j)
	return j
}

// resign recomputes id, cold signature and KES signature from the current fields
func resign(p *poolKey, j *jmsg) {
	pe := encPayload(j)
	j.ID = hex.EncodeToString(h256(pe))
	j.LegacyID = ""
	j.ColdSig = hex.EncodeToString(ed25519.Sign(p.priv, encCert(j)))
	j.KesSig = hex.EncodeToString(kesSig(wrapBstr(pe), unhexp(j.KesVkey), j.KesP, 0x5a))
}

func flipBit(s string, r *vh.Rng) string {
	b := vh.UnHex(s)
	if len(b) == 0 {
		return "01"
	}
	i := r.Intn(len(b))
	b[i] ^= 1 << uint(r.Intn(8))
	return hex.EncodeToString(b)
}

var corruptions = []string{
	"id-bit", "id-both-forged", "id-both-bit", "id-both-forged", "id-legacy-only", "id-both-garbage-legacy", "id-empty", "id-short", "id-long",
	"body-changed", "expires-changed", "payload-period-changed", "payload-changed-reid",
	"coldsig-bit", "coldsig-short", "cold-other-pool", "cold-short", "cold-long", "issue-changed", "oc-period-changed",
	"vkey-changed", "vkey-short-signed", "vkey-nil-signed", "vkey-long-signed",
	"kessig-bit", "kessig-short", "kessig-long", "kessig-marked", "kessig-tail",
}

func corrupt(r *vh.Rng, kind string, p, other *poolKey, j *jmsg) {
	j.Note = kind
	switch kind {
	case "id-bit":
		j.ID = flipBit(j.ID, r)
	case "id-both-forged": // the same wrong 32-byte id in the field and in the legacy alias
		f := hex.EncodeToString(r.Bytes(32))
		j.ID, j.LegacyID = f, f
	case "id-both-bit":
		f := flipBit(j.ID, r)
		j.ID, j.LegacyID = f, f
	case "id-legacy-only": // still valid: the alias is accepted
		j.LegacyID, j.ID = j.ID, ""
	case "id-both-garbage-legacy": // still valid: the top-level id wins
		j.LegacyID = hex.EncodeToString(r.Bytes(32))
	case "id-empty":
		j.ID, j.LegacyID = "", ""
	case "id-short":
		j.ID = j.ID[:62]
	case "id-long":
		j.ID += "00"
	case "body-changed":
		b := unhexp(j.Body)
		b = append(b, byte(r.Intn(256)))
		j.Body = hexp(b)
	case "expires-changed":
		j.Expires++
	case "payload-period-changed":
		j.KesP++
	case "payload-changed-reid": // id recomputed, KES signature stale
		j.Expires ^= 0x10
		j.ID = hex.EncodeToString(h256(encPayload(j)))
	case "coldsig-bit":
		j.ColdSig = flipBit(j.ColdSig, r)
	case "coldsig-short":
		j.ColdSig = j.ColdSig[:126]
	case "cold-other-pool":
		j.Cold = hex.EncodeToString(other.pub)
	case "cold-short":
		j.Cold = j.Cold[:62]
	case "cold-long":
		j.Cold += "00"
	case "issue-changed":
		if r.Bool() {
			j.Issue++
		} else {
			j.Issue += 1 << 40
		}
	case "oc-period-changed":
		j.OcKesP++
	case "vkey-changed":
		j.KesVkey = hexp(r.Bytes(32))
	case "vkey-short-signed":
		j.KesVkey = hexp(r.Bytes(31))
		resign(p, j)
	case "vkey-long-signed":
		j.KesVkey = hexp(r.Bytes(33))
		resign(p, j)
	case "vkey-nil-signed":
		j.KesVkey = nil
		resign(p, j)
	case "kessig-bit":
		b := vh.UnHex(j.KesSig)
		b[r.Intn(32)] ^= 1 << uint(r.Intn(8))
		j.KesSig = hex.EncodeToString(b)
	case "kessig-short":
		j.KesSig = j.KesSig[:894]
	case "kessig-long":
		j.KesSig += "5a"
	case "kessig-marked": // verifier class 2 reports an error for these
		b := vh.UnHex(j.KesSig)
		for i := 32; i < len(b); i++ {
			b[i] = 0xEE
		}
		j.KesSig = hex.EncodeToString(b)
	case "kessig-tail": // bytes the fake scheme ignores: still valid
		b := vh.UnHex(j.KesSig)
		for i := 32; i < len(b); i++ {
			b[i] = 0x11
		}
		j.KesSig = hex.EncodeToString(b)
	}
}

func pickVia(r *vh.Rng) string {
	switch x := r.Intn(20); {
	case x < 7:
		return ""
	case x < 13:
		return "wire"
	case x < 15:
		return "submit"
	case x < 17:
		return "legacy-wire"
	default:
		return "setid"
	}
}

// forgeries that re-use the fields of a genuine message g of pool p (presented right after g on the same
// authenticator): each changes one thing and keeps the rest, in particular the genuine cold signature.  All
// must be rejected - the cold signature binds kes vkey, issue number and kes period, the KES signature binds
// the payload, the id binds the payload.
var forgeries = []string{"forge-kes-vkey", "forge-kes-vkey-same-payload", "forge-oc-period", "forge-issue", "forge-issue-down",
	"forge-coldsig", "forge-pool", "forge-payload-stale-kes", "forge-payload-stale-id"}

func forge(r *vh.Rng, kind string, g *jmsg, other *poolKey) *jmsg {
	f := *g
	f.Note = kind
	f.LegacyID = ""
	newPayload := func() {
		f.Body = hexp(r.Bytes(1 + r.Intn(12)))
		f.Expires = uint32(r.U64())
	}
	rekes := func() { // id and KES signature redone for the current payload / KES key; the op-cert is left alone
		pe := encPayload(&f)
		f.ID = hex.EncodeToString(h256(pe))
		f.KesSig = hex.EncodeToString(kesSig(wrapBstr(pe), unhexp(f.KesVkey), f.KesP, 0x5a))
	}
	switch kind {
	case "forge-kes-vkey": // the attacker's own KES key signs a new payload; genuine cold signature replayed
		f.KesVkey = hexp(r.Bytes(32))
		newPayload()
		rekes()
	case "forge-kes-vkey-same-payload":
		f.KesVkey = hexp(r.Bytes(32))
		rekes()
	case "forge-oc-period":
		f.OcKesP += uint64(1 + r.Intn(3))
		newPayload()
		rekes()
	case "forge-issue": // a higher counter with the old signature (would also poison the cache)
		f.Issue += uint64(1 + r.Intn(3))
		newPayload()
		rekes()
	case "forge-issue-down":
		if f.Issue > 0 {
			f.Issue--
		} else {
			f.Issue = 1
		}
		rekes()
	case "forge-coldsig":
		f.ColdSig = flipBit(f.ColdSig, r)
		newPayload()
		rekes()
	case "forge-pool": // the genuine certificate presented under another registered pool's cold key
		f.Cold = hex.EncodeToString(other.pub)
		newPayload()
		rekes()
	case "forge-payload-stale-kes": // new payload, id recomputed, KES signature of the genuine message
		newPayload()
		f.ID = hex.EncodeToString(h256(encPayload(&f)))
	case "forge-payload-stale-id": // new payload KES-signed by the genuine key holder's key?  no: id left stale
		id := f.ID
		newPayload()
		rekes()
		f.ID = id
	}
	return &f
}

func genHist(r *vh.Rng, idx int) *hist {
	h := &hist{Disabled: idx%23 == 22}
	np := 2 + r.Intn(3)
	pools := make([]*poolKey, np)
	for i := range pools {
		pools[i] = newPool(r)
	}
	add := func(o jop) { h.Ops = append(h.Ops, o) }
	// configuration prefix
	mode := idx % 6 // 0..2 verifier first, 3 insecure, 4 nothing, 5 late configuration
	for i, p := range pools {
		if i == 0 || r.Chance(3, 4) {
			add(jop{Kind: "register", Pool: p.id})
		}
	}
	switch mode {
	case 0, 1, 2:
		add(jop{Kind: "verifier", V: uint64(r.Intn(3))})
	case 3:
		add(jop{Kind: "insecure", B: true})
	}
	n := 6 + r.Intn(15)
	for k := 0; k < n; k++ {
		p := pools[r.Intn(np)]
		other := pools[(r.Intn(np-1)+1+indexOf(pools, p))%np]
		switch x := r.Intn(100); {
		case x < 44: // valid message, counter pattern
			switch r.Intn(8) {
			case 0:
				if p.ctr > 0 {
					p.ctr -= uint64(1 + r.Intn(int(min64(p.ctr, 3))))
				}
			case 1, 2: // equal
			case 3:
				p.ctr += 1 << uint(r.Intn(63))
			case 4:
				p.ctr = r.Boundary()
			default:
				p.ctr += uint64(1 + r.Intn(3))
			}
			j := validMsg(r, p, p.ctr)
			j.Note = "valid"
			o := jop{Kind: "verify", Msg: j, Via: pickVia(r)}
			if r.Chance(1, 4) {
				s := j.KesP * spkp
				if r.Chance(1, 3) {
					s += spkp * uint64(1+r.Intn(3)) // outside the claimed period: verifier class 1 refuses
					j.Note = "valid-but-slot-outside-period"
				} else {
					s += uint64(r.Intn(spkp))
				}
				o.Slot = &s
			}
			add(o)
			if r.Chance(1, 2) {
				nf := 1 + r.Intn(3)
				for q := 0; q < nf; q++ {
					fo := jop{Kind: "verify", Msg: forge(r, vh.PickOne(r, forgeries), j, other), Via: pickVia(r), Slot: o.Slot}
					add(fo)
				}
				if r.Chance(1, 3) { // the genuine certificate again, with a new payload: must still be accepted
					j2 := validMsg(r, p, p.ctr)
					j2.Note = "valid"
					add(jop{Kind: "verify", Msg: j2, Via: pickVia(r)})
				}
			}
		case x < 78: // single-field corruption
			j := validMsg(r, p, p.ctr+uint64(r.Intn(2)))
			corrupt(r, vh.PickOne(r, corruptions), p, other, j)
			o := jop{Kind: "verify", Msg: j, Via: pickVia(r)}
			if r.Chance(1, 6) {
				s := j.KesP*spkp + 1
				o.Slot = &s
			}
			add(o)
		case x < 80:
			o := jop{Kind: "verify", Nil: true}
			if r.Bool() {
				s := uint64(r.Intn(1000))
				o.Slot = &s
			}
			add(o)
		case x < 85:
			add(jop{Kind: "unregister", Pool: p.id})
		case x < 90:
			id := p.id
			switch r.Intn(5) {
			case 0:
				id = strings.ToUpper(id) // a different string: does not register the pool
			case 1:
				id = id[:len(id)-1]
			}
			add(jop{Kind: "register", Pool: id})
		case x < 93:
			add(jop{Kind: "remove", Pool: p.id})
		case x < 96:
			add(jop{Kind: "insecure", B: r.Bool()})
		default:
			if mode != 4 {
				add(jop{Kind: "verifier", V: uint64(r.Intn(8))})
			} else {
				add(jop{Kind: "insecure", B: r.Chance(1, 3)})
			}
		}
	}
	return h
}

func indexOf(ps []*poolKey, p *poolKey) int {
	for i, q := range ps {
		if q == p {
			return i
		}
	}
	return 0
}
func min64(a, b uint64) uint64 {
	if a < b {
		return a
	}
	return b
}

// hand-picked histories (regression corpus)
func corpus(r *vh.Rng) []*hist {
	var out []*hist
	p, q := newPool(r), newPool(r)
	v := func(j *jmsg) jop { return jop{Kind: "verify", Msg: j} }
	mk := func(pk *poolKey, c uint64, note string) *jmsg { j := validMsg(r, pk, c); j.Note = note; return j }
	// counters: up, equal, down, after removal, after unregister/re-register
	out = append(out, &hist{Ops: []jop{
		{Kind: "register", Pool: p.id}, {Kind: "verifier", V: 0},
		v(mk(p, 5, "valid")), v(mk(p, 5, "valid")), v(mk(p, 4, "valid")), v(mk(p, 6, "valid")), v(mk(p, 0, "valid")),
		{Kind: "unregister", Pool: p.id}, v(mk(p, 9, "valid")), {Kind: "register", Pool: p.id}, v(mk(p, 5, "valid")), v(mk(p, 6, "valid")),
		{Kind: "remove", Pool: p.id}, v(mk(p, 1, "valid")), v(mk(q, 1, "valid")),
	}})
	// no verifier: rejected until insecure mode, then accepted, then switched off again
	out = append(out, &hist{Ops: []jop{
		{Kind: "register", Pool: p.id}, v(mk(p, 1, "valid")), {Kind: "insecure", B: true}, v(mk(p, 1, "valid")),
		{Kind: "insecure", B: false}, v(mk(p, 2, "valid")), {Kind: "verifier", V: 3}, v(mk(p, 2, "valid")),
		{Kind: "insecure", B: true}, v(mk(p, 2, "valid")), {Kind: "verifier", V: 0}, v(mk(p, 2, "valid")),
	}})
	// a rejected message with a huge counter must not move the cache
	bad := mk(p, 1<<60, "valid")
	corrupt(r, "kessig-bit", p, q, bad)
	unreg := mk(q, 1<<61, "valid")
	out = append(out, &hist{Ops: []jop{
		{Kind: "register", Pool: p.id}, {Kind: "verifier", V: 0}, v(mk(p, 3, "valid")), v(bad), v(unreg), v(mk(p, 3, "valid")), v(mk(p, 4, "valid")),
		{Kind: "register", Pool: q.id}, v(mk(q, 0, "valid")),
	}})
	// every corruption once against a fully configured authenticator
	h := &hist{Ops: []jop{{Kind: "register", Pool: p.id}, {Kind: "register", Pool: q.id}, {Kind: "verifier", V: 2}}}
	for _, c := range corruptions {
		j := validMsg(r, p, 7)
		corrupt(r, c, p, q, j)
		h.Ops = append(h.Ops, v(j))
	}
	out = append(out, h)
	// forgeries after acceptance: two pools interleaved, every forgery after a genuine message, again after the
	// genuine certificate was re-presented, after unregister / re-register, and after a cache removal
	hf := &hist{Ops: []jop{{Kind: "register", Pool: p.id}, {Kind: "register", Pool: q.id}, {Kind: "verifier", V: 0}}}
	round := func(pk, ot *poolKey, c uint64, vias []string) {
		g := mk(pk, c, "valid")
		hf.Ops = append(hf.Ops, v(g))
		for k, f := range forgeries {
			hf.Ops = append(hf.Ops, jop{Kind: "verify", Msg: forge(r, f, g, ot), Via: vias[k%len(vias)]})
			if k%4 == 3 {
				hf.Ops = append(hf.Ops, v(mk(pk, c, "valid")))
			}
		}
	}
	round(p, q, 7, []string{""})
	round(q, p, 2, []string{"wire", "", "submit"})
	hf.Ops = append(hf.Ops, jop{Kind: "unregister", Pool: p.id}, jop{Kind: "register", Pool: p.id})
	round(p, q, 7, []string{"", "setid"})
	hf.Ops = append(hf.Ops, jop{Kind: "remove", Pool: q.id})
	round(q, p, 2, []string{""})
	out = append(out, hf)
	// the id check through every way a message object comes into being: a forged id must be rejected whether
	// it sits in one field, in both, arrives over the wire (the decoder fills both fields) or via SetMessageID
	hv := &hist{Ops: []jop{{Kind: "register", Pool: p.id}, {Kind: "verifier", V: 0}}}
	for _, via := range []string{"", "wire", "submit", "legacy-wire", "setid"} {
		for _, c := range []string{"id-bit", "id-both-forged", "id-both-bit", "id-empty", "id-legacy-only", "body-changed", "valid"} {
			j := validMsg(r, p, 9)
			j.Note = "valid"
			if c != "valid" {
				corrupt(r, c, p, q, j)
			}
			hv.Ops = append(hv.Ops, jop{Kind: "verify", Msg: j, Via: via})
		}
	}
	out = append(out, hv)
	// the no-op authenticator
	out = append(out, &hist{Disabled: true, Ops: []jop{v(bad), {Kind: "verify", Nil: true}, v(mk(p, 1, "valid"))}})
	return out
}

// ---------------------------------------------------------------------------

func doHist(c *vh.Ctx, cf *vh.CaseFile, h *hist, class string) {
	c.Begin(h)
	var rr *runResult
	var err error
	panicked, pv := vh.Recover(func() { rr, err = runHist(h) })
	if panicked {
		c.Res.Violate("monitor", "authenticator-panic", fmt.Sprintf("the authenticator panicked: %v", pv), h)
		return
	}
	if err != nil {
		c.Res.Violate("correspondence", "cannot-observe", err.Error(), h)
		return
	}
	b, _ := json.Marshal(h)
	c.Res.Count(string(b), rr.acc > 0 && rr.rej > 0, class)
	for _, o := range h.Ops {
		if o.Kind == "verify" && o.Msg != nil {
			c.Res.Distribution["msg:"+o.Msg.Note]++
			c.Res.Distribution["via:"+o.Via]++
		}
	}
	c.Res.Distribution["verify-accepted"] += rr.acc
	c.Res.Distribution["verify-rejected"] += rr.rej
	if rr.acc > 0 && rr.rej > 0 {
		c.Res.Sample(map[string]any{"ops": len(h.Ops), "accepted": rr.acc, "rejected": rr.rej, "kes_verifier_calls": len(rr.calls), "final_pools": len(rr.final)})
	}
	for _, v := range rr.viol {
		c.Res.Violate(v.Kind, v.Key, v.What, h)
	}
	cf.Add(coqCase(h, rr), h)
	c.Res.TracesValidated++
}

func run(c *vh.Ctx) error {
	c.Res.Rule = "histories of 7-25 API operations on a fresh authenticator: 2-4 pools with real Ed25519 cold keys; message objects built as struct literals, via MarshalCBOR + the real decoder, via the legacy wire shape, via a MsgSubmitMessage through NewMsgFromCbor, or via SetMessageID; fully valid messages with per-pool counter patterns (up, equal, down, jumps, boundaries) mixed with after half of the genuine messages 1-3 forgeries on the same authenticator that re-use the genuine message's fields with one replaced (other KES key that validly KES-signs, other op-cert period / issue number / cold signature, other pool's cold key, other payload); single-field corruptions and ids forged consistently in both id fields (28 kinds: id, payload, cold key/signature, opcert fields, KES key/signature, lengths, nil fields), nil messages, explicit slots, register/unregister (also of look-alike ids), cache removal, insecure-mode toggles and verifier replacement (4 verifier behaviours); distinct by the JSON of the history; non-trivial = at least one accepted and one rejected message"
	c.Res.Modelled = []string{
		"Blake2b-256, Ed25519 and the KES verifier are universally quantified Section variables in the theorems; in the correspondence the model receives their results as oracle tables computed by the harness (x/crypto blake2b, crypto/ed25519, the injected verifier's recorded calls) and must supply the same arguments itself",
		"kesOpCertCache is read through reflection at the end of each history",
	}
	cf := c.NewCaseFile("c46", header)
	cf.SetShardSize(c.Pick(10, 25))
	if c.Replay != "" {
		b, err := os.ReadFile(c.Replay)
		if err != nil {
			return err
		}
		var rp struct {
			Replay hist `json:"replay"`
		}
		if err := json.Unmarshal(b, &rp); err != nil {
			return err
		}
		doHist(c, cf, &rp.Replay, "replay")
		cf.Flush()
		return nil
	}
	for _, h := range corpus(c.Rng.Fork()) {
		doHist(c, cf, h, "corpus")
	}
	n := c.Pick(72, 1000)
	for i := 0; i < n; i++ {
		h := genHist(c.Rng.Fork(), i)
		class := []string{"verifier", "verifier", "verifier", "insecure", "unconfigured", "late-config"}[i%6]
		if h.Disabled {
			class = "disabled"
		}
		doHist(c, cf, h, class)
	}
	cf.Flush()
	return nil
}

func main() { vh.Main(vh.Runner{Property: "C46", Run: run}) }
