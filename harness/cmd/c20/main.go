// C20 - the supported-version tables are internally consistent.
//
// gen : coq/C20/Gen.v from the live tables (exported API only, see vtab)
// run : (1) monitor = the property statement evaluated directly on the
//
//	    implementation (lists, round trip through cbor.Encode and the
//	    version's own decoder, era prefixes)
//	(2) correspondence of the five NewVersionData*FromCbor decoders with
//	    C20.Model.decode on generated, re-encoded, damaged and random inputs
package main

import (
	"encoding/json"
	"fmt"
	"os"
	"slices"
	"strings"

	"github.com/blinklabs-io/gouroboros/cbor"
	"github.com/blinklabs-io/gouroboros/protocol"

	"verifharness/cmd/c20/vtab"
	"verifharness/vh"
)

const header = `From Coq Require Import String.
From V Require Import Lib.Base Lib.Hex C20.Model.
Open Scope string_scope.`

func gen(out string) error {
	s, err := vtab.GenCoq(true)
	if err != nil {
		return err
	}
	if out == "" {
		fmt.Print(s)
		return nil
	}
	return vh.WriteIfChanged(out, s)
}

type rcase struct {
	Shape string `json:"decoder"`
	Input string `json:"input_hex"`
	Got   string `json:"decoded"`
}

func hasTopTag(it *vh.Item) bool {
	if it.K == vh.KTag {
		return true
	}
	if it.K == vh.KArr {
		for _, x := range it.Xs {
			if x.K == vh.KTag {
				return true
			}
		}
	}
	return false
}

func decodeCase(c *vh.Ctx, cf *vh.CaseFile, shape string, in []byte, class string) {
	rc := rcase{Shape: shape, Input: vh.Hex(in)}
	c.Begin(rc)
	var v protocol.VersionData
	var err error
	panicked, pv := vh.Recover(func() { v, err = vtab.Decoders[shape](in) })
	if panicked {
		c.Res.Violate("monitor", "decoder-panic-"+shape, fmt.Sprintf("%s decoder panicked on %x: %v", shape, in, pv), rc)
		return
	}
	obs := "None"
	if err == nil {
		t := vtab.CoqVd(v)
		if t == "" || vtab.ShapeOfValue(v) != shape {
			c.Res.Violate("monitor", "decoder-type-"+shape, fmt.Sprintf("%s decoder returned a value of type %T", shape, v), rc)
			return
		}
		obs = "(Some " + t + ")"
		rc.Got = t
	}
	c.Res.Count(shape+":"+rc.Input, err == nil || len(in) > 1, class)
	cf.Add(fmt.Sprintf("(%s, %s, %s)", shape, vh.Bytes(in), obs), rc)
}

type view struct {
	Magic     uint32
	Dm, Ps, Q bool
}

func viewOf(v protocol.VersionData) view {
	return view{v.NetworkMagic(), v.DiffusionMode(), v.PeerSharing(), v.Query()}
}

// monitor: the property statement on the implementation
func monitor(c *vh.Ctx) {
	res := c.Res
	known, _, err := vtab.Known()
	if err != nil {
		res.Violate("monitor", "tables-unreadable", err.Error(), nil)
		return
	}
	isKnown := map[uint16]vtab.Entry{}
	for _, e := range known {
		isKnown[e.Version] = e
	}
	inList := map[uint16]int{}
	for _, t := range vtab.Tables {
		l := t.List()
		for i, v := range l {
			inList[v]++
			ok := true
			switch t.Name {
			case "ntc":
				ok = v&0x8000 != 0
			case "ntn":
				ok = v&0x8000 == 0
			case "dmq_ntc":
				ok = v&0x1000 != 0 && v&0xe000 == 0
			case "dmq_ntn":
				ok = v&0xf000 == 0
			}
			if !ok {
				res.Violate("monitor", t.Name+"-list-foreign-version", fmt.Sprintf("the %s version list contains %d (0x%x), which is not a %s version number", t.Name, v, v, t.Name), map[string]any{"list": l})
			}
			if i > 0 && l[i-1] >= v {
				res.Violate("monitor", t.Name+"-list-not-ascending", fmt.Sprintf("the %s version list is not strictly ascending at index %d: %v", t.Name, i, l), map[string]any{"list": l})
			}
			if e, k := isKnown[v]; !k || e.Shape == vtab.SUnknown {
				res.Violate("monitor", t.Name+"-list-version-without-decoder", fmt.Sprintf("version %d of the %s list has no version-data decoder", v, t.Name), map[string]any{"version": v})
			}
		}
		// eras: prefix, and never shrinking along the list
		var prev []bool
		for _, v := range l {
			e := isKnown[v]
			seenFalse := false
			for i, b := range e.Eras {
				if b && seenFalse {
					res.Violate("monitor", "eras-not-a-prefix", fmt.Sprintf("version %d enables %s but not an earlier era", v, vtab.EraFields[i]), map[string]any{"version": v, "eras": e.Eras})
				}
				if !b {
					seenFalse = true
				}
				if prev != nil && prev[i] && !b {
					res.Violate("monitor", "eras-shrink-"+t.Name, fmt.Sprintf("version %d of the %s table drops %s which the previous version enables", v, t.Name, vtab.EraFields[i]), map[string]any{"version": v, "eras": e.Eras})
				}
			}
			prev = e.Eras
			res.Count(fmt.Sprintf("eras:%d", v), true, "monitor-eras")
		}
	}
	for _, e := range known {
		if inList[e.Version] != 1 {
			res.Violate("monitor", "version-not-in-exactly-one-list", fmt.Sprintf("version %d is known to GetProtocolVersion but appears in %d of the four version lists", e.Version, inList[e.Version]), map[string]any{"version": e.Version})
		}
	}
	// version data round trip, every table, every version, all flag combinations
	// includes pairs that agree in their low 8 / 16 / 24 bits (764824073 / 2912307721 = Cardano
	// mainnet / Mithril DMQ mainnet), asked for one after the other in this process
	magics := []uint32{0, 1, 23, 24, 255, 256, 65535, 65536, 764824073, 2912307721, 2, 42, 1 << 31, 4294967295, 1 + 1<<8, 1 + 1<<16, 1 + 1<<24, 2 + 1<<31}
	for i := 0; i < c.Pick(20, 400); i++ {
		magics = append(magics, uint32(c.Rng.U64()))
	}
	for _, t := range vtab.Tables {
		for _, magic := range magics {
			for fl := 0; fl < 8; fl++ {
				dm, ps, q := fl&1 != 0, fl&2 != 0, fl&4 != 0
				m := t.Gen(magic, dm, ps, q)
				l := t.List()
				if _, stale := m[999]; stale {
					res.Violate("monitor", "version-map-changed-by-caller-mutation", fmt.Sprintf("the %s map generated for magic %d (flags %d) is a map an earlier caller was handed and has modified since", t.Name, magic, fl), map[string]any{"history": "monitor"})
					continue
				}
				if len(m) != len(l) {
					res.Violate("monitor", t.Name+"-map-keys-differ-from-list", fmt.Sprintf("generated %s map has %d versions, the list %d", t.Name, len(m), len(l)), nil)
				}
				for _, v := range l {
					vd, ok := m[v]
					rp := map[string]any{"table": t.Name, "version": v, "magic": magic, "diffusion": dm, "peer_sharing": ps, "query": q}
					if !ok || vd == nil {
						res.Violate("monitor", t.Name+"-map-keys-differ-from-list", fmt.Sprintf("version %d of the %s list is not generated", v, t.Name), rp)
						continue
					}
					b, err := cbor.Encode(&vd)
					if err != nil {
						res.Violate("monitor", "vdata-encode-fails-"+t.Name, err.Error(), rp)
						continue
					}
					dec := protocol.GetProtocolVersion(v).NewVersionDataFromCborFunc
					if dec == nil {
						continue // reported above
					}
					back, err := dec(b)
					res.Count(fmt.Sprintf("rt:%s:%d:%d:%d", t.Name, v, magic, fl), true, "monitor-roundtrip-"+t.Name)
					if err != nil || back == nil {
						res.Violate("monitor", "vdata-own-decoder-rejects-"+t.Name, fmt.Sprintf("version %d: its own decoder rejects the generated data %x: %v", v, b, err), rp)
						continue
					}
					want, got := viewOf(vd), viewOf(back)
					if want.Magic != got.Magic || got.Magic != magic {
						res.Violate("monitor", "vdata-roundtrip-magic-"+t.Name, fmt.Sprintf("version %d: magic %d -> generated %d -> decoded %d", v, magic, want.Magic, got.Magic), rp)
					}
					if want.Dm != got.Dm {
						res.Violate("monitor", "vdata-roundtrip-diffusion-"+t.Name, fmt.Sprintf("version %d: diffusion mode %v decodes as %v", v, want.Dm, got.Dm), rp)
					}
					if want.Ps != got.Ps {
						res.Violate("monitor", "vdata-roundtrip-peersharing-"+t.Name, fmt.Sprintf("version %d: peer sharing %v decodes as %v", v, want.Ps, got.Ps), rp)
					}
					if want.Q != got.Q {
						res.Violate("monitor", "vdata-roundtrip-query-"+t.Name, fmt.Sprintf("version %d: query %v decodes as %v", v, want.Q, got.Q), rp)
					}
				}
				// the caller now modifies the map it was handed; later calls must not see it
				for k := range m {
					delete(m, k)
				}
				m[999] = protocol.VersionDataNtC9to14(magic ^ 0x55aa55aa)
			}
		}
	}
}

// ---------------------------------------------------------------------------
// histories over the version-table API.  The Coq model is a pure table, so
// "every call returns the table" is implicit there; on the implementation it
// is a fact about aliasing that only a call history can show: what a caller
// does to a returned slice / map must not change what later calls return.

// observe renders everything the version-table API returns.
func observe() (lists map[string][]uint16, all string) {
	lists = map[string][]uint16{}
	for _, t := range vtab.Tables {
		lists[t.Name] = slices.Clone(t.List())
	}
	s, err := vtab.GenCoq(true)
	if err != nil {
		s = "translator error: " + err.Error()
	}
	return lists, s
}

type mutation struct {
	Name string
	Do   func(l []uint16) []uint16 // returns what the caller ends up holding
}

var mutations = []mutation{
	{"append(list, 16)", func(l []uint16) []uint16 { return append(l, 16) }},
	{"append(list, 0xffff, 0, 0x8000)", func(l []uint16) []uint16 { return append(l, 0xffff, 0, 0x8000) }},
	{"write into list[:cap(list)] beyond len", func(l []uint16) []uint16 {
		f := l[:cap(l)]
		for i := len(l); i < len(f); i++ {
			f[i] = uint16(3 + i)
		}
		return f
	}},
	{"overwrite every element", func(l []uint16) []uint16 {
		for i := range l {
			l[i] = uint16(0xfff0 - i)
		}
		return l
	}},
	{"sort descending in place", func(l []uint16) []uint16 { slices.Reverse(l); return l }},
	{"zero the first element", func(l []uint16) []uint16 {
		if len(l) > 0 {
			l[0] = 0
		}
		return l
	}},
}

func firstDiff(a, b string) string {
	la, lb := strings.Split(a, "\n"), strings.Split(b, "\n")
	for i := 0; i < len(la) && i < len(lb); i++ {
		if la[i] != lb[i] {
			x, y := la[i], lb[i]
			if len(x) > 160 {
				x = x[:160]
			}
			if len(y) > 160 {
				y = y[:160]
			}
			return fmt.Sprintf("line %d: before %q, after %q", i+1, x, y)
		}
	}
	return fmt.Sprintf("%d lines before, %d after", len(la), len(lb))
}

func histories(c *vh.Ctx) {
	res := c.Res
	lists0, all0 := observe()
	var hist []string
	check := func() bool {
		lists, all := observe()
		ok := true
		for _, t := range vtab.Tables {
			if !slices.Equal(lists[t.Name], lists0[t.Name]) {
				ok = false
				res.Violate("monitor", "version-list-changed-by-caller-mutation",
					fmt.Sprintf("after the call history %v the %s version list is %v; the first call returned %v", hist, t.Name, lists[t.Name], lists0[t.Name]),
					map[string]any{"history": slices.Clone(hist), "list": t.Name})
			}
		}
		if ok && all != all0 {
			ok = false
			res.Violate("monitor", "version-tables-changed-by-caller-mutation",
				fmt.Sprintf("after the call history %v the version tables differ from the first observation: %s", hist, firstDiff(all0, all)),
				map[string]any{"history": slices.Clone(hist)})
		}
		return ok
	}
	n := 0
	for _, t := range vtab.Tables {
		for _, mu := range mutations {
			hist = append(hist, fmt.Sprintf("Get %s list; %s", t.Name, mu.Name))
			mu.Do(t.List())
			n++
			res.Count("history:"+t.Name+":"+mu.Name, true, "history-list-mutation")
			if !check() {
				return // one corrupted state is enough; everything after it is corrupted too
			}
		}
	}
	// generated maps: the caller deletes / overwrites / adds entries
	for _, t := range vtab.Tables {
		for _, magic := range []uint32{764824073, 2912307721, 1} {
			m := t.Gen(magic, true, false, false)
			for k := range m {
				if k%2 == 0 {
					delete(m, k)
				} else {
					m[k] = protocol.VersionDataNtC9to14(12345)
				}
			}
			m[999] = protocol.VersionDataNtC9to14(magic)
			hist = append(hist, fmt.Sprintf("Generate %s map for magic %d; delete/overwrite/add entries", t.Name, magic))
			res.Count(fmt.Sprintf("history:%s:map:%d", t.Name, magic), true, "history-map-mutation")
			for k, d := range t.Gen(magic, true, false, false) {
				if k == 999 || d == nil || d.NetworkMagic() != magic {
					res.Violate("monitor", "version-map-changed-by-caller-mutation",
						fmt.Sprintf("after the call history %v the %s map for magic %d has entry %d = %v", hist, t.Name, magic, k, d),
						map[string]any{"history": slices.Clone(hist)})
					return
				}
			}
			if !check() {
				return
			}
		}
	}
	res.Sample(map[string]any{"history_steps": len(hist), "last": hist[len(hist)-1]})
}

func fieldVariants(r *vh.Rng) []*vh.Item {
	return []*vh.Item{
		vh.Null(), {K: vh.KSimple, F: vh.Fimm, N: 23}, vh.BoolItem(true), vh.BoolItem(false),
		vh.U(0), vh.U(1), vh.U(2), vh.U(23), vh.U(24), vh.U(4294967295), vh.U(4294967296), vh.U(1<<64 - 1),
		{K: vh.KUInt, F: vh.F8, N: 7}, {K: vh.KUInt, F: vh.F2, N: 7}, vh.NI(0), vh.T("x"), vh.B([]byte{1}), vh.A(), vh.M(),
		{K: vh.KSimple, F: vh.Fimm, N: 19}, {K: vh.KSimple, F: vh.Fimm, N: 0}, {K: vh.KSimple, F: vh.F1, N: 245}, {K: vh.KSimple, F: vh.F1, N: 32}, {K: vh.KFloat, F: vh.F2, N: 0x3c00},
		vh.U(r.U64()), vh.U(uint64(uint32(r.U64()))),
	}
}

func run(c *vh.Ctx) error {
	c.Res.Rule = "call histories over the version-table API: every list getter x 6 caller mutations of the returned slice (append, write into spare capacity, overwrite, reverse), every generated map emptied/overwritten/extended by the caller, then every getter, GetProtocolVersion over all 65536 numbers and all generators observed again and compared with the first observation (the first observation of a fresh process is what the translator put into Gen.v); monitor: every version of the four tables x 13+N magics x 8 flag combinations through cbor.Encode and the version's own decoder; decoders: every decoder x {generated data of every shape, header re-encodings (non-minimal, indefinite), each field replaced by null/undefined/bool/uint boundary/other types, element counts 0..6, trailing bytes, truncations, random CBOR items}; distinct by decoder+input bytes; non-trivial = accepted, or longer than one byte"
	c.Res.Modelled = []string{"fxamacker/cbor decoding rules for uint32/uint/bool/toarray-struct destinations are a hand model (C20.Model.decode), validated by the decoder correspondence; CBOR tags in front of a field are not modelled and not generated"}
	cf := c.NewCaseFile("c20", header)
	cf.SetShardSize(300)
	if c.Replay != "" {
		b, err := os.ReadFile(c.Replay)
		if err != nil {
			return err
		}
		var rp struct {
			Replay rcase `json:"replay"`
		}
		if err := json.Unmarshal(b, &rp); err != nil {
			return err
		}
		if rp.Replay.Shape != "" {
			decodeCase(c, cf, rp.Replay.Shape, vh.UnHex(rp.Replay.Input), "replay")
			cf.Flush()
			return nil
		}
		// table-level findings have no per-case input: re-run the monitor and the call histories
		monitor(c)
		histories(c)
		return nil
	}
	monitor(c)
	histories(c)

	r := c.Rng
	seen := map[string]bool{}
	add := func(in []byte, class string) {
		if seen[string(in)] || len(in) > 200 {
			return
		}
		seen[string(in)] = true
		for _, s := range vtab.Shapes {
			decodeCase(c, cf, s, in, class)
		}
	}
	// hand-picked regression corpus
	for _, h := range []string{"01", "1903e7", "1b0000000100000000", "1affffffff", "f6", "f7", "f4", "8201f4", "8201f5", "82f6f6", "9f01f5ff", "9b000000000000000201f5",
		"8401f400f4", "8401f502f5", "8401f51bfffffffffffffffff5", "8401f520f5", "8501f501f500", "9f01f501f5ff", "8401f400f401", "01ff", "8201", "8201f815", "", "ff", "9f", "e0", "f3", "f820", "f8ff", "f81f", "f8", "82f3f5", "82f8fff4", "8401f4f3f4", "8401f4f8f5f5", "9f01", "9f01f4", "98", "1a0000"} {
		add(vh.UnHex(h), "corpus")
	}
	// generated data of every table
	var base []*vh.Item
	for _, t := range vtab.Tables {
		for _, magic := range []uint32{0, 23, 24, 255, 256, 65535, 65536, 764824073, 4294967295, uint32(r.U64())} {
			for fl := 0; fl < 8; fl++ {
				for _, vd := range t.Gen(magic, fl&1 != 0, fl&2 != 0, fl&4 != 0) {
					b, err := cbor.Encode(&vd)
					if err != nil {
						continue
					}
					if !seen[string(b)] {
						it, n, err := vh.ParseItem(b)
						if err == nil && n == len(b) {
							base = append(base, it)
						}
					}
					add(b, "generated")
				}
			}
		}
	}
	// re-encodings
	for k := 0; k < c.Pick(60, 1500); k++ {
		it := vh.Reform(r, vh.PickOne(r, base), vh.ReformOpts{Ints: true, Containers: true, Indef: true, Prob: 60})
		add(it.Enc(), "reformed")
	}
	// field substitutions and element counts
	for k := 0; k < c.Pick(120, 3000); k++ {
		it := vh.PickOne(r, base).Clone()
		if it.K == vh.KArr {
			switch r.Intn(4) {
			case 0, 1:
				it.Xs[r.Intn(len(it.Xs))] = vh.PickOne(r, fieldVariants(r))
			case 2:
				n := r.Intn(7)
				for len(it.Xs) < n {
					it.Xs = append(it.Xs, vh.PickOne(r, fieldVariants(r)))
				}
				it.Xs = it.Xs[:n]
				it.F = vh.MinForm(uint64(n))
			default:
				it.Xs[r.Intn(len(it.Xs))] = vh.PickOne(r, fieldVariants(r))
				it.Xs[r.Intn(len(it.Xs))] = vh.PickOne(r, fieldVariants(r))
			}
			if r.Chance(1, 3) {
				it = vh.Reform(r, it, vh.ReformOpts{Ints: true, Containers: true, Indef: true, Prob: 50})
			}
		} else {
			it = vh.PickOne(r, fieldVariants(r))
		}
		add(it.Enc(), "substituted")
	}
	// trailing bytes and truncations
	for k := 0; k < c.Pick(30, 600); k++ {
		b := vh.PickOne(r, base).Enc()
		if r.Bool() {
			add(append(append([]byte{}, b...), r.Bytes(1+r.Intn(3))...), "trailing")
		} else if len(b) > 1 {
			add(b[:1+r.Intn(len(b)-1)], "truncated")
		}
	}
	// random items
	for k := 0; k < c.Pick(40, 1000); k++ {
		it := vh.RandItem(r, 2)
		if hasTopTag(it) {
			continue
		}
		add(it.Enc(), "random")
	}
	cf.Flush()
	c.Res.Sample(map[string]any{"decoder": "SNtN13", "input": "9f01f501f5ff", "decoded": "VNtN13 1 true 1 true"})
	return nil
}

func main() { vh.Main(vh.Runner{Property: "C20", Gen: gen, Run: run}) }
