// Package vtab reads the supported-version tables of the repository through
// its exported API only (no hook needed) and prints them as Coq terms of
// coq/C20/Model.v.  Shared by the C18, C19 and C20 harnesses.
//
// Everything is recovered from behaviour visible to any importer:
//   - the union of the three internal tables = { v in 0..65535 |
//     GetProtocolVersion(v).NewVersionDataFromCborFunc != nil or any flag set }
//   - the decoder of a version is identified by the code pointer of its
//     NewVersionDataFromCborFunc (one of the five exported constructors)
//   - the four sorted lists and the four generator maps are called directly
package vtab

import (
	"fmt"
	"reflect"
	"sort"
	"strings"

	"github.com/blinklabs-io/gouroboros/cbor"
	"github.com/blinklabs-io/gouroboros/protocol"

	"verifharness/vh"
)

// Shape names = constructors of C20.Model.shape
const (
	SNtC9    = "SNtC9"
	SNtC15   = "SNtC15"
	SNtN7    = "SNtN7"
	SNtN11   = "SNtN11"
	SNtN13   = "SNtN13"
	SUnknown = "SUnknown"
)

var Shapes = []string{SNtC9, SNtC15, SNtN7, SNtN11, SNtN13}

var Decoders = map[string]protocol.NewVersionDataFromCborFunc{
	SNtC9:  protocol.NewVersionDataNtC9to14FromCbor,
	SNtC15: protocol.NewVersionDataNtC15andUpFromCbor,
	SNtN7:  protocol.NewVersionDataNtN7to10FromCbor,
	SNtN11: protocol.NewVersionDataNtN11to12FromCbor,
	SNtN13: protocol.NewVersionDataNtN13andUpFromCbor,
}

// EraFields is the era sequence of the property, oldest first.
var EraFields = []string{"EnableShelleyEra", "EnableAllegraEra", "EnableMaryEra", "EnableAlonzoEra", "EnableBabbageEra", "EnableConwayEra", "EnableDijkstraEra"}

func ShapeOfDecoder(f protocol.NewVersionDataFromCborFunc) string {
	if f == nil {
		return SUnknown
	}
	p := reflect.ValueOf(f).Pointer()
	for _, s := range Shapes {
		if reflect.ValueOf(Decoders[s]).Pointer() == p {
			return s
		}
	}
	return SUnknown
}

// ShapeOfValue names the Go type of a generated version-data value.
func ShapeOfValue(v protocol.VersionData) string {
	switch v.(type) {
	case protocol.VersionDataNtC9to14:
		return SNtC9
	case protocol.VersionDataNtC15andUp:
		return SNtC15
	case protocol.VersionDataNtN7to10:
		return SNtN7
	case protocol.VersionDataNtN11to12:
		return SNtN11
	case protocol.VersionDataNtN13andUp:
		return SNtN13
	}
	return SUnknown
}

// CoqVd prints a version-data value as a C20.Model.vd term ("" if the type is unknown).
func CoqVd(v protocol.VersionData) string {
	switch d := v.(type) {
	case protocol.VersionDataNtC9to14:
		return fmt.Sprintf("(VNtC9 %s)", vh.N(uint64(d)))
	case protocol.VersionDataNtC15andUp:
		return fmt.Sprintf("(VNtC15 %s %s)", vh.N(uint64(d.CborNetworkMagic)), vh.Bool(d.CborQuery))
	case protocol.VersionDataNtN7to10:
		return fmt.Sprintf("(VNtN7 %s %s)", vh.N(uint64(d.CborNetworkMagic)), vh.Bool(d.CborInitiatorAndResponderDiffusionMode))
	case protocol.VersionDataNtN11to12:
		return fmt.Sprintf("(VNtN11 %s %s %s %s)", vh.N(uint64(d.CborNetworkMagic)), vh.Bool(d.CborInitiatorAndResponderDiffusionMode), vh.N(uint64(d.CborPeerSharing)), vh.Bool(d.CborQuery))
	case protocol.VersionDataNtN13andUp:
		return fmt.Sprintf("(VNtN13 %s %s %s %s)", vh.N(uint64(d.CborNetworkMagic)), vh.Bool(d.CborInitiatorAndResponderDiffusionMode), vh.N(uint64(d.CborPeerSharing)), vh.Bool(d.CborQuery))
	}
	return ""
}

type Entry struct {
	Version   uint16
	Shape     string
	Eras      []bool
	FlagNames []string
	Flags     []bool
}

// Known enumerates every version number for which GetProtocolVersion returns
// a non-zero record.
func Known() ([]Entry, []string, error) {
	var out []Entry
	var names []string
	t := reflect.TypeOf(protocol.ProtocolVersion{})
	eraIdx := map[string]int{}
	for i, n := range EraFields {
		eraIdx[n] = i
	}
	seenEra := 0
	for i := 0; i < t.NumField(); i++ {
		f := t.Field(i)
		if f.Type.Kind() != reflect.Bool {
			continue
		}
		if _, ok := eraIdx[f.Name]; ok {
			seenEra++
			continue
		}
		if strings.HasPrefix(f.Name, "Enable") && strings.HasSuffix(f.Name, "Era") {
			return nil, nil, fmt.Errorf("era flag %s is not in the era sequence known to the translator", f.Name)
		}
		names = append(names, f.Name)
	}
	if seenEra != len(EraFields) {
		return nil, nil, fmt.Errorf("ProtocolVersion has %d of the %d era flags", seenEra, len(EraFields))
	}
	for v := 0; v <= 0xffff; v++ {
		pv := protocol.GetProtocolVersion(uint16(v))
		rv := reflect.ValueOf(pv)
		e := Entry{Version: uint16(v), Shape: ShapeOfDecoder(pv.NewVersionDataFromCborFunc), FlagNames: names}
		any := pv.NewVersionDataFromCborFunc != nil
		for _, n := range EraFields {
			b := rv.FieldByName(n).Bool()
			e.Eras = append(e.Eras, b)
			any = any || b
		}
		for _, n := range names {
			b := rv.FieldByName(n).Bool()
			e.Flags = append(e.Flags, b)
			any = any || b
		}
		if any {
			out = append(out, e)
		}
	}
	return out, names, nil
}

type Table struct {
	Coq  string // constructor of C20.Model.tbl
	Name string
	List func() []uint16
	Gen  func(magic uint32, dm, ps, q bool) protocol.ProtocolVersionMap
	Mode protocol.ProtocolMode
}

var Tables = []Table{
	{"TNtC", "ntc", protocol.GetProtocolVersionsNtC, func(m uint32, dm, ps, q bool) protocol.ProtocolVersionMap {
		return protocol.GetProtocolVersionMap(protocol.ProtocolModeNodeToClient, m, dm, ps, q)
	}, protocol.ProtocolModeNodeToClient},
	{"TNtN", "ntn", protocol.GetProtocolVersionsNtN, func(m uint32, dm, ps, q bool) protocol.ProtocolVersionMap {
		return protocol.GetProtocolVersionMap(protocol.ProtocolModeNodeToNode, m, dm, ps, q)
	}, protocol.ProtocolModeNodeToNode},
	{"TDmqNtC", "dmq_ntc", protocol.GetProtocolVersionsDMQNtC, func(m uint32, dm, ps, q bool) protocol.ProtocolVersionMap {
		return protocol.GetProtocolVersionMapDMQNtC(m, q)
	}, protocol.ProtocolModeNodeToClient},
	{"TDmqNtN", "dmq_ntn", protocol.GetProtocolVersionsDMQNtN, func(m uint32, dm, ps, q bool) protocol.ProtocolVersionMap {
		return protocol.GetProtocolVersionMapDMQNtN(m, dm, ps, q)
	}, protocol.ProtocolModeNodeToNode},
}

func SortedKeys(m protocol.ProtocolVersionMap) []uint16 {
	ks := make([]uint16, 0, len(m))
	for k := range m {
		ks = append(ks, k)
	}
	sort.Slice(ks, func(i, j int) bool { return ks[i] < ks[j] })
	return ks
}

func NList(xs []uint16) string {
	s := make([]string, len(xs))
	for i, x := range xs {
		s[i] = fmt.Sprintf("%d", x)
	}
	return "[" + strings.Join(s, "; ") + "]%N"
}

func BoolList(xs []bool) string {
	s := make([]string, len(xs))
	for i, x := range xs {
		s[i] = vh.Bool(x)
	}
	return "[" + strings.Join(s, "; ") + "]"
}

// KnownCoq prints `Definition known : list ventry`.
func KnownCoq(es []Entry) string {
	var sb strings.Builder
	sb.WriteString("Definition known : list ventry := [\n")
	for i, e := range es {
		if i > 0 {
			sb.WriteString(";\n")
		}
		fmt.Fprintf(&sb, "  mkV %d %s %s %s", e.Version, e.Shape, BoolList(e.Eras), BoolList(e.Flags))
	}
	sb.WriteString("].\n")
	return sb.String()
}

var SampleMagics = []uint32{0, 23, 24, 256, 764824073, 4294967295}

// GenCoq renders the whole coq/C20/Gen.v (also used, under another module
// name, by C18 and C19 which only need `known`).
func GenCoq(full bool) (string, error) {
	es, names, err := Known()
	if err != nil {
		return "", err
	}
	var sb strings.Builder
	sb.WriteString("(* GENERATED by the translator (harness/cmd/c20/vtab) from the current tree: do not edit. *)\n")
	sb.WriteString("From Coq Require Import String.\nFrom V Require Import Lib.Base Lib.Hex C20.Model.\nLocal Open Scope N_scope.\nLocal Open Scope string_scope.\n\n")
	sb.WriteString("Definition era_names : list string := [")
	for i, n := range EraFields {
		if i > 0 {
			sb.WriteString("; ")
		}
		sb.WriteString(vh.Str(n))
	}
	sb.WriteString("].\nDefinition flag_names : list string := [")
	for i, n := range names {
		if i > 0 {
			sb.WriteString("; ")
		}
		sb.WriteString(vh.Str(n))
	}
	sb.WriteString("].\n\n")
	sb.WriteString(KnownCoq(es))
	if !full {
		return sb.String(), nil
	}
	sb.WriteString("\n")
	for _, t := range Tables {
		fmt.Fprintf(&sb, "Definition list_%s : list N := %s.\n", t.Name, NList(t.List()))
	}
	for _, t := range Tables {
		// key set must not depend on the parameters: take two settings, the checker compares both
		fmt.Fprintf(&sb, "Definition genkeys_%s : list N := %s.\n", t.Name, NList(SortedKeys(t.Gen(1, false, false, false))))
		fmt.Fprintf(&sb, "Definition genkeys2_%s : list N := %s.\n", t.Name, NList(SortedKeys(t.Gen(4294967295, true, true, true))))
	}
	sb.WriteString("\n(* one definition per sample keeps parsing linear *)\n")
	n := 0
	for _, t := range Tables {
		for _, magic := range SampleMagics {
			for fl := 0; fl < 8; fl++ {
				dm, ps, q := fl&1 != 0, fl&2 != 0, fl&4 != 0
				m := t.Gen(magic, dm, ps, q)
				for _, v := range SortedKeys(m) {
					vd := m[v]
					// exactly what the handshake messages do: cbor.Encode(&versionData)
					b, err := cbor.Encode(&vd)
					if err != nil {
						return "", fmt.Errorf("cbor.Encode of generated version data %d: %v", v, err)
					}
					fmt.Fprintf(&sb, "Definition g%d := mkG %s %d %d %s %s %s %s %s.\n", n, t.Coq, v, magic, vh.Bool(dm), vh.Bool(ps), vh.Bool(q), ShapeOfValue(vd), vh.Bytes(b))
					n++
				}
			}
		}
	}
	sb.WriteString("Definition gen_samples : list gsample := [")
	for i := 0; i < n; i++ {
		if i > 0 {
			sb.WriteString("; ")
		}
		fmt.Fprintf(&sb, "g%d", i)
	}
	sb.WriteString("].\n")
	return sb.String(), nil
}
