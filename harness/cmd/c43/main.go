// C43 - draining the pipeline really waits for in-flight blocks.
package main

import "verifharness/cmd/c42/pipesim"

func main() {
	pipesim.Main("C43", map[string]int{"plain": 1, "stop": 1, "drain": 6}, 70, 900)
}
