// C21 - chain-sync delivers the server's chain updates faithfully.
//
// A raw peer (verifharness/cmd/c23/peer) plays a protocol-conforming chain-sync
// server (node-to-client flavour: whole real blocks) with seeded reply timing:
// it answers only requests it has read, sometimes after AwaitReply, sometimes
// in bursts.  The real client syncs with pipeline limits 0..10 and slow
// callbacks.  The ordered history (request read, await/reply sent, callback)
// is judged by the monitor and replayed through the Coq LTS (coq/C21/Model.v).
package main

import (
	"context"
	"encoding/binary"
	"encoding/json"
	"fmt"
	"net"
	"os"
	"path/filepath"
	"strings"
	"sync"
	"time"

	ouroboros "github.com/blinklabs-io/gouroboros"
	"github.com/blinklabs-io/gouroboros/cbor"
	"github.com/blinklabs-io/gouroboros/ledger"
	"github.com/blinklabs-io/gouroboros/pipeline"
	"github.com/blinklabs-io/gouroboros/protocol/chainsync"
	pcommon "github.com/blinklabs-io/gouroboros/protocol/common"

	"verifharness/cmd/c23/peer"
	"verifharness/vh"
)

type fixture struct {
	Name string
	Type uint
	Slot uint64
	Hash string
	Raw  []byte
}

var fixtures = []*fixture{
	{Name: "byron", Type: 1, Slot: 4471207, Hash: "1451a0dbf16cfeddf4991a838961df1b08a68f43a19c0eb3b36cc4029c77a2d8"},
	{Name: "shelley", Type: 2, Slot: 16156972, Hash: "2308cdd4c0bf8b8bf92523bdd1dd31640c0f42ff079d985fcc07c36cbf915c2b"},
	{Name: "allegra", Type: 3, Slot: 23068573, Hash: "8115134ab013f6a5fd88fd2a10825177a2eedcde31cb2f1f35e492df469cf9a8"},
	{Name: "mary", Type: 4, Slot: 39916670, Hash: "d36ab36f451e9fcbd4247daef45ce5be9a4b918fce5ee97a63b8aeac606fca03"},
	{Name: "alonzo", Type: 5, Slot: 72316767, Hash: "1d7974cb01cc9e3fbe9dd7594795a36b21cb1deb2f1b70a0625332c91bd7e5a7"},
	{Name: "babbage", Type: 6, Slot: 76204984, Hash: "db19fcfaba30607e363113b0a13616e6a9da5aa48b86ec2c033786f0a2e13f7d"},
	{Name: "conway", Type: 7, Slot: 159835207, Hash: "27807a70215e3e018eec9be8c619c692e06a78ebcb63daf90d7abe823f3bbf47"},
}

type tip struct {
	Slot  uint64 `json:"slot"`
	Hash  string `json:"hash"`
	Block uint64 `json:"block"`
}

var tips []tip

func loadFixtures(r *vh.Rng) error {
	repo := os.Getenv("VERIF_REPO")
	if repo == "" {
		repo = "/repo"
	}
	for _, f := range fixtures {
		b, err := os.ReadFile(filepath.Join(repo, "internal/testdata", f.Name+"_block.hex"))
		if err != nil {
			return err
		}
		f.Raw = vh.UnHex(string(b))
	}
	tr := vh.NewRng(77)
	for i := 0; i < 8; i++ {
		tips = append(tips, tip{uint64(1000 + tr.Intn(1<<30)), vh.Hex(tr.Bytes(32)), uint64(tr.Intn(1 << 24))})
	}
	return nil
}

func cborHead(major byte, n uint64) []byte {
	switch {
	case n < 24:
		return []byte{major<<5 | byte(n)}
	case n < 1<<8:
		return []byte{major<<5 | 24, byte(n)}
	case n < 1<<16:
		b := []byte{major<<5 | 25, 0, 0}
		binary.BigEndian.PutUint16(b[1:], uint16(n))
		return b
	case n < 1<<32:
		b := []byte{major<<5 | 26, 0, 0, 0, 0}
		binary.BigEndian.PutUint32(b[1:], uint32(n))
		return b
	}
	b := []byte{major<<5 | 27, 0, 0, 0, 0, 0, 0, 0, 0}
	binary.BigEndian.PutUint64(b[1:], n)
	return b
}
func cat(bs ...[]byte) []byte {
	var o []byte
	for _, b := range bs {
		o = append(o, b...)
	}
	return o
}
func encPoint(slot uint64, hash string) []byte {
	h := vh.UnHex(hash)
	return cat([]byte{0x82}, cborHead(0, slot), cborHead(2, uint64(len(h))), h)
}
func encTip(t tip) []byte { return cat([]byte{0x82}, encPoint(t.Slot, t.Hash), cborHead(0, t.Block)) }

// one chain update of the server script
type update struct {
	Kind  string `json:"kind"` // "F" roll forward (fixture Fix), "B" roll backward (to fixture Fix's point)
	Fix   int    `json:"fix"`
	Tip   int    `json:"tip"`
	Await bool   `json:"await"` // AwaitReply first
	Hold  bool   `json:"hold"`  // do not answer at once: wait for the next request or the flush tick
}

func (u update) enc() []byte {
	f := fixtures[u.Fix]
	if u.Kind == "F" {
		wrapped := cat([]byte{0x82}, cborHead(0, uint64(f.Type)), f.Raw)
		return cat([]byte{0x83, 0x02, 0xd8, 0x18}, cborHead(2, uint64(len(wrapped))), wrapped, encTip(tips[u.Tip]))
	}
	return cat([]byte{0x83, 0x03}, encPoint(f.Slot, f.Hash), encTip(tips[u.Tip]))
}
func (u update) key() string {
	f := fixtures[u.Fix]
	t := tips[u.Tip]
	return fmt.Sprintf("%s %d %s %d %s %d", u.Kind, f.Slot, f.Hash, t.Slot, t.Hash, t.Block)
}
func coqKey(k string) string {
	f := strings.Fields(k)
	fi, ti := -1, -1
	for i, x := range fixtures {
		if x.Hash == f[2] && fmt.Sprint(x.Slot) == f[1] {
			fi = i
		}
	}
	for i, x := range tips {
		if x.Hash == f[4] && fmt.Sprint(x.Slot) == f[3] && fmt.Sprint(x.Block) == f[5] {
			ti = i
		}
	}
	c := "RollForward"
	if f[0] == "B" {
		c = "RollBackward"
	}
	h, t := fmt.Sprintf("fh%d", fi), fmt.Sprintf("tp%d", ti)
	if fi < 0 {
		h = vh.Bytes(vh.UnHex(f[2]))
	}
	if ti < 0 {
		var s, b uint64
		fmt.Sscan(f[3], &s)
		fmt.Sscan(f[5], &b)
		t = fmt.Sprintf("{| tslot := %s; thash := %s; tblock := %s |}", vh.N(s), vh.Bytes(vh.UnHex(f[4])), vh.N(b))
	}
	return fmt.Sprintf("(%s %s%%N %s %s)", c, f[1], h, t)
}

func header() string {
	var sb strings.Builder
	sb.WriteString("From Coq Require Import String.\nFrom V Require Import Lib.Base Lib.Hex C21.Model C21.Stop.\nLocal Open Scope string_scope.\n")
	for i, f := range fixtures {
		fmt.Fprintf(&sb, "Definition fh%d : bytes := Eval vm_compute in %s.\n", i, vh.Bytes(vh.UnHex(f.Hash)))
	}
	for i, t := range tips {
		fmt.Fprintf(&sb, "Definition tp%d : tipT := Eval vm_compute in {| tslot := %s; thash := %s; tblock := %s |}.\n", i, vh.N(t.Slot), vh.Bytes(vh.UnHex(t.Hash)), vh.N(t.Block))
	}
	return sb.String()
}

type scenario struct {
	Limit   int      `json:"limit"`
	Script  []update `json:"script"`
	SlowCb  int      `json:"slowcb"`  // callbacks sleep up to this many 100us units
	StopAt  int      `json:"stop_at"` // call Stop() after this many callbacks (-1: after the script)
	Coalesc bool     `json:"coalesce"`
	// Pipe: the client is configured with a real pipeline.BlockPipeline (roll-forward blocks
	// are applied by its ApplyFunc); PipelineDrainTimeout is left at its zero default
	Pipe bool `json:"pipe"`
	// Gate > 0: the Gate-th callback blocks; Stop() is called while it is blocked.  Gate is
	// chosen as 1 + j*limit: at that callback every RequestNext has been answered, so the
	// client has agency and Done MUST go out (alone, at once) whatever the timing
	Gate int `json:"gate,omitempty"`
	// Prelude: GetAvailableBlockRange (FindIntersect, RequestNext -> RollBackward, RequestNext ->
	// RollForward = the first block) is called on the same client BEFORE Sync(); the history that
	// is judged and replayed starts at Sync() (the model starts where Sync() returns, with an
	// empty readyForNextBlock channel - a stale ready signal left by the prelude breaks that)
	Prelude bool `json:"prelude,omitempty"`
	// Lazy server: it answers ONE request, and only once no request has arrived and no reply was
	// sent for 50 ms, so unanswered requests pile up on the wire as far as the client lets them
	Lazy bool `json:"lazy,omitempty"`
}

// tapConn records the chain-sync segments the client's muxer writes (muxer.Send writes one
// whole segment per Write call): "seg t1 t2 .." = the message types of one segment, logged
// before the bytes are handed to the pipe.  Only RequestNext (0) / Done (7) segments.
type tapConn struct {
	net.Conn
	lg *peer.Log
}

func (t *tapConn) Write(b []byte) (int, error) {
	if len(b) >= 8 {
		id := binary.BigEndian.Uint16(b[4:6]) & 0x7fff
		if id == chainsync.ProtocolIdNtC {
			payload := b[8:]
			var types []string
			keep := false
			for len(payload) > 0 {
				var raw cbor.RawMessage
				k, err := cbor.Decode(payload, &raw)
				if err != nil || k == 0 {
					break
				}
				mt, err := cbor.DecodeIdFromList(payload[:k])
				payload = payload[k:]
				if err != nil {
					continue
				}
				if mt == 0 || mt == 7 {
					keep = true
				}
				types = append(types, fmt.Sprint(mt))
			}
			if keep {
				t.lg.Add("seg %s", strings.Join(types, " "))
			}
		}
	}
	return t.Conn.Write(b)
}

type outcome struct {
	Events       []string `json:"events"`
	StopReturned bool     `json:"stop_returned"`
	SyncErr      string   `json:"sync_err"`
	Evidence     []string `json:"evidence"`
	DoneSeen     bool     `json:"done_seen"`
	DoneOutst    int      `json:"done_outstanding"`
	Gated        bool     `json:"gated"`          // the gate callback was reached and Stop() called while it was blocked
	DoneAtGate   bool     `json:"done_at_gate"`   // the peer read Done while the callback was still blocked
	GoLeft       []string `json:"goroutines_left"` // chain-sync client goroutines still there after Stop() returned
}

func runScenario(sc scenario, seed uint64) (out outcome) {
	lg := &peer.Log{}
	baseline := len(peer.Stacks("chainsync.(*Client)"))
	gated := make(chan struct{})
	release := make(chan struct{})
	var gateOnce, releaseOnce sync.Once
	defer releaseOnce.Do(func() { close(release) })
	gate := func(n int) { // called inside the n-th callback, after it was logged
		if sc.Gate > 0 && n == sc.Gate {
			gateOnce.Do(func() { close(gated) })
			<-release
		}
	}
	var rbSentAt sync.Map // script index of a "B" update -> time.Time it was sent
	p := peer.New(false)
	defer p.Close()
	var mu sync.Mutex
	pending, next, reqs, reps := 0, 0, 0, 0
	stopped := false
	inPrelude, preReqs := false, 0
	var lastReqAt, lastRepAt time.Time
	flushN := func(max int) { // mu held
		for n := 0; n < max && pending > 0 && next < len(sc.Script) && !stopped; n++ {
			u := sc.Script[next]
			var payload []byte
			if u.Await {
				lg.Add("await")
				if sc.Coalesc {
					payload = append(payload, 0x81, 0x01)
				} else if p.Send(chainsync.ProtocolIdNtC, []byte{0x81, 0x01}) != nil {
					return
				}
			}
			lg.Add("rep %s", u.key())
			if u.Kind == "B" {
				rbSentAt.Store(next, time.Now())
			}
			reps++
			lastRepAt = time.Now()
			payload = append(payload, u.enc()...)
			if p.Send(chainsync.ProtocolIdNtC, payload) != nil {
				return
			}
			next++
			pending--
		}
	}
	flush := func() { // mu held
		if !sc.Lazy {
			flushN(1 << 30)
		} else if time.Since(lastReqAt) > 50*time.Millisecond && time.Since(lastRepAt) > 50*time.Millisecond {
			flushN(1)
		}
	}
	p.OnMsg = func(proto uint16, mt uint, raw []byte) {
		if proto != chainsync.ProtocolIdNtC {
			return
		}
		mu.Lock()
		defer mu.Unlock()
		switch mt {
		case 4: // FindIntersect -> IntersectFound(origin-ish point, tip)
			p.Send(proto, cat([]byte{0x83, 0x05}, encPoint(fixtures[0].Slot, fixtures[0].Hash), encTip(tips[0])))
		case 0: // RequestNext
			if inPrelude {
				// GetAvailableBlockRange: roll back to the intersect, then the first block
				preReqs++
				if preReqs == 1 {
					p.Send(proto, cat([]byte{0x83, 0x03}, encPoint(fixtures[0].Slot, fixtures[0].Hash), encTip(tips[0])))
				} else {
					p.Send(proto, update{Kind: "F", Fix: 1, Tip: 0}.enc())
				}
				return
			}
			reqs++
			pending++
			lastReqAt = time.Now()
			lg.Add("req")
			if sc.Lazy {
				return
			}
			if next < len(sc.Script) && sc.Script[next].Hold && pending < 2 {
				return
			}
			flush()
		case 7:
			out.DoneSeen = true
			out.DoneOutst = reqs - reps
			lg.Add("done %d", reqs-reps)
		}
	}
	// held replies are flushed by a ticker
	tick := time.NewTicker(2 * time.Millisecond)
	defer tick.Stop()
	quit := make(chan struct{})
	defer close(quit)
	go func() {
		for {
			select {
			case <-tick.C:
				mu.Lock()
				flush()
				mu.Unlock()
			case <-quit:
				return
			}
		}
	}()
	rng := vh.NewRng(seed)
	var cbMu sync.Mutex
	ncb := 0
	nrbCalled := 0
	slow := func() {
		if sc.SlowCb > 0 {
			cbMu.Lock()
			d := rng.Intn(sc.SlowCb + 1)
			cbMu.Unlock()
			time.Sleep(time.Duration(d) * 100 * time.Microsecond)
		}
	}
	// ---- block pipeline class -------------------------------------------------------
	// The ApplyFunc of a block that precedes a RollBackward in the script is GATED: it
	// proceeds only once that rollback's callback has run (which the property forbids)
	// or 400 ms after the server sent the rollback (a correct client is then sitting in
	// WaitForDrain).  So on correct code the order is right whatever the timing, and on
	// code that does not drain first the rollback callback is observed first.
	var rbCalled sync.Map // ordinal of the rollback -> struct{}
	rbOrdinal := map[int]int{}
	var rfIndex []int // script index of the k-th roll forward
	nrb := 0
	for i, u := range sc.Script {
		if u.Kind == "B" {
			rbOrdinal[i] = nrb
			nrb++
		} else {
			rfIndex = append(rfIndex, i)
		}
	}
	scenarioOver := make(chan struct{})
	var overOnce sync.Once
	defer overOnce.Do(func() { close(scenarioOver) })
	var bp *pipeline.BlockPipeline
	applied := 0
	if sc.Pipe {
		bp = pipeline.NewBlockPipeline(
			pipeline.WithSkipBodyHashValidation(true),
			pipeline.WithApplyFunc(func(item *pipeline.BlockItem) error {
				k := applied // ApplyFunc is called from one goroutine, in sequence order
				applied++
				nextRB := -1
				if k < len(rfIndex) {
					for j := rfIndex[k] + 1; j < len(sc.Script); j++ {
						if sc.Script[j].Kind == "B" {
							nextRB = j
							break
						}
					}
				}
				if nextRB >= 0 {
					start := time.Now()
				gate:
					for {
						if _, ok := rbCalled.Load(rbOrdinal[nextRB]); ok {
							break
						}
						if t, ok := rbSentAt.Load(nextRB); ok && time.Since(t.(time.Time)) > 400*time.Millisecond {
							break
						}
						if time.Since(start) > 4*time.Second {
							break
						}
						select {
						case <-scenarioOver:
							break gate
						case <-time.After(500 * time.Microsecond):
						}
					}
				}
				b := item.Block()
				t := item.Tip()
				lg.Add("ap F %d %s %d %s %d", b.SlotNumber(), vh.Hex(b.Hash().Bytes()), t.Point.Slot, vh.Hex(t.Point.Hash), t.BlockNumber)
				cbMu.Lock()
				ncb++
				cbMu.Unlock()
				return nil
			}),
		)
		pctx, pcancel := context.WithCancel(context.Background())
		defer pcancel()
		if err := bp.Start(pctx); err != nil {
			out.SyncErr = "pipeline start: " + err.Error()
			return
		}
		defer bp.Stop()
		go func() {
			for range bp.Results() {
			}
		}()
		go func() {
			for e := range bp.Errors() {
				lg.Add("#perr %v", e)
			}
		}()
	}
	pipeOpt := func(c *chainsync.Config) {}
	if sc.Pipe {
		pipeOpt = chainsync.WithPipeline(bp)
	}
	cfg := chainsync.NewConfig(
		pipeOpt,
		chainsync.WithPipelineLimit(sc.Limit),
		chainsync.WithRollForwardFunc(func(ctx chainsync.CallbackContext, typ uint, data any, t chainsync.Tip) error {
			slow()
			b, ok := data.(ledger.Block)
			if !ok {
				lg.Add("cb X 0 00 0 00 0")
			} else {
				lg.Add("cb F %d %s %d %s %d", b.SlotNumber(), vh.Hex(b.Hash().Bytes()), t.Point.Slot, vh.Hex(t.Point.Hash), t.BlockNumber)
			}
			cbMu.Lock()
			ncb++
			n := ncb
			cbMu.Unlock()
			gate(n)
			return nil
		}),
		chainsync.WithRollBackwardFunc(func(ctx chainsync.CallbackContext, pt pcommon.Point, t chainsync.Tip) error {
			slow()
			lg.Add("cb B %d %s %d %s %d", pt.Slot, vh.Hex(pt.Hash), t.Point.Slot, vh.Hex(t.Point.Hash), t.BlockNumber)
			cbMu.Lock()
			rbCalled.Store(nrbCalled, struct{}{})
			nrbCalled++
			ncb++
			n := ncb
			cbMu.Unlock()
			gate(n)
			return nil
		}),
	)
	oConn, err := ouroboros.New(
		ouroboros.WithConnection(&tapConn{Conn: p.Client, lg: lg}),
		ouroboros.WithNetworkMagic(peer.Magic),
		ouroboros.WithNodeToNode(false),
		ouroboros.WithKeepAlive(false),
		ouroboros.WithChainSyncConfig(cfg),
	)
	if err != nil {
		out.SyncErr = "connect: " + err.Error()
		return
	}
	go func() {
		for e := range oConn.ErrorChan() {
			if e != nil {
				lg.Add("#err %s", e.Error())
			}
		}
	}()
	cl := oConn.ChainSync().Client
	if sc.Prelude {
		mu.Lock()
		inPrelude = true
		mu.Unlock()
		_, _, err := cl.GetAvailableBlockRange([]pcommon.Point{pcommon.NewPoint(fixtures[0].Slot, vh.UnHex(fixtures[0].Hash))})
		mu.Lock()
		inPrelude = false
		npre := preReqs
		mu.Unlock()
		if err != nil || npre != 2 {
			out.SyncErr = fmt.Sprintf("prelude GetAvailableBlockRange: err=%v, %d RequestNext (want 2)", err, npre)
			return
		}
		lg.Add("presync")
	}
	if err := cl.Sync([]pcommon.Point{pcommon.NewPoint(fixtures[0].Slot, vh.UnHex(fixtures[0].Hash))}); err != nil {
		out.SyncErr = err.Error()
		return
	}
	target := sc.StopAt
	if target < 0 || target > len(sc.Script) {
		target = len(sc.Script)
	}
	stopRet := make(chan struct{})
	if sc.Gate > 0 {
		select {
		case <-gated:
			out.Gated = true
		case <-time.After(10 * time.Second):
		}
	}
	if !out.Gated {
		deadline := time.Now().Add(10 * time.Second)
		for time.Now().Before(deadline) {
			cbMu.Lock()
			n := ncb
			cbMu.Unlock()
			if n >= target {
				break
			}
			time.Sleep(200 * time.Microsecond)
		}
		if sc.StopAt < 0 {
			time.Sleep(3 * time.Millisecond) // surplus callbacks / requests would show up here
		}
	}
	overOnce.Do(func() { close(scenarioOver) })
	lg.Add("stop")
	if (skipStop && (sc.Limit == 0 || sc.Limit > 70)) || hangs >= 3 {
		// the hang is already reported (3 replays); do not pay 16 s per further scenario
		out.StopReturned = true
		out.Events = sinceSync(lg.Snapshot())
		return
	}
	go func() { defer close(stopRet); cl.Stop() }()
	if out.Gated {
		// the callback is blocked, the client has agency: Done must reach the peer now; the
		// bound only matters when it never comes
		t0 := time.Now()
		for time.Since(t0) < 5*time.Second {
			mu.Lock()
			d := out.DoneSeen
			mu.Unlock()
			if d {
				out.DoneAtGate = true
				break
			}
			time.Sleep(300 * time.Microsecond)
		}
		lg.Add("release")
	}
	releaseOnce.Do(func() { close(release) })
	// Stop() may legitimately spend busyLockTimeout (5 s) + 250 ms; bound 3x that
	select {
	case <-stopRet:
		out.StopReturned = true
	case <-time.After(16 * time.Second):
	}
	mu.Lock()
	stopped = true
	mu.Unlock()
	if !out.StopReturned {
		for _, g := range peer.Stacks("chainsync.(*Client)") {
			lines := strings.Split(g, "\n")
			if len(lines) > 7 {
				lines = lines[:7]
			}
			out.Evidence = append(out.Evidence, strings.Join(lines, " | "))
		}
	}
	time.Sleep(2 * time.Millisecond)
	lg.Add("stopped")
	time.Sleep(3 * time.Millisecond)
	out.Events = sinceSync(lg.Snapshot())
	if out.StopReturned {
		// syncLoop, handlers and Stop itself must be gone (generous bound: only a leak pays it)
		t0 := time.Now()
		for {
			left := peer.Stacks("chainsync.(*Client)")
			if len(left) <= baseline {
				break
			}
			if time.Since(t0) > 5*time.Second {
				for _, g := range left {
					lines := strings.Split(g, "\n")
					if len(lines) > 5 {
						lines = lines[:5]
					}
					out.GoLeft = append(out.GoLeft, strings.Join(lines, " | "))
				}
				break
			}
			time.Sleep(2 * time.Millisecond)
		}
		done := make(chan struct{})
		go func() { oConn.Close(); close(done) }()
		select {
		case <-done:
		case <-time.After(3 * time.Second):
		}
	}
	return
}

// sinceSync drops the prelude (everything up to the "presync" marker)
func sinceSync(evs []string) []string {
	for i, e := range evs {
		if e == "presync" {
			return evs[i+1:]
		}
	}
	return evs
}

var skipStop bool

var hangs int

func monitor(c *vh.Ctx, sc scenario, out outcome) {
	if !out.StopReturned {
		skipStop = true
		if sc.Limit != 0 && sc.Limit <= 70 {
			hangs++ // not the known queue-full hang
		}
	}
	rep := map[string]any{"scenario": sc, "outcome": out}
	if out.SyncErr != "" {
		c.Res.Violate("monitor", "sync-failed", "Sync returned "+out.SyncErr, rep)
		return
	}
	// NewClient replaces PipelineLimit 0 by DefaultPipelineLimit (75): "0" means "default"
	L := sc.Limit
	if L == 0 {
		L = chainsync.DefaultPipelineLimit
	}
	var sentReps, cbs []string
	reqs, reps, maxOut := 0, 0, 0
	afterStopped := false
	for _, e := range out.Events {
		f := strings.SplitN(e, " ", 2)
		switch f[0] {
		case "req":
			reqs++
			if reqs-reps > maxOut {
				maxOut = reqs - reps
			}
			if afterStopped {
				c.Res.Violate("monitor", "request-after-stop", "a RequestNext was sent after Stop() returned", rep)
			}
		case "rep":
			reps++
			sentReps = append(sentReps, f[1])
		case "cb", "ap":
			cbs = append(cbs, f[1])
			if afterStopped {
				c.Res.Violate("monitor", "callback-after-stop", "a callback ran after Stop() returned", rep)
			}
		case "stopped":
			afterStopped = true
		}
	}
	if maxOut > L {
		c.Res.Violate("monitor", fmt.Sprintf("outstanding-exceeds-limit-%d", sc.Limit),
			fmt.Sprintf("%d RequestNext outstanding on the wire with PipelineLimit %d", maxOut, sc.Limit), rep)
	}
	// callbacks = replies, in order; every callback of a sent reply happens unless Stop cut it off
	for i, k := range cbs {
		if i >= len(sentReps) || sentReps[i] != k {
			want := "<none>"
			if i < len(sentReps) {
				want = sentReps[i]
			}
			key := "callback-differs"
			if sc.Pipe && strings.HasPrefix(k, "B ") && strings.HasPrefix(want, "F ") {
				// a rollback was delivered while blocks the server sent before it were still in the pipeline
				key = "pipeline-rollback-before-earlier-blocks"
			}
			c.Res.Violate("monitor", key, fmt.Sprintf("callback %d was (%s), the server's message %d was (%s)", i, k, i, want), rep)
			break
		}
	}
	if sc.StopAt < 0 && sc.Gate == 0 && out.StopReturned && reps != len(sc.Script) {
		c.Res.Violate("monitor", "sync-stalled", fmt.Sprintf("the client stopped requesting: only %d of %d updates were ever requested", reps, len(sc.Script)), rep)
	}
	if sc.StopAt < 0 && sc.Gate == 0 && len(cbs) != len(sentReps) {
		c.Res.Violate("monitor", "callback-missing", fmt.Sprintf("%d callbacks for %d server messages", len(cbs), len(sentReps)), rep)
	}
	if !out.StopReturned {
		key := "stop-hangs"
		for _, e := range out.Evidence {
			if strings.Contains(e, "enqueueMessage") && strings.Contains(e, "(*Client).Stop") && L > 80 {
				// Stop's SendMessage(Done) blocks on the engine's 80-slot send queue, which the
				// pipelined RequestNext messages of syncLoop have filled (C21_stop_queue_can_fill)
				key = "stop-hangs-sendqueue-full"
			}
		}
		c.Res.Violate("monitor", key, fmt.Sprintf("Stop() had not returned after 16 s (3x its own 5.25 s budget); stacks: %v", out.Evidence), rep)
	}
	// ---- the wire as the client's muxer wrote it (tapConn): Done only with agency, nothing after it
	wreq, wreps := 0, 0
	doneWritten := false
	for _, e := range out.Events {
		f := strings.Fields(e)
		if len(f) == 0 {
			continue
		}
		switch f[0] {
		case "rep":
			wreps++
		case "seg":
			for _, t := range f[1:] {
				if doneWritten {
					c.Res.Violate("monitor", "write-after-done", fmt.Sprintf("message type %s was written on chain-sync after Done", t), rep)
				}
				switch t {
				case "0":
					wreq++
				case "7":
					doneWritten = true
					if wreq != wreps {
						// the server has answered wreps of the wreq requests written so far: it holds agency
						c.Res.Violate("monitor", "done-sent-without-agency",
							fmt.Sprintf("Done was written while %d of %d RequestNext were unanswered (Done shares a segment with / follows an unanswered request)", wreq-wreps, wreq), rep)
					}
				}
			}
		}
	}
	if out.Gated && out.StopReturned && !out.DoneAtGate {
		c.Res.Violate("monitor", "done-missing-with-agency",
			fmt.Sprintf("Stop() was called while callback %d was blocked (every request answered: the client has agency) and Done had not reached the peer after 5 s", sc.Gate), rep)
	}
	if len(out.GoLeft) > 0 {
		c.Res.Violate("monitor", "goroutine-left-after-stop", fmt.Sprintf("chain-sync client goroutines still running 5 s after Stop() returned: %v", out.GoLeft), rep)
	}
}

func coqCase(sc scenario, out outcome) string {
	var evs, wire []string
	stopSeen := false
	for _, e := range out.Events {
		f := strings.SplitN(e, " ", 2)
		switch f[0] {
		case "rep":
			wire = append(wire, "WRep")
		case "seg":
			var ms []string
			for _, t := range strings.Fields(f[1]) {
				switch t {
				case "0":
					ms = append(ms, "QReq")
				case "7":
					ms = append(ms, "QDone")
				}
			}
			wire = append(wire, "WSeg "+vh.List(ms))
		}
		if stopSeen {
			continue // the base LTS replays the history up to the Stop() call; the wire is checked to the end
		}
		switch f[0] {
		case "req":
			evs = append(evs, "EReq")
		case "await":
			evs = append(evs, "EAwait")
		case "rep":
			evs = append(evs, "ERep "+coqKey(f[1]))
		case "cb":
			evs = append(evs, "ECb "+coqKey(f[1]))
		case "ap":
			evs = append(evs, "EAp "+coqKey(f[1]))
		case "stop":
			stopSeen = true
		}
	}
	return fmt.Sprintf("{| xc := {| c_limit := %d; c_pipe := %s; c_evs := %s |}; xc_wire := %s |}", sc.Limit, vh.Bool(sc.Pipe), vh.List(evs), vh.List(wire))
}

func genScenario(r *vh.Rng, limit, n int) scenario {
	sc := scenario{Limit: limit, StopAt: -1, SlowCb: r.Intn(3) * r.Intn(6), Coalesc: r.Intn(3) == 0}
	small := []int{0, 1, 1, 0, 2, 3, 0, 1, 4, 5, 6}
	for i := 0; i < n; i++ {
		u := update{Kind: "F", Fix: small[r.Intn(len(small))], Tip: r.Intn(len(tips)), Await: r.Intn(4) == 0, Hold: r.Intn(4) == 0}
		if r.Intn(5) == 0 {
			u.Kind = "B"
			u.Fix = r.Intn(len(fixtures))
		}
		sc.Script = append(sc.Script, u)
	}
	if r.Intn(2) == 0 {
		sc.StopAt = r.Intn(n + 1)
	}
	return sc
}

// Stop() with agency: the callback number 1 + j*limit is blocked (all requests answered)
func genGateScenario(r *vh.Rng, limit int) scenario {
	j := r.Intn(3)
	g := 1 + j*limit
	n := g + r.Intn(limit+1)
	sc := genScenario(r, limit, n)
	sc.StopAt = -1
	sc.Gate = g
	sc.SlowCb = r.Intn(3)
	for i := range sc.Script {
		sc.Script[i].Hold = sc.Script[i].Hold && i >= g // the replies before the gate come promptly
	}
	return sc
}

// Sync() after GetAvailableBlockRange on the same client, against a lazy server: the pipeline
// limit must hold from the first request of the sync on
func genPreludeScenario(r *vh.Rng, limit int) scenario {
	sc := genScenario(r, limit, 2*limit+2+r.Intn(3))
	sc.StopAt = -1
	sc.SlowCb = 0
	sc.Prelude, sc.Lazy = true, true
	for i := range sc.Script {
		sc.Script[i].Hold = false
	}
	return sc
}

// Stop() at a random point of a pipeline conversation (blocks in flight in the block pipeline)
func genPipeStopScenario(r *vh.Rng, limit int) scenario {
	sc := genPipeScenario(r, limit)
	sc.StopAt = r.Intn(len(sc.Script) + 1)
	return sc
}

// pipeline class: RF..RF, RB, RF.., (RB), RF.. with the rollbacks arriving while earlier blocks are gated in ApplyFunc
func genPipeScenario(r *vh.Rng, limit int) scenario {
	sc := scenario{Limit: limit, StopAt: -1, Pipe: true, Coalesc: r.Intn(3) == 0}
	small := []int{0, 1, 1, 0, 2, 3}
	add := func(kind string, n int) {
		for i := 0; i < n; i++ {
			u := update{Kind: kind, Fix: small[r.Intn(len(small))], Tip: r.Intn(len(tips)), Await: r.Intn(5) == 0, Hold: r.Intn(5) == 0}
			if kind == "B" {
				u.Fix = r.Intn(len(fixtures))
			}
			sc.Script = append(sc.Script, u)
		}
	}
	add("F", 1+r.Intn(5))
	add("B", 1)
	add("F", r.Intn(4))
	if r.Intn(2) == 0 {
		add("B", 1)
		add("F", r.Intn(3))
	}
	return sc
}

func runOne(c *vh.Ctx, cf *vh.CaseFile, sc scenario, seed uint64) {
	c.Begin(sc)
	out := runScenario(sc, seed)
	canon, _ := json.Marshal(sc)
	class := fmt.Sprintf("limit=%d", sc.Limit)
	if sc.Pipe {
		class = "pipeline," + class
	}
	switch {
	case sc.Prelude:
		class = "sync-after-block-range," + class
	case sc.Gate > 0:
		class = "stop-with-agency," + class
	case sc.StopAt == 0:
		class = "stop-after-sync," + class
	case sc.StopAt > 0:
		class = "stop-mid," + class
	}
	c.Res.Count(string(canon), len(sc.Script) >= 3, class)
	monitor(c, sc, out)
	cf.Add(coqCase(sc, out), map[string]any{"scenario": sc, "outcome": out})
	nreq := 0
	for _, e := range out.Events {
		if e == "req" {
			nreq++
		}
	}
	c.Res.Sample(map[string]any{"limit": sc.Limit, "updates": len(sc.Script), "events": len(out.Events), "requests": nreq, "stop_at": sc.StopAt, "gate": sc.Gate, "gated": out.Gated, "done_at_gate": out.DoneAtGate, "done_seen": out.DoneSeen})
}

func run(c *vh.Ctx) error {
	if err := loadFixtures(c.Rng); err != nil {
		return err
	}
	for _, f := range fixtures {
		b, err := ledger.NewBlockFromCbor(f.Type, f.Raw)
		if err != nil || vh.Hex(b.Hash().Bytes()) != f.Hash || b.SlotNumber() != f.Slot {
			return fmt.Errorf("fixture %s does not decode to its mainnet slot/hash: %v", f.Name, err)
		}
	}
	c.Res.Rule = "a scenario = pipeline limit (0..10, 25, 100), a server script of 1..60 updates (roll forward with real blocks of 7 eras, roll backward, optional AwaitReply, held/bursty/coalesced replies), slow callbacks, Sync() directly or after a GetAvailableBlockRange on the same client (lazy server: one reply per 50 ms of silence), Stop() at a random callback count / right after Sync() / after the script / while a chosen callback is blocked with every request answered (client has agency); plus a block-pipeline class (real pipeline.BlockPipeline, ApplyFunc gated until the following RollBackward has been sent, drain timeout at its zero default, scripts RF..RF RB RF.. RB RF..); distinct by the scenario JSON; non-trivial = at least 3 updates"
	c.Res.Modelled = []string{
		"the engine's pipelined send path is abstracted: SendMessage = written (an upper bound); engine itself C11-C13",
		"Stop(): modelled statement by statement in coq/C21/Stop.v on a small abstraction of the engine's send side (queue 80, token, batches of 20, queued transitions); its two bounded waits are abstracted (TryLock gives up only against a holder blocked on a full queue; the 250 ms drain wait may expire at any time and C21_stop's Done clause is for runs where it did not); tie = the segments on the connection (check_wire) and the monitor",
		"callbacks return nil; node-to-client flavour (whole blocks); with a block pipeline the pipeline itself (decode/apply stages, WaitForDrain = PendingCount() == 0) is abstracted as an in-order in-flight list (the pipeline is C42-C44) and ApplyFunc terminates within the drain timeout",
	}
	cf := c.NewCaseFile("c21", header())
	cf.Func, cf.Type = "xmismatches", "xcase"
	cf.SetShardSize(40)
	if c.Replay != "" {
		b, err := os.ReadFile(c.Replay)
		if err != nil {
			return err
		}
		var rp struct {
			Replay struct {
				Scenario scenario `json:"scenario"`
			} `json:"replay"`
		}
		if err := json.Unmarshal(b, &rp); err != nil {
			return err
		}
		runOne(c, cf, rp.Replay.Scenario, 1)
		cf.Flush()
		return nil
	}
	// block-pipeline class first (regression corpus: the seeded drain-timeout change)
	runOne(c, cf, scenario{Limit: 1, StopAt: -1, Pipe: true, Script: []update{{Kind: "F", Fix: 0}, {Kind: "F", Fix: 1, Tip: 1}, {Kind: "B", Fix: 2, Tip: 2}}}, 1)
	for k := 0; k < c.Pick(4, 24); k++ {
		runOne(c, cf, genPipeScenario(c.Rng, []int{1, 2, 3, 5, 10, 25}[c.Rng.Intn(6)]), c.Rng.U64())
	}
	// Stop() scenarios: with agency (gated callback, Done must go out), right after Sync()
	// (known finding when Done is pipelined behind the first request), mid pipeline
	runOne(c, cf, scenario{Limit: 3, StopAt: -1, Gate: 1, Script: []update{{Kind: "F", Fix: 0}, {Kind: "F", Fix: 1, Tip: 1}}}, 1)
	for k := 0; k < c.Pick(6, 40); k++ {
		runOne(c, cf, genGateScenario(c.Rng, []int{1, 2, 3, 5, 10}[c.Rng.Intn(5)]), c.Rng.U64())
	}
	for k := 0; k < c.Pick(3, 20); k++ {
		sc := genScenario(c.Rng, []int{1, 2, 5, 10, 25}[c.Rng.Intn(5)], 1+c.Rng.Intn(10))
		sc.StopAt = 0
		runOne(c, cf, sc, c.Rng.U64())
	}
	for k := 0; k < c.Pick(2, 12); k++ {
		runOne(c, cf, genPipeStopScenario(c.Rng, []int{1, 2, 3, 5, 10}[c.Rng.Intn(5)]), c.Rng.U64())
	}
	// Sync() after GetAvailableBlockRange, lazy server
	runOne(c, cf, genPreludeScenario(c.Rng, 3), c.Rng.U64())
	for k := 0; k < c.Pick(2, 10); k++ {
		runOne(c, cf, genPreludeScenario(c.Rng, []int{1, 2, 3, 5}[c.Rng.Intn(4)]), c.Rng.U64())
	}
	limits := []int{0, 1, 2, 3, 4, 5, 6, 7, 8, 9, 10, 25, 100}
	reps := c.Pick(3, 25)
	for _, lim := range limits {
		for k := 0; k < reps; k++ {
			n := 1 + c.Rng.Intn(c.Pick(40, 60))
			if k == 0 {
				n = 2*lim + 3
				if n > 60 {
					n = 60
				}
			}
			runOne(c, cf, genScenario(c.Rng, lim, n), c.Rng.U64())
		}
	}
	cf.Flush()
	return nil
}

func main() { vh.Main(vh.Runner{Property: "C21", Run: run}) }
