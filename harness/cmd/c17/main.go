// C17 - connection roles and diffusion modes gate what is accepted.
package main

import "verifharness/vh"

func run(c *vh.Ctx) error { return nil }

func main() { vh.Main(vh.Runner{Property: "C17", Gen: gen, Run: run}) }
