// C17 - connection roles and diffusion modes gate what is accepted.
//
// Translator (gen.go): protocol ids, version flag table, version families.
// Correspondence + monitor: the finite configuration space (server/client x
// NtN/NtC/DMQ x full-duplex x keep-alive x peer-sharing x delayed start x
// every version of the family x peer duplex flag) enumerated against REAL
// connections (ouroboros.NewConnection over net.Pipe) whose peer is a scripted
// raw mux peer (verifharness/cmd/c09/muxpeer) that plays the handshake and
// then sends probe segments in both directions.
package main

import (
	"encoding/json"
	"errors"
	"fmt"
	"io"
	"net"
	"os"
	"reflect"
	"sort"
	"sync"
	"sync/atomic"
	"time"
	"unsafe"

	ouroboros "github.com/blinklabs-io/gouroboros"
	"github.com/blinklabs-io/gouroboros/muxer"
	"github.com/blinklabs-io/gouroboros/protocol"
	"github.com/blinklabs-io/gouroboros/protocol/keepalive"

	"verifharness/cmd/c09/muxpeer"
	"verifharness/vh"
)

const header = `From V Require Import Lib.Base C09.Gen C09.Model C17.Gen C17.Model.
Open Scope N_scope.`

const longWait = 30 * time.Second
const magic = 764824073

type config struct {
	Server      bool   `json:"server"`
	Kind        string `json:"kind"` // ntn | ntc | dmq
	FullDuplex  bool   `json:"full_duplex"`
	KeepAlive   bool   `json:"keepalive"`
	PeerSharing bool   `json:"peer_sharing"`
	Delay       bool   `json:"delay_start"`
	Version     uint16 `json:"version"`
	PeerDuplex  bool   `json:"peer_duplex"`
}

func (c config) coq() string {
	k := map[string]string{"ntn": "NtN", "ntc": "NtC", "dmq": "DMQ"}[c.Kind]
	return fmt.Sprintf("(mkcfg %s %s %s %s %s %s) (mkneg %d %s)", vh.Bool(c.Server), k, vh.Bool(c.FullDuplex), vh.Bool(c.KeepAlive),
		vh.Bool(c.PeerSharing), vh.Bool(c.Delay), c.Version, vh.Bool(c.PeerDuplex))
}

type ep struct {
	Pid  uint16
	Resp bool
}

func coqEps(es []ep) string {
	sort.Slice(es, func(i, j int) bool {
		return es[i].Pid < es[j].Pid || (es[i].Pid == es[j].Pid && !es[i].Resp && es[j].Resp)
	})
	xs := make([]string, len(es))
	for i, e := range es {
		r := "Initiator"
		if e.Resp {
			r = "Responder"
		}
		xs[i] = fmt.Sprintf("(%d, %s)", e.Pid, r)
	}
	return vh.List(xs)
}

// ---- the specification the monitor uses (property text / network spec; independent of the Coq model)
func specDuplex(c config) bool { return c.Kind == "ntn" && c.FullDuplex && c.PeerDuplex }

// roleEnabledW: the same judged against the WIRE: the negotiated mode is duplex only if
// the implementation itself advertised InitiatorAndResponder for the accepted version
// (own, decoded from its handshake message) and so did the peer.
func roleEnabledW(c config, own bool, responder bool) bool {
	duplex := c.Kind == "ntn" && own && c.PeerDuplex
	if responder {
		return duplex || c.Server
	}
	return duplex || !c.Server
}

func (c config) cfgCoq() string {
	k := map[string]string{"ntn": "NtN", "ntc": "NtC", "dmq": "DMQ"}[c.Kind]
	return fmt.Sprintf("(mkcfg %s %s %s %s %s %s)", vh.Bool(c.Server), k, vh.Bool(c.FullDuplex), vh.Bool(c.KeepAlive), vh.Bool(c.PeerSharing), vh.Bool(c.Delay))
}
func roleEnabled(c config, responder bool) bool {
	if responder {
		return specDuplex(c) || c.Server
	}
	return specDuplex(c) || !c.Server
}
func specProtocol(c config, pid uint16) bool {
	v := int(c.Version)
	switch c.Kind {
	case "ntn":
		switch pid {
		case 2, 3, 4, 18, 19, 20:
			return true
		case 8:
			return v >= 3
		case 10:
			return v >= 11
		}
	case "ntc":
		v -= 0x8000
		switch pid {
		case 5, 6:
			return true
		case 7:
			return v >= 2
		case 9:
			return v >= 12
		}
	case "dmq":
		return pid == 14 || pid == 15
	}
	return false
}

func versionData(c config) []byte {
	v := int(c.Version)
	switch c.Kind {
	case "ntn":
		if v >= 11 {
			return muxpeer.VersionData("ntn", magic, !c.PeerDuplex, 0, false)
		}
		return muxpeer.VersionData("ntn-old", magic, !c.PeerDuplex, 0, false)
	case "ntc":
		if v-0x8000 >= 15 {
			return muxpeer.VersionData("ntc", magic, false, 0, false)
		}
		return muxpeer.VersionData("ntc-old", magic, false, 0, false)
	default:
		return muxpeer.VersionData("ntc", magic, false, 0, false)
	}
}

// ---- one real connection with a scripted peer

type probe struct {
	Raw     uint16 `json:"raw"`
	Payload string `json:"payload"`
	// keep-alive request: wait for the handler before hanging up
	WaitHandler bool `json:"wait_handler"`
}

type outcome struct {
	setupErr  error
	conn      *ouroboros.Connection
	firstErr  error
	closedOK  bool // ErrorChan closed or ConnectionClosedError first
	hung      string
	kaCalls   int32
	peerSegs  []muxpeer.Seg
	regs      []ep
	mode      int64
	started   []ep
	introspOK bool
	// what the implementation put on the wire as its diffusion mode for the accepted version
	own, ownKnown bool
	fenceRead     bool // the muxer went on reading after the probe (= probe accepted)
	// only write errors (io.ErrClosedPipe) were seen: cannot tell whether the muxer
	// had rejected the probe (its own error may lose the race for the error channel)
	ambiguous bool
}

func dial(c config, p *probe, inspect bool) *outcome { return dialLife(c, p, inspect, nil, nil) }

// dialLife: like dial, with an action performed on the established connection (stop /
// restart of protocol instances) and a probe sent AFTER it.
func dialLife(c config, p *probe, inspect bool, act func(*ouroboros.Connection, *muxpeer.RawPeer, *outcome), late *probe) *outcome {
	o := &outcome{}
	ca, cb := net.Pipe()
	defer ca.Close()
	peer := &muxpeer.RawPeer{Conn: ca}
	var mu sync.Mutex
	segCh := make(chan muxpeer.Seg, 64)
	go func() {
		for {
			s, err := peer.ReadSeg(4 * longWait)
			if err != nil {
				close(segCh)
				return
			}
			mu.Lock()
			o.peerSegs = append(o.peerSegs, s)
			mu.Unlock()
			select {
			case segCh <- s:
			default:
			}
		}
	}()
	errCh := make(chan error, 16)
	var ka int32
	kaCfg := keepalive.NewConfig(keepalive.WithKeepAliveFunc(func(keepalive.CallbackContext, uint16) error {
		atomic.AddInt32(&ka, 1)
		return nil
	}))
	type res struct {
		conn *ouroboros.Connection
		err  error
	}
	done := make(chan res, 1)
	go func() {
		conn, err := ouroboros.NewConnection(
			ouroboros.WithConnection(cb), ouroboros.WithNetworkMagic(magic), ouroboros.WithErrorChan(errCh),
			ouroboros.WithServer(c.Server), ouroboros.WithNodeToNode(c.Kind == "ntn"), ouroboros.WithDMQ(c.Kind == "dmq"),
			ouroboros.WithFullDuplex(c.FullDuplex), ouroboros.WithKeepAlive(c.KeepAlive), ouroboros.WithPeerSharing(c.PeerSharing),
			ouroboros.WithDelayProtocolStart(c.Delay), ouroboros.WithKeepAliveConfig(kaCfg),
		)
		done <- res{conn, err}
	}()
	// the handshake, and the probe glued to the handshake message so that it is
	// already on the wire while the connection is still being set up
	var hs []byte
	if c.Server {
		hs = muxpeer.Frame(1, 0, muxpeer.MsgPropose(c.Version, versionData(c)))
	} else {
		select {
		case s, ok := <-segCh:
			if !ok || s.Pid() != 0 || s.IsResponse() {
				o.hung = "no handshake proposal from the client"
				cb.Close()
				return o
			}
			if prop, err := muxpeer.ParseProposal(s.Payload); err == nil {
				if data, offered := prop[c.Version]; offered {
					o.own, _ = muxpeer.AdvertisedDuplex(data, c.Kind == "ntn")
					o.ownKnown = true
				}
			}
		case <-time.After(longWait):
			o.hung = "no handshake proposal from the client"
			cb.Close()
			return o
		}
		hs = muxpeer.Frame(1, 0x8000, muxpeer.MsgAccept(c.Version, versionData(c)))
	}
	if p != nil {
		hs = append(hs, muxpeer.Frame(2, p.Raw, vh.UnHex(p.Payload))...)
	}
	wdone := make(chan error, 1)
	go func() { wdone <- peer.WriteChunks([][]byte{hs}, 2*longWait) }()
	var r res
	select {
	case r = <-done:
	case <-time.After(2 * longWait):
		o.hung = "NewConnection did not return"
		cb.Close()
		return o
	}
	o.setupErr, o.conn = r.err, r.conn
	if r.err != nil {
		cb.Close()
		return o
	}
	if inspect {
		o.introspOK = introspect(r.conn, o)
	}
	if p != nil {
		<-wdone
		if p.WaitHandler {
			dl := time.Now().Add(longWait)
			for atomic.LoadInt32(&ka) == 0 && time.Now().Before(dl) {
				select {
				case e := <-errCh:
					o.firstErr = e
					dl = time.Now()
				default:
					time.Sleep(200 * time.Microsecond)
				}
			}
		}
	}
	if c.Server {
		// let the server's accept message arrive before going on (other protocols of a
		// duplex server may get their first segment out before it)
		dl := time.After(longWait)
	waitAccept:
		for {
			select {
			case s, ok := <-segCh:
				if !ok {
					break waitAccept
				}
				if s.Pid() == 0 && s.IsResponse() {
					if v, data, err := muxpeer.ParseAccept(s.Payload); err == nil && v == c.Version {
						o.own, _ = muxpeer.AdvertisedDuplex(data, c.Kind == "ntn")
						o.ownKnown = true
					}
					break waitAccept
				}
			case <-dl:
				break waitAccept
			}
		}
	}
	if act != nil && o.hung == "" {
		if p != nil {
			<-wdone
		}
		act(r.conn, peer, o)
	}
	if late != nil && o.hung == "" {
		// sent on its own: completes when the muxer consumed it, fails if the connection is gone
		_ = peer.WriteChunks([][]byte{muxpeer.Frame(4, late.Raw, vh.UnHex(late.Payload))}, 2*longWait)
	}
	if (p != nil || late != nil) && o.firstErr == nil && o.hung == "" {
		// the fence: a zero-length header written on its own.  net.Pipe completes a
		// Write only when the reader consumed it: the muxer consumes the fence iff its
		// read loop is still running, i.e. iff it did NOT reject the probe; after a
		// rejection the read loop has returned and the write fails once the muxer
		// closes the connection.  No error text or error-channel race is involved.
		switch err := peer.WriteChunks([][]byte{muxpeer.Header(3, 0, 0)}, 2*longWait); {
		case err == nil:
			o.fenceRead = true
		case errors.Is(err, os.ErrDeadlineExceeded):
			o.hung = "the fence segment was neither read nor refused"
		}
	}
	// hang up
	ca.Close()
	if o.firstErr == nil {
		select {
		case e, ok := <-errCh:
			if ok {
				o.firstErr = e
			}
		case <-time.After(longWait):
			o.hung = "no error and no shutdown after the peer closed the connection"
		}
	}
	var cce *muxer.ConnectionClosedError
	sawEOF, sawPipe, sawOther := false, false, false
	note := func(e error) {
		switch {
		case e == nil:
		case errors.As(e, &cce):
			sawEOF = true
		case errors.Is(e, io.ErrClosedPipe):
			sawPipe = true
		default:
			if !sawOther {
				o.firstErr = e
			}
			sawOther = true
		}
	}
	note(o.firstErr)
	o.kaCalls = atomic.LoadInt32(&ka)
	cdone := make(chan struct{})
	go func() { r.conn.Close(); close(cdone) }()
	select {
	case <-cdone:
	case <-time.After(longWait):
		if o.hung == "" {
			o.hung = "Connection.Close did not return"
		}
		return o
	}
	// shutdown closes the error channel; any further error that is not the hang-up counts
drain:
	for {
		select {
		case e, ok := <-errCh:
			if !ok {
				break drain
			}
			note(e)
		case <-time.After(longWait):
			if o.hung == "" {
				o.hung = "error channel not closed after Close"
			}
			break drain
		}
	}
	o.closedOK = !sawOther
	o.ambiguous = !sawOther && !sawEOF && sawPipe
	return o
}

// introspect reads the muxer's receiver table, its diffusion mode and which
// protocol instances were started, from unexported fields (read-only
// reflection; the receiver table under its own mutex).
func introspect(conn *ouroboros.Connection, o *outcome) (ok bool) {
	defer func() {
		if r := recover(); r != nil {
			ok = false
		}
	}()
	mv := reflect.ValueOf(conn.Muxer()).Elem()
	mtx := mv.FieldByName("protocolReceiversMutex")
	recv := mv.FieldByName("protocolReceivers")
	dm := mv.FieldByName("diffusionMode")
	if !mtx.IsValid() || !recv.IsValid() || !dm.IsValid() {
		return false
	}
	m := (*sync.Mutex)(unsafe.Pointer(mtx.UnsafeAddr()))
	m.Lock()
	for _, k := range recv.MapKeys() {
		inner := recv.MapIndex(k)
		for _, rk := range inner.MapKeys() {
			switch muxer.ProtocolRole(rk.Uint()) {
			case muxer.ProtocolRoleInitiator:
				o.regs = append(o.regs, ep{uint16(k.Uint()), false})
			case muxer.ProtocolRoleResponder:
				o.regs = append(o.regs, ep{uint16(k.Uint()), true})
			}
		}
	}
	m.Unlock()
	o.mode = (*atomic.Int64)(unsafe.Pointer(dm.UnsafeAddr())).Load()
	// protocol instances: every exported getter of Connection returning a struct with Client/Server
	cv := reflect.ValueOf(conn)
	for i := 0; i < cv.NumMethod(); i++ {
		mt := cv.Type().Method(i)
		if mt.Type.NumIn() != 1 || mt.Type.NumOut() != 1 || mt.Type.Out(0).Kind() != reflect.Ptr || mt.Type.Out(0).Elem().Kind() != reflect.Struct {
			continue
		}
		st := mt.Type.Out(0).Elem()
		if _, has := st.FieldByName("Client"); !has {
			continue
		}
		if _, has := st.FieldByName("Server"); !has {
			continue
		}
		obj := cv.Method(i).Call(nil)[0]
		if obj.IsNil() || mt.Name == "Handshake" {
			continue
		}
		for _, side := range []string{"Client", "Server"} {
			sv := obj.Elem().FieldByName(side)
			if sv.IsNil() {
				continue
			}
			pv := sv.Elem().FieldByName("Protocol")
			if !pv.IsValid() || pv.IsNil() {
				return false
			}
			pe := pv.Elem()
			cfg := pe.FieldByName("config")
			q := pe.FieldByName("sendQueueChan")
			if !cfg.IsValid() || !q.IsValid() {
				return false
			}
			if !q.IsNil() {
				o.started = append(o.started, ep{uint16(cfg.FieldByName("ProtocolId").Uint()), protocol.ProtocolRole(cfg.FieldByName("Role").Uint()) == protocol.ProtocolRoleServer})
			}
		}
	}
	return true
}

// readRegistry returns the muxer's current receiver table.
func readRegistry(conn *ouroboros.Connection) (regs []ep, ok bool) {
	defer func() {
		if r := recover(); r != nil {
			ok = false
		}
	}()
	tmp := &outcome{}
	mv := reflect.ValueOf(conn.Muxer()).Elem()
	mtx := mv.FieldByName("protocolReceiversMutex")
	recv := mv.FieldByName("protocolReceivers")
	if !mtx.IsValid() || !recv.IsValid() {
		return nil, false
	}
	m := (*sync.Mutex)(unsafe.Pointer(mtx.UnsafeAddr()))
	m.Lock()
	defer m.Unlock()
	for _, k := range recv.MapKeys() {
		inner := recv.MapIndex(k)
		for _, rk := range inner.MapKeys() {
			switch muxer.ProtocolRole(rk.Uint()) {
			case muxer.ProtocolRoleInitiator:
				tmp.regs = append(tmp.regs, ep{uint16(k.Uint()), false})
			case muxer.ProtocolRoleResponder:
				tmp.regs = append(tmp.regs, ep{uint16(k.Uint()), true})
			}
		}
	}
	return tmp.regs, true
}

// side returns the Client or Server object (a pointer to a struct embedding
// *protocol.Protocol) of the mini-protocol with this id, found through the exported
// getters of Connection.
func side(conn *ouroboros.Connection, pid uint16, server bool) (sv reflect.Value, ok bool) {
	defer func() {
		if r := recover(); r != nil {
			ok = false
		}
	}()
	cv := reflect.ValueOf(conn)
	name := map[bool]string{false: "Client", true: "Server"}[server]
	for i := 0; i < cv.NumMethod(); i++ {
		mt := cv.Type().Method(i)
		if mt.Type.NumIn() != 1 || mt.Type.NumOut() != 1 || mt.Type.Out(0).Kind() != reflect.Ptr || mt.Type.Out(0).Elem().Kind() != reflect.Struct || mt.Name == "Handshake" {
			continue
		}
		if _, has := mt.Type.Out(0).Elem().FieldByName(name); !has {
			continue
		}
		obj := cv.Method(i).Call(nil)[0]
		if obj.IsNil() {
			continue
		}
		x := obj.Elem().FieldByName(name)
		if x.Kind() != reflect.Ptr || x.IsNil() {
			continue
		}
		pv := x.Elem().FieldByName("Protocol")
		if !pv.IsValid() || pv.IsNil() {
			continue
		}
		if uint16(pv.Elem().FieldByName("config").FieldByName("ProtocolId").Uint()) == pid {
			return x, true
		}
	}
	return reflect.Value{}, false
}

// protoPtr atomically loads the embedded *protocol.Protocol of a Client/Server object and
// says whether that instance has been started.
func protoPtr(x reflect.Value) (ptr unsafe.Pointer, started bool) {
	f := x.Elem().FieldByName("Protocol")
	ptr = atomic.LoadPointer((*unsafe.Pointer)(unsafe.Pointer(f.UnsafeAddr())))
	if ptr == nil {
		return nil, false
	}
	q := reflect.NewAt(f.Type().Elem(), ptr).Elem().FieldByName("sendQueueChan")
	return ptr, atomic.LoadPointer((*unsafe.Pointer)(unsafe.Pointer(q.UnsafeAddr()))) != nil
}

// ---- lifecycle: stop / restart one role on a duplex connection, then the other role
// must still be registered and reachable

func runLife(c *vh.Ctx, cf *vh.CaseFile, cfg config, pid uint16, restart bool) {
	kind := map[bool]string{false: "client-stop", true: "server-restart"}[restart]
	rp := map[string]any{"cfg": cfg, "life": kind, "pid": pid}
	c.Begin(rp)
	var regs []ep
	regOK, actErr := false, ""
	act := func(conn *ouroboros.Connection, peer *muxpeer.RawPeer, o *outcome) {
		x, ok := side(conn, pid, restart)
		if !ok {
			actErr = "introspection"
			return
		}
		if !restart {
			// Client.Stop(): the local initiator instance goes away (it may tell the peer Done)
			done := make(chan struct{})
			go func() { x.MethodByName("Stop").Call(nil); close(done) }()
			select {
			case <-done:
			case <-time.After(longWait):
				o.hung = "Client.Stop did not return"
				return
			}
		} else {
			// the peer's initiator says Done: the local server restarts (Stop, re-create, Start)
			old, _ := protoPtr(x)
			if err := peer.WriteChunks([][]byte{muxpeer.Frame(3, pid, vh.UnHex(donePayload[pid]))}, 2*longWait); err != nil {
				actErr = "the Done segment was refused"
				return
			}
			dl := time.Now().Add(longWait)
			for {
				cur, started := protoPtr(x)
				if cur != old && started {
					break
				}
				if time.Now().After(dl) {
					o.hung = "the server did not restart after the peer's Done"
					return
				}
				time.Sleep(200 * time.Microsecond)
			}
		}
		regs, regOK = readRegistry(conn)
	}
	var late *probe
	if pl, ok := donePayload[pid]; ok {
		late = &probe{Raw: pid, Payload: pl}
	}
	o := dialLife(cfg, nil, false, act, late)
	canon, _ := json.Marshal(rp)
	c.Res.Count("life/"+string(canon), true, "life:"+kind)
	if o.hung != "" {
		c.Res.Violate("monitor", fmt.Sprintf("hang:life:%s:%d", kind, pid), o.hung, rp)
		return
	}
	if o.setupErr != nil {
		c.Res.Violate("monitor", "setup-failed", fmt.Sprintf("NewConnection failed after a valid handshake: %v", o.setupErr), rp)
		return
	}
	if actErr == "introspection" || !regOK && actErr == "" {
		c.Res.Notes = append(c.Res.Notes, "introspection unavailable: lifecycle case skipped")
		return
	}
	if actErr != "" {
		c.Res.Violate("monitor", fmt.Sprintf("life-action-failed:%s:%d", kind, pid), actErr, rp)
		return
	}
	has := map[ep]bool{}
	for _, e := range regs {
		has[e] = true
	}
	// monitor: the role that was NOT stopped is still registered and, where we can talk to it, reachable
	if !restart && !has[ep{pid, true}] {
		c.Res.Violate("monitor", fmt.Sprintf("sibling-role-unregistered:%d", pid), fmt.Sprintf("after Client.Stop of protocol %d its responder is no longer registered with the muxer", pid), rp)
	}
	if restart && !has[ep{pid, false}] {
		c.Res.Violate("monitor", fmt.Sprintf("sibling-role-unregistered:%d", pid), fmt.Sprintf("after the server of protocol %d restarted on the peer's Done its initiator is no longer registered with the muxer", pid), rp)
	}
	if late != nil && !o.fenceRead {
		c.Res.Violate("monitor", fmt.Sprintf("responder-unreachable-after-%s:%d", kind, pid), fmt.Sprintf("a request for the responder of protocol %d failed the connection after the %s: %v", pid, kind, o.firstErr), rp)
	}
	ops := fmt.Sprintf("[ClientStop %d]", pid)
	if restart {
		ops = fmt.Sprintf("[ServerRestart %d]", pid)
	}
	probes := "[]"
	if late != nil {
		probes = fmt.Sprintf("[(%d, %s)]", late.Raw, vh.Bool(o.fenceRead))
	}
	cf.Add(fmt.Sprintf("CLife %s %s %s %s", cfg.coq(), ops, coqEps(regs), probes), rp)
	c.Res.TracesValidated++
}

// ---- probes

var donePayload = map[uint16]string{
	2: "8107", 5: "8107", // chain-sync MsgDone
	3:  "8101",       // block-fetch MsgClientDone
	8:  "8200191234", // keep-alive MsgKeepAlive(0x1234)
	10: "8102",       // peer-sharing MsgDone
	6:  "8103",       // local-tx-submission MsgDone
	7:  "8107",       // local-state-query MsgDone
}

type replay struct {
	Cfg   config `json:"cfg"`
	Probe *probe `json:"probe,omitempty"`
}

func runSetup(c *vh.Ctx, cf *vh.CaseFile, cfg config) {
	rp := replay{Cfg: cfg}
	c.Begin(rp)
	o := dial(cfg, nil, true)
	canon, _ := json.Marshal(cfg)
	c.Res.Count("setup/"+string(canon), true, "setup:"+cfg.Kind)
	if o.hung != "" {
		c.Res.Violate("monitor", "hang:setup", o.hung, rp)
		return
	}
	if o.setupErr != nil {
		c.Res.Violate("monitor", "setup-failed", fmt.Sprintf("NewConnection failed after a valid handshake: %v", o.setupErr), rp)
		return
	}
	if !o.closedOK {
		c.Res.Violate("monitor", "spurious-error-after-setup", fmt.Sprintf("connection reported %v without any traffic", o.firstErr), rp)
	}
	if !o.ownKnown {
		c.Res.Violate("monitor", fmt.Sprintf("own-version-data-not-on-the-wire:v%d", cfg.Version), "the implementation's handshake message carries no version data for the accepted version", rp)
		return
	}
	if !o.introspOK {
		c.Res.Notes = append(c.Res.Notes, "introspection of unexported muxer/protocol fields unavailable: setup cases skipped")
		return
	}
	// monitor: started = enabled by spec; every started instance registered; nothing registered in a disabled role
	isReg := map[ep]bool{}
	for _, e := range o.regs {
		isReg[e] = true
		if e.Pid != 0 && !roleEnabledW(cfg, o.own, e.Resp) {
			c.Res.Violate("monitor", fmt.Sprintf("registered-in-disabled-role:%d", e.Pid), fmt.Sprintf("receiver %v registered although that role is not enabled", e), rp)
		}
	}
	isStarted := map[ep]bool{}
	for _, e := range o.started {
		isStarted[e] = true
		if !isReg[e] {
			c.Res.Violate("monitor", fmt.Sprintf("started-not-registered:%d", e.Pid), fmt.Sprintf("protocol instance %v started but has no muxer receiver", e), rp)
		}
	}
	for pid := uint16(1); pid < 32; pid++ {
		for _, resp := range []bool{false, true} {
			want := !cfg.Delay && specProtocol(cfg, pid) && roleEnabledW(cfg, o.own, resp) && (pid != 8 || resp || cfg.KeepAlive)
			if want != isStarted[ep{pid, resp}] {
				c.Res.Violate("monitor", fmt.Sprintf("started-differs-from-spec:%d", pid), fmt.Sprintf("protocol %d responder=%v: started=%v, enabled by negotiation=%v", pid, resp, !want, want), rp)
			}
		}
	}
	wantMode := muxer.DiffusionModeInitiator
	if cfg.Kind == "ntn" && cfg.PeerDuplex {
		wantMode = muxer.DiffusionModeInitiatorAndResponder
	} else if cfg.Server {
		wantMode = muxer.DiffusionModeResponder
	}
	_ = wantMode
	if (muxer.DiffusionMode(o.mode) == muxer.DiffusionModeInitiator && roleEnabledW(cfg, o.own, true)) || (muxer.DiffusionMode(o.mode) == muxer.DiffusionModeResponder && roleEnabledW(cfg, o.own, false)) {
		c.Res.Violate("monitor", "mode-stricter-than-roles", fmt.Sprintf("muxer mode %d forbids an enabled role", o.mode), rp)
	}
	cf.Add(fmt.Sprintf("CAdv %s %d %s", cfg.cfgCoq(), cfg.Version, vh.Bool(o.own)), rp)
	c.Res.Sample(map[string]any{"cfg": cfg, "registered": len(o.regs), "started": len(o.started), "mode": o.mode})
	cf.Add(fmt.Sprintf("CSetup %s %s %d %s", cfg.coq(), coqEps(o.regs), o.mode, coqEps(o.started)), rp)
	c.Res.TracesValidated++
}

func runProbe(c *vh.Ctx, cf *vh.CaseFile, cfg config, p probe) {
	rp := replay{Cfg: cfg, Probe: &p}
	c.Begin(rp)
	o := dial(cfg, &p, false)
	pid, isResp := p.Raw&0x7fff, p.Raw&0x8000 != 0
	class := map[bool]string{false: "request", true: "response"}[isResp]
	canon, _ := json.Marshal(rp)
	c.Res.Count("probe/"+string(canon), true, "probe:"+class)
	if o.hung != "" {
		c.Res.Violate("monitor", "hang:probe:"+class, o.hung, rp)
		return
	}
	if o.setupErr != nil {
		c.Res.Violate("monitor", "setup-failed", fmt.Sprintf("NewConnection failed after a valid handshake: %v", o.setupErr), rp)
		return
	}
	accepted := o.fenceRead
	// monitor (property text)
	switch {
	case !isResp && !roleEnabledW(cfg, o.own, true) && accepted && cfg.Kind == "ntn" && cfg.PeerDuplex && cfg.FullDuplex:
		c.Res.Violate("monitor", fmt.Sprintf("responder-served-although-we-advertised-initiator-only:v%d", cfg.Version), fmt.Sprintf("this end put InitiatorOnly on the wire for version %d, yet a peer request for protocol %d was accepted", cfg.Version, pid), rp)
	case !isResp && !roleEnabledW(cfg, o.own, true) && accepted:
		c.Res.Violate("monitor", fmt.Sprintf("request-accepted-on-initiator-only:%d", pid), "a request segment did not fail an initiator-only connection", rp)
	case !isResp && !roleEnabledW(cfg, o.own, true) && o.kaCalls > 0:
		c.Res.Violate("monitor", "handler-called-on-initiator-only", "keep-alive server handler ran on an initiator-only connection", rp)
	case isResp && !roleEnabledW(cfg, o.own, false) && accepted:
		c.Res.Violate("monitor", fmt.Sprintf("response-accepted-on-responder-only:%d", pid), "a response segment did not fail a responder-only connection", rp)
	case !isResp && roleEnabledW(cfg, o.own, true) && specProtocol(cfg, pid) && !accepted:
		c.Res.Violate("monitor", fmt.Sprintf("enabled-responder-unreachable:%d", pid), fmt.Sprintf("a request for an enabled protocol failed the connection: %v", o.firstErr), rp)
	case !isResp && roleEnabledW(cfg, o.own, true) && !cfg.Delay && pid == 8 && specProtocol(cfg, 8) && p.WaitHandler && o.kaCalls == 0:
		c.Res.Violate("monitor", "enabled-responder-no-handler-call:8", "keep-alive request on an enabled responder never reached the handler", rp)
	case !specProtocol(cfg, pid) && pid != 0 && accepted:
		c.Res.Violate("monitor", fmt.Sprintf("segment-for-disabled-protocol-accepted:%d", pid), "a segment for a protocol the negotiated version does not carry was accepted", rp)
	}
	cf.Add(fmt.Sprintf("CProbe %s %d %s", cfg.coq(), p.Raw, vh.Bool(accepted)), rp)
	c.Res.TracesValidated++
}

func allConfigs() []config {
	var out []config
	fam := map[string][]uint16{"ntn": protocol.GetProtocolVersionsNtN(), "ntc": protocol.GetProtocolVersionsNtC(), "dmq": protocol.GetProtocolVersionsDMQNtC()}
	for _, kind := range []string{"ntn", "ntc", "dmq"} {
		for _, v := range fam[kind] {
			for b := 0; b < 64; b++ {
				cfg := config{Server: b&1 != 0, Kind: kind, FullDuplex: b&2 != 0, KeepAlive: b&4 != 0, PeerSharing: b&8 != 0, Delay: b&16 != 0, PeerDuplex: b&32 != 0, Version: v}
				if kind != "ntn" && cfg.PeerDuplex {
					continue // no diffusion-mode field in node-to-client version data
				}
				out = append(out, cfg)
			}
		}
	}
	return out
}

func probesFor(cfg config, r *vh.Rng) []probe {
	var ps []probe
	pids := map[string][]uint16{"ntn": {2, 3, 8, 10, 4, 18}, "ntc": {5, 6, 7, 9}, "dmq": {14, 15}}[cfg.Kind]
	pid := vh.PickOne(r, pids)
	// a request for one of the kind's protocols
	if pl, ok := donePayload[pid]; ok {
		ps = append(ps, probe{Raw: pid, Payload: pl, WaitHandler: pid == 8 && !cfg.Delay && roleEnabled(cfg, true) && specProtocol(cfg, 8)})
	} else if !(roleEnabled(cfg, true) && specProtocol(cfg, pid)) {
		ps = append(ps, probe{Raw: pid, Payload: "8100"})
	}
	// a response, only where no initiator may exist (an accepted response would meet a client without agency)
	if !roleEnabled(cfg, false) {
		ps = append(ps, probe{Raw: 0x8000 | vh.PickOne(r, pids), Payload: "8101"})
	}
	// a protocol of another kind / unknown number
	other := vh.PickOne(r, []uint16{1, 11, 99, 0x7fff, map[string]uint16{"ntn": 5, "ntc": 2, "dmq": 5}[cfg.Kind]})
	raw := other
	if !roleEnabled(cfg, true) && r.Bool() || !roleEnabled(cfg, false) && false {
		raw = other
	}
	ps = append(ps, probe{Raw: raw, Payload: "8100"})
	return ps
}

func run(c *vh.Ctx) error {
	c.Res.Rule = "every combination of server/client, NtN/NtC/DMQ, full-duplex asked, keep-alives, peer-sharing, delayed start, every version of the family, peer duplex flag (NtN) is dialled against the real Connection with a scripted handshake; setup cases record muxer registrations, diffusion mode and started instances; probe cases glue one request / response / foreign-protocol segment to the handshake message and record accepted vs failed; distinct by configuration (+probe); all non-trivial"
	c.Res.Modelled = []string{
		"registrations, diffusion mode and started flags are read from unexported fields by reflection (no hook); 'accepted' = the muxer went on reading after the probe: a fence segment written afterwards is consumed (net.Pipe write completes) instead of failing",
		"query mode, DMQ node-to-node and handshake failures are outside the model; the negotiated version is scripted (any version of the family)",
	}
	cf := c.NewCaseFile("c17", header)
	cf.SetShardSize(200)
	if c.Replay != "" {
		b, err := os.ReadFile(c.Replay)
		if err != nil {
			return err
		}
		var rp struct {
			Replay replay `json:"replay"`
		}
		if err := json.Unmarshal(b, &rp); err != nil {
			return err
		}
		if rp.Replay.Probe != nil {
			for i := 0; i < 5; i++ {
				runProbe(c, cf, rp.Replay.Cfg, *rp.Replay.Probe)
			}
		} else {
			runSetup(c, cf, rp.Replay.Cfg)
		}
		cf.Flush()
		return nil
	}
	cfgs := allConfigs()
	for i, cfg := range cfgs {
		// quick: every configuration's setup except that peer-sharing (which does not
		// steer setup) is sampled; thorough: all
		if !c.Thorough() && cfg.PeerSharing != ((uint32(i)*2654435761>>11)%2 == 0) && cfg.Kind != "dmq" {
			continue
		}
		runSetup(c, cf, cfg)
	}
	for i, cfg := range cfgs {
		if !c.Thorough() && (cfg.PeerSharing || ((uint32(i)*2654435761>>9)^uint32(c.Seed))%2 != 0) && cfg.Kind != "dmq" {
			continue
		}
		for _, p := range probesFor(cfg, c.Rng) {
			runProbe(c, cf, cfg, p)
		}
	}
	// lifecycle on duplex node-to-node connections, every duplex-capable protocol
	for _, server := range []bool{false, true} {
		for _, v := range []uint16{7, 11, 13, 15} {
			cfg := config{Server: server, Kind: "ntn", FullDuplex: true, PeerDuplex: true, Version: v}
			for _, pid := range []uint16{2, 3, 4, 8, 10, 18, 19, 20} {
				if !specProtocol(cfg, pid) {
					continue
				}
				if pid != 8 { // the keep-alive client is not running without WithKeepAlive
					runLife(c, cf, cfg, pid, false)
				}
				if pid == 2 || pid == 3 || pid == 10 { // servers that restart on Done and whose Done we can encode
					runLife(c, cf, cfg, pid, true)
				}
			}
		}
	}
	cf.Flush()
	return nil
}

func main() { vh.Main(vh.Runner{Property: "C17", Gen: gen, Run: run}) }
