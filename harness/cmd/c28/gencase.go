package main

import (
	"crypto/ed25519"
	"fmt"
	"strings"

	"verifharness/vh"
)

type needT struct {
	byron bool
	key   *keyT
	cc    []byte
	attrs []byte
}

type genOpts struct {
	kinds    []string // forced input kinds ("" = random)
	collKind []string // forced collateral kinds
	nReq     int      // -1 = random
	nWdrl    int      // -1 = random
	perturb  []string // forced perturbations (nil = random)
	reform   int      // -1 random, 0 no, 1 yes
	label    string
	nearReq  bool // required signers differ from a witnessed key hash in one bit
	// collKind / refs entries of the form "=i" reuse regular input i, "c=j"
	// (refs only) reuse collateral input j: the SAME UTxO in several sets
	refs    []string // reference inputs (Babbage+); nil = random
	dupIn   bool     // repeat the first regular input
	dupColl bool     // repeat the first collateral input
	noTag   bool     // never wrap sets in tag 258 (tagged sets reject duplicates)
}

// nearMiss flips one bit of the first or the last byte of a hash.
func nearMiss(r *vh.Rng, h []byte) []byte {
	o := append([]byte{}, h...)
	if r.Bool() {
		o[len(o)-1] ^= 1 << uint(r.Intn(8))
	} else {
		o[0] ^= 1 << uint(r.Intn(8))
	}
	return o
}

var inputKinds = []string{"key", "key", "key", "key", "key", "key", "key", "key", "key", "key",
	"byron", "byron", "byron", "byron", "script", "script", "script", "unresolved", "nopay", "niloutput"}
var collKinds = []string{"key", "key", "key", "key", "key", "key", "key", "key", "key", "key", "key", "key", "key", "key",
	"byron", "byron", "script", "script", "unresolved", "nopay", "niloutput"}

var byronAttrChoices = [][]byte{
	{0xa0}, // {}
	{0xa1, 0x02, 0x45, 0x1a, 0x41, 0x70, 0xcb, 0x17}, // {2: h'1a4170cb17'} network magic
	{0xa1, 0x01, 0x43, 0x42, 0x01, 0x02},             // {1: h'420102'} derivation path payload
}

var perturbKinds = []string{"drop-vkey", "drop-vkey", "drop-boot", "extra-vkey", "extra-boot", "wrong-key", "wrong-key",
	"corrupt-sig", "corrupt-sig", "corrupt-boot-sig", "other-txid", "sig-over-reencoded-body", "sig-over-body-bytes", "dup-vkey",
	"pk-sig-swap", "short-pk", "short-sig", "long-sig", "boot-wrong-cc", "boot-wrong-attrs", "boot-cc-31", "boot-as-vkey",
	"boot-short-pk", "boot-short-sig", "drop-all", "dup-wits-key", "same-key-bad-first", "same-key-bad-last",
	"boot-attr-last-byte", "boot-attr-append-zero", "boot-empty-attrs", "boot-cc-last-byte"}

// byronAttrLens: lengths of the encoded attributes map; 1 = {} and the others
// {1: bytes(len-3 or len-4 payload bytes)} (34 = the Daedalus HD-payload shape)
var byronAttrLens = []int{1, 31, 32, 33, 34, 64, 100}

// byronAttrsOfLen builds a well-formed Byron attributes map of exactly n bytes.
func byronAttrsOfLen(r *vh.Rng, n int) []byte {
	if n <= 1 {
		return []byte{0xa0}
	}
	if n < 27 {
		return append([]byte{0xa1, 0x01, 0x40 | byte(n-3)}, r.Bytes(n-3)...)
	}
	return append([]byte{0xa1, 0x01, 0x58, byte(n - 4)}, r.Bytes(n-4)...)
}

func randByronAttrs(r *vh.Rng) []byte {
	if r.Bool() {
		return vh.PickOne(r, byronAttrChoices)
	}
	return byronAttrsOfLen(r, vh.PickOne(r, byronAttrLens))
}

// nearWitness returns a bootstrap witness (unsigned) that differs from
// (pk, cc, attrs) in exactly the way `diff` names.
func nearWitness(pk, cc, attrs []byte, diff string) (npk, ncc, nat []byte) {
	cp := func(b []byte) []byte { return append([]byte{}, b...) }
	npk, ncc, nat = cp(pk), cp(cc), cp(attrs)
	switch diff {
	case "same":
	case "attr-last":
		if len(nat) == 0 {
			nat = []byte{0xff}
			break
		}
		nat[len(nat)-1] ^= 0xff
	case "attr-last2":
		if len(nat) == 0 {
			nat = []byte{0x0f}
			break
		}
		nat[len(nat)-1] ^= 0x0f
		if len(nat) > 1 {
			nat[len(nat)-2] ^= 0xf0
		}
	case "attr-append-zero":
		nat = append(nat, 0)
	case "attr-empty":
		nat = nil
	case "cc-last":
		// the chain code may already have been cut short by an earlier perturbation of the same case
		if len(ncc) == 0 {
			ncc = []byte{0x01}
			break
		}
		ncc[len(ncc)-1] ^= 0x01
	case "pk-last":
		if len(npk) == 0 {
			npk = []byte{0x01}
			break
		}
		npk[len(npk)-1] ^= 0x01
	default:
		panic("harness: unknown witness difference " + diff)
	}
	return
}

var nearDiffs = []string{"attr-last", "attr-last2", "attr-append-zero", "attr-empty", "cc-last", "pk-last", "same"}

// byronPair: tx1 spends a Byron UTxO of address A with the legitimate bootstrap
// witness; tx2 spends ANOTHER UTxO of the same address with a correctly signed
// bootstrap witness that differs as `diff` says (so, unless diff = same, no
// supplied witness derives A's root).  forward: tx1 then tx2; else tx2 then tx1.
// The second transaction carries the first as its History.
func byronPair(r *vh.Rng, e *eraT, attrLen int, diff string, forward bool) []txCase {
	k := newKey(r)
	cc := r.Bytes(32)
	attrs := byronAttrsOfLen(r, attrLen)
	root := byronRootSpec(k.pub, cc, attrs)
	addr := vh.Hex(addrByron(root, attrs, 0))
	mk := func(pk, wcc, wat []byte, what string) txCase {
		p := &planT{era: e, isValid: true, setTag: e.SetTag && r.Bool()}
		ref := inRef{r.Bytes(32), uint32(r.Intn(4))}
		p.inputs = []inRef{ref}
		utxo := []utxoEnt{{TxId: vh.Hex(ref.TxId), Idx: ref.Idx, Kind: "addr", Addr: addr}}
		var vks []vkwT
		if r.Chance(1, 3) {
			// plus an ordinary key-locked input with its witness
			k2 := newKey(r)
			ref2 := inRef{r.Bytes(32), uint32(r.Intn(4))}
			p.inputs = append(p.inputs, ref2)
			utxo = append(utxo, utxoEnt{TxId: vh.Hex(ref2.TxId), Idx: ref2.Idx, Kind: "addr", Addr: vh.Hex(addrKey(r, k2.hash))})
			body := p.body(r)
			txid := h256(body.Enc())
			vks = append(vks, vkwT{k2.pub, sign(k2, txid)})
			bws := []bwT{{pk, sign(k, txid), wcc, wat}}
			return txCase{Era: e.Name, Tx: vh.Hex(envelope(e, body, witnessSet(p.setTag, vks, bws), true)), Utxo: utxo, Label: what}
		}
		body := p.body(r)
		txid := h256(body.Enc())
		bws := []bwT{{pk, sign(k, txid), wcc, wat}}
		return txCase{Era: e.Name, Tx: vh.Hex(envelope(e, body, witnessSet(p.setTag, nil, bws), true)), Utxo: utxo, Label: what}
	}
	lbl := fmt.Sprintf("history byron attrs=%d diff=%s", attrLen, diff)
	legit := mk(k.pub, cc, attrs, lbl+" legitimate")
	npk, ncc, nat := nearWitness(k.pub, cc, attrs, diff)
	near := mk(npk, ncc, nat, lbl+" near-collision")
	if forward {
		near.Label += " after-legitimate"
		near.History = []txCase{legit}
		return []txCase{legit, near}
	}
	legit.Label += " after-near-collision"
	legit.History = []txCase{near}
	return []txCase{near, legit}
}

// byronHistories: quick = every attribute length with attr-last forward, plus a
// random selection of the other (length, difference, order) combinations;
// thorough = all combinations.
func byronHistories(r *vh.Rng, e *eraT, thorough bool) []txCase {
	var out []txCase
	if thorough {
		for _, n := range byronAttrLens {
			for _, d := range nearDiffs {
				out = append(out, byronPair(r, e, n, d, true)...)
				out = append(out, byronPair(r, e, n, d, false)...)
			}
		}
		return out
	}
	for _, n := range byronAttrLens {
		out = append(out, byronPair(r, e, n, "attr-last", true)...)
	}
	for i := 0; i < 3; i++ {
		out = append(out, byronPair(r, e, vh.PickOne(r, byronAttrLens), vh.PickOne(r, []string{"attr-last", "attr-last2", "attr-append-zero"}), false)...)
	}
	for i := 0; i < 5; i++ {
		out = append(out, byronPair(r, e, vh.PickOne(r, byronAttrLens), vh.PickOne(r, nearDiffs[1:]), true)...)
	}
	return out
}

func sign(k *keyT, msg []byte) []byte { return ed25519.Sign(k.priv, msg) }

func genCase(r *vh.Rng, e *eraT, _ string) txCase {
	return genWith(r, e, genOpts{nReq: -1, nWdrl: -1, reform: -1})
}

func genWith(r *vh.Rng, e *eraT, o genOpts) txCase {
	keys := make([]*keyT, 5)
	for i := range keys {
		keys[i] = newKey(r)
	}
	p := &planT{era: e, isValid: !r.Chance(1, 4), setTag: e.SetTag && !o.noTag && r.Bool(), validFrom: e.Name != "shelley" && r.Chance(1, 3)}
	var utxo []utxoEnt
	var needs []needT
	var labels []string

	mkInput := func(kind string, coll bool) inRef {
		ref := inRef{r.Bytes(32), uint32(r.Intn(4))}
		ent := utxoEnt{TxId: vh.Hex(ref.TxId), Idx: ref.Idx, Kind: "addr"}
		switch kind {
		case "key", "keynear":
			k := keys[r.Intn(4)] // keys[4] never owns anything
			h := k.hash
			if kind == "keynear" || r.Chance(1, 14) {
				h = nearMiss(r, h) // the witness of k is supplied, but k is not the owner
			}
			ent.Addr = vh.Hex(addrKey(r, h))
			needs = append(needs, needT{key: k})
		case "byron":
			k := keys[r.Intn(4)]
			cc := r.Bytes(32)
			at := randByronAttrs(r)
			ent.Addr = vh.Hex(addrByron(byronRootSpec(k.pub, cc, at), at, 0))
			needs = append(needs, needT{byron: true, key: k, cc: cc, attrs: at})
		case "script":
			ent.Addr = vh.Hex(addrScript(r, r.Bytes(28)))
		case "nopay":
			ent.Addr = vh.Hex(addrNoPay(r, keys[r.Intn(4)].hash))
		case "unresolved":
			if r.Bool() {
				return ref // not in the table at all
			}
			ent.Kind = "unresolved"
		case "niloutput":
			ent.Kind = "niloutput"
		}
		utxo = append(utxo, ent)
		return ref
	}

	kinds := o.kinds
	if kinds == nil {
		n := 1 + r.Intn(4)
		if r.Chance(1, 25) {
			n = 0
		}
		for i := 0; i < n; i++ {
			kinds = append(kinds, vh.PickOne(r, inputKinds))
		}
	}
	for _, k := range kinds {
		p.inputs = append(p.inputs, mkInput(k, false))
	}
	labels = append(labels, "in="+strings.Join(kinds, ","))
	if e.Alonzo {
		ck := o.collKind
		if ck == nil && o.kinds == nil && r.Chance(1, 2) {
			for i := 0; i < 1+r.Intn(2); i++ {
				if len(p.inputs) > 0 && r.Chance(2, 5) {
					// the same UTxO as a regular input
					ck = append(ck, fmt.Sprintf("=%d", r.Intn(len(p.inputs))))
				} else {
					ck = append(ck, vh.PickOne(r, collKinds))
				}
			}
		}
		var cl []string
		for _, k := range ck {
			if strings.HasPrefix(k, "=") {
				var i int
				fmt.Sscanf(k, "=%d", &i)
				p.collateral = append(p.collateral, p.inputs[i])
				cl = append(cl, "shared-with-input:"+kinds[i])
			} else {
				p.collateral = append(p.collateral, mkInput(k, true))
				cl = append(cl, k)
			}
		}
		if o.dupColl || (o.collKind == nil && len(p.collateral) > 0 && !p.setTag && r.Chance(1, 20)) {
			p.collateral = append(p.collateral, p.collateral[0])
			cl = append(cl, "dup-of-first")
		}
		if len(cl) > 0 {
			labels = append(labels, "coll="+strings.Join(cl, ","))
		}
	}
	if o.dupIn || (o.kinds == nil && len(p.inputs) > 0 && !p.setTag && r.Chance(1, 20)) {
		p.inputs = append(p.inputs, p.inputs[0])
		labels = append(labels, "dup-input")
	}
	if e.RefInputs {
		rf := o.refs
		if rf == nil && o.kinds == nil && r.Chance(1, 3) {
			for i := 0; i < 1+r.Intn(2); i++ {
				switch x := r.Intn(10); {
				case x < 4 && len(p.inputs) > 0:
					rf = append(rf, fmt.Sprintf("=%d", r.Intn(len(p.inputs))))
				case x < 7 && len(p.collateral) > 0:
					rf = append(rf, fmt.Sprintf("c=%d", r.Intn(len(p.collateral))))
				default:
					rf = append(rf, vh.PickOne(r, inputKinds))
				}
			}
		}
		var rl []string
		for _, k := range rf {
			var i int
			switch {
			case strings.HasPrefix(k, "c="):
				fmt.Sscanf(k, "c=%d", &i)
				p.refInputs = append(p.refInputs, p.collateral[i])
				rl = append(rl, "shared-with-collateral")
			case strings.HasPrefix(k, "="):
				fmt.Sscanf(k, "=%d", &i)
				p.refInputs = append(p.refInputs, p.inputs[i])
				rl = append(rl, "shared-with-input")
			default:
				// a reference input needs no witness: do not record a need
				n := len(needs)
				p.refInputs = append(p.refInputs, mkInput(k, false))
				needs = needs[:n]
				rl = append(rl, k)
			}
		}
		if len(rl) > 0 {
			labels = append(labels, "ref="+strings.Join(rl, ","))
		}
	}
	if e.ReqKey14 {
		n := o.nReq
		if n < 0 {
			n = 0
			if r.Chance(2, 5) {
				n = 1 + r.Intn(2)
			}
		}
		for i := 0; i < n; i++ {
			if o.nReq < 0 && r.Chance(1, 12) {
				p.reqSigners = append(p.reqSigners, r.Bytes(28)) // nobody's key
			} else if o.nearReq || (o.nReq < 0 && r.Chance(1, 10)) {
				k := keys[r.Intn(4)]
				p.reqSigners = append(p.reqSigners, nearMiss(r, k.hash))
				needs = append(needs, needT{key: k})
			} else {
				k := keys[(r.Intn(4)+i)%4]
				if i > 0 && string(p.reqSigners[0]) == string(k.hash) {
					k = keys[(r.Intn(3)+1+i)%4]
					if string(p.reqSigners[0]) == string(k.hash) {
						continue
					}
				}
				p.reqSigners = append(p.reqSigners, k.hash)
				needs = append(needs, needT{key: k})
			}
		}
		if n > 0 {
			labels = append(labels, fmt.Sprintf("req=%d", n))
		}
	}
	{
		n := o.nWdrl
		if n < 0 {
			n = 0
			if r.Chance(1, 4) {
				n = 1 + r.Intn(2)
			}
		}
		for i := 0; i < n; i++ {
			if r.Chance(1, 3) {
				p.wdrls = append(p.wdrls, rewardAddrScript(r, r.Bytes(28)))
			} else {
				k := keys[r.Intn(4)]
				h := k.hash
				if r.Chance(1, 10) {
					h = nearMiss(r, h)
				}
				p.wdrls = append(p.wdrls, rewardAddrKey(r, h))
				needs = append(needs, needT{key: k})
			}
		}
		if n > 0 {
			labels = append(labels, fmt.Sprintf("wdrl=%d", n))
		}
	}

	body := p.body(r)
	canon := body.Enc()
	reform := o.reform == 1 || (o.reform < 0 && r.Chance(1, 4))
	if reform {
		body = vh.Reform(r, body, vh.ReformOpts{Ints: true, Strings: true, Containers: true, Indef: true, Prob: 35})
		labels = append(labels, "reform")
	}
	bodyBytes := body.Enc()
	txid := h256(bodyBytes)

	// the complete valid witness set
	var vks []vkwT
	var bws []bwT
	seen := map[*keyT]bool{}
	for _, n := range needs {
		if n.byron {
			bws = append(bws, bwT{n.key.pub, sign(n.key, txid), n.cc, n.attrs})
		} else if !seen[n.key] {
			seen[n.key] = true
			vks = append(vks, vkwT{n.key.pub, sign(n.key, txid)})
		}
	}

	perts := o.perturb
	if perts == nil {
		np := 0
		switch x := r.Intn(100); {
		case x < 30:
			np = 0
		case x < 75:
			np = 1
		case x < 95:
			np = 2
		default:
			np = 3
		}
		for i := 0; i < np; i++ {
			perts = append(perts, vh.PickOne(r, perturbKinds))
		}
	}
	cp := func(b []byte) []byte { return append([]byte{}, b...) }
	dupKey := false
	noShuffle := false
	for _, pt := range perts {
		applied := true
		switch pt {
		case "drop-vkey":
			if len(vks) == 0 {
				applied = false
				break
			}
			i := r.Intn(len(vks))
			vks = append(vks[:i:i], vks[i+1:]...)
		case "drop-boot":
			if len(bws) == 0 {
				applied = false
				break
			}
			i := r.Intn(len(bws))
			bws = append(bws[:i:i], bws[i+1:]...)
		case "drop-all":
			applied = len(vks)+len(bws) > 0
			vks, bws = nil, nil
		case "extra-vkey":
			k := keys[4]
			if r.Bool() {
				k = newKey(r)
			}
			vks = append(vks, vkwT{k.pub, sign(k, txid)})
		case "extra-boot":
			k := newKey(r)
			bws = append(bws, bwT{k.pub, sign(k, txid), r.Bytes(32), []byte{0xa0}})
		case "wrong-key":
			// a valid but unrelated witness takes the place of an owner's
			if len(vks) == 0 {
				applied = false
				break
			}
			k := newKey(r)
			vks[r.Intn(len(vks))] = vkwT{k.pub, sign(k, txid)}
		case "corrupt-sig":
			if len(vks) == 0 {
				applied = false
				break
			}
			i := r.Intn(len(vks))
			s := cp(vks[i].Sig)
			s[r.Intn(len(s))] ^= 1 << uint(r.Intn(8))
			vks[i].Sig = s
		case "corrupt-boot-sig":
			if len(bws) == 0 {
				applied = false
				break
			}
			i := r.Intn(len(bws))
			s := cp(bws[i].Sig)
			s[r.Intn(len(s))] ^= 1 << uint(r.Intn(8))
			bws[i].Sig = s
		case "other-txid", "sig-over-reencoded-body", "sig-over-body-bytes":
			var msg []byte
			switch pt {
			case "other-txid":
				msg = r.Bytes(32)
			case "sig-over-reencoded-body":
				msg = h256(canon)
			default:
				msg = bodyBytes
			}
			if len(vks) > 0 && (len(bws) == 0 || r.Bool()) {
				i := r.Intn(len(vks))
				for _, k := range keys {
					if string(k.pub) == string(vks[i].Pk) {
						vks[i].Sig = sign(k, msg)
					}
				}
			} else if len(bws) > 0 {
				i := r.Intn(len(bws))
				for _, k := range keys {
					if string(k.pub) == string(bws[i].Pk) {
						bws[i].Sig = sign(k, msg)
					}
				}
			} else {
				applied = false
			}
		case "dup-vkey":
			if len(vks) == 0 {
				applied = false
				break
			}
			vks = append(vks, vks[r.Intn(len(vks))])
		case "same-key-bad-first", "same-key-bad-last":
			// two witnesses with the SAME verification key, one signature corrupted
			if len(vks) == 0 {
				applied = false
				break
			}
			i := r.Intn(len(vks))
			bad := vkwT{vks[i].Pk, cp(vks[i].Sig)}
			bad.Sig[r.Intn(64)%len(bad.Sig)] ^= 1 << uint(r.Intn(8))
			if pt == "same-key-bad-first" {
				vks = append(vks[:i:i], append([]vkwT{bad}, vks[i:]...)...)
			} else {
				vks = append(vks, bad)
			}
			noShuffle = true
		case "pk-sig-swap":
			if len(vks) < 2 {
				applied = false
				break
			}
			vks[0].Sig, vks[1].Sig = vks[1].Sig, vks[0].Sig
		case "short-pk":
			if len(vks) == 0 {
				applied = false
				break
			}
			i := r.Intn(len(vks))
			vks[i].Pk = cp(vks[i].Pk[:31])
		case "short-sig":
			if len(vks) == 0 {
				applied = false
				break
			}
			i := r.Intn(len(vks))
			vks[i].Sig = cp(vks[i].Sig[:63])
		case "long-sig":
			if len(vks) == 0 {
				applied = false
				break
			}
			i := r.Intn(len(vks))
			vks[i].Sig = append(cp(vks[i].Sig), 0)
		case "boot-wrong-cc":
			if len(bws) == 0 {
				applied = false
				break
			}
			i := r.Intn(len(bws))
			c := cp(bws[i].CC)
			c[r.Intn(len(c))] ^= 0x10
			bws[i].CC = c
		case "boot-wrong-attrs":
			if len(bws) == 0 {
				applied = false
				break
			}
			i := r.Intn(len(bws))
			if len(bws[i].Attrs) == 1 {
				bws[i].Attrs = byronAttrChoices[1]
			} else {
				bws[i].Attrs = []byte{0xa0}
			}
		case "boot-attr-last-byte", "boot-attr-append-zero", "boot-empty-attrs", "boot-cc-last-byte":
			if len(bws) == 0 {
				applied = false
				break
			}
			i := r.Intn(len(bws))
			d := map[string]string{"boot-attr-last-byte": "attr-last", "boot-attr-append-zero": "attr-append-zero",
				"boot-empty-attrs": "attr-empty", "boot-cc-last-byte": "cc-last"}[pt]
			_, bws[i].CC, bws[i].Attrs = nearWitness(bws[i].Pk, bws[i].CC, bws[i].Attrs, d)
		case "boot-cc-31":
			if len(bws) == 0 {
				applied = false
				break
			}
			i := r.Intn(len(bws))
			bws[i].CC = cp(bws[i].CC[:31])
		case "boot-short-pk":
			if len(bws) == 0 {
				applied = false
				break
			}
			i := r.Intn(len(bws))
			bws[i].Pk = cp(bws[i].Pk[:31])
		case "boot-short-sig":
			if len(bws) == 0 {
				applied = false
				break
			}
			i := r.Intn(len(bws))
			bws[i].Sig = cp(bws[i].Sig[:63])
		case "dup-wits-key":
			// handled when the witness set is built: key 0 occurs twice, the
			// first occurrence holds a witness with a corrupted signature
			dupKey = true
		case "boot-as-vkey":
			if len(bws) == 0 {
				applied = false
				break
			}
			i := r.Intn(len(bws))
			vks = append(vks, vkwT{bws[i].Pk, bws[i].Sig})
			bws = append(bws[:i:i], bws[i+1:]...)
		default:
			panic("harness: unknown perturbation " + pt)
		}
		if applied {
			labels = append(labels, pt)
		}
	}
	// order of the witnesses on the wire
	if r.Bool() && !noShuffle {
		for i := len(vks) - 1; i > 0; i-- {
			j := r.Intn(i + 1)
			vks[i], vks[j] = vks[j], vks[i]
		}
	}
	wits := witnessSet(p.setTag, vks, bws)
	if dupKey {
		k := newKey(r)
		bad := sign(k, txid)
		bad[5] ^= 4
		wits.Xs = append([]*vh.Item{vh.U(0), setOf(p.setTag, []*vh.Item{vh.A(vh.B(k.pub), vh.B(bad))})}, wits.Xs...)
		wits.F = vh.MinForm(uint64(len(wits.Xs) / 2))
	}
	if reform && r.Bool() {
		wits = vh.Reform(r, wits, vh.ReformOpts{Ints: true, Strings: true, Containers: true, Indef: true, Prob: 25})
	}
	raw := envelope(e, body, wits, p.isValid)
	lbl := strings.Join(labels, " ")
	if o.label != "" {
		lbl = o.label + ": " + lbl
	}
	if e.Envelope4 && !p.isValid {
		lbl += " isValid=false"
	}
	return txCase{Era: e.Name, Tx: vh.Hex(raw), Utxo: utxo, Label: lbl}
}

// corpus: hand-picked scenarios, every era, run first.
func corpus(r *vh.Rng) []txCase {
	var out []txCase
	type sc struct {
		name   string
		o      genOpts
		alonzo bool
	}
	scs := []sc{
		{"valid key+byron", genOpts{kinds: []string{"key", "byron"}, perturb: []string{}}, false},
		{"valid key+script", genOpts{kinds: []string{"key", "script"}, perturb: []string{}}, false},
		{"unrelated witness, owner missing", genOpts{kinds: []string{"key"}, perturb: []string{"wrong-key"}}, false},
		{"unrelated extra witness", genOpts{kinds: []string{"key", "key"}, perturb: []string{"extra-vkey"}}, false},
		{"second witness corrupted", genOpts{kinds: []string{"key", "key", "key"}, perturb: []string{"corrupt-sig"}}, false},
		{"no witnesses at all", genOpts{kinds: []string{"key", "byron"}, perturb: []string{"drop-all"}}, false},
		{"byron without bootstrap", genOpts{kinds: []string{"byron"}, perturb: []string{"drop-boot"}}, false},
		{"byron key as vkey witness", genOpts{kinds: []string{"byron"}, perturb: []string{"boot-as-vkey"}}, false},
		{"byron wrong chain code", genOpts{kinds: []string{"byron"}, perturb: []string{"boot-wrong-cc"}}, false},
		{"byron wrong attributes", genOpts{kinds: []string{"byron"}, perturb: []string{"boot-wrong-attrs"}}, false},
		{"bootstrap signature corrupted", genOpts{kinds: []string{"key", "byron"}, perturb: []string{"corrupt-boot-sig"}}, false},
		{"extra bootstrap witness corrupted", genOpts{kinds: []string{"key"}, perturb: []string{"extra-boot", "corrupt-boot-sig"}}, false},
		{"signature over another tx id", genOpts{kinds: []string{"key"}, perturb: []string{"other-txid"}}, false},
		{"signature over re-encoded body", genOpts{kinds: []string{"key"}, perturb: []string{"sig-over-reencoded-body"}, reform: 1}, false},
		{"non-canonical body, valid", genOpts{kinds: []string{"key", "byron"}, perturb: []string{}, reform: 1}, false},
		{"witness-set key 0 twice, first holds a bad witness", genOpts{kinds: []string{"key"}, perturb: []string{"dup-wits-key"}}, false},
		{"same key twice, corrupted signature first", genOpts{kinds: []string{"key", "key"}, perturb: []string{"same-key-bad-first"}}, false},
		{"same key twice, corrupted signature last", genOpts{kinds: []string{"key", "key"}, perturb: []string{"same-key-bad-last"}}, false},
		{"duplicate witness", genOpts{kinds: []string{"key"}, perturb: []string{"dup-vkey"}}, false},
		{"withdrawal key unwitnessed", genOpts{kinds: []string{"script"}, nWdrl: 1, perturb: []string{"drop-vkey"}}, false},
		{"collateral owner missing", genOpts{kinds: []string{"script"}, collKind: []string{"key"}, perturb: []string{"wrong-key"}}, true},
		{"collateral script-locked", genOpts{kinds: []string{"key"}, collKind: []string{"script"}, perturb: []string{}}, true},
		{"collateral byron with bootstrap", genOpts{kinds: []string{"key"}, collKind: []string{"byron"}, perturb: []string{}}, true},
		{"collateral unresolved", genOpts{kinds: []string{"key"}, collKind: []string{"unresolved"}, perturb: []string{}}, true},
		{"collateral nil output", genOpts{kinds: []string{"key"}, collKind: []string{"niloutput"}, perturb: []string{}}, true},
		{"collateral valid", genOpts{kinds: []string{"script"}, collKind: []string{"key", "key"}, perturb: []string{}}, true},
		{"required signer unwitnessed", genOpts{kinds: []string{"script"}, nReq: 2, perturb: []string{"drop-vkey"}}, true},
		{"required signer one bit off a witnessed key", genOpts{kinds: []string{"key"}, nReq: 1, nearReq: true, perturb: []string{}}, true},
		{"input owner one bit off a witnessed key", genOpts{kinds: []string{"keynear", "key"}, perturb: []string{}}, false},
		{"collateral owner one bit off a witnessed key", genOpts{kinds: []string{"key"}, collKind: []string{"keynear"}, perturb: []string{}}, true},
		{"collateral IS the script-locked input, unrelated witness", genOpts{kinds: []string{"script"}, collKind: []string{"=0"}, perturb: []string{"extra-vkey"}}, true},
		{"collateral IS the script-locked input, other input key-locked", genOpts{kinds: []string{"key", "script"}, collKind: []string{"=1"}, perturb: []string{}}, true},
		{"collateral IS the key-locked input, witnessed", genOpts{kinds: []string{"key"}, collKind: []string{"=0"}, perturb: []string{}}, true},
		{"collateral IS the key-locked input, owner replaced by unrelated witness", genOpts{kinds: []string{"key"}, collKind: []string{"=0"}, perturb: []string{"wrong-key"}}, true},
		{"collateral IS the Byron input with bootstrap witness", genOpts{kinds: []string{"byron", "key"}, collKind: []string{"=0"}, perturb: []string{}}, true},
		{"collateral IS the unresolved input, unrelated witness", genOpts{kinds: []string{"unresolved", "key"}, collKind: []string{"=0"}, perturb: []string{}}, true},
		{"collateral IS the no-payment-credential input", genOpts{kinds: []string{"nopay", "key"}, collKind: []string{"=0"}, perturb: []string{}}, true},
		{"collateral IS the nil-output input", genOpts{kinds: []string{"niloutput", "key"}, collKind: []string{"=0"}, perturb: []string{}}, true},
		{"script UTxO is input, collateral and reference input", genOpts{kinds: []string{"script", "key"}, collKind: []string{"=0"}, refs: []string{"=0"}, perturb: []string{}}, true},
		{"key UTxO is input, collateral and reference input", genOpts{kinds: []string{"key"}, collKind: []string{"=0"}, refs: []string{"=0"}, perturb: []string{}}, true},
		{"script collateral is also reference input", genOpts{kinds: []string{"key"}, collKind: []string{"script"}, refs: []string{"c=0"}, perturb: []string{}}, true},
		{"key collateral is also reference input, owner unwitnessed", genOpts{kinds: []string{"script"}, collKind: []string{"key"}, refs: []string{"c=0"}, perturb: []string{"wrong-key"}}, true},
		{"key input is also reference input, owner unwitnessed", genOpts{kinds: []string{"key"}, refs: []string{"=0"}, perturb: []string{"wrong-key"}}, true},
		{"dup input (untagged), script", genOpts{kinds: []string{"script", "key"}, dupIn: true, noTag: true, perturb: []string{}}, false},
		{"dup input (untagged), key unwitnessed", genOpts{kinds: []string{"key"}, dupIn: true, noTag: true, perturb: []string{"wrong-key"}}, false},
		{"dup collateral (untagged), script first", genOpts{kinds: []string{"key"}, collKind: []string{"script", "key"}, dupColl: true, noTag: true, perturb: []string{}}, true},
		{"dup collateral (untagged), key", genOpts{kinds: []string{"script"}, collKind: []string{"key"}, dupColl: true, noTag: true, perturb: []string{}}, true},
		{"required signer witnessed", genOpts{kinds: []string{"key"}, nReq: 2, perturb: []string{}}, true},
	}
	for _, e := range eras {
		for _, s := range scs {
			if s.alonzo && !e.Alonzo {
				continue
			}
			o := s.o
			o.label = "corpus " + s.name
			out = append(out, genWith(r, e, o))
		}
	}
	return out
}
