package main

// Transaction construction: abstract plan -> CBOR built with vh.Item -> the
// replayable txCase (only hex strings; everything the run needs).

import (
	"crypto/ed25519"
	"hash/crc32"

	"golang.org/x/crypto/blake2b"
	"golang.org/x/crypto/sha3"

	"verifharness/vh"
)

// ---- replayable case ---------------------------------------------------------

// utxoEnt is one entry of the mock ledger state.
type utxoEnt struct {
	TxId string `json:"txid"`
	Idx  uint32 `json:"idx"`
	// Kind: "addr" (resolved, Addr = address bytes), "unresolved" (UtxoById
	// returns an error), "niloutput" (Utxo with nil Output, nil error)
	Kind string `json:"kind"`
	Addr string `json:"addr,omitempty"`
}

type txCase struct {
	Era   string    `json:"era"`
	Tx    string    `json:"tx"`   // full transaction CBOR
	Utxo  []utxoEnt `json:"utxo"` // mock ledger state (inputs not listed are unresolved)
	Label string    `json:"label"`
	// History: transactions the SAME process validates (in this order) before
	// this one.  Signature validation is specified as a function of the
	// transaction and the ledger state alone; a history must not change it.
	History []txCase `json:"history,omitempty"`
}

// ---- keys and hashes ------------------------------------------------------------

type keyT struct {
	priv ed25519.PrivateKey
	pub  []byte
	hash []byte // blake2b-224 of pub
}

func newKey(r *vh.Rng) *keyT {
	priv := ed25519.NewKeyFromSeed(r.Bytes(32))
	pub := []byte(priv.Public().(ed25519.PublicKey))
	return &keyT{priv, pub, h224(pub)}
}

func h224(b []byte) []byte {
	h, _ := blake2b.New(28, nil)
	h.Write(b)
	return h.Sum(nil)
}

func h256(b []byte) []byte {
	h := blake2b.Sum256(b)
	return h[:]
}

func sha3256(b []byte) []byte {
	h := sha3.Sum256(b)
	return h[:]
}

// byronRootSpec: Byron address root of a public-key address, from the Byron
// address specification: blake2b224(sha3_256(cbor [0, [0, xpub], attrs])),
// xpub = pubkey || chaincode (64 bytes), attrs = the attributes map as encoded.
// Built with vh.Item, independent of the repository's byte-prefix code.
func byronRootPreimage(pk, cc, attrs []byte) []byte {
	xpub := append(append([]byte{}, pk...), cc...)
	inner := vh.A(vh.U(0), vh.B(xpub)).Enc()
	out := []byte{0x83}
	out = append(out, vh.U(0).Enc()...)
	out = append(out, inner...)
	out = append(out, attrs...)
	return out
}

func byronRootSpec(pk, cc, attrs []byte) []byte {
	return h224(sha3256(byronRootPreimage(pk, cc, attrs)))
}

// ---- addresses ----------------------------------------------------------------------

func addrKey(r *vh.Rng, pay []byte) []byte {
	switch r.Intn(3) {
	case 0: // enterprise, mainnet / testnet
		return append([]byte{0x60 | byte(r.Intn(2))}, pay...)
	case 1: // base key/key
		return append(append([]byte{0x00 | byte(r.Intn(2))}, pay...), r.Bytes(28)...)
	default: // base key/script
		return append(append([]byte{0x20 | byte(r.Intn(2))}, pay...), r.Bytes(28)...)
	}
}

func addrScript(r *vh.Rng, sh []byte) []byte {
	if r.Bool() {
		return append([]byte{0x70 | byte(r.Intn(2))}, sh...)
	}
	return append(append([]byte{0x10 | byte(r.Intn(2))}, sh...), r.Bytes(28)...)
}

// addrNoPay: a reward-account style address (header 0xe0/0xf0) used as an
// output address: the decoder gives it no payment payload.
func addrNoPay(r *vh.Rng, h []byte) []byte {
	if r.Bool() {
		return append([]byte{0xe1}, h...)
	}
	return append([]byte{0xf1}, h...)
}

// addrByron builds a Byron address [#6.24(bytes .cbor [root, attrs, type]), crc32]
func addrByron(root []byte, attrs []byte, typ uint64) []byte {
	at, _, err := vh.ParseItem(attrs)
	must(err)
	payload := vh.A(vh.B(root), at, vh.U(typ)).Enc()
	return vh.A(vh.TagOf(24, vh.B(payload)), vh.U(uint64(crc32.ChecksumIEEE(payload)))).Enc()
}

func rewardAddrKey(r *vh.Rng, h []byte) []byte { return append([]byte{0xe0 | byte(r.Intn(2))}, h...) }
func rewardAddrScript(r *vh.Rng, h []byte) []byte {
	return append([]byte{0xf0 | byte(r.Intn(2))}, h...)
}

// ---- plan -> CBOR ------------------------------------------------------------------------

type inRef struct {
	TxId []byte
	Idx  uint32
}

type vkwT struct{ Pk, Sig []byte }
type bwT struct{ Pk, Sig, CC, Attrs []byte }

type planT struct {
	era        *eraT
	inputs     []inRef
	collateral []inRef
	refInputs  []inRef
	reqSigners [][]byte
	wdrls      [][]byte // reward address bytes
	isValid    bool
	setTag     bool
	validFrom  bool
}

func inItem(i inRef) *vh.Item { return vh.A(vh.B(i.TxId), vh.U(uint64(i.Idx))) }

func setOf(tag bool, xs []*vh.Item) *vh.Item {
	a := vh.A(xs...)
	if tag {
		return vh.TagOf(258, a)
	}
	return a
}

func (p *planT) body(r *vh.Rng) *vh.Item {
	var ins []*vh.Item
	for _, i := range p.inputs {
		ins = append(ins, inItem(i))
	}
	out := vh.A(vh.B(append([]byte{0x61}, r.Bytes(28)...)), vh.U(1000000+uint64(r.Intn(1000000))))
	kv := []*vh.Item{vh.U(0), setOf(p.setTag, ins), vh.U(1), vh.A(out), vh.U(2), vh.U(170000 + uint64(r.Intn(50000))), vh.U(3), vh.U(uint64(1000 + r.Intn(100000)))}
	if len(p.wdrls) > 0 {
		var m []*vh.Item
		for _, w := range p.wdrls {
			m = append(m, vh.B(w), vh.U(uint64(r.Intn(100000))))
		}
		kv = append(kv, vh.U(5), vh.M(m...))
	}
	if p.validFrom {
		kv = append(kv, vh.U(8), vh.U(uint64(r.Intn(1000))))
	}
	if len(p.collateral) > 0 {
		var cs []*vh.Item
		for _, i := range p.collateral {
			cs = append(cs, inItem(i))
		}
		kv = append(kv, vh.U(13), setOf(p.setTag, cs))
	}
	if len(p.reqSigners) > 0 {
		var rs []*vh.Item
		for _, h := range p.reqSigners {
			rs = append(rs, vh.B(h))
		}
		kv = append(kv, vh.U(14), setOf(p.setTag, rs))
	}
	if len(p.refInputs) > 0 {
		var cs []*vh.Item
		for _, i := range p.refInputs {
			cs = append(cs, inItem(i))
		}
		kv = append(kv, vh.U(18), setOf(p.setTag, cs))
	}
	return vh.M(kv...)
}

func witnessSet(setTag bool, vks []vkwT, bws []bwT) *vh.Item {
	var kv []*vh.Item
	if len(vks) > 0 {
		var xs []*vh.Item
		for _, v := range vks {
			xs = append(xs, vh.A(vh.B(v.Pk), vh.B(v.Sig)))
		}
		kv = append(kv, vh.U(0), setOf(setTag, xs))
	}
	if len(bws) > 0 {
		var xs []*vh.Item
		for _, b := range bws {
			xs = append(xs, vh.A(vh.B(b.Pk), vh.B(b.Sig), vh.B(b.CC), vh.B(b.Attrs)))
		}
		kv = append(kv, vh.U(2), setOf(setTag, xs))
	}
	return vh.M(kv...)
}

func envelope(e *eraT, body, wits *vh.Item, isValid bool) []byte {
	if e.Envelope4 {
		return vh.A(body, wits, vh.BoolItem(isValid), vh.Null()).Enc()
	}
	return vh.A(body, wits, vh.Null()).Enc()
}

// probeEra decodes a transaction carrying collateral (key 13) and required
// signers (key 14) with the era's real decoder and reports which of the two
// the decoded transaction surfaces.
func probeEra(e *eraT) (hasColl, hasReq bool) {
	r := vh.NewRng(7)
	for _, tag := range []bool{false, true} {
		for _, drop14 := range []bool{false, true} {
			p := &planT{era: e, inputs: []inRef{{r.Bytes(32), 0}}, collateral: []inRef{{r.Bytes(32), 1}}, reqSigners: [][]byte{r.Bytes(28)}, setTag: tag, isValid: true}
			if drop14 {
				p.reqSigners = nil
			}
			raw := envelope(e, p.body(r), witnessSet(tag, nil, nil), true)
			var c, q bool
			vh.Recover(func() {
				tx, err := e.Decode(raw)
				if err != nil || tx == nil {
					return
				}
				c = len(tx.Collateral()) > 0
				q = len(tx.RequiredSigners()) > 0
			})
			hasColl = hasColl || c
			hasReq = hasReq || q
		}
	}
	return
}
