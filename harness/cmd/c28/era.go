package main

import (
	"fmt"
	"reflect"
	"regexp"
	"runtime"
	"strings"

	"github.com/blinklabs-io/gouroboros/ledger/allegra"
	"github.com/blinklabs-io/gouroboros/ledger/alonzo"
	"github.com/blinklabs-io/gouroboros/ledger/babbage"
	"github.com/blinklabs-io/gouroboros/ledger/common"
	"github.com/blinklabs-io/gouroboros/ledger/conway"
	"github.com/blinklabs-io/gouroboros/ledger/dijkstra"
	"github.com/blinklabs-io/gouroboros/ledger/mary"
	"github.com/blinklabs-io/gouroboros/ledger/shelley"
)

// eraT describes one ledger era as far as this check is concerned: the REAL
// rule list, the REAL decoder and the shape of the transaction envelope.
type eraT struct {
	Name      string
	Rules     []common.UtxoValidationRuleFunc
	Decode    func([]byte) (common.Transaction, error)
	Envelope4 bool // [body, wits, isValid, aux] instead of [body, wits, aux]
	Alonzo    bool // the generator may emit collateral (13) and required signers (14)
	SetTag    bool // the generator may wrap sets in tag 258
	RefInputs bool // body key 18 (reference inputs) exists
	ReqKey14  bool // key 14 carries required signers (Dijkstra: guards given as a set of key hashes)
}

var eras = []*eraT{
	{Name: "shelley", Rules: shelley.UtxoValidationRules, Decode: func(b []byte) (common.Transaction, error) {
		return wrap(shelley.NewShelleyTransactionFromCbor(b))
	}},
	{Name: "allegra", Rules: allegra.UtxoValidationRules, Decode: func(b []byte) (common.Transaction, error) {
		return wrap(allegra.NewAllegraTransactionFromCbor(b))
	}},
	{Name: "mary", Rules: mary.UtxoValidationRules, Decode: func(b []byte) (common.Transaction, error) {
		return wrap(mary.NewMaryTransactionFromCbor(b))
	}},
	{Name: "alonzo", Rules: alonzo.UtxoValidationRules, Envelope4: true, Alonzo: true, ReqKey14: true, Decode: func(b []byte) (common.Transaction, error) {
		return wrap(alonzo.NewAlonzoTransactionFromCbor(b))
	}},
	{Name: "babbage", Rules: babbage.UtxoValidationRules, RefInputs: true, Envelope4: true, Alonzo: true, ReqKey14: true, Decode: func(b []byte) (common.Transaction, error) {
		return wrap(babbage.NewBabbageTransactionFromCbor(b))
	}},
	{Name: "conway", Rules: conway.UtxoValidationRules, RefInputs: true, Envelope4: true, Alonzo: true, SetTag: true, ReqKey14: true, Decode: func(b []byte) (common.Transaction, error) {
		return wrap(conway.NewConwayTransactionFromCbor(b))
	}},
	{Name: "dijkstra", Rules: dijkstra.UtxoValidationRules, RefInputs: true, Envelope4: false, Alonzo: true, SetTag: true, ReqKey14: true, Decode: func(b []byte) (common.Transaction, error) {
		return wrap(dijkstra.NewDijkstraTransactionFromCbor(b))
	}},
}

func wrap[T common.Transaction](t T, err error) (common.Transaction, error) {
	if err != nil {
		return nil, err
	}
	return t, nil
}

func eraByName(n string) *eraT {
	for _, e := range eras {
		if e.Name == n {
			return e
		}
	}
	return nil
}

func funcName(f any) string {
	return runtime.FuncForPC(reflect.ValueOf(f).Pointer()).Name()
}

// witnessRuleRe selects the witness-related rule functions of an era's rule
// list by the name of the function that is really in the list.
var witnessRuleRe = regexp.MustCompile(`\.(UtxoValidateRequiredVKeyWitnesses|UtxoValidateSignatures|UtxoValidateCollateralVKeyWitnesses)$`)

// witnessRules returns the era's witness-related rules in list order.
func (e *eraT) witnessRules() (fs []common.UtxoValidationRuleFunc, names []string) {
	for _, f := range e.Rules {
		n := funcName(f)
		if witnessRuleRe.MatchString(n) {
			fs = append(fs, f)
			names = append(names, n)
		}
	}
	return
}

func shortName(full string) string {
	full = strings.TrimPrefix(full, "github.com/blinklabs-io/gouroboros/")
	return full
}

func must(err error) {
	if err != nil {
		panic(fmt.Sprint("harness: ", err))
	}
}
