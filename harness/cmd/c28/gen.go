package main

// Translator: regenerates coq/C28/Gen.v from the current tree.
//
//   - per era: the witness-related entries of the era's REAL UtxoValidationRules
//     slice (names by reflection, in list order), each resolved through the Go
//     source (go/ast) along its chain of pure delegating wrappers to the common
//     function it finally calls;
//   - the ordered list of checks inside common.UtxoValidateSignatures (go/ast);
//   - per era: does the real decoder surface collateral (body key 13) and
//     required signers (body key 14) - probed by decoding a transaction.

import (
	"fmt"
	"go/ast"
	"go/parser"
	"go/token"
	"os"
	"path/filepath"
	"strconv"
	"strings"

	"verifharness/vh"
)

const modPrefix = "github.com/blinklabs-io/gouroboros/"

func repoDir() string {
	if d := os.Getenv("VERIF_REPO"); d != "" {
		return d
	}
	return "/repo"
}

type pkgSrc struct {
	fset  *token.FileSet
	funcs map[string]*ast.FuncDecl
	file  map[string]*ast.File // func name -> file (for imports)
}

var pkgCache = map[string]*pkgSrc{}

func loadPkg(importPath string) (*pkgSrc, error) {
	if p, ok := pkgCache[importPath]; ok {
		return p, nil
	}
	dir := filepath.Join(repoDir(), strings.TrimPrefix(importPath, modPrefix))
	fset := token.NewFileSet()
	ents, err := os.ReadDir(dir)
	if err != nil {
		return nil, err
	}
	p := &pkgSrc{fset: fset, funcs: map[string]*ast.FuncDecl{}, file: map[string]*ast.File{}}
	for _, e := range ents {
		n := e.Name()
		if !strings.HasSuffix(n, ".go") || strings.HasSuffix(n, "_test.go") {
			continue
		}
		f, err := parser.ParseFile(fset, filepath.Join(dir, n), nil, 0)
		if err != nil {
			return nil, err
		}
		for _, d := range f.Decls {
			if fd, ok := d.(*ast.FuncDecl); ok && fd.Recv == nil {
				p.funcs[fd.Name.Name] = fd
				p.file[fd.Name.Name] = f
			}
		}
	}
	pkgCache[importPath] = p
	return p, nil
}

func paramNames(fd *ast.FuncDecl) []string {
	var ns []string
	for _, f := range fd.Type.Params.List {
		for _, n := range f.Names {
			ns = append(ns, n.Name)
		}
	}
	return ns
}

// calleeOf resolves the function expression of a call to (importPath, name).
func calleeOf(p *pkgSrc, self string, fn string, call *ast.CallExpr) (string, string, bool) {
	switch f := call.Fun.(type) {
	case *ast.Ident:
		return self, f.Name, true
	case *ast.SelectorExpr:
		id, ok := f.X.(*ast.Ident)
		if !ok {
			return "", "", false
		}
		for _, im := range p.file[fn].Imports {
			path, _ := strconv.Unquote(im.Path.Value)
			name := filepath.Base(path)
			if im.Name != nil {
				name = im.Name.Name
			}
			if name == id.Name {
				return path, f.Sel.Name, true
			}
		}
	}
	return "", "", false
}

// resolveWrapper follows `func F(tx, slot, ls, pp) error { return G(<params>) }`
// chains.  It returns the final (package, function) that is not such a
// wrapper.  The arguments must be parameters of the wrapper passed in their
// original relative order starting with the first (the transaction).
func resolveWrapper(full string) (string, error) {
	i := strings.LastIndex(full, ".")
	pkg, name := full[:i], full[i+1:]
	for depth := 0; depth < 8; depth++ {
		p, err := loadPkg(pkg)
		if err != nil {
			return "", err
		}
		fd := p.funcs[name]
		if fd == nil || fd.Body == nil {
			return "", fmt.Errorf("function %s.%s not found", pkg, name)
		}
		if len(fd.Body.List) != 1 {
			return pkg + "." + name, nil
		}
		ret, ok := fd.Body.List[0].(*ast.ReturnStmt)
		if !ok || len(ret.Results) != 1 {
			return pkg + "." + name, nil
		}
		call, ok := ret.Results[0].(*ast.CallExpr)
		if !ok {
			// e.g. `return nil`: a rule that checks nothing
			return pkg + "." + name + "#noop", nil
		}
		params := paramNames(fd)
		last := -1
		for k, a := range call.Args {
			id, ok := a.(*ast.Ident)
			if !ok {
				return pkg + "." + name, nil
			}
			pos := -1
			for j, pn := range params {
				if pn == id.Name {
					pos = j
				}
			}
			if pos <= last || (k == 0 && pos != 0) {
				return pkg + "." + name + "#args", nil
			}
			last = pos
		}
		np, nn, ok := calleeOf(p, pkg, name, call)
		if !ok {
			return pkg + "." + name, nil
		}
		pkg, name = np, nn
	}
	return "", fmt.Errorf("wrapper chain too deep at %s.%s", pkg, name)
}

// signatureSteps extracts the ordered calls of common.UtxoValidateSignatures:
// the body must be a sequence of `if err := F(...); err != nil { return err }`
// followed by `return nil`; shapeOK is false otherwise.
func signatureSteps() (steps []string, shapeOK bool, err error) {
	p, err := loadPkg(modPrefix + "ledger/common")
	if err != nil {
		return nil, false, err
	}
	fd := p.funcs["UtxoValidateSignatures"]
	if fd == nil {
		return nil, false, fmt.Errorf("common.UtxoValidateSignatures not found")
	}
	shapeOK = true
	for k, st := range fd.Body.List {
		if k == len(fd.Body.List)-1 {
			r, ok := st.(*ast.ReturnStmt)
			if !ok || len(r.Results) != 1 {
				shapeOK = false
			} else if id, ok := r.Results[0].(*ast.Ident); !ok || id.Name != "nil" {
				shapeOK = false
			}
			continue
		}
		is, ok := st.(*ast.IfStmt)
		if !ok || is.Init == nil || is.Else != nil {
			shapeOK = false
			continue
		}
		as, ok := is.Init.(*ast.AssignStmt)
		if !ok || len(as.Rhs) != 1 {
			shapeOK = false
			continue
		}
		call, ok := as.Rhs[0].(*ast.CallExpr)
		if !ok {
			shapeOK = false
			continue
		}
		// condition must be `err != nil` and the body `return err`
		be, ok := is.Cond.(*ast.BinaryExpr)
		if !ok || be.Op != token.NEQ {
			shapeOK = false
		}
		if len(is.Body.List) != 1 {
			shapeOK = false
		} else if r, ok := is.Body.List[0].(*ast.ReturnStmt); !ok || len(r.Results) != 1 {
			shapeOK = false
		} else if id, ok := r.Results[0].(*ast.Ident); !ok || id.Name != "err" {
			shapeOK = false
		}
		if id, ok := call.Fun.(*ast.Ident); ok {
			steps = append(steps, id.Name)
		} else {
			shapeOK = false
		}
	}
	return
}

var stepCoq = map[string]string{
	"ValidateVKeyWitnesses":      "SVKey",
	"ValidateBootstrapWitnesses": "SBoot",
	"ValidateInputVKeyWitnesses": "SInputs",
}

var ruleCoq = map[string]string{
	modPrefix + "ledger/common.ValidateRequiredVKeyWitnesses":   "RReq",
	modPrefix + "ledger/common.UtxoValidateSignatures":          "RSig",
	modPrefix + "ledger/common.ValidateCollateralVKeyWitnesses": "RColl",
}

type eraGen struct {
	Name      string
	Rules     []string // Coq constructors
	Resolved  []string // for the comment
	HasColl   bool
	HasReqSig bool
}

func genTables() ([]eraGen, []string, bool, error) {
	var out []eraGen
	for _, e := range eras {
		_, names := e.witnessRules()
		g := eraGen{Name: e.Name}
		for _, n := range names {
			target, err := resolveWrapper(n)
			if err != nil {
				return nil, nil, false, err
			}
			c, ok := ruleCoq[target]
			if !ok {
				c = "ROther"
			}
			g.Rules = append(g.Rules, c)
			g.Resolved = append(g.Resolved, shortName(n)+" -> "+shortName(target))
		}
		g.HasColl, g.HasReqSig = probeEra(e)
		out = append(out, g)
	}
	steps, shapeOK, err := signatureSteps()
	if err != nil {
		return nil, nil, false, err
	}
	var cs []string
	for _, s := range steps {
		c, ok := stepCoq[s]
		if !ok {
			shapeOK = false
			continue
		}
		cs = append(cs, c)
	}
	return out, cs, shapeOK, nil
}

func gen(outPath string) error {
	tabs, steps, shapeOK, err := genTables()
	if err != nil {
		return err
	}
	var sb strings.Builder
	sb.WriteString("(* GENERATED by harness/cmd/c28 gen from the Go tree - do not edit.\n")
	sb.WriteString("   Witness-related entries of each era's UtxoValidationRules (reflection on the\n")
	sb.WriteString("   real slice, wrappers resolved through go/ast), the calls inside\n")
	sb.WriteString("   common.UtxoValidateSignatures, and decoder probes. *)\n")
	sb.WriteString("From Coq Require Import String.\nFrom V Require Import Lib.Base C28.Model.\nLocal Open Scope string_scope.\n\n")
	sb.WriteString("Record era_info := mk_era { era_name : string; era_rules : list rule; era_has_collateral : bool; era_has_reqsigners : bool }.\n\n")
	for _, g := range tabs {
		for _, r := range g.Resolved {
			fmt.Fprintf(&sb, "(* %s: %s *)\n", g.Name, r)
		}
	}
	sb.WriteString("Definition era_table : list era_info := [\n")
	for i, g := range tabs {
		sep := ";"
		if i == len(tabs)-1 {
			sep = ""
		}
		fmt.Fprintf(&sb, "  mk_era %s [%s] %s %s%s\n", vh.Str(g.Name), strings.Join(g.Rules, "; "), vh.Bool(g.HasColl), vh.Bool(g.HasReqSig), sep)
	}
	sb.WriteString("].\n\n")
	fmt.Fprintf(&sb, "(* common.UtxoValidateSignatures: `if err := F(..); err != nil { return err }` for F in this order, then `return nil` *)\n")
	fmt.Fprintf(&sb, "Definition signatures_steps : list step := [%s].\n", strings.Join(steps, "; "))
	fmt.Fprintf(&sb, "Definition signatures_shape_ok : bool := %s.\n", vh.Bool(shapeOK))
	if outPath == "" {
		fmt.Print(sb.String())
		return nil
	}
	return vh.WriteIfChanged(outPath, sb.String())
}
